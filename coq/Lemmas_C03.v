(** Lemmas for C03: resuming from a checkpoint is indistinguishable from never stopping.
    Part 1: facts about the generic driver loop (any checkpoint type, iteration function, callback):
            appending calls lists, splitting a run at any performed iteration, invariants.
    Part 2: runs from equivalent checkpoints are equivalent (for any relation the ingredients respect).
    Part 3: the composition theorem, generically: run the pieces one after another with a reload
            (write to text, read back) in between.
    Part 4: the three checkpoint kinds: the relation "textually identical", its laws, and the
            instances of part 3.
    (Lemmas_C15.v imports this file.) *)
From Coq Require Import String ZArith NArith Bool Lia List.
From HepMC Require Import Num Result Accum VegasPdf Discrete MultiChannel Iter Chkpt Callback Run Codec Lemmas_Run Lemmas_C05.
Import ListNotations.

(* ================================================================================================ *)
(** * list facts *)
Lemma firstn_length_app {A} (a b : list A) : firstn (length a) (a ++ b) = a.
Proof. induction a as [|x a IH]; cbn; [reflexivity|]. rewrite IH. reflexivity. Qed.
Lemma skipn_length_app {A} (a b : list A) : skipn (length a) (a ++ b) = b.
Proof. induction a as [|x a IH]; cbn; [reflexivity|exact IH]. Qed.
Lemma In_skipn {A} (x : A) n l : In x (skipn n l) -> In x l.
Proof. intros H. rewrite <- (firstn_skipn n l). apply in_or_app. right. exact H. Qed.
Lemma In_firstn {A} (x : A) n l : In x (firstn n l) -> In x l.
Proof. intros H. rewrite <- (firstn_skipn n l). apply in_or_app. left. exact H. Qed.

(* ================================================================================================ *)
(** * the interrupted run: [drun cs c idx] is a driver (hep::plain / vegas / multi_channel with all its
    parameters but the calls list, the checkpoint and the integrand's call counter); [reload] writes a
    checkpoint to text and reads it back.  [run_pieces drun reload p0 [p1; ...; pm] c idx] runs the
    calls p0 from c, then for each further piece reloads the checkpoint reached so far and runs the
    piece from the re-read checkpoint; the logs are concatenated. *)
Section Pieces.
  Variables (C Evt : Type).
  Notation out := (res (C * N * list (iterlog C Evt))).
  Variable drun : list N -> C -> N -> out.
  Variable reload : C -> res C.

  Fixpoint resume_pieces (ps : list (list N)) (c : C) (idx : N) : out :=
    match ps with
    | [] => Ok (c, idx, [])
    | p :: ps' =>
      do c' <- reload c;
      do r1 <- drun p c' idx;
      let '(c1, idx1, ls1) := r1 in
      do r2 <- resume_pieces ps' c1 idx1;
      let '(c2, idx2, ls2) := r2 in
      Ok (c2, idx2, ls1 ++ ls2)
    end.

  Definition run_pieces (p0 : list N) (ps : list (list N)) (c : C) (idx : N) : out :=
    do r1 <- drun p0 c idx;
    let '(c1, idx1, ls1) := r1 in
    do r2 <- resume_pieces ps c1 idx1;
    let '(c2, idx2, ls2) := r2 in
    Ok (c2, idx2, ls1 ++ ls2).
End Pieces.
Arguments resume_pieces {C Evt}. Arguments run_pieces {C Evt}.

(* ================================================================================================ *)
(** * Part 1: the generic driver loop *)
Section RunGen.
  Variables (C R Evt : Type).
  Variable gen_of : C -> res N.
  Variable iterate : C -> N -> N -> N -> res (R * N * N * list Evt).
  Variable add : C -> R -> N -> C.
  Variable cb : C -> bool.
  Notation run_loop := (Run.run_loop C R Evt iterate add cb).
  Notation run := (Run.run C R Evt gen_of iterate add cb).
  Notation Exec := (Lemmas_Run.Exec C R Evt iterate add cb).
  Notation ilog := (iterlog C Evt).
  Notation chks := (Lemmas_Run.chks C Evt).
  Notation continues := (Forall (fun l : ilog => il_continue l = true)).

  Lemma iterlog_eta (l : ilog) : mk_iterlog (il_events l) (il_chk l) (il_continue l) = l.
  Proof. destruct l; reflexivity. Qed.

  (** the converse of [run_loop_exec]: the relation determines the loop's value *)
  Lemma exec_run_loop cs c g idx ls c' idx' rest :
    Exec cs c g idx ls c' idx' rest -> run_loop cs c g idx [] = Ok (c', idx', ls).
  Proof.
    induction 1 as [c g idx|calls cs c g idx l g' idx' Hok Hc|calls cs c g idx l g' idx' ls c' idx'' rest Hok Hc Hex IH].
    - reflexivity.
    - destruct Hok as (r & Hi & Ea & Ec). cbn [Run.run_loop]. rewrite Hi. cbn [bind].
      rewrite <- Ea, <- Ec, iterlog_eta, Hc. reflexivity.
    - destruct Hok as (r & Hi & Ea & Ec). cbn [Run.run_loop]. rewrite Hi. cbn [bind].
      rewrite <- Ea, <- Ec, iterlog_eta, Hc. rewrite run_loop_acc, IH. reflexivity.
  Qed.

  Lemma exec_run cs c g idx ls c' idx' rest :
    gen_of c = Ok g -> Exec cs c g idx ls c' idx' rest -> run cs c idx = Ok (c', idx', ls).
  Proof. intros Hg Hex. unfold Run.run. rewrite Hg. cbn [bind]. eapply exec_run_loop; eauto. Qed.

  Lemma nth_chks_S c l ls j : j <= length ls ->
    nth (S j) (chks c (l :: ls)) c = nth j (chks (il_chk l) ls) (il_chk l).
  Proof.
    intros Hj. unfold Lemmas_Run.chks.
    change (nth (S j) (c :: map (@il_chk C Evt) (l :: ls)) c) with (nth j (il_chk l :: map (@il_chk C Evt) ls) c).
    apply nth_indep. cbn [length]. rewrite map_length. lia.
  Qed.

  (** an invariant of the checkpoints the callback sees *)
  Lemma exec_inv (P : C -> Prop) : (forall c r g, P c -> P (add c r g)) ->
    forall cs c g idx ls c' idx' rest, Exec cs c g idx ls c' idx' rest -> P c ->
    forall x, In x (chks c ls) -> P x.
  Proof.
    intros Hadd cs c g idx ls c' idx' rest Hex.
    induction Hex as [c g idx|calls cs c g idx l g' idx' Hok Hc|calls cs c g idx l g' idx' ls c' idx'' rest Hok Hc Hex IH];
      intros Hp x Hin.
    - destruct Hin as [<-|[]]. exact Hp.
    - destruct Hok as (r & _ & Ea & _). destruct Hin as [<-|[<-|[]]]; [exact Hp|]. rewrite Ea. apply Hadd, Hp.
    - destruct Hok as (r & _ & Ea & _). destruct Hin as [<-|Hin]; [exact Hp|].
      apply IH; [rewrite Ea; apply Hadd, Hp|exact Hin].
  Qed.

  (* the returned checkpoint is the last of them *)
  Lemma exec_final_nth cs c g idx ls c' idx' rest :
    Exec cs c g idx ls c' idx' rest -> c' = nth (length ls) (chks c ls) c.
  Proof.
    induction 1 as [c g idx|calls cs c g idx l g' idx' Hok Hc|calls cs c g idx l g' idx' ls c' idx'' rest Hok Hc Hex IH];
      try reflexivity.
    cbn [length]. rewrite nth_chks_S by lia. exact IH.
  Qed.

  Lemma nth_chks_In c ls j : j <= length ls -> In (nth j (chks c ls) c) (chks c ls).
  Proof. intros Hj. apply nth_In. unfold Lemmas_Run.chks. cbn [length]. rewrite map_length. lia. Qed.

  Lemma chks_skipn_In c ls j x : j <= length ls ->
    In x (chks (nth j (chks c ls) c) (skipn j ls)) -> In x (chks c ls).
  Proof.
    intros Hj [<-|Hin]; [apply nth_chks_In; exact Hj|].
    right. rewrite <- (firstn_skipn j ls), map_app. apply in_or_app. right. exact Hin.
  Qed.

  Lemma chks_firstn_In c ls j x : In x (chks c (firstn j ls)) -> In x (chks c ls).
  Proof.
    intros [<-|Hin]; [left; reflexivity|].
    right. rewrite <- (firstn_skipn j ls), map_app. apply in_or_app. left. exact Hin.
  Qed.

  Lemma nth_chks_firstn c ls j i : i <= j -> j <= length ls ->
    nth i (chks c (firstn j ls)) c = nth i (chks c ls) c.
  Proof.
    intros Hi Hj. destruct i as [|i]; [reflexivity|]. unfold Lemmas_Run.chks. cbn [nth].
    rewrite <- (firstn_skipn j ls) at 2. rewrite map_app, app_nth1; [reflexivity|].
    rewrite map_length, firstn_length. lia.
  Qed.

  (** the generator a checkpoint hands to the next iteration is the one the last iteration left *)
  Hypothesis gen_add : forall c r g, gen_of (add c r g) = Ok g.

  (** splitting at any performed iteration j: the first j calls alone end in the j-th checkpoint, and
      (unless the callback asked to stop exactly there and calls remain) the remaining calls started
      from that checkpoint finish as the whole run did *)
  Lemma exec_split cs c g idx ls c' idx' rest :
    Exec cs c g idx ls c' idx' rest -> gen_of c = Ok g ->
    forall j, j <= length ls ->
    exists gj idxj, gen_of (nth j (chks c ls) c) = Ok gj /\
      Exec (firstn j cs) c g idx (firstn j ls) (nth j (chks c ls) c) idxj [] /\
      ((j < length ls \/ rest = []) ->
       Exec (skipn j cs) (nth j (chks c ls) c) gj idxj (skipn j ls) c' idx' rest).
  Proof.
    induction 1 as [c g idx|calls cs c g idx l g' idx' Hok Hc|calls cs c g idx l g' idx' ls c' idx'' rest Hok Hc Hex IH];
      intros Hg j Hj.
    - assert (j = 0) by (cbn in Hj; lia). subst j. exists g, idx. cbn.
      split; [exact Hg|]. split; [constructor|]. intros _. constructor.
    - destruct j as [|[|j]]; [| |cbn in Hj; lia].
      + exists g, idx. cbn [nth Lemmas_Run.chks firstn skipn]. split; [exact Hg|]. split; [constructor|].
        intros _. eapply ExStop; eauto.
      + exists g', idx'. cbn [nth Lemmas_Run.chks firstn skipn map].
        split; [destruct Hok as (r & _ & Ea & _); rewrite Ea; apply gen_add|].
        split; [eapply ExStop; eauto|].
        intros [Hlt|Hr]; [cbn in Hlt; lia|]. subst cs. constructor.
    - assert (Hg' : gen_of (il_chk l) = Ok g') by (destruct Hok as (r & _ & Ea & _); rewrite Ea; apply gen_add).
      destruct j as [|j].
      + exists g, idx. cbn [nth Lemmas_Run.chks firstn skipn]. split; [exact Hg|]. split; [constructor|].
        intros _. eapply ExGo; eauto.
      + cbn [length] in Hj. assert (Hj' : j <= length ls) by lia.
        destruct (IH Hg' j Hj') as (gj & idxj & G & P & S).
        rewrite nth_chks_S by exact Hj'. exists gj, idxj. split; [exact G|]. split.
        * cbn [firstn]. eapply ExGo; eauto.
        * intros Hcond. cbn [skipn]. apply S. destruct Hcond as [Hlt|Hr]; [left; cbn [length] in Hlt; lia|right; exact Hr].
  Qed.

  (* the performed iterations alone: same end, nothing left *)
  Lemma exec_performed cs c g idx ls c' idx' rest :
    Exec cs c g idx ls c' idx' rest -> Exec (firstn (length ls) cs) c g idx ls c' idx' [].
  Proof.
    induction 1 as [c g idx|calls cs c g idx l g' idx' Hok Hc|calls cs c g idx l g' idx' ls c' idx'' rest Hok Hc Hex IH].
    - constructor.
    - cbn [length firstn]. eapply ExStop; eauto.
    - cbn [length firstn]. eapply ExGo; eauto.
  Qed.

  Lemma run_final_In cs c idx c' idx' ls : run cs c idx = Ok (c', idx', ls) -> In c' (chks c ls).
  Proof.
    intros H. apply run_exec in H as (g & rest & _ & Hex).
    rewrite (exec_final_nth _ _ _ _ _ _ _ _ Hex). apply nth_chks_In. apply le_n.
  Qed.

  (** run level: prefixes *)
  Lemma run_prefix cs c idx c' idx' ls :
    run cs c idx = Ok (c', idx', ls) ->
    forall j, j <= length ls ->
    exists idxj, run (firstn j cs) c idx = Ok (nth j (chks c ls) c, idxj, firstn j ls).
  Proof.
    intros H j Hj. apply run_exec in H as (g & rest & Hg & Hex).
    destruct (exec_split _ _ _ _ _ _ _ _ Hex Hg j Hj) as (gj & idxj & _ & P & _).
    exists idxj. eapply exec_run; eauto.
  Qed.

  (** run level: at a performed iteration j after which the run went on (or which was the last requested
      one) the rest of the calls list, started from the j-th checkpoint, reproduces the rest of the run *)
  Lemma run_split cs c idx c' idx' ls :
    run cs c idx = Ok (c', idx', ls) ->
    forall j, j <= length ls -> (j < length ls \/ length ls = length cs) ->
    exists idxj, run (firstn j cs) c idx = Ok (nth j (chks c ls) c, idxj, firstn j ls) /\
                 run (skipn j cs) (nth j (chks c ls) c) idxj = Ok (c', idx', skipn j ls).
  Proof.
    intros H j Hj Hcond. apply run_exec in H as (g & rest & Hg & Hex).
    pose proof (exec_length _ _ _ _ _ _ _ _ _ _ _ _ _ _ Hex) as Hl.
    destruct (exec_split _ _ _ _ _ _ _ _ Hex Hg j Hj) as (gj & idxj & G & P & S).
    exists idxj. split; [eapply exec_run; eauto|].
    eapply exec_run; [exact G|]. apply S. destruct Hcond as [Hlt|He]; [left; exact Hlt|right].
    destruct rest; [reflexivity|cbn [length] in Hl; lia].
  Qed.

  (** appending calls lists *)
  Lemma run_loop_app cs1 : forall c g idx c1 idx1 ls1,
    run_loop cs1 c g idx [] = Ok (c1, idx1, ls1) -> continues ls1 -> gen_of c = Ok g ->
    exists g1, gen_of c1 = Ok g1 /\
      forall cs2, run_loop (cs1 ++ cs2) c g idx [] =
        match run_loop cs2 c1 g1 idx1 [] with
        | Ok (c2, idx2, ls2) => Ok (c2, idx2, ls1 ++ ls2)
        | UB e => UB e
        end.
  Proof.
    induction cs1 as [|calls cs1 IH]; intros c g idx c1 idx1 ls1 H Hcont Hg.
    - cbn in H. injection H as <- <- <-. exists g. split; [exact Hg|]. intros cs2. cbn [app].
      destruct (run_loop cs2 c g idx []) as [[[c2 idx2] ls2]|e]; reflexivity.
    - cbn [Run.run_loop] in H.
      destruct (iterate c calls g idx) as [[[[r g1] i1] evs]|code] eqn:Ei; cbn [bind] in H; [|discriminate].
      destruct (cb (add c r g1)) eqn:Ecb.
      + rewrite run_loop_acc in H.
        destruct (run_loop cs1 (add c r g1) g1 i1 []) as [[[c2 i2] ls2]|e] eqn:E2; [|discriminate].
        injection H as <- <- <-. cbn [rev app] in Hcont. inversion Hcont as [|x xs Hx Hxs]; subst x xs.
        destruct (IH _ _ _ _ _ _ E2 Hxs (gen_add c r g1)) as (gf & Hgf & Happ).
        exists gf. split; [exact Hgf|]. intros cs2. cbn [app Run.run_loop]. rewrite Ei. cbn [bind]. rewrite Ecb.
        rewrite run_loop_acc, Happ.
        destruct (run_loop cs2 c2 gf i2 []) as [[[c3 i3] ls3]|e]; reflexivity.
      + injection H as <- <- <-. cbn [rev app] in Hcont. inversion Hcont as [|x xs Hx Hxs]; subst x xs.
        cbn in Hx. discriminate.
  Qed.

  Lemma run_app cs1 cs2 c idx c1 idx1 ls1 :
    run cs1 c idx = Ok (c1, idx1, ls1) -> continues ls1 ->
    run (cs1 ++ cs2) c idx =
      match run cs2 c1 idx1 with
      | Ok (c2, idx2, ls2) => Ok (c2, idx2, ls1 ++ ls2)
      | UB e => UB e
      end.
  Proof.
    unfold Run.run. intros H Hcont. apply bind_Ok in H as (g & Hg & H).
    destruct (run_loop_app _ _ _ _ _ _ _ H Hcont Hg) as (g1 & Hg1 & Happ).
    rewrite Hg, Hg1. cbn [bind]. apply Happ.
  Qed.

  (* all performed iterations but the last continue; if all requested iterations were performed, cutting
     before the end leaves only continuing ones *)
  Lemma exec_firstn_continues cs c g idx ls c' idx' rest :
    Exec cs c g idx ls c' idx' rest -> forall j, j < length ls -> continues (firstn j ls).
  Proof.
    induction 1 as [c g idx|calls cs c g idx l g' idx' Hok Hc|calls cs c g idx l g' idx' ls c' idx'' rest Hok Hc Hex IH];
      intros j Hj.
    - cbn in Hj. lia.
    - cbn in Hj. assert (j = 0) by lia. subst j. constructor.
    - destruct j as [|j]; [constructor|]. cbn [firstn]. constructor; [exact Hc|]. apply IH. cbn [length] in Hj. lia.
  Qed.

  (** * Part 2: equivalent checkpoints give equivalent runs *)
  Variable eqv : C -> C -> Prop.
  Hypothesis gen_eqv : forall c c', eqv c c' -> gen_of c = gen_of c'.
  Hypothesis it_eqv : forall c c' calls g idx, eqv c c' -> iterate c calls g idx = iterate c' calls g idx.
  Hypothesis add_eqv : forall c c' r g, eqv c c' -> eqv (add c r g) (add c' r g).
  Hypothesis cb_eqv : forall c c', eqv c c' -> cb c = cb c'.

  Definition log_eqv (l l' : ilog) : Prop :=
    il_events l = il_events l' /\ eqv (il_chk l) (il_chk l') /\ il_continue l = il_continue l'.

  Definition out_eqv (r r' : res (C * N * list ilog)) : Prop :=
    match r, r' with
    | Ok (c1, i1, ls1), Ok (c2, i2, ls2) => eqv c1 c2 /\ i1 = i2 /\ Forall2 log_eqv ls1 ls2
    | UB e, UB e' => e = e'
    | _, _ => False
    end.

  Lemma run_loop_eqv cs : forall c c' g idx, eqv c c' ->
    out_eqv (run_loop cs c g idx []) (run_loop cs c' g idx []).
  Proof.
    induction cs as [|calls cs IH]; intros c c' g idx He.
    - cbn. split; [exact He|]. split; [reflexivity|constructor].
    - cbn [Run.run_loop]. rewrite <- (it_eqv c c' calls g idx He).
      destruct (iterate c calls g idx) as [[[[r g1] i1] evs]|code]; cbn [bind]; [|reflexivity].
      pose proof (add_eqv c c' r g1 He) as He'. rewrite <- (cb_eqv _ _ He').
      destruct (cb (add c r g1)) eqn:Ecb.
      + rewrite (run_loop_acc _ _ _ _ _ _ _ _ _ _ [_]).
        rewrite (run_loop_acc _ _ _ _ _ _ _ (add c' r g1) _ _ [_]).
        specialize (IH _ _ g1 i1 He').
        destruct (run_loop cs (add c r g1) g1 i1 []) as [[[c2 i2] ls2]|e];
          destruct (run_loop cs (add c' r g1) g1 i1 []) as [[[c3 i3] ls3]|e']; cbn in IH |- *; try exact IH.
        destruct IH as (H1 & H2 & H3). split; [exact H1|]. split; [exact H2|].
        constructor; [|exact H3]. repeat split; assumption.
      + cbn. split; [exact He'|]. split; [reflexivity|]. constructor; [|constructor]. repeat split; assumption.
  Qed.

  Lemma run_eqv cs c c' idx : eqv c c' -> out_eqv (run cs c idx) (run cs c' idx).
  Proof.
    intros He. unfold Run.run. rewrite <- (gen_eqv _ _ He).
    destruct (gen_of c) as [g|e]; cbn [bind]; [|reflexivity]. apply run_loop_eqv. exact He.
  Qed.

  Lemma out_eqv_Ok c1 i1 ls1 r' : out_eqv (Ok (c1, i1, ls1)) r' ->
    exists c2 ls2, r' = Ok (c2, i1, ls2) /\ eqv c1 c2 /\ Forall2 log_eqv ls1 ls2.
  Proof.
    destruct r' as [[[c2 i2] ls2]|e]; cbn; [|intros []]. intros (H1 & -> & H3). exists c2, ls2. auto.
  Qed.

  (** * Part 3: composition: pieces of the calls list, a reload before every piece but the first *)
  Variable prep : C -> C.          (* what the driver does to the checkpoint before the loop *)
  Variable reload : C -> res C.    (* write to text, read back *)
  Variable ok : C -> Prop.         (* the checkpoint can be written and read back *)
  Hypothesis eqv_refl : forall c, eqv c c.
  Hypothesis eqv_sym : forall c c', eqv c c' -> eqv c' c.
  Hypothesis eqv_trans : forall a b c, eqv a b -> eqv b c -> eqv a c.
  Hypothesis prep_prep : forall c, prep (prep c) = prep c.
  Hypothesis prep_add : forall c r g, prep c = c -> prep (add c r g) = add c r g.
  Hypothesis prep_eqv : forall c c', ok c -> eqv c c' -> eqv (prep c) (prep c').
  Hypothesis reload_ok : forall c, ok c -> exists c', reload c = Ok c' /\ eqv c' c.
  Hypothesis ok_eqv : forall c c', ok c -> eqv c c' -> ok c'.

  Definition drun (cs : list N) (c : C) (idx : N) := run cs (prep c) idx.

  Lemma logs_eqv_refl (ls : list ilog) : Forall2 log_eqv ls ls.
  Proof. induction ls as [|l t IHt]; constructor; [|exact IHt]. repeat split. apply eqv_refl. Qed.

  Lemma exec_prepped cs c g idx ls c' idx' rest :
    Exec cs c g idx ls c' idx' rest -> prep c = c -> forall x, In x (chks c ls) -> prep x = x.
  Proof. intros Hex. apply (exec_inv (fun x => prep x = x) prep_add _ _ _ _ _ _ _ _ Hex). Qed.

  Lemma resume_pieces_eqv ps : forall c1 d1 idx1 c' idx' ls,
    prep c1 = c1 -> eqv c1 d1 ->
    run (concat ps) c1 idx1 = Ok (c', idx', ls) -> length ls = length (concat ps) ->
    (forall x, In x (chks c1 ls) -> ok x) ->
    exists d' ls', resume_pieces drun reload ps d1 idx1 = Ok (d', idx', ls') /\ eqv c' d' /\ Forall2 log_eqv ls ls'.
  Proof.
    induction ps as [|p ps IH]; intros c1 d1 idx1 c' idx' ls Hprep He Hrun Hlen Hok.
    - cbn [concat] in Hrun. unfold Run.run in Hrun. apply bind_Ok in Hrun as (g & _ & Hrun). cbn in Hrun.
      injection Hrun as <- <- <-. exists d1, []. cbn. split; [reflexivity|]. split; [exact He|constructor].
    - cbn [concat] in Hrun, Hlen.
      assert (Hj : length p <= length ls) by (rewrite Hlen, app_length; lia).
      destruct (run_split _ _ _ _ _ _ Hrun (length p) Hj (or_intror Hlen)) as (idx2 & Hr1 & Hr2).
      rewrite firstn_length_app in Hr1. rewrite skipn_length_app in Hr2.
      set (c2 := nth (length p) (chks c1 ls) c1) in *.
      pose proof Hrun as Hrun'. apply run_exec in Hrun' as (g & rest & Hg & Hex).
      assert (Hin2 : In c2 (chks c1 ls)) by (apply nth_chks_In; exact Hj).
      assert (Hprep2 : prep c2 = c2) by (eapply exec_prepped; eauto).
      (* reload of the equivalent checkpoint, then the piece *)
      assert (Hok1 : ok c1) by (apply Hok; left; reflexivity).
      destruct (reload_ok d1 (ok_eqv _ _ Hok1 He)) as (d1' & Hrel & He1).
      assert (He2 : eqv c1 (prep d1')).
      { rewrite <- Hprep. apply prep_eqv; [exact Hok1|]. eapply eqv_trans; [exact He|apply eqv_sym; exact He1]. }
      pose proof (run_eqv p _ _ idx1 He2) as Hq. rewrite Hr1 in Hq.
      apply out_eqv_Ok in Hq as (d2 & la & Hd & He3 & Hla).
      (* the remaining pieces *)
      assert (Hlen2 : length (skipn (length p) ls) = length (concat ps)).
      { rewrite skipn_length, Hlen, app_length. lia. }
      destruct (IH c2 d2 idx2 c' idx' (skipn (length p) ls) Hprep2 He3 Hr2 Hlen2) as (d' & lb & Hres & He4 & Hlb).
      { intros x Hx. apply Hok. eapply chks_skipn_In; eauto. }
      exists d', (la ++ lb). split.
      + cbn [resume_pieces]. rewrite Hrel. cbn [bind]. unfold drun at 1. rewrite Hd. cbn [bind]. rewrite Hres. reflexivity.
      + split; [exact He4|]. rewrite <- (firstn_skipn (length p) ls). apply Forall2_app; assumption.
  Qed.

  (** the uninterrupted run performed the iterations [p0 ++ concat ps] (all requested ones, or the ones
      before the callback stopped it); running the pieces with a reload before each but the first ends
      in an equivalent checkpoint, with the same integrand-call count and equivalent callback inputs *)
  Lemma run_pieces_eqv p0 ps cs c idx c' idx' ls :
    drun cs c idx = Ok (c', idx', ls) ->
    p0 ++ concat ps = firstn (length ls) cs ->
    (forall x, In x (chks (prep c) ls) -> ok x) ->
    exists d' ls', run_pieces drun reload p0 ps c idx = Ok (d', idx', ls') /\ eqv c' d' /\ Forall2 log_eqv ls ls'.
  Proof.
    intros Hrun Hcut Hok. unfold drun in Hrun.
    pose proof Hrun as Hrun'. apply run_exec in Hrun' as (g & rest & Hg & Hex).
    pose proof (exec_run _ _ _ _ _ _ _ _ Hg (exec_performed _ _ _ _ _ _ _ _ Hex)) as Hfull.
    rewrite <- Hcut in Hfull.
    assert (Hlen : length ls = length (p0 ++ concat ps)).
    { rewrite Hcut, firstn_length. pose proof (exec_length _ _ _ _ _ _ _ _ _ _ _ _ _ _ Hex). lia. }
    assert (Hj : length p0 <= length ls) by (rewrite Hlen, app_length; lia).
    destruct (run_split _ _ _ _ _ _ Hfull (length p0) Hj (or_intror Hlen)) as (idx1 & Hr1 & Hr2).
    rewrite firstn_length_app in Hr1. rewrite skipn_length_app in Hr2.
    set (c1 := nth (length p0) (chks (prep c) ls) (prep c)) in *.
    assert (Hprep1 : prep c1 = c1).
    { eapply exec_prepped; [exact Hex|apply prep_prep|apply nth_chks_In; exact Hj]. }
    assert (Hlen2 : length (skipn (length p0) ls) = length (concat ps)).
    { rewrite skipn_length, Hlen, app_length. lia. }
    destruct (resume_pieces_eqv ps c1 c1 idx1 c' idx' _ Hprep1 (eqv_refl c1) Hr2 Hlen2) as (d' & lb & Hres & He & Hlb).
    { intros x Hx. apply Hok. eapply chks_skipn_In; eauto. }
    exists d', (firstn (length p0) ls ++ lb). split.
    - unfold run_pieces. unfold drun at 1. rewrite Hr1. cbn [bind]. rewrite Hres. reflexivity.
    - split; [exact He|]. rewrite <- (firstn_skipn (length p0) ls) at 1. apply Forall2_app; [|exact Hlb].
      apply logs_eqv_refl.
  Qed.

  (** [run_app] for a driver that prepares the checkpoint first *)
  Lemma drun_app cs1 cs2 c idx c1 idx1 ls1 :
    drun cs1 c idx = Ok (c1, idx1, ls1) -> continues ls1 ->
    drun (cs1 ++ cs2) c idx =
      match drun cs2 c1 idx1 with
      | Ok (c2, idx2, ls2) => Ok (c2, idx2, ls1 ++ ls2)
      | UB e => UB e
      end.
  Proof.
    unfold drun. intros H Hc. rewrite (run_app _ cs2 _ _ _ _ _ H Hc).
    apply run_exec in H as (g & rest & Hg & Hex).
    assert (Hp : prep c1 = c1).
    { eapply exec_prepped; [exact Hex|apply prep_prep|].
      rewrite (exec_final_nth _ _ _ _ _ _ _ _ Hex). apply nth_chks_In. apply le_n. }
    rewrite Hp. reflexivity.
  Qed.

  (** [run_split] for such a driver: cut at any performed iteration j *)
  Lemma drun_split cs c idx c' idx' ls :
    drun cs c idx = Ok (c', idx', ls) ->
    forall j, j <= length ls ->
    exists idxj, drun (firstn j cs) c idx = Ok (nth j (chks (prep c) ls) (prep c), idxj, firstn j ls) /\
      ((j < length ls \/ length ls = length cs) ->
       drun (skipn j cs) (nth j (chks (prep c) ls) (prep c)) idxj = Ok (c', idx', skipn j ls)).
  Proof.
    unfold drun. intros H j Hj. destruct (run_prefix _ _ _ _ _ _ H j Hj) as (idxj & P).
    exists idxj. split; [exact P|]. intros Hcond.
    destruct (run_split _ _ _ _ _ _ H j Hj Hcond) as (idxj' & P' & S'). rewrite P in P'.
    injection P' as <-.
    apply run_exec in H as (g & rest & Hg & Hex).
    assert (Hp : prep (nth j (chks (prep c) ls) (prep c)) = nth j (chks (prep c) ls) (prep c)).
    { eapply exec_prepped; [exact Hex|apply prep_prep|apply nth_chks_In; exact Hj]. }
    rewrite Hp. exact S'.
  Qed.
End RunGen.

(* with Leibniz equality as the relation, equivalent logs are equal *)
Lemma logs_eq {C Evt} (ls ls' : list (iterlog C Evt)) : Forall2 (log_eqv C Evt eq) ls ls' -> ls = ls'.
Proof.
  induction 1 as [|l l' t t' (H1 & H2 & H3) _ IH]; [reflexivity|]. f_equal; [|exact IH].
  destruct l, l'; cbn in *; congruence.
Qed.

(* ================================================================================================ *)
(** * Part 4: the three checkpoint kinds *)
Lemma base_gen_add {R} (b : base R) r g : base_gen (base_add b r g) = Ok g.
Proof. unfold base_gen, base_add. cbn [b_gens]. rewrite rev_app_distr. reflexivity. Qed.

Lemma base_add_results_nonempty {R} (b : base R) r g : b_results (base_add b r g) <> [].
Proof. unfold base_add. cbn [b_results]. intros H. apply app_eq_nil in H as [_ H]. discriminate. Qed.

Section Kinds.
  Context {K : Num}.
  Context (L : Libm K).
  Variable strm : N -> K.
  Variable ps : list (dparams K).
  Variable f : integrand K.
  Variable mp : mcmap K.
  Variable digits10 : string.

  (** ** PLAIN: Leibniz equality *)
  Definition plain_reload (c : pchk K) : res (pchk K) := deser rd_pchk (ser_pchk digits10 c).

  Lemma plain_reload_ok (c : pchk K) : wf_pchk c = true -> exists c', plain_reload c = Ok c' /\ c' = c.
  Proof. intros H. exists c. split; [apply pchk_roundtrip; exact H|reflexivity]. Qed.

  Lemma plain_final_In d cb cs (c : pchk K) idx c' idx' ls :
    plain_run strm ps f d cb cs c idx = Ok (c', idx', ls) -> In c' (chks _ _ c ls).
  Proof. unfold plain_run. apply run_final_In. Qed.

  Lemma plain_pieces d cb p0 pcs cs (c : pchk K) idx c' idx' ls :
    plain_run strm ps f d cb cs c idx = Ok (c', idx', ls) ->
    p0 ++ concat pcs = firstn (length ls) cs ->
    (forall x, In x (chks _ _ c ls) -> wf_pchk x = true) ->
    run_pieces (plain_run strm ps f d cb) plain_reload p0 pcs c idx = Ok (c', idx', ls).
  Proof.
    intros Hrun Hcut Hwf.
    destruct (run_pieces_eqv (pchk K) (plainres K) (event K) base_gen
                (fun _ calls g i => plain_iteration strm ps f d calls g i) base_add cb
                base_gen_add eq
                ltac:(intros ? ? ->; reflexivity) ltac:(intros ? ? ? ? ? ->; reflexivity)
                ltac:(intros ? ? ? ? ->; reflexivity) ltac:(intros ? ? ->; reflexivity)
                (fun c => c) plain_reload (fun c => wf_pchk c = true)
                ltac:(reflexivity) ltac:(intros ? ? ->; reflexivity) ltac:(intros ? ? ? -> ->; reflexivity)
                ltac:(reflexivity) ltac:(reflexivity) ltac:(intros ? ? _ ->; reflexivity)
                plain_reload_ok ltac:(intros ? ? H <-; exact H)
                p0 pcs cs c idx c' idx' ls Hrun Hcut Hwf) as (d' & ls' & Hp & <- & Hl).
    apply logs_eq in Hl. subst ls'. exact Hp.
  Qed.

  (** ** VEGAS *)
  (* what the text shows: results, generators, alpha, and the first grid while there are no results *)
  Definition vchk_eqv (c c' : vchk K) : Prop :=
    vc_base c = vc_base c' /\ vc_alpha c = vc_alpha c' /\
    (b_results (vc_base c) = [] -> vc_first c = vc_first c').
  (* the text exists (pdf_.front() is defined) *)
  Definition vchk_textual (c : vchk K) : Prop := b_results (vc_base c) <> [] \/ vc_first c <> None.
  Definition vchk_ok (c : vchk K) : Prop := wf_vchk c = true /\ vchk_textual c.
  Definition vchk_reload (c : vchk K) : res (vchk K) := do t <- ser_vchk digits10 c; deser rd_vchk t.

  Lemma vchk_eqv_refl c : vchk_eqv c c.
  Proof. repeat split. Qed.
  Lemma vchk_eqv_sym c c' : vchk_eqv c c' -> vchk_eqv c' c.
  Proof. intros (H1 & H2 & H3). repeat split; auto. intros Hr. symmetry. apply H3. rewrite H1. exact Hr. Qed.
  Lemma vchk_eqv_trans a b c : vchk_eqv a b -> vchk_eqv b c -> vchk_eqv a c.
  Proof.
    intros (H1 & H2 & H3) (G1 & G2 & G3). repeat split; try congruence.
    intros Hr. rewrite H3 by exact Hr. apply G3. rewrite <- H1. exact Hr.
  Qed.

  Lemma vchk_eqv_ser c c' : vchk_eqv c c' -> ser_vchk digits10 c = ser_vchk digits10 c'.
  Proof.
    destruct c as [b a bi fi], c' as [b' a' bi' fi']. unfold vchk_eqv, ser_vchk. cbn [vc_base vc_alpha vc_first].
    intros (<- & <- & H3). destruct (b_results b) as [|r rs]; [rewrite H3 by reflexivity|]; reflexivity.
  Qed.

  Lemma vchk_ser_eqv c c' t : wf_vchk c = true -> wf_vchk c' = true ->
    ser_vchk digits10 c = Ok t -> ser_vchk digits10 c' = Ok t -> vchk_eqv c c'.
  Proof. intros H1 H2 E1 E2. exact (vchk_text_determines digits10 c c' t H1 H2 E1 E2). Qed.

  Lemma vchk_reread_eqv c : vchk_eqv (vchk_reread c) c.
  Proof.
    unfold vchk_eqv, vchk_reread. cbn [vc_base vc_alpha vc_first]. repeat split.
    intros ->. reflexivity.
  Qed.

  Lemma vchk_reload_reread c : vchk_ok c -> vchk_reload c = Ok (vchk_reread c).
  Proof.
    intros [Hwf Ht]. apply (ser_vchk_defined digits10) in Ht as (t & Ht).
    unfold vchk_reload. rewrite Ht. cbn [bind]. apply (vchk_deser digits10); assumption.
  Qed.

  Lemma vchk_reload_ok c : vchk_ok c -> exists c', vchk_reload c = Ok c' /\ vchk_eqv c' c.
  Proof. intros H. exists (vchk_reread c). split; [apply vchk_reload_reread; exact H|apply vchk_reread_eqv]. Qed.

  Lemma vchk_ok_eqv c c' : vchk_ok c -> vchk_eqv c c' -> vchk_ok c'.
  Proof.
    destruct c as [b a bi fi], c' as [b' a' bi' fi']. unfold vchk_ok, vchk_eqv, wf_vchk, vchk_textual.
    cbn [vc_base vc_alpha vc_first]. intros [Hwf Ht] (<- & <- & H3).
    destruct (b_results b) as [|r rs]; [rewrite <- H3 by reflexivity; auto|].
    split; [exact Hwf|left; discriminate].
  Qed.

  Lemma vchk_gen_eqv c c' : vchk_eqv c c' -> base_gen (vc_base c) = base_gen (vc_base c').
  Proof. intros (-> & _). reflexivity. Qed.

  Lemma vchk_pdf_eqv c c' : vchk_eqv c c' -> vchk_pdf L c = vchk_pdf L c'.
  Proof.
    destruct c as [b a bi fi], c' as [b' a' bi' fi']. unfold vchk_eqv, vchk_pdf. cbn [vc_base vc_alpha vc_first].
    intros (<- & <- & H3). destruct (b_results b) as [|r rs]; [rewrite H3 by reflexivity; reflexivity|].
    destruct (rev (r :: rs)) eqn:E; [|reflexivity].
    apply (f_equal (@length _)) in E. rewrite rev_length in E. discriminate.
  Qed.

  Definition vegas_iter (c : vchk K) (calls g i : N) :=
    do p <- vchk_pdf L c; vegas_iteration strm ps f p calls g i.

  Lemma vegas_iter_eqv c c' calls g i : vchk_eqv c c' -> vegas_iter c calls g i = vegas_iter c' calls g i.
  Proof. intros H. unfold vegas_iter. rewrite (vchk_pdf_eqv _ _ H). reflexivity. Qed.

  Lemma vchk_add_eqv c c' r g : vchk_eqv c c' -> vchk_eqv (vchk_add c r g) (vchk_add c' r g).
  Proof.
    intros (H1 & H2 & _). unfold vchk_eqv, vchk_add. cbn [vc_base vc_alpha vc_first].
    split; [rewrite H1; reflexivity|]. split; [exact H2|].
    intros Hr. exfalso. exact (base_add_results_nonempty _ _ _ Hr).
  Qed.

  Lemma vchk_dim_dim (c : vchk K) d : vchk_dimensions (vchk_dimensions c d) d = vchk_dimensions c d.
  Proof.
    unfold vchk_dimensions. destruct (b_results (vc_base c)) as [|r rs] eqn:Er; [destruct (vc_first c) eqn:Ef|];
      cbn [vc_base vc_first]; rewrite ?Er, ?Ef; reflexivity.
  Qed.
  Lemma vchk_dim_add (c : vchk K) r g d : vchk_dimensions (vchk_add c r g) d = vchk_add c r g.
  Proof.
    unfold vchk_dimensions. pose proof (base_add_results_nonempty (vc_base c) r g) as Hn.
    cbn [vchk_add vc_base]. destruct (b_results (base_add (vc_base c) r g)); [congruence|reflexivity].
  Qed.
  Lemma vchk_dim_eqv c c' d : vchk_textual c -> vchk_eqv c c' ->
    vchk_eqv (vchk_dimensions c d) (vchk_dimensions c' d).
  Proof.
    destruct c as [b a bi fi], c' as [b' a' bi' fi']. unfold vchk_textual, vchk_eqv, vchk_dimensions.
    cbn [vc_base vc_alpha vc_first vc_bins]. intros Ht (<- & <- & H3).
    destruct (b_results b) as [|r rs] eqn:Er.
    - rewrite <- H3 by reflexivity. destruct fi as [p|]; [|destruct Ht as [Ht|Ht]; congruence].
      cbn [vc_base vc_alpha vc_first]. auto.
    - cbn [vc_base vc_alpha vc_first]. rewrite Er. repeat split. intros; discriminate.
  Qed.
  Lemma vchk_dim_textual (c : vchk K) d : vchk_textual (vchk_dimensions c d).
  Proof.
    unfold vchk_textual, vchk_dimensions.
    destruct (b_results (vc_base c)) as [|r rs] eqn:Er; [destruct (vc_first c) eqn:Ef|];
      cbn [vc_base vc_first]; rewrite ?Er, ?Ef; [right|right|left]; discriminate.
  Qed.
  Lemma vchk_add_textual (c : vchk K) r g : vchk_textual (vchk_add c r g).
  Proof. left. apply base_add_results_nonempty. Qed.

  Lemma cb_vegas_eqv target c c' : vchk_eqv c c' -> cb_vegas target c = cb_vegas target c'.
  Proof. intros (H1 & _). unfold cb_vegas. rewrite H1. reflexivity. Qed.

  (* the runs of equivalent, writable checkpoints are equivalent *)
  Lemma vegas_run_eqv d cb cs c c' idx :
    (forall x y, vchk_eqv x y -> cb x = cb y) -> vchk_textual c -> vchk_eqv c c' ->
    out_eqv (vchk K) (event K) vchk_eqv
      (vegas_run L strm ps f d cb cs c idx) (vegas_run L strm ps f d cb cs c' idx).
  Proof.
    intros Hcb Ht He. unfold vegas_run.
    apply (run_eqv (vchk K) (vegasres K) (event K) (fun c => base_gen (vc_base c)) vegas_iter vchk_add cb vchk_eqv
             vchk_gen_eqv vegas_iter_eqv vchk_add_eqv Hcb).
    apply vchk_dim_eqv; assumption.
  Qed.

  (* all checkpoints a run shows to the callback have a text *)
  Lemma vegas_chks_textual d cb cs c idx c' idx' ls :
    vegas_run L strm ps f d cb cs c idx = Ok (c', idx', ls) ->
    forall x, In x (chks _ _ (vchk_dimensions c d) ls) -> vchk_textual x.
  Proof.
    unfold vegas_run. intros H. apply run_exec in H as (g & rest & Hg & Hex).
    apply (exec_inv _ _ _ _ _ _ vchk_textual (fun c r g _ => vchk_add_textual c r g) _ _ _ _ _ _ _ _ Hex).
    apply vchk_dim_textual.
  Qed.

  Lemma vegas_final_In d cb cs (c : vchk K) idx c' idx' ls :
    vegas_run L strm ps f d cb cs c idx = Ok (c', idx', ls) -> In c' (chks _ _ (vchk_dimensions c d) ls).
  Proof. unfold vegas_run. apply run_final_In. Qed.

  Lemma vegas_pieces d cb p0 pcs cs (c : vchk K) idx c' idx' ls :
    (forall x y, vchk_eqv x y -> cb x = cb y) ->
    vegas_run L strm ps f d cb cs c idx = Ok (c', idx', ls) ->
    p0 ++ concat pcs = firstn (length ls) cs ->
    (forall x, In x (chks _ _ (vchk_dimensions c d) ls) -> wf_vchk x = true) ->
    exists d' ls', run_pieces (vegas_run L strm ps f d cb) vchk_reload p0 pcs c idx = Ok (d', idx', ls') /\
      vchk_eqv c' d' /\ Forall2 (log_eqv _ _ vchk_eqv) ls ls' /\
      ser_vchk digits10 d' = ser_vchk digits10 c' /\ (exists t, ser_vchk digits10 c' = Ok t).
  Proof.
    intros Hcb Hrun Hcut Hwf.
    assert (Hok : forall x, In x (chks _ _ (vchk_dimensions c d) ls) -> vchk_ok x).
    { intros x Hx. split; [apply Hwf; exact Hx|eapply vegas_chks_textual; eauto]. }
    destruct (run_pieces_eqv (vchk K) (vegasres K) (event K) (fun c => base_gen (vc_base c)) vegas_iter vchk_add cb
                (fun c r g => base_gen_add (vc_base c) r g) vchk_eqv
                vchk_gen_eqv vegas_iter_eqv vchk_add_eqv Hcb
                (fun c => vchk_dimensions c d) vchk_reload vchk_ok
                vchk_eqv_refl vchk_eqv_sym vchk_eqv_trans
                (fun c => vchk_dim_dim c d) (fun c r g _ => vchk_dim_add c r g d)
                (fun c c' H => vchk_dim_eqv c c' d (proj2 H))
                vchk_reload_ok vchk_ok_eqv
                p0 pcs cs c idx c' idx' ls Hrun Hcut Hok) as (d' & ls' & Hp & He & Hl).
    exists d', ls'. split; [exact Hp|]. split; [exact He|]. split; [exact Hl|].
    split; [symmetry; apply vchk_eqv_ser; exact He|].
    apply (ser_vchk_defined digits10). eapply vegas_chks_textual; [exact Hrun|].
    unfold vegas_run in Hrun. apply run_exec in Hrun as (g & rest & Hg & Hex).
    rewrite (exec_final_nth _ _ _ _ _ _ _ _ _ _ _ _ _ _ Hex). apply nth_chks_In. apply le_n.
  Qed.

  (** ** multi-channel *)
  Definition mchk_eqv (c c' : mchk K) : Prop :=
    mc_base c = mc_base c' /\ mc_beta c = mc_beta c' /\ mc_minw c = mc_minw c' /\
    (b_results (mc_base c) = [] -> mc_first c = mc_first c').
  Definition mchk_reload (c : mchk K) : res (mchk K) := deser rd_mchk (ser_mchk digits10 c).

  Lemma mchk_eqv_refl c : mchk_eqv c c.
  Proof. repeat split. Qed.
  Lemma mchk_eqv_sym c c' : mchk_eqv c c' -> mchk_eqv c' c.
  Proof. intros (H1 & H2 & H3 & H4). repeat split; auto. intros Hr. symmetry. apply H4. rewrite H1. exact Hr. Qed.
  Lemma mchk_eqv_trans a b c : mchk_eqv a b -> mchk_eqv b c -> mchk_eqv a c.
  Proof.
    intros (H1 & H2 & H3 & H4) (G1 & G2 & G3 & G4). repeat split; try congruence.
    intros Hr. rewrite H4 by exact Hr. apply G4. rewrite <- H1. exact Hr.
  Qed.

  Lemma mchk_eqv_ser c c' : mchk_eqv c c' -> ser_mchk digits10 c = ser_mchk digits10 c'.
  Proof.
    destruct c as [b a m fi], c' as [b' a' m' fi']. unfold mchk_eqv, ser_mchk. cbn [mc_base mc_beta mc_minw mc_first].
    intros (<- & <- & <- & H4). destruct (b_results b) as [|r rs]; [rewrite H4 by reflexivity|]; reflexivity.
  Qed.

  Lemma mchk_ser_eqv c c' : wf_mchk c = true -> wf_mchk c' = true ->
    ser_mchk digits10 c = ser_mchk digits10 c' -> mchk_eqv c c'.
  Proof. intros H1 H2 E. exact (mchk_text_determines digits10 c c' H1 H2 E). Qed.

  Lemma mchk_reread_eqv c : mchk_eqv (mchk_reread c) c.
  Proof.
    unfold mchk_eqv, mchk_reread. cbn [mc_base mc_beta mc_minw mc_first]. repeat split.
    intros ->. reflexivity.
  Qed.

  Lemma mchk_reload_ok c : wf_mchk c = true -> exists c', mchk_reload c = Ok c' /\ mchk_eqv c' c.
  Proof. intros H. exists (mchk_reread c). split; [apply mchk_deser; exact H|apply mchk_reread_eqv]. Qed.

  Lemma mchk_wf_eqv c c' : wf_mchk c = true -> mchk_eqv c c' -> wf_mchk c' = true.
  Proof. unfold wf_mchk. intros H (<- & _). exact H. Qed.

  Lemma mchk_gen_eqv c c' : mchk_eqv c c' -> base_gen (mc_base c) = base_gen (mc_base c').
  Proof. intros (-> & _). reflexivity. Qed.

  Lemma mchk_weights_eqv c c' : mchk_eqv c c' -> mchk_weights L c = mchk_weights L c'.
  Proof.
    destruct c as [b a m fi], c' as [b' a' m' fi']. unfold mchk_eqv, mchk_weights. cbn [mc_base mc_beta mc_minw mc_first].
    intros (<- & <- & <- & H4). destruct (b_results b) as [|r rs]; [rewrite H4 by reflexivity; reflexivity|].
    destruct (rev (r :: rs)) eqn:E; [|reflexivity].
    apply (f_equal (@length _)) in E. rewrite rev_length in E. discriminate.
  Qed.

  Definition mc_iter (d : nat) (c : mchk K) (calls g i : N) :=
    do ws <- mchk_weights L c; mc_iteration strm ps f mp d ws calls g i.

  Lemma mc_iter_eqv d c c' calls g i : mchk_eqv c c' -> mc_iter d c calls g i = mc_iter d c' calls g i.
  Proof. intros H. unfold mc_iter. rewrite (mchk_weights_eqv _ _ H). reflexivity. Qed.

  Lemma mchk_add_eqv c c' r g : mchk_eqv c c' -> mchk_eqv (mchk_add c r g) (mchk_add c' r g).
  Proof.
    intros (H1 & H2 & H3 & _). unfold mchk_eqv, mchk_add. cbn [mc_base mc_beta mc_minw mc_first].
    split; [rewrite H1; reflexivity|]. split; [exact H2|]. split; [exact H3|].
    intros Hr. exfalso. exact (base_add_results_nonempty _ _ _ Hr).
  Qed.

  Lemma mchk_chan_chan (c : mchk K) n : mchk_channels (mchk_channels c n) n = mchk_channels c n.
  Proof.
    destruct c as [b a m fi]. unfold mchk_channels. cbn [mc_base mc_beta mc_minw mc_first].
    destruct fi as [|w ws]; cbn [mc_base mc_beta mc_minw mc_first]; [|reflexivity].
    destruct (repeat (div K (one K) (ofN K n)) (N.to_nat n)); reflexivity.
  Qed.
  Lemma mchk_chan_add (c : mchk K) r g n : mchk_channels c n = c -> mchk_channels (mchk_add c r g) n = mchk_add c r g.
  Proof.
    destruct c as [b a m fi]. unfold mchk_channels, mchk_add. cbn [mc_base mc_beta mc_minw mc_first].
    destruct fi as [|w ws]; [|reflexivity]. intros H. injection H as H. rewrite H. reflexivity.
  Qed.
  Lemma mchk_chan_eqv c c' n : mchk_eqv c c' -> mchk_eqv (mchk_channels c n) (mchk_channels c' n).
  Proof.
    destruct c as [b a m fi], c' as [b' a' m' fi']. unfold mchk_eqv, mchk_channels.
    cbn [mc_base mc_beta mc_minw mc_first]. intros (<- & <- & <- & H4).
    destruct fi as [|w ws], fi' as [|w' ws']; cbn [mc_base mc_beta mc_minw mc_first]; repeat split;
      intros Hr; specialize (H4 Hr); congruence.
  Qed.

  Lemma cb_mc_eqv target c c' : mchk_eqv c c' -> cb_mc target c = cb_mc target c'.
  Proof. intros (H1 & _). unfold cb_mc. rewrite H1. reflexivity. Qed.

  Lemma mc_run_eqv d n cb cs c c' idx :
    (forall x y, mchk_eqv x y -> cb x = cb y) -> mchk_eqv c c' ->
    out_eqv (mchk K) (event K) mchk_eqv
      (mc_run L strm ps f mp d n cb cs c idx) (mc_run L strm ps f mp d n cb cs c' idx).
  Proof.
    intros Hcb He. unfold mc_run.
    apply (run_eqv (mchk K) (mcres_mc K) (event K) (fun c => base_gen (mc_base c)) (mc_iter d) mchk_add cb mchk_eqv
             mchk_gen_eqv (mc_iter_eqv d) mchk_add_eqv Hcb).
    apply mchk_chan_eqv; assumption.
  Qed.

  Lemma mc_final_In d n cb cs (c : mchk K) idx c' idx' ls :
    mc_run L strm ps f mp d n cb cs c idx = Ok (c', idx', ls) -> In c' (chks _ _ (mchk_channels c n) ls).
  Proof. unfold mc_run. apply run_final_In. Qed.

  Lemma mc_pieces d n cb p0 pcs cs (c : mchk K) idx c' idx' ls :
    (forall x y, mchk_eqv x y -> cb x = cb y) ->
    mc_run L strm ps f mp d n cb cs c idx = Ok (c', idx', ls) ->
    p0 ++ concat pcs = firstn (length ls) cs ->
    (forall x, In x (chks _ _ (mchk_channels c n) ls) -> wf_mchk x = true) ->
    exists d' ls', run_pieces (mc_run L strm ps f mp d n cb) mchk_reload p0 pcs c idx = Ok (d', idx', ls') /\
      mchk_eqv c' d' /\ Forall2 (log_eqv _ _ mchk_eqv) ls ls' /\
      ser_mchk digits10 d' = ser_mchk digits10 c'.
  Proof.
    intros Hcb Hrun Hcut Hwf.
    destruct (run_pieces_eqv (mchk K) (mcres_mc K) (event K) (fun c => base_gen (mc_base c)) (mc_iter d) mchk_add cb
                (fun c r g => base_gen_add (mc_base c) r g) mchk_eqv
                mchk_gen_eqv (mc_iter_eqv d) mchk_add_eqv Hcb
                (fun c => mchk_channels c n) mchk_reload (fun c => wf_mchk c = true)
                mchk_eqv_refl mchk_eqv_sym mchk_eqv_trans
                (fun c => mchk_chan_chan c n) (fun c r g H => mchk_chan_add c r g n H)
                (fun c c' _ H => mchk_chan_eqv c c' n H)
                mchk_reload_ok mchk_wf_eqv
                p0 pcs cs c idx c' idx' ls Hrun Hcut Hwf) as (d' & ls' & Hp & He & Hl).
    exists d', ls'. split; [exact Hp|]. split; [exact He|]. split; [exact Hl|].
    symmetry; apply mchk_eqv_ser; exact He.
  Qed.

  (** ** appending calls lists, for the three drivers *)
  Lemma plain_run_app d cb cs1 cs2 (c : pchk K) idx c1 idx1 ls1 :
    plain_run strm ps f d cb cs1 c idx = Ok (c1, idx1, ls1) -> Forall (fun l => il_continue l = true) ls1 ->
    plain_run strm ps f d cb (cs1 ++ cs2) c idx =
      match plain_run strm ps f d cb cs2 c1 idx1 with
      | Ok (c2, idx2, ls2) => Ok (c2, idx2, ls1 ++ ls2)
      | UB e => UB e
      end.
  Proof. unfold plain_run. apply run_app. apply base_gen_add. Qed.

  Lemma vegas_run_app d cb cs1 cs2 (c : vchk K) idx c1 idx1 ls1 :
    vegas_run L strm ps f d cb cs1 c idx = Ok (c1, idx1, ls1) -> Forall (fun l => il_continue l = true) ls1 ->
    vegas_run L strm ps f d cb (cs1 ++ cs2) c idx =
      match vegas_run L strm ps f d cb cs2 c1 idx1 with
      | Ok (c2, idx2, ls2) => Ok (c2, idx2, ls1 ++ ls2)
      | UB e => UB e
      end.
  Proof.
    exact (drun_app (vchk K) (vegasres K) (event K) (fun c => base_gen (vc_base c)) vegas_iter vchk_add cb
             (fun c r g => base_gen_add (vc_base c) r g)
             (fun c => vchk_dimensions c d) (fun c => vchk_dim_dim c d) (fun c r g _ => vchk_dim_add c r g d)
             cs1 cs2 c idx c1 idx1 ls1).
  Qed.

  Lemma mc_run_app d n cb cs1 cs2 (c : mchk K) idx c1 idx1 ls1 :
    mc_run L strm ps f mp d n cb cs1 c idx = Ok (c1, idx1, ls1) -> Forall (fun l => il_continue l = true) ls1 ->
    mc_run L strm ps f mp d n cb (cs1 ++ cs2) c idx =
      match mc_run L strm ps f mp d n cb cs2 c1 idx1 with
      | Ok (c2, idx2, ls2) => Ok (c2, idx2, ls1 ++ ls2)
      | UB e => UB e
      end.
  Proof.
    exact (drun_app (mchk K) (mcres_mc K) (event K) (fun c => base_gen (mc_base c)) (mc_iter d) mchk_add cb
             (fun c r g => base_gen_add (mc_base c) r g)
             (fun c => mchk_channels c n) (fun c => mchk_chan_chan c n) (fun c r g H => mchk_chan_add c r g n H)
             cs1 cs2 c idx c1 idx1 ls1).
  Qed.

  (** ** the relation "textually identical", bundled *)
  Lemma vchk_eqv_laws :
    (forall c : vchk K, vchk_eqv c c) /\ (forall c c' : vchk K, vchk_eqv c c' -> vchk_eqv c' c) /\
    (forall a b c : vchk K, vchk_eqv a b -> vchk_eqv b c -> vchk_eqv a c).
  Proof. split; [exact vchk_eqv_refl|]. split; [exact vchk_eqv_sym|exact vchk_eqv_trans]. Qed.

  Lemma vchk_eqv_text :
    (forall c c', vchk_eqv c c' -> ser_vchk digits10 c = ser_vchk digits10 c') /\
    (forall c c' t, wf_vchk c = true -> wf_vchk c' = true ->
       ser_vchk digits10 c = Ok t -> ser_vchk digits10 c' = Ok t -> vchk_eqv c c') /\
    (forall c, wf_vchk c = true -> vchk_textual c -> exists c', vchk_reload c = Ok c' /\ vchk_eqv c' c).
  Proof.
    split; [exact vchk_eqv_ser|]. split; [exact vchk_ser_eqv|].
    intros c H1 H2. apply vchk_reload_ok. split; assumption.
  Qed.

  Lemma mchk_eqv_laws :
    (forall c : mchk K, mchk_eqv c c) /\ (forall c c' : mchk K, mchk_eqv c c' -> mchk_eqv c' c) /\
    (forall a b c : mchk K, mchk_eqv a b -> mchk_eqv b c -> mchk_eqv a c).
  Proof. split; [exact mchk_eqv_refl|]. split; [exact mchk_eqv_sym|exact mchk_eqv_trans]. Qed.

  Lemma mchk_eqv_text :
    (forall c c', mchk_eqv c c' -> ser_mchk digits10 c = ser_mchk digits10 c') /\
    (forall c c', wf_mchk c = true -> wf_mchk c' = true ->
       ser_mchk digits10 c = ser_mchk digits10 c' -> mchk_eqv c c') /\
    (forall c, wf_mchk c = true -> exists c', mchk_reload c = Ok c' /\ mchk_eqv c' c).
  Proof. split; [exact mchk_eqv_ser|]. split; [exact mchk_ser_eqv|exact mchk_reload_ok]. Qed.

  Lemma pchk_text :
    (forall c c' : pchk K, wf_pchk c = true -> wf_pchk c' = true ->
       ser_pchk digits10 c = ser_pchk digits10 c' -> c = c') /\
    (forall c : pchk K, wf_pchk c = true -> plain_reload c = Ok c).
  Proof. split; [exact (pchk_ser_inj digits10)|]. intros c H. apply pchk_roundtrip. exact H. Qed.

  Lemma builtin_cb_text target :
    (forall c c' : vchk K, vchk_eqv c c' -> cb_vegas target c = cb_vegas target c') /\
    (forall c c' : mchk K, mchk_eqv c c' -> cb_mc target c = cb_mc target c').
  Proof. split; [apply cb_vegas_eqv|apply cb_mc_eqv]. Qed.
End Kinds.

(* ================================================================================================ *)
(** * Part 5: every checkpoint a run produces from a well-formed one is well formed (C05's [wf_*]), so the
    well-formedness hypotheses of the composition theorems reduce to the initial checkpoint *)
Section InvIt.
  Variables (C R Evt : Type).
  Variable iterate : C -> N -> N -> N -> res (R * N * N * list Evt).
  Variable add : C -> R -> N -> C.
  Variable cb : C -> bool.

  Lemma exec_inv_it (P : C -> Prop) :
    (forall c calls g idx r g' idx' evs, P c -> iterate c calls g idx = Ok (r, g', idx', evs) -> P (add c r g')) ->
    forall cs c g idx ls c' idx' rest, Lemmas_Run.Exec C R Evt iterate add cb cs c g idx ls c' idx' rest -> P c ->
    forall x, In x (Lemmas_Run.chks C Evt c ls) -> P x.
  Proof.
    intros Hadd cs c g idx ls c' idx' rest Hex.
    induction Hex as [c g idx|calls cs c g idx l g' idx' Hok Hc|calls cs c g idx l g' idx' ls c' idx'' rest Hok Hc Hex IH];
      intros Hp x Hin.
    - destruct Hin as [<-|[]]. exact Hp.
    - destruct Hok as (r & Hi & Ea & _). destruct Hin as [<-|[<-|[]]]; [exact Hp|]. rewrite Ea. eapply Hadd; eauto.
    - destruct Hok as (r & Hi & Ea & _). destruct Hin as [<-|Hin]; [exact Hp|].
      apply IH; [rewrite Ea; eapply Hadd; eauto|exact Hin].
  Qed.
End InvIt.

Lemma set_nth_length {A} (l : list A) i a : length (set_nth l i a) = length l.
Proof. revert i. induction l as [|x l IH]; intros [|i]; cbn; auto. Qed.

Lemma Forall2_set_nth {A B} (P : A -> B -> Prop) l1 l2 i b :
  Forall2 P l1 l2 -> (forall a, nth_error l1 i = Some a -> P a b) -> Forall2 P l1 (set_nth l2 i b).
Proof.
  intros H. revert i. induction H as [|x y l1 l2 Hxy H IH]; intros i Hb; [destruct i; constructor|].
  destruct i as [|i]; cbn [set_nth].
  - constructor; [apply Hb; reflexivity|exact H].
  - constructor; [exact Hxy|]. apply IH. intros a Ha. apply Hb. exact Ha.
Qed.

Lemma Forall2_nth_error {A B} (P : A -> B -> Prop) l1 l2 i b :
  Forall2 P l1 l2 -> nth_error l2 i = Some b -> exists a, nth_error l1 i = Some a /\ P a b.
Proof.
  intros H. revert i. induction H as [|x y l1 l2 Hxy H IH]; intros i Hb; [destruct i; discriminate|].
  destruct i as [|i]; cbn in *; [injection Hb as <-; eauto|apply IH; exact Hb].
Qed.

Lemma iotaN_len g n : length (iotaN g n) = n.
Proof. revert g. induction n as [|n IH]; intros g; cbn; [reflexivity|]. rewrite IH. reflexivity. Qed.

Section Wf.
  Context {K : Num}.
  Context (L : Libm K).
  Variable strm : N -> K.
  Variable ps : list (dparams K).
  Variable f : integrand K.
  Variable mp : mcmap K.

  (** ** the accumulator keeps one cell per bin *)
  Definition dists_ok (ds : list (list (cell K))) : Prop :=
    Forall2 (fun p d => length d = N.to_nat (d_bx p * d_by p)) ps ds.

  Lemma acc_init_ok : dists_ok (a_dists (acc_init ps)).
  Proof.
    unfold dists_ok, acc_init. cbn [a_dists]. induction ps as [|p l IH]; cbn [map]; constructor; [|exact IH].
    apply repeat_length.
  Qed.

  Lemma upd_bin_ok ds idx bin v ds' : dists_ok ds -> upd_bin ds idx bin v = Ok ds' -> dists_ok ds'.
  Proof.
    unfold upd_bin, dists_ok. intros H E. apply bind_Ok in E as (d & Hd & E). apply bind_Ok in E as (c & _ & E).
    injection E as <-. unfold setN. apply Forall2_set_nth; [exact H|].
    intros p Hp. rewrite set_nth_length. unfold getN, nthN in Hd.
    destruct (nth_error ds (N.to_nat idx)) as [d'|] eqn:En; [|discriminate]. injection Hd as ->.
    destruct (Forall2_nth_error _ _ _ _ _ H En) as (p' & Hp' & Hl). rewrite Hp in Hp'. injection Hp' as <-. exact Hl.
  Qed.

  Lemma do_fill_ok w ds fl ds' : dists_ok ds -> do_fill ps w ds fl = Ok ds' -> dists_ok ds'.
  Proof.
    intros H. destruct fl as [idx x v|idx x y v]; cbn [do_fill].
    - unfold fill1d. destruct (negb (isfinite K (mul K v w))); [intros E; injection E as <-; exact H|].
      intros E. apply bind_Ok in E as (p & _ & E).
      destruct (ltb K (sub K x (d_xmin p)) (zero K)); [injection E as <-; exact H|].
      destruct (negb (ltb K _ (ofN K (d_bx p)))); [injection E as <-; exact H|].
      apply bind_Ok in E as (bx & _ & E). eapply upd_bin_ok; eauto.
    - unfold fill2d. destruct (negb (isfinite K (mul K v w))); [intros E; injection E as <-; exact H|].
      intros E. apply bind_Ok in E as (p & _ & E).
      destruct (ltb K (sub K x (d_xmin p)) (zero K)); [injection E as <-; exact H|].
      destruct (ltb K (sub K y (d_ymin p)) (zero K)); [injection E as <-; exact H|].
      destruct (negb (ltb K _ (ofN K (d_bx p)))); [injection E as <-; exact H|].
      apply bind_Ok in E as (bx & _ & E).
      destruct (negb (ltb K _ (ofN K (d_by p)))); [injection E as <-; exact H|].
      apply bind_Ok in E as (by_ & _ & E). eapply upd_bin_ok; eauto.
  Qed.

  Lemma do_fills_ok w fs : forall ds ds', dists_ok ds -> do_fills ps w ds fs = Ok ds' -> dists_ok ds'.
  Proof.
    induction fs as [|fl fs IH]; intros ds ds' H E; cbn [do_fills] in E; [injection E as <-; exact H|].
    apply bind_Ok in E as (ds1 & E1 & E). eapply IH; [eapply do_fill_ok; eauto|exact E].
  Qed.

  Lemma finish_call_ok s o r a v : dists_ok (a_dists (it_acc s)) -> finish_call ps s o r = Ok (a, v) -> dists_ok (a_dists a).
  Proof.
    unfold finish_call. intros H E. apply bind_Ok in E as (ds & Hd & E).
    destruct (invoke_main (a_main (it_acc s)) (i_val r) (o_weight o)) as [m v']. injection E as <- _.
    cbn [a_dists]. eapply do_fills_ok; eauto.
  Qed.

  Lemma dist_results_wf calls : forall ds, dists_ok ds -> forallb wf_dres (dist_results calls ps ds) = true.
  Proof.
    unfold dists_ok. induction 1 as [|p d l1 l2 Hpd H IH]; [reflexivity|].
    cbn [dist_results forallb]. rewrite IH, andb_true_r. unfold wf_dres, dist_result. cbn [dr_bins dr_par].
    rewrite map_length. apply Nat.eqb_eq. exact Hpd.
  Qed.

  Lemma acc_result_wf a calls : dists_ok (a_dists a) -> wf_plain (acc_result ps a calls) = true.
  Proof. intros H. unfold wf_plain, acc_result. cbn [p_dists]. apply dist_results_wf. exact H. Qed.

  (** ** PLAIN *)
  Lemma plain_iteration_wf d calls g idx r g' idx' evs :
    plain_iteration strm ps f d calls g idx = Ok (r, g', idx', evs) -> wf_plain r = true.
  Proof.
    unfold plain_iteration. intros E. apply bind_Ok in E as (s & Hl & E). injection E as <- _ _ _.
    apply acc_result_wf. revert Hl. apply (iter_loop_ind _ (fun _ s => dists_ok (a_dists (it_acc s)))).
    - apply acc_init_ok.
    - intros k s1 s2 H1 Hs. unfold plain_step in Hs. apply bind_Ok in Hs as ([a v] & Hf & Hs). injection Hs as <-.
      cbn [it_acc]. eapply finish_call_ok; eauto.
  Qed.

  Lemma wf_base_add {R} (wf_r : R -> bool) (b : base R) r g :
    wf_base wf_r b = true -> wf_r r = true -> wf_base wf_r (base_add b r g) = true.
  Proof.
    unfold wf_base, base_add. cbn [b_results b_gens]. intros H Hr. apply andb_true_iff in H as [H1 H2].
    apply Nat.eqb_eq in H2. rewrite forallb_app, H1. cbn [forallb]. rewrite Hr. cbn [andb].
    apply Nat.eqb_eq. rewrite !app_length, H2. cbn. lia.
  Qed.

  Lemma plain_chks_wf d cb cs (c : pchk K) idx c' idx' ls :
    plain_run strm ps f d cb cs c idx = Ok (c', idx', ls) -> wf_pchk c = true ->
    forall x, In x (chks _ _ c ls) -> wf_pchk x = true.
  Proof.
    unfold plain_run. intros H Hwf. apply run_exec in H as (g & rest & _ & Hex).
    apply (exec_inv_it _ _ _ _ _ _ (fun x => wf_pchk x = true)) with (2 := Hex); [|exact Hwf].
    intros c1 calls g1 i1 r g' i' evs H1 Hi. unfold wf_pchk. apply wf_base_add; [exact H1|].
    eapply plain_iteration_wf; eauto.
  Qed.

  (** ** VEGAS *)
  Lemma redistribute_length k (p : pdf K) d tmp avg : forall bin tb l,
    redistribute k p d tmp avg bin tb = Ok l -> length l = k.
  Proof.
    induction k as [|k IH]; intros bin tb l E; cbn [redistribute] in E; [injection E as <-; reflexivity|].
    apply bind_Ok in E as ([bin' tb'] & _ & E). destruct (N.eqb bin' 0); [discriminate|].
    apply bind_Ok in E as (pr & _ & E). apply bind_Ok in E as (cu & _ & E). apply bind_Ok in E as (t & _ & E).
    apply bind_Ok in E as (rest & Hr & E). injection E as <-. cbn [length]. f_equal. eapply IH; eauto.
  Qed.

  Lemma refine_dim_length p alpha data d row :
    refine_dim L p alpha data d = Ok row -> length row = N.to_nat (pdf_bins p + 1).
  Proof.
    unfold refine_dim. set (old := dim_slice (pdf_x p) d (pdf_bins p + 1)). set (raw := dim_slice data d (pdf_bins p)).
    destruct (N.eqb_spec (N.of_nat (length raw)) (pdf_bins p)) as [Hraw|]; cbn [negb]; [|discriminate].
    destruct (N.eqb_spec (N.of_nat (length old)) (pdf_bins p + 1)) as [Hold|]; cbn [negb]; [|discriminate].
    intros E. apply bind_Ok in E as (sm & Hsm & E).
    destruct (eqb K (sum_from_first sm) (zero K)); [injection E as <-; lia|].
    apply bind_Ok in E as (inner & Hin & E). apply redistribute_length in Hin.
    destruct old as [|first old']; [discriminate|]. injection E as <-.
    cbn [length]. rewrite app_length, Hin. cbn [length].
    assert (2 <= length raw).
    { unfold smooth in Hsm. destruct raw as [|d0 [|d1 rest]]; try discriminate. cbn. lia. }
    lia.
  Qed.

  Lemma refine_dims_length p alpha data ds : forall x,
    refine_dims L p alpha data ds = Ok x -> length x = length ds * N.to_nat (pdf_bins p + 1).
  Proof.
    induction ds as [|d ds IH]; intros x E; cbn [refine_dims] in E; [injection E as <-; reflexivity|].
    apply bind_Ok in E as (row & Hrow & E). apply bind_Ok in E as (rest & Hrest & E). injection E as <-.
    rewrite app_length, (refine_dim_length _ _ _ _ _ Hrow), (IH _ Hrest). cbn [length]. lia.
  Qed.

  Lemma refine_pdf_wf p alpha data q : refine_pdf L p alpha data = Ok q -> wf_pdf q = true.
  Proof.
    unfold refine_pdf. intros E. apply bind_Ok in E as (x & Hx & E). injection E as <-.
    unfold wf_pdf. cbn [pdf_x pdf_bins pdf_dims]. apply Nat.eqb_eq.
    rewrite (refine_dims_length _ _ _ _ _ Hx), iotaN_len. lia.
  Qed.

  Lemma vchk_pdf_wf (c : vchk K) p : wf_vchk c = true -> vchk_pdf L c = Ok p -> wf_pdf p = true.
  Proof.
    unfold wf_vchk, vchk_pdf. intros Hwf E. apply andb_true_iff in Hwf as [_ Hf].
    destruct (b_results (vc_base c)) as [|r rs] eqn:Er.
    - cbn [rev] in E. destruct (vc_first c) as [p'|]; [|discriminate]. injection E as <-. exact Hf.
    - destruct (rev (r :: rs)) as [|r' l] eqn:Erev; [|eapply refine_pdf_wf; eauto].
      apply (f_equal (@length _)) in Erev. rewrite rev_length in Erev. discriminate.
  Qed.

  Lemma add_squares_length bs : forall (adj : list K) bins j sq adj',
    add_squares adj bins j bs sq = Ok adj' -> length adj' = length adj.
  Proof.
    induction bs as [|b bs IH]; intros adj bins j sq adj' E; cbn [add_squares] in E; [injection E as <-; reflexivity|].
    apply bind_Ok in E as (old & _ & E). apply IH in E. rewrite E. unfold setN. apply set_nth_length.
  Qed.

  Lemma vegas_iteration_wf p calls g idx r g' idx' evs : wf_pdf p = true ->
    vegas_iteration strm ps f p calls g idx = Ok (r, g', idx', evs) -> wf_vegasres r = true.
  Proof.
    unfold vegas_iteration. intros Hp E. apply bind_Ok in E as (s & Hl & E). injection E as <- _ _ _.
    assert (HI : dists_ok (a_dists (it_acc s)) /\ length (it_adj s) = N.to_nat (pdf_dims p * pdf_bins p)).
    { revert Hl. apply (iter_loop_ind _ (fun _ s => dists_ok (a_dists (it_acc s)) /\ length (it_adj s) = N.to_nat (pdf_dims p * pdf_bins p))).
      - split; [apply acc_init_ok|apply repeat_length].
      - intros k s1 s2 [H1 H2] Hs. unfold vegas_step in Hs. apply bind_Ok in Hs as ([[xs bs] w] & _ & Hs).
        apply bind_Ok in Hs as ([a v] & Hf & Hs). apply bind_Ok in Hs as (adj & Ha & Hs). injection Hs as <-.
        cbn [it_acc it_adj]. split; [eapply finish_call_ok; eauto|]. rewrite (add_squares_length _ _ _ _ _ _ Ha). exact H2. }
    destruct HI as [H1 H2]. unfold wf_vegasres. cbn [v_plain v_pdf v_adj].
    rewrite (acc_result_wf _ _ H1), Hp. cbn [andb]. apply Nat.eqb_eq. rewrite H2. f_equal. apply N.mul_comm.
  Qed.

  Lemma wf_vchk_add (c : vchk K) r g : wf_vchk c = true -> wf_vegasres r = true -> wf_vchk (vchk_add c r g) = true.
  Proof.
    unfold wf_vchk. intros H Hr. apply andb_true_iff in H as [H1 _]. cbn [vchk_add vc_base vc_first].
    rewrite (wf_base_add _ _ _ _ H1 Hr). cbn [andb].
    pose proof (base_add_results_nonempty (vc_base c) r g) as Hn.
    destruct (b_results (base_add (vc_base c) r g)); [congruence|reflexivity].
  Qed.

  Lemma vegas_chks_wf d cb cs (c : vchk K) idx c' idx' ls :
    vegas_run L strm ps f d cb cs c idx = Ok (c', idx', ls) -> wf_vchk (vchk_dimensions c d) = true ->
    forall x, In x (chks _ _ (vchk_dimensions c d) ls) -> wf_vchk x = true.
  Proof.
    unfold vegas_run. intros H Hwf. apply run_exec in H as (g & rest & _ & Hex).
    apply (exec_inv_it _ _ _ _ _ _ (fun x => wf_vchk x = true)) with (2 := Hex); [|exact Hwf].
    intros c1 calls g1 i1 r g' i' evs H1 Hi. apply bind_Ok in Hi as (p & Hp & Hi).
    apply wf_vchk_add; [exact H1|]. eapply vegas_iteration_wf; [|exact Hi]. eapply vchk_pdf_wf; eauto.
  Qed.

  (** ** multi-channel *)
  Lemma add_dens_length (adj : list K) : forall dens sq adj', add_dens adj dens sq = Ok adj' -> length adj' = length adj.
  Proof.
    induction adj as [|a adj IH]; intros dens sq adj' E; cbn [add_dens] in E; [injection E as <-; reflexivity|].
    destruct dens as [|dd dens]; [discriminate|]. apply bind_Ok in E as (rest & Hr & E). injection E as <-.
    cbn [length]. f_equal. eapply IH; eauto.
  Qed.

  Lemma mc_iteration_wf d ws calls g idx r g' idx' evs :
    mc_iteration strm ps f mp d ws calls g idx = Ok (r, g', idx', evs) -> wf_mcres_mc r = true.
  Proof.
    unfold mc_iteration. intros E. apply bind_Ok in E as (s & Hl & E). injection E as <- _ _ _.
    assert (HI : dists_ok (a_dists (it_acc s)) /\ length (it_adj s) = length ws).
    { revert Hl. apply (iter_loop_ind _ (fun _ s => dists_ok (a_dists (it_acc s)) /\ length (it_adj s) = length ws)).
      - split; [apply acc_init_ok|apply repeat_length].
      - intros k s1 s2 [H1 H2] Hs. unfold mc_step in Hs.
        destruct (m_dens mp _ _ _ _ _) as [jac dens]. apply bind_Ok in Hs as (w & _ & Hs).
        apply bind_Ok in Hs as ([a v] & Hf & Hs). apply bind_Ok in Hs as (adj & Ha & Hs). injection Hs as <-.
        cbn [it_acc it_adj]. split; [eapply finish_call_ok; eauto|].
        destruct (eqb K v (zero K)); [injection Ha as <-; exact H2|]. rewrite (add_dens_length _ _ _ _ Ha). exact H2. }
    destruct HI as [H1 H2]. unfold wf_mcres_mc. cbn [m_plain m_adj m_weights].
    rewrite (acc_result_wf _ _ H1). cbn [andb]. apply Nat.eqb_eq. exact H2.
  Qed.

  Lemma mc_chks_wf d n cb cs (c : mchk K) idx c' idx' ls :
    mc_run L strm ps f mp d n cb cs c idx = Ok (c', idx', ls) -> wf_mchk (mchk_channels c n) = true ->
    forall x, In x (chks _ _ (mchk_channels c n) ls) -> wf_mchk x = true.
  Proof.
    unfold mc_run. intros H Hwf. apply run_exec in H as (g & rest & _ & Hex).
    apply (exec_inv_it _ _ _ _ _ _ (fun x => wf_mchk x = true)) with (2 := Hex); [|exact Hwf].
    intros c1 calls g1 i1 r g' i' evs H1 Hi. apply bind_Ok in Hi as (ws & Hw & Hi).
    unfold wf_mchk. cbn [mchk_add mc_base]. apply wf_base_add; [exact H1|]. eapply mc_iteration_wf; eauto.
  Qed.

  (* the prepared initial checkpoints: fresh ones are well formed *)
  Lemma uniform_pdf_wf dims bins : wf_pdf (uniform_pdf (K:=K) dims bins) = true.
  Proof.
    unfold wf_pdf, uniform_pdf. cbn [pdf_x pdf_bins pdf_dims]. apply Nat.eqb_eq.
    set (row := map _ _). assert (Hrow : length row = S (N.to_nat bins)) by (unfold row; rewrite map_length; apply iotaN_len).
    assert (Hc : forall n, length (concat (repeat row n)) = n * length row).
    { induction n as [|n IH]; cbn [repeat concat]; [reflexivity|]. rewrite app_length, IH. cbn. reflexivity. }
    rewrite Hc, Hrow. lia.
  Qed.

  Lemma fresh_wf :
    (forall g, wf_pchk (K:=K) (base_init g) = true) /\
    (forall bins (alpha : K) g d, wf_vchk (vchk_dimensions (vchk_default bins alpha g) d) = true) /\
    (forall (p : pdf K) alpha g d, wf_pdf p = true -> wf_vchk (vchk_dimensions (vchk_user p alpha g) d) = true) /\
    (forall minw beta g n, wf_mchk (mchk_channels (mchk_default (K:=K) minw beta g) n) = true) /\
    (forall (c : mchk K) n, wf_mchk c = true -> wf_mchk (mchk_channels c n) = true).
  Proof.
    split; [reflexivity|]. split; [|split; [|split]].
    - intros bins alpha g d. unfold wf_vchk, vchk_dimensions, vchk_default. cbn. apply uniform_pdf_wf.
    - intros p alpha g d Hp. unfold wf_vchk, vchk_dimensions, vchk_user. cbn. exact Hp.
    - intros minw beta g n. unfold wf_mchk, mchk_channels, mchk_default. cbn. reflexivity.
    - intros c n H. unfold wf_mchk in *. unfold mchk_channels. destruct (mc_first c); exact H.
  Qed.
  (** ** the composition theorems with well-formedness required of the initial checkpoint only *)
  Variable digits10 : string.

  Lemma plain_pieces_wf d cb p0 pcs cs (c : pchk K) idx c' idx' ls :
    plain_run strm ps f d cb cs c idx = Ok (c', idx', ls) ->
    p0 ++ concat pcs = firstn (length ls) cs ->
    wf_pchk c = true ->
    run_pieces (plain_run strm ps f d cb) (plain_reload digits10) p0 pcs c idx = Ok (c', idx', ls).
  Proof. intros H Hcut Hwf. eapply plain_pieces; eauto. eapply plain_chks_wf; eauto. Qed.

  Lemma vegas_pieces_wf d cb p0 pcs cs (c : vchk K) idx c' idx' ls :
    (forall x y, vchk_eqv x y -> cb x = cb y) ->
    vegas_run L strm ps f d cb cs c idx = Ok (c', idx', ls) ->
    p0 ++ concat pcs = firstn (length ls) cs ->
    wf_vchk (vchk_dimensions c d) = true ->
    exists d' ls', run_pieces (vegas_run L strm ps f d cb) (vchk_reload digits10) p0 pcs c idx = Ok (d', idx', ls') /\
      vchk_eqv c' d' /\ Forall2 (log_eqv _ _ vchk_eqv) ls ls' /\
      ser_vchk digits10 d' = ser_vchk digits10 c' /\ (exists t, ser_vchk digits10 c' = Ok t).
  Proof. intros Hcb H Hcut Hwf. eapply vegas_pieces; eauto. eapply vegas_chks_wf; eauto. Qed.

  Lemma mc_pieces_wf d n cb p0 pcs cs (c : mchk K) idx c' idx' ls :
    (forall x y, mchk_eqv x y -> cb x = cb y) ->
    mc_run L strm ps f mp d n cb cs c idx = Ok (c', idx', ls) ->
    p0 ++ concat pcs = firstn (length ls) cs ->
    wf_mchk c = true ->
    exists d' ls', run_pieces (mc_run L strm ps f mp d n cb) (mchk_reload digits10) p0 pcs c idx = Ok (d', idx', ls') /\
      mchk_eqv c' d' /\ Forall2 (log_eqv _ _ mchk_eqv) ls ls' /\
      ser_mchk digits10 d' = ser_mchk digits10 c'.
  Proof.
    intros Hcb H Hcut Hwf. eapply mc_pieces; eauto. eapply mc_chks_wf; eauto.
    apply (proj2 (proj2 (proj2 (proj2 fresh_wf)))). exact Hwf.
  Qed.

  Lemma reachable_wf :
    (forall d cb cs (c : pchk K) idx c' idx' ls,
       plain_run strm ps f d cb cs c idx = Ok (c', idx', ls) -> wf_pchk c = true ->
       forall x, In x (chks _ _ c ls) -> wf_pchk x = true) /\
    (forall d cb cs (c : vchk K) idx c' idx' ls,
       vegas_run L strm ps f d cb cs c idx = Ok (c', idx', ls) -> wf_vchk (vchk_dimensions c d) = true ->
       forall x, In x (chks _ _ (vchk_dimensions c d) ls) -> wf_vchk x = true) /\
    (forall d n cb cs (c : mchk K) idx c' idx' ls,
       mc_run L strm ps f mp d n cb cs c idx = Ok (c', idx', ls) -> wf_mchk (mchk_channels c n) = true ->
       forall x, In x (chks _ _ (mchk_channels c n) ls) -> wf_mchk x = true).
  Proof. split; [exact plain_chks_wf|]. split; [exact vegas_chks_wf|exact mc_chks_wf]. Qed.
End Wf.

(* ================================================================================================ *)
(** * non-vacuity: real runs in double precision (3 VEGAS iterations from Lemmas_C19, 2 PLAIN iterations
    from Lemmas_C12, 3 multi-channel iterations with two channels); every checkpoint shown to the
    callback is well formed, so all hypotheses of the theorems hold for them *)
From HepMC Require Import NumB Lemmas_C12 Lemmas_C19.

Definition exr_vegas_c0 : vchk B64 := vchk_default 4 (one B64) 0.
Definition exr_vegas_check : bool :=
  match ex19_run with
  | Ok (c, _, ls) => Nat.eqb (length ls) 3 && forallb wf_vchk (chks _ _ (vchk_dimensions exr_vegas_c0 1) ls)
  | UB _ => false
  end.
Lemma exr_vegas_check_ok : exr_vegas_check = true.
Proof. vm_compute. reflexivity. Qed.

Lemma exr_vegas : exists c idx' ls,
  vegas_run ex19_L ex19_strm [] ex19_f 1 (fun _ => true) [8; 8; 8]%N exr_vegas_c0 0 = Ok (c, idx', ls) /\
  length ls = 3 /\ length (b_gens (vc_base exr_vegas_c0)) = S (length (b_results (vc_base exr_vegas_c0))) /\
  (forall x, In x (chks _ _ (vchk_dimensions exr_vegas_c0 1) ls) -> wf_vchk x = true).
Proof.
  pose proof exr_vegas_check_ok as H. unfold exr_vegas_check in H. change ex19_run with
    (vegas_run ex19_L ex19_strm [] ex19_f 1 (fun _ => true) [8; 8; 8]%N exr_vegas_c0 0) in H. revert H.
  destruct (vegas_run ex19_L ex19_strm [] ex19_f 1 (fun _ => true) [8; 8; 8]%N exr_vegas_c0 0) as [[[c i] ls]|e];
    intros H; [|discriminate].
  exists c, i, ls. split; [reflexivity|]. apply andb_true_iff in H as [H1 H2].
  split; [apply Nat.eqb_eq; exact H1|]. split; [reflexivity|]. rewrite forallb_forall in H2. exact H2.
Qed.

Definition exr_plain_c0 : pchk B64 := base_init 0%N.
Definition exr_plain_check : bool :=
  match ex_run with
  | Ok (c, _, ls) => Nat.eqb (length ls) 2 && forallb wf_pchk (chks _ _ exr_plain_c0 ls)
  | UB _ => false
  end.
Lemma exr_plain_check_ok : exr_plain_check = true.
Proof. vm_compute. reflexivity. Qed.

Lemma exr_plain : exists c idx' ls,
  plain_run ex_strm [] ex_f 1 (cb_plain (zero B64)) [3; 3]%N exr_plain_c0 0 = Ok (c, idx', ls) /\
  length ls = 2 /\ length (b_gens exr_plain_c0) = S (length (b_results exr_plain_c0)) /\
  (forall x, In x (chks _ _ exr_plain_c0 ls) -> wf_pchk x = true).
Proof.
  pose proof exr_plain_check_ok as H. unfold exr_plain_check in H. change ex_run with
    (plain_run ex_strm [] ex_f 1 (cb_plain (zero B64)) [3; 3]%N exr_plain_c0 0) in H. revert H.
  destruct (plain_run ex_strm [] ex_f 1 (cb_plain (zero B64)) [3; 3]%N exr_plain_c0 0) as [[[c i] ls]|e];
    intros H; [|discriminate].
  exists c, i, ls. split; [reflexivity|]. apply andb_true_iff in H as [H1 H2].
  split; [apply Nat.eqb_eq; exact H1|]. split; [reflexivity|]. rewrite forallb_forall in H2. exact H2.
Qed.

(* two channels with identical unit densities; coordinates = the random numbers *)
Definition exr_mp : mcmap B64 :=
  mk_mcmap (fun _ _ us _ => us) (fun _ _ _ _ _ => (one B64, [one B64; one B64])).
Definition exr_mc_c0 : mchk B64 := mchk_default (zero B64) (one B64) 0.
Definition exr_mc_run :=
  mc_run ex19_L ex19_strm [] ex19_f exr_mp 1 2 (fun _ => true) [4; 4; 4]%N exr_mc_c0 0.
Definition exr_mc_check : bool :=
  match exr_mc_run with
  | Ok (c, _, ls) => Nat.eqb (length ls) 3 && forallb wf_mchk (chks _ _ (mchk_channels exr_mc_c0 2) ls)
  | UB _ => false
  end.
Lemma exr_mc_check_ok : exr_mc_check = true.
Proof. vm_compute. reflexivity. Qed.

Lemma exr_mc : exists c idx' ls,
  mc_run ex19_L ex19_strm [] ex19_f exr_mp 1 2 (fun _ => true) [4; 4; 4]%N exr_mc_c0 0 = Ok (c, idx', ls) /\
  length ls = 3 /\ length (b_gens (mc_base exr_mc_c0)) = S (length (b_results (mc_base exr_mc_c0))) /\
  (forall x, In x (chks _ _ (mchk_channels exr_mc_c0 2) ls) -> wf_mchk x = true).
Proof.
  pose proof exr_mc_check_ok as H. unfold exr_mc_check, exr_mc_run in H. revert H.
  destruct (mc_run ex19_L ex19_strm [] ex19_f exr_mp 1 2 (fun _ => true) [4; 4; 4]%N exr_mc_c0 0) as [[[c i] ls]|e];
    intros H; [|discriminate].
  exists c, i, ls. split; [reflexivity|]. apply andb_true_iff in H as [H1 H2].
  split; [apply Nat.eqb_eq; exact H1|]. split; [reflexivity|]. rewrite forallb_forall in H2. exact H2.
Qed.


(* the composition theorems applied: the three iterations run one at a time, with the checkpoint written
   to text and read back in between, end in a checkpoint with the same text as the uninterrupted run *)
Lemma ex03_vegas_pieces : exists c idx' ls d' ls',
  vegas_run ex19_L ex19_strm [] ex19_f 1 (fun _ => true) [8; 8; 8]%N exr_vegas_c0 0 = Ok (c, idx', ls) /\
  run_pieces (vegas_run ex19_L ex19_strm [] ex19_f 1 (fun _ => true)) (vchk_reload "17") [8]%N [[8]; [8]]%N exr_vegas_c0 0
    = Ok (d', idx', ls') /\
  ser_vchk "17" d' = ser_vchk "17" c.
Proof.
  destruct exr_vegas as (c & i & ls & H & Hl & _ & Hwf).
  destruct (vegas_pieces ex19_L ex19_strm [] ex19_f "17" 1 (fun _ => true) [8]%N [[8]; [8]]%N [8; 8; 8]%N
              exr_vegas_c0 0 c i ls (fun _ _ _ => eq_refl) H) as (d' & ls' & A & _ & _ & B & _).
  - rewrite Hl. reflexivity.
  - exact Hwf.
  - exists c, i, ls, d', ls'. split; [exact H|]. split; [exact A|exact B].
Qed.

Lemma ex03_plain_pieces : exists c idx' ls,
  plain_run ex_strm [] ex_f 1 (cb_plain (zero B64)) [3; 3]%N exr_plain_c0 0 = Ok (c, idx', ls) /\
  run_pieces (plain_run ex_strm [] ex_f 1 (cb_plain (zero B64))) (plain_reload "17") [3]%N [[3]]%N exr_plain_c0 0
    = Ok (c, idx', ls).
Proof.
  destruct exr_plain as (c & i & ls & H & Hl & _ & Hwf). exists c, i, ls. split; [exact H|].
  apply (plain_pieces ex_strm [] ex_f "17" 1 (cb_plain (zero B64)) [3]%N [[3]]%N [3; 3]%N exr_plain_c0 0 c i ls H).
  - rewrite Hl. reflexivity.
  - exact Hwf.
Qed.

Lemma ex03_mc_pieces : exists c idx' ls d' ls',
  mc_run ex19_L ex19_strm [] ex19_f exr_mp 1 2 (fun _ => true) [4; 4; 4]%N exr_mc_c0 0 = Ok (c, idx', ls) /\
  run_pieces (mc_run ex19_L ex19_strm [] ex19_f exr_mp 1 2 (fun _ => true)) (mchk_reload "17") [4; 4]%N [[]; [4]]%N exr_mc_c0 0
    = Ok (d', idx', ls') /\
  ser_mchk "17" d' = ser_mchk "17" c.
Proof.
  destruct exr_mc as (c & i & ls & H & Hl & _ & Hwf).
  destruct (mc_pieces ex19_L ex19_strm [] ex19_f exr_mp "17" 1 2 (fun _ => true) [4; 4]%N [[]; [4]]%N [4; 4; 4]%N
              exr_mc_c0 0 c i ls (fun _ _ _ => eq_refl) H) as (d' & ls' & A & _ & _ & B).
  - rewrite Hl. reflexivity.
  - exact Hwf.
  - exists c, i, ls, d', ls'. split; [exact H|]. split; [exact A|exact B].
Qed.
