(** C13 - combining results obeys the documented formulas and laws.
    Statements only (proofs in Lemmas_C13.v).  All theorems are about the model's own
    [weighted_with_variance], [weighted_equally], [chi_square_dof], [accumulate_plain] (Helper.v, from
    mc_helper.hpp) and [mk_result]/[value]/[variance]/[error] (Result.v; [create_result], [mc_value],
    [mc_variance] regenerated from mc_result.hpp by the translator).

    What is proved.
    * K := NumR (ideal arithmetic): create_result is inverted by value/variance/error; the
      variance-weighted combination returns the summed counters (this part for every Num), the estimate
      sum(E_i/V_i)/sum(1/V_i), the variance 1/sum(1/V_i) and its square root as error, where the sums run
      over [lives rs] = the results with a finite call, finite_calls <> 0 (the others - in particular every
      result without non-zero calls, since finite_calls <= non_zero_calls - are skipped, only their
      counters are added: C13_wwv_skips_empty, C13_wwv_skips_no_nonzero); the estimate lies between every lower and every upper bound of the E_i,
      the variance/error is no larger than that of any participating result, and the whole result
      (the record, not only the value) is invariant under [Permutation].  Equal weighting of m >= 2 results
      returns the mean and sum (E_i - mean)^2 / (m (m-1)) as variance (standard error of the mean), m = 1
      the result itself, m = 0 the empty result.  chi^2/dof is >= 0, is the documented sum / (n-1) for
      n >= 2, and is 0 for no result.
    * every Num: chi^2/dof of one result is [inf K]; of no result it is 0 / (2^64 - 1) (the unsigned n - 1
      wraps around); the distribution combiner returns [rule (map p_main rs)] as main result and, for every
      distribution j and bin k of the first result, [rule] applied to the column of bins (j,k) of all
      results, with the parameters of the first result - for any rule, and without undefined behaviour /
      exception as soon as every result has at least the distributions and bins of the first one.

    Hypotheses (explicit because [/ 0 = 0] in Coq): [pos_var rs] = every participating result has
    variance > 0; [lives rs <> []] = at least one result participates; [calls_ok n] = 2 <= n < 2^64 for
    the total call counter (n - 1 neither 0 nor wrapped; the model's counters are unbounded naturals, the
    C++ size_t sum is the same number under this hypothesis).

    The model mirrors mc_helper.hpp after the repair "variance-weighted combination ignores results without
    any finite non-zero evaluation": the skip test reads finite_calls (the pinned code tested
    non_zero_calls and divided by the zero variance of a result whose non-zero calls were all non-finite).

    NOT proved: anything about rounding (NumB) - order dependence in floating point is real and is
    reproduced bit for bit by the differential check instead; results with zero, negative, infinite or NaN
    variance; totals of fewer than 2 calls.  In NumR the field [inf] is the placeholder 0, so
    C13_chi2_nonneg is trivially true for a single result there; C13_chi2_single is the meaningful
    statement for that case. *)
From Coq Require Import ZArith NArith Reals List Permutation.
From HepMC Require Import Num NumR Translated Result Helper Lemmas_C13.
Import ListNotations.
Local Open Scope R_scope.

(* create_result(N, nz, fin, E, S) has value E, variance S^2, error |S| *)
Theorem C13_create_result_inverse : forall n nz fin (e s : R), calls_ok n ->
  let r := @mk_result NumR n nz fin e s in
  r_calls r = n /\ r_nz r = nz /\ r_fin r = fin /\
  @value NumR r = e /\ @variance NumR r = s * s /\ @error NumR r = Rabs s /\ (0 <= s -> @error NumR r = s).
Proof. exact c13_create_result_inverse. Qed.
Print Assumptions C13_create_result_inverse.

(* the three call counters are summed (every numeric type, every list) *)
Theorem C13_wwv_counters : forall (K : Num) (rs : list (mcres K)),
  r_calls (weighted_with_variance rs) = sumNl r_calls rs /\
  r_nz (weighted_with_variance rs) = sumNl r_nz rs /\
  r_fin (weighted_with_variance rs) = sumNl r_fin rs.
Proof. exact (@c13_wwv_counters). Qed.
Print Assumptions C13_wwv_counters.

(* E = sum(E_i/V_i) / sum(1/V_i), S^2 = 1 / sum(1/V_i), S = sqrt of it; sums over the results with a finite call *)
Theorem C13_wwv_formula : forall rs : list (mcres NumR),
  pos_var rs -> lives rs <> [] -> calls_ok (sumNl r_calls rs) ->
  @value NumR (@weighted_with_variance NumR rs)
    = sumRl (fun r => @value NumR r / @variance NumR r) (lives rs) / sumRl (fun r => / @variance NumR r) (lives rs) /\
  @variance NumR (@weighted_with_variance NumR rs) = / sumRl (fun r => / @variance NumR r) (lives rs) /\
  @error NumR (@weighted_with_variance NumR rs) = sqrt (/ sumRl (fun r => / @variance NumR r) (lives rs)).
Proof. exact c13_wwv_formula. Qed.
Print Assumptions C13_wwv_formula.

(* min E_i <= E <= max E_i *)
Theorem C13_wwv_between : forall rs : list (mcres NumR),
  pos_var rs -> lives rs <> [] -> calls_ok (sumNl r_calls rs) ->
  (forall lo, Forall (fun r => lo <= @value NumR r) (lives rs) -> lo <= @value NumR (@weighted_with_variance NumR rs)) /\
  (forall hi, Forall (fun r => @value NumR r <= hi) (lives rs) -> @value NumR (@weighted_with_variance NumR rs) <= hi).
Proof. exact c13_wwv_between. Qed.
Print Assumptions C13_wwv_between.

(* S <= S_i for every participating result *)
Theorem C13_wwv_error_le : forall rs : list (mcres NumR),
  pos_var rs -> calls_ok (sumNl r_calls rs) ->
  forall r, In r (lives rs) ->
    @variance NumR (@weighted_with_variance NumR rs) <= @variance NumR r /\
    @error NumR (@weighted_with_variance NumR rs) <= @error NumR r.
Proof. exact c13_wwv_error_le. Qed.
Print Assumptions C13_wwv_error_le.

(* the order of the results does not matter (no hypotheses: equality of the whole result record) *)
Theorem C13_wwv_perm : forall rs rs' : list (mcres NumR),
  Permutation rs rs' -> @weighted_with_variance NumR rs = @weighted_with_variance NumR rs'.
Proof. exact c13_wwv_perm. Qed.
Print Assumptions C13_wwv_perm.

(* a result without finite call, anywhere in the list, changes only the counters handed to create_result *)
Theorem C13_wwv_skips_empty : forall (rs1 : list (mcres NumR)) r0 rs2, r_fin r0 = 0%N ->
  exists c nz f e s,
    @weighted_with_variance NumR (rs1 ++ rs2) = @mk_result NumR c nz f e s /\
    @weighted_with_variance NumR (rs1 ++ r0 :: rs2) = @mk_result NumR (c + r_calls r0) (nz + r_nz r0) f e s /\
    c = sumNl r_calls (rs1 ++ rs2) /\ nz = sumNl r_nz (rs1 ++ rs2) /\ f = sumNl r_fin (rs1 ++ rs2) /\
    ((1 <= c)%N -> @value NumR (@weighted_with_variance NumR (rs1 ++ r0 :: rs2))
                   = @value NumR (@weighted_with_variance NumR (rs1 ++ rs2))) /\
    (calls_ok c -> calls_ok (c + r_calls r0) ->
       @variance NumR (@weighted_with_variance NumR (rs1 ++ r0 :: rs2))
         = @variance NumR (@weighted_with_variance NumR (rs1 ++ rs2)) /\
       @error NumR (@weighted_with_variance NumR (rs1 ++ r0 :: rs2))
         = @error NumR (@weighted_with_variance NumR (rs1 ++ rs2))).
Proof. exact c13_wwv_skips_empty. Qed.
Print Assumptions C13_wwv_skips_empty.

(* in the words of the property: a result without non-zero calls only adds its call counter *)
Theorem C13_wwv_skips_no_nonzero : forall (rs1 : list (mcres NumR)) r0 rs2,
  r_nz r0 = 0%N -> (r_fin r0 <= r_nz r0)%N ->
  exists c nz f e s,
    @weighted_with_variance NumR (rs1 ++ rs2) = @mk_result NumR c nz f e s /\
    @weighted_with_variance NumR (rs1 ++ r0 :: rs2) = @mk_result NumR (c + r_calls r0) nz f e s /\
    c = sumNl r_calls (rs1 ++ rs2) /\ nz = sumNl r_nz (rs1 ++ rs2) /\ f = sumNl r_fin (rs1 ++ rs2).
Proof. exact c13_wwv_skips_no_nonzero. Qed.
Print Assumptions C13_wwv_skips_no_nonzero.

(* equal weighting: mean and standard error of the mean (two equivalent forms of the variance) *)
Theorem C13_weq_formula : forall rs : list (mcres NumR),
  (2 <= length rs)%nat -> calls_ok (sumNl r_calls rs) ->
  let m := INR (length rs) in
  let mu := sumRl (@value NumR) rs / m in
  let s2 := sumRl (fun r => (@value NumR r - mu) * (@value NumR r - mu)) rs / (m * (m - 1)) in
  r_calls (@weighted_equally NumR rs) = sumNl r_calls rs /\
  r_nz (@weighted_equally NumR rs) = sumNl r_nz rs /\
  r_fin (@weighted_equally NumR rs) = sumNl r_fin rs /\
  @value NumR (@weighted_equally NumR rs) = mu /\
  @variance NumR (@weighted_equally NumR rs) = s2 /\
  @error NumR (@weighted_equally NumR rs) = sqrt s2 /\
  s2 = (sumRl (fun r => @value NumR r * @value NumR r) rs / m - mu * mu) / (m - 1).
Proof. exact c13_weq_formula. Qed.
Print Assumptions C13_weq_formula.

(* no result: the empty result; one result: that result (every numeric type) *)
Theorem C13_weq_small : forall K : Num,
  @weighted_equally K [] = mk_mcres 0 0 0 (zero K) (zero K) /\ forall r, @weighted_equally K [r] = r.
Proof. exact (@c13_weq_small). Qed.
Print Assumptions C13_weq_small.

(* chi^2/dof >= 0, whatever rule computes the combined value *)
Theorem C13_chi2_nonneg : forall acc (rs : list (mcres NumR)),
  Forall (fun r => 0 < @variance NumR r) rs -> 0 <= @chi_square_dof NumR acc rs.
Proof. exact c13_chi2_nonneg. Qed.
Print Assumptions C13_chi2_nonneg.

(* the documented formula for 2 <= n < 2^64 results *)
Theorem C13_chi2_formula : forall acc (rs : list (mcres NumR)),
  (2 <= length rs)%nat -> (Z.of_nat (length rs) < 2 ^ 64)%Z ->
  @chi_square_dof NumR acc rs =
  sumRl (fun r => (@value NumR r - @value NumR (acc rs)) * (@value NumR r - @value NumR (acc rs)) / @variance NumR r) rs
  / (INR (length rs) - 1).
Proof. exact c13_chi2_formula. Qed.
Print Assumptions C13_chi2_formula.

(* no result: 0 / T(size_t(0) - 1), which is 0 *)
Theorem C13_chi2_empty :
  (forall (K : Num) acc, @chi_square_dof K acc [] = div K (zero K) (ofN K 18446744073709551615)) /\
  (forall acc, @chi_square_dof NumR acc [] = 0).
Proof. exact c13_chi2_empty. Qed.
Print Assumptions C13_chi2_empty.

(* one result: infinity (every numeric type) *)
Theorem C13_chi2_single : forall (K : Num) acc (r : mcres K), chi_square_dof acc [r] = inf K.
Proof. exact (@c13_chi2_single). Qed.
Print Assumptions C13_chi2_single.

(* results with distributions: the same rule, independently for the main result and every bin *)
Theorem C13_dist_binwise : forall (K : Num) (acc : list (mcres K) -> mcres K) (rs : list (plainres K)) r,
  accumulate_plain acc rs = Ok r ->
  p_main r = acc (map p_main rs) /\
  match rs with
  | [] => p_dists r = []
  | r0 :: _ =>
      length (p_dists r) = length (p_dists r0) /\
      forall j d0, nth_error (p_dists r0) j = Some d0 ->
        exists d, nth_error (p_dists r) j = Some d /\
          dr_par d = dr_par d0 /\ length (dr_bins d) = length (dr_bins d0) /\
          forall k, (k < length (dr_bins d0))%nat ->
            exists col,
              Forall2 (fun r b => exists dj, nthN (p_dists r) (N.of_nat j) = Some dj /\ nthN (dr_bins dj) (N.of_nat k) = Some b) rs col /\
              nth_error (dr_bins d) k = Some (acc col)
  end.
Proof. exact (@c13_dist_binwise). Qed.
Print Assumptions C13_dist_binwise.

(* ... and it is defined (no out-of-range access) when every result has the distributions and bins of the first *)
Theorem C13_dist_total : forall (K : Num) (acc : list (mcres K) -> mcres K) (rs : list (plainres K)),
  match rs with [] => True | r0 :: rs' => Forall (covers r0) rs' end ->
  exists r, accumulate_plain acc rs = Ok r /\ binwise acc rs r.
Proof. exact (@c13_dist_total). Qed.
Print Assumptions C13_dist_total.

(* non-vacuity: E = 1 +- 1 and E = 3 +- 1/2 with a result without finite calls in between *)
Example C13_example_wwv :
  let rs := [ex_r1; ex_r0; ex_r2] in
  pos_var rs /\ lives rs <> [] /\ calls_ok (sumNl r_calls rs) /\
  @value NumR (@weighted_with_variance NumR rs) = 13 / 5 /\
  @variance NumR (@weighted_with_variance NumR rs) = / 5 /\
  r_calls (@weighted_with_variance NumR rs) = 410%N /\
  In ex_r1 (lives rs) /\ @variance NumR ex_r1 = 1 /\
  Forall (fun r => 1 <= @value NumR r) (lives rs) /\ Forall (fun r => @value NumR r <= 3) (lives rs).
Proof. exact c13_example_wwv. Qed.

Example C13_example_weq :
  let rs := [ex_r1; ex_r2; ex_r3] in
  (2 <= length rs)%nat /\ calls_ok (sumNl r_calls rs) /\
  @value NumR (@weighted_equally NumR rs) = 3 /\ @variance NumR (@weighted_equally NumR rs) = 4 / 3.
Proof. exact c13_example_weq. Qed.

Example C13_example_chi2 :
  let rs := [ex_r1; ex_r2] in
  Forall (fun r => 0 < @variance NumR r) rs /\ @chi_square_dof NumR (@weighted_with_variance NumR) rs = 16 / 5.
Proof. exact c13_example_chi2. Qed.

Example C13_example_dist :
  Forall (@covers NumR ex_p1) [ex_p2] /\
  accumulate_plain (@weighted_with_variance NumR) [ex_p1; ex_p2] =
  Ok (mk_plainres (@weighted_with_variance NumR [ex_r1; ex_r2])
        [mk_dres ex_par [@weighted_with_variance NumR [ex_r1; ex_r3]; @weighted_with_variance NumR [ex_r2; ex_r1]]]).
Proof. exact c13_example_dist. Qed.
