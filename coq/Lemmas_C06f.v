(** Lemmas for C06f: "the reported sum and sum of squares stay finite" (property C06) with the no-overflow
    hypotheses made explicit, for IEEE formats [NumB].
    Composition of Lemmas_C02.v (the main result is the Kahan fold over the kept values), Lemmas_C06.v (the kept
    values are finite whatever the integrand returned elsewhere), Lemmas_C14.v (the Kahan sum of finite values
    far from overflow is finite) and one new, elementary lemma: the naive running sum of squares cannot
    overflow when the exact sum of squares is far enough from 2^emax (monotonicity of rounding on the grid of
    the top binade).  Statements: Properties_C06f.v. *)
From Coq Require Import ZArith NArith List Reals Lra Lia Bool.
From Flocq Require Import Core BinarySingleNaN.
From HepMC Require Import Num NumR NumB Translated Result Accum VegasPdf Discrete MultiChannel Iter
  Lemmas_Run Lemmas_C02 Lemmas_C06 Lemmas_C07f Lemmas_C14.
Import ListNotations.
Local Open Scope R_scope.

Section Float.
  Variables prec emax : Z.
  Context (Hprec : FLX.Prec_gt_0 prec) (Hmax : Prec_lt_emax prec emax).
  Notation KB := (NumB prec emax Hprec Hmax).
  Notation F := (binary_float prec emax).
  Notation fexp := (SpecFloat.fexp prec emax).
  Notation rnd := (round radix2 fexp (round_mode mode_NE)).
  Notation format := (generic_format radix2 fexp).

  Local Instance vexp06f : Valid_exp fexp := fexp_correct prec emax Hprec.

  Lemma prec_pos : (0 < prec)%Z.
  Proof. exact Hprec. Qed.
  Lemma prec_lt_emax : (prec < emax)%Z.
  Proof. exact Hmax. Qed.

  (** ** the grid of the top binade: multiples m * 2^(emax-prec), 0 <= m < 2^prec, are floats below 2^emax *)
  Definition gridG : R := bpow radix2 (emax - prec).

  Lemma gridG_pos : 0 < gridG.
  Proof. apply bpow_gt_0. Qed.

  Lemma format_grid (m : Z) : (0 <= m < 2 ^ prec)%Z -> format (IZR m * gridG).
  Proof.
    intros Hm. apply (generic_format_FLT radix2 (SpecFloat.emin prec emax) prec).
    apply (FLT_spec radix2 (SpecFloat.emin prec emax) prec (IZR m * gridG) (Float radix2 m (emax - prec))).
    - unfold F2R, gridG. cbn. reflexivity.
    - cbn. rewrite Z.abs_eq by lia. lia.
    - cbn. unfold SpecFloat.emin. pose proof prec_pos. pose proof prec_lt_emax. lia.
  Qed.

  Lemma grid_lt_emax (m : Z) : (0 <= m < 2 ^ prec)%Z -> 0 <= IZR m * gridG < bpow radix2 emax.
  Proof.
    intros Hm. pose proof gridG_pos as G0. pose proof prec_pos as P0. split.
    - apply Rmult_le_pos; [apply IZR_le; lia|lra].
    - replace (bpow radix2 emax) with (bpow radix2 prec * gridG).
      + apply Rmult_lt_compat_r; [exact G0|]. rewrite <- (IZR_Zpower radix2 prec) by lia. apply IZR_lt. apply Hm.
      + unfold gridG. rewrite <- bpow_plus. f_equal. lia.
  Qed.

  Lemma rnd_le_grid (x : R) (m : Z) : (0 <= m < 2 ^ prec)%Z -> 0 <= x <= IZR m * gridG ->
    0 <= rnd x <= IZR m * gridG /\ Rabs (rnd x) < bpow radix2 emax.
  Proof.
    intros Hm [X0 X1].
    assert (A : 0 <= rnd x).
    { rewrite <- (round_0 radix2 fexp (round_mode mode_NE)). apply round_le; [exact vexp06f|apply valid_rnd_N|exact X0]. }
    assert (B : rnd x <= IZR m * gridG).
    { rewrite <- (round_generic radix2 fexp (round_mode mode_NE) (IZR m * gridG) (format_grid m Hm)).
      apply round_le; [exact vexp06f|apply valid_rnd_N|exact X1]. }
    split; [split; assumption|]. rewrite Rabs_pos_eq by exact A.
    pose proof (grid_lt_emax m Hm). lra.
  Qed.

  (** ** the running sum of squares of [accumulate] *)
  Definition sq_step (ss x : KB) : KB := add KB ss (mul KB x x).
  Definition sq_run (xs : list KB) (ss : KB) : KB := fold_left sq_step xs ss.

  Lemma acc_run_sumsq_gen (xs : list KB) : forall st : KB * KB * KB,
    snd (fst (fold_left (acc_step KB) xs st)) = sq_run xs (snd (fst st)).
  Proof.
    induction xs as [|x xs IH]; intros [[s ss] c]; [reflexivity|].
    cbn [fold_left]. rewrite IH. reflexivity.
  Qed.

  Lemma acc_run_sumsq (xs : list KB) : snd (fst (acc_run KB xs)) = sq_run xs (zero KB).
  Proof. unfold acc_run. rewrite acc_run_sumsq_gen. reflexivity. Qed.

  (* number of grid cells the square of a value covers, and the exact sum of squares *)
  Definition sq_cells (x : KB) : Z := Zceil (B2R x * B2R x / gridG).
  Definition cells_sum (xs : list KB) : Z := fold_right (fun x z => (sq_cells x + z)%Z) 0%Z xs.
  Definition BRsqsum (xs : list KB) : R := Rsum (map (fun x : KB => B2R x * B2R x) xs).

  Lemma sq_cells_spec (x : KB) :
    (0 <= sq_cells x)%Z /\ B2R x * B2R x <= IZR (sq_cells x) * gridG /\
    IZR (sq_cells x) < B2R x * B2R x / gridG + 1.
  Proof.
    pose proof gridG_pos as G0. unfold sq_cells. set (v := B2R x * B2R x).
    assert (V0 : 0 <= v) by (unfold v; nra).
    assert (Q0 : 0 <= v / gridG) by (apply Rmult_le_pos; [exact V0|]; apply Rlt_le, Rinv_0_lt_compat; exact G0).
    split; [|split].
    - apply le_IZR. eapply Rle_trans; [exact Q0|apply Zceil_ub].
    - pose proof (Zceil_ub (v / gridG)) as U.
      apply (Rmult_le_compat_r gridG) in U; [|lra]. unfold Rdiv in U at 1.
      rewrite Rmult_assoc, Rinv_l, Rmult_1_r in U by lra. exact U.
    - apply Zceil_lb.
  Qed.

  Lemma cells_sum_nonneg (xs : list KB) : (0 <= cells_sum xs)%Z.
  Proof.
    induction xs as [|x xs IH]; [cbn; lia|]. cbn [cells_sum fold_right]. fold (cells_sum xs).
    pose proof (sq_cells_spec x). lia.
  Qed.

  Lemma cells_sum_bound (xs : list KB) :
    IZR (cells_sum xs) <= BRsqsum xs / gridG + INR (length xs).
  Proof.
    induction xs as [|x xs IH].
    - unfold BRsqsum. cbn. unfold Rdiv. rewrite Rmult_0_l. lra.
    - cbn [cells_sum fold_right length]. fold (cells_sum xs). rewrite plus_IZR, S_INR.
      destruct (sq_cells_spec x) as (_ & _ & U).
      unfold BRsqsum in *. cbn [map Rsum]. unfold Rdiv in *. rewrite Rmult_plus_distr_r. lra.
  Qed.

  (** the naive sum of squares stays on or below the grid point it started from plus the cells added *)
  Lemma sq_run_grid (xs : list KB) : forall (ss : KB) (m : Z),
    all_finite prec emax Hprec Hmax xs -> is_finite ss = true -> (0 <= m)%Z ->
    0 <= B2R ss <= IZR m * gridG -> (m + cells_sum xs < 2 ^ prec)%Z ->
    is_finite (sq_run xs ss) = true /\ 0 <= B2R (sq_run xs ss) <= IZR (m + cells_sum xs) * gridG.
  Proof.
    induction xs as [|x xs IH]; intros ss m Fxs Fss Hm0 Hss Hlt.
    - cbn. rewrite Z.add_0_r. split; assumption.
    - inversion Fxs as [|? ? Fx Fxs']; subst. cbn [cells_sum fold_right] in Hlt. fold (cells_sum xs) in Hlt.
      pose proof (cells_sum_nonneg xs) as C0.
      destruct (sq_cells_spec x) as (c0 & cU & _). set (c := sq_cells x) in *.
      (* the square *)
      assert (Hq : 0 <= B2R x * B2R x <= IZR c * gridG) by (split; [nra|exact cU]).
      destruct (rnd_le_grid _ c ltac:(lia) Hq) as (Rq & Aq).
      pose proof (Bmult_correct prec emax Hprec Hmax mode_NE x x) as CM.
      rewrite Rlt_bool_true in CM by exact Aq. destruct CM as (M1 & M2 & _).
      rewrite Fx in M2. cbn [andb] in M2.
      (* the addition *)
      set (q := Bmult mode_NE x x) in *.
      assert (Hs : 0 <= B2R ss + B2R q <= IZR (m + c) * gridG).
      { rewrite M1, plus_IZR, Rmult_plus_distr_r. lra. }
      destruct (rnd_le_grid _ (m + c)%Z ltac:(lia) Hs) as (Rs & As).
      pose proof (Bplus_correct prec emax Hprec Hmax mode_NE ss q Fss M2) as CP.
      rewrite Rlt_bool_true in CP by exact As. destruct CP as (P1 & P2 & _).
      cbn [sq_run fold_left]. change (fold_left sq_step xs (sq_step ss x)) with (sq_run xs (sq_step ss x)).
      assert (E : sq_step ss x = Bplus mode_NE ss q) by reflexivity.
      destruct (IH (sq_step ss x) (m + c)%Z Fxs') as (R1 & R2).
      + rewrite E. exact P2.
      + lia.
      + rewrite E, P1. exact Rs.
      + lia.
      + split; [exact R1|]. cbn [cells_sum fold_right]. fold (cells_sum xs). fold c.
        replace (m + (c + cells_sum xs))%Z with (m + c + cells_sum xs)%Z by lia. exact R2.
  Qed.

  (** hypothesis on the inputs only: the exact sum of squares plus one grid cell per value stays below 2^emax *)
  Lemma sumsq_finite (xs : list KB) :
    all_finite prec emax Hprec Hmax xs ->
    BRsqsum xs + INR (length xs) * bpow radix2 (emax - prec) < bpow radix2 emax ->
    is_finite (sq_run xs (zero KB)) = true /\ 0 <= B2R (sq_run xs (zero KB)).
  Proof.
    intros Fxs H. pose proof gridG_pos as G0. pose proof prec_pos as P0. fold gridG in H.
    assert (Hc : (0 + cells_sum xs < 2 ^ prec)%Z).
    { rewrite Z.add_0_l. apply lt_IZR. eapply Rle_lt_trans; [apply cells_sum_bound|].
      change (IZR (2 ^ prec)) with (IZR (radix2 ^ prec)). rewrite (IZR_Zpower radix2 prec) by lia.
      apply (Rmult_lt_reg_r gridG); [exact G0|].
      replace (bpow radix2 prec * gridG) with (bpow radix2 emax)
        by (unfold gridG; rewrite <- bpow_plus; f_equal; lia).
      unfold Rdiv. rewrite Rmult_plus_distr_r, Rmult_assoc, Rinv_l, Rmult_1_r by lra. exact H. }
    destruct (sq_run_grid xs (zero KB) 0%Z Fxs eq_refl ltac:(lia)) as (A & B & _).
    - cbn. lra.
    - exact Hc.
    - split; assumption.
  Qed.

  (* the same in the "half of the range" form: at most 2^(prec-1) values, exact sum of squares below 2^(emax-1) *)
  Lemma sumsq_finite_half (xs : list KB) :
    all_finite prec emax Hprec Hmax xs ->
    INR (length xs) * bpow radix2 (- prec) <= / 2 ->
    BRsqsum xs < bpow radix2 (emax - 1) ->
    is_finite (sq_run xs (zero KB)) = true /\ 0 <= B2R (sq_run xs (zero KB)).
  Proof.
    intros Fxs Hn Hs. apply sumsq_finite; [exact Fxs|].
    assert (E1 : bpow radix2 (emax - prec) = bpow radix2 emax * bpow radix2 (- prec)) by (rewrite <- bpow_plus; f_equal).
    assert (E2 : bpow radix2 (emax - 1) = bpow radix2 emax * / 2).
    { unfold Zminus. rewrite bpow_plus. f_equal. }
    pose proof (bpow_gt_0 radix2 emax) as B0. rewrite E1. rewrite E2 in Hs.
    assert (INR (length xs) * (bpow radix2 emax * bpow radix2 (- prec)) <= bpow radix2 emax * / 2) by nra.
    lra.
  Qed.
End Float.

(* ------------------------------------------------------------------------------------------- *)
(** * the main result of an iteration *)
Section Reported.
  Variables prec emax : Z.
  Context (Hprec : FLX.Prec_gt_0 prec) (Hmax : Prec_lt_emax prec emax).
  Hypothesis Hp6 : (6 <= prec)%Z.
  Notation KB := (NumB prec emax Hprec Hmax).

  (** the values that reach the sums: the products f * w of the calls with f != 0 and f * w finite, in call
      order (every other call - zero, NaN, +-inf, overflowing product - is filtered out) *)
  Definition kept_values (f : integrand KB) (evs : list (event KB)) : list KB :=
    map prod (filter keptb (vals f evs)).

  (** the explicit no-overflow hypothesis, on the kept values only, as real numbers:
      (1) 4 * sum |v| < 2^emax                      (hypothesis of C14_kahan_error_bound_float)
      (2) n * 2^-prec <= 1                          (ditto; n = number of kept values)
      (3) sum v^2 + n * 2^(emax-prec) < 2^emax      (the running sum of squares cannot overflow) *)
  Definition no_overflow (xs : list KB) : Prop :=
    4 * BRasum prec emax Hprec Hmax xs < bpow radix2 emax /\
    INR (length xs) * bpow radix2 (- prec) <= 1 /\
    BRsqsum prec emax Hprec Hmax xs + INR (length xs) * bpow radix2 (emax - prec) < bpow radix2 emax.

  (* a simpler sufficient condition: at most 2^(prec-1) kept values, sum |v| < 2^(emax-2), sum v^2 < 2^(emax-1) *)
  Lemma no_overflow_half (xs : list KB) :
    INR (length xs) * bpow radix2 (- prec) <= / 2 ->
    BRasum prec emax Hprec Hmax xs < bpow radix2 (emax - 2) ->
    BRsqsum prec emax Hprec Hmax xs < bpow radix2 (emax - 1) ->
    no_overflow xs.
  Proof.
    intros Hn Ha Hs. pose proof (bpow_gt_0 radix2 emax) as B0.
    assert (E1 : bpow radix2 (emax - prec) = bpow radix2 emax * bpow radix2 (- prec)) by (rewrite <- bpow_plus; f_equal).
    assert (E2 : bpow radix2 (emax - 1) = bpow radix2 emax * / 2).
    { unfold Zminus. rewrite bpow_plus. f_equal. }
    assert (E3 : bpow radix2 (emax - 2) = bpow radix2 emax * / 4).
    { unfold Zminus. rewrite bpow_plus. f_equal. }
    split; [rewrite E3 in Ha; lra|]. split; [lra|].
    rewrite E1. rewrite E2 in Hs.
    assert (INR (length xs) * (bpow radix2 emax * bpow radix2 (- prec)) <= bpow radix2 emax * / 2) by nra.
    lra.
  Qed.

  Lemma kept_all_finite (f : integrand KB) evs : all_finite prec emax Hprec Hmax (kept_values f evs).
  Proof.
    destruct (c06_reported_finite_partial prec emax Hprec Hmax) as (_ & _ & H). cbv zeta in H.
    exact (H (vals f evs)).
  Qed.

  (** any main result that is the filtered Kahan fold of its calls ([main_spec], which C02 proves of every
      iteration) *)
  Lemma c06f_main_spec_finite (f : integrand KB) calls evs (m : mcres KB) :
    main_spec f calls evs m -> no_overflow (kept_values f evs) ->
    all_finite prec emax Hprec Hmax (kept_values f evs) /\
    r_fin m = N.of_nat (length (kept_values f evs)) /\
    is_finite (r_sum m) = true /\ is_finite (r_sumsq m) = true /\
    Rabs (B2R (r_sum m) - BRsum prec emax Hprec Hmax (kept_values f evs))
      <= (7 * bpow radix2 (- prec) + 20 * INR (length (kept_values f evs)) * bpow radix2 (- prec) * bpow radix2 (- prec))
         * BRasum prec emax Hprec Hmax (kept_values f evs) /\
    0 <= B2R (r_sumsq m).
  Proof.
    intros (_ & H3 & _ & _ & Hfin & _) (N1 & N2 & N3). cbv zeta in H3, Hfin.
    fold (kept_values f evs) in H3. set (kept := kept_values f evs) in *.
    pose proof (kept_all_finite f evs) as Fk. fold kept in Fk.
    change (acc3 kept (zero KB, zero KB, zero KB)) with (acc_run KB kept) in H3.
    assert (Es : r_sum m = run_sum (acc_run KB kept)) by (rewrite <- H3; reflexivity).
    assert (Ess : r_sumsq m = sq_run prec emax Hprec Hmax kept (zero KB)).
    { rewrite <- acc_run_sumsq, <- H3. reflexivity. }
    destruct (kahan_error_bound_float prec emax Hprec Hmax Hp6 kept Fk N1 N2) as (_ & K1 & K2).
    destruct (sumsq_finite prec emax Hprec Hmax kept Fk N3) as (S1 & S2).
    split; [exact Fk|]. split.
    { rewrite Hfin. unfold kept, kept_values. rewrite map_length. reflexivity. }
    rewrite Es, Ess. split; [exact K1|]. split; [exact S1|]. split; [exact K2|exact S2].
  Qed.

  Definition sums_finite (f : integrand KB) (evs : list (event KB)) (m : mcres KB) : Prop :=
    r_fin m = N.of_nat (length (kept_values f evs)) /\
    is_finite (r_sum m) = true /\ is_finite (r_sumsq m) = true /\
    Rabs (B2R (r_sum m) - BRsum prec emax Hprec Hmax (kept_values f evs))
      <= (7 * bpow radix2 (- prec) + 20 * INR (length (kept_values f evs)) * bpow radix2 (- prec) * bpow radix2 (- prec))
         * BRasum prec emax Hprec Hmax (kept_values f evs) /\
    0 <= B2R (r_sumsq m).

  (** the reported estimate  value = sum / T(calls)  of such a result: dividing a finite sum by an exactly
      represented call count >= 1 cannot overflow *)
  Lemma div_by_count_finite (x : KB) (n : N) :
    is_finite x = true -> (1 <= n)%N -> (Z.of_N n < 2 ^ prec)%Z ->
    is_finite (div KB x (ofN KB n)) = true /\ Rabs (B2R (div KB x (ofN KB n))) <= Rabs (B2R x).
  Proof.
    intros Fx Hn1 Hn.
    destruct (Lemmas_C07f.ofN_B prec emax Hprec Hmax ltac:(lia) n Hn) as (Fn & En).
    assert (Hy : 1 <= B2R (ofN KB n)) by (rewrite En; apply IZR_le; lia).
    set (y := B2R (ofN KB n)) in *. set (a := Rabs (B2R x)).
    assert (A0 : 0 <= a) by apply Rabs_pos.
    assert (Q : - a <= B2R x / y <= a).
    { assert (Rabs (B2R x / y) <= a).
      { unfold Rdiv. rewrite Rabs_mult. rewrite (Rabs_pos_eq (/ y)) by (apply Rlt_le, Rinv_0_lt_compat; lra).
        fold a. assert (/ y <= 1) by (rewrite <- Rinv_1; apply Rinv_le_contravar; lra).
        assert (0 < / y) by (apply Rinv_0_lt_compat; lra). nra. }
      split; [|eapply Rle_trans; [apply Rle_abs|eassumption]].
      pose proof (Rle_abs (- (B2R x / y))) as T. rewrite Rabs_Ropp in T. lra. }
    assert (Fa : generic_format radix2 (SpecFloat.fexp prec emax) a).
    { apply generic_format_abs. apply generic_format_B2R. }
    assert (Fna : generic_format radix2 (SpecFloat.fexp prec emax) (- a)) by (apply generic_format_opp; exact Fa).
    pose proof (fexp_correct prec emax Hprec) as VE.
    assert (Rq : - a <= round radix2 (SpecFloat.fexp prec emax) (round_mode mode_NE) (B2R x / y) <= a).
    { split.
      - apply Rle_trans with (round radix2 (SpecFloat.fexp prec emax) (round_mode mode_NE) (- a)).
        + rewrite (round_generic radix2 _ (round_mode mode_NE) (- a) Fna). apply Rle_refl.
        + apply round_le; [exact VE|apply valid_rnd_N|apply Q].
      - apply Rle_trans with (round radix2 (SpecFloat.fexp prec emax) (round_mode mode_NE) a).
        + apply round_le; [exact VE|apply valid_rnd_N|apply Q].
        + rewrite (round_generic radix2 _ (round_mode mode_NE) a Fa). apply Rle_refl. }
    assert (Ra : Rabs (round radix2 (SpecFloat.fexp prec emax) (round_mode mode_NE) (B2R x / y)) <= a).
    { apply Rabs_le. exact Rq. }
    pose proof (abs_B2R_lt_emax prec emax x) as La. fold a in La.
    pose proof (Bdiv_correct prec emax Hprec Hmax mode_NE x (ofN KB n)) as C.
    fold y in C. specialize (C ltac:(lra)).
    rewrite Rlt_bool_true in C by lra. destruct C as (C1 & C2 & _).
    change (div KB x (ofN KB n)) with (Bdiv mode_NE x (ofN KB n)).
    split; [rewrite C2; exact Fx|]. rewrite C1. exact Ra.
  Qed.

  Lemma c06f_value_finite (f : integrand KB) calls evs (m : mcres KB) :
    main_spec f calls evs m -> no_overflow (kept_values f evs) ->
    (1 <= calls)%N -> (Z.of_N calls < 2 ^ prec)%Z ->
    is_finite (value m) = true /\ Rabs (B2R (value m)) <= Rabs (B2R (r_sum m)).
  Proof.
    intros Hm NO C1 C2. destruct (c06f_main_spec_finite f calls evs m Hm NO) as (_ & _ & Fs & _).
    destruct Hm as (_ & _ & _ & _ & _ & Hc).
    unfold value, mc_value. rewrite N2Z.id, Hc. apply div_by_count_finite; assumption.
  Qed.

  Variable strm : N -> KB.
  Variable ps : list (dparams KB).
  Variable f : integrand KB.
  Variable mp : mcmap KB.

  (** the three iterations *)
  Lemma c06f_reported_sums_finite :
    (forall d calls g idx r g' idx' evs, plain_iteration strm ps f d calls g idx = Ok (r, g', idx', evs) ->
       no_overflow (kept_values f evs) -> sums_finite f evs (p_main r)) /\
    (forall p calls g idx r g' idx' evs, vegas_iteration strm ps f p calls g idx = Ok (r, g', idx', evs) ->
       no_overflow (kept_values f evs) -> sums_finite f evs (p_main (v_plain r))) /\
    (forall d ws calls g idx r g' idx' evs, mc_iteration strm ps f mp d ws calls g idx = Ok (r, g', idx', evs) ->
       no_overflow (kept_values f evs) -> sums_finite f evs (p_main (m_plain r))).
  Proof.
    destruct (c02_main_is_filtered_fold strm ps f mp) as (P & V & M).
    split; [|split].
    - intros d calls g idx r g' idx' evs H NO.
      exact (proj2 (c06f_main_spec_finite f calls evs _ (P d calls g idx r g' idx' evs H) NO)).
    - intros p calls g idx r g' idx' evs H NO.
      exact (proj2 (c06f_main_spec_finite f calls evs _ (V p calls g idx r g' idx' evs H) NO)).
    - intros d ws calls g idx r g' idx' evs H NO.
      exact (proj2 (c06f_main_spec_finite f calls evs _ (M d ws calls g idx r g' idx' evs H) NO)).
  Qed.

  Lemma c06f_reported_value_finite :
    (forall d calls g idx r g' idx' evs, plain_iteration strm ps f d calls g idx = Ok (r, g', idx', evs) ->
       no_overflow (kept_values f evs) -> (1 <= calls)%N -> (Z.of_N calls < 2 ^ prec)%Z ->
       is_finite (value (p_main r)) = true /\ Rabs (B2R (value (p_main r))) <= Rabs (B2R (r_sum (p_main r)))) /\
    (forall p calls g idx r g' idx' evs, vegas_iteration strm ps f p calls g idx = Ok (r, g', idx', evs) ->
       no_overflow (kept_values f evs) -> (1 <= calls)%N -> (Z.of_N calls < 2 ^ prec)%Z ->
       is_finite (value (p_main (v_plain r))) = true /\
       Rabs (B2R (value (p_main (v_plain r)))) <= Rabs (B2R (r_sum (p_main (v_plain r))))) /\
    (forall d ws calls g idx r g' idx' evs, mc_iteration strm ps f mp d ws calls g idx = Ok (r, g', idx', evs) ->
       no_overflow (kept_values f evs) -> (1 <= calls)%N -> (Z.of_N calls < 2 ^ prec)%Z ->
       is_finite (value (p_main (m_plain r))) = true /\
       Rabs (B2R (value (p_main (m_plain r)))) <= Rabs (B2R (r_sum (p_main (m_plain r))))).
  Proof.
    destruct (c02_main_is_filtered_fold strm ps f mp) as (P & V & M).
    split; [|split].
    - intros d calls g idx r g' idx' evs H NO C1 C2.
      exact (c06f_value_finite f calls evs _ (P d calls g idx r g' idx' evs H) NO C1 C2).
    - intros p calls g idx r g' idx' evs H NO C1 C2.
      exact (c06f_value_finite f calls evs _ (V p calls g idx r g' idx' evs H) NO C1 C2).
    - intros d ws calls g idx r g' idx' evs H NO C1 C2.
      exact (c06f_value_finite f calls evs _ (M d ws calls g idx r g' idx' evs H) NO C1 C2).
  Qed.
End Reported.

(* ------------------------------------------------------------------------------------------- *)
(** * non-vacuity: the double-precision PLAIN iteration of Lemmas_C02.v, whose integrand returns
      NaN, 0, x+1, +inf, NaN, 0, x+1 (7 calls, 5 non-zero, 2 kept).  Values through [Bout]. *)

Lemma Bout_B2R prec emax (x : binary_float prec emax) s m e :
  Bout prec emax x = OFin s m e ->
  is_finite x = true /\ B2R x = F2R (Float radix2 (cond_Zopp s (Zpos m)) e).
Proof. destruct x; cbn; intros H; try discriminate H. injection H as -> -> ->. split; reflexivity. Qed.

Lemma outrep_eqb_eq06 a b : outrep_eqb a b = true -> a = b.
Proof.
  destruct a as [|s1|s1|s1 m1 e1], b as [|s2|s2|s2 m2 e2]; cbn; intros H; try discriminate H; try reflexivity.
  - apply Bool.eqb_prop in H. subst. reflexivity.
  - apply Bool.eqb_prop in H. subst. reflexivity.
  - apply andb_prop in H as [H H3]. apply andb_prop in H as [H1 H2].
    apply Bool.eqb_prop in H1. apply Pos.eqb_eq in H2. apply Z.eqb_eq in H3. subst. reflexivity.
Qed.

Definition outs06_eqb (a b : list outrep) : bool :=
  Nat.eqb (length a) (length b) && forallb (fun xy => outrep_eqb (fst xy) (snd xy)) (combine a b).
Lemma outs06_eqb_eq : forall a b, outs06_eqb a b = true -> a = b.
Proof.
  unfold outs06_eqb. induction a as [|x a IH]; intros [|y b] H; try reflexivity; try discriminate H.
  cbn in H. apply andb_prop in H as [L H]. apply andb_prop in H as [E H].
  apply outrep_eqb_eq06 in E. subst y. f_equal. apply IH. rewrite L. exact H.
Qed.

Definition ex06f_three_halves : outrep := OFin false 6755399441055744 (-52).

Definition ex06f_check : bool :=
  match plain_iteration ex02_strm ex02_ps ex02_f 2 7 0 0 with
  | Ok (r, g', idx', evs) =>
      outs06_eqb (map (fun vw => Bout 53 1024 (fst vw)) (vals ex02_f evs))
                 [ONan; OZero false; ex06f_three_halves; OInf false; ONan; OZero false; ex06f_three_halves] &&
      outs06_eqb (map (Bout 53 1024) (kept_values 53 1024 P53 M53 ex02_f evs))
                 [ex06f_three_halves; ex06f_three_halves] &&
      outrep_eqb (Bout 53 1024 (r_sum (p_main r))) (OFin false 6755399441055744 (-51)) &&
      outrep_eqb (Bout 53 1024 (r_sumsq (p_main r))) (OFin false 5066549580791808 (-50)) &&
      outrep_eqb (Bout 53 1024 (value (p_main r))) (OFin false 7720456504063707 (-54)) &&
      N.eqb (r_nz (p_main r)) 5 && N.eqb (r_fin (p_main r)) 2
  | UB _ => false
  end.
Lemma ex06f_check_true : ex06f_check = true.
Proof. vm_compute. reflexivity. Qed.

Lemma three_halves_R (x : B64) : Bout 53 1024 x = ex06f_three_halves -> B2R x = 3 / 2.
Proof.
  intros H. apply Bout_B2R in H as [_ H]. rewrite H. unfold F2R. cbn [Fnum Fexp cond_Zopp bpow].
  change (Z.pow_pos radix2 52) with 4503599627370496%Z. field.
Qed.

Lemma no_overflow_two_three_halves (a b : B64) :
  B2R a = 3 / 2 -> B2R b = 3 / 2 -> no_overflow 53 1024 P53 M53 [a; b].
Proof.
  intros Ea Eb.
  assert (B60 : 1152921504606846976 = bpow radix2 60).
  { change (bpow radix2 60) with (IZR (Z.pow_pos 2 60)). change (Z.pow_pos 2 60) with 1152921504606846976%Z. reflexivity. }
  assert (L60 : bpow radix2 60 <= bpow radix2 1022) by (apply bpow_le; lia).
  assert (L971 : bpow radix2 (1024 - 53) <= bpow radix2 1022) by (apply bpow_le; lia).
  assert (E1024 : bpow radix2 1024 = 4 * bpow radix2 1022).
  { change 1024%Z with (2 + 1022)%Z. rewrite bpow_plus. f_equal. }
  assert (Lm : bpow radix2 (- (53)) <= / 2).
  { change (/ 2) with (bpow radix2 (- (1))). apply bpow_le. lia. }
  pose proof (bpow_gt_0 radix2 (- (53))) as P53'.
  split; [|split].
  - unfold BRasum. cbn [map Rasum]. rewrite Ea, Eb. rewrite !Rabs_pos_eq by lra. rewrite E1024. lra.
  - cbn [length INR]. lra.
  - unfold BRsqsum. cbn [map Rsum length INR]. rewrite Ea, Eb. rewrite E1024. lra.
Qed.

Lemma c06f_example :
  exists r g' idx' evs,
    plain_iteration ex02_strm ex02_ps ex02_f 2 7 0 0 = Ok (r, g', idx', evs) /\
    map (fun vw => Bout 53 1024 (fst vw)) (vals ex02_f evs) =
      [ONan; OZero false; ex06f_three_halves; OInf false; ONan; OZero false; ex06f_three_halves] /\
    map (Bout 53 1024) (kept_values 53 1024 P53 M53 ex02_f evs) = [ex06f_three_halves; ex06f_three_halves] /\
    no_overflow 53 1024 P53 M53 (kept_values 53 1024 P53 M53 ex02_f evs) /\
    Bout 53 1024 (r_sum (p_main r)) = OFin false 6755399441055744 (-51) /\
    Bout 53 1024 (r_sumsq (p_main r)) = OFin false 5066549580791808 (-50) /\
    Bout 53 1024 (value (p_main r)) = OFin false 7720456504063707 (-54) /\
    r_nz (p_main r) = 5%N /\ r_fin (p_main r) = 2%N.
Proof.
  pose proof ex06f_check_true as H. unfold ex06f_check in H.
  destruct (plain_iteration ex02_strm ex02_ps ex02_f 2 7 0 0) as [[[[r g'] idx'] evs]|]; [|discriminate H].
  apply andb_prop in H as [H H6]. apply andb_prop in H as [H H5]. apply andb_prop in H as [H H7].
  apply andb_prop in H as [H H4]. apply andb_prop in H as [H H3]. apply andb_prop in H as [H1 H2].
  apply outs06_eqb_eq in H1, H2. apply outrep_eqb_eq06 in H3, H4, H7. apply N.eqb_eq in H5, H6.
  exists r, g', idx', evs. split; [reflexivity|]. split; [exact H1|]. split; [exact H2|].
  split; [|auto].
  destruct (kept_values 53 1024 P53 M53 ex02_f evs) as [|a [|b [|c l]]]; try discriminate H2.
  injection H2 as Ha Hb. apply no_overflow_two_three_halves; apply three_halves_R; assumption.
Qed.
