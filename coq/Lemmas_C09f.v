(** Lemmas for C09f: floating-point counterpart of "the selection probabilities equal the weights".
    Over [NumB prec emax] (IEEE-754 binary format, round to nearest even) the i-th selection interval
    of the model's [cumulative] has, in exact reals, the length w_i / sum_j w_j up to (n + 1) u,
    u = 2^-prec, n = number of channels.
    (a) rounding facts shared with Lemmas_C08f.v (error of a rounded sum relative to the *result*,
        absolute error of a rounded quotient in [0,1], relative error with underflow term);
    (b) telescoping error of the partial sums [psums];
    (c) the interval lengths, the partial sums themselves, the last entry. *)
From Coq Require Import ZArith NArith List Reals Lra Lia Bool Psatz.
From Flocq Require Import Core BinarySingleNaN Relative Plus_error.
From HepMC Require Import Num NumR NumB Discrete Lemmas_C09.
From HepMC Require Lemmas_C14.
Import ListNotations.
Local Open Scope R_scope.

(* ------------------------------------------------------------------------------------------- *)
(** * (a) rounding facts *)
Section RoundF.
  Variables prec emax : Z.
  Context (Hprec : FLX.Prec_gt_0 prec) (Hmax : Prec_lt_emax prec emax).
  Notation F := (binary_float prec emax).
  Notation fexpB := (SpecFloat.fexp prec emax).
  Notation eminB := (SpecFloat.emin prec emax).
  Notation rnd := (round radix2 fexpB (round_mode mode_NE)).
  Notation u := (Lemmas_C14.uB prec).

  Local Instance vexpF : Valid_exp fexpB := fexp_correct prec emax Hprec.

  Lemma u_pos : 0 < u.
  Proof. apply bpow_gt_0. Qed.

  Lemma u_le_half : u <= /2.
  Proof.
    unfold Lemmas_C14.uB. change (/2) with (bpow radix2 (-1)). apply bpow_le.
    unfold FLX.Prec_gt_0 in Hprec. lia.
  Qed.

  Lemma rnd_nonneg x : 0 <= x -> 0 <= rnd x.
  Proof. intros H. rewrite <- (rnd_0 prec emax). apply (rnd_le prec emax Hprec); assumption. Qed.

  (** a rounded sum of two numbers of the format: the error is at most u times the *result*
      (no underflow term: a sum in the subnormal range is exact) *)
  Lemma rnd_plus_abs (a b : R) :
    generic_format radix2 fexpB a -> generic_format radix2 fexpB b -> 0 <= a + b ->
    Rabs (rnd (a + b) - (a + b)) <= u * rnd (a + b).
  Proof.
    intros Fa Fb Hab.
    destruct (@FLT_plus_error_N_round_ex radix2 eminB prec Hprec (fun x => negb (Z.even x)) a b Fa Fb)
      as (eps & He & E).
    rewrite Lemmas_C14.u_ro_uB in He.
    pose proof (rnd_nonneg _ Hab) as Hr.
    change (round radix2 (FLT_exp eminB prec) (Znearest (fun x => negb (Z.even x))) (a + b))
      with (rnd (a + b)) in E.
    set (r := rnd (a + b)) in *.
    replace (r - (a + b)) with (- (r * eps)) by (rewrite E; ring).
    rewrite Rabs_Ropp, Rabs_mult, (Rabs_pos_eq r) by exact Hr.
    rewrite (Rmult_comm u r). apply Rmult_le_compat_l; assumption.
  Qed.

  (** a rounded value in [0,1]: absolute error at most u/2 *)
  Lemma rnd_unit_abs (x : R) : (2 <= prec)%Z -> 0 <= x <= 1 -> Rabs (rnd x - x) <= u / 2.
  Proof.
    intros Hp2 (H0 & H1).
    destruct (Req_dec x 0) as [->|N0].
    { rewrite (rnd_0 prec emax), Rminus_0_r, Rabs_R0. pose proof u_pos. lra. }
    destruct (Req_dec x 1) as [->|N1].
    { rewrite (rnd_1 prec emax Hprec Hmax). replace (1 - 1) with 0 by ring. rewrite Rabs_R0.
      pose proof u_pos. lra. }
    eapply Rle_trans; [apply error_le_half_ulp; exact vexpF|].
    rewrite ulp_neq_0 by exact N0. unfold cexp.
    assert (M : (mag radix2 x <= 0)%Z).
    { apply mag_le_bpow; [exact N0|]. rewrite Rabs_pos_eq by exact H0. cbn. lra. }
    assert (E : (fexpB (mag radix2 x) <= - prec)%Z).
    { unfold SpecFloat.fexp, SpecFloat.emin. unfold Prec_lt_emax in Hmax. lia. }
    apply (bpow_le radix2) in E. fold u in E. lra.
  Qed.

  (** a rounded value: relative error u plus the underflow term eta = 2^(emin-1) *)
  Definition eta_f : R := /2 * bpow radix2 eminB.

  Lemma eta_pos : 0 < eta_f.
  Proof. unfold eta_f. pose proof (bpow_gt_0 radix2 eminB). lra. Qed.

  Lemma rnd_rel_abs (x : R) : Rabs (rnd x - x) <= u * Rabs x + eta_f.
  Proof.
    destruct (@relative_error_N_FLT'_ex radix2 eminB prec Hprec (fun x => negb (Z.even x)) x)
      as (eps & eta & He & Ht & _ & E).
    change (round radix2 (FLT_exp eminB prec) (Znearest (fun x => negb (Z.even x))) x)
      with (rnd x) in E.
    rewrite E. replace (x * (1 + eps) + eta - x) with (x * eps + eta) by ring.
    eapply Rle_trans; [apply Rabs_triang|]. apply Rplus_le_compat; [|exact Ht].
    rewrite Rabs_mult, Rmult_comm. apply Rmult_le_compat_r; [apply Rabs_pos|].
    eapply Rle_trans; [exact He|]. rewrite Lemmas_C14.u_ro_uB.
    rewrite <- (Lemmas_C14.u_ro_uB prec). apply u_rod1pu_ro_le_u_ro.
  Qed.

  (** eta <= 2 u^2: the underflow term is negligible against u *)
  Lemma eta_le_u2 : eta_f <= 2 * (u * u).
  Proof.
    unfold eta_f, Lemmas_C14.uB. rewrite <- bpow_plus.
    change 2 with (bpow radix2 1) at 2. rewrite <- bpow_plus.
    change (/2) with (bpow radix2 (-1)). rewrite <- bpow_plus. apply bpow_le.
    unfold SpecFloat.emin. unfold Prec_lt_emax in Hmax. lia.
  Qed.
End RoundF.

(* ------------------------------------------------------------------------------------------- *)
(** * (b) the partial sums *)
Lemma Rabs_le_add a b x y : Rabs a <= x -> Rabs b <= y -> Rabs (a + b) <= x + y.
Proof. intros Ha Hb. eapply Rle_trans; [apply Rabs_triang|lra]. Qed.

Lemma Rabs_le_sub a b x y : Rabs a <= x -> Rabs b <= y -> Rabs (a - b) <= x + y.
Proof. intros Ha Hb. unfold Rminus. apply Rabs_le_add; [exact Ha|rewrite Rabs_Ropp; exact Hb]. Qed.

Lemma Rabs_le_mul a b x y : Rabs a <= x -> Rabs b <= y -> Rabs (a * b) <= x * y.
Proof.
  intros Ha Hb. rewrite Rabs_mult. apply Rmult_le_compat; try apply Rabs_pos; assumption.
Qed.

(** |w/T - w/W| <= k when 0 <= w <= W and |T - W| <= k T *)
Lemma quotient_shift (w T W k : R) : 0 < T -> 0 < W -> 0 <= w <= W -> Rabs (T - W) <= k * T ->
  Rabs (w / T - w / W) <= k.
Proof.
  intros HT HW Hw Hk.
  replace (w / T - w / W) with ((w / W) * ((W - T) / T)) by (field; lra).
  assert (K0 : 0 <= k).
  { pose proof (Rabs_pos (T - W)). destruct (Rle_or_lt 0 k); [assumption|]. exfalso. nra. }
  replace k with (1 * k) by ring. apply Rabs_le_mul.
  - rewrite Rabs_pos_eq.
    + apply Rmult_le_reg_r with W; [exact HW|]. unfold Rdiv. rewrite Rmult_assoc, Rinv_l by lra. lra.
    + apply Rmult_le_pos; [lra|left; apply Rinv_0_lt_compat; exact HW].
  - unfold Rdiv. rewrite Rabs_mult, (Rabs_pos_eq (/ T)) by (left; apply Rinv_0_lt_compat; exact HT).
    apply Rmult_le_reg_r with T; [exact HT|]. rewrite Rmult_assoc, Rinv_l by lra.
    rewrite Rmult_1_r, Rabs_minus_sym. exact Hk.
Qed.

Lemma nonneg_nth_R (l : list R) i : nonneg l -> 0 <= nth i l 0.
Proof.
  intros NN. destruct (nth_error l i) as [x|] eqn:E.
  - rewrite (nth_error_nth _ _ _ E). unfold nonneg in NN. rewrite Forall_forall in NN.
    apply NN. eapply nth_error_In; eauto.
  - rewrite nth_overflow by (apply nth_error_None; exact E). lra.
Qed.

Section FloatSel.
  Variables prec emax : Z.
  Context (Hprec : FLX.Prec_gt_0 prec) (Hmax : Prec_lt_emax prec emax).
  Notation KB := (NumB prec emax Hprec Hmax).
  Notation F := (binary_float prec emax).
  Notation fexpB := (SpecFloat.fexp prec emax).
  Notation rnd := (round radix2 fexpB (round_mode mode_NE)).
  Notation u := (Lemmas_C14.uB prec).
  Notation wok := (float_weights_ok prec emax Hprec Hmax).

  (** the weights as exact reals *)
  Definition BRs (ws : list KB) : list R := map (fun w : KB => @B2R prec emax w) ws.

  (** s_{i-1} (0 for the first channel) and s_i of the model's cumulative normalised weights, as
      exact reals *)
  Definition fcum_lo (ws : list KB) (i : nat) : R :=
    match i with O => 0 | S j => @B2R prec emax (nth j (@cumulative KB ws) (zero KB)) end.
  Definition fcum_hi (ws : list KB) (i : nat) : R :=
    @B2R prec emax (nth i (@cumulative KB ws) (zero KB)).

  Lemma BRs_length ws : length (BRs ws) = length ws.
  Proof. apply map_length. Qed.

  Lemma BRs_nth ws i (w : KB) : nth_error ws i = Some w -> nth i (BRs ws) 0 = B2R w.
  Proof. intros E. apply nth_error_nth. unfold BRs. rewrite nth_error_map, E. reflexivity. Qed.

  Section Sel.
    Variable ws : list KB.
    Hypothesis Hws : wok ws.
    Let ss := @psums KB ws.
    Let tot : KB := last ss (zero KB).
    Let n := length ws.

    Lemma BRs_nonneg : nonneg (BRs ws).
    Proof.
      apply Forall_forall. intros x Hx. apply in_map_iff in Hx. destruct Hx as (w & <- & Hw).
      destruct Hws as (A & _). rewrite Forall_forall in A.
      apply (fin_nonneg_R prec emax Hprec Hmax w (A w Hw)).
    Qed.

    Lemma ss_some i : (i < n)%nat -> exists s, nth_error ss i = Some s.
    Proof.
      intros Hi. destruct (nth_error ss i) as [s|] eqn:E; [exists s; reflexivity|].
      apply nth_error_None in E. unfold ss in E. rewrite (@psums_length KB ws) in E. unfold n in Hi. lia.
    Qed.

    Lemma ws_some i : (i < n)%nat -> exists w, nth_error ws i = Some w.
    Proof.
      intros Hi. destruct (nth_error ws i) as [w|] eqn:E; [exists w; reflexivity|].
      apply nth_error_None in E. unfold n in Hi. lia.
    Qed.

    Lemma ss_lt i s : nth_error ss i = Some s -> (i < n)%nat.
    Proof.
      intros E. unfold n. rewrite <- (@psums_length KB ws). apply nth_error_Some. fold ss. congruence.
    Qed.

    (** one step of std::partial_sum: the rounding error is at most u times the total *)
    Lemma ss_step_err i (a w b : KB) :
      nth_error ss i = Some a -> nth_error ws (S i) = Some w -> nth_error ss (S i) = Some b ->
      Rabs (B2R b - (B2R a + B2R w)) <= u * B2R tot.
    Proof.
      intros Ea Ew Eb.
      destruct (ss_step_R prec emax Hprec Hmax ws Hws i a w Ea Ew) as (b' & Eb' & Rb).
      fold ss in Eb'. rewrite Eb in Eb'. injection Eb' as <-. rewrite Rb.
      pose proof (ss_bounds prec emax Hprec Hmax ws Hws i a Ea) as (A0 & _).
      pose proof (ws_nth_R prec emax Hprec Hmax ws Hws _ _ Ew) as (_ & W0).
      eapply Rle_trans.
      - apply (rnd_plus_abs prec emax Hprec); [apply generic_format_B2R|apply generic_format_B2R|lra].
      - apply Rmult_le_compat_l; [left; apply u_pos|]. rewrite <- Rb.
        apply (ss_bounds prec emax Hprec Hmax ws Hws (S i) b Eb).
    Qed.

    (** telescoping: the i-th partial sum differs from the exact one by at most i u total *)
    Lemma ss_err : forall i s, nth_error ss i = Some s ->
      Rabs (B2R s - Rsum (firstn (S i) (BRs ws))) <= INR i * u * B2R tot.
    Proof.
      induction i as [|i IH]; intros s Es.
      - unfold ss in Es. rewrite psums_0 in Es. destruct ws as [|w0 rest]; [discriminate Es|].
        cbn in Es. injection Es as <-. cbn. replace (B2R w0 - (B2R w0 + 0)) with 0 by ring.
        rewrite Rabs_R0. lra.
      - pose proof (ss_lt _ _ Es) as Hi.
        destruct (ss_some i ltac:(lia)) as (a & Ea). destruct (ws_some (S i) Hi) as (w & Ew).
        pose proof (ss_step_err i a w s Ea Ew Es) as X. specialize (IH a Ea).
        rewrite (Rsum_firstn_S (BRs ws) (S i)) by (rewrite BRs_length; exact Hi).
        rewrite (BRs_nth ws (S i) w Ew).
        replace (B2R s - (Rsum (firstn (S i) (BRs ws)) + B2R w))
          with ((B2R s - (B2R a + B2R w)) + (B2R a - Rsum (firstn (S i) (BRs ws)))) by ring.
        rewrite S_INR.
        replace ((INR i + 1) * u * B2R tot) with (u * B2R tot + INR i * u * B2R tot) by ring.
        apply Rabs_le_add; assumption.
    Qed.

    (** an exact partial sum of zero forces the rounded one to be zero *)
    Lemma ss_zero : forall i s, nth_error ss i = Some s ->
      Rsum (firstn (S i) (BRs ws)) = 0 -> B2R s = 0.
    Proof.
      induction i as [|i IH]; intros s Es Z.
      - unfold ss in Es. rewrite psums_0 in Es. destruct ws as [|w0 rest]; [discriminate Es|].
        cbn in Es. injection Es as <-. cbn in Z. lra.
      - pose proof (ss_lt _ _ Es) as Hi.
        destruct (ss_some i ltac:(lia)) as (a & Ea). destruct (ws_some (S i) Hi) as (w & Ew).
        destruct (ss_step_R prec emax Hprec Hmax ws Hws i a w Ea Ew) as (b' & Eb' & Rb).
        fold ss in Eb'. rewrite Es in Eb'. injection Eb' as <-.
        rewrite (Rsum_firstn_S (BRs ws) (S i)) in Z by (rewrite BRs_length; exact Hi).
        rewrite (BRs_nth ws (S i) w Ew) in Z.
        pose proof (ws_nth_R prec emax Hprec Hmax ws Hws _ _ Ew) as (_ & W0).
        pose proof (Rsum_firstn_mono (BRs ws) 0 (S i) BRs_nonneg ltac:(lia)) as S0.
        change (Rsum (firstn 0 (BRs ws))) with 0 in S0.
        assert (ZZ : Rsum (firstn (S i) (BRs ws)) = 0). { lra. } rewrite Rb, (IH a Ea ZZ). replace (B2R w) with 0 by lra.
        rewrite Rplus_0_r. apply rnd_0.
    Qed.

    Lemma tot_pos : 0 < B2R tot.
    Proof. apply (tot_R prec emax Hprec Hmax ws Hws). Qed.

    Lemma n_pos : (0 < n)%nat.
    Proof.
      pose proof (ws_nonempty prec emax Hprec Hmax ws Hws) as NE. unfold n.
      destruct ws; [congruence|cbn; lia].
    Qed.

    Lemma firstn_n_all : firstn (S (n - 1)) (BRs ws) = BRs ws.
    Proof. apply firstn_all2. rewrite BRs_length. unfold n. lia. Qed.

    (** the total the code divides by against the exact sum of the weights *)
    Lemma tot_err : Rabs (B2R tot - Rsum (BRs ws)) <= INR (n - 1) * u * B2R tot.
    Proof.
      pose proof (ss_err (n - 1) tot (ss_last prec emax Hprec Hmax ws Hws)) as X.
      rewrite firstn_n_all in X. exact X.
    Qed.

    Lemma W_pos : 0 < Rsum (BRs ws).
    Proof.
      pose proof (Rsum_firstn_mono (BRs ws) 0 (S (n - 1)) BRs_nonneg ltac:(lia)) as S0.
      change (Rsum (firstn 0 (BRs ws))) with 0 in S0. rewrite firstn_n_all in S0.
      destruct S0 as [S0|S0]; [exact S0|]. exfalso.
      pose proof (ss_zero (n - 1) tot (ss_last prec emax Hprec Hmax ws Hws)) as X.
      rewrite firstn_n_all in X. pose proof tot_pos. rewrite X in H by (symmetry; exact S0). lra.
    Qed.

    Lemma w_le_W i : (i < n)%nat -> 0 <= nth i (BRs ws) 0 <= Rsum (BRs ws).
    Proof.
      intros Hi. split; [apply nonneg_nth_R; exact BRs_nonneg|].
      pose proof (Rsum_firstn_S (BRs ws) i ltac:(rewrite BRs_length; exact Hi)) as E.
      pose proof (Rsum_firstn_mono (BRs ws) 0 i BRs_nonneg ltac:(lia)) as S0.
      pose proof (Rsum_firstn_mono (BRs ws) (S i) (S (n - 1)) BRs_nonneg ltac:(lia)) as S1.
      change (Rsum (firstn 0 (BRs ws))) with 0 in S0. rewrite firstn_n_all in S1. lra.
    Qed.

    (** the normalised partial sums: c_i = rnd (s_i / total), error at most u/2 *)
    Lemma cs_err i (s : KB) : (2 <= prec)%Z -> nth_error ss i = Some s ->
      exists c : KB, nth_error (@cumulative KB ws) i = Some c /\ is_finite c = true /\
        Rabs (B2R c - B2R s / B2R tot) <= u / 2.
    Proof.
      intros Hp2 Es. destruct (cs_of_ss prec emax Hprec Hmax ws Hws i s Es) as (c & Ec & Fc & Rc).
      exists c. split; [exact Ec|]. split; [exact Fc|]. fold ss in Rc. fold tot in Rc. rewrite Rc.
      apply (rnd_unit_abs prec emax Hprec Hmax); [exact Hp2|].
      pose proof (ss_bounds prec emax Hprec Hmax ws Hws i s Es) as (B0 & B1). fold ss in B1. fold tot in B1.
      pose proof tot_pos as TP. split.
      - apply Rmult_le_pos; [exact B0|left; apply Rinv_0_lt_compat; exact TP].
      - apply Rmult_le_reg_r with (B2R tot); [exact TP|]. unfold Rdiv.
        rewrite Rmult_assoc, Rinv_l by lra. lra.
    Qed.

    (** ** the length of the i-th selection interval is w_i / sum w up to (n + 1) u *)
    Lemma c09f_interval_length_aux i : (2 <= prec)%Z -> (i < n)%nat ->
      Rabs ((fcum_hi ws i - fcum_lo ws i) - nth i (BRs ws) 0 / Rsum (BRs ws)) <= (INR n + 1) * u.
    Proof.
      intros Hp2 Hi. pose proof tot_pos as TP. pose proof W_pos as WP. pose proof (u_pos prec) as UP.
      pose proof tot_err as TE. pose proof (w_le_W i Hi) as WI.
      assert (N1 : INR (n - 1) = INR n - 1).
      { rewrite minus_INR by (pose proof n_pos; lia). reflexivity. }
      assert (Q : Rabs (nth i (BRs ws) 0 / B2R tot - nth i (BRs ws) 0 / Rsum (BRs ws)) <= INR (n - 1) * u).
      { apply quotient_shift; assumption. }
      destruct (ws_some i Hi) as (w & Ew). rewrite (BRs_nth ws i w Ew) in *.
      destruct i as [|j].
      - assert (E0 : nth_error ss 0 = Some w) by (unfold ss; rewrite psums_0; exact Ew).
        destruct (cs_err 0 w Hp2 E0) as (c & Ec & _ & Rc).
        unfold fcum_hi, fcum_lo. rewrite (nth_error_nth _ _ _ Ec).
        replace (B2R c - 0 - B2R w / Rsum (BRs ws))
          with ((B2R c - B2R w / B2R tot) + (B2R w / B2R tot - B2R w / Rsum (BRs ws))) by ring.
        eapply Rle_trans; [apply Rabs_le_add; [exact Rc|exact Q]|]. rewrite N1. lra.
      - destruct (ss_some j ltac:(lia)) as (a & Ea). destruct (ss_some (S j) Hi) as (b & Eb).
        pose proof (ss_step_err j a w b Ea Ew Eb) as SE.
        destruct (cs_err j a Hp2 Ea) as (ca & Eca & _ & Rca).
        destruct (cs_err (S j) b Hp2 Eb) as (cb & Ecb & _ & Rcb).
        unfold fcum_hi, fcum_lo. rewrite (nth_error_nth _ _ _ Eca), (nth_error_nth _ _ _ Ecb).
        replace (B2R cb - B2R ca - B2R w / Rsum (BRs ws))
          with (((B2R cb - B2R b / B2R tot) - (B2R ca - B2R a / B2R tot))
                + ((B2R b - (B2R a + B2R w)) / B2R tot
                   + (B2R w / B2R tot - B2R w / Rsum (BRs ws)))) by (field; lra).
        assert (SE' : Rabs ((B2R b - (B2R a + B2R w)) / B2R tot) <= u).
        { unfold Rdiv. rewrite Rabs_mult, (Rabs_pos_eq (/ B2R tot)) by (left; apply Rinv_0_lt_compat; exact TP).
          apply Rmult_le_reg_r with (B2R tot); [exact TP|]. rewrite Rmult_assoc, Rinv_l by lra. lra. }
        eapply Rle_trans.
        + apply Rabs_le_add; [apply Rabs_le_sub; [exact Rcb|exact Rca]|apply Rabs_le_add; [exact SE'|exact Q]].
        + rewrite N1. lra.
    Qed.

    (** ** the i-th normalised partial sum against (w_0 + ... + w_i) / sum w *)
    Lemma c09f_cumulative_aux i : (2 <= prec)%Z -> (i < n)%nat ->
      Rabs (fcum_hi ws i - Rsum (firstn (S i) (BRs ws)) / Rsum (BRs ws)) <= (INR i + INR n) * u.
    Proof.
      intros Hp2 Hi. pose proof tot_pos as TP. pose proof W_pos as WP. pose proof (u_pos prec) as UP.
      pose proof tot_err as TE.
      assert (N1 : INR (n - 1) = INR n - 1).
      { rewrite minus_INR by (pose proof n_pos; lia). reflexivity. }
      destruct (ss_some i Hi) as (s & Es). pose proof (ss_err i s Es) as SE.
      destruct (cs_err i s Hp2 Es) as (c & Ec & _ & Rc).
      unfold fcum_hi. rewrite (nth_error_nth _ _ _ Ec).
      set (Si := Rsum (firstn (S i) (BRs ws))) in *.
      assert (HS : 0 <= Si <= Rsum (BRs ws)).
      { pose proof (Rsum_firstn_mono (BRs ws) 0 (S i) BRs_nonneg ltac:(lia)) as S0.
        pose proof (Rsum_firstn_mono (BRs ws) (S i) (S (n - 1)) BRs_nonneg ltac:(lia)) as S1.
        change (Rsum (firstn 0 (BRs ws))) with 0 in S0. rewrite firstn_n_all in S1.
        split; assumption. }
      assert (Q : Rabs (Si / B2R tot - Si / Rsum (BRs ws)) <= INR (n - 1) * u).
      { apply quotient_shift; assumption. }
      assert (SE' : Rabs ((B2R s - Si) / B2R tot) <= INR i * u).
      { unfold Rdiv. rewrite Rabs_mult, (Rabs_pos_eq (/ B2R tot)) by (left; apply Rinv_0_lt_compat; exact TP).
        apply Rmult_le_reg_r with (B2R tot); [exact TP|]. rewrite Rmult_assoc, Rinv_l by lra. lra. }
      replace (B2R c - Si / Rsum (BRs ws))
        with ((B2R c - B2R s / B2R tot) + ((B2R s - Si) / B2R tot + (Si / B2R tot - Si / Rsum (BRs ws))))
        by (field; lra).
      eapply Rle_trans; [apply Rabs_le_add; [exact Rc|apply Rabs_le_add; [exact SE'|exact Q]]|].
      rewrite N1. lra.
    Qed.

    (** ** the last entry is exactly one: the intervals tile [0, 1] *)
    Lemma c09f_last_one_aux : fcum_hi ws (n - 1) = 1.
    Proof.
      destruct (cs_of_ss prec emax Hprec Hmax ws Hws _ _ (ss_last prec emax Hprec Hmax ws Hws))
        as (c & Ec & _ & Rc).
      unfold fcum_hi. fold n in Ec. rewrite (nth_error_nth _ _ _ Ec), Rc. fold ss. fold tot.
      pose proof tot_pos. unfold Rdiv. rewrite Rinv_r by lra. apply (rnd_1 prec emax Hprec Hmax).
    Qed.
  End Sel.

  Lemma c09f_interval_length (ws : list KB) (i : nat) : (2 <= prec)%Z -> wok ws -> (i < length ws)%nat ->
    Rabs ((fcum_hi ws i - fcum_lo ws i) - nth i (BRs ws) 0 / Rsum (BRs ws))
      <= (INR (length ws) + 1) * u.
  Proof. intros Hp2 Hws Hi. apply c09f_interval_length_aux; assumption. Qed.

  Lemma c09f_cumulative (ws : list KB) (i : nat) : (2 <= prec)%Z -> wok ws -> (i < length ws)%nat ->
    Rabs (fcum_hi ws i - Rsum (firstn (S i) (BRs ws)) / Rsum (BRs ws))
      <= (INR i + INR (length ws)) * u.
  Proof. intros Hp2 Hws Hi. apply c09f_cumulative_aux; assumption. Qed.

  Lemma c09f_tiling (ws : list KB) : wok ws ->
    fcum_lo ws 0 = 0 /\ (forall i, fcum_lo ws (S i) = fcum_hi ws i) /\ fcum_hi ws (length ws - 1) = 1.
  Proof.
    intros Hws. split; [reflexivity|]. split; [reflexivity|]. apply c09f_last_one_aux; assumption.
  Qed.

  (** the total the code divides by is the exact sum of the weights up to (n - 1) u, relatively *)
  Lemma c09f_total (ws : list KB) : wok ws ->
    0 < Rsum (BRs ws) /\ Rabs (B2R (last (@psums KB ws) (zero KB)) - Rsum (BRs ws))
      <= INR (length ws - 1) * u * B2R (last (@psums KB ws) (zero KB)).
  Proof. intros Hws. split; [apply W_pos; exact Hws|apply tot_err; exact Hws]. Qed.
End FloatSel.

(* ------------------------------------------------------------------------------------------- *)
(** * the three concrete formats *)
Lemma p2_24 : (2 <= 24)%Z. Proof. lia. Qed.
Lemma p2_53 : (2 <= 53)%Z. Proof. lia. Qed.
Lemma p2_64 : (2 <= 64)%Z. Proof. lia. Qed.

Lemma c09f_interval_length_float32 (ws : list B32) (i : nat) :
  float_weights_ok 24 128 P24 M24 ws -> (i < length ws)%nat ->
  Rabs ((fcum_hi 24 128 P24 M24 ws i - fcum_lo 24 128 P24 M24 ws i)
        - nth i (BRs 24 128 P24 M24 ws) 0 / Rsum (BRs 24 128 P24 M24 ws))
    <= (INR (length ws) + 1) * / 16777216.
Proof. intros H Hi. rewrite <- Lemmas_C14.u24. apply c09f_interval_length; [exact p2_24|exact H|exact Hi]. Qed.

Lemma c09f_interval_length_float64 (ws : list B64) (i : nat) :
  float_weights_ok 53 1024 P53 M53 ws -> (i < length ws)%nat ->
  Rabs ((fcum_hi 53 1024 P53 M53 ws i - fcum_lo 53 1024 P53 M53 ws i)
        - nth i (BRs 53 1024 P53 M53 ws) 0 / Rsum (BRs 53 1024 P53 M53 ws))
    <= (INR (length ws) + 1) * / 9007199254740992.
Proof. intros H Hi. rewrite <- Lemmas_C14.u53. apply c09f_interval_length; [exact p2_53|exact H|exact Hi]. Qed.

Lemma c09f_interval_length_float80 (ws : list B80) (i : nat) :
  float_weights_ok 64 16384 P64 M64 ws -> (i < length ws)%nat ->
  Rabs ((fcum_hi 64 16384 P64 M64 ws i - fcum_lo 64 16384 P64 M64 ws i)
        - nth i (BRs 64 16384 P64 M64 ws) 0 / Rsum (BRs 64 16384 P64 M64 ws))
    <= (INR (length ws) + 1) * / 18446744073709551616.
Proof. intros H Hi. rewrite <- Lemmas_C14.u64. apply c09f_interval_length; [exact p2_64|exact H|exact Hi]. Qed.

(* ------------------------------------------------------------------------------------------- *)
(** * non-vacuity: five double-precision weights (one disabled, one not a dyadic rational, so
      that the partial sums and the quotients are really rounded), checked through booleans *)
Definition ex09f_ws : list B64 :=
  [one B64; ofN B64 3; div B64 (one B64) (ofN B64 3); zero B64; div B64 (ofN B64 10) (ofN B64 7)].

Definition ex09f_check : bool :=
  forallb (fun w : B64 => isfinite B64 w && negb (ltb B64 w (zero B64))) ex09f_ws &&
  isfinite B64 (last (@psums B64 ex09f_ws) (zero B64)) &&
  ltb B64 (zero B64) (last (@psums B64 ex09f_ws) (zero B64)).

Lemma ex09f_check_true : ex09f_check = true.
Proof. vm_compute. reflexivity. Qed.

Lemma c09f_example : float_weights_ok 53 1024 P53 M53 ex09f_ws /\ length ex09f_ws = 5%nat.
Proof.
  split; [|reflexivity]. pose proof ex09f_check_true as H. unfold ex09f_check in H.
  apply andb_prop in H. destruct H as (H & H3). apply andb_prop in H. destruct H as (H1 & H2).
  split; [|split; [exact H2|exact H3]].
  apply Forall_forall. intros w Hw. rewrite forallb_forall in H1. specialize (H1 w Hw).
  apply andb_prop in H1. destruct H1 as (A & B). split; [exact A|]. apply negb_true_iff in B. exact B.
Qed.
