(** C19, user-driven histories — the state an iteration samples with is a function of the results the checkpoint holds NOW.

    What is proved (for every numeric type and libm oracle): a VEGAS or multi-channel checkpoint driven by any sequence of the
    user's own add(result, generator) and rollback(k) operations - what users of vegas_iteration / multi_channel_iteration do, and
    what a callback that takes the checkpoint by reference can do between two iterations of hep::vegas / hep::multi_channel -
    refines the specification "a list of results; add appends, rollback(k) keeps the first k and is rejected for k beyond the
    length".  After any accepted history that leaves results l ++ [r], pdf() is the refinement of r's grid by r's adjustment data
    under the checkpoint's alpha (channel_weights(): of r's weights under minimum weight and beta), so two histories with the
    same surviving results sample the next iteration identically: nothing is remembered from results that were discarded or from
    earlier calls of pdf().

    Tie to the code (checked on every run, C++ only, self-checking): the driver command `userloop` performs such histories with
    the real classes (pdf(), vegas_iteration, add(), rollback(), an iteration repeated on a grid still held; hep::vegas with a
    callback that rolls back through its checkpoint reference) and compares every result's grid with vegas_refine_pdf of its
    predecessor; the histories of C15 / C05 (rollback, other continuation) compare the same accessors with the executed model. *)
From Coq Require Import ZArith NArith List.
From HepMC Require Import Num Result VegasPdf MultiChannel Chkpt Lemmas_C19u.
Import ListNotations.

Theorem C19u_vegas_refines_list : forall (K : Num) (os : list (uop (vegasres K))) (c : vchk K),
  match vrun c os, spec_run (b_results (vc_base c)) os with
  | Ok c', Some l' => b_results (vc_base c') = l' /\ vc_alpha c' = vc_alpha c
  | UB _, None => True
  | _, _ => False
  end.
Proof. intros K os c. exact (vrun_refines os c). Qed.
Print Assumptions C19u_vegas_refines_list.

Theorem C19u_vegas_next_state : forall (K : Num) (L : Libm K) (c : vchk K) os c' l r,
  vrun c os = Ok c' -> spec_run (b_results (vc_base c)) os = Some (l ++ [r]) ->
  vchk_pdf L c' = refine_pdf L (v_pdf r) (vc_alpha c) (v_adj r).
Proof. intros K L. exact (vegas_next_state_is_refinement_of_last L). Qed.
Print Assumptions C19u_vegas_next_state.

Theorem C19u_vegas_history_free : forall (K : Num) (L : Libm K) (c : vchk K) os1 os2 c1 c2 l r,
  vrun c os1 = Ok c1 -> vrun c os2 = Ok c2 ->
  spec_run (b_results (vc_base c)) os1 = Some (l ++ [r]) -> spec_run (b_results (vc_base c)) os2 = Some (l ++ [r]) ->
  vchk_pdf L c1 = vchk_pdf L c2.
Proof. intros K L. exact (vegas_next_state_history_free L). Qed.
Print Assumptions C19u_vegas_history_free.

Theorem C19u_multi_channel_refines_list : forall (K : Num) (os : list (uop (mcres_mc K))) (c : mchk K),
  match mrun c os, spec_run (b_results (mc_base c)) os with
  | Ok c', Some l' => b_results (mc_base c') = l' /\ mc_beta c' = mc_beta c /\ mc_minw c' = mc_minw c
  | UB _, None => True
  | _, _ => False
  end.
Proof. intros K os c. exact (mrun_refines os c). Qed.
Print Assumptions C19u_multi_channel_refines_list.

Theorem C19u_multi_channel_next_state : forall (K : Num) (L : Libm K) (c : mchk K) os c' l r,
  mrun c os = Ok c' -> spec_run (b_results (mc_base c)) os = Some (l ++ [r]) ->
  mchk_weights L c' = refine_weights L (m_weights r) (m_adj r) (mc_minw c) (mc_beta c).
Proof. intros K L. exact (mc_next_state_is_refinement_of_last L). Qed.
Print Assumptions C19u_multi_channel_next_state.

Theorem C19u_rollback_rejected_iff : forall (K : Num) (c : vchk K) k,
  (exists e, vchk_rollback c k = UB e) <-> (N.of_nat (length (b_results (vc_base c))) < k)%N.
Proof. intros K. exact rollback_rejected_iff. Qed.
Print Assumptions C19u_rollback_rejected_iff.

Example C19u_example : spec_run ([] : list nat) [UAdd 1 0%N; UAdd 2 0%N; URollback 1; UAdd 3 0%N] = Some ([1] ++ [3])
                       /\ spec_run ([] : list nat) [UAdd 1 0%N; UAdd 3 0%N] = Some ([1] ++ [3])
                       /\ spec_run ([] : list nat) [UAdd 1 0%N; URollback 5] = None.
Proof. exact spec_example. Qed.
