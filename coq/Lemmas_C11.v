(** Lemmas for C11: a distribution bin is the integral of the integrand restricted to that bin
    (accumulator.hpp / projector.hpp: add_to_1d_distribution, add_to_2d_distribution, the bin results;
    distribution_result.hpp: mid_points). *)
From Coq Require Import ZArith NArith Reals List Lia Lra Bool Psatz.
From Flocq Require Import Core BinarySingleNaN.
From HepMC Require Import Num NumR NumB Translated Result Accum.
From HepMC Require Iter.
Import ListNotations.
Local Open Scope R_scope.

(** ** Specification vocabulary *)
Definition RofN (n : N) : R := IZR (Z.of_N n).

(* x lies in the half-open interval number k of the axis starting at lo with bins of width size *)
Definition in_bin (lo size : R) (k : N) (x : R) : Prop := lo + RofN k * size <= x < lo + (RofN k + 1) * size.
(* x lies outside [lo, lo + n * size) *)
Definition outside (lo size : R) (n : N) (x : R) : Prop := x < lo \/ lo + RofN n * size <= x.

(* the bin of x on an axis, None when outside: specification-level function, characterised by
   [bin_of_some] / [bin_of_none] below *)
Definition bin_of (lo size : R) (n : N) (x : R) : option N :=
  if Rlt_dec x lo then None else
  let k := Z.to_N (Zfloor ((x - lo) / size)) in if (k <? n)%N then Some k else None.

(* cell (j, m) of the accumulator's distribution storage *)
Definition cell_at {K : Num} (ds : list (list (cell K))) (j m : N) : option (cell K) :=
  match nthN ds j with Some d => nthN d m | None => None end.

(* ds' is ds with cell (j, m) replaced by c' and nothing else changed *)
Definition only_cell_changed {K : Num} (ds ds' : list (list (cell K))) (j m : N) (c' : cell K) : Prop :=
  cell_at ds' j m = Some c' /\ forall j' m', (j', m') <> (j, m) -> cell_at ds' j' m' = cell_at ds j' m'.

Lemma RofN_pos n : 0 <= RofN n.
Proof. unfold RofN. apply IZR_le. lia. Qed.
Lemma RofN_lt a b : (a < b)%N <-> RofN a < RofN b.
Proof. unfold RofN. split; intros H; [apply IZR_lt; lia|apply lt_IZR in H; lia]. Qed.
Lemma RofN_le a b : (a <= b)%N <-> RofN a <= RofN b.
Proof. unfold RofN. split; intros H; [apply IZR_le; lia|apply le_IZR in H; lia]. Qed.
Lemma RofN_succ a : RofN (a + 1) = RofN a + 1.
Proof. unfold RofN. rewrite N2Z.inj_add, plus_IZR. reflexivity. Qed.

(** ** one axis over the reals *)
Section Axis.
  Variables (lo size : R) (n : N) (x : R).
  Hypothesis Hsize : 0 < size.
  Let px := (x - lo) / size.

  Lemma px_nonneg : lo <= x -> 0 <= px.
  Proof. intros H. unfold px, Rdiv. apply Rmult_le_pos; [lra|]. left. apply Rinv_0_lt_compat. exact Hsize. Qed.

  Lemma px_bounds (k : Z) : IZR k <= px < IZR k + 1 <-> lo + IZR k * size <= x < lo + (IZR k + 1) * size.
  Proof.
    assert (E : x - lo = px * size) by (unfold px; field; lra).
    split; intros [H1 H2].
    - split.
      + assert (IZR k * size <= px * size) by (apply Rmult_le_compat_r; lra). lra.
      + assert (px * size < (IZR k + 1) * size) by (apply Rmult_lt_compat_r; lra). lra.
    - split.
      + apply Rmult_le_reg_r with size; [exact Hsize|]. lra.
      + apply Rmult_lt_reg_r with size; [exact Hsize|]. lra.
  Qed.

  Lemma bin_of_some k : bin_of lo size n x = Some k <-> (k < n)%N /\ in_bin lo size k x.
  Proof.
    unfold bin_of, in_bin. fold px. split.
    - destruct (Rlt_dec x lo) as [L|L]; [discriminate|]. apply Rnot_lt_le in L.
      destruct (N.ltb_spec (Z.to_N (Zfloor px)) n) as [Hk|Hk]; [|discriminate]. intros E. inversion E; subst k.
      split; [exact Hk|]. pose proof (px_nonneg L) as P.
      assert (Z : (0 <= Zfloor px)%Z) by (apply Zfloor_lub; exact P).
      unfold RofN. rewrite Z2N.id by exact Z. apply px_bounds. split; [apply Zfloor_lb|apply Zfloor_ub].
    - intros [Hk HB]. unfold RofN in HB. apply px_bounds in HB.
      assert (F : Zfloor px = Z.of_N k) by (apply Zfloor_imp; rewrite plus_IZR; exact HB).
      assert (L : lo <= x).
      { destruct HB as [HB _]. assert (0 <= IZR (Z.of_N k)) by (apply IZR_le; lia). assert (0 <= px) by lra.
        assert (E : x - lo = px * size) by (unfold px; field; lra).
        assert (0 <= px * size) by (apply Rmult_le_pos; lra). lra. }
      destruct (Rlt_dec x lo) as [L'|_]; [lra|]. rewrite F, N2Z.id.
      destruct (N.ltb_spec k n); [reflexivity|lia].
  Qed.

  Lemma bin_of_none : bin_of lo size n x = None <-> outside lo size n x.
  Proof.
    unfold bin_of, outside. fold px. split.
    - destruct (Rlt_dec x lo) as [L|L]; [left; exact L|]. apply Rnot_lt_le in L.
      destruct (N.ltb_spec (Z.to_N (Zfloor px)) n) as [Hk|Hk]; [discriminate|]. intros _. right.
      pose proof (px_nonneg L) as P. assert (Z : (0 <= Zfloor px)%Z) by (apply Zfloor_lub; exact P).
      assert (RofN n <= px).
      { apply Rle_trans with (IZR (Zfloor px)); [|apply Zfloor_lb]. unfold RofN. apply IZR_le. lia. }
      assert (E : x - lo = px * size) by (unfold px; field; lra).
      assert (RofN n * size <= px * size) by (apply Rmult_le_compat_r; lra). lra.
    - intros [L|U]; [destruct (Rlt_dec x lo); [reflexivity|contradiction]|].
      destruct (Rlt_dec x lo) as [L|L]; [reflexivity|]. apply Rnot_lt_le in L.
      assert (RofN n <= px).
      { apply Rmult_le_reg_r with size; [exact Hsize|]. assert (E : x - lo = px * size) by (unfold px; field; lra). lra. }
      assert (Z : (Z.of_N n <= Zfloor px)%Z) by (apply Zfloor_lub; exact H).
      destruct (N.ltb_spec (Z.to_N (Zfloor px)) n); [lia|reflexivity].
  Qed.

  (* what the code computes on one axis, in terms of [bin_of] *)
  Lemma axis_left : Rltb (x - lo) 0 = true -> bin_of lo size n x = None.
  Proof. intros H. apply Rltb_true in H. apply bin_of_none. left. lra. Qed.

  Lemma axis_right : Rltb (x - lo) 0 = false -> Rltb px (RofN n) = false -> bin_of lo size n x = None.
  Proof.
    intros H1 H2. apply Rltb_false in H1, H2. apply bin_of_none. right.
    assert (E : x - lo = px * size) by (unfold px; field; lra).
    assert (RofN n * size <= px * size) by (apply Rmult_le_compat_r; lra). lra.
  Qed.

  Lemma axis_inside : (n <= two64)%N -> Rltb (x - lo) 0 = false -> Rltb px (RofN n) = true ->
    exists k, Rtrunc_N px = Some k /\ bin_of lo size n x = Some k /\ (k < n)%N.
  Proof.
    intros Hn H1 H2. apply Rltb_false in H1. apply Rltb_true in H2.
    assert (L : lo <= x) by lra. pose proof (px_nonneg L) as P.
    assert (Z : (0 <= Zfloor px)%Z) by (apply Zfloor_lub; exact P).
    assert (U : (Zfloor px < Z.of_N n)%Z).
    { apply lt_IZR. apply Rle_lt_trans with px; [apply Zfloor_lb|exact H2]. }
    exists (Z.to_N (Zfloor px)). unfold Rtrunc_N. rewrite Ztrunc_floor by exact P.
    destruct (Z.ltb_spec (Zfloor px) 0); [lia|].
    unfold two64 in Hn. destruct (Z.ltb_spec (Zfloor px) (2 ^ 64)); [|lia].
    split; [reflexivity|]. unfold bin_of. fold px. destruct (Rlt_dec x lo); [lra|].
    destruct (N.ltb_spec (Z.to_N (Zfloor px)) n); [split; [reflexivity|assumption]|lia].
  Qed.
End Axis.

(** ** list updates *)
Lemma set_nth_same {A} (l : list A) : forall i a b, nth_error l i = Some a -> nth_error (set_nth l i b) i = Some b.
Proof. induction l as [|x l IH]; intros [|i] a b H; try discriminate; cbn in *; [reflexivity|eapply IH; eauto]. Qed.
Lemma set_nth_other {A} (l : list A) : forall i j b, i <> j -> nth_error (set_nth l i b) j = nth_error l j.
Proof. induction l as [|x l IH]; intros [|i] [|j] b H; cbn; try reflexivity; [congruence|apply IH; congruence]. Qed.
Lemma set_nth_length {A} (l : list A) : forall i b, length (set_nth l i b) = length l.
Proof. induction l as [|x l IH]; intros [|i] b; cbn; try reflexivity. rewrite IH. reflexivity. Qed.

Lemma nthN_setN_same {A} (l : list A) i a b : nthN l i = Some a -> nthN (setN l i b) i = Some b.
Proof. unfold nthN, setN. apply set_nth_same. Qed.
Lemma nthN_setN_other {A} (l : list A) i j b : i <> j -> nthN (setN l i b) j = nthN l j.
Proof. unfold nthN, setN. intros H. apply set_nth_other. intros E. apply H. apply N2Nat.inj. exact E. Qed.
Lemma setN_length {A} (l : list A) i b : length (setN l i b) = length l.
Proof. apply set_nth_length. Qed.
Lemma nthN_lt {A} (l : list A) i : (N.to_nat i < length l)%nat -> exists a, nthN l i = Some a.
Proof. intros H. unfold nthN. destruct (nth_error l (N.to_nat i)) eqn:E; [eauto|]. apply nth_error_None in E. lia. Qed.

Section Put.
  Context {K : Num}.

  (* total version of upd_bin: add v to cell (j, m) if it exists *)
  Definition put (ds : list (list (cell K))) (j m : N) (v : K) : list (list (cell K)) :=
    match nthN ds j with
    | Some d => match nthN d m with Some c => setN ds j (setN d m (cell_add c v)) | None => ds end
    | None => ds
    end.

  Lemma upd_bin_put ds j m v c : cell_at ds j m = Some c -> upd_bin ds j m v = Ok (put ds j m v).
  Proof.
    unfold cell_at, upd_bin, put, getN. destruct (nthN ds j) as [d|]; [|discriminate]. intros H. cbn [bind].
    rewrite H. reflexivity.
  Qed.

  Lemma cell_at_put_same ds j m v : cell_at (put ds j m v) j m = option_map (fun c => cell_add c v) (cell_at ds j m).
  Proof.
    unfold put, cell_at. destruct (nthN ds j) as [d|] eqn:Ed; [|rewrite Ed; reflexivity].
    destruct (nthN d m) as [c|] eqn:Ec; [|rewrite Ed, Ec; reflexivity].
    rewrite (nthN_setN_same _ _ _ _ Ed). rewrite (nthN_setN_same _ _ _ _ Ec). reflexivity.
  Qed.

  Lemma cell_at_put_other ds j m v j' m' : (j', m') <> (j, m) -> cell_at (put ds j m v) j' m' = cell_at ds j' m'.
  Proof.
    intros H. unfold put, cell_at. destruct (nthN ds j) as [d|] eqn:Ed; [|reflexivity].
    destruct (nthN d m) as [c|] eqn:Ec; [|reflexivity].
    destruct (N.eq_dec j j') as [->|Hj].
    - rewrite (nthN_setN_same _ _ _ _ Ed), Ed. apply nthN_setN_other. congruence.
    - rewrite nthN_setN_other by exact Hj. reflexivity.
  Qed.

  Lemma put_only_cell ds j m v c : cell_at ds j m = Some c -> only_cell_changed ds (put ds j m v) j m (cell_add c v).
  Proof.
    intros H. split; [rewrite cell_at_put_same, H; reflexivity|]. intros j' m' Hne. apply cell_at_put_other. exact Hne.
  Qed.

  (* the shape (number of distributions, number of cells of each) never changes *)
  Definition same_shape (ds ds' : list (list (cell K))) : Prop := Forall2 (fun d d' => length d = length d') ds ds'.

  Lemma same_shape_refl ds : same_shape ds ds.
  Proof. induction ds; constructor; auto. Qed.

  Lemma same_shape_setN ds : forall j d d', nthN ds j = Some d -> length d' = length d -> same_shape ds (setN ds j d').
  Proof.
    unfold nthN, setN. induction ds as [|x ds IH]; intros j d d' H L; [constructor|].
    destruct (N.to_nat j) as [|i] eqn:E; cbn in *.
    - inversion H; subst. constructor; [congruence|apply same_shape_refl].
    - constructor; [reflexivity|]. specialize (IH (N.of_nat i) d d'). rewrite Nat2N.id in IH. apply IH; assumption.
  Qed.

  Lemma put_shape ds j m v : same_shape ds (put ds j m v).
  Proof.
    unfold put. destruct (nthN ds j) as [d|] eqn:Ed; [|apply same_shape_refl].
    destruct (nthN d m) as [c|] eqn:Ec; [|apply same_shape_refl].
    eapply same_shape_setN; [exact Ed|]. apply setN_length.
  Qed.
End Put.

(** ** add_to_1d_distribution / add_to_2d_distribution over the reals *)
Definition target1 (p : dparams NumR) (x : R) : option N := bin_of (d_xmin p) (d_bsx p) (d_bx p) x.
Definition target2 (p : dparams NumR) (x y : R) : option N :=
  match bin_of (d_xmin p) (d_bsx p) (d_bx p) x, bin_of (d_ymin p) (d_bsy p) (d_by p) y with
  | Some kx, Some ky => Some (ky * d_bx p + kx)%N
  | _, _ => None
  end.

Lemma fill1d_R ps ds idx x v (p : dparams NumR) d :
  nthN ps idx = Some p -> 0 < d_bsx p -> (d_bx p <= two64)%N ->
  nthN ds idx = Some d -> (N.to_nat (d_bx p) <= length d)%nat ->
  @fill1d NumR ps ds idx x v = Ok (match target1 p x with Some k => put ds idx k v | None => ds end).
Proof.
  intros Hp Hs Hn Hd Hl. unfold fill1d, getN, target1. rewrite Hp. cbn [isfinite ltb sub div zero ofN NumR negb bind].
  fold (RofN (d_bx p)).
  destruct (Rltb (x - d_xmin p) 0) eqn:E1; [rewrite (axis_left _ _ _ _ Hs E1); reflexivity|].
  destruct (Rltb ((x - d_xmin p) / d_bsx p) (RofN (d_bx p))) eqn:E2; cbn [negb];
    [|rewrite (axis_right _ _ _ _ Hs E1 E2); reflexivity].
  destruct (axis_inside _ _ _ _ Hs Hn E1 E2) as (k & Ht & Hb & Hk).
  unfold to_index. cbn [trunc NumR]. rewrite Ht, Hb. cbn [bind].
  destruct (nthN_lt d k) as (c & Hc); [lia|]. apply upd_bin_put with c. unfold cell_at. rewrite Hd. exact Hc.
Qed.

Lemma fill2d_R ps ds idx x y v (p : dparams NumR) d :
  nthN ps idx = Some p -> 0 < d_bsx p -> 0 < d_bsy p -> (d_bx p <= two64)%N -> (d_by p <= two64)%N ->
  nthN ds idx = Some d -> (N.to_nat (d_bx p * d_by p) <= length d)%nat ->
  @fill2d NumR ps ds idx x y v = Ok (match target2 p x y with Some k => put ds idx k v | None => ds end).
Proof.
  intros Hp Hsx Hsy Hnx Hny Hd Hl. unfold fill2d, getN, target2. rewrite Hp.
  cbn [isfinite ltb sub div zero ofN NumR negb bind]. fold (RofN (d_bx p)). fold (RofN (d_by p)).
  destruct (Rltb (x - d_xmin p) 0) eqn:E1; [rewrite (axis_left _ _ _ _ Hsx E1); reflexivity|].
  destruct (Rltb (y - d_ymin p) 0) eqn:F1.
  { rewrite (axis_left _ _ _ _ Hsy F1). destruct (bin_of (d_xmin p) (d_bsx p) (d_bx p) x); reflexivity. }
  destruct (Rltb ((x - d_xmin p) / d_bsx p) (RofN (d_bx p))) eqn:E2; cbn [negb];
    [|rewrite (axis_right _ _ _ _ Hsx E1 E2); reflexivity].
  destruct (axis_inside _ _ _ _ Hsx Hnx E1 E2) as (kx & Htx & Hbx & Hkx).
  unfold to_index. cbn [trunc NumR]. rewrite Htx, Hbx. cbn [bind].
  destruct (Rltb ((y - d_ymin p) / d_bsy p) (RofN (d_by p))) eqn:F2; cbn [negb];
    [|rewrite (axis_right _ _ _ _ Hsy F1 F2); reflexivity].
  destruct (axis_inside _ _ _ _ Hsy Hny F1 F2) as (ky & Hty & Hby & Hky).
  rewrite Hty, Hby. cbn [bind].
  destruct (nthN_lt d (ky * d_bx p + kx)) as (c & Hc); [nia|]. apply upd_bin_put with c. unfold cell_at. rewrite Hd. exact Hc.
Qed.

(* the interval form *)
Lemma c11_fill1d_spec ps ds idx x v (p : dparams NumR) d :
  nthN ps idx = Some p -> 0 < d_bsx p -> (d_bx p <= two64)%N ->
  nthN ds idx = Some d -> (N.to_nat (d_bx p) <= length d)%nat ->
  exists ds', @fill1d NumR ps ds idx x v = Ok ds' /\
    ((exists k c, (k < d_bx p)%N /\ in_bin (d_xmin p) (d_bsx p) k x /\
        cell_at ds idx k = Some c /\ ds' = setN ds idx (setN d k (cell_add c v)) /\
        only_cell_changed ds ds' idx k (cell_add c v)) \/
     (outside (d_xmin p) (d_bsx p) (d_bx p) x /\ ds' = ds)).
Proof.
  intros Hp Hs Hn Hd Hl. rewrite (fill1d_R ps ds idx x v p d Hp Hs Hn Hd Hl). unfold target1.
  destruct (bin_of (d_xmin p) (d_bsx p) (d_bx p) x) as [k|] eqn:E; eexists; (split; [reflexivity|]).
  - apply bin_of_some in E; [|exact Hs]. destruct E as [Hk HB]. left.
    destruct (nthN_lt d k) as (c & Hc); [lia|]. assert (HC : cell_at ds idx k = Some c) by (unfold cell_at; rewrite Hd; exact Hc).
    exists k, c. split; [exact Hk|]. split; [exact HB|]. split; [exact HC|].
    split; [unfold put; rewrite Hd, Hc; reflexivity|]. apply put_only_cell. exact HC.
  - right. split; [|reflexivity]. apply bin_of_none in E; assumption.
Qed.

Lemma c11_fill2d_spec ps ds idx x y v (p : dparams NumR) d :
  nthN ps idx = Some p -> 0 < d_bsx p -> 0 < d_bsy p -> (d_bx p <= two64)%N -> (d_by p <= two64)%N ->
  nthN ds idx = Some d -> (N.to_nat (d_bx p * d_by p) <= length d)%nat ->
  exists ds', @fill2d NumR ps ds idx x y v = Ok ds' /\
    ((exists kx ky c, (kx < d_bx p)%N /\ (ky < d_by p)%N /\
        in_bin (d_xmin p) (d_bsx p) kx x /\ in_bin (d_ymin p) (d_bsy p) ky y /\
        cell_at ds idx (ky * d_bx p + kx) = Some c /\
        ds' = setN ds idx (setN d (ky * d_bx p + kx) (cell_add c v)) /\
        only_cell_changed ds ds' idx (ky * d_bx p + kx) (cell_add c v)) \/
     ((outside (d_xmin p) (d_bsx p) (d_bx p) x \/ outside (d_ymin p) (d_bsy p) (d_by p) y) /\ ds' = ds)).
Proof.
  intros Hp Hsx Hsy Hnx Hny Hd Hl. rewrite (fill2d_R ps ds idx x y v p d Hp Hsx Hsy Hnx Hny Hd Hl). unfold target2.
  destruct (bin_of (d_xmin p) (d_bsx p) (d_bx p) x) as [kx|] eqn:Ex.
  2:{ eexists; split; [reflexivity|]. right. split; [|reflexivity]. left. apply bin_of_none in Ex; assumption. }
  destruct (bin_of (d_ymin p) (d_bsy p) (d_by p) y) as [ky|] eqn:Ey.
  2:{ eexists; split; [reflexivity|]. right. split; [|reflexivity]. right. apply bin_of_none in Ey; assumption. }
  eexists; split; [reflexivity|]. left.
  apply bin_of_some in Ex; [|exact Hsx]. apply bin_of_some in Ey; [|exact Hsy]. destruct Ex as [Hkx HBx], Ey as [Hky HBy].
  destruct (nthN_lt d (ky * d_bx p + kx)) as (c & Hc); [nia|].
  assert (HC : cell_at ds idx (ky * d_bx p + kx) = Some c) by (unfold cell_at; rewrite Hd; exact Hc).
  exists kx, ky, c. repeat (split; [assumption|]). split; [unfold put; rewrite Hd, Hc; reflexivity|]. apply put_only_cell. exact HC.
Qed.

(* the bins partition the range: a coordinate is in at most one bin (so "exactly the bin") *)
Lemma in_bin_unique lo size k k' x : 0 < size -> in_bin lo size k x -> in_bin lo size k' x -> k = k'.
Proof.
  intros Hs H1 H2. assert (E : bin_of lo size (N.max k k' + 1) x = Some k) by (apply bin_of_some; [exact Hs|split; [lia|exact H1]]).
  assert (E' : bin_of lo size (N.max k k' + 1) x = Some k') by (apply bin_of_some; [exact Hs|split; [lia|exact H2]]).
  congruence.
Qed.
Lemma in_bin_not_outside lo size n k x : 0 < size -> (k < n)%N -> in_bin lo size k x -> ~ outside lo size n x.
Proof.
  intros Hs Hk H1 H2. apply (bin_of_none lo size n x Hs) in H2.
  assert (E : bin_of lo size n x = Some k) by (apply bin_of_some; [exact Hs|split; assumption]). congruence.
Qed.

(** ** mid-points are listed in the same flat order (x fastest, then y) *)
Lemma walk_length {K : Num} n : forall (x s : K), length (walk n x s) = n.
Proof. induction n as [|n IH]; intros x s; cbn; [reflexivity|]. rewrite IH. reflexivity. Qed.

Lemma walk_nth_R n : forall (x s : R) i, (i < n)%nat -> nth_error (@walk NumR n x s) i = Some (x + INR i * s).
Proof.
  induction n as [|n IH]; intros x s i H; [lia|]. destruct i as [|i]; cbn [walk nth_error].
  - f_equal. cbn. lra.
  - rewrite IH by lia. cbn [add NumR]. f_equal. rewrite S_INR. lra.
Qed.

Lemma concat_repeat_nth {A} (row : list A) m : forall ky kx, (ky < m)%nat -> (kx < length row)%nat ->
  nth_error (concat (repeat row m)) (ky * length row + kx) = nth_error row kx.
Proof.
  induction m as [|m IH]; intros ky kx Hy Hx; [lia|]. cbn [repeat concat]. destruct ky as [|ky].
  - cbn [Nat.mul Nat.add]. apply nth_error_app1. exact Hx.
  - rewrite nth_error_app2 by (cbn; lia). replace (S ky * length row + kx - length row)%nat with (ky * length row + kx)%nat by (cbn; lia).
    apply IH; lia.
Qed.
Lemma concat_repeat_length {A} (row : list A) m : length (concat (repeat row m)) = (m * length row)%nat.
Proof. induction m as [|m IH]; cbn; [reflexivity|]. rewrite app_length, IH. reflexivity. Qed.

Lemma concat_map_repeat_nth {A} (ys : list A) n : forall ky kx, (kx < n)%nat ->
  nth_error (concat (map (fun y => repeat y n) ys)) (ky * n + kx) = nth_error ys ky.
Proof.
  induction ys as [|y ys IH]; intros ky kx Hx; cbn [map concat].
  - destruct ky, (_ + kx)%nat; reflexivity.
  - destruct ky as [|ky].
    + cbn [Nat.mul Nat.add nth_error]. rewrite nth_error_app1 by (rewrite repeat_length; exact Hx).
      apply nth_error_repeat. exact Hx.
    + rewrite nth_error_app2 by (rewrite repeat_length; cbn; lia). rewrite repeat_length.
      replace (S ky * n + kx - n)%nat with (ky * n + kx)%nat by (cbn; lia). cbn [nth_error]. apply IH. exact Hx.
Qed.
Lemma concat_map_repeat_length {A} (ys : list A) n : length (concat (map (fun y => repeat y n) ys)) = (length ys * n)%nat.
Proof. induction ys as [|y ys IH]; cbn; [reflexivity|]. rewrite app_length, repeat_length, IH. reflexivity. Qed.

Lemma INR_RofN k : INR (N.to_nat k) = RofN k.
Proof. unfold RofN. rewrite INR_IZR_INZ, N_nat_Z. reflexivity. Qed.

Lemma c11_midpoints_order (d : dres NumR) :
  let p := dr_par d in
  length (mid_points_x d) = N.to_nat (d_bx p * d_by p) /\
  length (mid_points_y d) = N.to_nat (d_bx p * d_by p) /\
  forall kx ky, (kx < d_bx p)%N -> (ky < d_by p)%N ->
    nth_error (mid_points_x d) (N.to_nat (ky * d_bx p + kx)) = Some (d_xmin p + (RofN kx + / 2) * d_bsx p) /\
    nth_error (mid_points_y d) (N.to_nat (ky * d_bx p + kx)) = Some (d_ymin p + (RofN ky + / 2) * d_bsy p).
Proof.
  intros p. unfold mid_points_x, mid_points_y. fold p.
  split; [rewrite concat_repeat_length, walk_length; lia|].
  split; [rewrite concat_map_repeat_length, walk_length; lia|].
  intros kx ky Hx Hy.
  replace (N.to_nat (ky * d_bx p + kx)) with (N.to_nat ky * N.to_nat (d_bx p) + N.to_nat kx)%nat by lia.
  split.
  - set (row := walk _ _ _). assert (L : length row = N.to_nat (d_bx p)) by apply walk_length.
    rewrite <- L. rewrite concat_repeat_nth by lia. unfold row. rewrite walk_nth_R by lia.
    rewrite INR_RofN, halfR. cbn [add mul NumR]. f_equal. lra.
  - rewrite concat_map_repeat_nth by lia. rewrite walk_nth_R by lia.
    rewrite INR_RofN, halfR. cbn [add mul NumR]. f_equal. lra.
Qed.

(** ** the reported bins (every numeric type) *)
Section Report.
  Context {K : Num}.

  Definition bin_inv (p : dparams K) : K := div K (div K (one K) (d_bsx p)) (d_bsy p).
  Definition bin_report (calls : N) (p : dparams K) (c : cell K) : mcres K :=
    mk_mcres calls (c_nz c) (c_fin c) (mul K (bin_inv p) (c_sum c)) (mul K (mul K (bin_inv p) (bin_inv p)) (c_sumsq c)).

  Lemma dist_result_bins calls p cells :
    dr_par (dist_result calls p cells) = p /\
    dr_bins (dist_result calls p cells) = map (bin_report calls p) cells.
  Proof. split; reflexivity. Qed.

  Lemma dist_results_nth calls : forall (ps : list (dparams K)) (ds : list (list (cell K))) j dr, nth_error (dist_results calls ps ds) j = Some dr ->
    exists p cells, nth_error ps j = Some p /\ nth_error ds j = Some cells /\ dr = dist_result calls p cells.
  Proof.
    induction ps as [|p ps IH]; intros [|d ds] j dr H; cbn [dist_results] in H; try (destruct j; discriminate).
    destruct j as [|j]; cbn [nth_error] in *.
    - inversion H. exists p, d. auto.
    - apply IH. exact H.
  Qed.

  Lemma dist_results_nth' calls : forall (ps : list (dparams K)) (ds : list (list (cell K))) j p cells, nth_error ps j = Some p -> nth_error ds j = Some cells ->
    nth_error (dist_results calls ps ds) j = Some (dist_result calls p cells).
  Proof.
    induction ps as [|p0 ps IH]; intros [|d ds] j p cells Hp Hd; try (destruct j; discriminate).
    destruct j as [|j]; cbn [nth_error dist_results] in *; [congruence|]. apply IH; assumption.
  Qed.

  Lemma c11_bin_reports_calls ps (a : accst K) calls j dr k b :
    nth_error (p_dists (acc_result ps a calls)) j = Some dr -> nth_error (dr_bins dr) k = Some b ->
    r_calls b = calls /\
    exists p cells c, nth_error ps j = Some p /\ nth_error (a_dists a) j = Some cells /\ nth_error cells k = Some c /\
      dr_par dr = p /\ length (dr_bins dr) = length cells /\
      b = mk_mcres calls (c_nz c) (c_fin c)
            (mul K (div K (div K (one K) (d_bsx p)) (d_bsy p)) (c_sum c))
            (mul K (mul K (div K (div K (one K) (d_bsx p)) (d_bsy p)) (div K (div K (one K) (d_bsx p)) (d_bsy p))) (c_sumsq c)).
  Proof.
    unfold acc_result. cbn [p_dists]. intros H1 H2. apply dist_results_nth in H1 as (p & cells & Hp & Hc & ->).
    destruct (dist_result_bins calls p cells) as (E1 & E2). rewrite E2 in H2.
    destruct (nth_error cells k) as [c|] eqn:Ec.
    2:{ apply nth_error_None in Ec. assert (nth_error (map (bin_report calls p) cells) k = None) by (apply nth_error_None; rewrite map_length; exact Ec). congruence. }
    rewrite (map_nth_error _ _ _ Ec) in H2. inversion H2; subst b. split; [reflexivity|].
    exists p, cells, c. repeat (split; [assumption|]). split; [rewrite E2, map_length; reflexivity|reflexivity].
  Qed.
End Report.

(** ** Kahan accumulation over the reals is exact and its compensation vanishes *)
Lemma accumulateR s ss c v : accumulate NumR s ss c v = (s + (v - c), ss + v * v, 0).
Proof. unfold accumulate. cbn [add sub mul NumR]. f_equal. f_equal. lra. Qed.

Lemma cell_addR (c : cell NumR) v : c_comp c = 0 ->
  cell_add c v = @mk_cell NumR (c_sum c + v) (c_sumsq c + v * v) 0 (c_nz c + 1) (c_fin c + 1).
Proof. intros H. unfold cell_add. rewrite accumulateR, H. f_equal. lra. Qed.

Fixpoint sumR (l : list R) : R := match l with [] => 0 | v :: l' => v + sumR l' end.

Lemma fold_cell_addR vals : forall (c : cell NumR), c_comp c = 0 ->
  fold_left cell_add vals c =
  @mk_cell NumR (c_sum c + sumR vals) (c_sumsq c + sumR (map (fun v => v * v) vals)) 0
                (c_nz c + N.of_nat (length vals)) (c_fin c + N.of_nat (length vals)).
Proof.
  induction vals as [|v vals IH]; intros c H; cbn [fold_left sumR map length].
  - destruct c; cbn in *. subst. f_equal; try lra; lia.
  - rewrite IH by (rewrite cell_addR by exact H; reflexivity). rewrite cell_addR by exact H. cbn [c_sum c_sumsq c_nz c_fin].
    f_equal; try lra; lia.
Qed.

(** ** a whole list of fills (one integrand call, or all calls of an iteration) over the reals *)
Definition fill_idx {K : Num} (f : fill K) : N := match f with Fill1 i _ _ => i | Fill2 i _ _ _ => i end.
Definition fill_val {K : Num} (f : fill K) : K := match f with Fill1 _ _ v => v | Fill2 _ _ _ v => v end.

(* (distribution, flat bin) a fill goes to; None = outside the range (or no such distribution) *)
Definition target (ps : list (dparams NumR)) (f : fill NumR) : option (N * N) :=
  match nthN ps (fill_idx f) with
  | None => None
  | Some p =>
      match f with
      | Fill1 i x _ => option_map (fun k => (i, k)) (target1 p x)
      | Fill2 i x y _ => option_map (fun k => (i, k)) (target2 p x y)
      end
  end.

Definition hitb (ps : list (dparams NumR)) (j m : N) (f : fill NumR) : bool :=
  match target ps f with Some (j', m') => N.eqb j' j && N.eqb m' m | None => false end.
Definition insideb (ps : list (dparams NumR)) (j : N) (f : fill NumR) : bool :=
  match target ps f with Some (j', _) => N.eqb j' j | None => false end.

(* the values (already times the point weight) of the fills that hit cell (j, m), in order *)
Definition vals_in (ps : list (dparams NumR)) (w : R) (j m : N) (fs : list (fill NumR)) : list R :=
  map (fun f : fill NumR => fill_val f * w) (filter (hitb ps j m) fs).
(* ... and of all fills of distribution j that lie inside its range *)
Definition vals_inside (ps : list (dparams NumR)) (w : R) (j : N) (fs : list (fill NumR)) : list R :=
  map (fun f : fill NumR => fill_val f * w) (filter (insideb ps j) fs).

(* parameters: positive finite bin sizes, bin counts that fit a size_t, at least one row *)
Definition par_ok (p : dparams NumR) : Prop :=
  0 < d_bsx p /\ 0 < d_bsy p /\ (d_bx p <= two64)%N /\ (d_by p <= two64)%N /\ (1 <= d_by p)%N.
(* the storage has bins_x * bins_y cells per distribution, as the constructor allocates *)
Definition store_ok (ps : list (dparams NumR)) (ds : list (list (cell NumR))) : Prop :=
  Forall2 (fun p d => par_ok p /\ length d = N.to_nat (d_bx p * d_by p)) ps ds.
Definition valid_fill (ps : list (dparams NumR)) (f : fill NumR) : Prop := (N.to_nat (fill_idx f) < length ps)%nat.

Definition step (ps : list (dparams NumR)) (w : R) (ds : list (list (cell NumR))) (f : fill NumR) :=
  match target ps f with Some (j, m) => put ds j m (fill_val f * w) | None => ds end.

Lemma Forall2_nth_l {A B} (P : A -> B -> Prop) l l' : Forall2 P l l' ->
  forall i x, nth_error l i = Some x -> exists y, nth_error l' i = Some y /\ P x y.
Proof.
  induction 1 as [|a b l l' Hab HF IH]; intros [|i] x Hx; try discriminate; cbn [nth_error] in *.
  - inversion Hx; subst. exists b. auto.
  - apply IH. exact Hx.
Qed.
Lemma Forall2_nth_r {A B} (P : A -> B -> Prop) l l' : Forall2 P l l' ->
  forall i y, nth_error l' i = Some y -> exists x, nth_error l i = Some x /\ P x y.
Proof.
  induction 1 as [|a b l l' Hab HF IH]; intros [|i] y Hy; try discriminate; cbn [nth_error] in *.
  - inversion Hy; subst. exists a. auto.
  - apply IH. exact Hy.
Qed.
Lemma Forall2_length' {A B} (P : A -> B -> Prop) l l' : Forall2 P l l' -> length l = length l'.
Proof. induction 1; cbn; congruence. Qed.

Lemma store_ok_shape ps ds ds' : store_ok ps ds -> same_shape ds ds' -> store_ok ps ds'.
Proof.
  unfold store_ok, same_shape. intros H. revert ds'. induction H as [|p d ps ds (Hp & Hl) HF IH]; intros ds' HS; inversion HS; subst; constructor.
  - split; [exact Hp|congruence].
  - apply IH. assumption.
Qed.

Lemma do_fill_R ps w ds f : store_ok ps ds -> valid_fill ps f -> @do_fill NumR ps w ds f = Ok (step ps w ds f).
Proof.
  intros HS HV. unfold valid_fill in HV. destruct (nthN_lt ps (fill_idx f) HV) as (p & Hp).
  destruct (Forall2_nth_l _ _ _ HS _ _ Hp) as (d & Hd & (Hsx & Hsy & Hnx & Hny & Hby) & Hl).
  unfold step, target. rewrite Hp. destruct f as [i x v|i x y v]; cbn [do_fill fill_idx fill_val mul NumR] in *.
  - rewrite (fill1d_R ps ds i x (v * w) p d Hp Hsx Hnx Hd) by nia.
    destruct (target1 p x); reflexivity.
  - rewrite (fill2d_R ps ds i x y (v * w) p d Hp Hsx Hsy Hnx Hny Hd) by lia.
    destruct (target2 p x y); reflexivity.
Qed.

Lemma step_shape ps w ds f : same_shape ds (step ps w ds f).
Proof. unfold step. destruct (target ps f) as [[j m]|]; [apply put_shape|apply same_shape_refl]. Qed.

Lemma same_shape_trans (a b c : list (list (cell NumR))) : same_shape a b -> same_shape b c -> same_shape a c.
Proof.
  unfold same_shape. intros H. revert c. induction H; intros c Hc; inversion Hc; subst; constructor; [congruence|auto].
Qed.

Lemma do_fills_R ps w fs : forall ds, store_ok ps ds -> Forall (valid_fill ps) fs ->
  @do_fills NumR ps w ds fs = Ok (fold_left (step ps w) fs ds) /\ same_shape ds (fold_left (step ps w) fs ds).
Proof.
  induction fs as [|f fs IH]; intros ds HS HV; cbn [do_fills fold_left]; [split; [reflexivity|apply same_shape_refl]|].
  inversion HV as [|? ? Hf Hfs]; subst. rewrite (do_fill_R ps w ds f HS Hf). cbn [bind].
  pose proof (step_shape ps w ds f) as SS. destruct (IH (step ps w ds f) (store_ok_shape _ _ _ HS SS) Hfs) as (E & S2).
  split; [exact E|]. eapply same_shape_trans; eauto.
Qed.

Lemma cell_at_step ps w ds f j m :
  cell_at (step ps w ds f) j m =
  if hitb ps j m f then option_map (fun c : cell NumR => cell_add c (fill_val f * w)) (cell_at ds j m) else cell_at ds j m.
Proof.
  unfold step, hitb. destruct (target ps f) as [[j' m']|]; [|reflexivity].
  destruct (N.eqb_spec j' j) as [->|Hj]; cbn [andb].
  - destruct (N.eqb_spec m' m) as [->|Hm]; [apply cell_at_put_same|]. apply cell_at_put_other. congruence.
  - apply cell_at_put_other. congruence.
Qed.

Lemma cell_at_fold ps w j m fs : forall ds,
  cell_at (fold_left (step ps w) fs ds) j m = option_map (fold_left (@cell_add NumR) (vals_in ps w j m fs)) (cell_at ds j m).
Proof.
  induction fs as [|f fs IH]; intros ds; cbn [fold_left].
  - unfold vals_in. cbn. destruct (cell_at ds j m); reflexivity.
  - rewrite IH, cell_at_step. unfold vals_in. cbn [filter]. destruct (hitb ps j m f); [|reflexivity].
    cbn [map fold_left]. destruct (cell_at ds j m); reflexivity.
Qed.

(* the bin's accumulator is the Kahan accumulation over exactly the fills that lie in the bin, in order *)
Lemma c11_bin_is_restricted_sum ps w ds fs : store_ok ps ds -> Forall (valid_fill ps) fs ->
  exists ds', @do_fills NumR ps w ds fs = Ok ds' /\ same_shape ds ds' /\
    forall j m c, cell_at ds j m = Some c ->
      cell_at ds' j m = Some (fold_left (@cell_add NumR) (vals_in ps w j m fs) c) /\
      (c_comp c = 0 ->
         cell_at ds' j m = Some (@mk_cell NumR (c_sum c + sumR (vals_in ps w j m fs))
                                   (c_sumsq c + sumR (map (fun v => v * v) (vals_in ps w j m fs))) 0
                                   (c_nz c + N.of_nat (length (vals_in ps w j m fs)))
                                   (c_fin c + N.of_nat (length (vals_in ps w j m fs))))).
Proof.
  intros HS HV. destruct (do_fills_R ps w fs ds HS HV) as (E & SS). eexists; split; [exact E|]. split; [exact SS|].
  intros j m c Hc. rewrite cell_at_fold, Hc. cbn [option_map]. split; [reflexivity|]. intros H0.
  rewrite fold_cell_addR by exact H0. reflexivity.
Qed.

(* what [target] means, in terms of the half-open intervals *)
Lemma target_spec (ps : list (dparams NumR)) (f : fill NumR) j m :
  (forall p, nthN ps (fill_idx f) = Some p -> 0 < d_bsx p /\ 0 < d_bsy p) ->
  (target ps f = Some (j, m) <->
   exists p, nthN ps j = Some p /\ fill_idx f = j /\
     match f with
     | Fill1 _ x _ => (m < d_bx p)%N /\ in_bin (d_xmin p) (d_bsx p) m x
     | Fill2 _ x y _ => exists kx ky, m = (ky * d_bx p + kx)%N /\ (kx < d_bx p)%N /\ (ky < d_by p)%N /\
                          in_bin (d_xmin p) (d_bsx p) kx x /\ in_bin (d_ymin p) (d_bsy p) ky y
     end).
Proof.
  intros Hpos. unfold target. split.
  - destruct (nthN ps (fill_idx f)) as [p|] eqn:Hp; [|discriminate]. destruct (Hpos p eq_refl) as (Hsx & Hsy).
    destruct f as [i x v|i x y v]; cbn [fill_idx] in *.
    + unfold target1. destruct (bin_of _ _ _ x) as [k|] eqn:E; [|discriminate]. cbn [option_map]. intros H; inversion H; subst.
      exists p. split; [exact Hp|]. split; [reflexivity|]. apply bin_of_some; assumption.
    + unfold target2. destruct (bin_of _ _ _ x) as [kx|] eqn:Ex; [|discriminate].
      destruct (bin_of _ _ _ y) as [ky|] eqn:Ey; [|discriminate]. cbn [option_map]. intros H; inversion H; subst.
      exists p. split; [exact Hp|]. split; [reflexivity|]. apply bin_of_some in Ex, Ey; try assumption.
      exists kx, ky. tauto.
  - intros (p & Hp & Hi & H). rewrite Hi, Hp. rewrite Hi in Hpos. destruct (Hpos p Hp) as (Hsx & Hsy).
    destruct f as [i x v|i x y v]; cbn [fill_idx] in *; subst i.
    + unfold target1. apply bin_of_some in H; [|exact Hsx]. rewrite H. reflexivity.
    + destruct H as (kx & ky & -> & Hkx & Hky & Bx & By). unfold target2.
      assert (Ex : bin_of (d_xmin p) (d_bsx p) (d_bx p) x = Some kx) by (apply bin_of_some; auto).
      assert (Ey : bin_of (d_ymin p) (d_bsy p) (d_by p) y = Some ky) by (apply bin_of_some; auto).
      rewrite Ex, Ey. reflexivity.
Qed.

Lemma target_bound (ps : list (dparams NumR)) (f : fill NumR) j m : (forall p, nthN ps j = Some p -> par_ok p) -> target ps f = Some (j, m) ->
  exists p, nthN ps j = Some p /\ (m < d_bx p * d_by p)%N.
Proof.
  intros Hok H. apply target_spec in H.
  - destruct H as (p & Hp & Hi & H). exists p. split; [exact Hp|]. destruct (Hok p Hp) as (_ & _ & _ & _ & Hby).
    destruct f as [i x v|i x y v].
    + destruct H as [H _]. nia.
    + destruct H as (kx & ky & -> & Hkx & Hky & _). nia.
  - intros p Hp. unfold target in H. rewrite Hp in H.
    assert (E : fill_idx f = j).
    { destruct f as [i x v|i x y v]; cbn [fill_idx] in *.
      - destruct (target1 p x); [cbn in H; congruence|discriminate].
      - destruct (target2 p x y); [cbn in H; congruence|discriminate]. }
    rewrite E in Hp. destruct (Hok p Hp) as (H1 & H2 & _). auto.
Qed.

(** ** the bins add up to everything projected inside the range *)
Fixpoint sum_n (n : nat) (g : nat -> R) : R := match n with O => 0 | S n' => g O + sum_n n' (fun i => g (S i)) end.

Lemma sum_n_ext n : forall g h, (forall i, (i < n)%nat -> g i = h i) -> sum_n n g = sum_n n h.
Proof. induction n as [|n IH]; intros g h H; cbn; [reflexivity|]. rewrite (H O) by lia. f_equal. apply IH. intros i Hi. apply H. lia. Qed.
Lemma sum_n_plus n : forall g h, sum_n n (fun i => g i + h i) = sum_n n g + sum_n n h.
Proof. induction n as [|n IH]; intros g h; cbn; [lra|]. rewrite IH. lra. Qed.
Lemma sum_n_zero n : sum_n n (fun _ => 0) = 0.
Proof. induction n as [|n IH]; cbn; [reflexivity|]. rewrite IH. lra. Qed.
Lemma sum_n_indicator n : forall m0 v, (m0 < n)%nat -> sum_n n (fun m => if Nat.eqb m m0 then v else 0) = v.
Proof.
  induction n as [|n IH]; intros m0 v H; [lia|]. cbn [sum_n]. destruct m0 as [|m0].
  - cbn [Nat.eqb]. rewrite sum_n_zero. lra.
  - cbn [Nat.eqb]. rewrite IH by lia. lra.
Qed.
Lemma sumR_map_sum_n {A} (f : A -> R) l :
  sumR (map f l) = sum_n (length l) (fun m => match nth_error l m with Some c => f c | None => 0 end).
Proof. induction l as [|a l IH]; cbn [map sumR length sum_n nth_error]; [reflexivity|]. rewrite IH. reflexivity. Qed.

Lemma sum_vals_in ps w j n fs :
  (forall f m, In f fs -> target ps f = Some (j, m) -> (N.to_nat m < n)%nat) ->
  sum_n n (fun m => sumR (vals_in ps w j (N.of_nat m) fs)) = sumR (vals_inside ps w j fs).
Proof.
  induction fs as [|f fs IH]; intros HB.
  - unfold vals_in, vals_inside. cbn. apply sum_n_zero.
  - rewrite (sum_n_ext n _ (fun m => (if hitb ps j (N.of_nat m) f then fill_val f * w else 0) + sumR (vals_in ps w j (N.of_nat m) fs))).
    2:{ intros m _. unfold vals_in. cbn [filter]. destruct (hitb ps j (N.of_nat m) f); cbn [map sumR]; lra. }
    rewrite sum_n_plus, IH by (intros f' m Hf; apply HB; right; exact Hf).
    unfold vals_inside at 2. cbn [filter]. fold (vals_inside ps w j fs).
    assert (E : sum_n n (fun m => if hitb ps j (N.of_nat m) f then fill_val f * w else 0) = if insideb ps j f then fill_val f * w else 0).
    { unfold hitb, insideb. destruct (target ps f) as [[j' m']|] eqn:Et; [|apply sum_n_zero].
      destruct (N.eqb_spec j' j) as [->|Hj]; cbn [andb]; [|apply sum_n_zero].
      pose proof (HB f m' (or_introl eq_refl) Et) as Hm.
      rewrite (sum_n_ext n _ (fun m => if Nat.eqb m (N.to_nat m') then fill_val f * w else 0)).
      - apply sum_n_indicator. exact Hm.
      - intros m _. destruct (N.eqb_spec m' (N.of_nat m)) as [->|Hne]; [rewrite Nat2N.id, Nat.eqb_refl; reflexivity|].
        destruct (Nat.eqb_spec m (N.to_nat m')) as [->|_]; [rewrite N2Nat.id in Hne; congruence|reflexivity]. }
    rewrite E. destruct (insideb ps j f); cbn [map sumR]; fold (vals_inside ps w j fs); lra.
Qed.

Lemma c11_bins_add_up ps w ds fs : store_ok ps ds -> Forall (valid_fill ps) fs ->
  (forall j m c, cell_at ds j m = Some c -> c_comp c = 0) ->
  exists ds', @do_fills NumR ps w ds fs = Ok ds' /\
    forall j cells, nthN ds j = Some cells ->
      exists cells', nthN ds' j = Some cells' /\ length cells' = length cells /\
        sumR (map (@c_sum NumR) cells') = sumR (map (@c_sum NumR) cells) + sumR (vals_inside ps w j fs).
Proof.
  intros HS HV H0. destruct (c11_bin_is_restricted_sum ps w ds fs HS HV) as (ds' & E & SS & HC).
  exists ds'. split; [exact E|]. intros j cells Hj.
  destruct (Forall2_nth_l _ _ _ SS _ _ Hj) as (cells' & Hj' & HL). change (nthN ds' j = Some cells') in Hj'.
  exists cells'. split; [exact Hj'|]. split; [congruence|].
  destruct (Forall2_nth_r _ _ _ HS _ _ Hj) as (p & Hp & Hpar & Hlen). change (nthN ps j = Some p) in Hp.
  rewrite !sumR_map_sum_n. rewrite <- HL.
  rewrite <- (sum_vals_in ps w j (length cells) fs).
  - rewrite <- sum_n_plus. apply sum_n_ext. intros m Hm.
    destruct (nth_error cells m) as [c|] eqn:Ec; [|apply nth_error_None in Ec; lia].
    assert (Hc : cell_at ds j (N.of_nat m) = Some c) by (unfold cell_at; rewrite Hj; unfold nthN; rewrite Nat2N.id; exact Ec).
    destruct (HC _ _ _ Hc) as (_ & Hc'). specialize (Hc' (H0 _ _ _ Hc)).
    unfold cell_at in Hc'. rewrite Hj' in Hc'. unfold nthN in Hc'. rewrite Nat2N.id in Hc'. rewrite Hc'. reflexivity.
  - intros f m _ Ht. apply target_bound in Ht as (p' & Hp' & Hm).
    + assert (p' = p) by congruence. subst p'. lia.
    + intros p' Hp'. assert (p' = p) by congruence. subst p'. exact Hpar.
Qed.

(** ** all calls of an iteration: each call has its own point weight and list of fills.
    [do_calls] iterates the model's [do_fills] exactly as [finish_call] (Iter.v) does on [a_dists]. *)
Fixpoint do_calls (ps : list (dparams NumR)) (ds : list (list (cell NumR))) (cs : list (R * list (fill NumR)))
  : res (list (list (cell NumR))) :=
  match cs with
  | [] => Ok ds
  | (w, fs) :: cs' => do ds' <- @do_fills NumR ps w ds fs; do_calls ps ds' cs'
  end.

Definition calls_vals_in ps j m (cs : list (R * list (fill NumR))) : list R :=
  concat (map (fun c => vals_in ps (fst c) j m (snd c)) cs).
Definition calls_vals_inside ps j (cs : list (R * list (fill NumR))) : list R :=
  concat (map (fun c => vals_inside ps (fst c) j (snd c)) cs).

Lemma sumR_app l1 l2 : sumR (l1 ++ l2) = sumR l1 + sumR l2.
Proof. induction l1 as [|a l IH]; cbn [app sumR]; [lra|]. rewrite IH. lra. Qed.

Definition steps ps (ds : list (list (cell NumR))) (cs : list (R * list (fill NumR))) :=
  fold_left (fun ds c => fold_left (step ps (fst c)) (snd c) ds) cs ds.

Lemma do_calls_R ps cs : forall ds, store_ok ps ds -> Forall (fun c => Forall (valid_fill ps) (snd c)) cs ->
  do_calls ps ds cs = Ok (steps ps ds cs) /\ same_shape ds (steps ps ds cs).
Proof.
  induction cs as [|[w fs] cs IH]; intros ds HS HV; cbn [do_calls steps fold_left]; [split; [reflexivity|apply same_shape_refl]|].
  inversion HV as [|? ? Hf Hfs]; subst. cbn [snd fst] in *. destruct (do_fills_R ps w fs ds HS Hf) as (E & SS). rewrite E. cbn [bind].
  destruct (IH _ (store_ok_shape _ _ _ HS SS) Hfs) as (E2 & S2). split; [exact E2|]. eapply same_shape_trans; eauto.
Qed.

Lemma cell_at_steps ps j m cs : forall ds,
  cell_at (steps ps ds cs) j m = option_map (fold_left (@cell_add NumR) (calls_vals_in ps j m cs)) (cell_at ds j m).
Proof.
  induction cs as [|[w fs] cs IH]; intros ds.
  - unfold calls_vals_in. cbn. destruct (cell_at ds j m); reflexivity.
  - change (steps ps ds ((w, fs) :: cs)) with (steps ps (fold_left (step ps w) fs ds) cs). rewrite IH. rewrite cell_at_fold.
    unfold calls_vals_in. cbn [map concat fst snd]. destruct (cell_at ds j m); [|reflexivity]. cbn [option_map].
    rewrite fold_left_app. reflexivity.
Qed.

Lemma sum_calls_vals_in ps j n cs :
  (forall c f m, In c cs -> In f (snd c) -> target ps f = Some (j, m) -> (N.to_nat m < n)%nat) ->
  sum_n n (fun m => sumR (calls_vals_in ps j (N.of_nat m) cs)) = sumR (calls_vals_inside ps j cs).
Proof.
  induction cs as [|[w fs] cs IH]; intros HB.
  - unfold calls_vals_in, calls_vals_inside. cbn. apply sum_n_zero.
  - unfold calls_vals_in, calls_vals_inside. cbn [map concat fst snd].
    rewrite (sum_n_ext n _ (fun m => sumR (vals_in ps w j (N.of_nat m) fs) + sumR (calls_vals_in ps j (N.of_nat m) cs))).
    2:{ intros m _. rewrite sumR_app. reflexivity. }
    rewrite sum_n_plus, sumR_app. f_equal.
    + apply sum_vals_in. intros f m Hf. apply (HB (w, fs)); [left; reflexivity|exact Hf].
    + apply IH. intros c f m Hc. apply HB. right. exact Hc.
Qed.

(* Sum over the bins of (estimate x area) for the reported distribution *)
Lemma report_area_sum calls (p : dparams NumR) cells : 0 < d_bsx p -> 0 < d_bsy p ->
  sumR (map (fun c => @value NumR (bin_report calls p c) * (d_bsx p * d_bsy p)) cells)
  = sumR (map (@c_sum NumR) cells) / RofN calls.
Proof.
  intros Hx Hy. induction cells as [|c cells IH]; cbn [map sumR]; [unfold Rdiv; lra|]. rewrite IH.
  unfold value, mc_value, bin_report, bin_inv. cbn [r_sum r_calls div mul one ofN NumR]. rewrite N2Z.id. fold (RofN calls).
  unfold Rdiv. generalize (/ RofN calls). intros q. field. lra.
Qed.

Lemma c11_iteration_bins ps ds cs : store_ok ps ds -> Forall (fun c => Forall (valid_fill ps) (snd c)) cs ->
  exists ds', do_calls ps ds cs = Ok ds' /\ same_shape ds ds' /\
    (* every cell: Kahan accumulation over exactly the fills of all calls that lie in the bin, in order *)
    (forall j m c, cell_at ds j m = Some c ->
       cell_at ds' j m = Some (fold_left (@cell_add NumR) (calls_vals_in ps j m cs) c) /\
       (c_comp c = 0 ->
          cell_at ds' j m = Some (@mk_cell NumR (c_sum c + sumR (calls_vals_in ps j m cs))
                                    (c_sumsq c + sumR (map (fun v => v * v) (calls_vals_in ps j m cs))) 0
                                    (c_nz c + N.of_nat (length (calls_vals_in ps j m cs)))
                                    (c_fin c + N.of_nat (length (calls_vals_in ps j m cs)))))) /\
    (* every distribution: the bin sums add up to everything projected inside the range *)
    ((forall j m c, cell_at ds j m = Some c -> c_comp c = 0) ->
     forall j cells p, nthN ds j = Some cells -> nthN ps j = Some p ->
       exists cells', nthN ds' j = Some cells' /\ length cells' = length cells /\
         sumR (map (@c_sum NumR) cells') = sumR (map (@c_sum NumR) cells) + sumR (calls_vals_inside ps j cs) /\
         forall calls,
           sumR (map (fun c => @value NumR (bin_report calls p c) * (d_bsx p * d_bsy p)) cells')
           = (sumR (map (@c_sum NumR) cells) + sumR (calls_vals_inside ps j cs)) / RofN calls).
Proof.
  intros HS HV. destruct (do_calls_R ps cs ds HS HV) as (E & SS). exists (steps ps ds cs).
  split; [exact E|]. split; [exact SS|].
  assert (HC : forall j m c, cell_at ds j m = Some c ->
       cell_at (steps ps ds cs) j m = Some (fold_left (@cell_add NumR) (calls_vals_in ps j m cs) c) /\
       (c_comp c = 0 ->
          cell_at (steps ps ds cs) j m = Some (@mk_cell NumR (c_sum c + sumR (calls_vals_in ps j m cs))
                                    (c_sumsq c + sumR (map (fun v => v * v) (calls_vals_in ps j m cs))) 0
                                    (c_nz c + N.of_nat (length (calls_vals_in ps j m cs)))
                                    (c_fin c + N.of_nat (length (calls_vals_in ps j m cs)))))).
  { intros j m c Hc. rewrite cell_at_steps, Hc. cbn [option_map]. split; [reflexivity|]. intros H0.
    rewrite fold_cell_addR by exact H0. reflexivity. }
  split; [exact HC|]. intros H0 j cells p Hj Hp.
  destruct (Forall2_nth_l _ _ _ SS _ _ Hj) as (cells' & Hj' & HL). change (nthN (steps ps ds cs) j = Some cells') in Hj'.
  exists cells'. split; [exact Hj'|]. split; [congruence|].
  destruct (Forall2_nth_r _ _ _ HS _ _ Hj) as (p' & Hp' & Hpar & Hlen). change (nthN ps j = Some p') in Hp'.
  assert (p' = p) by congruence. subst p'.
  assert (S : sumR (map (@c_sum NumR) cells') = sumR (map (@c_sum NumR) cells) + sumR (calls_vals_inside ps j cs)).
  { rewrite !sumR_map_sum_n. rewrite <- HL. rewrite <- (sum_calls_vals_in ps j (length cells) cs).
    - rewrite <- sum_n_plus. apply sum_n_ext. intros m Hm.
      destruct (nth_error cells m) as [c|] eqn:Ec; [|apply nth_error_None in Ec; lia].
      assert (Hc : cell_at ds j (N.of_nat m) = Some c) by (unfold cell_at; rewrite Hj; unfold nthN; rewrite Nat2N.id; exact Ec).
      destruct (HC _ _ _ Hc) as (_ & Hc'). specialize (Hc' (H0 _ _ _ Hc)).
      unfold cell_at in Hc'. rewrite Hj' in Hc'. unfold nthN in Hc'. rewrite Nat2N.id in Hc'. rewrite Hc'. reflexivity.
    - intros c f m _ _ Ht. apply target_bound in Ht as (p' & Hp'' & Hm).
      + assert (p' = p) by congruence. subst p'. lia.
      + intros p' Hp''. assert (p' = p) by congruence. subst p'. exact Hpar. }
  split; [exact S|]. intros calls. destruct Hpar as (Hx & Hy & _). rewrite report_area_sum by assumption. rewrite S. reflexivity.
Qed.

(* a fresh accumulator satisfies the hypotheses: all sums and compensations are zero *)
Lemma store_ok_init ps : Forall par_ok ps -> store_ok ps (a_dists (@acc_init NumR ps)).
Proof.
  unfold store_ok, acc_init. cbn [a_dists]. induction 1 as [|p ps Hp HF IH]; cbn [map]; constructor; [|exact IH].
  split; [exact Hp|]. apply repeat_length.
Qed.
Lemma init_cells ps j m c : cell_at (a_dists (@acc_init NumR ps)) j m = Some c -> c = cell0.
Proof.
  unfold cell_at, acc_init, nthN. cbn [a_dists]. destruct (nth_error (map _ ps) (N.to_nat j)) as [d|] eqn:E; [|discriminate].
  apply nth_error_In in E. apply in_map_iff in E as (p & <- & _). intros H. apply nth_error_In in H. apply repeat_spec in H. exact H.
Qed.

(** ** the bin result equals the result of integrating  integrand x indicator(bin) / area  with the
    same points: each call is (integrand value u, point weight w, "coordinate lies in the bin") *)
Definition bin_cell (cs : list (R * R * bool)) : cell NumR :=
  fold_left (@cell_add NumR) (map (fun c : R * R * bool => fst (fst c) * snd (fst c)) (filter (fun c : R * R * bool => snd c) cs)) cell0.
Definition restricted_main_cell (area : R) (cs : list (R * R * bool)) : cell NumR :=
  fold_left (fun a (c : R * R * bool) => fst (@invoke_main NumR a (if snd c then fst (fst c) / area else 0) (snd (fst c)))) cs cell0.

Lemma invoke_mainR (a : cell NumR) g w : c_comp a = 0 ->
  fst (@invoke_main NumR a g w) = @mk_cell NumR (c_sum a + g * w) (c_sumsq a + (g * w) * (g * w)) 0
                                     (c_nz a + (if Req_EM_T g 0 then 0 else 1)) (c_fin a + (if Req_EM_T g 0 then 0 else 1)).
Proof.
  intros H0. unfold invoke_main, neqb. cbn [eqb zero mul isfinite NumR]. unfold Reqb.
  destruct (Req_EM_T g 0) as [->|Hg]; cbn [negb fst].
  - destruct a; cbn in *. subst. f_equal; try lra; lia.
  - apply cell_addR. exact H0.
Qed.

Lemma restricted_invariant area cs : forall (b a : cell NumR), c_comp b = 0 -> c_comp a = 0 ->
  area <> 0 -> c_sum a = / area * c_sum b -> c_sumsq a = / area * / area * c_sumsq b ->
  let b' := fold_left (@cell_add NumR) (map (fun c : R * R * bool => fst (fst c) * snd (fst c)) (filter (fun c : R * R * bool => snd c) cs)) b in
  let a' := fold_left (fun a (c : R * R * bool) => fst (@invoke_main NumR a (if snd c then fst (fst c) / area else 0) (snd (fst c)))) cs a in
  c_sum a' = / area * c_sum b' /\ c_sumsq a' = / area * / area * c_sumsq b'.
Proof.
  induction cs as [|[[u w] inb] cs IH]; intros b a Hb Ha HA H1 H2; cbn [fold_left map filter fst snd]; [split; assumption|].
  destruct inb; cbn [map fold_left fst snd].
  - apply IH; try assumption.
    + rewrite cell_addR by exact Hb. reflexivity.
    + rewrite invoke_mainR by exact Ha. reflexivity.
    + rewrite cell_addR by exact Hb. rewrite invoke_mainR by exact Ha. cbn [c_sum]. rewrite H1. change (@eq (T NumR)) with (@eq R). field. exact HA.
    + rewrite cell_addR by exact Hb. rewrite invoke_mainR by exact Ha. cbn [c_sumsq]. rewrite H2. change (@eq (T NumR)) with (@eq R). field. exact HA.
  - apply IH; try assumption.
    + rewrite invoke_mainR by exact Ha. reflexivity.
    + rewrite invoke_mainR by exact Ha. cbn [c_sum]. rewrite H1. lra.
    + rewrite invoke_mainR by exact Ha. cbn [c_sumsq]. rewrite H2. lra.
Qed.

Lemma c11_bin_is_restricted_integrand calls (p : dparams NumR) cs : 0 < d_bsx p -> 0 < d_bsy p ->
  let b := bin_report calls p (bin_cell cs) in
  let r := cell_result calls (restricted_main_cell (d_bsx p * d_bsy p) cs) in
  r_calls b = calls /\ r_calls r = calls /\ r_sum b = r_sum r /\ r_sumsq b = r_sumsq r /\
  @value NumR b = @value NumR r /\ @variance NumR b = @variance NumR r /\ @error NumR b = @error NumR r.
Proof.
  intros Hx Hy b r. assert (HA : d_bsx p * d_bsy p <> 0) by (apply Rgt_not_eq; apply Rmult_lt_0_compat; assumption).
  destruct (restricted_invariant (d_bsx p * d_bsy p) cs cell0 cell0 eq_refl eq_refl HA) as (S1 & S2).
  { cbn. lra. } { cbn. lra. }
  fold (bin_cell cs) in S1, S2. fold (restricted_main_cell (d_bsx p * d_bsy p) cs) in S1, S2.
  assert (E1 : r_sum b = r_sum r).
  { unfold b, r, bin_report, cell_result, bin_inv. cbn [r_sum div mul one NumR]. rewrite S1. change (@eq (T NumR)) with (@eq R). field. lra. }
  assert (E2 : r_sumsq b = r_sumsq r).
  { unfold b, r, bin_report, cell_result, bin_inv. cbn [r_sumsq div mul one NumR]. rewrite S2. change (@eq (T NumR)) with (@eq R). field. lra. }
  assert (V : @value NumR b = @value NumR r) by (unfold value; rewrite E1, E2; reflexivity).
  assert (W : @variance NumR b = @variance NumR r) by (unfold variance; rewrite E1, E2; reflexivity).
  split; [reflexivity|]. split; [reflexivity|]. split; [exact E1|]. split; [exact E2|]. split; [exact V|]. split; [exact W|].
  unfold error. rewrite W. reflexivity.
Qed.

(** ** [finish_call] (the tail of every integrand call of the three integrators) performs exactly one
    [do_fills] on the distribution storage - every numeric type *)
Lemma finish_call_dists {K : Num} (ps : list (dparams K)) (s : HepMC.Iter.itst K) o r a v :
  HepMC.Iter.finish_call ps s o r = Ok (a, v) ->
  do_fills ps (HepMC.Iter.o_weight o) (a_dists (HepMC.Iter.it_acc s)) (HepMC.Iter.i_fills r) = Ok (a_dists a).
Proof.
  unfold HepMC.Iter.finish_call. destruct (do_fills _ _ _ _) as [ds|c]; cbn [bind]; [|discriminate].
  destruct (invoke_main _ _ _) as [m v']. intros H. inversion H. reflexivity.
Qed.

(** ** IEEE floating point: the float -> size_t conversion is never reached with a value outside
    [0, 2^64), whatever the coordinate (finite, infinite, NaN) - for every binary format with emax > 64 *)
Section FloatNoUB.
  Variables prec emax : Z.
  Context (Hprec : FLX.Prec_gt_0 prec) (Hmax : Prec_lt_emax prec emax).
  Hypothesis Hemax : (64 < emax)%Z.
  Notation F := (binary_float prec emax).
  Notation fexp := (SpecFloat.fexp prec emax).
  Existing Instance Hprec.
  Local Instance fexpV : Valid_exp fexp := fexp_correct prec emax Hprec.
  Notation KB := (NumB prec emax Hprec Hmax).
  Notation rnd := (round radix2 fexp (round_mode mode_NE)).

  Lemma Bltb_nan_l (y : F) : Bltb B754_nan y = false.
  Proof. destruct y; reflexivity. Qed.
  Lemma Bltb_pinf_l (y : F) : Bltb (B754_infinity false) y = false.
  Proof. destruct y as [s|s| |s m e h]; try destruct s; reflexivity. Qed.

  Lemma B2R_pos_finite (b : F) : is_finite b = true -> (0 < B2R b)%R -> exists m e h, b = B754_finite false m e h.
  Proof.
    destruct b as [s|s| |s m e h]; cbn; intros Hf Hp; try discriminate; try lra.
    destruct s; [|eauto]. exfalso. pose proof (F2R_lt_0 radix2 (Float radix2 (Zneg m) e)) as H. cbn in H.
    assert (F2R (Float radix2 (Z.neg m) e) < 0)%R by (apply H; lia). unfold cond_Zopp in Hp. cbn in Hp. lra.
  Qed.

  Lemma BofZ_correct (n : N) : (n <= two64)%N ->
    is_finite (BofZ prec emax Hprec Hmax (Z.of_N n)) = true /\
    B2R (BofZ prec emax Hprec Hmax (Z.of_N n)) = rnd (IZR (Z.of_N n)).
  Proof.
    intros Hn. unfold BofZ. pose proof (binary_normalize_correct prec emax Hprec Hmax mode_NE (Z.of_N n) 0 false) as H.
    assert (E : F2R (Float radix2 (Z.of_N n) 0) = IZR (Z.of_N n)) by (unfold F2R; cbn; lra).
    cbn zeta in H. rewrite E in H.
    assert (G64 : generic_format radix2 fexp (bpow radix2 64)).
    { apply generic_format_bpow. unfold SpecFloat.fexp, SpecFloat.emin. unfold FLX.Prec_gt_0 in Hprec. unfold Prec_lt_emax in Hmax. lia. }
    assert (R0 : (0 <= rnd (IZR (Z.of_N n)))%R).
    { apply round_ge_generic; [exact fexpV|apply valid_rnd_N|apply generic_format_0|apply IZR_le; lia]. }
    assert (R1 : (rnd (IZR (Z.of_N n)) <= bpow radix2 64)%R).
    { apply round_le_generic; [exact fexpV|apply valid_rnd_N|exact G64|]. change (bpow radix2 64) with (IZR (2 ^ 64)). apply IZR_le. unfold two64 in Hn. lia. }
    assert (R2 : (bpow radix2 64 < bpow radix2 emax)%R) by (apply bpow_lt; exact Hemax).
    rewrite Rlt_bool_true in H by (rewrite Rabs_pos_eq by exact R0; lra).
    destruct H as (H1 & H2 & _). split; assumption.
  Qed.

  (* one axis: once the two range checks have passed, the conversion is defined and the bin exists *)
  Lemma axis_B (sx bs : F) (n : N) :
    is_finite bs = true -> (0 < B2R bs)%R -> (n <= two64)%N ->
    Bltb sx (B754_zero false) = false ->
    Bltb (Bdiv mode_NE sx bs) (BofZ prec emax Hprec Hmax (Z.of_N n)) = true ->
    exists k, Btrunc_N prec emax (Bdiv mode_NE sx bs) = Some k /\ (k < n)%N.
  Proof.
    intros Hf Hp Hn H1 H2. destruct (B2R_pos_finite bs Hf Hp) as (mb & eb & hb & ->).
    destruct (BofZ_correct n Hn) as (Nf & Nr). set (bn := BofZ prec emax Hprec Hmax (Z.of_N n)) in *.
    (* the quotient is finite and non-negative *)
    assert (P : is_finite (Bdiv mode_NE sx (B754_finite false mb eb hb)) = true /\ (0 <= B2R (Bdiv mode_NE sx (B754_finite false mb eb hb)))%R).
    { destruct sx as [s|s| |s m e h].
      - cbn. split; [reflexivity|lra].
      - destruct s; [discriminate H1|]. change (Bltb (B754_infinity false) bn = true) in H2. rewrite Bltb_pinf_l in H2. discriminate.
      - change (Bltb B754_nan bn = true) in H2. rewrite Bltb_nan_l in H2. discriminate.
      - destruct s; [discriminate H1|].
        pose proof (Bdiv_correct prec emax Hprec Hmax mode_NE (B754_finite false m e h) (B754_finite false mb eb hb)) as D.
        assert (Z : B2R (B754_finite false mb eb hb) <> 0%R) by lra. specialize (D Z).
        set (q := Bdiv mode_NE (B754_finite false m e h) (B754_finite false mb eb hb)) in *.
        destruct (Rlt_bool _ _).
        + destruct D as (D1 & D2 & _). split; [rewrite D2; reflexivity|]. rewrite D1.
          apply round_ge_generic; [exact fexpV|apply valid_rnd_N|apply generic_format_0|].
          assert (0 <= B2R (B754_finite false m e h))%R by (cbn; apply F2R_ge_0; cbn; lia).
          unfold Rdiv. apply Rmult_le_pos; [assumption|]. left. apply Rinv_0_lt_compat. exact Hp.
        + exfalso. change (B2SF q = SpecFloat.S754_infinity false) in D.
          unfold Bltb in H2. rewrite D in H2. destruct (B2SF bn) as [s'|[]| |s' m' e']; discriminate. }
    destruct P as (Pf & P0). set (px := Bdiv mode_NE sx (B754_finite false mb eb hb)) in *.
    assert (L : (B2R px < B2R bn)%R).
    { rewrite (Bltb_correct prec emax px bn Pf Nf) in H2. destruct (Rlt_bool_spec (B2R px) (B2R bn)); [assumption|discriminate]. }
    assert (L' : (B2R px < IZR (Z.of_N n))%R).
    { destruct (Rlt_or_le (B2R px) (IZR (Z.of_N n))) as [?|G]; [assumption|exfalso].
      assert (rnd (IZR (Z.of_N n)) <= B2R px)%R.
      { apply round_le_generic; [exact fexpV|apply valid_rnd_N|apply generic_format_B2R|exact G]. }
      lra. }
    pose proof (Btrunc_correct prec emax Hmax px) as T. rewrite round_FIX_IZR in T. apply eq_IZR in T.
    assert (Z0 : (0 <= Ztrunc (B2R px))%Z) by (rewrite Ztrunc_floor by exact P0; apply Zfloor_lub; exact P0).
    assert (Z1 : (Ztrunc (B2R px) < Z.of_N n)%Z).
    { apply lt_IZR. rewrite Ztrunc_floor by exact P0. apply Rle_lt_trans with (B2R px); [apply Zfloor_lb|exact L']. }
    set (z := Ztrunc (B2R px)) in *. clearbody z. clearbody px. unfold two64 in Hn.
    exists (Z.to_N z). split; [|lia]. unfold Btrunc_N.
    destruct px; try discriminate Pf; rewrite T;
      (destruct (Z.ltb_spec z 0); [lia|]; destruct (Z.ltb_spec z (2 ^ 64)); [reflexivity|lia]).
  Qed.

  Definition size_ok (bs : F) : Prop := is_finite bs = true /\ (0 < B2R bs)%R.

  Lemma upd_bin_codes {K : Num} (ds : list (list (cell K))) j m v c : upd_bin ds j m v = UB c -> c = 11%nat \/ c = 12%nat.
  Proof.
    unfold upd_bin, getN. destruct (nthN ds j) as [d|]; cbn [bind]; [|intros H; inversion H; auto].
    destruct (nthN d m); cbn [bind]; intros H; inversion H; auto.
  Qed.
  Lemma upd_bin_ok {K : Num} (ds : list (list (cell K))) j m v d :
    nthN ds j = Some d -> (N.to_nat m < length d)%nat -> exists ds', upd_bin ds j m v = Ok ds'.
  Proof.
    intros Hd Hm. unfold upd_bin, getN. rewrite Hd. cbn [bind]. unfold nthN.
    destruct (nth_error d (N.to_nat m)) eqn:E; [cbn [bind]; eauto|]. apply nth_error_None in E. lia.
  Qed.

  Lemma c11_fill1d_no_ub_float (ps : list (dparams KB)) ds idx (x v : KB) p :
    nthN ps idx = Some p -> size_ok (d_bsx p) -> (d_bx p <= two64)%N ->
    (forall c, @fill1d KB ps ds idx x v = UB c -> c = 11%nat \/ c = 12%nat) /\
    (forall d, nthN ds idx = Some d -> (N.to_nat (d_bx p) <= length d)%nat -> exists ds', @fill1d KB ps ds idx x v = Ok ds').
  Proof.
    intros Hp (Hf & Hpos) Hn. unfold fill1d, getN. rewrite Hp. cbn [bind].
    destruct (negb (isfinite KB v)); [split; [discriminate|eauto]|].
    destruct (ltb KB (sub KB x (d_xmin p)) (zero KB)) eqn:E1; [split; [discriminate|eauto]|].
    destruct (ltb KB (div KB (sub KB x (d_xmin p)) (d_bsx p)) (ofN KB (d_bx p))) eqn:E2; cbn [negb]; [|split; [discriminate|eauto]].
    destruct (axis_B (sub KB x (d_xmin p)) (d_bsx p) (d_bx p) Hf Hpos Hn E1 E2) as (k & Hk & Hlt).
    unfold to_index. change (trunc KB) with (Btrunc_N prec emax). change (div KB) with (@Bdiv prec emax Hprec Hmax mode_NE).
    rewrite Hk. cbn [bind]. split.
    - intros c. apply upd_bin_codes.
    - intros d Hd Hl. apply upd_bin_ok with d; [exact Hd|lia].
  Qed.

  Lemma c11_fill2d_no_ub_float (ps : list (dparams KB)) ds idx (x y v : KB) p :
    nthN ps idx = Some p -> size_ok (d_bsx p) -> size_ok (d_bsy p) -> (d_bx p <= two64)%N -> (d_by p <= two64)%N ->
    (forall c, @fill2d KB ps ds idx x y v = UB c -> c = 11%nat \/ c = 12%nat) /\
    (forall d, nthN ds idx = Some d -> (N.to_nat (d_bx p * d_by p) <= length d)%nat -> exists ds', @fill2d KB ps ds idx x y v = Ok ds').
  Proof.
    intros Hp (Hfx & Hposx) (Hfy & Hposy) Hnx Hny. unfold fill2d, getN. rewrite Hp. cbn [bind].
    destruct (negb (isfinite KB v)); [split; [discriminate|eauto]|].
    destruct (ltb KB (sub KB x (d_xmin p)) (zero KB)) eqn:E1; [split; [discriminate|eauto]|].
    destruct (ltb KB (sub KB y (d_ymin p)) (zero KB)) eqn:F1; [split; [discriminate|eauto]|].
    destruct (ltb KB (div KB (sub KB x (d_xmin p)) (d_bsx p)) (ofN KB (d_bx p))) eqn:E2; cbn [negb]; [|split; [discriminate|eauto]].
    destruct (axis_B (sub KB x (d_xmin p)) (d_bsx p) (d_bx p) Hfx Hposx Hnx E1 E2) as (kx & Hkx & Hltx).
    unfold to_index. change (trunc KB) with (Btrunc_N prec emax). change (div KB) with (@Bdiv prec emax Hprec Hmax mode_NE).
    rewrite Hkx. cbn [bind].
    destruct (ltb KB (Bdiv mode_NE (sub KB y (d_ymin p)) (d_bsy p)) (ofN KB (d_by p))) eqn:F2; cbn [negb]; [|split; [discriminate|eauto]].
    destruct (axis_B (sub KB y (d_ymin p)) (d_bsy p) (d_by p) Hfy Hposy Hny F1 F2) as (ky & Hky & Hlty).
    rewrite Hky. cbn [bind]. split.
    - intros c. apply upd_bin_codes.
    - intros d Hd Hl. apply upd_bin_ok with d; [exact Hd|nia].
  Qed.

  (* bin sizes 1, 2, 3, ... are finite and positive in every such format (non-vacuity) *)
  Lemma size_ok_ofN (n : N) : (1 <= n <= two64)%N -> size_ok (BofZ prec emax Hprec Hmax (Z.of_N n)).
  Proof.
    intros [H1 H2]. destruct (BofZ_correct n H2) as (Nf & Nr). split; [exact Nf|]. rewrite Nr.
    apply Rlt_le_trans with 1%R; [lra|].
    apply round_ge_generic; [exact fexpV|apply valid_rnd_N| |apply IZR_le; lia].
    change 1%R with (bpow radix2 0). apply generic_format_bpow. unfold SpecFloat.fexp, SpecFloat.emin.
    unfold FLX.Prec_gt_0 in Hprec. unfold Prec_lt_emax in Hmax. lia.
  Qed.
End FloatNoUB.

(** ** concrete instances (non-vacuity) *)
Definition ex_p2 : dparams NumR := @mk_dparams NumR 4 2 0 0 (/ 2) 1 String.EmptyString.   (* [0,2) x [0,2): 4 x 2 bins *)
Definition ex_p1 : dparams NumR := @mk_dparams NumR 4 1 0 0 (/ 2) 1 String.EmptyString.   (* [0,2): 4 bins *)

Lemma ex_par_ok : par_ok ex_p1 /\ par_ok ex_p2.
Proof. unfold par_ok, ex_p1, ex_p2, two64; cbn. repeat split; try lra; lia. Qed.

Lemma RofN_IZR n : RofN n = IZR (Z.of_N n).
Proof. reflexivity. Qed.

Lemma c11_example_target :
  let ps := [ex_p2; ex_p1] in
  store_ok ps (a_dists (@acc_init NumR ps)) /\
  target ps (@Fill2 NumR 0 (7 / 10) (3 / 2) 5) = Some (0%N, 5%N) /\     (* kx = 1, ky = 1: 1 * 4 + 1 *)
  target ps (@Fill1 NumR 1 0 5) = Some (1%N, 0%N) /\                     (* the left edge belongs to bin 0 *)
  target ps (@Fill1 NumR 1 (1 / 2) 5) = Some (1%N, 1%N) /\               (* an inner edge belongs to the bin on its right *)
  target ps (@Fill1 NumR 1 2 5) = None /\                                (* the right end of the range is outside *)
  target ps (@Fill1 NumR 1 (-1) 5) = None.
Proof.
  intros ps. destruct ex_par_ok as (P1 & P2).
  split; [apply store_ok_init; constructor; [assumption|constructor; [assumption|constructor]]|].
  assert (Hpos : forall (f : fill NumR) p, nthN ps (fill_idx f) = Some p -> 0 < d_bsx p /\ 0 < d_bsy p).
  { intros f p. unfold ps, nthN. destruct (N.to_nat (fill_idx f)) as [|[|i]]; cbn; intros H; inversion H; subst; cbn; try lra. destruct i; discriminate. }
  split.
  { apply target_spec; [apply Hpos|]. exists ex_p2. split; [reflexivity|]. split; [reflexivity|]. exists 1%N, 1%N.
    unfold in_bin, ex_p2; cbn [d_bx d_by d_xmin d_ymin d_bsx d_bsy]. rewrite !RofN_IZR. cbn [Z.of_N]. repeat split; try lia; lra. }
  split.
  { apply target_spec; [apply Hpos|]. exists ex_p1. split; [reflexivity|]. split; [reflexivity|].
    unfold in_bin, ex_p1; cbn [d_bx d_by d_xmin d_ymin d_bsx d_bsy]. rewrite !RofN_IZR. cbn [Z.of_N]. repeat split; try lia; lra. }
  split.
  { apply target_spec; [apply Hpos|]. exists ex_p1. split; [reflexivity|]. split; [reflexivity|].
    unfold in_bin, ex_p1; cbn [d_bx d_by d_xmin d_ymin d_bsx d_bsy]. rewrite !RofN_IZR. cbn [Z.of_N]. repeat split; try lia; lra. }
  split.
  - unfold target. cbn [fill_idx]. change (nthN ps 1) with (Some ex_p1). unfold target1.
    assert (E : bin_of (d_xmin ex_p1) (d_bsx ex_p1) (d_bx ex_p1) 2 = None).
    { apply bin_of_none; [cbn; lra|]. right. unfold ex_p1; cbn [d_bx d_xmin d_bsx]. rewrite RofN_IZR. cbn [Z.of_N]. lra. }
    rewrite E. reflexivity.
  - unfold target. cbn [fill_idx]. change (nthN ps 1) with (Some ex_p1). unfold target1.
    assert (E : bin_of (d_xmin ex_p1) (d_bsx ex_p1) (d_bx ex_p1) (-1) = None).
    { apply bin_of_none; [cbn; lra|]. left. cbn. lra. }
    rewrite E. reflexivity.
Qed.

(* fill1d itself on the example: x = 7/10 lands in bin 1 = [1/2, 1) *)
Lemma c11_example_fill1d :
  let ps := [ex_p2; ex_p1] in
  exists d c, nthN ps 1 = Some ex_p1 /\ nthN (a_dists (@acc_init NumR ps)) 1 = Some d /\
    (N.to_nat (d_bx ex_p1) <= length d)%nat /\ in_bin (d_xmin ex_p1) (d_bsx ex_p1) 1 (7 / 10) /\
    cell_at (a_dists (@acc_init NumR ps)) 1 1 = Some c /\
    @fill1d NumR ps (a_dists (acc_init ps)) 1 (7 / 10) 3 = Ok (setN (a_dists (acc_init ps)) 1 (setN d 1 (cell_add c 3))).
Proof.
  intros ps. destruct ex_par_ok as (P1 & _). destruct P1 as (Hs & _ & Hn & _).
  set (d := repeat (@cell0 NumR) 4).
  assert (Hd : nthN (a_dists (@acc_init NumR ps)) 1 = Some d) by reflexivity.
  assert (Hl : (N.to_nat (d_bx ex_p1) <= length d)%nat) by (cbn; lia).
  assert (HB : in_bin (d_xmin ex_p1) (d_bsx ex_p1) 1 (7 / 10)).
  { unfold in_bin, ex_p1; cbn [d_xmin d_bsx]. rewrite !RofN_IZR. cbn [Z.of_N]. lra. }
  exists d, cell0. split; [reflexivity|]. split; [exact Hd|]. split; [exact Hl|]. split; [exact HB|]. split; [reflexivity|].
  destruct (c11_fill1d_spec ps (a_dists (acc_init ps)) 1 (7 / 10) 3 ex_p1 d eq_refl Hs Hn Hd Hl) as (ds' & E & [(k & c & Hk & Hin & Hc & -> & _)|(Ho & _)]).
  - assert (k = 1%N) by (eapply in_bin_unique; eauto). subst k.
    assert (c = cell0) by (apply (init_cells ps 1 1); exact Hc). subst c. exact E.
  - exfalso. eapply in_bin_not_outside; [exact Hs| |exact HB|exact Ho]. cbn. lia.
Qed.

Lemma c11_example_add_up :
  let ps := [ex_p1] in
  let cs := [(2, [@Fill1 NumR 0 (7 / 10) 5]); (1, [@Fill1 NumR 0 3 1; @Fill1 NumR 0 (1 / 10) 4])] in
  store_ok ps (a_dists (@acc_init NumR ps)) /\ Forall (fun c => Forall (valid_fill ps) (snd c)) cs /\
  (forall j m c, cell_at (a_dists (@acc_init NumR ps)) j m = Some c -> c_comp c = 0) /\
  exists ds' cells', do_calls ps (a_dists (acc_init ps)) cs = Ok ds' /\ nthN ds' 0 = Some cells' /\
    sumR (map (@c_sum NumR) cells') = 14 /\
    cell_at ds' 0 1 = Some (@mk_cell NumR 10 100 0 1 1) /\ cell_at ds' 0 0 = Some (@mk_cell NumR 4 16 0 1 1).
Proof.
  intros ps cs. destruct ex_par_ok as (P1 & _).
  assert (HS : store_ok ps (a_dists (@acc_init NumR ps))) by (apply store_ok_init; constructor; [assumption|constructor]).
  assert (HV : Forall (fun c => Forall (valid_fill ps) (snd c)) cs).
  { unfold cs, valid_fill. repeat constructor. }
  assert (H0 : forall j m c, cell_at (a_dists (@acc_init NumR ps)) j m = Some c -> c_comp c = 0).
  { intros j m c Hc. apply init_cells in Hc. subst c. reflexivity. }
  split; [exact HS|]. split; [exact HV|]. split; [exact H0|].
  destruct (c11_iteration_bins ps _ cs HS HV) as (ds' & E & _ & HC & HA).
  destruct (HA H0 0%N (repeat (@cell0 NumR) 4) ex_p1 eq_refl eq_refl) as (cells' & Hc' & _ & S & _).
  assert (Hpos : forall (f : fill NumR) p, nthN ps (fill_idx f) = Some p -> 0 < d_bsx p /\ 0 < d_bsy p).
  { intros f p. unfold ps, nthN. destruct (N.to_nat (fill_idx f)) as [|i]; cbn; intros H; inversion H; subst; cbn; try lra. destruct i; discriminate. }
  assert (T1 : target ps (@Fill1 NumR 0 (7 / 10) 5) = Some (0%N, 1%N)).
  { apply target_spec; [apply Hpos|]. exists ex_p1. split; [reflexivity|]. split; [reflexivity|].
    unfold in_bin, ex_p1; cbn [d_bx d_xmin d_bsx]. rewrite !RofN_IZR. cbn [Z.of_N]. repeat split; try lia; lra. }
  assert (T2 : target ps (@Fill1 NumR 0 (1 / 10) 4) = Some (0%N, 0%N)).
  { apply target_spec; [apply Hpos|]. exists ex_p1. split; [reflexivity|]. split; [reflexivity|].
    unfold in_bin, ex_p1; cbn [d_bx d_xmin d_bsx]. rewrite !RofN_IZR. cbn [Z.of_N]. repeat split; try lia; lra. }
  assert (T3 : target ps (@Fill1 NumR 0 3 1) = None).
  { unfold target. cbn [fill_idx]. change (nthN ps 0) with (Some ex_p1). unfold target1.
    assert (E3 : bin_of (d_xmin ex_p1) (d_bsx ex_p1) (d_bx ex_p1) 3 = None).
    { apply bin_of_none; [cbn; lra|]. right. unfold ex_p1; cbn [d_bx d_xmin d_bsx]. rewrite RofN_IZR. cbn [Z.of_N]. lra. }
    rewrite E3. reflexivity. }
  exists ds', cells'. split; [exact E|]. split; [exact Hc'|].
  split.
  { rewrite S. unfold calls_vals_inside, vals_inside, cs. cbn [map concat fst snd filter app]. unfold insideb. rewrite T1, T2, T3.
    cbn [N.eqb filter map fill_val sumR app]. cbn. lra. }
  split.
  - destruct (HC 0%N 1%N cell0 eq_refl) as (_ & H). rewrite (H eq_refl).
    unfold calls_vals_in, vals_in, cs. cbn [map concat fst snd filter app]. unfold hitb. rewrite T1, T2, T3.
    cbn [N.eqb andb filter map fill_val sumR app length]. f_equal. cbn. f_equal; lra.
  - destruct (HC 0%N 0%N cell0 eq_refl) as (_ & H). rewrite (H eq_refl).
    unfold calls_vals_in, vals_in, cs. cbn [map concat fst snd filter app]. unfold hitb. rewrite T1, T2, T3.
    cbn [N.eqb andb filter map fill_val sumR app length]. f_equal. cbn. f_equal; lra.
Qed.

(* floating point: with bin size 1.0 in double precision every coordinate and value is handled without UB *)
Definition ex_pB : dparams B64 :=
  @mk_dparams B64 4 1 (zero B64) (zero B64) (ofN B64 1) (ofN B64 1) String.EmptyString.

Lemma c11_example_float : forall x v : B64,
  size_ok 53 1024 (d_bsx ex_pB) /\
  exists ds', @fill1d B64 [ex_pB] (a_dists (@acc_init B64 [ex_pB])) 0 x v = Ok ds'.
Proof.
  intros x v. assert (HE : (64 < 1024)%Z) by lia.
  assert (Hs : size_ok 53 1024 (d_bsx ex_pB)) by (apply (size_ok_ofN 53 1024 P53 M53 HE 1); unfold two64; lia).
  split; [exact Hs|].
  destruct (c11_fill1d_no_ub_float 53 1024 P53 M53 HE [ex_pB] (a_dists (@acc_init B64 [ex_pB])) 0%N x v ex_pB eq_refl Hs) as (_ & H).
  - unfold two64. cbn. lia.
  - apply (H (repeat (@cell0 B64) 4)); [reflexivity|cbn; lia].
Qed.
