(** Proofs for C18 (atomic replacement of the checkpoint file) over the file-system model Fs.v. *)
From Coq Require Import List String Bool Arith Lia Ascii.
From HepMC Require Import Fs.
Import ListNotations.

Section C18.
  Variable A : Type.
  Notation fs := (fs A).
  Notation fsop := (fsop A).

  Lemma eqb_refl p : String.eqb p p = true.
  Proof. apply String.eqb_refl. Qed.

  Lemma length_append (a b : string) : String.length (a ++ b) = String.length a + String.length b.
  Proof. induction a as [|c a IH]; simpl; [reflexivity|rewrite IH; reflexivity]. Qed.

  Lemma tmp_neq filename : String.eqb filename (tmp_of filename) = false.
  Proof.
    apply String.eqb_neq. intros H. apply (f_equal String.length) in H.
    unfold tmp_of in H. rewrite length_append in H. simpl in H. lia.
  Qed.

  Lemma lookup_set_same (s : fs) p c : lookup A (set A s p c) p = Some c.
  Proof. unfold set. simpl. rewrite eqb_refl. reflexivity. Qed.

  Lemma lookup_set_other (s : fs) p q c : String.eqb q p = false -> lookup A (set A s p c) q = lookup A s q.
  Proof. intros H. unfold set. simpl. rewrite H. reflexivity. Qed.

  Lemma lookup_remove_other (s : fs) p q : String.eqb q p = false -> lookup A (remove A p s) q = lookup A s q.
  Proof.
    intros H. induction s as [|[r c] s IH]; simpl; [reflexivity|].
    destruct (String.eqb p r) eqn:Epr; simpl.
    - apply String.eqb_eq in Epr. subst r. rewrite H. exact IH.
    - destruct (String.eqb q r); [reflexivity|exact IH].
  Qed.

  (** operations on another path leave a path alone *)
  Definition touches (p : path) (o : fsop) : bool :=
    match o with
    | OpOpen q | OpWrite q _ | OpClose q => String.eqb p q
    | OpRename a b => String.eqb p a || String.eqb p b
    end.

  Lemma apply_untouched (s : fs) o p : touches p o = false -> lookup A (apply A s o) p = lookup A s p.
  Proof.
    destruct o as [q|q d|q|a b]; simpl; intros H.
    - apply lookup_set_other. exact H.
    - destruct (lookup A s q); [apply lookup_set_other; exact H|reflexivity].
    - reflexivity.
    - apply orb_false_iff in H as [Ha Hb].
      destruct (lookup A s a); [|reflexivity].
      rewrite lookup_set_other by exact Hb. apply lookup_remove_other. exact Ha.
  Qed.

  Lemma crash_states_app (s : fs) ops1 ops2 s' :
    In s' (crash_states A s (ops1 ++ ops2)) ->
    In s' (crash_states A s ops1) \/ In s' (crash_states A (run_ops A s ops1) ops2).
  Proof.
    revert s. induction ops1 as [|o ops1 IH]; intros s H.
    - right. exact H.
    - simpl in H. destruct H as [H|H]; [left; left; exact H|].
      apply in_app_or in H as [H|H].
      + left. right. apply in_or_app. left. exact H.
      + apply IH in H as [H|H]; [left; right; apply in_or_app; right; exact H|right; exact H].
  Qed.

  (** while the temporary file is being written nothing happens to the final name *)
  Lemma crash_states_writes (s : fs) tmp filename chunks s' :
    String.eqb filename tmp = false ->
    In s' (crash_states A s (map (OpWrite tmp) chunks)) -> lookup A s' filename = lookup A s filename.
  Proof.
    intros Hne. revert s. induction chunks as [|d chunks IH]; intros s H; cbn [map crash_states] in H.
    - destruct H as [<-|[]]. reflexivity.
    - destruct H as [<-|H]; [reflexivity|].
      apply in_app_or in H as [H|H].
      + apply in_map_iff in H as (k & <- & _). apply (apply_untouched s (OpWrite tmp (firstn k d))). simpl. exact Hne.
      + apply IH in H. rewrite H. apply (apply_untouched s (OpWrite tmp d)). simpl. exact Hne.
  Qed.

  Lemma run_writes_tmp (s : fs) tmp chunks c :
    lookup A s tmp = Some c -> lookup A (run_ops A s (map (OpWrite tmp) chunks)) tmp = Some (c ++ List.concat chunks).
  Proof.
    revert s c. induction chunks as [|d chunks IH]; intros s c H; simpl.
    - rewrite app_nil_r. exact H.
    - unfold run_ops in *. cbn [map fold_left]. cbn [apply]. rewrite H.
      rewrite (IH (set A s tmp (c ++ d)) (c ++ d)) by apply lookup_set_same.
      cbn [List.concat]. rewrite app_assoc. reflexivity.
  Qed.

  Lemma run_writes_other (s : fs) tmp filename chunks :
    String.eqb filename tmp = false ->
    lookup A (run_ops A s (map (OpWrite tmp) chunks)) filename = lookup A s filename.
  Proof.
    intros Hne. revert s. induction chunks as [|d chunks IH]; intros s; [reflexivity|].
    unfold run_ops in *. cbn [map fold_left]. rewrite IH. apply (apply_untouched s (OpWrite tmp d)). simpl. exact Hne.
  Qed.

  (** one invocation of the callback: at every crash point the final name holds the old content
      or the complete new text *)
  Lemma write_atomic (s : fs) filename chunks s' :
    In s' (crash_states A s (write_chkpt_ops A filename chunks)) ->
    lookup A s' filename = lookup A s filename \/ lookup A s' filename = Some (List.concat chunks).
  Proof.
    pose proof (tmp_neq filename) as Hne.
    unfold write_chkpt_ops. intros H. cbn [crash_states app] in H.
    destruct H as [<-|H]; [left; reflexivity|].
    set (s1 := apply A s (OpOpen (tmp_of filename))) in *.
    assert (E1 : lookup A s1 filename = lookup A s filename) by (apply apply_untouched; simpl; exact Hne).
    apply crash_states_app in H as [H|H].
    - left. rewrite <- E1. eapply crash_states_writes; [exact Hne|exact H].
    - set (s2 := run_ops A s1 (map (OpWrite (tmp_of filename)) chunks)) in *.
      assert (E2 : lookup A s2 filename = lookup A s filename)
        by (unfold s2; rewrite run_writes_other by exact Hne; exact E1).
      assert (T2 : lookup A s2 (tmp_of filename) = Some (List.concat chunks)).
      { unfold s2. rewrite (run_writes_tmp s1 (tmp_of filename) chunks []); [reflexivity|].
        unfold s1. simpl. apply lookup_set_same. }
      cbn [crash_states app] in H. destruct H as [<-|[<-|[<-|[]]]].
      + left. exact E2.
      + left. cbn [apply]. exact E2.
      + right. cbn [apply]. rewrite T2. apply lookup_set_same.
  Qed.

  Lemma write_complete (s : fs) filename chunks :
    lookup A (run_ops A s (write_chkpt_ops A filename chunks)) filename = Some (List.concat chunks).
  Proof.
    pose proof (tmp_neq filename) as Hne.
    unfold write_chkpt_ops, run_ops. simpl. rewrite fold_left_app. simpl.
    set (s1 := set A s (tmp_of filename) []).
    fold (run_ops A s1 (map (OpWrite (tmp_of filename)) chunks)).
    rewrite (run_writes_tmp s1 (tmp_of filename) chunks []) by apply lookup_set_same.
    simpl. apply lookup_set_same.
  Qed.

  (** a whole run: after a kill at any point the file holds the text of the last completed
      iteration or of the one in progress (or what was there before the run) *)
  Lemma run_atomic filename texts : forall (s : fs) s',
    In s' (crash_states A s (run_writes A filename texts)) ->
    lookup A s' filename = lookup A s filename \/
    exists chunks, In chunks texts /\ lookup A s' filename = Some (List.concat chunks).
  Proof.
    induction texts as [|t texts IH]; intros s s' H.
    - simpl in H. destruct H as [<-|[]]. left. reflexivity.
    - unfold run_writes in H. cbn [flat_map] in H. apply crash_states_app in H as [H|H].
      + apply write_atomic in H as [H|H]; [left; exact H|right; exists t; split; [left; reflexivity|exact H]].
      + apply IH in H as [H|(c & Hc & H)].
        * right. exists t. split; [left; reflexivity|]. rewrite H. apply write_complete.
        * right. exists c. split; [right; exact Hc|exact H].
  Qed.

  (** more precisely: the text of iteration j-1 or j where j is the invocation in progress *)
  Lemma run_atomic_precise filename texts : forall (s : fs) s',
    In s' (crash_states A s (run_writes A filename texts)) ->
    exists j, j <= List.length texts /\
      (lookup A s' filename = lookup A (run_ops A s (run_writes A filename (firstn j texts))) filename).
  Proof.
    induction texts as [|t texts IH]; intros s s' H.
    - simpl in H. destruct H as [<-|[]]. exists 0. split; [lia|reflexivity].
    - unfold run_writes in H. cbn [flat_map] in H. apply crash_states_app in H as [H|H].
      + apply write_atomic in H as [H|H].
        * exists 0. split; [lia|]. cbn [firstn]. exact H.
        * exists 1. split; [cbn [List.length]; lia|]. cbn [firstn]. unfold run_writes. cbn [flat_map]. rewrite app_nil_r.
          rewrite H. symmetry. apply write_complete.
      + apply IH in H as (j & Hj & H). exists (S j). split; [cbn [List.length]; lia|].
        rewrite H. cbn [firstn]. unfold run_writes, run_ops. cbn [flat_map]. rewrite fold_left_app. reflexivity.
  Qed.

  (** the pinned tree before the repair: a kill right after the open leaves an empty file *)
  Lemma in_place_refuted filename (old : list A) chunks :
    old <> [] -> List.concat chunks <> [] ->
    exists s', In s' (crash_states A [(filename, old)] (write_in_place_ops A filename chunks)) /\
               lookup A s' filename <> Some old /\ lookup A s' filename <> Some (List.concat chunks).
  Proof.
    intros Ho Hn. exists (apply A [(filename, old)] (OpOpen filename)). split.
    - unfold write_in_place_ops. cbn [crash_states]. right. apply in_or_app. right.
      destruct chunks as [|d chunks]; cbn [map app crash_states]; left; reflexivity.
    - simpl. rewrite eqb_refl. split; intros H; injection H as H; [apply Ho|apply Hn]; symmetry; exact H.
  Qed.
End C18.

(* non-vacuity: a run of two iterations whose first text is cut into two pieces has crash states
   holding nothing, the first text and the second text under the final name - and no other *)
Definition ex18_texts : list (list (list nat)) := [[[1; 2]; [3]]; [[4; 5; 6]]].
Definition ex18_contents : list (option (list nat)) :=
  map (fun s => lookup nat s "chk"%string) (crash_states nat [] (run_writes nat "chk"%string ex18_texts)).
Lemma c18_example :
  In None ex18_contents /\ In (Some [1; 2; 3]) ex18_contents /\ In (Some [4; 5; 6]) ex18_contents /\
  forall c, In c ex18_contents -> c = None \/ c = Some [1; 2; 3] \/ c = Some [4; 5; 6].
Proof.
  vm_compute. repeat split; auto 20.
  intros c H. repeat (destruct H as [<-|H]; [auto|]). destruct H.
Qed.
