(** * Helper: mc_helper.hpp after the finite_calls repair (weighted_with_variance, weighted_equally, chi_square_dof,
    the distribution accumulator).  No proofs here. *)
From Coq Require Import ZArith NArith List.
From HepMC Require Import Num Translated Result.
Import ListNotations.

Section Helper.
  Context {K : Num}.

  Record wacc := mk_wacc { w_calls : N; w_nz : N; w_fin : N; w_est : K; w_var : K }.

  Definition wwv_step (a : wacc) (r : mcres K) : wacc :=
    let a' := mk_wacc (w_calls a + r_calls r) (w_nz a + r_nz r) (w_fin a + r_fin r) (w_est a) (w_var a) in
    if N.eqb (r_fin r) 0 then a' else
      let tmp := div K (one K) (variance r) in
      mk_wacc (w_calls a') (w_nz a') (w_fin a') (add K (w_est a) (mul K tmp (value r))) (add K (w_var a) tmp).

  Definition weighted_with_variance (rs : list (mcres K)) : mcres K :=
    let a := fold_left wwv_step rs (mk_wacc 0 0 0 (zero K) (zero K)) in
    let '(est, var) :=
      if N.eqb (w_fin a) 0 then (w_est a, w_var a)
      else let v := div K (one K) (w_var a) in (mul K (w_est a) v, v) in
    mk_result (w_calls a) (w_nz a) (w_fin a) est (fsqrt K var).

  Record eacc := mk_eacc { e_calls : N; e_nz : N; e_fin : N; e_sum : K; e_sumsq : K }.
  Definition weq_step (a : eacc) (r : mcres K) : eacc :=
    let tmp := value r in
    mk_eacc (e_calls a + r_calls r) (e_nz a + r_nz r) (e_fin a + r_fin r)
            (add K (e_sum a) tmp) (add K (e_sumsq a) (mul K tmp tmp)).

  Definition weighted_equally (rs : list (mcres K)) : mcres K :=
    match rs with
    | [] => mk_mcres 0 0 0 (zero K) (zero K)
    | [r] => r
    | _ =>
      let a := fold_left weq_step rs (mk_eacc 0 0 0 (zero K) (zero K)) in
      let m := N.of_nat (length rs) in
      let val := div K (e_sum a) (ofN K m) in
      let err := fsqrt K (div K (sub K (div K (e_sumsq a) (ofN K m)) (mul K val val)) (ofN K (m - 1))) in
      mk_result (e_calls a) (e_nz a) (e_fin a) val err
    end.

  (* chi_square_dof<Accumulator>: [acc] is the accumulator used for the combined value *)
  Definition chi_square_dof (acc : list (mcres K) -> mcres K) (rs : list (mcres K)) : K :=
    match rs with
    | [_] => inf K
    | _ =>
      let comb := value (acc rs) in
      let s := fold_left (fun s r => let tmp := sub K (value r) comb in
                                     add K s (div K (mul K tmp tmp) (variance r))) rs (zero K) in
      (* T(n - 1) with n a std::size_t: n = 0 wraps around *)
      div K s (ofN K (Z.to_N (wrap64 (Z.of_nat (length rs) - 1))))
    end.

  (** hep_distribution_accumulator: the first result fixes the distribution / bin structure; every
      bin of every other result is read with .at() (throws if missing) *)
  Definition bin_column (rs : list (plainres K)) (j k : N) : res (list (mcres K)) :=
    fold_right (fun r acc => do l <- acc; do d <- getN 50 (p_dists r) j; do b <- getN 51 (dr_bins d) k; Ok (b :: l))
               (Ok []) rs.

  Fixpoint combine_bins (acc : list (mcres K) -> mcres K) (rs : list (plainres K)) (j : N) (ks : list N)
    : res (list (mcres K)) :=
    match ks with
    | [] => Ok []
    | k :: ks' => do col <- bin_column rs j k; do rest <- combine_bins acc rs j ks'; Ok (acc col :: rest)
    end.

  Fixpoint iotaN' (start : N) (n : nat) : list N :=
    match n with O => [] | S n' => start :: iotaN' (start + 1) n' end.

  Fixpoint combine_dists (acc : list (mcres K) -> mcres K) (rs : list (plainres K)) (first : list (dres K)) (j : N)
    : res (list (dres K)) :=
    match first with
    | [] => Ok []
    | d :: first' =>
      do bins <- combine_bins acc rs j (iotaN' 0 (length (dr_bins d)));
      do rest <- combine_dists acc rs first' (j + 1);
      Ok (mk_dres (dr_par d) bins :: rest)
    end.

  Definition accumulate_plain (acc : list (mcres K) -> mcres K) (rs : list (plainres K)) : res (plainres K) :=
    do ds <- match rs with [] => Ok [] | r0 :: _ => combine_dists acc rs (p_dists r0) 0 end;
    Ok (mk_plainres (acc (map p_main rs)) ds).
End Helper.
