(** * Run: the integrator drivers hep::plain, hep::vegas, hep::multi_channel (plain.hpp, vegas.hpp,
    multi_channel.hpp): prepare the checkpoint, then for each entry of the calls list: iterate,
    add, invoke the callback, stop if it returns false.  No proofs in this file. *)
From Coq Require Import ZArith NArith List Bool.
From HepMC Require Import Num Result Accum VegasPdf Discrete MultiChannel Iter Chkpt Callback.
Import ListNotations.

Section Generic.
  (** C: checkpoint, R: iteration result, E: trace events *)
  Variables (C R E : Type).
  Variable gen_of : C -> res N.
  (* one iteration: checkpoint (read-only), calls, generator, integrand call counter *)
  Variable iterate : C -> N -> N -> N -> res (R * N * N * list E).
  Variable add : C -> R -> N -> C.
  Variable cb : C -> bool.

  (** log of one performed iteration: the events of its calls and the checkpoint the callback saw *)
  Record iterlog := mk_iterlog { il_events : list E; il_chk : C; il_continue : bool }.

  Fixpoint run_loop (cs : list N) (c : C) (g idx : N) (log : list iterlog)
    : res (C * N * list iterlog) :=
    match cs with
    | [] => Ok (c, idx, rev log)
    | calls :: cs' =>
      do r <- iterate c calls g idx;
      let '(result, g', idx', evs) := r in
      let c' := add c result g' in
      let go := cb c' in
      let log' := mk_iterlog evs c' go :: log in
      if go then run_loop cs' c' g' idx' log' else Ok (c', idx', rev log')
    end.

  Definition run (cs : list N) (c : C) (idx : N) : res (C * N * list iterlog) :=
    do g <- gen_of c; run_loop cs c g idx [].
End Generic.
Arguments mk_iterlog {C E}. Arguments il_events {C E}. Arguments il_chk {C E}. Arguments il_continue {C E}.

Section Drivers.
  Context {K : Num}.
  Context (L : Libm K).
  Variable strm : N -> K.
  Variable ps : list (dparams K).
  Variable f : integrand K.

  Definition plain_run (d : nat) (cb : pchk K -> bool) (cs : list N) (c : pchk K) (idx : N) :=
    run (pchk K) (plainres K) (event K) base_gen
        (fun _ calls g i => plain_iteration strm ps f d calls g i) base_add cb cs c idx.

  Definition vegas_run (d : N) (cb : vchk K -> bool) (cs : list N) (c : vchk K) (idx : N) :=
    run (vchk K) (vegasres K) (event K) (fun c => base_gen (vc_base c))
        (fun c calls g i => do p <- vchk_pdf L c; vegas_iteration strm ps f p calls g i)
        vchk_add cb cs (vchk_dimensions c d) idx.

  Variable mp : mcmap K.
  Definition mc_run (d : nat) (channels : N) (cb : mchk K -> bool) (cs : list N) (c : mchk K) (idx : N) :=
    run (mchk K) (mcres_mc K) (event K) (fun c => base_gen (mc_base c))
        (fun c calls g i => do ws <- mchk_weights L c; mc_iteration strm ps f mp d ws calls g i)
        mchk_add cb cs (mchk_channels c channels) idx.

  (** the built-in callback's decision on each checkpoint kind *)
  Definition cb_plain (target : K) (c : pchk K) : bool := decide target (map p_main (b_results c)).
  Definition cb_vegas (target : K) (c : vchk K) : bool :=
    decide target (map (fun r => p_main (v_plain r)) (b_results (vc_base c))).
  Definition cb_mc (target : K) (c : mchk K) : bool :=
    decide target (map (fun r => p_main (m_plain r)) (b_results (mc_base c))).
End Drivers.
