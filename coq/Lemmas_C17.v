(** Lemmas for C17: integrand and channel map are called under the documented protocol.
    (a) every [Num]: the event list of an iteration, call by call (PLAIN, VEGAS, multi-channel);
    (b) every [Num]: [enabled ws] is exactly the increasing list of the indices of non-zero weights;
        how many density requests a call makes;
    (c) every [Num]: PLAIN coordinates and the numbers handed to a channel map are stream entries, so
        whatever holds for all stream entries (being in [0,1)) holds for them;
    (d) [NumR]: VEGAS coordinates lie in their bin, bins below the bin count, inside [0,1];
    (e) [NumR], [NumB]: the selected channel is an enabled one (from C09). *)
From Coq Require Import ZArith NArith List Bool Lia Reals Lra Sorted.
From Flocq Require Import Core BinarySingleNaN.
From HepMC Require Import Num NumR NumB Translated Result Accum VegasPdf Discrete MultiChannel Iter Chkpt Callback Run
  Lemmas_Run Lemmas_C10 Lemmas_C01 Lemmas_C09.
Import ListNotations.

Lemma rev_repeat {A} (x : A) n : rev (repeat x n) = repeat x n.
Proof.
  induction n as [|n IH]; [reflexivity|]. cbn [repeat rev]. rewrite IH.
  clear IH. induction n as [|n IH]; [reflexivity|]. cbn [repeat app]. rewrite IH. reflexivity.
Qed.

(* ------------------------------------------------------------------------------------------- *)
(** * (a) the event list, call by call *)
Section Protocol.
  Context {K : Num}.
  Variable strm : N -> K.
  Variable ps : list (dparams K).
  Variable f : integrand K.

  (** n calls, each appending the events [evs] described by [spec (generator position) (call counter)] *)
  Lemma loop_trace (step : itst K -> res (itst K)) (cost : N) (spec : N -> N -> list (event K) -> Prop) :
    (forall s s', step s = Ok s' ->
       it_g s' = (it_g s + cost)%N /\ it_idx s' = (it_idx s + 1)%N /\
       exists evs, it_tr s' = rev evs ++ it_tr s /\ spec (it_g s) (it_idx s) evs) ->
    forall n s0 s, it_tr s0 = [] -> iter_loop step n s0 = Ok s ->
      exists evss, rev (it_tr s) = concat evss /\ length evss = N.to_nat n /\
        forall i, (i < N.to_nat n)%nat ->
          exists evs, nth_error evss i = Some evs /\
                      spec (it_g s0 + N.of_nat i * cost)%N (it_idx s0 + N.of_nat i)%N evs.
  Proof.
    intros Hstep n s0 s H0.
    apply (iter_loop_ind step (fun k s =>
      it_g s = (it_g s0 + k * cost)%N /\ it_idx s = (it_idx s0 + k)%N /\
      exists evss, rev (it_tr s) = concat evss /\ length evss = N.to_nat k /\
        forall i, (i < N.to_nat k)%nat ->
          exists evs, nth_error evss i = Some evs /\
                      spec (it_g s0 + N.of_nat i * cost)%N (it_idx s0 + N.of_nat i)%N evs)).
    - split; [lia|]. split; [lia|]. exists []. rewrite H0. split; [reflexivity|]. split; [reflexivity|].
      intros i Hi. cbn in Hi. lia.
    - intros k s1 s2 (G & I & evss & E1 & E2 & E3) Hs.
      destruct (Hstep _ _ Hs) as (G' & I' & evs & Et & Hspec).
      split; [lia|]. split; [lia|]. exists (evss ++ [evs]). split; [|split].
      + rewrite Et, rev_app_distr, rev_involutive, E1, concat_app. cbn [concat]. rewrite app_nil_r. reflexivity.
      + rewrite app_length, E2. cbn [length]. lia.
      + intros i Hi. destruct (Nat.eq_dec i (N.to_nat k)) as [->|Hne].
        * exists evs. split.
          -- rewrite nth_error_app2 by lia. rewrite E2, Nat.sub_diag. reflexivity.
          -- rewrite N2Nat.id, <- G, <- I. exact Hspec.
        * destruct (E3 i ltac:(lia)) as (evs' & En & Hs'). exists evs'. split; [|exact Hs'].
          rewrite nth_error_app1; [exact En|]. rewrite E2. lia.
  Qed.

  (** ... and the special case of exactly one event per call *)
  Lemma concat_singletons {A} (P : nat -> A -> Prop) : forall (n : nat) (evss : list (list A)),
    length evss = n ->
    (forall i, (i < n)%nat -> exists evs, nth_error evss i = Some evs /\ exists e, evs = [e] /\ P i e) ->
    length (concat evss) = n /\
    forall i, (i < n)%nat -> exists e, nth_error (concat evss) i = Some e /\ P i e.
  Proof.
    induction n as [|n IH]; intros evss HL H.
    - destruct evss; [|discriminate]. split; [reflexivity|]. intros i Hi. lia.
    - assert (Hne : evss <> []) by (intros ->; discriminate).
      destruct (exists_last Hne) as (front & lst & ->). rewrite app_length in HL. cbn [length] in HL.
      assert (HLf : length front = n) by lia.
      destruct (IH front HLf) as [IL IN].
      { intros i Hi. destruct (H i ltac:(lia)) as (evs & En & He). exists evs. split; [|exact He].
        rewrite nth_error_app1 in En by lia. exact En. }
      destruct (H n ltac:(lia)) as (evs & En & e & -> & He).
      rewrite nth_error_app2, HLf, Nat.sub_diag in En by lia. injection En as ->.
      rewrite concat_app. cbn [concat app]. split; [rewrite app_length, IL; cbn [length]; lia|].
      intros i Hi. destruct (Nat.eq_dec i n) as [->|Hn].
      + exists e. split; [|exact He]. rewrite nth_error_app2 by lia. rewrite IL, Nat.sub_diag. reflexivity.
      + destruct (IN i ltac:(lia)) as (e' & En' & He'). exists e'. split; [|exact He'].
        rewrite nth_error_app1 by lia. exact En'.
  Qed.

  (** *** PLAIN *)
  Definition plain_event (d : nat) (g idx : N) : event K :=
    EvIntegrand (mk_obs idx (draws strm g d) (one K) [] 0%N []) true.

  Lemma plain_step_spec d s s' : plain_step strm ps f d s = Ok s' ->
    it_g s' = (it_g s + N.of_nat d)%N /\ it_idx s' = (it_idx s + 1)%N /\
    exists evs, it_tr s' = rev evs ++ it_tr s /\ evs = [plain_event d (it_g s) (it_idx s)].
  Proof.
    intros H. destruct (plain_step_pos strm ps f d s s' H) as [G I]. split; [exact G|]. split; [exact I|].
    unfold plain_step in H. apply bind_Ok in H as ([a v] & _ & H). injection H as <-. cbn [it_tr].
    eexists. split; [|reflexivity]. reflexivity.
  Qed.

  Lemma c17_protocol_plain d calls g idx r g' idx' tr :
    plain_iteration strm ps f d calls g idx = Ok (r, g', idx', tr) ->
    length tr = N.to_nat calls /\
    forall i, (i < N.to_nat calls)%nat ->
      nth_error tr i = Some (plain_event d (g + N.of_nat i * N.of_nat d) (idx + N.of_nat i)).
  Proof.
    unfold plain_iteration. intros H. apply bind_Ok in H as (s & Hl & H). injection H as _ _ _ <-.
    assert (X := fun H0 => loop_trace _ _ (fun g0 i0 evs => evs = [plain_event d g0 i0]) (plain_step_spec d) calls _ s H0 Hl).
    destruct (X eq_refl) as (evss & E1 & E2 & E3). clear X.
    cbn [it_g it_idx] in E3. rewrite E1.
    destruct (concat_singletons (fun i e => e = plain_event d (g + N.of_nat i * N.of_nat d) (idx + N.of_nat i))
                (N.to_nat calls) evss E2) as [L1 L2].
    { intros i Hi. destruct (E3 i Hi) as (evs & En & ->). eauto. }
    split; [exact L1|]. intros i Hi. destruct (L2 i Hi) as (e & En & ->). exact En.
  Qed.

  (** *** VEGAS *)
  Definition vegas_event_spec (p : pdf K) (g idx : N) (e : event K) : Prop :=
    exists xs bs w, icdf p (draws strm g (N.to_nat (pdf_dims p))) = Ok (xs, bs, w) /\
                    e = EvIntegrand (mk_obs idx xs w bs 0%N []) true.

  Lemma vegas_step_spec p s s' : vegas_step strm ps f p s = Ok s' ->
    it_g s' = (it_g s + pdf_dims p)%N /\ it_idx s' = (it_idx s + 1)%N /\
    exists evs, it_tr s' = rev evs ++ it_tr s /\ exists e, evs = [e] /\ vegas_event_spec p (it_g s) (it_idx s) e.
  Proof.
    intros H. destruct (vegas_step_pos strm ps f p s s' H) as [G I]. split; [exact G|]. split; [exact I|].
    unfold vegas_step in H. apply bind_Ok in H as ([[xs bs] w] & Hi & H).
    apply bind_Ok in H as ([a v] & _ & H). apply bind_Ok in H as (adj & _ & H). injection H as <-. cbn [it_tr].
    eexists [_]. split; [reflexivity|]. eexists. split; [reflexivity|]. exists xs, bs, w. auto.
  Qed.

  Lemma c17_protocol_vegas p calls g idx r g' idx' tr :
    vegas_iteration strm ps f p calls g idx = Ok (r, g', idx', tr) ->
    length tr = N.to_nat calls /\
    forall i, (i < N.to_nat calls)%nat ->
      exists e, nth_error tr i = Some e /\
                vegas_event_spec p (g + N.of_nat i * pdf_dims p) (idx + N.of_nat i) e.
  Proof.
    unfold vegas_iteration. intros H. apply bind_Ok in H as (s & Hl & H). injection H as _ _ _ <-.
    assert (X := fun H0 => loop_trace _ _ (fun g0 i0 evs => exists e, evs = [e] /\ vegas_event_spec p g0 i0 e) (vegas_step_spec p) calls _ s H0 Hl).
    destruct (X eq_refl) as (evss & E1 & E2 & E3). clear X.
    cbn [it_g it_idx] in E3. rewrite E1.
    apply (concat_singletons (fun i e => vegas_event_spec p (g + N.of_nat i * pdf_dims p) (idx + N.of_nat i) e)
             (N.to_nat calls) evss E2 E3).
  Qed.

  (** *** multi-channel *)
  Variable mp : mcmap K.

  (* what accumulator::invoke hands back to the integrator *)
  Definition main_value (fval w : K) : K :=
    if neqb fval (zero K) then (if isfinite K (mul K fval w) then mul K fval w else zero K) else fval.

  Lemma invoke_main_value a fval w : snd (invoke_main a fval w) = main_value fval w.
  Proof.
    unfold invoke_main, main_value. destruct (neqb fval (zero K)); [|reflexivity].
    destruct (isfinite K (mul K fval w)); reflexivity.
  Qed.

  (* how often point.weight() is evaluated during and after one integrand call: once per projector fill,
     once if the integrand asks, once by the accumulator for a non-zero value, once by the integrator for a
     non-zero sanitised value *)
  Definition weight_requests (r : iret K) (w : K) : nat :=
    (length (i_fills r) + (if i_wants r then 1 else 0)
     + (if neqb (i_val r) (zero K) then 1 else 0)
     + (if eqb K (main_value (i_val r) w) (zero K) then 0 else 1))%nat.

  Definition mc_call_spec (d : nat) (ws : list K) (g idx : N) (evs : list (event K)) : Prop :=
    let us := draws strm g d in
    let ch := select ws (strm (g + N.of_nat d)%N) in
    let en := enabled ws in
    let coords := m_coords mp idx ch us en in
    exists jac dens w,
      m_dens mp idx ch us coords en = (jac, dens) /\ mc_weight jac ws dens = Ok w /\
      let o := mk_obs idx us w [] ch coords in
      evs = EvMapCoords ch us en :: EvIntegrand o (i_wants (f o))
            :: repeat (EvMapDens ch us coords en) (dens_calls w (weight_requests (f o) w)).

  Lemma mc_step_spec d ws s s' : mc_step strm ps f mp d ws (cumulative ws) (enabled ws) s = Ok s' ->
    it_g s' = (it_g s + (N.of_nat d + 1))%N /\ it_idx s' = (it_idx s + 1)%N /\
    exists evs, it_tr s' = rev evs ++ it_tr s /\ mc_call_spec d ws (it_g s) (it_idx s) evs.
  Proof.
    intros H. destruct (mc_step_pos strm ps f mp d ws _ _ s s' H) as [G I]. split; [exact G|]. split; [exact I|].
    unfold mc_step in H. destruct (m_dens mp _ _ _ _ _) as [jac dens] eqn:Ed.
    apply bind_Ok in H as (w & Hw & H). apply bind_Ok in H as ([a v] & Hf & H).
    apply bind_Ok in H as (adj & _ & H). injection H as <-. cbn [it_tr].
    assert (Ev : v = main_value (i_val (f (mk_obs (it_idx s) (draws strm (it_g s) d) w [] (upper_bound (cumulative ws) (strm (it_g s + N.of_nat d)%N)) (m_coords mp (it_idx s) (upper_bound (cumulative ws) (strm (it_g s + N.of_nat d)%N)) (draws strm (it_g s) d) (enabled ws))))) w).
    { unfold finish_call in Hf. apply bind_Ok in Hf as (ds & _ & Hf). cbn [o_weight] in Hf.
      rewrite <- invoke_main_value with (a := a_main (it_acc s)).
      destruct (invoke_main _ _ _) as [m v0]. injection Hf as _ <-. reflexivity. }
    eexists. split.
    2:{ unfold mc_call_spec. cbv zeta. unfold select. exists jac, dens, w. split; [exact Ed|]. split; [exact Hw|]. reflexivity. }
    cbn [rev]. rewrite rev_repeat, <- !app_assoc. cbn [app]. unfold weight_requests. rewrite <- Ev. reflexivity.
  Qed.

  Lemma c17_protocol_mc d ws calls g idx r g' idx' tr :
    mc_iteration strm ps f mp d ws calls g idx = Ok (r, g', idx', tr) ->
    exists evss, tr = concat evss /\ length evss = N.to_nat calls /\
      forall i, (i < N.to_nat calls)%nat ->
        exists evs, nth_error evss i = Some evs /\
                    mc_call_spec d ws (g + N.of_nat i * (N.of_nat d + 1)) (idx + N.of_nat i) evs.
  Proof.
    unfold mc_iteration. intros H. apply bind_Ok in H as (s & Hl & H). injection H as _ _ _ <-.
    assert (X := fun H0 => loop_trace _ _ (mc_call_spec d ws) (mc_step_spec d ws) calls _ s H0 Hl).
    exact (X eq_refl).
  Qed.

  (** when the map is asked for densities *)
  Lemma c17_density_requests (r : iret K) (w : K) :
    let k := dens_calls w (weight_requests r w) in
    (* not at all iff the value compares equal to zero, the integrand did not ask, and there was no fill *)
    (k = 0%nat <-> i_fills r = [] /\ i_wants r = false /\ eqb K (i_val r) (zero K) = true) /\
    (* at most once as long as the computed weight is not zero (it is cached) *)
    (eqb K w (zero K) = false -> (k <= 1)%nat) /\
    (* otherwise once per request: at most fills + 3 *)
    (k <= length (i_fills r) + 3)%nat.
  Proof.
    cbv zeta. unfold dens_calls, weight_requests, main_value, neqb.
    destruct (i_fills r) as [|x fl]; cbn [length]; destruct (i_wants r); destruct (eqb K (i_val r) (zero K)) eqn:Ev;
      cbn [negb]; rewrite ?Ev; destruct (eqb K w (zero K));
      repeat match goal with |- context [if ?c then _ else _] => destruct c end;
      (split; [split; [intros H; try discriminate H; try (exfalso; lia); auto|intros (H1 & H2 & H3); try discriminate; try reflexivity]|split; [intros H; try discriminate H; try lia|try lia]]).
  Qed.
End Protocol.

(* ------------------------------------------------------------------------------------------- *)
(** * (b) the enabled channels *)
Section Enabled.
  Context {K : Num}.

  Lemma enabled_from_In : forall (ws : list K) (s i : N),
    In i (enabled_from s ws) <->
    (s <= i)%N /\ exists w, nth_error ws (N.to_nat (i - s)) = Some w /\ neqb w (zero K) = true.
  Proof.
    induction ws as [|w ws IH]; intros s i; cbn [enabled_from].
    - split; [contradiction|]. intros (_ & x & E & _). destruct (N.to_nat (i - s)); discriminate.
    - assert (Hrec : In i (enabled_from (s + 1) ws) <->
                     (s < i)%N /\ exists x, nth_error (w :: ws) (N.to_nat (i - s)) = Some x /\ neqb x (zero K) = true).
      { rewrite IH. split; intros (H1 & x & E & Hx).
        - split; [lia|]. exists x. split; [|exact Hx]. replace (N.to_nat (i - s)) with (S (N.to_nat (i - (s + 1)))) by lia. exact E.
        - split; [lia|]. exists x. split; [|exact Hx]. replace (N.to_nat (i - s)) with (S (N.to_nat (i - (s + 1)))) in E by lia. exact E. }
      destruct (neqb w (zero K)) eqn:Ew; cbn [In]; rewrite ?Hrec.
      + split.
        * intros [<-|(H1 & H2)]; [|split; [lia|exact H2]]. split; [lia|]. exists w. rewrite N.sub_diag. auto.
        * intros (H1 & x & E & Hx). destruct (N.eq_dec s i) as [Eq|Ne]; [left; exact Eq|right].
          split; [lia|]. eauto.
      + split.
        * intros (H1 & H2). split; [lia|exact H2].
        * intros (H1 & x & E & Hx). destruct (N.eq_dec s i) as [Eq|Ne]; [|split; [lia|eauto]].
          subst i. rewrite N.sub_diag in E. injection E as <-. congruence.
  Qed.

  Lemma enabled_from_sorted : forall (ws : list K) (s : N), StronglySorted N.lt (enabled_from s ws).
  Proof.
    induction ws as [|w ws IH]; intros s; cbn [enabled_from]; [constructor|].
    destruct (neqb w (zero K)); [|apply IH]. constructor; [apply IH|].
    apply Forall_forall. intros i Hi. apply enabled_from_In in Hi. lia.
  Qed.

  Lemma c17_enabled_spec (ws : list K) :
    (forall i, In i (enabled ws) <->
       (i < N.of_nat (length ws))%N /\ neqb (nth (N.to_nat i) ws (zero K)) (zero K) = true) /\
    StronglySorted N.lt (enabled ws).
  Proof.
    split; [|apply enabled_from_sorted]. intros i. unfold enabled. rewrite enabled_from_In, N.sub_0_r. split.
    - intros (_ & w & E & Hw). split.
      + assert (N.to_nat i < length ws)%nat by (apply nth_error_Some; congruence). lia.
      + rewrite (nth_error_nth _ _ _ E). exact Hw.
    - intros (Hi & Hw). split; [lia|]. exists (nth (N.to_nat i) ws (zero K)). split; [|exact Hw].
      apply nth_error_nth'. lia.
  Qed.
End Enabled.

(* ------------------------------------------------------------------------------------------- *)
(** * (c) numbers handed to the integrand (PLAIN) and to the channel map are stream entries *)
Section Unit.
  Context {K : Num}.
  Variable strm : N -> K.
  Variable ps : list (dparams K).
  Variable f : integrand K.
  Variable mp : mcmap K.

  (* half-open unit interval, with the comparisons of the numeric type (false on NaN) *)
  Definition unit_ho (u : K) : Prop := leb K (zero K) u && ltb K u (one K) = true.

  Lemma draws_Forall (P : K -> Prop) g d : (forall n, P (strm n)) -> Forall P (draws strm g d).
  Proof. intros H. unfold draws. apply Forall_forall. intros u Hu. apply in_map_iff in Hu as (n & <- & _). apply H. Qed.

  Lemma c17_unit_interval_plain (P : K -> Prop) d calls g idx r g' idx' tr :
    (forall n, P (strm n)) ->
    plain_iteration strm ps f d calls g idx = Ok (r, g', idx', tr) ->
    Forall (fun e => exists o, e = EvIntegrand o true /\ length (o_point o) = d /\ Forall P (o_point o) /\
                               o_weight o = one K) tr.
  Proof.
    intros HP H. destruct (c17_protocol_plain strm ps f d calls g idx r g' idx' tr H) as [L Hn].
    apply Forall_forall. intros e He. apply In_nth_error in He as (i & Hi).
    assert (Hlt : (i < N.to_nat calls)%nat) by (rewrite <- L; apply nth_error_Some; congruence).
    rewrite (Hn i Hlt) in Hi. injection Hi as <-. eexists. split; [reflexivity|]. cbn [o_point o_weight].
    split; [apply draws_length|]. split; [apply draws_Forall; exact HP|reflexivity].
  Qed.

  Lemma c17_unit_interval_mc (P : K -> Prop) d ws calls g idx r g' idx' tr :
    (forall n, P (strm n)) ->
    mc_iteration strm ps f mp d ws calls g idx = Ok (r, g', idx', tr) ->
    Forall (fun e => match e with
                     | EvMapCoords _ us _ => length us = d /\ Forall P us
                     | EvIntegrand o _ => length (o_point o) = d /\ Forall P (o_point o)
                     | EvMapDens _ us _ _ => length us = d /\ Forall P us
                     end) tr.
  Proof.
    intros HP H. destruct (c17_protocol_mc strm ps f mp d ws calls g idx r g' idx' tr H) as (evss & -> & L & Hn).
    apply Forall_forall. intros e He. apply in_concat in He as (evs & Hevs & He).
    apply In_nth_error in Hevs as (i & Hi).
    assert (Hlt : (i < N.to_nat calls)%nat) by (rewrite <- L; apply nth_error_Some; congruence).
    destruct (Hn i Hlt) as (evs' & Hi' & Hs). rewrite Hi in Hi'. injection Hi' as <-.
    destruct Hs as (jac & dens & w & _ & _ & ->).
    destruct He as [<-|[<-|He]]; [| |apply repeat_spec in He; subst e];
      cbn [o_point]; (split; [apply draws_length|apply draws_Forall; exact HP]).
  Qed.
End Unit.

(* the instance named by the property text, for every IEEE format *)
Lemma c17_unit_interval_float prec emax (Hprec : FLX.Prec_gt_0 prec) (Hmax : Prec_lt_emax prec emax) :
  let KB := NumB prec emax Hprec Hmax in
  forall (strm : N -> KB) ps f mp, (forall n, unit_ho (strm n)) ->
  (forall d calls g idx r g' idx' tr, plain_iteration strm ps f d calls g idx = Ok (r, g', idx', tr) ->
     Forall (fun e => exists o, e = EvIntegrand o true /\ length (o_point o) = d /\ Forall unit_ho (o_point o) /\
                                o_weight o = one KB) tr) /\
  (forall d ws calls g idx r g' idx' tr, mc_iteration strm ps f mp d ws calls g idx = Ok (r, g', idx', tr) ->
     Forall (fun e => match e with
                      | EvMapCoords _ us _ => length us = d /\ Forall unit_ho us
                      | EvIntegrand o _ => length (o_point o) = d /\ Forall unit_ho (o_point o)
                      | EvMapDens _ us _ _ => length us = d /\ Forall unit_ho us
                      end) tr).
Proof.
  intros KB strm ps f mp HP. split.
  - intros d calls g idx r g' idx' tr H. exact (c17_unit_interval_plain strm ps f unit_ho d calls g idx r g' idx' tr HP H).
  - intros d ws calls g idx r g' idx' tr H. exact (c17_unit_interval_mc strm ps f mp unit_ho d ws calls g idx r g' idx' tr HP H).
Qed.

(* ------------------------------------------------------------------------------------------- *)
(** * the events of a whole run are the events of its iterations *)
Section RunEvents.
  Context {K : Num}.
  Context (L : Libm K).
  Variable strm : N -> K.
  Variable ps : list (dparams K).
  Variable f : integrand K.
  Variable mp : mcmap K.

  Lemma c17_run_events :
    (forall d cb cs c idx c' idx' ls, plain_run strm ps f d cb cs c idx = Ok (c', idx', ls) ->
       forall l, In l ls -> exists calls g i r g' i',
         plain_iteration strm ps f d calls g i = Ok (r, g', i', il_events l)) /\
    (forall d cb cs c idx c' idx' ls, vegas_run L strm ps f d cb cs c idx = Ok (c', idx', ls) ->
       forall l, In l ls -> exists p calls g i r g' i',
         vegas_iteration strm ps f p calls g i = Ok (r, g', i', il_events l) /\ v_pdf r = p) /\
    (forall d channels cb cs c idx c' idx' ls, mc_run L strm ps f mp d channels cb cs c idx = Ok (c', idx', ls) ->
       forall l, In l ls -> exists ws calls g i r g' i',
         mc_iteration strm ps f mp d ws calls g i = Ok (r, g', i', il_events l) /\ m_weights r = ws).
  Proof.
    split; [|split]; intros until ls; intros H l Hl; apply In_nth_error in Hl as (n & Hn);
      unfold plain_run, vegas_run, mc_run in H; apply run_exec in H as (g & rest & _ & Hex);
      destruct (exec_iter_ok _ _ _ _ _ _ _ _ _ _ _ _ _ _ Hex n l Hn) as (calls & gi & idxi & gi' & idxi' & _ & (r & Hi & _)).
    - eauto 10.
    - apply bind_Ok in Hi as (p & _ & Hi). exists p, calls, gi, idxi, r, gi', idxi'. split; [exact Hi|].
      unfold vegas_iteration in Hi. apply bind_Ok in Hi as (s & _ & Hi). injection Hi as <- _ _ _. reflexivity.
    - apply bind_Ok in Hi as (ws & _ & Hi). exists ws, calls, gi, idxi, r, gi', idxi'. split; [exact Hi|].
      unfold mc_iteration in Hi. apply bind_Ok in Hi as (s & _ & Hi). injection Hi as <- _ _ _. reflexivity.
  Qed.
End RunEvents.

(* ------------------------------------------------------------------------------------------- *)
(** * (d) VEGAS over the reals *)
Local Open Scope R_scope.

(** a valid grid: (bins + 1) boundaries per dimension, from 0 to 1, non-decreasing *)
Definition grid_valid (p : pdf NumR) : Prop :=
  pdf_wf p /\ (1 <= pdf_bins p < 2 ^ 64)%N /\
  forall d, (d < pdf_dims p)%N ->
    grid p d 0 = 0 /\ grid p d (pdf_bins p) = 1 /\
    forall b, (b < pdf_bins p)%N -> grid p d b <= grid p d (b + 1).

Lemma grid_mono (p : pdf NumR) d : grid_valid p -> (d < pdf_dims p)%N ->
  forall n a, (a + N.of_nat n <= pdf_bins p)%N -> grid p d a <= grid p d (a + N.of_nat n).
Proof.
  intros (_ & _ & V) Hd. destruct (V d Hd) as (_ & _ & M).
  induction n as [|n IH]; intros a Ha.
  - rewrite N.add_0_r. lra.
  - replace (a + N.of_nat (S n))%N with (a + N.of_nat n + 1)%N by lia.
    eapply Rle_trans; [apply IH; lia|apply M; lia].
Qed.

Lemma grid_range (p : pdf NumR) d b : grid_valid p -> (d < pdf_dims p)%N -> (b <= pdf_bins p)%N ->
  0 <= grid p d b <= 1.
Proof.
  intros V Hd Hb. pose proof V as (_ & _ & V'). destruct (V' d Hd) as (E0 & E1 & _). split.
  - rewrite <- E0. pose proof (grid_mono p d V Hd (N.to_nat b) 0%N ltac:(lia)) as H.
    replace (0 + N.of_nat (N.to_nat b))%N with b in H by lia. exact H.
  - rewrite <- E1. pose proof (grid_mono p d V Hd (N.to_nat (pdf_bins p - b)) b ltac:(lia)) as H.
    replace (b + N.of_nat (N.to_nat (pdf_bins p - b)))%N with (pdf_bins p) in H by lia. exact H.
Qed.

Lemma icdf1_unit (p : pdf NumR) d (u : R) : grid_valid p -> (d < pdf_dims p)%N -> 0 <= u < 1 ->
  exists x b w, icdf1 p d u = Ok (x, b, w) /\ (b < pdf_bins p)%N /\
    grid p d b <= x <= grid p d (b + 1) /\ 0 <= x <= 1.
Proof.
  intros V Hd [Hu0 Hu1]. pose proof V as (W & Hbins & V'). destruct (V' d Hd) as (_ & _ & M).
  set (bins := pdf_bins p) in *.
  assert (HB : 0 < IZR (Z.of_N bins)) by (apply IZR_N_pos; lia).
  set (pos := u * IZR (Z.of_N bins)).
  assert (Hp0 : 0 <= pos) by (unfold pos; nra).
  assert (Hp1 : pos < IZR (Z.of_N bins)) by (unfold pos; nra).
  set (z := Ztrunc pos).
  assert (Ez : z = Zfloor pos) by (apply Ztrunc_floor; exact Hp0).
  assert (Hz0 : (0 <= z)%Z) by (rewrite Ez; apply Zfloor_lub; exact Hp0).
  assert (Hz1 : (z < Z.of_N bins)%Z).
  { apply lt_IZR. eapply Rle_lt_trans; [|exact Hp1]. rewrite Ez. apply Zfloor_lb. }
  assert (Hin : 0 <= pos - IZR z < 1).
  { rewrite Ez. pose proof (Zfloor_lb pos). pose proof (Zfloor_ub pos). lra. }
  assert (Hne : u <> 1) by lra. apply Reqb_false in Hne.
  unfold icdf1. cbn [NumR eqb one pred_one mul ofN trunc sub add T]. fold bins. rewrite Hne. fold pos.
  unfold Rtrunc_N. fold z.
  destruct (Z.ltb_spec z 0) as [?|_]; [lia|].
  destruct (Z.ltb_spec z (2 ^ 64)) as [_|?]; [|lia].
  set (b := Z.to_N z). assert (Hb : (b < bins)%N) by lia.
  rewrite (bin_left_ok p d b W Hd ltac:(lia)), (bin_left_ok p d (b + 1) W Hd ltac:(lia)). cbn [bind].
  eexists _, b, _. split; [reflexivity|]. split; [exact Hb|].
  replace (IZR (Z.of_N b)) with (IZR z) by (f_equal; lia).
  pose proof (M b Hb) as Hm.
  assert (Hx : grid p d b <= grid p d b + (pos - IZR z) * (grid p d (b + 1) - grid p d b) <= grid p d (b + 1)) by nra.
  split; [exact Hx|].
  pose proof (grid_range p d b V Hd ltac:(lia)). pose proof (grid_range p d (b + 1) V Hd ltac:(lia)). lra.
Qed.

(* point and bins of one VEGAS call: one coordinate and one bin per dimension, each coordinate inside its
   bin of its dimension, bins below the bin count, everything inside the closed unit interval *)
Definition point_in_bins (p : pdf NumR) (xs : list R) (bs : list N) : Prop :=
  length xs = N.to_nat (pdf_dims p) /\ length bs = N.to_nat (pdf_dims p) /\
  forall i x b, nth_error xs i = Some x -> nth_error bs i = Some b ->
    (b < pdf_bins p)%N /\ grid p (N.of_nat i) b <= x <= grid p (N.of_nat i) (b + 1) /\ 0 <= x <= 1.

Lemma icdf_loop_unit (p : pdf NumR) : grid_valid p -> forall us d w0,
  (N.to_nat d + length us <= N.to_nat (pdf_dims p))%nat -> Forall (fun u => 0 <= u < 1) us ->
  exists xs bs w, icdf_loop p d us w0 = Ok (xs, bs, w) /\ length xs = length us /\ length bs = length us /\
    forall i x b, nth_error xs i = Some x -> nth_error bs i = Some b ->
      (b < pdf_bins p)%N /\ grid p (d + N.of_nat i) b <= x <= grid p (d + N.of_nat i) (b + 1) /\ 0 <= x <= 1.
Proof.
  intros V. induction us as [|u us IH]; intros d w0 Hd Hu; cbn [icdf_loop].
  - exists [], [], w0. split; [reflexivity|]. split; [reflexivity|]. split; [reflexivity|].
    intros i x b Hx. destruct i; discriminate.
  - inversion Hu as [|? ? Hu1 Hu2]; subst. cbn [length] in Hd.
    destruct (icdf1_unit p d u V ltac:(lia) Hu1) as (x & b & fw & E1 & Hb & Hx & Hx01).
    destruct (IH (d + 1)%N (w0 * fw) ltac:(lia) Hu2) as (xs & bs & w & E2 & L1 & L2 & Hrest).
    rewrite E1. cbn [bind NumR mul]. rewrite E2. cbn [bind].
    exists (x :: xs), (b :: bs), w. split; [reflexivity|]. cbn [length]. split; [lia|]. split; [lia|].
    intros i x' b' Hx' Hb'. destruct i as [|i].
    + injection Hx' as <-. injection Hb' as <-. rewrite N.add_0_r. auto.
    + cbn [nth_error] in Hx', Hb'. replace (d + N.of_nat (S i))%N with (d + 1 + N.of_nat i)%N by lia.
      apply Hrest; assumption.
Qed.

Lemma c17_icdf_unit (p : pdf NumR) (us : list R) : grid_valid p ->
  length us = N.to_nat (pdf_dims p) -> Forall (fun u => 0 <= u < 1) us ->
  exists xs bs w, icdf p us = Ok (xs, bs, w) /\ point_in_bins p xs bs.
Proof.
  intros V HL Hu. destruct (icdf_loop_unit p V us 0%N (one NumR) ltac:(lia) Hu) as (xs & bs & w & E & L1 & L2 & H).
  exists xs, bs, w. split; [exact E|]. split; [exact (eq_trans L1 HL)|]. split; [exact (eq_trans L2 HL)|]. exact H.
Qed.

Lemma c17_unit_interval_vegas (strm : N -> R) ps f (p : pdf NumR) calls g idx r g' idx' tr :
  grid_valid p -> (forall n, 0 <= strm n < 1) ->
  @vegas_iteration NumR strm ps f p calls g idx = Ok (r, g', idx', tr) ->
  Forall (fun e : event NumR => exists o : obs NumR, e = EvIntegrand o true /\ point_in_bins p (o_point o) (o_bins o)) tr.
Proof.
  intros V HP H. destruct (@c17_protocol_vegas NumR strm ps f p calls g idx r g' idx' tr H) as [L Hn].
  apply Forall_forall. intros e He. apply In_nth_error in He as (i & Hi).
  assert (Hlt : (i < N.to_nat calls)%nat) by (rewrite <- L; apply nth_error_Some; congruence).
  destruct (Hn i Hlt) as (e' & Hi' & xs & bs & w & Ei & ->). rewrite Hi in Hi'. injection Hi' as ->.
  eexists. split; [reflexivity|]. cbn [o_point o_bins].
  destruct (c17_icdf_unit p (@draws NumR strm (g + N.of_nat i * pdf_dims p) (N.to_nat (pdf_dims p))) V) as (xs' & bs' & w' & Ei' & Hpt).
  - apply (@draws_length NumR).
  - apply (@draws_Forall NumR strm (fun u => 0 <= u < 1)). exact HP.
  - change (T NumR) with R in *. rewrite Ei in Ei'. injection Ei' as <- <- <-. exact Hpt.
Qed.

(* ------------------------------------------------------------------------------------------- *)
(** * (e) the selected channel is an enabled one (C09) *)
Lemma c17_channel_enabled_R (ws : list R) (u : R) : nonneg ws -> 0 < Rsum ws -> 0 <= u < 1 ->
  In (@select NumR ws u) (@enabled NumR ws).
Proof.
  intros NN Hs Hu. apply (@c17_enabled_spec NumR ws).
  pose proof (c09_select_valid ws u NN Hs Hu) as Hv. split; [exact Hv|].
  unfold neqb. apply negb_true_iff. apply Reqb_false. intros E.
  apply (c09_select_never_disabled ws u (N.to_nat (@select NumR ws u)) NN Hs Hu E). rewrite N2Nat.id. reflexivity.
Qed.

Lemma c17_channel_enabled_float prec emax (Hprec : FLX.Prec_gt_0 prec) (Hmax : Prec_lt_emax prec emax)
  (ws : list (NumB prec emax Hprec Hmax)) (u : NumB prec emax Hprec Hmax) :
  float_weights_ok prec emax Hprec Hmax ws -> canonical_ok prec emax Hprec Hmax u ->
  In (@select (NumB prec emax Hprec Hmax) ws u) (@enabled (NumB prec emax Hprec Hmax) ws).
Proof.
  intros Hws Hu. destruct (c09_select_float prec emax Hprec Hmax ws Hws u Hu) as (i & w & E & Ew & Z).
  apply (@c17_enabled_spec (NumB prec emax Hprec Hmax) ws). rewrite E, Nat2N.id.
  assert (Hi : (i < length ws)%nat) by (apply nth_error_Some; congruence).
  split; [lia|]. rewrite (nth_error_nth _ _ _ Ew). unfold neqb. rewrite Z. reflexivity.
Qed.

(** every channel handed to the map during an iteration is a member of the enabled list handed along *)
Definition channel_enabled_event {K : Num} (e : event K) : Prop :=
  match e with
  | EvMapCoords ch _ en => In ch en
  | EvIntegrand _ _ => True
  | EvMapDens ch _ _ en => In ch en
  end.

Lemma mc_trace_channels {K : Num} (strm : N -> K) ps f mp d ws calls g idx r g' idx' tr :
  (forall n, In (select ws (strm n)) (enabled ws)) ->
  mc_iteration strm ps f mp d ws calls g idx = Ok (r, g', idx', tr) ->
  Forall channel_enabled_event tr.
Proof.
  intros HP H. destruct (c17_protocol_mc strm ps f mp d ws calls g idx r g' idx' tr H) as (evss & -> & L & Hn).
  apply Forall_forall. intros e He. apply in_concat in He as (evs & Hevs & He).
  apply In_nth_error in Hevs as (i & Hi).
  assert (Hlt : (i < N.to_nat calls)%nat) by (rewrite <- L; apply nth_error_Some; congruence).
  destruct (Hn i Hlt) as (evs' & Hi' & Hs). rewrite Hi in Hi'. injection Hi' as <-.
  destruct Hs as (jac & dens & w & _ & _ & ->).
  destruct He as [<-|[<-|He]]; [| |apply repeat_spec in He; subst e]; cbn [channel_enabled_event]; auto.
Qed.

Lemma c17_mc_channel_enabled_R (strm : N -> R) ps f mp d (ws : list R) calls g idx r g' idx' tr :
  nonneg ws -> 0 < Rsum ws -> (forall n, 0 <= strm n < 1) ->
  @mc_iteration NumR strm ps f mp d ws calls g idx = Ok (r, g', idx', tr) ->
  Forall (@channel_enabled_event NumR) tr.
Proof.
  intros NN Hs HP H. eapply (@mc_trace_channels NumR); [|exact H]. intros n. apply c17_channel_enabled_R; auto.
Qed.

Lemma c17_mc_channel_enabled_float prec emax (Hprec : FLX.Prec_gt_0 prec) (Hmax : Prec_lt_emax prec emax)
  (strm : N -> NumB prec emax Hprec Hmax) ps f mp d (ws : list (NumB prec emax Hprec Hmax)) calls g idx r g' idx' tr :
  float_weights_ok prec emax Hprec Hmax ws -> (forall n, canonical_ok prec emax Hprec Hmax (strm n)) ->
  @mc_iteration (NumB prec emax Hprec Hmax) strm ps f mp d ws calls g idx = Ok (r, g', idx', tr) ->
  Forall (@channel_enabled_event (NumB prec emax Hprec Hmax)) tr.
Proof.
  intros Hws HP H. eapply (@mc_trace_channels (NumB prec emax Hprec Hmax)); [|exact H].
  intros n. apply c17_channel_enabled_float; auto.
Qed.

(* ------------------------------------------------------------------------------------------- *)
(** * non-vacuity *)
(* a real multi-channel iteration in double precision: three channels, the middle one disabled; call 0 has a
   non-zero value (one density request), call 1 value zero and no request (none), call 2 value zero but the
   integrand asks (one), call 3 a zero jacobian, so the weight compares equal to zero and both the
   integrand's and the accumulator's request reach the map (two), call 4 selects the other enabled channel *)
Definition ex17_strm (n : N) : B64 := div B64 (ofN B64 (N.modulo (n * 5 + 1) 16)) (ofN B64 16).
Definition ex17_f : integrand B64 := fun o =>
  if N.eqb (o_idx o) 1 then mk_iret (zero B64) [] false
  else if N.eqb (o_idx o) 2 then mk_iret (zero B64) [] true
  else if N.eqb (o_idx o) 3 then mk_iret (one B64) [] true
  else mk_iret (one B64) [] false.
Definition ex17_mp : mcmap B64 :=
  @mk_mcmap B64 (fun _ _ us _ => us)
    (fun i _ _ _ _ => (if N.eqb i 3 then zero B64 else one B64, [one B64; one B64; one B64])).
Definition ex17_ws : list B64 := [@half B64; zero B64; @half B64].
(* kind of event (0 = coordinates, 1 = integrand, 2 = densities) and channel *)
Definition event_code (e : event B64) : N * N :=
  match e with EvMapCoords ch _ _ => (0, ch) | EvIntegrand o _ => (1, o_channel o) | EvMapDens ch _ _ _ => (2, ch) end%N.
Definition ex17_codes : option (N * N * list (N * N) * list N) :=
  match mc_iteration ex17_strm [] ex17_f ex17_mp 2 ex17_ws 5 0 0 with
  | Ok (_, g, i, tr) => Some (g, i, map event_code tr, enabled ex17_ws) | UB _ => None end.
Lemma c17_example_mc :
  ex17_codes = Some (15, 5,
    [(0, 2); (1, 2); (2, 2);   (0, 2); (1, 2);   (0, 2); (1, 2); (2, 2);
     (0, 2); (1, 2); (2, 2); (2, 2);   (0, 0); (1, 0); (2, 0)], [0; 2])%N.
Proof. vm_compute. reflexivity. Qed.

(* the hypotheses of the real-number statements are satisfiable: the non-uniform 2 x 2 grid of Lemmas_C01, a
   stream inside [0,1), weights with disabled channels *)
Lemma c17_example_R :
  grid_valid ex_pdf /\ (forall n : N, 0 <= (fun _ => / 2) n < 1) /\
  nonneg [0; 1; 0; 3; 0] /\ 0 < Rsum [0; 1; 0; 3; 0] /\
  (exists xs bs w, @icdf NumR ex_pdf [/ 2; 9 / 10] = Ok (xs, bs, w) /\ bs = [1; 1]%N /\ point_in_bins ex_pdf xs bs).
Proof.
  assert (V : grid_valid ex_pdf).
  { split; [exact ex_pdf_wf|]. split; [exact ex_pdf_bins|]. intros d Hd. cbn in Hd.
    assert (H : d = 0%N \/ d = 1%N) by lia.
    destruct H as [-> | ->]; (split; [reflexivity|]); (split; [reflexivity|]); intros b Hb; cbn in Hb;
      assert (H : b = 0%N \/ b = 1%N) by lia; destruct H as [-> | ->]; unfold grid; simpl; lra. }
  split; [exact V|]. split; [intros n; lra|]. split; [repeat constructor; lra|]. split; [cbn; lra|].
  destruct (c17_icdf_unit ex_pdf [/ 2; 9 / 10] V eq_refl ltac:(repeat constructor; lra)) as (xs & bs & w & E & Hpt).
  exists xs, bs, w. split; [exact E|]. split; [|exact Hpt].
  (* the bins: 1/2 * 2 = 1 and 9/10 * 2 = 9/5 both truncate to 1 *)
  destruct Hpt as (L1 & L2 & Hin). cbn in L1, L2.
  destruct bs as [|b0 [|b1 [|? ?]]]; try discriminate. destruct xs as [|x0 [|x1 [|? ?]]]; try discriminate.
  destruct (Hin 0%nat x0 b0 eq_refl eq_refl) as (B0 & X0 & _). destruct (Hin 1%nat x1 b1 eq_refl eq_refl) as (B1 & X1 & _).
  clear Hin. unfold icdf in E. cbn [icdf_loop] in E.
  destruct (icdf1 ex_pdf 0 (/ 2)) as [[[y0 c0] f0]|] eqn:E0; cbn [bind] in E; [|discriminate].
  destruct (icdf1 ex_pdf (0 + 1) (9 / 10)) as [[[y1 c1] f1]|] eqn:E1; cbn [bind] in E; [|discriminate].
  injection E as <- <- <- <- _.
  assert (T0 : Ztrunc (/ 2 * 2) = 1%Z) by (replace (/ 2 * 2) with 1 by lra; apply (Ztrunc_IZR 1)).
  assert (T1 : Ztrunc (9 / 10 * 2) = 1%Z) by (rewrite Ztrunc_floor by lra; apply Zfloor_imp; cbn; lra).
  assert (N0 : Reqb (/ 2) 1 = false) by (apply Reqb_false; lra).
  assert (N1 : Reqb (9 / 10) 1 = false) by (apply Reqb_false; lra).
  unfold icdf1 in E0, E1. cbn [NumR eqb one pred_one mul ofN trunc T ex_pdf pdf_bins] in E0, E1.
  rewrite N0 in E0. rewrite N1 in E1. unfold Rtrunc_N in E0, E1.
  change (IZR (Z.of_N 2)) with 2 in E0, E1. rewrite T0 in E0. rewrite T1 in E1. cbn in E0, E1.
  injection E0 as _ <- _. injection E1 as _ <- _. reflexivity.
Qed.

Lemma c17_example_float :
  float_weights_ok 53 1024 P53 M53 ex17_ws /\ canonical_ok 53 1024 P53 M53 (ex17_strm 2) /\
  unit_ho (ex17_strm 2) /\ unit_ho (zero B64).
Proof.
  unfold float_weights_ok, canonical_ok, fin_nonneg, unit_ho, ex17_ws.
  split; [split; [repeat (apply Forall_cons; [split; vm_compute; reflexivity|]); apply Forall_nil|split; vm_compute; reflexivity]|].
  split; [repeat split; vm_compute; reflexivity|]. split; vm_compute; reflexivity.
Qed.
