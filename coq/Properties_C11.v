(** C11 - a distribution bin is the integral of the integrand restricted to that bin.
    Statements only (proofs in Lemmas_C11.v).  The theorems are about the model's own [fill1d], [fill2d],
    [do_fills], [dist_result]/[acc_result], [invoke_main] (Accum.v, from accumulator.hpp / projector.hpp),
    [mid_points_x], [mid_points_y] (Result.v, from distribution_result.hpp) and [finish_call] (Iter.v).

    What is proved.
    * K := NumR (ideal arithmetic).  C11_fill1d_spec / C11_fill2d_spec: for positive bin sizes, bin counts
      that fit a size_t and a storage with the allocated number of cells, a fill never fails and either
      changes exactly the one cell whose half-open interval [min + k*size, min + (k+1)*size) contains the
      coordinate (flat index ky * bins_x + kx: x fastest, then y) by [cell_add], or - iff the coordinate
      lies outside [min, min + bins*size) on some axis - changes nothing.  C11_bins_partition: the
      intervals are disjoint and disjoint from "outside", so the bin is unique.  C11_midpoints_order: entry
      ky * bins_x + kx of mid_points_x / mid_points_y is min + (k + 1/2) * size of that same bin, and both
      lists have bins_x * bins_y entries.  C11_bin_is_restricted_sum: after all fills of an integrand call
      every cell holds the Kahan accumulation over exactly the fills that lie in its bin ([target], whose
      meaning in terms of intervals is C11_target_spec), in order, which over the reals is (sum, sum of
      squares, compensation 0, counters).  C11_bins_add_up / C11_iteration_bins (the latter for all calls of
      an iteration, each with its own point weight, [do_calls] = the iterated [do_fills] that [finish_call]
      performs: C11_finish_call_dists): the bin sums of a distribution add up to the sum of value * weight
      over everything projected inside the range, and sum_k estimate_k * area = that sum / calls.
      C11_bin_is_restricted_integrand: the reported bin (calls, area^-1 * sum, area^-2 * sum of squares) has
      the same calls, sum, sum of squares, value, variance and error as the main result of the accumulator
      ([invoke_main]) run on the integrand  f * indicator(bin) / area  with the same points and weights.
    * every Num.  C11_bin_reports_calls: every bin of every reported distribution carries the full number
      of calls of the iteration, and its sums are the cell's sums times 1/size_x/size_y and its square.
    * NumB (every binary format with emax > 64, in particular float, double, x87 long double).
      C11_fill1d_no_ub_float / C11_fill2d_no_ub_float: for a finite positive bin size and bin counts
      <= 2^64, whatever the coordinates and the value are (finite, infinite, NaN), the float -> size_t
      conversion is only reached with a value whose truncation is in [0, bins) (never UB 13 / UB 14); the
      only possible failures are the .at() exceptions of a missing distribution / cell (codes 11, 12), and
      with the allocated storage there is none.

    NOT proved: which of the two adjacent bins a floating-point coordinate within one rounding error of an
    edge goes to (the property allows either; checked by the exact rational placement search on the real
    library), and rounding of the bin sums (C14).  Non-positive, infinite or NaN bin sizes (x_max <= x_min)
    are excluded by hypothesis.  [fill1d] used on a distribution with bins_y = 0 is excluded
    ([par_ok]: bins_y >= 1).  The non-zero/finite call counters of a bin count fills, those of the
    restricted integrand count non-zero values; only calls/sums/estimate/error are claimed equal. *)
From Coq Require Import ZArith NArith Reals List.
From Flocq Require Import Core BinarySingleNaN.
From HepMC Require Import Num NumR NumB Translated Result Accum Lemmas_C11.
From HepMC Require Iter.
Import ListNotations.
Local Open Scope R_scope.

(* add_to_1d_distribution over the reals *)
Theorem C11_fill1d_spec : forall ps ds idx x v (p : dparams NumR) d,
  nthN ps idx = Some p -> 0 < d_bsx p -> (d_bx p <= two64)%N ->
  nthN ds idx = Some d -> (N.to_nat (d_bx p) <= length d)%nat ->
  exists ds', @fill1d NumR ps ds idx x v = Ok ds' /\
    ((exists k c, (k < d_bx p)%N /\ in_bin (d_xmin p) (d_bsx p) k x /\
        cell_at ds idx k = Some c /\ ds' = setN ds idx (setN d k (cell_add c v)) /\
        only_cell_changed ds ds' idx k (cell_add c v)) \/
     (outside (d_xmin p) (d_bsx p) (d_bx p) x /\ ds' = ds)).
Proof. exact c11_fill1d_spec. Qed.
Print Assumptions C11_fill1d_spec.

(* add_to_2d_distribution over the reals: flat index ky * bins_x + kx *)
Theorem C11_fill2d_spec : forall ps ds idx x y v (p : dparams NumR) d,
  nthN ps idx = Some p -> 0 < d_bsx p -> 0 < d_bsy p -> (d_bx p <= two64)%N -> (d_by p <= two64)%N ->
  nthN ds idx = Some d -> (N.to_nat (d_bx p * d_by p) <= length d)%nat ->
  exists ds', @fill2d NumR ps ds idx x y v = Ok ds' /\
    ((exists kx ky c, (kx < d_bx p)%N /\ (ky < d_by p)%N /\
        in_bin (d_xmin p) (d_bsx p) kx x /\ in_bin (d_ymin p) (d_bsy p) ky y /\
        cell_at ds idx (ky * d_bx p + kx) = Some c /\
        ds' = setN ds idx (setN d (ky * d_bx p + kx) (cell_add c v)) /\
        only_cell_changed ds ds' idx (ky * d_bx p + kx) (cell_add c v)) \/
     ((outside (d_xmin p) (d_bsx p) (d_bx p) x \/ outside (d_ymin p) (d_bsy p) (d_by p) y) /\ ds' = ds)).
Proof. exact c11_fill2d_spec. Qed.
Print Assumptions C11_fill2d_spec.

(* the half-open intervals are disjoint, and disjoint from the outside: "exactly the bin" *)
Theorem C11_bins_partition : forall lo size, 0 < size ->
  (forall k k' x, in_bin lo size k x -> in_bin lo size k' x -> k = k') /\
  (forall n k x, (k < n)%N -> in_bin lo size k x -> ~ outside lo size n x).
Proof.
  exact (fun lo size H => conj (fun k k' x => in_bin_unique lo size k k' x H)
                               (fun n k x => in_bin_not_outside lo size n k x H)).
Qed.
Print Assumptions C11_bins_partition.

(* mid-points come in the same flat order as the bins *)
Theorem C11_midpoints_order : forall d : dres NumR,
  let p := dr_par d in
  length (mid_points_x d) = N.to_nat (d_bx p * d_by p) /\
  length (mid_points_y d) = N.to_nat (d_bx p * d_by p) /\
  forall kx ky, (kx < d_bx p)%N -> (ky < d_by p)%N ->
    nth_error (mid_points_x d) (N.to_nat (ky * d_bx p + kx)) = Some (d_xmin p + (RofN kx + / 2) * d_bsx p) /\
    nth_error (mid_points_y d) (N.to_nat (ky * d_bx p + kx)) = Some (d_ymin p + (RofN ky + / 2) * d_bsy p).
Proof. exact c11_midpoints_order. Qed.
Print Assumptions C11_midpoints_order.

(* every reported bin carries the full number of calls; sums scaled by 1/size_x/size_y and its square *)
Theorem C11_bin_reports_calls : forall (K : Num) ps (a : accst K) calls j dr k b,
  nth_error (p_dists (acc_result ps a calls)) j = Some dr -> nth_error (dr_bins dr) k = Some b ->
  r_calls b = calls /\
  exists p cells c, nth_error ps j = Some p /\ nth_error (a_dists a) j = Some cells /\ nth_error cells k = Some c /\
    dr_par dr = p /\ length (dr_bins dr) = length cells /\
    b = mk_mcres calls (c_nz c) (c_fin c)
          (mul K (div K (div K (one K) (d_bsx p)) (d_bsy p)) (c_sum c))
          (mul K (mul K (div K (div K (one K) (d_bsx p)) (d_bsy p)) (div K (div K (one K) (d_bsx p)) (d_bsy p))) (c_sumsq c)).
Proof. exact (@c11_bin_reports_calls). Qed.
Print Assumptions C11_bin_reports_calls.

(* [target ps f] = the (distribution, flat bin) whose intervals contain the coordinates of the fill f *)
Theorem C11_target_spec : forall (ps : list (dparams NumR)) (f : fill NumR) j m,
  (forall p, nthN ps (fill_idx f) = Some p -> 0 < d_bsx p /\ 0 < d_bsy p) ->
  (target ps f = Some (j, m) <->
   exists p, nthN ps j = Some p /\ fill_idx f = j /\
     match f with
     | Fill1 _ x _ => (m < d_bx p)%N /\ in_bin (d_xmin p) (d_bsx p) m x
     | Fill2 _ x y _ => exists kx ky, m = (ky * d_bx p + kx)%N /\ (kx < d_bx p)%N /\ (ky < d_by p)%N /\
                          in_bin (d_xmin p) (d_bsx p) kx x /\ in_bin (d_ymin p) (d_bsy p) ky y
     end).
Proof. exact target_spec. Qed.
Print Assumptions C11_target_spec.

(* all fills of one integrand call: each cell accumulates exactly the fills lying in its bin, in order *)
Theorem C11_bin_is_restricted_sum : forall ps w ds fs, store_ok ps ds -> Forall (valid_fill ps) fs ->
  exists ds', @do_fills NumR ps w ds fs = Ok ds' /\ same_shape ds ds' /\
    forall j m c, cell_at ds j m = Some c ->
      cell_at ds' j m = Some (fold_left (@cell_add NumR) (vals_in ps w j m fs) c) /\
      (c_comp c = 0 ->
         cell_at ds' j m = Some (@mk_cell NumR (c_sum c + sumR (vals_in ps w j m fs))
                                   (c_sumsq c + sumR (map (fun v => v * v) (vals_in ps w j m fs))) 0
                                   (c_nz c + N.of_nat (length (vals_in ps w j m fs)))
                                   (c_fin c + N.of_nat (length (vals_in ps w j m fs))))).
Proof. exact c11_bin_is_restricted_sum. Qed.
Print Assumptions C11_bin_is_restricted_sum.

(* ... and the bin sums of each distribution grow by the sum over the fills inside its range *)
Theorem C11_bins_add_up : forall ps w ds fs, store_ok ps ds -> Forall (valid_fill ps) fs ->
  (forall j m c, cell_at ds j m = Some c -> c_comp c = 0) ->
  exists ds', @do_fills NumR ps w ds fs = Ok ds' /\
    forall j cells, nthN ds j = Some cells ->
      exists cells', nthN ds' j = Some cells' /\ length cells' = length cells /\
        sumR (map (@c_sum NumR) cells') = sumR (map (@c_sum NumR) cells) + sumR (vals_inside ps w j fs).
Proof. exact c11_bins_add_up. Qed.
Print Assumptions C11_bins_add_up.

(* all calls of an iteration (each with its own weight and fills) *)
Theorem C11_iteration_bins : forall ps ds cs,
  store_ok ps ds -> Forall (fun c => Forall (valid_fill ps) (snd c)) cs ->
  exists ds', do_calls ps ds cs = Ok ds' /\ same_shape ds ds' /\
    (forall j m c, cell_at ds j m = Some c ->
       cell_at ds' j m = Some (fold_left (@cell_add NumR) (calls_vals_in ps j m cs) c) /\
       (c_comp c = 0 ->
          cell_at ds' j m = Some (@mk_cell NumR (c_sum c + sumR (calls_vals_in ps j m cs))
                                    (c_sumsq c + sumR (map (fun v => v * v) (calls_vals_in ps j m cs))) 0
                                    (c_nz c + N.of_nat (length (calls_vals_in ps j m cs)))
                                    (c_fin c + N.of_nat (length (calls_vals_in ps j m cs)))))) /\
    ((forall j m c, cell_at ds j m = Some c -> c_comp c = 0) ->
     forall j cells p, nthN ds j = Some cells -> nthN ps j = Some p ->
       exists cells', nthN ds' j = Some cells' /\ length cells' = length cells /\
         sumR (map (@c_sum NumR) cells') = sumR (map (@c_sum NumR) cells) + sumR (calls_vals_inside ps j cs) /\
         forall calls,
           sumR (map (fun c => @value NumR (bin_report calls p c) * (d_bsx p * d_bsy p)) cells')
           = (sumR (map (@c_sum NumR) cells) + sumR (calls_vals_inside ps j cs)) / RofN calls).
Proof. exact c11_iteration_bins. Qed.
Print Assumptions C11_iteration_bins.

(* [do_calls] is what every integrand call does to the distribution storage (every numeric type) *)
Theorem C11_finish_call_dists : forall (K : Num) (ps : list (dparams K)) (s : Iter.itst K) o r a v,
  Iter.finish_call ps s o r = Ok (a, v) ->
  do_fills ps (Iter.o_weight o) (a_dists (Iter.it_acc s)) (Iter.i_fills r) = Ok (a_dists a).
Proof. exact (@finish_call_dists). Qed.
Print Assumptions C11_finish_call_dists.

(* the bin result = the main result of integrating  f * indicator(bin) / area  with the same points *)
Theorem C11_bin_is_restricted_integrand : forall calls (p : dparams NumR) (cs : list (R * R * bool)),
  0 < d_bsx p -> 0 < d_bsy p ->
  let b := bin_report calls p (bin_cell cs) in
  let r := cell_result calls (restricted_main_cell (d_bsx p * d_bsy p) cs) in
  r_calls b = calls /\ r_calls r = calls /\ r_sum b = r_sum r /\ r_sumsq b = r_sumsq r /\
  @value NumR b = @value NumR r /\ @variance NumR b = @variance NumR r /\ @error NumR b = @error NumR r.
Proof. exact c11_bin_is_restricted_integrand. Qed.
Print Assumptions C11_bin_is_restricted_integrand.

(* IEEE formats: the float -> size_t conversion of a bin position is never undefined *)
Theorem C11_fill1d_no_ub_float : forall prec emax (Hprec : FLX.Prec_gt_0 prec) (Hmax : Prec_lt_emax prec emax),
  (64 < emax)%Z ->
  forall (ps : list (dparams (NumB prec emax Hprec Hmax))) ds idx (x v : NumB prec emax Hprec Hmax) p,
  nthN ps idx = Some p -> size_ok prec emax (d_bsx p) -> (d_bx p <= two64)%N ->
  (forall c, @fill1d (NumB prec emax Hprec Hmax) ps ds idx x v = UB c -> c = 11%nat \/ c = 12%nat) /\
  (forall d, nthN ds idx = Some d -> (N.to_nat (d_bx p) <= length d)%nat ->
     exists ds', @fill1d (NumB prec emax Hprec Hmax) ps ds idx x v = Ok ds').
Proof. exact c11_fill1d_no_ub_float. Qed.
Print Assumptions C11_fill1d_no_ub_float.

Theorem C11_fill2d_no_ub_float : forall prec emax (Hprec : FLX.Prec_gt_0 prec) (Hmax : Prec_lt_emax prec emax),
  (64 < emax)%Z ->
  forall (ps : list (dparams (NumB prec emax Hprec Hmax))) ds idx (x y v : NumB prec emax Hprec Hmax) p,
  nthN ps idx = Some p -> size_ok prec emax (d_bsx p) -> size_ok prec emax (d_bsy p) ->
  (d_bx p <= two64)%N -> (d_by p <= two64)%N ->
  (forall c, @fill2d (NumB prec emax Hprec Hmax) ps ds idx x y v = UB c -> c = 11%nat \/ c = 12%nat) /\
  (forall d, nthN ds idx = Some d -> (N.to_nat (d_bx p * d_by p) <= length d)%nat ->
     exists ds', @fill2d (NumB prec emax Hprec Hmax) ps ds idx x y v = Ok ds').
Proof. exact c11_fill2d_no_ub_float. Qed.
Print Assumptions C11_fill2d_no_ub_float.

(* non-vacuity: a 4 x 2 and a 4-bin distribution on [0,2); edges, inside, outside *)
Example C11_example_target :
  let ps := [ex_p2; ex_p1] in
  store_ok ps (a_dists (@acc_init NumR ps)) /\
  target ps (@Fill2 NumR 0 (7 / 10) (3 / 2) 5) = Some (0%N, 5%N) /\
  target ps (@Fill1 NumR 1 0 5) = Some (1%N, 0%N) /\
  target ps (@Fill1 NumR 1 (1 / 2) 5) = Some (1%N, 1%N) /\
  target ps (@Fill1 NumR 1 2 5) = None /\
  target ps (@Fill1 NumR 1 (-1) 5) = None.
Proof. exact c11_example_target. Qed.

Example C11_example_fill1d :
  let ps := [ex_p2; ex_p1] in
  exists d c, nthN ps 1 = Some ex_p1 /\ nthN (a_dists (@acc_init NumR ps)) 1 = Some d /\
    (N.to_nat (d_bx ex_p1) <= length d)%nat /\ in_bin (d_xmin ex_p1) (d_bsx ex_p1) 1 (7 / 10) /\
    cell_at (a_dists (@acc_init NumR ps)) 1 1 = Some c /\
    @fill1d NumR ps (a_dists (acc_init ps)) 1 (7 / 10) 3 = Ok (setN (a_dists (acc_init ps)) 1 (setN d 1 (cell_add c 3))).
Proof. exact c11_example_fill1d. Qed.

Example C11_example_add_up :
  let ps := [ex_p1] in
  let cs := [(2, [@Fill1 NumR 0 (7 / 10) 5]); (1, [@Fill1 NumR 0 3 1; @Fill1 NumR 0 (1 / 10) 4])] in
  store_ok ps (a_dists (@acc_init NumR ps)) /\ Forall (fun c => Forall (valid_fill ps) (snd c)) cs /\
  (forall j m c, cell_at (a_dists (@acc_init NumR ps)) j m = Some c -> c_comp c = 0) /\
  exists ds' cells', do_calls ps (a_dists (acc_init ps)) cs = Ok ds' /\ nthN ds' 0 = Some cells' /\
    sumR (map (@c_sum NumR) cells') = 14 /\
    cell_at ds' 0 1 = Some (@mk_cell NumR 10 100 0 1 1) /\ cell_at ds' 0 0 = Some (@mk_cell NumR 4 16 0 1 1).
Proof. exact c11_example_add_up. Qed.

Example C11_example_float : forall x v : B64,
  size_ok 53 1024 (d_bsx ex_pB) /\
  exists ds', @fill1d B64 [ex_pB] (a_dists (@acc_init B64 [ex_pB])) 0 x v = Ok ds'.
Proof. exact c11_example_float. Qed.
