(** C02f - the per-bin specification of the VEGAS adjustment data (property C02) made UNCONDITIONAL for
    IEEE formats.  Statements only (definitions and proofs in Lemmas_C02f.v).

    Background.  [C02_vegas_adjustment] (Properties_C02.v, every [Num]) says: entry i of the adjustment vector
    is the fold of [add (v*v)] over the (call, dimension j) pairs with j*bins + bin_j = i, and IF every bin index
    reported by the inverse CDF is below the bin count THEN entry j*bins + b is the fold over the calls whose bin
    in dimension j is b ([vegas_adj_bin]); without that hypothesis the per-bin reading is false (an out-of-range
    index of dimension j spills, unchecked, into the next dimension's bins).
    Here the hypothesis is discharged for K := NumB prec emax (Flocq's IEEE-754 binary format, every format with
    prec >= 2: float, double, x87 long double, ...) from hypotheses on the INPUTS of the iteration only.  This is a
    composition of existing theorems: C02_vegas_adjustment, C17_protocol_vegas (which stream entries are mapped),
    C07g_icdf_points_in_bins / C07f (the index computed in IEEE arithmetic is below the bin count).

    Hypotheses (all in the model's own operations of the format):
    - [grid_ok p] (Lemmas_C17f.v): 1 <= bins, bins < 2^prec, bins < 2^64, and for every dimension d < pdf_dims p
      [slice_ok p d] (Lemmas_C07g.v): each bin has both boundaries, finite, with 0 <= left <= right <= 1;
    - every stream entry is [unit_closed] (Lemmas_C07f.v): finite with 0 <= u <= 1 (exactly 1 is allowed: the
      library clamps it to the predecessor of 1);
    - the iteration returns [Ok] (whether it does also depends on the integrand's projector fills - C11).

    WHAT IS PROVED
    - [C02f_bins_in_range]: every call hands the adjustment code exactly pdf_dims bin indices, each < bins
      ([bins_in_range p c]: length (fst c) = pdf_dims p /\ Forall (fun b => b < pdf_bins p) (fst c), for every
      c = (bins of the call, sanitised value) in [vcalls f evs]).
    - [C02f_hypothesis_of_C02]: hence the hypothesis of C02_vegas_adjustment, literally.
    - [C02f_every_call_one_bin]: for every call and every dimension j < pdf_dims there is exactly one reported bin
      b = nthN bins j, and b < bins (so [vegas_adj_bin] never takes its "no bin" branch).
    - [C02f_vegas_adjustment_per_bin]: the adjustment vector has dims*bins entries; entry j*bins + b is
      [vegas_adj_bin j b (vcalls f evs) zero] = the fold, in call order and from 0, of [add (v*v)] (v the sanitised
      value f*w, or 0 if that is not finite) over the calls whose bin in dimension j is b; equivalently entry i is
      [vegas_adj_bin (i / bins) (i mod bins) ...] for every i < dims*bins.  Bit for bit: no rounding-error claim,
      the statement is the exact fold in the format's own [add] / [mul].

    WHAT IS NOT PROVED
    - Nothing for grids violating [grid_ok] or streams leaving [0,1] (then C02_vegas_adjustment's flat statement
      is what holds); that refinement preserves [grid_ok] is C07/C08's subject.
    - Absence of undefined behaviour of the whole iteration (only of the inverse CDF, see C17f_icdf_unit). *)
From Coq Require Import ZArith NArith List Bool.
From Flocq Require Import Core BinarySingleNaN.
From HepMC Require Import Num NumB Translated Result Accum VegasPdf Discrete MultiChannel Iter
  Lemmas_Run Lemmas_C02 Lemmas_C07f Lemmas_C07g Lemmas_C17f Lemmas_C02f.
Import ListNotations.

Theorem C02f_bins_in_range :
  forall (prec emax : Z) (Hprec : FLX.Prec_gt_0 prec) (Hmax : Prec_lt_emax prec emax), (2 <= prec)%Z ->
  forall (strm : N -> NumB prec emax Hprec Hmax) ps (f : integrand (NumB prec emax Hprec Hmax))
         (p : pdf (NumB prec emax Hprec Hmax)) calls g idx r g' idx' evs,
    grid_ok prec emax Hprec Hmax p -> (forall n, unit_closed prec emax Hprec Hmax (strm n)) ->
    vegas_iteration strm ps f p calls g idx = Ok (r, g', idx', evs) ->
    Forall (bins_in_range prec emax Hprec Hmax p) (vcalls f evs).
Proof. exact c02f_bins_in_range. Qed.
Print Assumptions C02f_bins_in_range.

Theorem C02f_hypothesis_of_C02 :
  forall (prec emax : Z) (Hprec : FLX.Prec_gt_0 prec) (Hmax : Prec_lt_emax prec emax), (2 <= prec)%Z ->
  forall (strm : N -> NumB prec emax Hprec Hmax) ps (f : integrand (NumB prec emax Hprec Hmax))
         (p : pdf (NumB prec emax Hprec Hmax)) calls g idx r g' idx' evs,
    grid_ok prec emax Hprec Hmax p -> (forall n, unit_closed prec emax Hprec Hmax (strm n)) ->
    vegas_iteration strm ps f p calls g idx = Ok (r, g', idx', evs) ->
    Forall (fun c => Forall (fun b => (b < pdf_bins p)%N) (fst c)) (vcalls f evs).
Proof. exact c02f_hypothesis_of_C02. Qed.
Print Assumptions C02f_hypothesis_of_C02.

Theorem C02f_every_call_one_bin :
  forall (prec emax : Z) (Hprec : FLX.Prec_gt_0 prec) (Hmax : Prec_lt_emax prec emax)
         (p : pdf (NumB prec emax Hprec Hmax)) (c : list N * NumB prec emax Hprec Hmax) (j : N),
    bins_in_range prec emax Hprec Hmax p c -> (j < pdf_dims p)%N ->
    exists b, nthN (fst c) j = Some b /\ (b < pdf_bins p)%N.
Proof. exact bins_in_range_nth. Qed.
Print Assumptions C02f_every_call_one_bin.

Theorem C02f_vegas_adjustment_per_bin :
  forall (prec emax : Z) (Hprec : FLX.Prec_gt_0 prec) (Hmax : Prec_lt_emax prec emax), (2 <= prec)%Z ->
  forall (strm : N -> NumB prec emax Hprec Hmax) ps (f : integrand (NumB prec emax Hprec Hmax))
         (p : pdf (NumB prec emax Hprec Hmax)) calls g idx r g' idx' evs,
    grid_ok prec emax Hprec Hmax p -> (forall n, unit_closed prec emax Hprec Hmax (strm n)) ->
    vegas_iteration strm ps f p calls g idx = Ok (r, g', idx', evs) ->
    length (v_adj r) = N.to_nat (pdf_dims p * pdf_bins p) /\
    Forall (bins_in_range prec emax Hprec Hmax p) (vcalls f evs) /\
    (forall j b, (j < pdf_dims p)%N -> (b < pdf_bins p)%N ->
       nthN (v_adj r) (j * pdf_bins p + b) =
       Some (vegas_adj_bin j b (vcalls f evs) (zero (NumB prec emax Hprec Hmax)))) /\
    (forall i, (i < pdf_dims p * pdf_bins p)%N ->
       nthN (v_adj r) i =
       Some (vegas_adj_bin (i / pdf_bins p) (i mod pdf_bins p) (vcalls f evs) (zero (NumB prec emax Hprec Hmax)))).
Proof. exact c02f_vegas_adjustment_per_bin. Qed.
Print Assumptions C02f_vegas_adjustment_per_bin.

(** Non-vacuity (single precision, values through the wire representation [Bout]): the starting grid
    uniform_pdf 2 3, the closed stream 0, 1/4, 1/2, 3/4, 1, 0, ... and the integrand x0 + x1 satisfy the
    hypotheses; 5 calls return Ok.  The six adjustment entries (dimension-major) and the six per-bin folds
    [vegas_adj_bin j b], computed independently, are the same six floats; e.g. entry (0,0) = 1/16 + 9/16 = 5/8
    from the first and the fourth call, whose first coordinates 0 and 1/4 lie in bin 0. *)
Example C02f_example :
  grid_ok 24 128 P24 M24 ex07f_p /\ (forall n, unit_closed 24 128 P24 M24 (ex17f_strm n)) /\
  exists r g' idx' evs,
    vegas_iteration ex17f_strm [] ex17f_f ex07f_p 5 0 0 = Ok (r, g', idx', evs) /\
    map (Bout 24 128) (v_adj r) =
      [OFin false 10485760 (-24); OFin false 13107198 (-23); OFin false 8519677 (-21);
       OFin false 8912893 (-23); OFin false 9437184 (-24); OFin false 9699325 (-21)] /\
    map (fun jb => Bout 24 128 (vegas_adj_bin (fst jb) (snd jb) (vcalls ex17f_f evs) (zero B32)))
        [(0, 0); (0, 1); (0, 2); (1, 0); (1, 1); (1, 2)]%N =
      [OFin false 10485760 (-24); OFin false 13107198 (-23); OFin false 8519677 (-21);
       OFin false 8912893 (-23); OFin false 9437184 (-24); OFin false 9699325 (-21)].
Proof. exact c02f_example. Qed.
