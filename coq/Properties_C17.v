(** C17 - integrand and channel map are called under the documented protocol.
    Statements only (proofs in Lemmas_C17.v).

    The model records, per iteration, the list of events [EvMapCoords ch us en], [EvIntegrand o wants],
    [EvMapDens ch us coords en] in the order in which the calls are made (Iter.v); [C17_run_events] says that
    the events of every iteration of a whole run (hep::plain / vegas / multi_channel, any checkpoint, any
    callback) are the events of one [*_iteration], so the statements below cover complete runs.

    WHAT IS PROVED
    * [C17_protocol_plain], [C17_protocol_vegas] (every Num, every integrand, any stream): an iteration with
      N calls produces exactly N events; the i-th is one integrand call whose call counter is idx + i.  PLAIN:
      the point is the list of the d stream entries at positions g + i*d ... g + i*d + d - 1, weight one.
      VEGAS: point, bins and weight are [icdf p] of the dims stream entries at g + i*dims ....
    * [C17_protocol_mc] (every Num): the event list is the concatenation over the calls i = 0..N-1 of
        [EvMapCoords ch us en; EvIntegrand o wants] ++ k copies of [EvMapDens ch us coords en]
      where us = the d stream entries at g + i*(d+1) ..., ch = [select ws] of the (d+1)-th entry, en =
      [enabled ws], coords = what the map returned for (ch, us, en) - the same value is shown to the integrand
      ([o_coords]) and handed back to the density request: the model threads the buffers functionally, so
      "same buffers, untouched in between" is the statement that all three occurrences are the same term -
      and the weight shown to the integrand is jacobian / sum_j ws_j dens_j of the map's densities.
      k = [dens_calls w (weight_requests r w)], exactly as Iter.v computes it.
    * [C17_density_requests] (every Num): k = 0 iff the integrand's value compares equal to zero AND the
      integrand did not ask for the weight AND made no projector fill (a fill multiplies by the weight);
      i.e. densities are requested only if the value is non-zero (a NaN value counts as non-zero) or the
      integrand itself requested the weight.  k <= 1 whenever the computed weight does not compare equal
      to zero (it is cached).  NOT "at most once" in general: multi_channel_point2::weight() uses the value
      zero as its "not yet computed" marker, so a weight that IS zero (zero jacobian) is recomputed - and the
      map asked again - on every request (at most fills + 3 times); see the fourth call of [C17_example_mc].
      The property text only restricts WHEN densities are asked, which holds.
    * [C17_enabled_spec] (every Num): [enabled ws] is the strictly increasing list of exactly the indices
      i < length ws with ws_i != 0 (a NaN weight counts as enabled, as in the C++).
    * [C17_unit_interval_plain], [C17_unit_interval_mc] (every Num, hence every NumB format): the random
      engine is abstract in Iter.v (a stream of canonical numbers), so the statement is conditional: for ANY
      predicate P that holds for all stream entries - in particular [unit_ho u]: 0 <= u && u < 1 with the
      type's own comparisons - every PLAIN coordinate and every number handed to the channel map (in both
      kinds of map call, and in the integrand's point) satisfies P, and there are exactly d of them.  That the
      harness's generate_canonical stays inside [0,1) is part of the correspondence check (C10/C17 tie).
    * [C17_icdf_unit], [C17_unit_interval_vegas] (NumR): for a valid grid ([grid_valid]: bins + 1 boundaries
      per dimension, 1 <= bins < 2^64, from 0 to 1, non-decreasing) and numbers in [0,1), [icdf] is defined
      (no undefined behaviour) and every coordinate x_i lies in [g_b, g_{b+1}] of ITS dimension with b < bins,
      hence in the CLOSED interval [0,1]; and so for every event of an iteration.
    * [C17_channel_enabled_R], [C17_channel_enabled_float], [C17_mc_channel_enabled_R],
      [C17_mc_channel_enabled_float]: the selected channel is a member of the enabled list - over the reals for
      non-negative weights with positive sum and u in [0,1); in every IEEE format under C09's hypotheses
      (finite non-negative weights with finite positive sum, finite u with 0 <= u < 1); and so for every map
      call of an iteration.  These rest on Lemmas_C09 (selection never picks a zero weight).

    WHAT IS NOT PROVED
    * VEGAS bins/coordinates in floating point (C07's index_lt_bins is the NumB counterpart); over the
      reals u = 1 is excluded (the nexttoward clamp has no real counterpart).
    * Density requests made by the integrand happen DURING the integrand call; the model lists them after the
      [EvIntegrand] event (which marks the start of the call) - order among themselves is immaterial as all
      carry identical arguments.
    * Nothing about user maps that violate their contract (outputs depending on anything but the inputs). *)
From Coq Require Import ZArith NArith List Bool Reals Sorted.
From Flocq Require Import Core BinarySingleNaN.
From HepMC Require Import Num NumR NumB Translated Result Accum VegasPdf Discrete MultiChannel Iter Chkpt Callback Run
  Lemmas_Run Lemmas_C01 Lemmas_C09 Lemmas_C17.
Import ListNotations.

Theorem C17_protocol_plain : forall (K : Num) (strm : N -> K) ps f d calls g idx r g' idx' tr,
  plain_iteration strm ps f d calls g idx = Ok (r, g', idx', tr) ->
  length tr = N.to_nat calls /\
  forall i, (i < N.to_nat calls)%nat ->
    nth_error tr i = Some (EvIntegrand (mk_obs (idx + N.of_nat i)
                                               (draws strm (g + N.of_nat i * N.of_nat d) d) (one K) [] 0%N []) true).
Proof. exact (@c17_protocol_plain). Qed.
Print Assumptions C17_protocol_plain.

Theorem C17_protocol_vegas : forall (K : Num) (strm : N -> K) ps f p calls g idx r g' idx' tr,
  vegas_iteration strm ps f p calls g idx = Ok (r, g', idx', tr) ->
  length tr = N.to_nat calls /\
  forall i, (i < N.to_nat calls)%nat ->
    exists e, nth_error tr i = Some e /\
      exists xs bs w,
        icdf p (draws strm (g + N.of_nat i * pdf_dims p) (N.to_nat (pdf_dims p))) = Ok (xs, bs, w) /\
        e = EvIntegrand (mk_obs (idx + N.of_nat i) xs w bs 0%N []) true.
Proof. exact (@c17_protocol_vegas). Qed.
Print Assumptions C17_protocol_vegas.

Theorem C17_protocol_mc : forall (K : Num) (strm : N -> K) ps f mp d ws calls g idx r g' idx' tr,
  mc_iteration strm ps f mp d ws calls g idx = Ok (r, g', idx', tr) ->
  exists evss, tr = concat evss /\ length evss = N.to_nat calls /\
    forall i, (i < N.to_nat calls)%nat ->
      exists evs, nth_error evss i = Some evs /\
        let gi := (g + N.of_nat i * (N.of_nat d + 1))%N in
        let us := draws strm gi d in
        let ch := select ws (strm (gi + N.of_nat d)%N) in
        let en := enabled ws in
        let coords := m_coords mp (idx + N.of_nat i) ch us en in
        exists jac dens w,
          m_dens mp (idx + N.of_nat i) ch us coords en = (jac, dens) /\ mc_weight jac ws dens = Ok w /\
          let o := mk_obs (idx + N.of_nat i) us w [] ch coords in
          evs = EvMapCoords ch us en :: EvIntegrand o (i_wants (f o))
                :: repeat (EvMapDens ch us coords en) (dens_calls w (weight_requests (f o) w)).
Proof. exact (@c17_protocol_mc). Qed.
Print Assumptions C17_protocol_mc.

Theorem C17_density_requests : forall (K : Num) (r : iret K) (w : K),
  let k := dens_calls w (weight_requests r w) in
  (k = 0%nat <-> i_fills r = [] /\ i_wants r = false /\ eqb K (i_val r) (zero K) = true) /\
  (eqb K w (zero K) = false -> (k <= 1)%nat) /\
  (k <= length (i_fills r) + 3)%nat.
Proof. exact (@c17_density_requests). Qed.
Print Assumptions C17_density_requests.

Theorem C17_enabled_spec : forall (K : Num) (ws : list K),
  (forall i, In i (enabled ws) <->
     (i < N.of_nat (length ws))%N /\ neqb (nth (N.to_nat i) ws (zero K)) (zero K) = true) /\
  StronglySorted N.lt (enabled ws).
Proof. exact (@c17_enabled_spec). Qed.
Print Assumptions C17_enabled_spec.

Theorem C17_run_events : forall (K : Num) (L : Libm K) strm ps f mp,
  (forall d cb cs c idx c' idx' ls, plain_run strm ps f d cb cs c idx = Ok (c', idx', ls) ->
     forall l, In l ls -> exists calls g i r g' i',
       plain_iteration strm ps f d calls g i = Ok (r, g', i', il_events l)) /\
  (forall d cb cs c idx c' idx' ls, vegas_run L strm ps f d cb cs c idx = Ok (c', idx', ls) ->
     forall l, In l ls -> exists p calls g i r g' i',
       vegas_iteration strm ps f p calls g i = Ok (r, g', i', il_events l) /\ v_pdf r = p) /\
  (forall d channels cb cs c idx c' idx' ls, mc_run L strm ps f mp d channels cb cs c idx = Ok (c', idx', ls) ->
     forall l, In l ls -> exists ws calls g i r g' i',
       mc_iteration strm ps f mp d ws calls g i = Ok (r, g', i', il_events l) /\ m_weights r = ws).
Proof. exact (@c17_run_events). Qed.
Print Assumptions C17_run_events.

Theorem C17_unit_interval_plain : forall (K : Num) (strm : N -> K) ps f (P : K -> Prop) d calls g idx r g' idx' tr,
  (forall n, P (strm n)) ->
  plain_iteration strm ps f d calls g idx = Ok (r, g', idx', tr) ->
  Forall (fun e => exists o, e = EvIntegrand o true /\ length (o_point o) = d /\ Forall P (o_point o) /\
                             o_weight o = one K) tr.
Proof. exact (@c17_unit_interval_plain). Qed.
Print Assumptions C17_unit_interval_plain.

Theorem C17_unit_interval_mc : forall (K : Num) (strm : N -> K) ps f mp (P : K -> Prop) d ws calls g idx r g' idx' tr,
  (forall n, P (strm n)) ->
  mc_iteration strm ps f mp d ws calls g idx = Ok (r, g', idx', tr) ->
  Forall (fun e => match e with
                   | EvMapCoords _ us _ => length us = d /\ Forall P us
                   | EvIntegrand o _ => length (o_point o) = d /\ Forall P (o_point o)
                   | EvMapDens _ us _ _ => length us = d /\ Forall P us
                   end) tr.
Proof. exact (@c17_unit_interval_mc). Qed.
Print Assumptions C17_unit_interval_mc.

(* the instance the property text names, for every IEEE format: half-open unit interval *)
Theorem C17_unit_interval : forall prec emax (Hprec : FLX.Prec_gt_0 prec) (Hmax : Prec_lt_emax prec emax),
  let KB := NumB prec emax Hprec Hmax in
  forall (strm : N -> KB) ps f mp, (forall n, unit_ho (strm n)) ->
  (forall d calls g idx r g' idx' tr, plain_iteration strm ps f d calls g idx = Ok (r, g', idx', tr) ->
     Forall (fun e => exists o, e = EvIntegrand o true /\ length (o_point o) = d /\ Forall unit_ho (o_point o) /\
                                o_weight o = one KB) tr) /\
  (forall d ws calls g idx r g' idx' tr, mc_iteration strm ps f mp d ws calls g idx = Ok (r, g', idx', tr) ->
     Forall (fun e => match e with
                      | EvMapCoords _ us _ => length us = d /\ Forall unit_ho us
                      | EvIntegrand o _ => length (o_point o) = d /\ Forall unit_ho (o_point o)
                      | EvMapDens _ us _ _ => length us = d /\ Forall unit_ho us
                      end) tr).
Proof. exact c17_unit_interval_float. Qed.
Print Assumptions C17_unit_interval.

Theorem C17_icdf_unit : forall (p : pdf NumR) (us : list R), grid_valid p ->
  length us = N.to_nat (pdf_dims p) -> Forall (fun u => (0 <= u < 1)%R) us ->
  exists xs bs w, icdf p us = Ok (xs, bs, w) /\ point_in_bins p xs bs.
Proof. exact c17_icdf_unit. Qed.
Print Assumptions C17_icdf_unit.

Theorem C17_unit_interval_vegas : forall (strm : N -> R) ps f (p : pdf NumR) calls g idx r g' idx' tr,
  grid_valid p -> (forall n, (0 <= strm n < 1)%R) ->
  @vegas_iteration NumR strm ps f p calls g idx = Ok (r, g', idx', tr) ->
  Forall (fun e : event NumR => exists o : obs NumR, e = EvIntegrand o true /\ point_in_bins p (o_point o) (o_bins o)) tr.
Proof. exact c17_unit_interval_vegas. Qed.
Print Assumptions C17_unit_interval_vegas.

Theorem C17_channel_enabled_R : forall (ws : list R) (u : R),
  nonneg ws -> (0 < Rsum ws)%R -> (0 <= u < 1)%R -> In (@select NumR ws u) (@enabled NumR ws).
Proof. exact c17_channel_enabled_R. Qed.
Print Assumptions C17_channel_enabled_R.

Theorem C17_channel_enabled_float : forall prec emax (Hprec : FLX.Prec_gt_0 prec) (Hmax : Prec_lt_emax prec emax)
  (ws : list (NumB prec emax Hprec Hmax)) (u : NumB prec emax Hprec Hmax),
  float_weights_ok prec emax Hprec Hmax ws -> canonical_ok prec emax Hprec Hmax u ->
  In (@select (NumB prec emax Hprec Hmax) ws u) (@enabled (NumB prec emax Hprec Hmax) ws).
Proof. exact c17_channel_enabled_float. Qed.
Print Assumptions C17_channel_enabled_float.

Theorem C17_mc_channel_enabled_R : forall (strm : N -> R) ps f mp d (ws : list R) calls g idx r g' idx' tr,
  nonneg ws -> (0 < Rsum ws)%R -> (forall n, (0 <= strm n < 1)%R) ->
  @mc_iteration NumR strm ps f mp d ws calls g idx = Ok (r, g', idx', tr) ->
  Forall (@channel_enabled_event NumR) tr.
Proof. exact c17_mc_channel_enabled_R. Qed.
Print Assumptions C17_mc_channel_enabled_R.

Theorem C17_mc_channel_enabled_float : forall prec emax (Hprec : FLX.Prec_gt_0 prec) (Hmax : Prec_lt_emax prec emax)
  (strm : N -> NumB prec emax Hprec Hmax) ps f mp d (ws : list (NumB prec emax Hprec Hmax)) calls g idx r g' idx' tr,
  float_weights_ok prec emax Hprec Hmax ws -> (forall n, canonical_ok prec emax Hprec Hmax (strm n)) ->
  @mc_iteration (NumB prec emax Hprec Hmax) strm ps f mp d ws calls g idx = Ok (r, g', idx', tr) ->
  Forall (@channel_enabled_event (NumB prec emax Hprec Hmax)) tr.
Proof. exact c17_mc_channel_enabled_float. Qed.
Print Assumptions C17_mc_channel_enabled_float.

(* non-vacuity: a real 5-call multi-channel iteration in double precision, three channels with the middle one
   disabled.  Event codes (kind, channel) with kind 0 = coordinates, 1 = integrand, 2 = densities: one
   density request for a non-zero value, none for a zero value without request, one when the integrand asks,
   two when the weight itself is zero, and the enabled list [0; 2]; 15 stream entries consumed *)
Example C17_example_mc :
  ex17_codes = Some (15, 5,
    [(0, 2); (1, 2); (2, 2);   (0, 2); (1, 2);   (0, 2); (1, 2); (2, 2);
     (0, 2); (1, 2); (2, 2); (2, 2);   (0, 0); (1, 0); (2, 0)], [0; 2])%N.
Proof. exact c17_example_mc. Qed.

(* a valid non-uniform 2 x 2 grid, a stream in [0,1), admissible weights; and icdf on it *)
Example C17_example_R :
  grid_valid ex_pdf /\ (forall n : N, (0 <= (fun _ => / 2) n < 1)%R) /\
  nonneg [0; 1; 0; 3; 0]%R /\ (0 < Rsum [0; 1; 0; 3; 0])%R /\
  (exists xs bs w, @icdf NumR ex_pdf [/ 2; 9 / 10]%R = Ok (xs, bs, w) /\ bs = [1; 1]%N /\ point_in_bins ex_pdf xs bs).
Proof. exact c17_example_R. Qed.

Example C17_example_float :
  float_weights_ok 53 1024 P53 M53 ex17_ws /\ canonical_ok 53 1024 P53 M53 (ex17_strm 2) /\
  unit_ho (ex17_strm 2) /\ unit_ho (zero B64).
Proof. exact c17_example_float. Qed.
