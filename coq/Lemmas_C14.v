(** * Lemmas for C14: compensated (Kahan) summation in [accumulate] does not lose accuracy.

    Layers:
    1. [NumR]: the translated [accumulate] is exact (sum = mathematical sum, compensation = 0).
    2. Standard model of rounded addition / subtraction ([fl (a op b) = (a op b) (1 + d)], [|d| <= u],
       [u <= 1/64]): one-step invariant [kstep_bounds] and, by list induction, the bound
       [|s_n - sum x| <= (7 u + 20 n u^2) * sum |x|] as long as [n u <= 1].
    3. [NumB prec emax] (Flocq IEEE formats, round to nearest even): rounded [+]/[-] of finite operands
       satisfy the standard model with [u = 2^-prec] with NO underflow term; hence the bound holds for
       the real values of the floats computed by [accumulate (NumB ...)], either when all intermediate
       results are finite or when [4 * sum |x| < 2^emax] (which implies that nothing overflows).
    4. A concrete B64 example where plain summation drops terms and [accumulate] keeps them.

    The sum of squares is a plain running sum in the code; nothing is claimed about its accuracy. *)
From Coq Require Import ZArith NArith Reals Lra Lia List Psatz Bool.
From Flocq Require Import Core BinarySingleNaN Relative Plus_error.
From HepMC Require Import Num NumR NumB Translated Accum.
Import ListNotations.
Local Open Scope R_scope.

(** ** The iteration of [accumulate] over a sequence of sampled values *)

Definition acc_step (K : Num) (st : K * K * K) (x : K) : K * K * K :=
  let '(s, ss, c) := st in accumulate K s ss c x.

(* (sum, sum_of_squares, compensation) after adding the values [xs] to a fresh accumulator *)
Definition acc_run (K : Num) (xs : list K) : K * K * K :=
  fold_left (acc_step K) xs (zero K, zero K, zero K).

Definition run_sum {K : Num} (st : K * K * K) : K := fst (fst st).
Definition run_comp {K : Num} (st : K * K * K) : K := snd st.

(* the accumulator cells of Accum.v (main accumulator and every distribution bin) are updated only by
   [cell_add], which is [accumulate] plus two counters *)
Definition cell_state {K : Num} (c : cell K) : K * K * K := (c_sum c, c_sumsq c, c_comp c).

Lemma cell_add_state (K : Num) (c : cell K) (v : K) :
  cell_state (cell_add c v) = acc_step K (cell_state c) v.
Proof. unfold cell_add, cell_state, acc_step, accumulate. reflexivity. Qed.

Lemma cell_fold_state (K : Num) (xs : list K) (c : cell K) :
  cell_state (fold_left cell_add xs c) = fold_left (acc_step K) xs (cell_state c).
Proof.
  revert c. induction xs as [|x xs IH]; intros c; [reflexivity|].
  cbn [fold_left]. rewrite IH, cell_add_state. reflexivity.
Qed.

Lemma cell_run (K : Num) (xs : list K) :
  cell_state (fold_left cell_add xs (@cell0 K)) = acc_run K xs.
Proof. unfold acc_run. rewrite cell_fold_state. reflexivity. Qed.

Lemma cell_run_sum (K : Num) (xs : list K) :
  c_sum (fold_left cell_add xs (@cell0 K)) = run_sum (acc_run K xs).
Proof. rewrite <- cell_run. reflexivity. Qed.

(* a distribution bin is touched only through [cell_add] on the addressed cell *)
Lemma set_nth_nth_error {A} (l : list A) i a :
  (i < length l)%nat -> nth_error (set_nth l i a) i = Some a.
Proof.
  revert i. induction l as [|x l IH]; intros [|i] H; cbn in *; try lia; auto.
  apply IH. lia.
Qed.

Lemma set_nth_nth_error_other {A} (l : list A) i j a :
  i <> j -> nth_error (set_nth l i a) j = nth_error l j.
Proof.
  revert i j. induction l as [|x l IH]; intros [|i] [|j] H; cbn; auto; try congruence.
Qed.

Lemma upd_bin_spec (K : Num) (ds : list (list (cell K))) idx bin v ds' :
  upd_bin ds idx bin v = Ok ds' ->
  exists d c, nthN ds idx = Some d /\ nthN d bin = Some c /\
    (exists d', nthN ds' idx = Some d' /\ nthN d' bin = Some (cell_add c v) /\
       forall b, b <> bin -> nthN d' b = nthN d b) /\
    forall i, i <> idx -> nthN ds' i = nthN ds i.
Proof.
  unfold upd_bin, getN. intros H.
  destruct (nthN ds idx) as [d|] eqn:Ed; [|discriminate]. cbn [bind] in H.
  destruct (nthN d bin) as [c|] eqn:Ec; [|discriminate]. cbn [bind] in H.
  injection H as <-. exists d, c. split; [first [exact Ed|reflexivity]|]. split; [first [exact Ec|reflexivity]|]. split.
  - exists (setN d bin (cell_add c v)). unfold nthN, setN in *. split; [|split].
    + apply set_nth_nth_error. apply nth_error_Some. congruence.
    + apply set_nth_nth_error. apply nth_error_Some. congruence.
    + intros b Hb. apply set_nth_nth_error_other. intros E. apply Hb. apply N2Nat.inj. auto.
  - intros i Hi. unfold nthN, setN. apply set_nth_nth_error_other.
    intros E. apply Hi. apply N2Nat.inj. auto.
Qed.

(** ** Mathematical sums *)

Fixpoint Rsum (xs : list R) : R := match xs with [] => 0 | x :: r => x + Rsum r end.
Fixpoint Rasum (xs : list R) : R := match xs with [] => 0 | x :: r => Rabs x + Rasum r end.

Lemma Rasum_pos xs : 0 <= Rasum xs.
Proof. induction xs as [|x xs IH]; cbn; [lra|]. pose proof (Rabs_pos x). lra. Qed.

Lemma Rsum_le_Rasum xs : Rabs (Rsum xs) <= Rasum xs.
Proof.
  induction xs as [|x xs IH]; cbn; [rewrite Rabs_R0; lra|].
  eapply Rle_trans; [apply Rabs_triang|]. lra.
Qed.

(** ** 1. Ideal arithmetic: the translated code computes the exact sum, compensation stays 0 *)

Lemma kahan_fold_R (xs : list R) (s ss : R) :
  exists ss', fold_left (acc_step NumR) xs (s, ss, 0) = (s + Rsum xs, ss', 0).
Proof.
  revert s ss. induction xs as [|x xs IH]; intros s ss.
  - exists ss. cbn. f_equal. f_equal. lra.
  - cbn [fold_left acc_step Rsum]. unfold accumulate. cbn [NumR add sub mul T].
    replace (s + (x - 0) - s - (x - 0)) with 0 by ring.
    destruct (IH (s + (x - 0)) (ss + x * x)) as [ss' E]. exists ss'.
    etransitivity; [exact E|]. f_equal. f_equal. ring.
Qed.

Lemma kahan_exact_R (xs : list R) :
  run_sum (acc_run NumR xs) = Rsum xs /\ run_comp (acc_run NumR xs) = 0.
Proof.
  unfold acc_run. destruct (kahan_fold_R xs 0 0) as [ss' E].
  change (fold_left (acc_step NumR) xs (zero NumR, zero NumR, zero NumR))
    with (fold_left (acc_step NumR) xs (0, 0, 0)).
  unfold run_sum, run_comp.
  replace (fold_left (acc_step NumR) xs (0, 0, 0)) with (0 + Rsum xs, ss', 0) by (symmetry; exact E).
  cbn [fst snd]. split; [apply Rplus_0_l|reflexivity].
Qed.

Lemma kahan_exact_R_cell (xs : list R) :
  c_sum (fold_left (@cell_add NumR) xs (@cell0 NumR)) = Rsum xs /\
  c_comp (fold_left (@cell_add NumR) xs (@cell0 NumR)) = 0.
Proof.
  pose proof (cell_run NumR xs) as H. pose proof (kahan_exact_R xs) as [H1 H2].
  rewrite <- H in H1, H2. exact (conj H1 H2).
Qed.

(** ** 2. Standard model of rounded arithmetic *)

Section Kahan.
Variable u : R.
Hypothesis Hu0 : 0 <= u.
Hypothesis Hu : u <= /64.

(* one Kahan step in the standard model of rounded + and - *)
Definition kstep (s c x s' c' : R) : Prop :=
  exists d1 d2 d3 d4, Rabs d1 <= u /\ Rabs d2 <= u /\ Rabs d3 <= u /\ Rabs d4 <= u /\
    let y := (x - c) * (1 + d1) in
    let t := (s + y) * (1 + d2) in
    s' = t /\ c' = ((t - s) * (1 + d3) - y) * (1 + d4).

Lemma abs_mul_le a b ba bb : Rabs a <= ba -> Rabs b <= bb -> Rabs (a * b) <= ba * bb.
Proof. intros Ha Hb. rewrite Rabs_mult. apply Rmult_le_compat; auto using Rabs_pos. Qed.

Lemma abs_1p d : Rabs d <= u -> Rabs (1 + d) <= 1 + u.
Proof. intros H. eapply Rle_trans; [apply Rabs_triang|]. rewrite Rabs_R1. lra. Qed.

(* exact error recurrence *)
Lemma kstep_error s c x X d1 d2 d3 d4 :
  let y := (x - c) * (1 + d1) in
  let t := (s + y) * (1 + d2) in
  let c' := ((t - s) * (1 + d3) - y) * (1 + d4) in
  (t - c') - (X + x) = ((s - c) - X) + d1 * (x - c) - d3 * (t - s) * (1 + d4) - d4 * (d2 * (s + y)).
Proof. intros; subst y t c'. ring. Qed.

(* the invariant carried along the sequence: X = exact sum so far, A = sum of magnitudes so far,
   k = number of values so far *)
Definition kinv (s c X A k : R) : Prop :=
  0 <= A /\ 0 <= k /\ Rabs X <= A /\
  Rabs ((s - c) - X) <= (3 * u + 20 * k * u * u) * A /\
  Rabs c <= 4 * u * A.

Lemma kinv_s_bound s c X A k : k * u <= 1 -> kinv s c X A k -> Rabs s <= 3/2 * A.
Proof.
  intros Hku (HA & Hk & HX & He & Hcb).
  replace s with (X + ((s - c) - X) + c) by ring.
  eapply Rle_trans; [apply Rabs_triang|]. eapply Rle_trans; [apply Rplus_le_compat_r, Rabs_triang|].
  assert (HuA : 0 <= u * A) by (apply Rmult_le_pos; assumption).
  assert (20 * k * u * u * A <= 20 * u * A).
  { replace (20 * k * u * u * A) with (20 * ((k * u) * (u * A))) by ring.
    assert ((k * u) * (u * A) <= 1 * (u * A)) by (apply Rmult_le_compat_r; assumption). lra. }
  assert (u * A <= /64 * A) by (apply Rmult_le_compat_r; assumption).
  lra.
Qed.

Lemma kstep_bounds s c x s' c' X A k :
  kstep s c x s' c' ->
  0 <= A -> 0 <= k -> k * u <= 1 ->
  Rabs X <= A ->
  Rabs ((s - c) - X) <= (3 * u + 20 * k * u * u) * A ->
  Rabs c <= 4 * u * A ->
  Rabs ((s' - c') - (X + x)) <= (3 * u + 20 * (k + 1) * u * u) * (A + Rabs x) /\
  Rabs c' <= 4 * u * (A + Rabs x).
Proof.
  intros (d1 & d2 & d3 & d4 & H1 & H2 & H3 & H4 & Hs & Hc) HA Hk Hku HX He Hcb.
  cbv zeta in Hs, Hc. subst s' c'.
  set (y := (x - c) * (1 + d1)). set (t := (s + y) * (1 + d2)).
  set (ax := Rabs x) in *. set (ac := Rabs c) in *.
  assert (Hax : 0 <= ax) by apply Rabs_pos. assert (Hac : 0 <= ac) by apply Rabs_pos.
  (* |s| <= 3/2 A *)
  assert (Hsb : Rabs s <= 3/2 * A).
  { replace s with (X + ((s - c) - X) + c) by ring.
    eapply Rle_trans; [apply Rabs_triang|]. eapply Rle_trans; [apply Rplus_le_compat_r, Rabs_triang|].
    fold ac. assert (20 * k * u * u * A <= 20 * u * A) by nra. nra. }
  set (as_ := Rabs s) in *. assert (Has : 0 <= as_) by apply Rabs_pos.
  assert (Hxc : Rabs (x - c) <= ax + ac).
  { unfold Rminus. eapply Rle_trans; [apply Rabs_triang|]. rewrite Rabs_Ropp. fold ax ac. lra. }
  assert (Hy : Rabs y <= (ax + ac) * (1 + u)) by (apply abs_mul_le; auto using abs_1p).
  set (ay := Rabs y) in *. assert (Hay : 0 <= ay) by apply Rabs_pos.
  assert (Hsy : Rabs (s + y) <= as_ + ay) by apply Rabs_triang.
  assert (Hr : Rabs (d2 * (s + y)) <= u * (as_ + ay)) by (apply abs_mul_le; auto).
  assert (Hts : Rabs (t - s) <= ay + u * (as_ + ay)).
  { replace (t - s) with (y + d2 * (s + y)) by (unfold t; ring).
    eapply Rle_trans; [apply Rabs_triang|]. fold ay. lra. }
  set (q := ax + ac) in *. assert (Hq : 0 <= q) by (unfold q; lra).
  split.
  - replace (t - ((t - s) * (1 + d3) - y) * (1 + d4) - (X + x)) with
      (((s - c) - X) + d1 * (x - c) - d3 * (t - s) * (1 + d4) - d4 * (d2 * (s + y)))
      by (unfold t, y; ring).
    assert (T1 : Rabs (d1 * (x - c)) <= u * q) by (apply abs_mul_le; auto).
    assert (T2 : Rabs (d3 * (t - s) * (1 + d4)) <= u * (ay + u * (as_ + ay)) * (1 + u)).
    { apply abs_mul_le; [apply abs_mul_le; auto|auto using abs_1p]. }
    assert (T3 : Rabs (d4 * (d2 * (s + y))) <= u * (u * (as_ + ay))) by (apply abs_mul_le; auto).
    unfold Rminus. eapply Rle_trans; [apply Rabs_triang|]. rewrite Rabs_Ropp.
    eapply Rle_trans; [apply Rplus_le_compat_r, Rabs_triang|]. rewrite Rabs_Ropp.
    eapply Rle_trans; [apply Rplus_le_compat_r, Rplus_le_compat_r, Rabs_triang|].
    assert (Hq' : q <= ax + 4 * u * A) by (unfold q; lra).
    assert (Hay' : ay <= (ax + 4 * u * A) * (1 + u)) by nra.
    (* collect *)
    assert (B : u * q + u * (ay + u * (as_ + ay)) * (1 + u) + u * (u * (as_ + ay))
                <= 3 * u * ax + 20 * u * u * A).
    { set (z := ax + 4 * u * A) in *. assert (Hz : 0 <= z) by (unfold z; nra).
      set (cay := u * (1 + u) + u * u * (1 + u) + u * u).
      set (cas := u * u * (1 + u) + u * u).
      assert (Hcay : 0 <= cay) by (unfold cay; nra).
      assert (Hcas : 0 <= cas) by (unfold cas; nra).
      assert (L : u * q + u * (ay + u * (as_ + ay)) * (1 + u) + u * (u * (as_ + ay))
                  = u * q + cay * ay + cas * as_) by (unfold cay, cas; ring).
      rewrite L.
      assert (P1 : u * q <= u * z) by (apply Rmult_le_compat_l; auto).
      assert (P2 : cay * ay <= cay * (z * (1 + u))) by (apply Rmult_le_compat_l; auto).
      assert (P3 : cas * as_ <= cas * (3/2 * A)) by (apply Rmult_le_compat_l; auto).
      assert (Q1 : u + cay * (1 + u) <= 207/100 * u).
      { unfold cay. assert (0 <= u * u) by nra. assert (u * u <= /64 * u) by nra.
        assert (u * u * u <= /64 * (u * u)) by nra. assert (u * u * u * u <= /64 * (u * u * u)) by nra.
        assert (0 <= u * u * u) by nra. nra. }
      assert (Q2 : cas * (3/2) <= 304/100 * (u * u)).
      { unfold cas. assert (0 <= u * u) by nra. assert (u * u * u <= /64 * (u * u)) by nra. nra. }
      assert (R1 : (u + cay * (1 + u)) * z <= 207/100 * u * z) by (apply Rmult_le_compat_r; auto).
      assert (R2 : cas * (3/2) * A <= 304/100 * (u * u) * A) by (apply Rmult_le_compat_r; auto).
      assert (Z1 : u * z = u * ax + 4 * (u * u * A)) by (unfold z; ring).
      assert (0 <= u * u * A) by nra. assert (0 <= u * ax) by nra.
      assert (W : 207/100 * u * z + 304/100 * (u * u) * A <= 3 * u * ax + 20 * u * u * A).
      { replace (207/100 * u * z) with (207/100 * (u * z)) by ring. rewrite Z1. lra. }
      lra. }
    fold ax. unfold Rminus in *.
    assert (0 <= u * u) by nra. assert (0 <= u * u * ax) by nra. assert (0 <= k * (u * u * ax)) by nra.
    assert (EX : (3 * u + 20 * (k + 1) * u * u) * (A + ax) =
                 (3 * u + 20 * k * u * u) * A + 3 * u * ax + 20 * u * u * A + 20 * (k * (u * u * ax)) + 20 * (u * u * ax)) by ring.
    rewrite EX. lra.
  - fold y t.
    assert (T : Rabs ((t - s) * (1 + d3) - y) <= u * (as_ + ay) + u * (ay + u * (as_ + ay))).
    { replace ((t - s) * (1 + d3) - y) with (d2 * (s + y) + d3 * (t - s)) by (unfold t; ring).
      eapply Rle_trans; [apply Rabs_triang|].
      assert (Rabs (d3 * (t - s)) <= u * (ay + u * (as_ + ay))) by (apply abs_mul_le; auto). lra. }
    assert (Hc' : Rabs (((t - s) * (1 + d3) - y) * (1 + d4)) <=
                  (u * (as_ + ay) + u * (ay + u * (as_ + ay))) * (1 + u))
      by (apply abs_mul_le; auto using abs_1p).
    eapply Rle_trans; [exact Hc'|]. fold ax.
    set (z := ax + 4 * u * A). assert (Hz : 0 <= z) by (unfold z; nra).
    assert (Hay' : ay <= z * (1 + u)) by (unfold z, q in *; nra).
    set (cas := u * (1 + u) * (1 + u)). set (cay := u * (1 + u) * (2 + u)).
    assert (Hcas : 0 <= cas) by (unfold cas; nra). assert (Hcay : 0 <= cay) by (unfold cay; nra).
    assert (L : (u * (as_ + ay) + u * (ay + u * (as_ + ay))) * (1 + u) = cas * as_ + cay * ay)
      by (unfold cas, cay; ring).
    rewrite L.
    assert (P2 : cay * ay <= cay * (z * (1 + u))) by (apply Rmult_le_compat_l; auto).
    assert (P3 : cas * as_ <= cas * (3/2 * A)) by (apply Rmult_le_compat_l; auto).
    assert (0 <= u * u) by nra. assert (Huu : u * u <= /64 * u) by nra.
    assert (Hu3 : u * u * u <= /64 * (u * u)) by nra. assert (0 <= u * u * u) by nra.
    assert (Hu4 : u * u * u * u <= /64 * (u * u * u)) by nra. assert (0 <= u * u * u * u) by nra.
    assert (Q1 : cas * (3/2) <= 155/100 * u) by (unfold cas; nra).
    assert (Q2 : cay * (1 + u) <= 209/100 * u) by (unfold cay; nra).
    assert (R1 : cas * (3/2) * A <= 155/100 * u * A) by (apply Rmult_le_compat_r; auto).
    assert (R2 : cay * (1 + u) * z <= 209/100 * u * z) by (apply Rmult_le_compat_r; auto).
    assert (Z1 : u * z = u * ax + 4 * (u * u * A)) by (unfold z; ring).
    assert (0 <= u * A) by nra. assert (0 <= u * ax) by nra.
    assert (Z2 : u * u * A <= /64 * (u * A)) by nra. assert (0 <= u * u * A) by nra.
    replace (209/100 * u * z) with (209/100 * (u * z)) in R2 by ring. rewrite Z1 in R2.
    lra.
Qed.

Lemma kinv_step s c x s' c' X A k :
  kstep s c x s' c' -> (k + 1) * u <= 1 -> kinv s c X A k ->
  kinv s' c' (X + x) (A + Rabs x) (k + 1).
Proof.
  intros Hst Hku (HA & Hk & HX & He & Hcb).
  assert (Hku' : k * u <= 1) by nra.
  destruct (kstep_bounds _ _ _ _ _ _ _ _ Hst HA Hk Hku' HX He Hcb) as [B1 B2].
  pose proof (Rabs_pos x). repeat split; try lra; auto.
  eapply Rle_trans; [apply Rabs_triang|]. lra.
Qed.

Lemma kinv_init : kinv 0 0 0 0 0.
Proof. unfold kinv. replace (0 - 0 - 0) with 0 by ring. rewrite Rabs_R0. repeat split; lra. Qed.

(* what the invariant says about the reported sum *)
Lemma kinv_final s c X A k :
  kinv s c X A k -> Rabs (s - X) <= (7 * u + 20 * k * u * u) * A.
Proof.
  intros (HA & Hk & HX & He & Hcb).
  replace (s - X) with (((s - c) - X) + c) by ring.
  eapply Rle_trans; [apply Rabs_triang|]. lra.
Qed.

(* magnitudes of the four rounded quantities of a step (used to exclude overflow) *)
Lemma kstep_magnitudes s c x X A k d1 d2 d3 d4 :
  Rabs d1 <= u -> Rabs d2 <= u -> Rabs d3 <= u -> Rabs d4 <= u ->
  (k + 1) * u <= 1 -> kinv s c X A k ->
  let y := (x - c) * (1 + d1) in
  let t := (s + y) * (1 + d2) in
  let w := (t - s) * (1 + d3) in
  let c' := (w - y) * (1 + d4) in
  Rabs y <= 2 * (A + Rabs x) /\ Rabs t <= 2 * (A + Rabs x) /\
  Rabs w <= 4 * (A + Rabs x) /\ Rabs c' <= 2 * (A + Rabs x).
Proof.
  intros H1 H2 H3 H4 Hku Hinv y t w c'.
  assert (Hst : kstep s c x t c').
  { exists d1, d2, d3, d4. repeat split; auto. }
  pose proof (kinv_step _ _ _ _ _ _ _ _ Hst Hku Hinv) as Hinv'.
  assert (Hk0 : 0 <= k) by (destruct Hinv as (_ & Hk & _); exact Hk).
  assert (Hku0 : k * u <= 1) by nra.
  pose proof (kinv_s_bound _ _ _ _ _ Hku0 Hinv) as Hs.
  pose proof (kinv_s_bound _ _ _ _ _ Hku Hinv') as Ht.
  destruct Hinv as (HA & Hk & HX & He & Hcb).
  destruct Hinv' as (HA' & Hk' & HX' & He' & Hcb').
  set (ax := Rabs x) in *. assert (Hax : 0 <= ax) by apply Rabs_pos.
  assert (Hxc : Rabs (x - c) <= ax + Rabs c).
  { unfold Rminus. eapply Rle_trans; [apply Rabs_triang|]. rewrite Rabs_Ropp. fold ax. lra. }
  assert (Hy : Rabs y <= (ax + Rabs c) * (1 + u)) by (apply abs_mul_le; auto using abs_1p).
  assert (HuA : 4 * u * A <= /16 * A) by nra.
  assert (Hy2 : Rabs y <= 2 * (A + ax)).
  { eapply Rle_trans; [exact Hy|]. assert (Rabs c <= /16 * A) by lra.
    pose proof (Rabs_pos c). nra. }
  assert (Hts : Rabs (t - s) <= 3 * (A + ax)).
  { unfold Rminus. eapply Rle_trans; [apply Rabs_triang|]. rewrite Rabs_Ropp. lra. }
  assert (Hw : Rabs w <= 3 * (A + ax) * (1 + u)) by (apply abs_mul_le; auto using abs_1p).
  repeat split.
  - exact Hy2.
  - lra.
  - eapply Rle_trans; [exact Hw|]. nra.
  - assert (4 * u * (A + ax) <= /16 * (A + ax)) by nra. lra.
Qed.

(** *** The recurrence for arbitrary rounded operations satisfying the standard model *)

Variables fadd fsub : R -> R -> R.
Hypothesis fadd_model : forall a b, exists d, Rabs d <= u /\ fadd a b = (a + b) * (1 + d).
Hypothesis fsub_model : forall a b, exists d, Rabs d <= u /\ fsub a b = (a - b) * (1 + d).

(* exactly the shape of the translated [accumulate] (sum and compensation only) *)
Definition kahan_step (st : R * R) (x : R) : R * R :=
  let '(s, c) := st in
  let y := fsub x c in
  let t := fadd s y in
  let c' := fsub (fsub t s) y in
  (t, c').

Definition kahan_run (xs : list R) : R * R := fold_left kahan_step xs (0, 0).

Lemma kahan_step_kstep s c x : kstep s c x (fst (kahan_step (s, c) x)) (snd (kahan_step (s, c) x)).
Proof.
  cbn [kahan_step fst snd].
  destruct (fsub_model x c) as (d1 & H1 & E1).
  destruct (fadd_model s (fsub x c)) as (d2 & H2 & E2).
  destruct (fsub_model (fadd s (fsub x c)) s) as (d3 & H3 & E3).
  destruct (fsub_model (fsub (fadd s (fsub x c)) s) (fsub x c)) as (d4 & H4 & E4).
  exists d1, d2, d3, d4. repeat split; auto.
  - cbv zeta. rewrite E2, E1. reflexivity.
  - cbv zeta. rewrite E4, E3, E2, E1. reflexivity.
Qed.

Lemma kahan_fold_inv xs : forall s c X A k,
  kinv s c X A k -> (k + INR (length xs)) * u <= 1 ->
  let st := fold_left kahan_step xs (s, c) in
  kinv (fst st) (snd st) (X + Rsum xs) (A + Rasum xs) (k + INR (length xs)).
Proof.
  induction xs as [|x xs IH]; intros s c X A k Hinv Hku.
  - cbn. rewrite !Rplus_0_r. exact Hinv.
  - cbn [fold_left]. cbn [length] in *. rewrite S_INR in *.
    pose proof (pos_INR (length xs)) as Hn.
    pose proof (kahan_step_kstep s c x) as Hst.
    destruct (kahan_step (s, c) x) as [s' c'] eqn:E. cbn [fst snd] in Hst.
    assert (Hku1 : (k + 1) * u <= 1) by nra.
    pose proof (kinv_step _ _ _ _ _ _ _ _ Hst Hku1 Hinv) as Hinv'.
    assert (Hku2 : (k + 1 + INR (length xs)) * u <= 1) by (replace (k + 1 + INR (length xs)) with (k + (INR (length xs) + 1)) by ring; exact Hku).
    specialize (IH s' c' _ _ _ Hinv' Hku2). cbv zeta in IH.
    cbn [Rsum Rasum].
    replace (X + (x + Rsum xs)) with (X + x + Rsum xs) by ring.
    replace (A + (Rabs x + Rasum xs)) with (A + Rabs x + Rasum xs) by ring.
    replace (k + (INR (length xs) + 1)) with (k + 1 + INR (length xs)) by ring.
    exact IH.
Qed.

Lemma kahan_error_bound_model (xs : list R) :
  INR (length xs) * u <= 1 ->
  Rabs (fst (kahan_run xs) - Rsum xs)
    <= (7 * u + 20 * INR (length xs) * u * u) * Rasum xs.
Proof.
  intros Hn. unfold kahan_run.
  assert (Hn' : (0 + INR (length xs)) * u <= 1) by (rewrite Rplus_0_l; exact Hn).
  pose proof (kahan_fold_inv xs 0 0 0 0 0 kinv_init Hn') as H. cbv zeta in H.
  rewrite !Rplus_0_l in H. exact (kinv_final _ _ _ _ _ H).
Qed.

End Kahan.

(** ** 3. IEEE-754 binary formats *)

Section Float.
Variables prec emax : Z.
Context (Hprec : FLX.Prec_gt_0 prec) (Hmax : Prec_lt_emax prec emax).
Hypothesis Hp6 : (6 <= prec)%Z.

Notation F := (binary_float prec emax).
Notation KB := (NumB prec emax Hprec Hmax).
Notation fexpB := (SpecFloat.fexp prec emax).
Notation eminB := (SpecFloat.emin prec emax).

(* unit roundoff *)
Definition uB : R := bpow radix2 (- prec).

Lemma uB_pos : 0 <= uB.
Proof. apply bpow_ge_0. Qed.

Lemma uB_le : uB <= /64.
Proof.
  unfold uB. apply Rle_trans with (bpow radix2 (-6)).
  - apply bpow_le. lia.
  - right. cbn. unfold Z.pow_pos. cbn. reflexivity.
Qed.

Lemma u_ro_uB : u_ro radix2 prec = uB.
Proof.
  unfold u_ro, uB. rewrite bpow_plus. change (bpow radix2 1) with 2. field.
Qed.

(* rounded sum of two numbers of the format: relative error at most uB, no underflow term *)
Lemma round_plus_model (a b : R) :
  generic_format radix2 fexpB a -> generic_format radix2 fexpB b ->
  exists d, Rabs d <= uB /\ round radix2 fexpB ZnearestE (a + b) = (a + b) * (1 + d).
Proof.
  intros Fa Fb.
  destruct (@FLT_plus_error_N_ex radix2 eminB prec Hprec (fun x => negb (Z.even x)) a b Fa Fb)
    as (d & Hd & E).
  exists d. split.
  - eapply Rle_trans; [exact Hd|]. rewrite <- u_ro_uB. apply u_rod1pu_ro_le_u_ro.
  - exact E.
Qed.

Lemma overflow_not_finite (z : F) s :
  B2SF z = binary_overflow prec emax mode_NE s -> is_finite z = false.
Proof.
  intros H. rewrite <- is_finite_SF_B2SF, H. reflexivity.
Qed.

(** [C14_float_add_standard_model]: the float operations used by [accumulate] satisfy the standard
    model whenever the operands are finite and the result does not overflow *)
Lemma Bplus_model (x y : F) :
  is_finite x = true -> is_finite y = true ->
  exists d, Rabs d <= uB /\
    (Rabs ((B2R x + B2R y) * (1 + d)) < bpow radix2 emax ->
       is_finite (add KB x y) = true) /\
    (is_finite (add KB x y) = true -> B2R (add KB x y) = (B2R x + B2R y) * (1 + d)).
Proof.
  intros Fx Fy.
  destruct (round_plus_model (B2R x) (B2R y) (generic_format_B2R _ _ x) (generic_format_B2R _ _ y))
    as (d & Hd & E).
  exists d. split; [exact Hd|].
  pose proof (Bplus_correct prec emax Hprec Hmax mode_NE x y Fx Fy) as H.
  cbn [round_mode] in H. cbn [add NumB].
  destruct (Rlt_bool_spec (Rabs (round radix2 fexpB ZnearestE (B2R x + B2R y))) (bpow radix2 emax))
    as [Hlt|Hge].
  - destruct H as (H1 & H2 & _). split; [intros _; exact H2|]. intros _. rewrite H1. exact E.
  - destruct H as (H1 & _). apply overflow_not_finite in H1. split.
    + intros Hlt. rewrite <- E in Hlt. lra.
    + intros Hf. rewrite H1 in Hf. discriminate.
Qed.

Lemma Bminus_model (x y : F) :
  is_finite x = true -> is_finite y = true ->
  exists d, Rabs d <= uB /\
    (Rabs ((B2R x - B2R y) * (1 + d)) < bpow radix2 emax ->
       is_finite (sub KB x y) = true) /\
    (is_finite (sub KB x y) = true -> B2R (sub KB x y) = (B2R x - B2R y) * (1 + d)).
Proof.
  intros Fx Fy.
  destruct (round_plus_model (B2R x) (- B2R y) (generic_format_B2R _ _ x)
              (generic_format_opp _ _ _ (generic_format_B2R _ _ y)))
    as (d & Hd & E).
  exists d. split; [exact Hd|].
  pose proof (Bminus_correct prec emax Hprec Hmax mode_NE x y Fx Fy) as H.
  cbn [round_mode] in H. cbn [sub NumB]. unfold Rminus in *.
  destruct (Rlt_bool_spec (Rabs (round radix2 fexpB ZnearestE (B2R x + - B2R y))) (bpow radix2 emax))
    as [Hlt|Hge].
  - destruct H as (H1 & H2 & _). split; [intros _; exact H2|]. intros _. rewrite H1. exact E.
  - destruct H as (H1 & _). apply overflow_not_finite in H1. split.
    + intros Hlt. rewrite <- E in Hlt. lra.
    + intros Hf. rewrite H1 in Hf. discriminate.
Qed.

Lemma float_add_standard_model (x y : F) :
  is_finite x = true -> is_finite y = true -> is_finite (add KB x y) = true ->
  exists d, Rabs d <= uB /\ B2R (add KB x y) = (B2R x + B2R y) * (1 + d).
Proof.
  intros Fx Fy Fr. destruct (Bplus_model x y Fx Fy) as (d & Hd & _ & H).
  exists d. split; [exact Hd|exact (H Fr)].
Qed.

Lemma float_sub_standard_model (x y : F) :
  is_finite x = true -> is_finite y = true -> is_finite (sub KB x y) = true ->
  exists d, Rabs d <= uB /\ B2R (sub KB x y) = (B2R x - B2R y) * (1 + d).
Proof.
  intros Fx Fy Fr. destruct (Bminus_model x y Fx Fy) as (d & Hd & _ & H).
  exists d. split; [exact Hd|exact (H Fr)].
Qed.

(** *** "No intermediate result overflows" *)

(* the four rounded quantities of one call of [accumulate] that feed the sum and the compensation
   (the sum of squares is not constrained: it may overflow without affecting the sum) *)
Definition step_finite (st : KB * KB * KB) (x : KB) : Prop :=
  let '(s, _, c) := st in
  let y := sub KB x c in
  let t := add KB s y in
  let w := sub KB t s in
  let c' := sub KB w y in
  is_finite y = true /\ is_finite t = true /\ is_finite w = true /\ is_finite c' = true.

Fixpoint run_finite (st : KB * KB * KB) (xs : list KB) : Prop :=
  match xs with
  | [] => True
  | x :: r => step_finite st x /\ run_finite (acc_step KB st x) r
  end.

Definition all_finite (xs : list KB) : Prop := Forall (fun x : KB => is_finite x = true) xs.

(* one float step, given finiteness of the intermediates, is a step of the standard model *)
Lemma fstep_kstep (s ss c x : F) :
  is_finite s = true -> is_finite c = true -> is_finite x = true ->
  step_finite (s, ss, c) x ->
  let st' := acc_step KB (s, ss, c) x in
  is_finite (run_sum st') = true /\ is_finite (run_comp st') = true /\
  kstep uB (B2R s) (B2R c) (B2R x) (B2R (run_sum st')) (B2R (run_comp st')).
Proof.
  intros Fs Fc Fx (Fy & Ft & Fw & Fc').
  cbn [acc_step]. unfold accumulate. cbn [run_sum run_comp fst snd].
  set (y := sub KB x c) in *. set (t := add KB s y) in *.
  set (w := sub KB t s) in *. set (c' := sub KB w y) in *.
  split; [exact Ft|]. split; [exact Fc'|].
  destruct (float_sub_standard_model x c Fx Fc Fy) as (d1 & H1 & E1).
  destruct (float_add_standard_model s y Fs Fy Ft) as (d2 & H2 & E2).
  destruct (float_sub_standard_model t s Ft Fs Fw) as (d3 & H3 & E3).
  destruct (float_sub_standard_model w y Fw Fy Fc') as (d4 & H4 & E4).
  fold y in E1. fold t in E2. fold w in E3. fold c' in E4.
  exists d1, d2, d3, d4. repeat split; auto.
  - cbv zeta. rewrite E2, E1. reflexivity.
  - cbv zeta. rewrite E4, E3, E2, E1. reflexivity.
Qed.

(* one float step cannot overflow when the sum of magnitudes is far enough below the threshold *)
Lemma fstep_finite (s ss c x : F) X A k :
  is_finite s = true -> is_finite c = true -> is_finite x = true ->
  kinv uB (B2R s) (B2R c) X A k -> (k + 1) * uB <= 1 ->
  4 * (A + Rabs (B2R x)) < bpow radix2 emax ->
  step_finite (s, ss, c) x.
Proof.
  intros Fs Fc Fx Hinv Hku Hmag.
  pose proof uB_pos as U0. pose proof uB_le as U1.
  assert (Z0 : Rabs 0 <= uB) by (rewrite Rabs_R0; exact U0).
  assert (HA : 0 <= A + Rabs (B2R x)).
  { destruct Hinv as (HA & _). pose proof (Rabs_pos (B2R x)). lra. }
  cbn [step_finite].
  set (y := sub KB x c). set (t := add KB s y). set (w := sub KB t s). set (c' := sub KB w y).
  destruct (Bminus_model x c Fx Fc) as (d1 & H1 & L1 & E1). fold y in L1, E1.
  destruct (kstep_magnitudes uB U0 U1 _ _ (B2R x) _ _ _ d1 0 0 0 H1 Z0 Z0 Z0 Hku Hinv) as (M1 & _).
  assert (Fy : is_finite y = true) by (apply L1; lra).
  specialize (E1 Fy).
  destruct (Bplus_model s y Fs Fy) as (d2 & H2 & L2 & E2). fold t in L2, E2.
  destruct (kstep_magnitudes uB U0 U1 _ _ (B2R x) _ _ _ d1 d2 0 0 H1 H2 Z0 Z0 Hku Hinv) as (_ & M2 & _).
  rewrite <- E1 in M2.
  assert (Ft : is_finite t = true) by (apply L2; lra).
  specialize (E2 Ft).
  destruct (Bminus_model t s Ft Fs) as (d3 & H3 & L3 & E3). fold w in L3, E3.
  destruct (kstep_magnitudes uB U0 U1 _ _ (B2R x) _ _ _ d1 d2 d3 0 H1 H2 H3 Z0 Hku Hinv) as (_ & _ & M3 & _).
  rewrite <- E1, <- E2 in M3.
  assert (Fw : is_finite w = true) by (apply L3; lra).
  specialize (E3 Fw).
  destruct (Bminus_model w y Fw Fy) as (d4 & H4 & L4 & E4). fold c' in L4, E4.
  destruct (kstep_magnitudes uB U0 U1 _ _ (B2R x) _ _ _ d1 d2 d3 d4 H1 H2 H3 H4 Hku Hinv) as (_ & _ & _ & M4).
  rewrite <- E1, <- E2, <- E3 in M4.
  assert (Fc' : is_finite c' = true) by (apply L4; lra).
  repeat split; assumption.
Qed.

Definition BRsum (xs : list KB) : R := Rsum (map (fun x : KB => B2R x) xs).
Definition BRasum (xs : list KB) : R := Rasum (map (fun x : KB => B2R x) xs).

(* list induction, hypothesis "all intermediates finite" *)
Lemma float_fold_inv_fin (xs : list KB) : forall (s ss c : F) X A k,
  is_finite s = true -> is_finite c = true -> all_finite xs ->
  kinv uB (B2R s) (B2R c) X A k -> (k + INR (length xs)) * uB <= 1 ->
  run_finite (s, ss, c) xs ->
  let st := fold_left (acc_step KB) xs (s, ss, c) in
  is_finite (run_sum st) = true /\ is_finite (run_comp st) = true /\
  kinv uB (B2R (run_sum st)) (B2R (run_comp st)) (X + BRsum xs) (A + BRasum xs) (k + INR (length xs)).
Proof.
  pose proof uB_pos as U0. pose proof uB_le as U1.
  induction xs as [|x xs IH]; intros s ss c X A k Fs Fc Fxs Hinv Hku Hrun.
  - cbn. unfold BRsum, BRasum. cbn. rewrite !Rplus_0_r. auto.
  - cbn [fold_left]. cbn [length] in Hku |- *. rewrite S_INR in Hku |- *.
    pose proof (pos_INR (length xs)) as Hn.
    destruct Hrun as [Hst Hrun]. inversion Fxs as [|x' xs' Fx Fxs' E]; subst x' xs'.
    destruct (fstep_kstep s ss c x Fs Fc Fx Hst) as (Fs' & Fc' & Hk).
    destruct (acc_step KB (s, ss, c) x) as [[s' ss'] c'] eqn:E. cbn [run_sum run_comp fst snd] in Fs', Fc', Hk.
    assert (Hku1 : (k + 1) * uB <= 1) by nra.
    pose proof (kinv_step uB U0 U1 _ _ _ _ _ _ _ _ Hk Hku1 Hinv) as Hinv'.
    assert (Hku2 : (k + 1 + INR (length xs)) * uB <= 1)
      by (replace (k + 1 + INR (length xs)) with (k + (INR (length xs) + 1)) by ring; exact Hku).
    specialize (IH s' ss' c' _ _ _ Fs' Fc' Fxs' Hinv' Hku2 Hrun). cbv zeta in IH.
    unfold BRsum, BRasum in *. cbn [map Rsum Rasum].
    replace (X + (B2R x + Rsum (map (fun x0 : KB => B2R x0) xs)))
      with (X + B2R x + Rsum (map (fun x0 : KB => B2R x0) xs)) by ring.
    replace (A + (Rabs (B2R x) + Rasum (map (fun x0 : KB => B2R x0) xs)))
      with (A + Rabs (B2R x) + Rasum (map (fun x0 : KB => B2R x0) xs)) by ring.
    replace (k + (INR (length xs) + 1)) with (k + 1 + INR (length xs)) by ring.
    exact IH.
Qed.

(* list induction, hypothesis on the magnitudes only: nothing overflows *)
Lemma float_run_finite (xs : list KB) : forall (s ss c : F) X A k,
  is_finite s = true -> is_finite c = true -> all_finite xs ->
  kinv uB (B2R s) (B2R c) X A k -> (k + INR (length xs)) * uB <= 1 ->
  4 * (A + BRasum xs) < bpow radix2 emax ->
  run_finite (s, ss, c) xs.
Proof.
  pose proof uB_pos as U0. pose proof uB_le as U1.
  induction xs as [|x xs IH]; intros s ss c X A k Fs Fc Fxs Hinv Hku Hmag.
  - exact I.
  - cbn [length] in Hku. rewrite S_INR in Hku.
    pose proof (pos_INR (length xs)) as Hn.
    inversion Fxs as [|x' xs' Fx Fxs' E]; subst x' xs'.
    unfold BRasum in Hmag. cbn [map Rasum] in Hmag. fold (BRasum xs) in Hmag.
    assert (Hr : 0 <= BRasum xs) by apply Rasum_pos.
    assert (Hku1 : (k + 1) * uB <= 1) by nra.
    assert (Hmag1 : 4 * (A + Rabs (B2R x)) < bpow radix2 emax) by lra.
    pose proof (fstep_finite s ss c x X A k Fs Fc Fx Hinv Hku1 Hmag1) as Hst.
    cbn [run_finite]. split; [exact Hst|].
    destruct (fstep_kstep s ss c x Fs Fc Fx Hst) as (Fs' & Fc' & Hk).
    destruct (acc_step KB (s, ss, c) x) as [[s' ss'] c'] eqn:E. cbn [run_sum run_comp fst snd] in Fs', Fc', Hk.
    pose proof (kinv_step uB U0 U1 _ _ _ _ _ _ _ _ Hk Hku1 Hinv) as Hinv'.
    assert (Hku2 : (k + 1 + INR (length xs)) * uB <= 1)
      by (replace (k + 1 + INR (length xs)) with (k + (INR (length xs) + 1)) by ring; exact Hku).
    apply (IH s' ss' c' _ _ _ Fs' Fc' Fxs' Hinv' Hku2). lra.
Qed.

Lemma zero_finite : is_finite (zero KB) = true.
Proof. reflexivity. Qed.
Lemma zero_B2R : B2R (zero KB) = 0.
Proof. reflexivity. Qed.

(* the bound under "all intermediate results are finite" *)
Lemma kahan_error_bound_float_fin (xs : list KB) :
  all_finite xs -> run_finite (zero KB, zero KB, zero KB) xs ->
  INR (length xs) * uB <= 1 ->
  is_finite (run_sum (acc_run KB xs)) = true /\
  Rabs (B2R (run_sum (acc_run KB xs)) - BRsum xs)
    <= (7 * uB + 20 * INR (length xs) * uB * uB) * BRasum xs.
Proof.
  intros Fxs Hrun Hn. unfold acc_run.
  assert (Hn' : (0 + INR (length xs)) * uB <= 1) by (rewrite Rplus_0_l; exact Hn).
  assert (Hi : kinv uB (B2R (zero KB)) (B2R (zero KB)) 0 0 0) by (rewrite zero_B2R; apply kinv_init).
  destruct (float_fold_inv_fin xs (zero KB) (zero KB) (zero KB) 0 0 0 zero_finite zero_finite Fxs Hi Hn' Hrun)
    as (Fs & _ & H).
  split; [exact Fs|]. rewrite !Rplus_0_l in H. exact (kinv_final _ _ _ _ _ _ H).
Qed.

(* the bound under a hypothesis on the inputs only *)
Lemma kahan_error_bound_float (xs : list KB) :
  all_finite xs -> 4 * BRasum xs < bpow radix2 emax ->
  INR (length xs) * uB <= 1 ->
  run_finite (zero KB, zero KB, zero KB) xs /\
  is_finite (run_sum (acc_run KB xs)) = true /\
  Rabs (B2R (run_sum (acc_run KB xs)) - BRsum xs)
    <= (7 * uB + 20 * INR (length xs) * uB * uB) * BRasum xs.
Proof.
  intros Fxs Hmag Hn.
  assert (Hn' : (0 + INR (length xs)) * uB <= 1) by (rewrite Rplus_0_l; exact Hn).
  assert (Hi : kinv uB (B2R (zero KB)) (B2R (zero KB)) 0 0 0) by (rewrite zero_B2R; apply kinv_init).
  assert (Hmag' : 4 * (0 + BRasum xs) < bpow radix2 emax) by (rewrite Rplus_0_l; exact Hmag).
  pose proof (float_run_finite xs (zero KB) (zero KB) (zero KB) 0 0 0 zero_finite zero_finite Fxs Hi Hn' Hmag') as Hrun.
  split; [exact Hrun|]. apply kahan_error_bound_float_fin; assumption.
Qed.

(* independent of the number of calls: at most 27 units of roundoff of the sum of magnitudes *)
Lemma kahan_error_bound_float_27 (xs : list KB) :
  all_finite xs -> 4 * BRasum xs < bpow radix2 emax ->
  INR (length xs) * uB <= 1 ->
  Rabs (B2R (run_sum (acc_run KB xs)) - BRsum xs) <= 27 * uB * BRasum xs.
Proof.
  intros Fxs Hmag Hn.
  destruct (kahan_error_bound_float xs Fxs Hmag Hn) as (_ & _ & H).
  eapply Rle_trans; [exact H|].
  pose proof uB_pos as U0. assert (Hr : 0 <= BRasum xs) by apply Rasum_pos.
  apply Rmult_le_compat_r; [exact Hr|].
  replace (20 * INR (length xs) * uB * uB) with (20 * (INR (length xs) * uB) * uB) by ring.
  assert (INR (length xs) * uB * uB <= 1 * uB) by (apply Rmult_le_compat_r; assumption).
  lra.
Qed.

(** *** Against the exactly rounded sum (the text of the property) *)

(* a sum of numbers of the format is an integer multiple of 2^emin *)
Lemma BRsum_FIX (xs : list KB) :
  all_finite xs -> exists m : Z, BRsum xs = IZR m * bpow radix2 eminB.
Proof.
  induction xs as [|x xs IH]; intros Fxs.
  - exists 0%Z. unfold BRsum. cbn. ring.
  - inversion Fxs as [|x' xs' Fx Fxs' E]; subst x' xs'.
    destruct (IH Fxs') as [m Hm].
    pose proof (generic_format_B2R prec emax x) as G.
    apply generic_format_FIX_FLT, FIX_format_generic in G.
    destruct G as [[fm fe] G1 G2]. cbn in G2. subst fe.
    exists (fm + m)%Z. unfold BRsum in *. cbn [map Rsum]. rewrite Hm, G1.
    unfold F2R. cbn [Fnum Fexp]. rewrite plus_IZR. ring.
Qed.

Lemma round_BRsum_error (xs : list KB) :
  all_finite xs ->
  Rabs (round radix2 fexpB ZnearestE (BRsum xs) - BRsum xs) <= uB * Rabs (BRsum xs).
Proof.
  intros Fxs. destruct (BRsum_FIX xs Fxs) as [m Hm].
  destruct (Rle_or_lt (bpow radix2 (eminB + prec - 1)) (Rabs (BRsum xs))) as [Hbig|Hsmall].
  - pose proof (@relative_error_N_FLT radix2 eminB prec Hprec (fun x => negb (Z.even x)) (BRsum xs) Hbig) as H.
    fold (u_ro radix2 prec) in H. rewrite u_ro_uB in H. exact H.
  - rewrite round_generic.
    + replace (BRsum xs - BRsum xs) with 0 by ring. rewrite Rabs_R0.
      apply Rmult_le_pos; [apply uB_pos|apply Rabs_pos].
    + apply valid_rnd_N.
    + apply (@generic_format_FLT_FIX radix2 eminB prec Hprec).
      * apply Rlt_le. eapply Rlt_le_trans; [exact Hsmall|]. apply bpow_le. lia.
      * apply generic_format_FIX. rewrite Hm.
        exists (Float radix2 m eminB); reflexivity.
Qed.

(* the correctly rounded exact sum *)
Definition rounded_exact_sum (xs : list KB) : R := round radix2 fexpB ZnearestE (BRsum xs).

Lemma kahan_vs_rounded_sum (xs : list KB) :
  all_finite xs -> 4 * BRasum xs < bpow radix2 emax ->
  INR (length xs) * uB <= 1 ->
  Rabs (B2R (run_sum (acc_run KB xs)) - rounded_exact_sum xs)
    <= (8 * uB + 20 * INR (length xs) * uB * uB) * BRasum xs.
Proof.
  intros Fxs Hmag Hn.
  destruct (kahan_error_bound_float xs Fxs Hmag Hn) as (_ & _ & H).
  pose proof (round_BRsum_error xs Fxs) as Hr.
  pose proof (Rsum_le_Rasum (map (fun x : KB => B2R x) xs)) as Hs. fold (BRsum xs) (BRasum xs) in Hs.
  pose proof uB_pos as U0.
  assert (Hr' : Rabs (round radix2 fexpB ZnearestE (BRsum xs) - BRsum xs) <= uB * BRasum xs).
  { eapply Rle_trans; [exact Hr|]. apply Rmult_le_compat_l; assumption. }
  unfold rounded_exact_sum.
  replace (B2R (run_sum (acc_run KB xs)) - round radix2 fexpB ZnearestE (BRsum xs))
    with ((B2R (run_sum (acc_run KB xs)) - BRsum xs) - (round radix2 fexpB ZnearestE (BRsum xs) - BRsum xs)) by ring.
  unfold Rminus at 1. eapply Rle_trans; [apply Rabs_triang|]. rewrite Rabs_Ropp. lra.
Qed.

(* a bound on the number of calls N with N * u <= r <= 1 gives a constant number of units *)
Lemma kahan_error_bound_float_calls (xs : list KB) (Nmax : Z) (r : R) :
  (Z.of_nat (length xs) <= Nmax)%Z -> IZR Nmax * uB <= r -> r <= 1 ->
  all_finite xs -> 4 * BRasum xs < bpow radix2 emax ->
  is_finite (run_sum (acc_run KB xs)) = true /\
  Rabs (B2R (run_sum (acc_run KB xs)) - BRsum xs) <= (7 + 20 * r) * uB * BRasum xs /\
  Rabs (B2R (run_sum (acc_run KB xs)) - rounded_exact_sum xs) <= (8 + 20 * r) * uB * BRasum xs.
Proof.
  intros HN Hr Hr1 Fxs Hmag.
  pose proof uB_pos as U0. assert (HA : 0 <= BRasum xs) by apply Rasum_pos.
  assert (Hn : INR (length xs) * uB <= r).
  { rewrite INR_IZR_INZ. eapply Rle_trans; [|exact Hr].
    apply Rmult_le_compat_r; [exact U0|]. apply IZR_le. exact HN. }
  assert (Hn1 : INR (length xs) * uB <= 1) by lra.
  destruct (kahan_error_bound_float xs Fxs Hmag Hn1) as (_ & Hf & H).
  pose proof (kahan_vs_rounded_sum xs Fxs Hmag Hn1) as H'.
  assert (Hq : 20 * INR (length xs) * uB * uB <= 20 * r * uB).
  { replace (20 * INR (length xs) * uB * uB) with (20 * (INR (length xs) * uB) * uB) by ring.
    apply Rmult_le_compat_r; [exact U0|]. lra. }
  split; [exact Hf|]. split.
  - eapply Rle_trans; [exact H|].
    replace ((7 + 20 * r) * uB * BRasum xs) with ((7 * uB + 20 * r * uB) * BRasum xs) by ring.
    apply Rmult_le_compat_r; [exact HA|]. lra.
  - eapply Rle_trans; [exact H'|].
    replace ((8 + 20 * r) * uB * BRasum xs) with ((8 * uB + 20 * r * uB) * BRasum xs) by ring.
    apply Rmult_le_compat_r; [exact HA|]. lra.
Qed.

End Float.

(** *** The three formats of the library, up to 10^7 calls; main accumulator and bins ([cell_add]) *)

Definition cell_sum_after (K : Num) (xs : list K) : K := c_sum (fold_left cell_add xs (@cell0 K)).

Lemma u24 : uB 24 = / 16777216.
Proof. unfold uB. cbn. unfold Z.pow_pos. cbn. reflexivity. Qed.
Lemma u53 : uB 53 = / 9007199254740992.
Proof. unfold uB. cbn. unfold Z.pow_pos. cbn. reflexivity. Qed.
Lemma u64 : uB 64 = / 18446744073709551616.
Proof. unfold uB. cbn. unfold Z.pow_pos. cbn. reflexivity. Qed.

Lemma kahan_float32 (xs : list B32) :
  (Z.of_nat (length xs) <= 10000000)%Z ->
  all_finite 24 128 P24 M24 xs -> 4 * BRasum 24 128 P24 M24 xs < bpow radix2 128 ->
  is_finite (cell_sum_after B32 xs) = true /\
  Rabs (B2R (cell_sum_after B32 xs) - BRsum 24 128 P24 M24 xs)
    <= 19 * uB 24 * BRasum 24 128 P24 M24 xs /\
  Rabs (B2R (cell_sum_after B32 xs) - rounded_exact_sum 24 128 P24 M24 xs)
    <= 20 * uB 24 * BRasum 24 128 P24 M24 xs.
Proof.
  intros HN Fxs Hmag. unfold cell_sum_after. rewrite (cell_run_sum B32 xs).
  assert (H6 : (6 <= 24)%Z) by lia.
  assert (Hr : IZR 10000000 * uB 24 <= 6/10) by (rewrite u24; lra).
  assert (Hr1 : 6/10 <= 1) by lra.
  destruct (kahan_error_bound_float_calls 24 128 P24 M24 H6 xs 10000000 (6/10) HN Hr Hr1 Fxs Hmag)
    as (Hf & H1 & H2).
  split; [exact Hf|]. split.
  - eapply Rle_trans; [exact H1|]. right. field.
  - eapply Rle_trans; [exact H2|]. right. field.
Qed.

Lemma kahan_float64 (xs : list B64) :
  (Z.of_nat (length xs) <= 10000000)%Z ->
  all_finite 53 1024 P53 M53 xs -> 4 * BRasum 53 1024 P53 M53 xs < bpow radix2 1024 ->
  is_finite (cell_sum_after B64 xs) = true /\
  Rabs (B2R (cell_sum_after B64 xs) - BRsum 53 1024 P53 M53 xs)
    <= 8 * uB 53 * BRasum 53 1024 P53 M53 xs /\
  Rabs (B2R (cell_sum_after B64 xs) - rounded_exact_sum 53 1024 P53 M53 xs)
    <= 9 * uB 53 * BRasum 53 1024 P53 M53 xs.
Proof.
  intros HN Fxs Hmag. unfold cell_sum_after. rewrite (cell_run_sum B64 xs).
  assert (H6 : (6 <= 53)%Z) by lia.
  assert (Hr : IZR 10000000 * uB 53 <= 1/20) by (rewrite u53; lra).
  assert (Hr1 : 1/20 <= 1) by lra.
  destruct (kahan_error_bound_float_calls 53 1024 P53 M53 H6 xs 10000000 (1/20) HN Hr Hr1 Fxs Hmag)
    as (Hf & H1 & H2).
  split; [exact Hf|]. split.
  - eapply Rle_trans; [exact H1|]. right. field.
  - eapply Rle_trans; [exact H2|]. right. field.
Qed.

Lemma kahan_float80 (xs : list B80) :
  (Z.of_nat (length xs) <= 10000000)%Z ->
  all_finite 64 16384 P64 M64 xs -> 4 * BRasum 64 16384 P64 M64 xs < bpow radix2 16384 ->
  is_finite (cell_sum_after B80 xs) = true /\
  Rabs (B2R (cell_sum_after B80 xs) - BRsum 64 16384 P64 M64 xs)
    <= 8 * uB 64 * BRasum 64 16384 P64 M64 xs /\
  Rabs (B2R (cell_sum_after B80 xs) - rounded_exact_sum 64 16384 P64 M64 xs)
    <= 9 * uB 64 * BRasum 64 16384 P64 M64 xs.
Proof.
  intros HN Fxs Hmag. unfold cell_sum_after. rewrite (cell_run_sum B80 xs).
  assert (H6 : (6 <= 64)%Z) by lia.
  assert (Hr : IZR 10000000 * uB 64 <= 1/20) by (rewrite u64; lra).
  assert (Hr1 : 1/20 <= 1) by lra.
  destruct (kahan_error_bound_float_calls 64 16384 P64 M64 H6 xs 10000000 (1/20) HN Hr Hr1 Fxs Hmag)
    as (Hf & H1 & H2).
  split; [exact Hf|]. split.
  - eapply Rle_trans; [exact H1|]. right. field.
  - eapply Rle_trans; [exact H2|]. right. field.
Qed.

(** ** 4. Non-vacuity *)

(* a non-trivial pair of rounded operations satisfying the standard model for ALL reals: rounding to
   nearest even to 24 significant bits with unbounded exponent range *)
Definition ex14_rnd (x : R) : R := round radix2 (FLX_exp 24) ZnearestE x.
Definition ex14_fadd (a b : R) : R := ex14_rnd (a + b).
Definition ex14_fsub (a b : R) : R := ex14_rnd (a - b).

Lemma ex14_rnd_model x : exists d, Rabs d <= uB 24 /\ ex14_rnd x = x * (1 + d).
Proof.
  assert (P : Prec_gt_0 24) by reflexivity.
  destruct (@relative_error_N_FLX_ex radix2 24 P (fun x => negb (Z.even x)) x) as (d & Hd & E).
  exists d. split; [|exact E].
  fold (u_ro radix2 24) in Hd. rewrite (u_ro_uB 24) in Hd. exact Hd.
Qed.

Lemma ex14_model_hyps :
  0 <= uB 24 /\ uB 24 <= /64 /\
  (forall a b, exists d, Rabs d <= uB 24 /\ ex14_fadd a b = (a + b) * (1 + d)) /\
  (forall a b, exists d, Rabs d <= uB 24 /\ ex14_fsub a b = (a - b) * (1 + d)) /\
  INR (length [16777216; 1; 1; -16777216]) * uB 24 <= 1.
Proof.
  split; [apply uB_pos|]. split; [apply uB_le; lia|].
  split; [intros a b; apply ex14_rnd_model|]. split; [intros a b; apply ex14_rnd_model|].
  rewrite u24. cbn [length INR]. lra.
Qed.

(* double precision: 2^53, 1, 1.  Plain summation returns 2^53 (both ones are lost to ties-to-even);
   [accumulate] returns 2^53 + 2, the exact sum. *)
Definition ex14_big : B64 := @B754_finite 53 1024 false 4503599627370496 1 eq_refl.      (* 2^52 * 2^1 *)
Definition ex14_one : B64 := @B754_finite 53 1024 false 4503599627370496 (-52) eq_refl.  (* 2^52 * 2^-52 *)
Definition ex14_xs : list B64 := [ex14_big; ex14_one; ex14_one].
Definition ex14_naive : B64 := fold_left (add B64) ex14_xs (zero B64).

Definition outrep_eqb (a b : outrep) : bool :=
  match a, b with
  | ONan, ONan => true
  | OInf s1, OInf s2 => Bool.eqb s1 s2
  | OZero s1, OZero s2 => Bool.eqb s1 s2
  | OFin s1 m1 e1, OFin s2 m2 e2 => Bool.eqb s1 s2 && Pos.eqb m1 m2 && Z.eqb e1 e2
  | _, _ => false
  end.

(* compared through the wire representation (sign, mantissa, exponent) *)
Definition ex14_check : bool :=
  outrep_eqb (Bout 53 1024 (cell_sum_after B64 ex14_xs)) (OFin false 4503599627370497 1) &&   (* 2^53 + 2 *)
  outrep_eqb (Bout 53 1024 (run_sum (acc_run B64 ex14_xs))) (OFin false 4503599627370497 1) &&
  outrep_eqb (Bout 53 1024 ex14_naive) (OFin false 4503599627370496 1) &&                      (* 2^53 *)
  outrep_eqb (Bout 53 1024 (run_comp (acc_run B64 [ex14_big; ex14_one]))) (OFin true 4503599627370496 (-52)). (* -1 *)

Lemma c14_example : ex14_check = true.
Proof. vm_compute. reflexivity. Qed.

Lemma ex14_big_R : B2R ex14_big = 9007199254740992.
Proof. unfold ex14_big, B2R, F2R. cbn. lra. Qed.
Lemma ex14_one_R : B2R ex14_one = 1.
Proof.
  unfold ex14_one, B2R, F2R. cbn [Fnum Fexp cond_Zopp bpow].
  change (Z.pow_pos radix2 52) with 4503599627370496%Z. field.
Qed.

(* the hypotheses of the float theorems hold for this list, and the exact sum is 2^53 + 2 *)
Lemma ex14_float_hyps :
  all_finite 53 1024 P53 M53 ex14_xs /\
  4 * BRasum 53 1024 P53 M53 ex14_xs < bpow radix2 1024 /\
  INR (length ex14_xs) * uB 53 <= 1 /\
  (Z.of_nat (length ex14_xs) <= 10000000)%Z /\
  BRsum 53 1024 P53 M53 ex14_xs = 9007199254740994.
Proof.
  split; [repeat constructor|].
  assert (A : BRasum 53 1024 P53 M53 ex14_xs = 9007199254740994).
  { unfold BRasum, ex14_xs. cbn [map Rasum]. rewrite ex14_big_R, ex14_one_R.
    rewrite !Rabs_pos_eq by lra. lra. }
  split.
  - rewrite A. apply Rlt_trans with (bpow radix2 60).
    + change (bpow radix2 60) with (IZR (Z.pow_pos 2 60)).
      change (Z.pow_pos 2 60) with 1152921504606846976%Z. lra.
    + apply bpow_lt. lia.
  - split; [rewrite u53; cbn [length ex14_xs INR]; lra|].
    split; [cbn; lia|].
    unfold BRsum, ex14_xs. cbn [map Rsum]. rewrite ex14_big_R, ex14_one_R. lra.
Qed.
