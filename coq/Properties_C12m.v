(** C12m - the MPI form of C12: the MPI drivers perform the requested iterations in order and stop only when
    the callback says so.  Statements only (proofs in Lemmas_C12m.v, building on Lemmas_C04.v).

    All theorems are about the lock-step model of Mpi.v ([mpi_loop], [mpi_plain_run], [mpi_vegas_run],
    [mpi_mc_run]), for every [Num], every integrand / map oracle, every calls list, every starting checkpoint.
    Hypotheses (those of C04): [world_ok world] (1 <= world < 2^31), calls < 2^64, [perm_ok world perm] (the
    reduction order is a non-empty list of valid ranks), [cb_rank_independent cb] (the rank-aware callback's
    DECISION does not depend on the rank - mpi_callback only changes the mode of the ranks > 0, see C20m), all
    ranks start from the same checkpoint, generator and adaptive state ([agree]).

    [MExec cs c g a logs tr c' g' a' rest] (Lemmas_C12m.v) is the relational specification of the loop of all
    ranks: "all ranks iterate; all-reduce; every rank adds the same result and invokes its callback once; stop
    at the first false".  [tr] lists, per performed iteration, the data common to all ranks ([miter]: calls,
    checkpoint / generator / adaptive state before, result added, checkpoint handed to the callbacks, the
    common answer); [miter_ok ls t] ties the ranks' log records [ls] of that iteration to it: [world] records,
    record r = rank r's local part (its share of the calls, sampled with the common adaptive state) followed
    by exactly ONE callback invocation on [rl_chk] = the common checkpoint with answer [rl_continue] = cb r
    [rl_chk] = the common answer.

    What is proved: C12m_*_rank_protocol (the whole protocol for the three drivers, end to end, in terms of the
    ranks' own log records); C12m_loop_exec (a defined run of the generic loop IS an [MExec]); C12m_protocol and
    C12m_rank_protocol (order, one invocation per rank and performed iteration, stop exactly at the first
    false, the returned checkpoint is the one every rank's last callback saw); C12m_results_so_far (the
    checkpoint handed to the callbacks of iteration i holds size c + i + 1 results); C12m_*_exec (the three
    drivers satisfy the side conditions); C12m_no_target / C12m_target / C12m_*_builtin (the built-in
    decision [decide target], e.g. mpi_callback in any mode: target not above zero => all requested
    iterations; positive target => stop exactly at the first iteration whose combined relative error is
    <= target, on every rank).

    What is NOT proved here: nothing is said about runs that return UB (C04_lockstep_loop classifies them: never
    a hang / mismatched collective under the hypotheses above); a callback whose decision DOES depend on the
    rank is outside the hypotheses (in the model such a run ends in UB 99 = a rank left waiting). *)
From Coq Require Import ZArith NArith List Bool.
From HepMC Require Import Num NumB Translated Result Accum VegasPdf Discrete MultiChannel Helper Iter Chkpt Callback Run Mpi
  Lemmas_Run Lemmas_C16 Lemmas_C10 Lemmas_C12 Lemmas_C04 Lemmas_C12m.
Import ListNotations.

(* a defined run of the generic loop of all ranks is an [MExec], and the returned rank states agree on what it ends with *)
Theorem C12m_loop_exec : forall (K : Num) (C S R : Type) world perm sub_calls usage
    (local_iter : S -> N -> N -> N -> res (R * N * N * list (event K))) plain_of extra_of rebuild
    (addc : C -> R -> N -> C) cb refine (Inv : S -> Prop) cs sts c g a sts' logs,
  world_ok world -> sub_calls_ok sub_calls -> cost_ok usage local_iter Inv -> refine_ok refine Inv ->
  template_ok local_iter plain_of extra_of Inv -> perm_ok world perm -> cb_rank_independent cb ->
  Forall (fun calls => (calls < 2 ^ 64)%N) cs -> length sts = N.to_nat world -> agree c g a sts -> Inv a ->
  mpi_loop C S R world perm sub_calls usage local_iter plain_of extra_of rebuild addc cb refine cs sts [] = Ok (sts', logs) ->
  exists tr c' g' a' rest,
    MExec C S R world sub_calls usage local_iter rebuild addc cb refine cs c g a logs tr c' g' a' rest /\
    agree c' g' a' sts' /\ length sts' = N.to_nat world /\ Inv a'.
Proof. exact (@mpi_loop_mexec). Qed.
Print Assumptions C12m_loop_exec.

(* order; one lock-step iteration (and so one callback invocation per rank) per performed iteration; the data
   threaded from one iteration to the next; stop immediately iff the common answer is false; what the ranks
   end with *)
Theorem C12m_protocol : forall (K : Num) (C S R : Type) world sub_calls usage
    (local_iter : S -> N -> N -> N -> res (R * N * N * list (event K))) rebuild
    (addc : C -> R -> N -> C) cb refine cs c g a logs tr c' g' a' rest,
  MExec C S R world sub_calls usage local_iter rebuild addc cb refine cs c g a logs tr c' g' a' rest ->
  (length tr = length logs /\ length cs = (length logs + length rest)%nat) /\
  (forall i ls, nth_error logs i = Some ls ->
     exists t, nth_error tr i = Some t /\ miter_ok C S R world sub_calls usage local_iter rebuild addc cb ls t /\
               nth_error cs i = Some (mi_calls t) /\ mi_gen t = (g + usage * sumN (firstn i cs))%N) /\
  ((forall t, nth_error tr 0 = Some t -> mi_prev t = c /\ mi_gen t = g /\ mi_aux t = a) /\
   (forall i t t', nth_error tr i = Some t -> nth_error tr (Datatypes.S i) = Some t' ->
      mi_go t = true /\ mi_prev t' = mi_chk t /\ mi_gen t' = (mi_gen t + usage * mi_calls t)%N /\
      refine (mi_chk t) (mi_aux t) (mi_result t) = Ok (mi_aux t'))) /\
  (Forall (fun t => mi_go t = true) (removelast tr) /\
   (rest <> [] -> exists tr0 t, tr = tr0 ++ [t] /\ mi_go t = false) /\
   (forall tr0 t, tr = tr0 ++ [t] -> mi_go t = true -> rest = [])) /\
  (c' = match rev tr with t :: _ => mi_chk t | [] => c end /\
   g' = (g + usage * sumN (firstn (length logs) cs))%N /\
   match rev tr with
   | t :: _ => if mi_go t then refine (mi_chk t) (mi_aux t) (mi_result t) = Ok a' else a' = mi_aux t
   | [] => a' = a
   end).
Proof. exact (@c12m_protocol). Qed.
Print Assumptions C12m_protocol.

(* the same in terms of the ranks' own records only: every rank answered "continue" after every iteration but
   possibly the last; iterations are skipped only because every rank's last answer was "stop"; one "continue"
   among the last answers means nothing was skipped; the common final checkpoint (every returned rank state
   holds it, by [agree] in C12m_loop_exec / C12m_*_exec) is the one every rank's last callback saw *)
Theorem C12m_rank_protocol : forall (K : Num) (C S R : Type) world sub_calls usage
    (local_iter : S -> N -> N -> N -> res (R * N * N * list (event K))) rebuild
    (addc : C -> R -> N -> C) cb refine cs c g a logs tr c' g' a' rest,
  MExec C S R world sub_calls usage local_iter rebuild addc cb refine cs c g a logs tr c' g' a' rest ->
  Forall (fun ls => Forall (fun l => rl_continue l = true) ls) (removelast logs) /\
  (rest <> [] -> exists logs0 ls, logs = logs0 ++ [ls] /\ Forall (fun l => rl_continue l = false) ls) /\
  (forall logs0 ls l, logs = logs0 ++ [ls] -> In l ls -> rl_continue l = true -> rest = []) /\
  match rev logs with ls :: _ => Forall (fun l => rl_chk l = c') ls | [] => c' = c end.
Proof. exact (@mexec_ranks). Qed.
Print Assumptions C12m_rank_protocol.

(* the checkpoint every rank hands to its callback after iteration i holds exactly the results so far *)
Theorem C12m_results_so_far : forall (K : Num) (C S R : Type) world sub_calls usage
    (local_iter : S -> N -> N -> N -> res (R * N * N * list (event K))) rebuild
    (addc : C -> R -> N -> C) cb refine (size : C -> nat),
  (forall c r g, size (addc c r g) = Datatypes.S (size c)) ->
  forall cs c g a logs tr c' g' a' rest,
  MExec C S R world sub_calls usage local_iter rebuild addc cb refine cs c g a logs tr c' g' a' rest ->
  forall i ls l, nth_error logs i = Some ls -> In l ls -> size (rl_chk l) = (size c + i + 1)%nat.
Proof. exact (@mexec_rank_sizes). Qed.
Print Assumptions C12m_results_so_far.

(* the three drivers ([plain_MExec] etc. are [MExec] at the driver's parameters; "size" for the three checkpoint
   kinds is C12_add_grows_by_one) *)
Theorem C12m_plain_exec : forall (K : Num) (strm : N -> K) ps f world perm d cb cs (c : pchk K) idx sts' logs,
  world_ok world -> perm_ok world perm -> cb_rank_independent cb -> Forall (fun calls => (calls < 2 ^ 64)%N) cs ->
  mpi_plain_run strm ps f world perm d cb cs c idx = Ok (sts', logs) ->
  exists g tr c' g' a' rest, base_gen c = Ok g /\ plain_MExec strm ps f world d cb cs c g tt logs tr c' g' a' rest /\
    agree c' g' a' sts' /\ length sts' = N.to_nat world.
Proof. exact (@c12m_plain_exec). Qed.
Print Assumptions C12m_plain_exec.

Theorem C12m_vegas_exec : forall (K : Num) (L : Libm K) (strm : N -> K) ps f world perm d cb cs (c : vchk K) idx sts' logs,
  world_ok world -> perm_ok world perm -> cb_rank_independent cb -> Forall (fun calls => (calls < 2 ^ 64)%N) cs ->
  mpi_vegas_run L strm ps f world perm d cb cs c idx = Ok (sts', logs) ->
  exists g p tr c' g' a' rest, base_gen (vc_base (vchk_dimensions c d)) = Ok g /\ vchk_pdf L (vchk_dimensions c d) = Ok p /\
    vegas_MExec L strm ps f world (pdf_dims p) cb cs (vchk_dimensions c d) g p logs tr c' g' a' rest /\
    agree c' g' a' sts' /\ length sts' = N.to_nat world /\ pdf_dims a' = pdf_dims p.
Proof. exact (@c12m_vegas_exec). Qed.
Print Assumptions C12m_vegas_exec.

Theorem C12m_mc_exec : forall (K : Num) (L : Libm K) (strm : N -> K) ps f world perm mp d channels cb cs (c : mchk K) idx sts' logs,
  world_ok world -> perm_ok world perm -> cb_rank_independent cb -> Forall (fun calls => (calls < 2 ^ 64)%N) cs ->
  mpi_mc_run L strm ps f world perm mp d channels cb cs c idx = Ok (sts', logs) ->
  exists g ws tr c' g' a' rest, base_gen (mc_base (mchk_channels c channels)) = Ok g /\ mchk_weights L (mchk_channels c channels) = Ok ws /\
    mc_MExec L strm ps f world mp d cb cs (mchk_channels c channels) g ws logs tr c' g' a' rest /\
    agree c' g' a' sts' /\ length sts' = N.to_nat world.
Proof. exact (@c12m_mc_exec). Qed.
Print Assumptions C12m_mc_exec.

(* end to end, in terms of the ranks' records only ([rank_protocol], Lemmas_C12m.v: a prefix of the request is
   performed; per performed iteration every rank invoked its callback exactly once, on one common checkpoint with
   (results at start) + i + 1 results, with answer cb rank checkpoint; all ranks answered "continue" after every
   iteration but possibly the last; iterations are skipped only after a unanimous "stop", never after a
   "continue"; every rank returns the checkpoint its last callback saw) *)
Theorem C12m_plain_rank_protocol : forall (K : Num) (strm : N -> K) ps f world perm d cb cs (c : pchk K) idx sts' logs,
  world_ok world -> perm_ok world perm -> cb_rank_independent cb -> Forall (fun calls => (calls < 2 ^ 64)%N) cs ->
  mpi_plain_run strm ps f world perm d cb cs c idx = Ok (sts', logs) ->
  rank_protocol world (fun c : pchk K => length (b_results c)) cb cs c sts' logs.
Proof. exact (@c12m_plain_rank_protocol). Qed.
Print Assumptions C12m_plain_rank_protocol.

Theorem C12m_vegas_rank_protocol : forall (K : Num) (L : Libm K) (strm : N -> K) ps f world perm d cb cs (c : vchk K) idx sts' logs,
  world_ok world -> perm_ok world perm -> cb_rank_independent cb -> Forall (fun calls => (calls < 2 ^ 64)%N) cs ->
  mpi_vegas_run L strm ps f world perm d cb cs c idx = Ok (sts', logs) ->
  rank_protocol world (fun c : vchk K => length (b_results (vc_base c))) cb cs (vchk_dimensions c d) sts' logs.
Proof. exact (@c12m_vegas_rank_protocol). Qed.
Print Assumptions C12m_vegas_rank_protocol.

Theorem C12m_mc_rank_protocol : forall (K : Num) (L : Libm K) (strm : N -> K) ps f world perm mp d channels cb cs (c : mchk K) idx sts' logs,
  world_ok world -> perm_ok world perm -> cb_rank_independent cb -> Forall (fun calls => (calls < 2 ^ 64)%N) cs ->
  mpi_mc_run L strm ps f world perm mp d channels cb cs c idx = Ok (sts', logs) ->
  rank_protocol world (fun c : mchk K => length (b_results (mc_base c))) cb cs (mchk_channels c channels) sts' logs.
Proof. exact (@c12m_mc_rank_protocol). Qed.
Print Assumptions C12m_mc_rank_protocol.

(* the definition of [rank_protocol], unfolded once so that the statement above can be read here *)
Theorem C12m_rank_protocol_meaning : forall (K : Num) (C S : Type) world (size : C -> nat) (cb : N -> C -> bool) cs c
    (sts' : list (rank_state C S)) (logs : list (list (@rank_log K C))),
  rank_protocol world size cb cs c sts' logs <->
  ((length logs <= length cs)%nat /\ length sts' = N.to_nat world /\
   (forall i ls, nth_error logs i = Some ls -> length ls = N.to_nat world /\
      exists ci, size ci = (size c + i + 1)%nat /\
        forall r l, nth_error ls r = Some l -> rl_chk l = ci /\ rl_continue l = cb (N.of_nat r) ci) /\
   Forall (fun ls => Forall (fun l => rl_continue l = true) ls) (removelast logs) /\
   (length logs < length cs -> exists logs0 ls, logs = logs0 ++ [ls] /\ Forall (fun l => rl_continue l = false) ls) /\
   (forall logs0 ls l, logs = logs0 ++ [ls] -> In l ls -> rl_continue l = true -> length logs = length cs) /\
   (forall st, In st sts' -> match rev logs with ls :: _ => forall l, In l ls -> rs_chk st = rl_chk l | [] => rs_chk st = c end)).
Proof. exact (fun K C S world size cb cs c sts' logs => iff_refl _). Qed.
Print Assumptions C12m_rank_protocol_meaning.

(* built-in decision on every rank, target not above zero: every requested iteration is performed *)
Theorem C12m_no_target_never_ends_early : forall (K : Num) (C S R : Type) world sub_calls usage
    (local_iter : S -> N -> N -> N -> res (R * N * N * list (event K))) rebuild
    (addc : C -> R -> N -> C) cb refine (mains : C -> list (mcres K)) (target : K),
  (forall r c, cb r c = decide target (mains c)) ->
  forall cs c g a logs tr c' g' a' rest,
  ltb K (zero K) target = false ->
  MExec C S R world sub_calls usage local_iter rebuild addc cb refine cs c g a logs tr c' g' a' rest ->
  rest = [] /\ length logs = length cs.
Proof. exact (@c12m_no_target). Qed.
Print Assumptions C12m_no_target_never_ends_early.

(* positive target: not before the combined relative error is <= target; skipped iterations only because the
   last performed one reached it; an iteration that reached it is the last performed one *)
Theorem C12m_target_ends_at_first_reached : forall (K : Num) (C S R : Type) world sub_calls usage
    (local_iter : S -> N -> N -> N -> res (R * N * N * list (event K))) rebuild
    (addc : C -> R -> N -> C) cb refine (mains : C -> list (mcres K)) (target : K),
  (forall r c, cb r c = decide target (mains c)) ->
  forall cs c g a logs tr c' g' a' rest,
  ltb K (zero K) target = true ->
  MExec C S R world sub_calls usage local_iter rebuild addc cb refine cs c g a logs tr c' g' a' rest ->
  Forall (fun t => leb K (rel_err_all (mains (mi_chk t))) target = false) (removelast tr) /\
  (length logs < length cs -> exists tr0 t, tr = tr0 ++ [t] /\ leb K (rel_err_all (mains (mi_chk t))) target = true) /\
  (forall i t, nth_error tr i = Some t -> leb K (rel_err_all (mains (mi_chk t))) target = true -> Datatypes.S i = length tr).
Proof. exact (@c12m_target). Qed.
Print Assumptions C12m_target_ends_at_first_reached.

(* end to end for the three drivers, in terms of the ranks' records ([builtin_stops], Lemmas_C12m.v): any
   rank-aware callback whose answers are the built-in decision's *)
Theorem C12m_plain_builtin : forall (K : Num) (strm : N -> K) ps f world perm d cb (target : K) cs (c : pchk K) idx sts' logs,
  world_ok world -> perm_ok world perm -> Forall (fun calls => (calls < 2 ^ 64)%N) cs ->
  (forall r c, cb r c = cb_plain target c) ->
  mpi_plain_run strm ps f world perm d cb cs c idx = Ok (sts', logs) ->
  builtin_stops (fun c : pchk K => map p_main (b_results c)) target cs logs.
Proof. exact (@c12m_plain_builtin). Qed.
Print Assumptions C12m_plain_builtin.

Theorem C12m_vegas_builtin : forall (K : Num) (L : Libm K) (strm : N -> K) ps f world perm d cb (target : K) cs (c : vchk K) idx sts' logs,
  world_ok world -> perm_ok world perm -> Forall (fun calls => (calls < 2 ^ 64)%N) cs ->
  (forall r c, cb r c = cb_vegas target c) ->
  mpi_vegas_run L strm ps f world perm d cb cs c idx = Ok (sts', logs) ->
  builtin_stops (fun c : vchk K => map (fun r => p_main (v_plain r)) (b_results (vc_base c))) target cs logs.
Proof. exact (@c12m_vegas_builtin). Qed.
Print Assumptions C12m_vegas_builtin.

Theorem C12m_mc_builtin : forall (K : Num) (L : Libm K) (strm : N -> K) ps f world perm mp d channels cb (target : K) cs (c : mchk K) idx sts' logs,
  world_ok world -> perm_ok world perm -> Forall (fun calls => (calls < 2 ^ 64)%N) cs ->
  (forall r c, cb r c = cb_mc target c) ->
  mpi_mc_run L strm ps f world perm mp d channels cb cs c idx = Ok (sts', logs) ->
  builtin_stops (fun c : mchk K => map (fun r => p_main (m_plain r)) (b_results (mc_base c))) target cs logs.
Proof. exact (@c12m_mc_builtin). Qed.
Print Assumptions C12m_mc_builtin.

(* non-vacuity: C04's example run (PLAIN, double precision, 3 ranks, reduction order 2,0,1) with the built-in
   decision on every rank and 4 requested iterations: with target 1/8 (> 0) all ranks stop together after the
   second iteration (answers true,true,true / false,false,false; checkpoints with 1 and 2 results; 2 results
   returned by every rank), with target 0 all 4 iterations are performed; the hypotheses of the theorems hold *)
Example C12m_example : ex12m_check = true /\ world_ok 3 /\ perm_ok 3 [2; 0; 1]%N /\
  (forall target, cb_rank_independent (fun (_ : N) (c : pchk B64) => cb_plain target c)) /\
  Forall (fun calls => (calls < 2 ^ 64)%N) [4; 5; 7; 4]%N.
Proof. exact c12m_example. Qed.
