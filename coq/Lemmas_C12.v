(** Lemmas for C12: iterations run in order and stop only when the callback says so. *)
From Coq Require Import ZArith NArith List Bool Lia Reals.
From Flocq Require Import Core BinarySingleNaN.
From HepMC Require Import Num NumB NumR Translated Result Accum VegasPdf Discrete MultiChannel Helper Iter Chkpt Callback Run Lemmas_Run.
Import ListNotations.

(** ** the protocol, for any integrator (any checkpoint type, iteration function, callback) *)
Section Protocol.
  Variables (C R Evt : Type).
  Variable gen_of : C -> res N.
  Variable iterate : C -> N -> N -> N -> res (R * N * N * list Evt).
  Variable add : C -> R -> N -> C.
  Variable cb : C -> bool.
  Notation run := (run C R Evt gen_of iterate add cb).
  Notation Exec := (Exec C R Evt iterate add cb).

  (** [ls] = the performed iterations in order (one log entry = one iteration followed by exactly one
      callback invocation on the checkpoint [il_chk]); [rest] = the requested iterations not performed *)
  Lemma c12_protocol cs c idx c' idx' ls :
    run cs c idx = Ok (c', idx', ls) ->
    exists g rest,
      gen_of c = Ok g /\ Exec cs c g idx ls c' idx' rest /\
      (* performed ++ skipped = requested, in order *)
      length cs = (length ls + length rest)%nat /\
      (* the callback answered "continue" after every iteration but possibly the last *)
      Forall (fun l => il_continue l = true) (removelast ls) /\
      (* iterations are skipped only because the last callback answered "stop" ... *)
      (rest <> [] -> exists ls0 l, ls = ls0 ++ [l] /\ il_continue l = false) /\
      (* ... and a "stop" answer ends the run immediately: if the last answer was "continue" nothing is skipped *)
      (forall ls0 l, ls = ls0 ++ [l] -> il_continue l = true -> rest = []) /\
      (* the returned checkpoint is the one the last callback invocation saw *)
      c' = match rev ls with l :: _ => il_chk l | [] => c end /\
      (* the i-th invocation saw the previous checkpoint plus exactly the result of iteration i, and its
         answer is the callback's value on that checkpoint *)
      (forall i l, nth_error ls i = Some l ->
         exists calls r gi, nth_error cs i = Some calls /\
           il_chk l = add (nth i (chks C Evt c ls) c) r gi /\ il_continue l = cb (il_chk l)).
  Proof.
    intros H. apply run_exec in H as (g & rest & Hg & Hex). exists g, rest.
    split; [exact Hg|]. split; [exact Hex|].
    split; [eapply exec_length; eauto|].
    destruct (exec_continue _ _ _ _ _ _ _ _ _ _ _ _ _ _ Hex) as (H1 & H2 & H3).
    split; [exact H1|]. split; [exact H2|]. split; [exact H3|].
    split; [eapply exec_result; eauto|].
    eapply exec_chain; eauto.
  Qed.

  (** "a checkpoint holding exactly the results so far" *)
  Lemma c12_results_so_far (size : C -> nat) :
    (forall c r g, size (add c r g) = S (size c)) ->
    forall cs c idx c' idx' ls, run cs c idx = Ok (c', idx', ls) ->
    forall i l, nth_error ls i = Some l -> size (il_chk l) = (size c + i + 1)%nat.
  Proof.
    intros Hs cs c idx c' idx' ls H. apply run_exec in H as (g & rest & Hg & Hex).
    eapply exec_sizes; eauto.
  Qed.
End Protocol.

(** the three checkpoint kinds do grow by exactly one result per [add] *)
Lemma size_pchk {K : Num} (c : pchk K) r g : length (b_results (base_add c r g)) = S (length (b_results c)).
Proof. unfold base_add. cbn. rewrite app_length. cbn. lia. Qed.
Lemma size_vchk {K : Num} (c : vchk K) r g :
  length (b_results (vc_base (vchk_add c r g))) = S (length (b_results (vc_base c))).
Proof. unfold vchk_add, base_add. cbn. rewrite app_length. cbn. lia. Qed.
Lemma size_mchk {K : Num} (c : mchk K) r g :
  length (b_results (mc_base (mchk_add c r g))) = S (length (b_results (mc_base c))).
Proof. unfold mchk_add, base_add. cbn. rewrite app_length. cbn. lia. Qed.

(** ** the built-in callback's decision *)
Section Decide.
  Context {K : Num}.

  (* target precision zero (or anything not above zero): never stop, whatever the results are *)
  Lemma decide_no_target target rs : ltb K (zero K) target = false -> decide target rs = true.
  Proof. intros H. unfold decide, Translated.perform_more_iterations. rewrite H. reflexivity. Qed.

  (* positive target: stop exactly when the combined relative error is <= target *)
  Lemma decide_target target rs : ltb K (zero K) target = true ->
    decide target rs = negb (leb K (rel_err_all rs) target).
  Proof. intros H. unfold decide, Translated.perform_more_iterations. rewrite H. reflexivity. Qed.
End Decide.

Lemma ltb_zero_zero_B prec emax H1 H2 :
  ltb (NumB prec emax H1 H2) (zero (NumB prec emax H1 H2)) (zero (NumB prec emax H1 H2)) = false.
Proof. reflexivity. Qed.
Lemma ltb_zero_zero_R : ltb NumR (zero NumR) (zero NumR) = false.
Proof. cbn. apply Rltb_false. apply Rle_refl. Qed.

(* in floating point a NaN relative error (0/0 for an integrand that is zero everywhere) is not <= target *)
Lemma leb_nan_B prec emax H1 H2 (t : binary_float prec emax) : leb (NumB prec emax H1 H2) B754_nan t = false.
Proof. reflexivity. Qed.

(** the run of any integrator with the built-in callback: where it ends *)
Section Builtin.
  Context {K : Num}.
  Variables (C R Evt : Type).
  Variable gen_of : C -> res N.
  Variable iterate : C -> N -> N -> N -> res (R * N * N * list Evt).
  Variable add : C -> R -> N -> C.
  Variable mains : C -> list (mcres K).
  Variable target : K.
  Notation cb := (fun c => decide target (mains c)).
  Notation run := (run C R Evt gen_of iterate add cb).

  Lemma c12_no_target_all_iterations cs c idx c' idx' ls :
    ltb K (zero K) target = false ->
    run cs c idx = Ok (c', idx', ls) -> length ls = length cs.
  Proof.
    intros Ht H. apply run_exec in H as (g & rest & Hg & Hex).
    pose proof (exec_length _ _ _ _ _ _ _ _ _ _ _ _ _ _ Hex) as Hl.
    destruct (exec_continue _ _ _ _ _ _ _ _ _ _ _ _ _ _ Hex) as (_ & H2 & _).
    destruct rest as [|x rest]; [cbn in Hl; lia|].
    destruct H2 as (ls0 & l & -> & Hc); [congruence|].
    assert (Hin : nth_error (ls0 ++ [l]) (length ls0) = Some l).
    { rewrite nth_error_app2 by lia. rewrite Nat.sub_diag. reflexivity. }
    destruct (exec_chain _ _ _ _ _ _ _ _ _ _ _ _ _ _ Hex _ _ Hin) as (_ & _ & _ & _ & _ & Hd).
    rewrite Hd, decide_no_target in Hc by exact Ht. discriminate.
  Qed.

  Lemma c12_target_stops_at_first cs c idx c' idx' ls :
    ltb K (zero K) target = true ->
    run cs c idx = Ok (c', idx', ls) ->
    (* not before: after every iteration but the last the combined relative error was not <= target *)
    Forall (fun l => leb K (rel_err_all (mains (il_chk l))) target = false) (removelast ls) /\
    (* and if iterations were skipped, the last performed one reached the target *)
    (length ls < length cs -> exists ls0 l, ls = ls0 ++ [l] /\ leb K (rel_err_all (mains (il_chk l))) target = true).
  Proof.
    intros Ht H. apply run_exec in H as (g & rest & Hg & Hex).
    pose proof (exec_length _ _ _ _ _ _ _ _ _ _ _ _ _ _ Hex) as Hl.
    destruct (exec_continue _ _ _ _ _ _ _ _ _ _ _ _ _ _ Hex) as (H1 & H2 & _).
    assert (Hd : forall l, In l ls -> il_continue l = negb (leb K (rel_err_all (mains (il_chk l))) target)).
    { intros l Hin. apply In_nth_error in Hin as (i & Hi).
      destruct (exec_chain _ _ _ _ _ _ _ _ _ _ _ _ _ _ Hex _ _ Hi) as (_ & _ & _ & _ & _ & Hd).
      rewrite Hd. apply decide_target. exact Ht. }
    split.
    - rewrite Forall_forall in *. intros l Hin.
      assert (Hin' : In l ls).
      { destruct ls as [|x ls]; [contradiction|]. 
        assert (E : x :: ls = removelast (x :: ls) ++ [last (x :: ls) x]) by (apply app_removelast_last; congruence).
        rewrite E. apply in_or_app. left. exact Hin. }
      specialize (H1 l Hin). rewrite (Hd l Hin') in H1. destruct (leb K _ target); [discriminate|reflexivity].
    - intros Hlt. destruct rest as [|x rest]; [cbn in Hl; lia|].
      destruct H2 as (ls0 & l & -> & Hc); [congruence|]. exists ls0, l. split; [reflexivity|].
      rewrite Hd in Hc by (apply in_or_app; right; left; reflexivity).
      destruct (leb K _ target); [reflexivity|discriminate].
  Qed.
End Builtin.

(** non-vacuity: a two-iteration PLAIN run on a constant integrand in double precision, no target:
    both iterations are performed although the relative error is exactly 0 *)
Definition ex_strm (n : N) : B64 := zero B64.
Definition ex_f : integrand B64 := fun _ => mk_iret (one B64) [] false.
Definition ex_run :=
  plain_run ex_strm [] ex_f 1 (cb_plain (zero B64)) [3; 3]%N (base_init 0%N) 0%N.
Lemma c12_example : match ex_run with Ok (c, _, ls) => length ls = 2%nat /\ length (b_results c) = 2%nat | UB _ => False end.
Proof. vm_compute. split; reflexivity. Qed.
