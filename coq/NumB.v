(** * NumB: IEEE-754 binary formats (Flocq) as instances of [Num].
    (24,128) = float, (53,1024) = double, (64,16384) = x87 long double.  No proofs beyond the
    precision side conditions Flocq asks for. *)
From Coq Require Import ZArith NArith List Bool.
From Flocq Require Import Core BinarySingleNaN.
From HepMC Require Import Num.

Section B.
  Variables prec emax : Z.
  Context (Hprec : FLX.Prec_gt_0 prec) (Hmax : Prec_lt_emax prec emax).
  Let F := binary_float prec emax.

  Definition BofZ (z : Z) : F := binary_normalize prec emax Hprec Hmax mode_NE z 0 false.
  Definition Bone' : F := BofZ 1.

  (* float -> size_t: defined only for values whose truncation lies in [0, 2^64) *)
  Definition Btrunc_N (x : F) : option N :=
    match x with
    | B754_nan | B754_infinity _ => None
    | _ => let z := Btrunc x in
           if (z <? 0)%Z then None else if (z <? 2 ^ 64)%Z then Some (Z.to_N z) else None
    end.

  Definition NumB : Num := {|
    T := F;
    zero := B754_zero false;
    one := Bone';
    inf := B754_infinity false;
    pred_one := Bpred Bone';
    add := Bplus mode_NE; sub := Bminus mode_NE; mul := Bmult mode_NE; div := Bdiv mode_NE;
    fsqrt := Bsqrt mode_NE;
    fabs := Babs;
    ofN := fun n => BofZ (Z.of_N n);
    trunc := Btrunc_N;
    eqb := Beqb; ltb := Bltb; leb := Bleb;
    isfinite := is_finite |}.

  (** wire representation used by the correspondence drivers *)
  Inductive outrep := ONan | OInf (s : bool) | OZero (s : bool) | OFin (s : bool) (m : positive) (e : Z).

  Definition Bout (x : F) : outrep :=
    match x with
    | B754_nan => ONan
    | B754_infinity s => OInf s
    | B754_zero s => OZero s
    | B754_finite s m e _ => OFin s m e
    end.

  (* value (-1)^s * m * 2^e, which the drivers only call with representable values *)
  Definition Bin (r : outrep) : F :=
    match r with
    | ONan => B754_nan
    | OInf s => B754_infinity s
    | OZero s => B754_zero s
    | OFin s m e =>
        let x := binary_normalize prec emax Hprec Hmax mode_NE (Zpos m) e false in
        if s then Bopp x else x
    end.

  (* structural equality of values (distinguishes the zeros, identifies NaNs): table lookups *)
  Definition Bsame (x y : F) : bool :=
    match x, y with
    | B754_nan, B754_nan => true
    | B754_infinity s1, B754_infinity s2 => Bool.eqb s1 s2
    | B754_zero s1, B754_zero s2 => Bool.eqb s1 s2
    | B754_finite s1 m1 e1 _, B754_finite s2 m2 e2 _ =>
        Bool.eqb s1 s2 && Pos.eqb m1 m2 && Z.eqb e1 e2
    | _, _ => false
    end.
End B.

Lemma P24 : FLX.Prec_gt_0 24. Proof. reflexivity. Qed.
Lemma M24 : Prec_lt_emax 24 128. Proof. reflexivity. Qed.
Lemma P53 : FLX.Prec_gt_0 53. Proof. reflexivity. Qed.
Lemma M53 : Prec_lt_emax 53 1024. Proof. reflexivity. Qed.
Lemma P64 : FLX.Prec_gt_0 64. Proof. reflexivity. Qed.
Lemma M64 : Prec_lt_emax 64 16384. Proof. reflexivity. Qed.

Definition B32 : Num := NumB 24 128 P24 M24.
Definition B64 : Num := NumB 53 1024 P53 M53.
Definition B80 : Num := NumB 64 16384 P64 M64.

(** A format bundle handed to the OCaml driver. *)
Record Fmt := {
  fnum : Num;
  fin_ : outrep -> fnum;
  fout : fnum -> outrep;
  fsame : fnum -> fnum -> bool }.

Definition Fmt32 : Fmt := {| fnum := B32; fin_ := Bin 24 128 P24 M24; fout := Bout 24 128; fsame := Bsame 24 128 |}.
Definition Fmt64 : Fmt := {| fnum := B64; fin_ := Bin 53 1024 P53 M53; fout := Bout 53 1024; fsame := Bsame 53 1024 |}.
Definition Fmt80 : Fmt := {| fnum := B80; fin_ := Bin 64 16384 P64 M64; fout := Bout 64 16384; fsame := Bsame 64 16384 |}.
