(** Lemmas for C20: reporting never changes or breaks a run.
    (a) the run depends on the callback only through its boolean answers; the built-in callback's answer
        is [decide], which has no mode argument (by construction of the model);
    (b) index safety of multi_channel_weight_info, minimal_weight_channels, the summary printer,
        make_list_of_ranges and multi_channel_max_difference, for every [Num] and every weight vector;
    (c) every checkpoint a multi-channel run hands to the callback satisfies the hypotheses of (b);
    (d) over the reals: the sorted weights are non-decreasing and the expected calls are defined. *)
From Coq Require Import ZArith NArith List Bool Lia Permutation Sorted Reals Lra.
From Flocq Require Import Core.
From HepMC Require Import Num NumR NumB Result Accum VegasPdf Discrete MultiChannel Helper Iter Chkpt Callback Run
  Lemmas_Run Lemmas_C12.
Import ListNotations.

(* ------------------------------------------------------------------------------------------- *)
(** * (a) modes *)

(** What one invocation of the built-in callback does, as far as the model goes: the answer, whether text is
    printed, and the checkpoint written to the file (if any).  Only the first component is returned to the
    integrator. *)
Record cb_effects (C : Type) := mk_cb_effects { ce_continue : bool; ce_prints : bool; ce_writes : option C }.
Arguments mk_cb_effects {C}. Arguments ce_continue {C}. Arguments ce_prints {C}. Arguments ce_writes {C}.

Definition builtin_callback {C : Type} (decision : C -> bool) (m : cbmode) (c : C) : cb_effects C :=
  mk_cb_effects (decision c) (mode_prints m) (if mode_writes m then Some c else None).

Section Modes.
  Context {K : Num}.
  Definition cb_of_mode_plain (m : cbmode) (target : K) (c : pchk K) : bool :=
    ce_continue (builtin_callback (cb_plain target) m c).
  Definition cb_of_mode_vegas (m : cbmode) (target : K) (c : vchk K) : bool :=
    ce_continue (builtin_callback (cb_vegas target) m c).
  Definition cb_of_mode_mc (m : cbmode) (target : K) (c : mchk K) : bool :=
    ce_continue (builtin_callback (cb_mc target) m c).

  Lemma c20_decision_mode_independent (m1 m2 : cbmode) (target : K) :
    (forall c, cb_of_mode_plain m1 target c = cb_of_mode_plain m2 target c) /\
    (forall c, cb_of_mode_vegas m1 target c = cb_of_mode_vegas m2 target c) /\
    (forall c, cb_of_mode_mc m1 target c = cb_of_mode_mc m2 target c) /\
    (* what is written is the checkpoint that was handed in, unchanged *)
    (forall (C : Type) (dec : C -> bool) m c, ce_writes (builtin_callback dec m c) = if mode_writes m then Some c else None).
  Proof. repeat split. Qed.
End Modes.

(** the driver loop sees a callback only through its answers *)
Section RunExt.
  Variables (C R Evt : Type).
  Variable gen_of : C -> res N.
  Variable iterate : C -> N -> N -> N -> res (R * N * N * list Evt).
  Variable add : C -> R -> N -> C.

  Lemma run_loop_ext (cb1 cb2 : C -> bool) : (forall c, cb1 c = cb2 c) ->
    forall cs c g idx log, run_loop C R Evt iterate add cb1 cs c g idx log = run_loop C R Evt iterate add cb2 cs c g idx log.
  Proof.
    intros E cs. induction cs as [|calls cs IH]; intros c g idx log; cbn [run_loop]; [reflexivity|].
    destruct (iterate c calls g idx) as [[[[r g1] idx1] evs]|code]; cbn [bind]; [|reflexivity].
    rewrite <- (E (add c r g1)). destruct (cb1 (add c r g1)); [apply IH|reflexivity].
  Qed.

  Lemma run_ext (cb1 cb2 : C -> bool) : (forall c, cb1 c = cb2 c) ->
    forall cs c idx, run C R Evt gen_of iterate add cb1 cs c idx = run C R Evt gen_of iterate add cb2 cs c idx.
  Proof.
    intros E cs c idx. unfold run. destruct (gen_of c) as [g|code]; cbn [bind]; [|reflexivity].
    apply run_loop_ext. exact E.
  Qed.

  (** an invariant of the checkpoints along a run, and a property of every checkpoint the callback sees *)
  Variable cb : C -> bool.
  Lemma exec_inv (P Q : C -> Prop) :
    (forall c calls g idx r g' idx' evs, P c -> iterate c calls g idx = Ok (r, g', idx', evs) ->
       P (add c r g') /\ Q (add c r g')) ->
    forall cs c g idx ls c' idx' rest, Exec C R Evt iterate add cb cs c g idx ls c' idx' rest ->
    P c -> Forall (fun l => Q (il_chk l)) ls.
  Proof.
    intros Hstep cs c g idx ls c' idx' rest Hex.
    induction Hex as [c g idx|calls cs c g idx l g' idx' Hok Hc|calls cs c g idx l g' idx' ls c' idx'' rest Hok Hc Hex IH]; intros HP.
    - constructor.
    - destruct Hok as (r & Hi & Eq & _). destruct (Hstep _ _ _ _ _ _ _ _ HP Hi) as [_ HQ].
      constructor; [rewrite Eq; exact HQ|constructor].
    - destruct Hok as (r & Hi & Eq & _). destruct (Hstep _ _ _ _ _ _ _ _ HP Hi) as [HP' HQ].
      constructor; [rewrite Eq; exact HQ|]. apply IH. rewrite Eq. exact HP'.
  Qed.
End RunExt.

Section RunModes.
  Context {K : Num}.
  Context (L : Libm K).
  Variable strm : N -> K.
  Variable ps : list (dparams K).
  Variable f : integrand K.
  Variable mp : mcmap K.

  Lemma c20_run_mode_independent (m1 m2 : cbmode) (target : K) :
    (forall d cs c idx, plain_run strm ps f d (cb_of_mode_plain m1 target) cs c idx
                      = plain_run strm ps f d (cb_of_mode_plain m2 target) cs c idx) /\
    (forall d cs c idx, vegas_run L strm ps f d (cb_of_mode_vegas m1 target) cs c idx
                      = vegas_run L strm ps f d (cb_of_mode_vegas m2 target) cs c idx) /\
    (forall d channels cs c idx, mc_run L strm ps f mp d channels (cb_of_mode_mc m1 target) cs c idx
                               = mc_run L strm ps f mp d channels (cb_of_mode_mc m2 target) cs c idx).
  Proof.
    split; [|split]; intros; apply run_ext; intros c0; reflexivity.
  Qed.

  (* any callback (user wrapper, MPI wrapper forcing silent mode on ranks > 0, ...) whose answers are those
     of the built-in decision gives the same run *)
  Lemma c20_run_answers_only (target : K) :
    (forall cb, (forall c, cb c = cb_plain target c) ->
       forall d cs c idx, plain_run strm ps f d cb cs c idx = plain_run strm ps f d (cb_plain target) cs c idx) /\
    (forall cb, (forall c, cb c = cb_vegas target c) ->
       forall d cs c idx, vegas_run L strm ps f d cb cs c idx = vegas_run L strm ps f d (cb_vegas target) cs c idx) /\
    (forall cb, (forall c, cb c = cb_mc target c) ->
       forall d channels cs c idx, mc_run L strm ps f mp d channels cb cs c idx
                                 = mc_run L strm ps f mp d channels (cb_mc target) cs c idx).
  Proof.
    split; [|split]; intros cb E; intros; apply run_ext; exact E.
  Qed.
End RunModes.

(* ------------------------------------------------------------------------------------------- *)
(** * (b) index safety, every [Num] *)

Lemma iotaN2_length n : forall s, length (iotaN2 s n) = n.
Proof. induction n as [|n IH]; intros s; cbn; [reflexivity|]. rewrite IH. reflexivity. Qed.

Lemma iotaN2_In n : forall s i, In i (iotaN2 s n) <-> (s <= i < s + N.of_nat n)%N.
Proof.
  induction n as [|n IH]; intros s i; cbn [iotaN2 In].
  - split; [contradiction|lia].
  - rewrite IH. split; [intros [H|H]; lia|intros H]. destruct (N.eq_dec s i); [left; auto|right; lia].
Qed.

Lemma iotaN2_NoDup n : forall s, NoDup (iotaN2 s n).
Proof.
  induction n as [|n IH]; intros s; cbn; constructor; [|apply IH].
  rewrite iotaN2_In. lia.
Qed.

Lemma iotaN2_snoc n : forall s, iotaN2 s (S n) = iotaN2 s n ++ [(s + N.of_nat n)%N].
Proof.
  induction n as [|n IH]; intros s.
  - cbn. rewrite N.add_0_r. reflexivity.
  - change (iotaN2 s (S (S n))) with (s :: iotaN2 (s + 1) (S n)). rewrite IH. cbn [iotaN2 app].
    do 3 f_equal. lia.
Qed.

Lemma insert_by_perm lt x l : Permutation (insert_by lt x l) (x :: l).
Proof.
  induction l as [|y l IH]; cbn [insert_by]; [reflexivity|].
  destruct (lt x y); [reflexivity|]. rewrite IH. apply perm_swap.
Qed.

Lemma stable_sort_perm lt l : Permutation (stable_sort lt l) l.
Proof.
  unfold stable_sort.
  assert (H : forall acc, Permutation (fold_left (fun acc x => insert_by lt x acc) l acc) (acc ++ l)).
  { induction l as [|x l IH]; intros acc; cbn [fold_left].
    - rewrite app_nil_r. reflexivity.
    - rewrite IH, insert_by_perm. apply (Permutation_middle acc l x). }
  apply (H []).
Qed.

Lemma count_le_front_le c l : (count_le_front c l <= N.of_nat (length l))%N.
Proof. induction l as [|x l IH]; cbn [count_le_front length]; [lia|]. destruct (c <? x)%N; lia. Qed.

Section Shape.
  Context {K : Num}.

  Lemma c20_weight_info_shape (calls : N) (ws : list K) :
    let wi := weight_info calls ws in
    let n := length ws in
    Permutation (wi_channels wi) (iotaN2 0 n) /\ NoDup (wi_channels wi) /\
    Forall (fun c => (c < N.of_nat n)%N) (wi_channels wi) /\
    length (wi_channels wi) = n /\ length (wi_weights wi) = n /\ length (wi_calls wi) = n /\
    wi_weights wi = map (fun c => nth (N.to_nat c) ws (zero K)) (wi_channels wi) /\
    (forall c, In c (wi_channels wi) -> exists w, nth_error ws (N.to_nat c) = Some w) /\
    (wi_min wi <= N.of_nat n)%N /\ ((1 <= n)%nat -> (1 <= wi_min wi)%N).
  Proof.
    intros wi n. unfold wi, weight_info. cbn [wi_channels wi_weights wi_calls wi_min].
    set (w := fun i : N => nth (N.to_nat i) ws (zero K)).
    set (chans := stable_sort (fun a b => ltb K (w a) (w b)) (iotaN2 0 (length ws))).
    assert (HP : Permutation chans (iotaN2 0 n)) by apply stable_sort_perm.
    assert (HL : length chans = n) by (rewrite (Permutation_length HP); apply iotaN2_length).
    assert (HF : Forall (fun c => (c < N.of_nat n)%N) chans).
    { apply Forall_forall. intros c Hc. apply (Permutation_in _ HP) in Hc. apply iotaN2_In in Hc. lia. }
    split; [exact HP|]. split; [apply (Permutation_NoDup (Permutation_sym HP)), iotaN2_NoDup|].
    split; [exact HF|]. split; [exact HL|]. split; [rewrite map_length; exact HL|].
    split; [rewrite !map_length; exact HL|]. split; [reflexivity|]. split.
    { intros c Hc. rewrite Forall_forall in HF. specialize (HF c Hc).
      destruct (nth_error ws (N.to_nat c)) as [x|] eqn:E; [exists x; reflexivity|].
      apply nth_error_None in E. fold n in E. lia. }
    match goal with |- (match ?p with [] => _ | _ => _ end <= _)%N /\ _ => set (plain := p) end.
    assert (HLp : length plain = n) by (unfold plain; rewrite !map_length; exact HL).
    split.
    - destruct plain as [|c pl] eqn:E; [lia|]. rewrite <- HLp. apply count_le_front_le.
    - intros Hn. destruct plain as [|c pl]; [cbn in HLp; lia|]. cbn [count_le_front].
      rewrite N.ltb_irrefl. lia.
  Qed.

  (** summary printer: indices into the three sorted arrays (all of length [channels]) *)
  Definition summary_indices_Z (channels minc : Z) : list Z :=
    let printable := (channels - minc)%Z in
    let printable := if (0 <? printable)%Z then (printable - 1)%Z else printable in
    let mid :=
      if (0 <? printable)%Z then
        if (printable <=? 11)%Z then map (fun i => (minc + Z.of_N i)%Z) (iotaN2 0 (Z.to_nat printable))
        else map (fun i => (minc + Z.of_N i)%Z) (iotaN2 0 5) ++ map (fun i => (channels - 5 - 1 + Z.of_N i)%Z) (iotaN2 0 5)
      else [] in
    mid ++ (if Z.eqb minc channels then [] else [(channels - 1)%Z]).

  Lemma c20_summary_indices_in_range (channels minc : N) :
    (1 <= minc <= channels)%N ->
    (* every index is in range, and is the index of a non-minimal entry *)
    Forall (fun i => (minc <= i < channels)%N) (summary_indices channels minc) /\
    (* the truncated subtractions of the model (and the modular ones of std::size_t) are exact *)
    map Z.of_N (summary_indices channels minc) = summary_indices_Z (Z.of_N channels) (Z.of_N minc) /\
    (* all non-minimal entries are printed when there are at most 12 of them, 5 + 5 + 1 otherwise *)
    length (summary_indices channels minc) = N.to_nat (if (channels - minc <=? 12)%N then channels - minc else 11).
  Proof.
    intros [H1 H2]. unfold summary_indices, summary_indices_Z.
    replace (Z.of_N channels - Z.of_N minc)%Z with (Z.of_N (channels - minc)) by lia.
    set (p0 := (channels - minc)%N).
    assert (Ep0 : (p0 = channels - minc)%N) by reflexivity. clearbody p0.
    destruct (N.ltb_spec 0 p0) as [Hp0|Hp0];
      [destruct (Z.ltb_spec 0 (Z.of_N p0)); [|lia]|destruct (Z.ltb_spec 0 (Z.of_N p0)); [lia|]].
    2:{ (* no non-minimal channel *)
      destruct (N.ltb_spec 0 p0); [lia|]. destruct (Z.ltb_spec 0 (Z.of_N p0)); [lia|].
      assert (E : minc = channels) by lia. subst minc. rewrite N.eqb_refl, Z.eqb_refl. cbn [app map length].
      split; [constructor|]. split; [reflexivity|]. cbn [length]. destruct (N.leb_spec p0 12); lia. }
    replace (Z.of_N p0 - 1)%Z with (Z.of_N (p0 - 1)) by lia.
    set (p := (p0 - 1)%N). assert (Ep : (p = p0 - 1)%N) by reflexivity. clearbody p.
    assert (Hne : N.eqb minc channels = false) by (apply N.eqb_neq; lia).
    assert (HneZ : Z.eqb (Z.of_N minc) (Z.of_N channels) = false) by (apply Z.eqb_neq; lia).
    rewrite Hne, HneZ.
    destruct (N.ltb_spec 0 p) as [Hp|Hp];
      [destruct (Z.ltb_spec 0 (Z.of_N p)); [|lia]|destruct (Z.ltb_spec 0 (Z.of_N p)); [lia|]].
    2:{ cbn [app map length]. split; [constructor; [lia|constructor]|]. split; [f_equal; lia|].
        destruct (N.leb_spec p0 12); lia. }
    destruct (N.leb_spec p 11) as [Hp11|Hp11];
      [destruct (Z.leb_spec (Z.of_N p) 11); [|lia]|destruct (Z.leb_spec (Z.of_N p) 11); [lia|]].
    - split; [|split].
      + apply Forall_app. split; [|constructor; [lia|constructor]].
        apply Forall_forall. intros i Hi. apply in_map_iff in Hi as (j & <- & Hj). apply iotaN2_In in Hj. lia.
      + rewrite map_app, map_map. cbn [map]. f_equal; [|f_equal; lia].
        replace (Z.to_nat (Z.of_N p)) with (N.to_nat p) by lia.
        apply map_ext. intros j. lia.
      + rewrite app_length, map_length, iotaN2_length. cbn [length]. destruct (N.leb_spec p0 12); lia.
    - split; [|split].
      + rewrite !Forall_app. split; [split|constructor; [lia|constructor]];
          apply Forall_forall; intros i Hi; apply in_map_iff in Hi as (j & <- & Hj); apply iotaN2_In in Hj; lia.
      + rewrite !map_app, !map_map. cbn [map iotaN2]. repeat (f_equal; try lia).
      + cbn [iotaN2 map app length]. destruct (N.leb_spec p0 12); lia.
  Qed.

  (** make_list_of_ranges *)
  Definition expand_range (r : N * N) : list N := iotaN2 (fst r) (N.to_nat (snd r + 1 - fst r)).

  Fixpoint ranges_maximal (rs : list (N * N)) : Prop :=
    match rs with
    | r1 :: ((r2 :: _) as tl) => fst r2 <> (snd r1 + 1)%N /\ ranges_maximal tl
    | _ => True
    end.

  Lemma ranges_from_flat l : forall a b, (a <= b)%N ->
    concat (map expand_range (ranges_from a b l)) = iotaN2 a (N.to_nat (b + 1 - a)) ++ l /\
    Forall (fun r => (fst r <= snd r)%N) (ranges_from a b l).
  Proof.
    induction l as [|x l IH]; intros a b Hab; cbn [ranges_from].
    - cbn [map concat]. unfold expand_range. cbn [fst snd]. rewrite app_nil_r. split; [reflexivity|].
      constructor; [exact Hab|constructor].
    - destruct (N.eqb_spec x (b + 1)) as [E|E].
      + destruct (IH a x ltac:(lia)) as [H1 H2]. split; [|exact H2]. rewrite H1. subst x.
        replace (N.to_nat (b + 1 + 1 - a)) with (S (N.to_nat (b + 1 - a))) by lia.
        rewrite iotaN2_snoc, <- app_assoc. cbn [app]. f_equal. f_equal. lia.
      + destruct (IH x x ltac:(lia)) as [H1 H2]. split; [|constructor; [exact Hab|exact H2]].
        cbn [map concat]. rewrite H1. unfold expand_range at 1. cbn [fst snd]. f_equal.
        replace (N.to_nat (x + 1 - x)) with 1%nat by lia. reflexivity.
  Qed.

  Lemma ranges_from_hd l : forall a b, exists b' rest, ranges_from a b l = (a, b') :: rest.
  Proof.
    induction l as [|x l IH]; intros a b; cbn [ranges_from]; [eauto|].
    destruct (N.eqb x (b + 1)); [apply IH|eauto].
  Qed.

  Lemma ranges_from_maximal l : forall a b, ranges_maximal (ranges_from a b l).
  Proof.
    induction l as [|x l IH]; intros a b; cbn [ranges_from]; [exact I|].
    destruct (N.eqb_spec x (b + 1)) as [E|E]; [apply IH|].
    destruct (ranges_from_hd l x x) as (b' & rest & Eq). specialize (IH x x). rewrite Eq in *.
    cbn [ranges_maximal fst snd]. split; [exact E|exact IH].
  Qed.

  Lemma c20_list_of_ranges_covers (l : list N) :
    concat (map expand_range (list_of_ranges l)) = l /\
    Forall (fun r => (fst r <= snd r)%N) (list_of_ranges l) /\
    ranges_maximal (list_of_ranges l) /\
    (length (list_of_ranges l) <= length l)%nat.
  Proof.
    destruct l as [|x l]; cbn [list_of_ranges].
    - repeat split; constructor.
    - destruct (ranges_from_flat l x x ltac:(lia)) as [H1 H2]. split; [|split; [exact H2|split; [apply ranges_from_maximal|]]].
      + rewrite H1. replace (N.to_nat (x + 1 - x)) with 1%nat by lia. reflexivity.
      + assert (H : forall l a b, (length (ranges_from a b l) <= S (length l))%nat).
        { clear. induction l as [|y l IH]; intros a b; cbn [ranges_from length]; [lia|].
          destruct (N.eqb y (b + 1)); [specialize (IH a y); lia|cbn [length]; specialize (IH y y); lia]. }
        cbn [length]. apply H.
  Qed.

  (** multi_channel_max_difference *)
  Lemma c20_pairs_max_defined (adj : list K) :
    (adj <> [] -> exists m, pairs_max adj = Ok m) /\ (adj = [] -> pairs_max adj = UB 71).
  Proof.
    split.
    - intros H. destruct adj as [|a adj]; [congruence|]. unfold pairs_max. eexists. reflexivity.
    - intros ->. reflexivity.
  Qed.

  (** everything the multi-channel summary needs from the newest result *)
  Definition summary_safe (r : mcres_mc K) : Prop :=
    let wi := weight_info (r_calls (p_main (m_plain r))) (m_weights r) in
    let n := length (m_weights r) in
    (* multi_channel_max_difference *)
    (exists mx, pairs_max (m_adj r) = Ok mx) /\
    (* the three sorted arrays have one entry per channel; weights().front(), calls().front() exist *)
    (1 <= n)%nat /\ length (wi_channels wi) = n /\ length (wi_weights wi) = n /\ length (wi_calls wi) = n /\
    (* the comparator's .at(a), .at(b) and the transform's .at(index) are in range *)
    Forall (fun c => (c < N.of_nat n)%N) (wi_channels wi) /\
    (* minimal_weight_channels: begin() + count stays inside the vector; its ranges cover it *)
    (1 <= wi_min wi <= N.of_nat n)%N /\
    (let mins := firstn (N.to_nat (wi_min wi)) (wi_channels wi) in
     length mins = N.to_nat (wi_min wi) /\ concat (map expand_range (list_of_ranges mins)) = mins) /\
    (* the weight_printer's .at(index) on all three arrays *)
    Forall (fun i => (i < N.of_nat n)%N) (summary_indices (N.of_nat n) (wi_min wi)).

  Lemma summary_safe_of_lengths (r : mcres_mc K) :
    (1 <= length (m_weights r))%nat -> length (m_adj r) = length (m_weights r) -> summary_safe r.
  Proof.
    intros Hn Ha. unfold summary_safe.
    destruct (c20_weight_info_shape (r_calls (p_main (m_plain r))) (m_weights r)) as (HP & HND & HF & L1 & L2 & L3 & _ & _ & M1 & M2).
    cbv zeta in *. specialize (M2 Hn).
    split. { apply c20_pairs_max_defined. intros E. rewrite E in Ha. cbn in Ha. lia. }
    split; [exact Hn|]. split; [exact L1|]. split; [exact L2|]. split; [exact L3|]. split; [exact HF|].
    split; [lia|]. split.
    - split; [rewrite firstn_length, L1; lia|apply c20_list_of_ranges_covers].
    - destruct (c20_summary_indices_in_range (N.of_nat (length (m_weights r))) (wi_min (weight_info (r_calls (p_main (m_plain r))) (m_weights r)))) as (H & _); [lia|].
      eapply Forall_impl; [|exact H]. cbn beta. intros i Hi. lia.
  Qed.
End Shape.

(* ------------------------------------------------------------------------------------------- *)
(** * (c) the states a run can reach *)
Section Reach.
  Context {K : Num}.
  Context (L : Libm K).
  Variable strm : N -> K.
  Variable ps : list (dparams K).
  Variable f : integrand K.
  Variable mp : mcmap K.

  Lemma add_dens_length : forall (adj dens : list K) sq r, add_dens adj dens sq = Ok r -> length r = length adj.
  Proof.
    induction adj as [|a adj IH]; intros dens sq r H; cbn [add_dens] in H.
    - injection H as <-. reflexivity.
    - destruct dens as [|d dens]; [discriminate|]. apply bind_Ok in H as (rest & Hr & H). injection H as <-.
      cbn [length]. f_equal. eapply IH; eauto.
  Qed.

  Lemma mc_step_adj_length d ws cum en s s' : mc_step strm ps f mp d ws cum en s = Ok s' ->
    length (it_adj s') = length (it_adj s).
  Proof.
    unfold mc_step. destruct (m_dens mp _ _ _ _ _) as [jac dens]. intros H.
    apply bind_Ok in H as (w & _ & H). apply bind_Ok in H as ([a v] & _ & H).
    apply bind_Ok in H as (adj & Hadj & H). injection H as <-. cbn [it_adj].
    destruct (eqb K v (zero K)); [injection Hadj as <-; reflexivity|eapply add_dens_length; eauto].
  Qed.

  Lemma mc_iteration_lengths d ws calls g idx r g' idx' tr :
    mc_iteration strm ps f mp d ws calls g idx = Ok (r, g', idx', tr) ->
    m_weights r = ws /\ length (m_adj r) = length ws.
  Proof.
    unfold mc_iteration. intros H. apply bind_Ok in H as (s & Hl & H). injection H as <- _ _ _.
    cbn [m_weights m_adj]. split; [reflexivity|].
    revert Hl. apply (iter_loop_ind _ (fun _ s => length (it_adj s) = length ws)).
    - cbn [it_adj]. apply repeat_length.
    - intros k s1 s2 H1 Hs. apply mc_step_adj_length in Hs. congruence.
  Qed.

  Lemma raw_weights_length : forall (ws data : list K) beta raw, raw_weights L ws data beta = Ok raw -> length raw = length ws.
  Proof.
    induction ws as [|w ws IH]; intros data beta raw H; cbn [raw_weights] in H.
    - injection H as <-. reflexivity.
    - destruct data as [|d data]; [discriminate|]. apply bind_Ok in H as (rest & Hr & H). injection H as <-.
      cbn [length]. f_equal. eapply IH; eauto.
  Qed.

  Lemma refine_weights_length ws data minw beta ws' :
    refine_weights L ws data minw beta = Ok ws' -> length ws' = length ws.
  Proof.
    unfold refine_weights. intros H. apply bind_Ok in H as (raw & Hr & H). apply raw_weights_length in Hr.
    destruct (eqb K _ (zero K)); injection H as <-; [reflexivity|]. rewrite !map_length. exact Hr.
  Qed.

  (** well-formed multi-channel checkpoint with [n] channels: what every constructor, [add] and the text
      reader of a checkpoint written by a run produce *)
  Definition mc_wf (n : nat) (c : mchk K) : Prop :=
    length (mc_first c) = n /\
    Forall (fun r => length (m_weights r) = n /\ length (m_adj r) = n) (b_results (mc_base c)).

  Lemma mchk_weights_wf n c ws : mc_wf n c -> mchk_weights L c = Ok ws -> length ws = n.
  Proof.
    intros [H1 H2] H. unfold mchk_weights in H. destruct (rev (b_results (mc_base c))) as [|r rs] eqn:E.
    - injection H as <-. exact H1.
    - apply refine_weights_length in H. rewrite H.
      assert (Hin : In r (b_results (mc_base c))) by (apply in_rev; rewrite E; left; reflexivity).
      rewrite Forall_forall in H2. apply (H2 r Hin).
  Qed.

  Lemma mc_wf_default minw beta g n : mc_wf (N.to_nat n) (mchk_channels (mchk_default minw beta g) n).
  Proof.
    unfold mchk_channels, mchk_default. cbn [mc_first]. split; cbn; [apply repeat_length|constructor].
  Qed.

  Lemma mc_wf_user ws minw beta g c n : ws <> [] -> mchk_user L ws minw beta g = Ok c ->
    mc_wf (length ws) (mchk_channels c n).
  Proof.
    intros Hne H. unfold mchk_user in H. apply bind_Ok in H as (first & Hf & H). injection H as <-.
    apply refine_weights_length in Hf. unfold mchk_channels. cbn [mc_first].
    destruct first as [|x first]; [destruct ws; [congruence|discriminate]|].
    split; cbn; [exact Hf|constructor].
  Qed.

  Lemma c20_mc_summary_safe n d channels cb cs c idx c' idx' ls :
    (1 <= n)%nat -> mc_wf n (mchk_channels c channels) ->
    mc_run L strm ps f mp d channels cb cs c idx = Ok (c', idx', ls) ->
    Forall (fun l => exists rs r, b_results (mc_base (il_chk l)) = rs ++ [r] /\
                                  length (m_weights r) = n /\ length (m_adj r) = n /\ summary_safe r) ls.
  Proof.
    intros Hn Hwf H. unfold mc_run in H. apply run_exec in H as (g & rest & _ & Hex).
    refine (exec_inv _ _ _ _ _ _ (mc_wf n)
      (fun c0 => exists rs r, b_results (mc_base c0) = rs ++ [r] /\
                              length (m_weights r) = n /\ length (m_adj r) = n /\ summary_safe r)
      _ _ _ _ _ _ _ _ _ Hex Hwf).
    intros c0 calls g0 idx0 r g1 idx1 evs HP Hi. apply bind_Ok in Hi as (ws & Hw & Hi).
    apply mc_iteration_lengths in Hi as [E1 E2]. apply (mchk_weights_wf n) in Hw; [|exact HP].
    assert (L1 : length (m_weights r) = n) by congruence.
    assert (L2 : length (m_adj r) = n) by congruence.
    split.
    - destruct HP as [P1 P2]. split; [exact P1|]. unfold mchk_add, base_add. cbn.
      apply Forall_app. split; [exact P2|constructor; [auto|constructor]].
    - exists (b_results (mc_base c0)), r. split; [reflexivity|]. split; [exact L1|]. split; [exact L2|].
      apply summary_safe_of_lengths; lia.
  Qed.

  (** every checkpoint the built-in callback sees has at least one result: results.back() and
      results.size() - 1 of the per-iteration summary are defined (all three integrators) *)
  Lemma c20_results_nonempty :
    (forall d cb cs c idx c' idx' ls, plain_run strm ps f d cb cs c idx = Ok (c', idx', ls) ->
       Forall (fun l => exists rs r, b_results (il_chk l) = rs ++ [r]) ls) /\
    (forall d cb cs c idx c' idx' ls, vegas_run L strm ps f d cb cs c idx = Ok (c', idx', ls) ->
       Forall (fun l => exists rs r, b_results (vc_base (il_chk l)) = rs ++ [r]) ls) /\
    (forall d channels cb cs c idx c' idx' ls, mc_run L strm ps f mp d channels cb cs c idx = Ok (c', idx', ls) ->
       Forall (fun l => exists rs r, b_results (mc_base (il_chk l)) = rs ++ [r]) ls).
  Proof.
    split; [|split]; intros until ls; intros H; unfold plain_run, vegas_run, mc_run in H;
      apply run_exec in H as (g & rest & _ & Hex).
    - refine (exec_inv _ _ _ _ _ _ (fun _ => True) (fun c0 => exists rs r, b_results c0 = rs ++ [r]) _ _ _ _ _ _ _ _ _ Hex I).
      intros c0 calls g0 idx0 r g1 idx1 evs _ _. split; [exact I|]. eexists _, r. reflexivity.
    - refine (exec_inv _ _ _ _ _ _ (fun _ => True) (fun c0 => exists rs r, b_results (vc_base c0) = rs ++ [r]) _ _ _ _ _ _ _ _ _ Hex I).
      intros c0 calls g0 idx0 r g1 idx1 evs _ _. split; [exact I|]. eexists _, r. reflexivity.
    - refine (exec_inv _ _ _ _ _ _ (fun _ => True) (fun c0 => exists rs r, b_results (mc_base c0) = rs ++ [r]) _ _ _ _ _ _ _ _ _ Hex I).
      intros c0 calls g0 idx0 r g1 idx1 evs _ _. split; [exact I|]. eexists _, r. reflexivity.
  Qed.
End Reach.

(* ------------------------------------------------------------------------------------------- *)
(** * (d) over the reals *)
Local Open Scope R_scope.

Lemma insert_by_sorted (k : N -> R) x l :
  StronglySorted (fun a b => k a <= k b) l ->
  StronglySorted (fun a b => k a <= k b) (insert_by (fun a b => Rltb (k a) (k b)) x l).
Proof.
  induction l as [|y l IH]; intros H; cbn [insert_by].
  - constructor; constructor.
  - inversion H as [|? ? Hs Hf]; subst. destruct (Rltb (k x) (k y)) eqn:E.
    + apply Rltb_true in E. constructor; [exact H|]. constructor; [lra|].
      eapply Forall_impl; [|exact Hf]. cbn beta. intros z Hz. lra.
    + apply Rltb_false in E. constructor; [apply IH; exact Hs|].
      apply Forall_forall. intros z Hz. apply (Permutation_in _ (insert_by_perm _ x l)) in Hz.
      destruct Hz as [<-|Hz]; [exact E|]. rewrite Forall_forall in Hf. apply Hf. exact Hz.
Qed.

Lemma stable_sort_sorted (k : N -> R) l :
  StronglySorted (fun a b => k a <= k b) (stable_sort (fun a b => Rltb (k a) (k b)) l).
Proof.
  unfold stable_sort.
  assert (H : forall acc, StronglySorted (fun a b => k a <= k b) acc ->
    StronglySorted (fun a b => k a <= k b) (fold_left (fun acc x => insert_by (fun a b => Rltb (k a) (k b)) x acc) l acc)).
  { induction l as [|x l IH]; intros acc Ha; cbn [fold_left]; [exact Ha|]. apply IH. apply insert_by_sorted. exact Ha. }
  apply H. constructor.
Qed.

Lemma StronglySorted_map {A B} (R1 : A -> A -> Prop) (R2 : B -> B -> Prop) (g : A -> B) l :
  (forall a b, R1 a b -> R2 (g a) (g b)) -> StronglySorted R1 l -> StronglySorted R2 (map g l).
Proof.
  intros Hg. induction 1 as [|a l Hs IH Hf]; cbn [map]; constructor; [exact IH|].
  apply Forall_forall. intros y Hy. apply in_map_iff in Hy as (z & <- & Hz). rewrite Forall_forall in Hf. auto.
Qed.

Lemma c20_weights_sorted_R (calls : N) (ws : list R) :
  StronglySorted Rle (wi_weights (@weight_info NumR calls ws)).
Proof.
  unfold weight_info. cbn [wi_weights].
  eapply StronglySorted_map; [|apply (stable_sort_sorted (fun i => nth (N.to_nat i) ws 0))].
  cbn beta. auto.
Qed.

(* static_cast<std::size_t>(calls * weight) is defined for weights in [0, 1] and calls below 2^64 *)
Lemma Rtrunc_N_ok (x : R) (m : N) : 0 <= x <= IZR (Z.of_N m) -> (m < 2 ^ 64)%N ->
  exists n, Rtrunc_N x = Some n /\ (n <= m)%N.
Proof.
  intros [H0 H1] Hm. unfold Rtrunc_N.
  assert (Hz0 : (0 <= Ztrunc x)%Z).
  { rewrite Ztrunc_floor by exact H0. apply Zfloor_lub. exact H0. }
  assert (Hz1 : (Ztrunc x <= Z.of_N m)%Z).
  { rewrite Ztrunc_floor by exact H0. apply le_IZR. eapply Rle_trans; [apply Zfloor_lb|exact H1]. }
  destruct (Z.ltb_spec (Ztrunc x) 0); [lia|].
  destruct (Z.ltb_spec (Ztrunc x) (2 ^ 64)); [|lia].
  exists (Z.to_N (Ztrunc x)). split; [reflexivity|lia].
Qed.

Lemma c20_expected_calls_defined_R (calls : N) (ws : list R) :
  (calls < 2 ^ 64)%N -> Forall (fun w => 0 <= w <= 1) ws ->
  Forall (fun c => exists n, c = Ok n /\ (n <= calls)%N) (wi_calls (@weight_info NumR calls ws)).
Proof.
  intros Hc Hw. destruct (@c20_weight_info_shape NumR calls ws) as (_ & _ & HF & _ & _ & _ & _ & Hin & _).
  cbv zeta in *. unfold weight_info in *. cbn [wi_calls wi_channels] in *.
  apply Forall_forall. intros c Hc0. apply in_map_iff in Hc0 as (w & <- & Hw0).
  apply in_map_iff in Hw0 as (ch & <- & Hch). destruct (Hin ch Hch) as (w & Ew).
  rewrite (nth_error_nth _ _ _ Ew). rewrite Forall_forall in Hw. specialize (Hw w (nth_error_In _ _ Ew)).
  cbn [NumR trunc mul ofN]. destruct (Rtrunc_N_ok (IZR (Z.of_N calls) * w) calls) as (n & -> & Hn); [|exact Hc|eauto].
  assert (0 <= IZR (Z.of_N calls)) by (apply IZR_le; lia). split; nra.
Qed.

(* ------------------------------------------------------------------------------------------- *)
(** * non-vacuity *)
(* 20 channels in double precision, weights not sorted, two channels share the minimum, one disabled *)
Definition ex20_w (i : N) : B64 := div B64 (ofN B64 (N.modulo (i * 7 + 3) 10)) (ofN B64 100).
Definition ex20_ws : list B64 := map ex20_w (iotaN2 0 20).
Definition ex20_wi := weight_info 1000 ex20_ws.
Lemma c20_example_info :
  wi_channels ex20_wi = [1; 11; 4; 14; 7; 17; 0; 10; 3; 13; 6; 16; 9; 19; 2; 12; 5; 15; 8; 18]%N /\
  wi_min ex20_wi = 2%N /\
  summary_indices 20 (wi_min ex20_wi) = [2; 3; 4; 5; 6; 14; 15; 16; 17; 18; 19]%N /\
  list_of_ranges [1; 2; 3; 7; 9; 10]%N = [(1, 3); (7, 7); (9, 10)]%N /\
  summary_indices 3 1 = [1; 2]%N /\ summary_indices 1 1 = [] /\ summary_indices 14 1 = [1; 2; 3; 4; 5; 8; 9; 10; 11; 12; 13]%N.
Proof. vm_compute. repeat split; reflexivity. Qed.

(* a real two-iteration multi-channel run in double precision (two channels, libm replaced by a stand-in):
   same result in all four modes, and the summary of every checkpoint is safe *)
Definition ex20_L : Libm B64 := @Build_Libm B64 (fun x => x) (fun x _ => x).
Definition ex20_strm (n : N) : B64 := div B64 (ofN B64 (N.modulo (n * 5 + 1) 16)) (ofN B64 16).
Definition ex20_f : integrand B64 := fun o => mk_iret (add B64 (one B64) (hd (zero B64) (o_point o))) [] false.
Definition ex20_mp : mcmap B64 := @mk_mcmap B64 (fun _ _ us _ => us) (fun _ _ _ _ _ => (one B64, [one B64; one B64])).
Definition ex20_run (m : cbmode) :=
  mc_run ex20_L ex20_strm [] ex20_f ex20_mp 1 2 (cb_of_mode_mc m (zero B64)) [4; 4]%N (mchk_default (zero B64) (one B64) 0) 0.
Lemma c20_example_run :
  mc_wf 2 (mchk_channels (mchk_default (zero B64) (one B64) 0) 2) /\
  match ex20_run Verbose with Ok (c, _, ls) => length ls = 2%nat /\ length (b_results (mc_base c)) = 2%nat | UB _ => False end.
Proof. split; [apply (mc_wf_default (zero B64) (one B64) 0 2)|]. vm_compute. split; reflexivity. Qed.

(* the hypotheses of the real-number statements are satisfiable *)
Lemma c20_example_R : (1000 < 2 ^ 64)%N /\ Forall (fun w : R => 0 <= w <= 1) [/ 2; / 4; 0; / 4].
Proof. split; [reflexivity|]. repeat constructor; lra. Qed.
