(** C15 - rolling a checkpoint back to iteration k reproduces the run that stopped after k.
    Statements only (proofs in Lemmas_C15.v, which imports Lemmas_C03.v).

    WHAT IS PROVED.  For every [Num] K, every libm L, every random stream, distribution list,
    integrand, channel map and callback [cb] (law-generic: no arithmetic fact is used), about the model's
    own [base_rollback] (PLAIN; the base class of all three), [vchk_rollback], [mchk_rollback] and the
    drivers [plain_run], [vegas_run], [mc_run].

    Setting of the run theorems.  A run [X_run .. cb cs c0 idx = Ok (c, idx', ls)] starts from ANY
    checkpoint [c0] with m results (m = 0: fresh, default or user grid / weights; m > 0: a checkpoint
    that is itself being resumed) whose generator list has m + 1 entries, performs the iterations [ls]
    (one log entry per performed iteration: all requested ones, or fewer when [cb] answered "stop")
    and ends in [c], which has n = m + |ls| results.  [chks c0' ls] (Lemmas_Run) is the list of
    checkpoints: the prepared initial one ([c0' = c0], [vchk_dimensions c0 d], [mchk_channels c0 n]),
    then the one each callback invocation saw; [nth j ..] is the checkpoint after the first j
    iterations of this run.  Rollback targets are written k = m + j with j <= |ls|.

    - [C15_rollback_rejects]: k > n  ->  rollback = UB 41 (the C++ throws std::out_of_range), for the
      base class with any result type, VEGAS and multi-channel.
    - [C15_rollback_n_id]: rollback to n returns the checkpoint itself (Leibniz equal, every field), for
      every checkpoint with |generators| = |results| + 1.  [C15_gens_invariant]: that invariant holds
      for [base_init], is kept by [base_add] and by every successful rollback (and it is part of the
      well-formedness [wf_base] of C05, so re-read checkpoints have it).
    - [C15_rollback_spec_plain/_vegas/_multi_channel]: for every j <= |ls|, [rollback c (m + j) = Ok ck]
      where ck IS (Leibniz equality, hence identical serialisation, stated too) the checkpoint after the
      first j iterations, and that checkpoint is exactly what the truncated run [X_run cb (firstn j cs)
      c0 idx] returns, together with the first j log entries.  For j = 0, m = 0 the rolled-back VEGAS /
      multi-channel checkpoint stores the grid / weights recorded in result 0; the proof shows these
      are the grid / weights of the prepared initial checkpoint (iteration 0 sampled with exactly that
      state and recorded it), so even then all fields agree.  No hypothesis on the callback.
    - [C15_resume_after_rollback_plain/_vegas/_multi_channel]: running the remaining calls
      [skipn j cs] from the rolled-back checkpoint returns exactly the original final checkpoint [c], the
      original final integrand-call count and the original log entries j+1.. ([skipn j ls]): every
      event of every call, every checkpoint shown to the callback, every callback answer.  Side
      condition [j < |ls| \/ |ls| = |cs|]: either the original run went on after iteration j, or j
      is the end and nothing was left to do.  (If the callback stopped the original run exactly at j
      with calls left over, the original run has no iterations j+1.. to reproduce.)
      The integrand's call counter [idxj] (state of a stateful integrand object) is the one the
      truncated run ended with: the checkpoint does not store user state.
    - "read back from text": [C15_rollback_after_reload_plain]: a well-formed PLAIN checkpoint is
      re-read Leibniz-equal, so all of the above applies verbatim.
      [C15_rollback_after_reload_vegas/_multi_channel]: [vchk_reload d10 c] / [mchk_reload d10 c]
      (Lemmas_C03: serialise, then the stream constructor) succeeds on the final checkpoint; the re-read
      checkpoint differs from [c] (no first grid / weights, bin count 0), yet rollback to any
      k = m + j succeeds and gives [ck] with [vchk_eqv cj ck] (Lemmas_C03: same results, generators,
      alpha [beta, min weight], and same first grid [weights] when there are no results - exactly what
      the text shows), [ser ck = ser cj]; for j = 0 the first grid / weights are reconstructed from
      result 0.  Resuming from [ck] with ANY calls list and call counter gives a result related by
      [out_eqv] to resuming from [cj]: same UB code, or same call count, pairwise identical events and
      callback answers, textually identical checkpoints; in particular [skipn j cs] reproduces the
      original run up to text.  Hypotheses: the (prepared) INITIAL checkpoint is well formed in the
      sense of C05 ([wf_vchk (vchk_dimensions c0 d) = true] / [wf_mchk c0 = true]: array lengths match
      the stored counts; true for every fresh checkpoint, [C03_fresh_wf]) - well-formedness of the
      checkpoint being written then follows ([C03_reachable_wf]: iterations only produce well-formed
      results) - and the callback answers equally on textually identical checkpoints
      ([C03_builtin_callback_respects_text] proves this for the built-in callback).
    - [C15_rollback_respects_text]: rollback maps textually identical checkpoints to textually identical
      checkpoints (or the same error); [C15_rollback_rollback]: rolling back to k1 and then to
      k2 <= k1 equals rolling back to k2 directly.  With these two, targets k < m (inside the history
      the run was resumed from) reduce to the statement about the earlier run, and arbitrary histories
      run / reload / rollback / resume compose.

    NOT PROVED HERE.  (1) Well-formedness of the initial checkpoint of a run is a hypothesis of the reload
    theorems (proved for fresh checkpoints and preserved by runs, see C03; for a checkpoint that was itself
    read from a text it is C05's condition on that text).  (2) The decimal layer of the text (C05 part A); the text is the
    token list of Codec.v.  (3) Nothing is claimed for checkpoints whose generator list does not have
    |results| + 1 entries (not constructible through the public interface).

    The pinned (unrepaired) C++ cut the generator list one element too short and lost the first grid on
    rollback(0) after a reload; the model mirrors the repaired code (fix commits in /repo). *)
From Coq Require Import String ZArith NArith Bool List.
From HepMC Require Import Num NumB Result Accum VegasPdf Discrete MultiChannel Iter Chkpt Callback Run Codec
  Lemmas_Run Lemmas_C05 Lemmas_C12 Lemmas_C19 Lemmas_C03 Lemmas_C15.
Import ListNotations.

Theorem C15_rollback_rejects : forall K : Num,
  (forall (R : Type) (b : base R) k, (N.of_nat (length (b_results b)) < k)%N -> base_rollback b k = UB 41) /\
  (forall (c : vchk K) k, (N.of_nat (length (b_results (vc_base c))) < k)%N -> vchk_rollback c k = UB 41) /\
  (forall (c : mchk K) k, (N.of_nat (length (b_results (mc_base c))) < k)%N -> mchk_rollback c k = UB 41).
Proof. exact (@c15_rejects). Qed.
Print Assumptions C15_rollback_rejects.

Theorem C15_rollback_n_id : forall K : Num,
  (forall (R : Type) (b : base R), length (b_gens b) = S (length (b_results b)) ->
     base_rollback b (N.of_nat (length (b_results b))) = Ok b) /\
  (forall c : vchk K, length (b_gens (vc_base c)) = S (length (b_results (vc_base c))) ->
     vchk_rollback c (N.of_nat (length (b_results (vc_base c)))) = Ok c) /\
  (forall c : mchk K, length (b_gens (mc_base c)) = S (length (b_results (mc_base c))) ->
     mchk_rollback c (N.of_nat (length (b_results (mc_base c)))) = Ok c).
Proof. exact (@c15_n_id). Qed.
Print Assumptions C15_rollback_n_id.

Theorem C15_gens_invariant : forall R : Type,
  (forall g, @gens_inv R (base_init g)) /\
  (forall (b : base R) r g, gens_inv b -> gens_inv (base_add b r g)) /\
  (forall (b : base R) k b1, gens_inv b -> base_rollback b k = Ok b1 -> gens_inv b1).
Proof. exact (@gens_inv_all). Qed.
Print Assumptions C15_gens_invariant.

(** PLAIN *)
Theorem C15_rollback_spec_plain : forall (K : Num) strm ps f (digits10 : string) d cb cs (c0 : pchk K) idx c idx' ls,
  plain_run strm ps f d cb cs c0 idx = Ok (c, idx', ls) ->
  length (b_gens c0) = S (length (b_results c0)) ->
  forall j, j <= length ls ->
  exists ck idxj,
    base_rollback c (N.of_nat (length (b_results c0) + j)) = Ok ck /\
    ck = nth j (chks _ _ c0 ls) c0 /\
    plain_run strm ps f d cb (firstn j cs) c0 idx = Ok (ck, idxj, firstn j ls) /\
    ser_pchk digits10 ck = ser_pchk digits10 (nth j (chks _ _ c0 ls) c0).
Proof. exact (@c15_plain_rollback). Qed.
Print Assumptions C15_rollback_spec_plain.

Theorem C15_resume_after_rollback_plain : forall (K : Num) strm ps f d cb cs (c0 : pchk K) idx c idx' ls,
  plain_run strm ps f d cb cs c0 idx = Ok (c, idx', ls) ->
  length (b_gens c0) = S (length (b_results c0)) ->
  forall j, j <= length ls -> (j < length ls \/ length ls = length cs) ->
  exists ck idxj,
    base_rollback c (N.of_nat (length (b_results c0) + j)) = Ok ck /\
    plain_run strm ps f d cb (firstn j cs) c0 idx = Ok (ck, idxj, firstn j ls) /\
    plain_run strm ps f d cb (skipn j cs) ck idxj = Ok (c, idx', skipn j ls).
Proof. exact (@c15_plain_resume). Qed.
Print Assumptions C15_resume_after_rollback_plain.

Theorem C15_rollback_after_reload_plain : forall (K : Num) (digits10 : string) (c : pchk K),
  wf_pchk c = true -> plain_reload digits10 c = Ok c.
Proof. exact (@c15_plain_after_reload). Qed.
Print Assumptions C15_rollback_after_reload_plain.

(** VEGAS *)
Theorem C15_rollback_spec_vegas : forall (K : Num) (L : Libm K) strm ps f (digits10 : string) d cb cs (c0 : vchk K) idx c idx' ls,
  vegas_run L strm ps f d cb cs c0 idx = Ok (c, idx', ls) ->
  length (b_gens (vc_base c0)) = S (length (b_results (vc_base c0))) ->
  forall j, j <= length ls ->
  exists ck idxj t,
    vchk_rollback c (N.of_nat (length (b_results (vc_base c0)) + j)) = Ok ck /\
    ck = nth j (chks _ _ (vchk_dimensions c0 d) ls) (vchk_dimensions c0 d) /\
    vegas_run L strm ps f d cb (firstn j cs) c0 idx = Ok (ck, idxj, firstn j ls) /\
    ser_vchk digits10 ck = Ok t /\
    ser_vchk digits10 (nth j (chks _ _ (vchk_dimensions c0 d) ls) (vchk_dimensions c0 d)) = Ok t.
Proof. exact (@c15_vegas_rollback). Qed.
Print Assumptions C15_rollback_spec_vegas.

Theorem C15_resume_after_rollback_vegas : forall (K : Num) (L : Libm K) strm ps f d cb cs (c0 : vchk K) idx c idx' ls,
  vegas_run L strm ps f d cb cs c0 idx = Ok (c, idx', ls) ->
  length (b_gens (vc_base c0)) = S (length (b_results (vc_base c0))) ->
  forall j, j <= length ls -> (j < length ls \/ length ls = length cs) ->
  exists ck idxj,
    vchk_rollback c (N.of_nat (length (b_results (vc_base c0)) + j)) = Ok ck /\
    vegas_run L strm ps f d cb (firstn j cs) c0 idx = Ok (ck, idxj, firstn j ls) /\
    vegas_run L strm ps f d cb (skipn j cs) ck idxj = Ok (c, idx', skipn j ls).
Proof. exact (@c15_vegas_resume). Qed.
Print Assumptions C15_resume_after_rollback_vegas.

Theorem C15_rollback_after_reload_vegas : forall (K : Num) (L : Libm K) strm ps f (digits10 : string) d cb cs (c0 : vchk K) idx c idx' ls,
  (forall x y, vchk_eqv x y -> cb x = cb y) ->
  vegas_run L strm ps f d cb cs c0 idx = Ok (c, idx', ls) ->
  length (b_gens (vc_base c0)) = S (length (b_results (vc_base c0))) ->
  wf_vchk (vchk_dimensions c0 d) = true ->
  forall j, j <= length ls ->
  let k := N.of_nat (length (b_results (vc_base c0)) + j) in
  let cj := nth j (chks _ _ (vchk_dimensions c0 d) ls) (vchk_dimensions c0 d) in
  exists c_re ck,
    vchk_reload digits10 c = Ok c_re /\ vchk_rollback c_re k = Ok ck /\
    vchk_eqv cj ck /\ ser_vchk digits10 ck = ser_vchk digits10 cj /\
    (forall cs' idx1, out_eqv (vchk K) (event K) vchk_eqv
       (vegas_run L strm ps f d cb cs' cj idx1) (vegas_run L strm ps f d cb cs' ck idx1)) /\
    exists idxj, vegas_run L strm ps f d cb (firstn j cs) c0 idx = Ok (cj, idxj, firstn j ls) /\
      ((j < length ls \/ length ls = length cs) ->
       exists c2 ls2, vegas_run L strm ps f d cb (skipn j cs) ck idxj = Ok (c2, idx', ls2) /\
         vchk_eqv c c2 /\ Forall2 (log_eqv _ _ vchk_eqv) (skipn j ls) ls2 /\
         ser_vchk digits10 c2 = ser_vchk digits10 c).
Proof. exact (@c15_vegas_after_reload_wf). Qed.
Print Assumptions C15_rollback_after_reload_vegas.

(** multi-channel *)
Theorem C15_rollback_spec_multi_channel : forall (K : Num) (L : Libm K) strm ps f mp (digits10 : string) d n cb cs (c0 : mchk K) idx c idx' ls,
  mc_run L strm ps f mp d n cb cs c0 idx = Ok (c, idx', ls) ->
  length (b_gens (mc_base c0)) = S (length (b_results (mc_base c0))) ->
  forall j, j <= length ls ->
  exists ck idxj,
    mchk_rollback c (N.of_nat (length (b_results (mc_base c0)) + j)) = Ok ck /\
    ck = nth j (chks _ _ (mchk_channels c0 n) ls) (mchk_channels c0 n) /\
    mc_run L strm ps f mp d n cb (firstn j cs) c0 idx = Ok (ck, idxj, firstn j ls) /\
    ser_mchk digits10 ck = ser_mchk digits10 (nth j (chks _ _ (mchk_channels c0 n) ls) (mchk_channels c0 n)).
Proof. exact (@c15_mc_rollback). Qed.
Print Assumptions C15_rollback_spec_multi_channel.

Theorem C15_resume_after_rollback_multi_channel : forall (K : Num) (L : Libm K) strm ps f mp d n cb cs (c0 : mchk K) idx c idx' ls,
  mc_run L strm ps f mp d n cb cs c0 idx = Ok (c, idx', ls) ->
  length (b_gens (mc_base c0)) = S (length (b_results (mc_base c0))) ->
  forall j, j <= length ls -> (j < length ls \/ length ls = length cs) ->
  exists ck idxj,
    mchk_rollback c (N.of_nat (length (b_results (mc_base c0)) + j)) = Ok ck /\
    mc_run L strm ps f mp d n cb (firstn j cs) c0 idx = Ok (ck, idxj, firstn j ls) /\
    mc_run L strm ps f mp d n cb (skipn j cs) ck idxj = Ok (c, idx', skipn j ls).
Proof. exact (@c15_mc_resume). Qed.
Print Assumptions C15_resume_after_rollback_multi_channel.

Theorem C15_rollback_after_reload_multi_channel : forall (K : Num) (L : Libm K) strm ps f mp (digits10 : string) d n cb cs (c0 : mchk K) idx c idx' ls,
  (forall x y, mchk_eqv x y -> cb x = cb y) ->
  mc_run L strm ps f mp d n cb cs c0 idx = Ok (c, idx', ls) ->
  length (b_gens (mc_base c0)) = S (length (b_results (mc_base c0))) ->
  wf_mchk c0 = true ->
  forall j, j <= length ls ->
  let k := N.of_nat (length (b_results (mc_base c0)) + j) in
  let cj := nth j (chks _ _ (mchk_channels c0 n) ls) (mchk_channels c0 n) in
  exists c_re ck,
    mchk_reload digits10 c = Ok c_re /\ mchk_rollback c_re k = Ok ck /\
    mchk_eqv cj ck /\ ser_mchk digits10 ck = ser_mchk digits10 cj /\
    (forall cs' idx1, out_eqv (mchk K) (event K) mchk_eqv
       (mc_run L strm ps f mp d n cb cs' cj idx1) (mc_run L strm ps f mp d n cb cs' ck idx1)) /\
    exists idxj, mc_run L strm ps f mp d n cb (firstn j cs) c0 idx = Ok (cj, idxj, firstn j ls) /\
      ((j < length ls \/ length ls = length cs) ->
       exists c2 ls2, mc_run L strm ps f mp d n cb (skipn j cs) ck idxj = Ok (c2, idx', ls2) /\
         mchk_eqv c c2 /\ Forall2 (log_eqv _ _ mchk_eqv) (skipn j ls) ls2 /\
         ser_mchk digits10 c2 = ser_mchk digits10 c).
Proof. exact (@c15_mc_after_reload_wf). Qed.
Print Assumptions C15_rollback_after_reload_multi_channel.

(** histories *)
Theorem C15_rollback_respects_text : forall K : Num,
  (forall (c c' : vchk K) k, vchk_eqv c c' -> res_rel vchk_eqv (vchk_rollback c k) (vchk_rollback c' k)) /\
  (forall (c c' : mchk K) k, mchk_eqv c c' -> res_rel mchk_eqv (mchk_rollback c k) (mchk_rollback c' k)).
Proof. exact (@c15_rollback_text). Qed.
Print Assumptions C15_rollback_respects_text.

Theorem C15_rollback_rollback : forall K : Num,
  (forall (R : Type) (b b1 : base R) k1 k2, (k2 <= k1)%N -> base_rollback b k1 = Ok b1 ->
     base_rollback b1 k2 = base_rollback b k2) /\
  (forall (c c1 : vchk K) k1 k2, (k2 <= k1)%N -> vchk_rollback c k1 = Ok c1 -> vchk_rollback c1 k2 = vchk_rollback c k2) /\
  (forall (c c1 : mchk K) k1 k2, (k2 <= k1)%N -> mchk_rollback c k1 = Ok c1 -> mchk_rollback c1 k2 = mchk_rollback c k2).
Proof. exact (@c15_rollback_rollback). Qed.
Print Assumptions C15_rollback_rollback.

(** Non-vacuity: real runs in double precision satisfy every hypothesis (run succeeds, generator
    invariant of the initial checkpoint, all checkpoints well formed; the callbacks used read only the
    results or nothing): 3 VEGAS iterations of 8 calls whose grid moves (the run of Lemmas_C19), 2 PLAIN
    iterations (Lemmas_C12), 3 multi-channel iterations with 2 channels. *)
Example C15_example_vegas : exists c idx' ls,
  vegas_run ex19_L ex19_strm [] ex19_f 1 (fun _ => true) [8; 8; 8]%N exr_vegas_c0 0 = Ok (c, idx', ls) /\
  length ls = 3 /\ length (b_gens (vc_base exr_vegas_c0)) = S (length (b_results (vc_base exr_vegas_c0))) /\
  (forall x, In x (chks _ _ (vchk_dimensions exr_vegas_c0 1) ls) -> wf_vchk x = true).
Proof. exact exr_vegas. Qed.

Example C15_example_plain : exists c idx' ls,
  plain_run ex_strm [] ex_f 1 (cb_plain (zero B64)) [3; 3]%N exr_plain_c0 0 = Ok (c, idx', ls) /\
  length ls = 2 /\ length (b_gens exr_plain_c0) = S (length (b_results exr_plain_c0)) /\
  (forall x, In x (chks _ _ exr_plain_c0 ls) -> wf_pchk x = true).
Proof. exact exr_plain. Qed.

Example C15_example_multi_channel : exists c idx' ls,
  mc_run ex19_L ex19_strm [] ex19_f exr_mp 1 2 (fun _ => true) [4; 4; 4]%N exr_mc_c0 0 = Ok (c, idx', ls) /\
  length ls = 3 /\ length (b_gens (mc_base exr_mc_c0)) = S (length (b_results (mc_base exr_mc_c0))) /\
  (forall x, In x (chks _ _ (mchk_channels exr_mc_c0 2) ls) -> wf_mchk x = true).
Proof. exact exr_mc. Qed.

(* the theorems applied to the VEGAS run: rollback of the 3-iteration checkpoint to 1 is the checkpoint of
   the 1-iteration run and the remaining two iterations reproduce the original ones ... *)
Example C15_example_vegas_rollback_1 : exists c idx' ls ck idx1,
  vegas_run ex19_L ex19_strm [] ex19_f 1 (fun _ => true) [8; 8; 8]%N exr_vegas_c0 0 = Ok (c, idx', ls) /\
  vchk_rollback c 1 = Ok ck /\
  vegas_run ex19_L ex19_strm [] ex19_f 1 (fun _ => true) [8]%N exr_vegas_c0 0 = Ok (ck, idx1, firstn 1 ls) /\
  vegas_run ex19_L ex19_strm [] ex19_f 1 (fun _ => true) [8; 8]%N ck idx1 = Ok (c, idx', skipn 1 ls).
Proof. exact ex15_vegas_use. Qed.

(* ... and after writing the 3-iteration checkpoint to text and reading it back *)
Example C15_example_vegas_reload_rollback_1 : exists c idx' ls c_re ck c2 idx1 ls2,
  vegas_run ex19_L ex19_strm [] ex19_f 1 (fun _ => true) [8; 8; 8]%N exr_vegas_c0 0 = Ok (c, idx', ls) /\
  vchk_reload "17" c = Ok c_re /\ vchk_rollback c_re 1 = Ok ck /\
  vegas_run ex19_L ex19_strm [] ex19_f 1 (fun _ => true) [8; 8]%N ck idx1 = Ok (c2, idx', ls2) /\
  ser_vchk "17" c2 = ser_vchk "17" c.
Proof. exact ex15_vegas_reload_use. Qed.
