(** C08f - "the channel weights used for any iteration are finite, non-negative and sum to one",
    in floating point, for the final normalisation step of [refine_weights].
    Statements only (proofs in Lemmas_C08f.v, rounding facts in Lemmas_C09f.v).  Everything is about
    the model's own [clamp_sum], [clamp], [refine_weights] of MultiChannel.v instantiated with
    K := NumB prec emax (IEEE-754 binary format, round to nearest even).

    The last step of [refine_weights] is [map (fun w => div w new_sum) clamped] with
    [new_sum = clamp_sum clamped], a left fold of [add] from zero over the entries that do not
    compare equal to zero.

    Notation.  u = uB prec = 2^-prec (unit roundoff); [BRs l] = the exact real values of the floats
    of [l], [Rsum] their exact real sum; [fin_nonneg w] (Lemmas_C09.v) = finite and not (w < 0), in
    the model's own [isfinite]/[ltb]; [unit_weight w] = [isfinite w], [leb zero w], [leb w one] all
    true, in the model's own operations (C08f_unit_weight_R: equivalently finite with 0 <= w <= 1).

    What is proved.
    * C08f_normalised_sum (every format): if the entries of [clamped] are finite and not negative,
      at least one does not compare equal to zero, the fold did not overflow ([clamp_sum clamped]
      finite) and n u <= 1/8 for n = length clamped, then every resulting weight is a
      [unit_weight] (finite, >= 0, <= 1: no rounding slack is needed for "<= 1", because a fold
      of non-negative addends with monotone rounding is at least every addend, so each quotient
      is at most 1 before rounding and 1 is a float) and the exact real sum of the results
      satisfies | sum_i w_i - 1 | <= (n + 1) u  (stronger than the (n + 2) u asked for).
      The n + 1: the n - 1 effective roundings of the fold telescope to a relative error
      (n - 1) u of new_sum (the first addition 0 + c is exact); each division has relative error
      u, together u * (sum c / new_sum) <= u (1 + (n - 1) u); plus, per division, the underflow
      term eta = 2^(emin - 1) <= 2 u^2 (a quotient may be subnormal).  The side condition
      n u <= 1/8 is used only to absorb (n - 1) u^2 + n eta <= 3/8 u.
    * C08f_normalised_sum_general: the same without any bound on n:
      | sum_i w_i - 1 | <= n u + (n - 1) u^2 + n eta.
    * C08f_normalised_sum_2p20, _float32, _float64, _float80: the first statement with the side
      condition replaced by n <= 2^20 for every format with prec >= 23, and with u written out for
      float, double and x87 long double.
    * C08f_refine_weights_sum: the lift to [refine_weights] itself (formats with prec >= 2).  If
      the first loop succeeds ([raw_weights] = Ok raw; no unchecked read), the raw weights
      w_i * pow(d_i, beta) are finite and not negative, the minimum weight is finite, not negative
      and [leb minw one] holds, the total of the raw weights is finite and does not compare equal
      to zero (otherwise [refine_weights] returns the old weights unchanged, see
      C08_zero_total_id) and n u <= 1/8, then [refine_weights] returns weights of the same
      length, each a [unit_weight], whose exact real sum is within (n + 1) u of one.  Proved on the
      way: every clamped entry is finite and in [0,1] (the quotient w / total is in [0,1] because
      total >= every addend); new_sum cannot overflow (n entries in [0,1]: the accumulator stays
      below the integer k after k additions, and integers below 2^prec are floats); new_sum is
      not zero (if every quotient w / total rounded to zero then every w < u total, so the exact
      sum of the raw weights would be at most n u total <= total / 8, whereas it is at least
      (1 - (n-1) u) total >= 7/8 total).  The only hypothesis about an intermediate quantity that
      is left is the finiteness of the raw total, which is genuinely data dependent (the raw
      weights are products with pow(d_i, beta) of arbitrary size).
    * C08f_refine_weights_sum_partial: the same conclusion for every format and every minimum
      weight (also minw > 1), with "new_sum is finite" and "new_sum does not compare equal to zero"
      as explicit hypotheses instead of [leb minw one] (named _partial for that reason).
    * C08f_unit_weight_R: the reading of [unit_weight] in the reals.

    What is NOT proved: that the rounded weights sum to one *as floats* (false in general); anything
    for NaN, infinite or negative entries, or an overflowing fold; the degenerate branch
    (total == 0) returns the previous weights, for which this statement is inherited, not
    re-proved. *)
From Coq Require Import ZArith NArith List Reals.
From Flocq Require Import Core BinarySingleNaN.
From HepMC Require Import Num NumR NumB MultiChannel Lemmas_C09 Lemmas_C08 Lemmas_C09f Lemmas_C08f.
From HepMC Require Lemmas_C14.
Import ListNotations.
Local Open Scope R_scope.

Theorem C08f_normalised_sum :
  forall prec emax (Hprec : FLX.Prec_gt_0 prec) (Hmax : Prec_lt_emax prec emax)
         (clamped : list (NumB prec emax Hprec Hmax)),
  let KB := NumB prec emax Hprec Hmax in
  Forall (fin_nonneg prec emax Hprec Hmax) clamped ->
  Exists (fun w : KB => eqb KB w (zero KB) = false) clamped ->
  isfinite KB (@clamp_sum KB clamped) = true ->
  INR (length clamped) * Lemmas_C14.uB prec <= /8 ->
  Forall (unit_weight prec emax Hprec Hmax)
    (map (fun w => div KB w (@clamp_sum KB clamped)) clamped) /\
  Rabs (Rsum (BRs prec emax Hprec Hmax (map (fun w => div KB w (@clamp_sum KB clamped)) clamped)) - 1)
    <= (INR (length clamped) + 1) * Lemmas_C14.uB prec.
Proof. exact c08f_normalised_sum. Qed.
Print Assumptions C08f_normalised_sum.

Theorem C08f_normalised_sum_general :
  forall prec emax (Hprec : FLX.Prec_gt_0 prec) (Hmax : Prec_lt_emax prec emax)
         (clamped : list (NumB prec emax Hprec Hmax)),
  let KB := NumB prec emax Hprec Hmax in
  Forall (fin_nonneg prec emax Hprec Hmax) clamped ->
  Exists (fun w : KB => eqb KB w (zero KB) = false) clamped ->
  isfinite KB (@clamp_sum KB clamped) = true ->
  Rabs (Rsum (BRs prec emax Hprec Hmax (map (fun w => div KB w (@clamp_sum KB clamped)) clamped)) - 1)
    <= INR (length clamped) * Lemmas_C14.uB prec
       + INR (length clamped - 1) * (Lemmas_C14.uB prec * Lemmas_C14.uB prec)
       + INR (length clamped) * eta_f prec emax.
Proof. exact c08f_normalised_sum_general. Qed.
Print Assumptions C08f_normalised_sum_general.

Theorem C08f_normalised_sum_2p20 :
  forall prec emax (Hprec : FLX.Prec_gt_0 prec) (Hmax : Prec_lt_emax prec emax)
         (clamped : list (NumB prec emax Hprec Hmax)),
  let KB := NumB prec emax Hprec Hmax in
  (23 <= prec)%Z -> (Z.of_nat (length clamped) <= 1048576)%Z ->
  Forall (fin_nonneg prec emax Hprec Hmax) clamped ->
  Exists (fun w : KB => eqb KB w (zero KB) = false) clamped ->
  isfinite KB (@clamp_sum KB clamped) = true ->
  Forall (unit_weight prec emax Hprec Hmax)
    (map (fun w => div KB w (@clamp_sum KB clamped)) clamped) /\
  Rabs (Rsum (BRs prec emax Hprec Hmax (map (fun w => div KB w (@clamp_sum KB clamped)) clamped)) - 1)
    <= (INR (length clamped) + 1) * Lemmas_C14.uB prec.
Proof. exact c08f_normalised_sum_2p20. Qed.
Print Assumptions C08f_normalised_sum_2p20.

Theorem C08f_normalised_sum_float32 : forall clamped : list B32,
  (Z.of_nat (length clamped) <= 1048576)%Z ->
  Forall (fin_nonneg 24 128 P24 M24) clamped ->
  Exists (fun w => eqb B32 w (zero B32) = false) clamped ->
  isfinite B32 (@clamp_sum B32 clamped) = true ->
  Forall (unit_weight 24 128 P24 M24) (map (fun w => div B32 w (@clamp_sum B32 clamped)) clamped) /\
  Rabs (Rsum (BRs 24 128 P24 M24 (map (fun w => div B32 w (@clamp_sum B32 clamped)) clamped)) - 1)
    <= (INR (length clamped) + 1) * / 16777216.
Proof. exact c08f_normalised_sum_float32. Qed.
Print Assumptions C08f_normalised_sum_float32.

Theorem C08f_normalised_sum_float64 : forall clamped : list B64,
  (Z.of_nat (length clamped) <= 1048576)%Z ->
  Forall (fin_nonneg 53 1024 P53 M53) clamped ->
  Exists (fun w => eqb B64 w (zero B64) = false) clamped ->
  isfinite B64 (@clamp_sum B64 clamped) = true ->
  Forall (unit_weight 53 1024 P53 M53) (map (fun w => div B64 w (@clamp_sum B64 clamped)) clamped) /\
  Rabs (Rsum (BRs 53 1024 P53 M53 (map (fun w => div B64 w (@clamp_sum B64 clamped)) clamped)) - 1)
    <= (INR (length clamped) + 1) * / 9007199254740992.
Proof. exact c08f_normalised_sum_float64. Qed.
Print Assumptions C08f_normalised_sum_float64.

Theorem C08f_normalised_sum_float80 : forall clamped : list B80,
  (Z.of_nat (length clamped) <= 1048576)%Z ->
  Forall (fin_nonneg 64 16384 P64 M64) clamped ->
  Exists (fun w => eqb B80 w (zero B80) = false) clamped ->
  isfinite B80 (@clamp_sum B80 clamped) = true ->
  Forall (unit_weight 64 16384 P64 M64) (map (fun w => div B80 w (@clamp_sum B80 clamped)) clamped) /\
  Rabs (Rsum (BRs 64 16384 P64 M64 (map (fun w => div B80 w (@clamp_sum B80 clamped)) clamped)) - 1)
    <= (INR (length clamped) + 1) * / 18446744073709551616.
Proof. exact c08f_normalised_sum_float80. Qed.
Print Assumptions C08f_normalised_sum_float80.

Theorem C08f_refine_weights_sum :
  forall prec emax (Hprec : FLX.Prec_gt_0 prec) (Hmax : Prec_lt_emax prec emax),
  (2 <= prec)%Z ->
  forall (L : Libm (NumB prec emax Hprec Hmax))
         (ws data : list (NumB prec emax Hprec Hmax)) (minw beta : NumB prec emax Hprec Hmax)
         (raw : list (NumB prec emax Hprec Hmax)),
  let KB := NumB prec emax Hprec Hmax in
  raw_weights L ws data beta = Ok raw ->
  Forall (fin_nonneg prec emax Hprec Hmax) raw -> fin_nonneg prec emax Hprec Hmax minw ->
  leb KB minw (one KB) = true ->
  isfinite KB (fold_left (add KB) raw (zero KB)) = true ->
  eqb KB (fold_left (add KB) raw (zero KB)) (zero KB) = false ->
  INR (length ws) * Lemmas_C14.uB prec <= /8 ->
  exists ws', refine_weights L ws data minw beta = Ok ws' /\ length ws' = length ws /\
    Forall (unit_weight prec emax Hprec Hmax) ws' /\
    Rabs (Rsum (BRs prec emax Hprec Hmax ws') - 1) <= (INR (length ws) + 1) * Lemmas_C14.uB prec.
Proof. exact c08f_refine_weights_sum. Qed.
Print Assumptions C08f_refine_weights_sum.

Theorem C08f_refine_weights_sum_partial :
  forall prec emax (Hprec : FLX.Prec_gt_0 prec) (Hmax : Prec_lt_emax prec emax)
         (L : Libm (NumB prec emax Hprec Hmax))
         (ws data : list (NumB prec emax Hprec Hmax)) (minw beta : NumB prec emax Hprec Hmax)
         (raw : list (NumB prec emax Hprec Hmax)),
  let KB := NumB prec emax Hprec Hmax in
  raw_weights L ws data beta = Ok raw ->
  Forall (fin_nonneg prec emax Hprec Hmax) raw -> fin_nonneg prec emax Hprec Hmax minw ->
  isfinite KB (fold_left (add KB) raw (zero KB)) = true ->
  eqb KB (fold_left (add KB) raw (zero KB)) (zero KB) = false ->
  isfinite KB (new_sum_of raw minw) = true ->
  eqb KB (new_sum_of raw minw) (zero KB) = false ->
  INR (length ws) * Lemmas_C14.uB prec <= /8 ->
  exists ws', refine_weights L ws data minw beta = Ok ws' /\ length ws' = length ws /\
    Forall (unit_weight prec emax Hprec Hmax) ws' /\
    Rabs (Rsum (BRs prec emax Hprec Hmax ws') - 1) <= (INR (length ws) + 1) * Lemmas_C14.uB prec.
Proof. exact c08f_refine_weights_sum_partial. Qed.
Print Assumptions C08f_refine_weights_sum_partial.

Theorem C08f_unit_weight_R :
  forall prec emax (Hprec : FLX.Prec_gt_0 prec) (Hmax : Prec_lt_emax prec emax)
         (w : NumB prec emax Hprec Hmax),
  unit_weight prec emax Hprec Hmax w <-> is_finite w = true /\ 0 <= B2R w <= 1.
Proof. exact unit_weight_R. Qed.
Print Assumptions C08f_unit_weight_R.

(* non-vacuity, double precision, checked by computation through booleans: a clamped vector with a
   disabled channel and a value that is not dyadic *)
Example C08f_example :
  let cl : list B64 := [zero B64; one B64; ofN B64 3; div B64 (one B64) (ofN B64 3)] in
  Forall (fin_nonneg 53 1024 P53 M53) cl /\
  Exists (fun w => eqb B64 w (zero B64) = false) cl /\
  isfinite B64 (@clamp_sum B64 cl) = true /\
  INR (length cl) * Lemmas_C14.uB 53 <= /8.
Proof. exact c08f_example. Qed.

(* ... and the whole refinement on the weights [0; 1; 3], data [2; 4; 1], minimum weight 1/16,
   beta = 1 of C08_example_float: every hypothesis of C08f_refine_weights_sum and of
   C08f_refine_weights_sum_partial holds *)
Example C08f_example_refine :
  raw_weights ex08_L ex08_ws ex08_data (one B64) = Ok ex08f_raw /\
  Forall (fin_nonneg 53 1024 P53 M53) ex08f_raw /\ fin_nonneg 53 1024 P53 M53 ex08_minw /\
  isfinite B64 (fold_left (add B64) ex08f_raw (zero B64)) = true /\
  eqb B64 (fold_left (add B64) ex08f_raw (zero B64)) (zero B64) = false /\
  isfinite B64 (new_sum_of ex08f_raw ex08_minw) = true /\
  eqb B64 (new_sum_of ex08f_raw ex08_minw) (zero B64) = false /\
  INR (length ex08_ws) * Lemmas_C14.uB 53 <= /8.
Proof. exact c08f_example_refine. Qed.

Example C08f_example_minw : leb B64 ex08_minw (one B64) = true /\ (2 <= 53)%Z.
Proof. exact (conj ex08f_minw_le_one p2_53'). Qed.
