(** Lemmas for C07: the VEGAS grid stays a valid partition and refinement equidistributes
    importance.  All specification predicates and all proofs; statements are repeated in
    Properties_C07.v. *)
From Coq Require Import ZArith NArith List Reals Lra Lia Bool Rpower.
From Flocq Require Import Core.
From Flocq Require Import BinarySingleNaN.
From HepMC Require Import Num NumB NumR Result VegasPdf Lemmas_C01.
Import ListNotations.
Local Open Scope R_scope.

(* ------------------------------------------------------------------------------------------- *)
(** * list slices *)
Lemma nth_error_firstn_lt {A} : forall n (l : list A) i, (i < n)%nat -> nth_error (firstn n l) i = nth_error l i.
Proof.
  induction n as [|n IH]; intros l i Hi; [lia|]. destruct l as [|a l]; [destruct i; reflexivity|].
  destruct i as [|i]; [reflexivity|]. cbn. apply IH. lia.
Qed.

Lemma nth_error_skipn {A} : forall n (l : list A) i, nth_error (skipn n l) i = nth_error l (n + i).
Proof.
  induction n as [|n IH]; intros l i; [reflexivity|]. destruct l as [|a l]; [destruct i; reflexivity|].
  cbn. apply IH.
Qed.

Lemma skipn_skipn' {A} : forall a b (l : list A), skipn a (skipn b l) = skipn (b + a) l.
Proof.
  intros a b. revert a. induction b as [|b IH]; intros a l; [reflexivity|].
  destruct l as [|x l]; [now rewrite !skipn_nil|]. cbn. apply IH.
Qed.

Lemma In_firstn {A} : forall n (l : list A) x, In x (firstn n l) -> In x l.
Proof.
  induction n as [|n IH]; intros l x H; [destruct H|]. destruct l as [|a l]; [destruct H|].
  destruct H as [H|H]; [now left|right; now apply IH].
Qed.

Lemma In_skipn {A} : forall n (l : list A) x, In x (skipn n l) -> In x l.
Proof.
  induction n as [|n IH]; intros l x H; [exact H|]. destruct l as [|a l]; [destruct H|]. right. now apply IH.
Qed.

Lemma dim_slice_length {A} (l : list A) (d n dims : N) :
  length l = N.to_nat (dims * n) -> (d < dims)%N -> length (dim_slice l d n) = N.to_nat n.
Proof.
  intros Hl Hd. unfold dim_slice. rewrite firstn_length, skipn_length, Hl. nia.
Qed.

Lemma dim_slice_nth_error {A} (l : list A) (d n b : N) :
  (b < n)%N -> nth_error (dim_slice l d n) (N.to_nat b) = nth_error l (N.to_nat (d * n + b)).
Proof.
  intros Hb. unfold dim_slice. rewrite nth_error_firstn_lt by lia. rewrite nth_error_skipn.
  f_equal. lia.
Qed.

(* ------------------------------------------------------------------------------------------- *)
(** * 1. all-zero adjustment data leave the grid as it was: any [Num] satisfying four laws about
      zero (they hold for the reals and for IEEE arithmetic) *)
Section ZeroGeneric.
  Context {K : Num} (L : Libm K).
  Definition zero_laws : Prop :=
    add K (zero K) (zero K) = zero K /\ mul K half (zero K) = zero K /\
    div K (zero K) (ofN K 3) = zero K /\ eqb K (zero K) (zero K) = true.
  Hypothesis ZL : zero_laws.

  Definition all_zero (l : list K) : Prop := Forall (fun x => x = zero K) l.

  Lemma smooth_mid_zero rest : all_zero rest -> all_zero (smooth_mid (zero K) (zero K) rest).
  Proof.
    destruct ZL as (A0 & M0 & D0 & _).
    induction 1 as [|x rest Hx _ IH]; cbn [smooth_mid].
    - constructor; [|constructor]. now rewrite A0, M0.
    - subst x. constructor; [|exact IH]. now rewrite !A0, D0.
  Qed.

  Lemma smooth_zero l : all_zero l -> (2 <= length l)%nat -> exists sm, smooth l = Ok sm /\ all_zero sm.
  Proof.
    destruct ZL as (A0 & M0 & D0 & _).
    intros H Hl. destruct l as [|d0 [|d1 rest]]; cbn in Hl; try lia.
    inversion H as [|? ? E0 H1]; subst. inversion H1 as [|? ? E1 H2]; subst.
    eexists. split; [reflexivity|]. constructor; [now rewrite A0, M0|]. now apply smooth_mid_zero.
  Qed.

  Lemma fold_add_zero l : all_zero l -> fold_left (add K) l (zero K) = zero K.
  Proof.
    destruct ZL as (A0 & _). induction 1 as [|x l Hx _ IH]; [reflexivity|]. subst x. cbn. now rewrite A0.
  Qed.

  Lemma sum_from_first_zero sm : all_zero sm -> sum_from_first sm = zero K.
  Proof. intros H. destruct H as [|x l Hx Hl]; [reflexivity|]. subst x. cbn. now apply fold_add_zero. Qed.

  (* one dimension whose data are all zero keeps its boundaries, whatever the other dimensions do *)
  Lemma refine_dim_zero_gen (p : pdf K) alpha data d :
    (2 <= pdf_bins p)%N ->
    length (dim_slice data d (pdf_bins p)) = N.to_nat (pdf_bins p) ->
    length (dim_slice (pdf_x p) d (pdf_bins p + 1)) = N.to_nat (pdf_bins p + 1) ->
    all_zero (dim_slice data d (pdf_bins p)) ->
    refine_dim L p alpha data d = Ok (dim_slice (pdf_x p) d (pdf_bins p + 1)).
  Proof.
    intros Hb Hraw Hold Hz. unfold refine_dim. rewrite Hraw, Hold, !N2Nat.id, !N.eqb_refl. cbn [negb].
    destruct (smooth_zero _ Hz) as (sm & Hsm & Hsz); [lia|]. rewrite Hsm. cbn [bind].
    rewrite (sum_from_first_zero _ Hsz). destruct ZL as (_ & _ & _ & E0). now rewrite E0.
  Qed.

  Lemma all_zero_slice (l : list K) d n : all_zero l -> all_zero (dim_slice l d n).
  Proof.
    intros H. unfold all_zero, dim_slice in *. rewrite Forall_forall in *. intros x Hx. apply H.
    apply In_firstn in Hx. now apply In_skipn in Hx.
  Qed.

  Lemma refine_dims_slices (p : pdf K) alpha data (n : N) : forall k s,
    n = (pdf_bins p + 1)%N ->
    length (pdf_x p) = N.to_nat ((s + N.of_nat k) * n) ->
    (forall d, (s <= d < s + N.of_nat k)%N -> refine_dim L p alpha data d = Ok (dim_slice (pdf_x p) d n)) ->
    refine_dims L p alpha data (iotaN s k) = Ok (skipn (N.to_nat (s * n)) (pdf_x p)).
  Proof.
    induction k as [|k IH]; intros s Hn Hl H; cbn [iotaN refine_dims].
    - rewrite skipn_all2; [reflexivity|]. lia.
    - rewrite H by lia. cbn [bind]. rewrite (IH (s + 1)%N Hn); [|rewrite Hl; f_equal; lia|intros; apply H; lia].
      cbn [bind]. f_equal. unfold dim_slice.
      replace (N.to_nat ((s + 1) * n)) with (N.to_nat (s * n) + N.to_nat n)%nat by lia.
      rewrite <- skipn_skipn'. apply firstn_skipn.
  Qed.

  Theorem refine_zero_data_id_gen (p : pdf K) alpha data :
    (2 <= pdf_bins p)%N ->
    length (pdf_x p) = N.to_nat (pdf_dims p * (pdf_bins p + 1)) ->
    length data = N.to_nat (pdf_dims p * pdf_bins p) ->
    all_zero data ->
    refine_pdf L p alpha data = Ok p.
  Proof.
    intros Hb Hx Hd Hz. unfold refine_pdf.
    rewrite (refine_dims_slices p alpha data (pdf_bins p + 1)%N (N.to_nat (pdf_dims p)) 0 eq_refl).
    - cbn [bind]. rewrite N.mul_0_l. cbn [N.to_nat skipn]. destruct p; reflexivity.
    - rewrite Hx. f_equal. lia.
    - intros d Hdd. apply refine_dim_zero_gen; [exact Hb| | |].
      + apply dim_slice_length with (dims := pdf_dims p); [exact Hd|lia].
      + apply dim_slice_length with (dims := pdf_dims p); [exact Hx|lia].
      + now apply all_zero_slice.
  Qed.
End ZeroGeneric.

Lemma zero_laws_R : @zero_laws NumR.
Proof.
  unfold zero_laws. rewrite halfR. cbn [NumR add mul div zero ofN eqb T]. repeat split; try lra.
  all: try (unfold Rdiv; apply Rmult_0_l).
  now apply Reqb_true.
Qed.

(* ------------------------------------------------------------------------------------------- *)
(** * 2. smoothing and importance over the reals *)
Definition sumR (l : list R) : R := fold_right Rplus 0 l.
Definition nonneg (l : list R) : Prop := Forall (fun t => 0 <= t) l.

Lemma fold_left_Rplus l x : fold_left Rplus l x = x + sumR l.
Proof. unfold sumR. revert x. induction l as [|a l IH]; intros x; cbn [fold_left fold_right]; [ring|]. rewrite IH. ring. Qed.

Lemma sum_from_first_R (l : list R) : @sum_from_first NumR l = sumR l.
Proof. destruct l as [|x l]; [reflexivity|]. cbn. apply fold_left_Rplus. Qed.

Lemma sumR_cons a l : sumR (a :: l) = a + sumR l.
Proof. reflexivity. Qed.
Lemma sumR_nil : sumR [] = 0.
Proof. reflexivity. Qed.

Lemma sumR_nonneg l : nonneg l -> 0 <= sumR l.
Proof. induction 1 as [|x l Hx _ IH]; rewrite ?sumR_nil, ?sumR_cons; lra. Qed.

Lemma sumR_app l1 l2 : sumR (l1 ++ l2) = sumR l1 + sumR l2.
Proof. induction l1 as [|a l1 IH]; cbn [app]; rewrite ?sumR_nil, ?sumR_cons; [ring|]. rewrite IH. ring. Qed.

(* every smoothed entry is at most 3/5 of the smoothed total: a datum always spreads to at least
   two entries.  [e] is the part of the total that lies to the left of the entries listed. *)
Lemma smooth_mid_R : forall rest prev cur e,
  0 <= prev -> 0 <= cur -> nonneg rest -> (prev + cur) / 3 <= e ->
  let l := @smooth_mid NumR prev cur rest in
  length l = S (length rest) /\ (prev + cur) / 3 <= sumR l /\
  Forall (fun t => 0 <= t /\ 5 * t <= 3 * (e + sumR l)) l.
Proof.
  induction rest as [|nxt rest IH]; intros prev cur e Hp Hc Hr He; cbn [smooth_mid]; rewrite ?halfR;
    cbn [NumR add mul div ofN T]; change (IZR (Z.of_N 3)) with 3.
  - cbn [length]. rewrite sumR_cons, sumR_nil. repeat split; try lra. constructor; [|constructor]. lra.
  - inversion Hr as [|? ? Hn Hr']; subst.
    destruct (IH cur nxt (e + (prev + cur + nxt) / 3) Hc Hn Hr') as (IL & IS & IF); [lra|].
    cbv zeta. cbn [length]. rewrite sumR_cons.
    set (l' := @smooth_mid NumR cur nxt rest) in *.
    assert (0 <= sumR l') by lra.
    split; [f_equal; exact IL|]. split; [lra|].
    constructor; [lra|]. eapply Forall_impl; [|exact IF]. cbv beta. intros t Ht. lra.
Qed.

Lemma smooth_R (raw : list R) : nonneg raw -> (2 <= length raw)%nat ->
  exists sm, @smooth NumR raw = Ok sm /\ length sm = length raw /\
    Forall (fun t => 0 <= t /\ 5 * t <= 3 * sumR sm) sm.
Proof.
  intros Hr Hl. destruct raw as [|d0 [|d1 rest]]; cbn in Hl; try lia.
  inversion Hr as [|? ? H0 Hr1]; subst. inversion Hr1 as [|? ? H1 Hr2]; subst.
  cbn [smooth]. rewrite halfR. cbn [NumR add mul T].
  destruct (smooth_mid_R rest d0 d1 (/ 2 * (d0 + d1)) H0 H1 Hr2) as (IL & IS & IF); [lra|].
  eexists. split; [reflexivity|]. cbn [length]. rewrite sumR_cons.
  split; [f_equal; exact IL|]. constructor; [lra|exact IF].
Qed.

(* the importance of a smoothed entry: zero stays zero; for a non-zero entry the quotient
   r = t / norm lies strictly between 0 and 1, so ln r < 0, the base (r - 1) / ln r is a genuine
   positive number (no 0/0, no logarithm of a non-positive number) and the importance is positive *)
Definition imp_base (norm t : R) : R := (t / norm - 1) / ln (t / norm).

Lemma importance_R (alpha norm t : R) : 0 < norm -> 0 <= t -> 5 * t <= 3 * norm ->
  (t = 0 -> importance LibmR alpha norm t = 0) /\
  (t <> 0 -> 0 < t / norm < 1 /\ ln (t / norm) < 0 /\ 0 < imp_base norm t /\
             importance LibmR alpha norm t = Rpower (imp_base norm t) alpha /\
             0 < importance LibmR alpha norm t).
Proof.
  intros Hn Ht Hb. unfold importance, neqb. cbn [NumR eqb zero one div sub T LibmR flog fpow].
  split; intros H.
  - apply Reqb_true in H. rewrite H. cbn. now apply Reqb_true in H.
  - pose proof H as H'. apply Reqb_false in H'. rewrite H'. cbn [negb].
    assert (Hr : 0 < t / norm < 1).
    { split; [apply Rdiv_lt_0_compat; lra|]. apply Rmult_lt_reg_r with norm; [lra|].
      unfold Rdiv. rewrite Rmult_assoc, Rinv_l by lra. lra. }
    assert (Hl : ln (t / norm) < 0). { rewrite <- ln_1. apply ln_increasing; lra. }
    assert (Hbase : 0 < imp_base norm t).
    { unfold imp_base. replace ((t / norm - 1) / ln (t / norm)) with ((1 - t / norm) / (- ln (t / norm))) by (field; lra).
      apply Rdiv_lt_0_compat; lra. }
    repeat split; try lra. unfold Rpower. apply exp_pos.
Qed.

Lemma imp_sum_R (f : R -> R) : f 0 = 0 -> forall (sm : list R) (acc : R),
  @imp_sum NumR sm (map f sm) acc = acc + sumR (map f sm).
Proof.
  intros Hf. induction sm as [|t sm IH]; intros acc; cbn [imp_sum map]; rewrite ?sumR_nil, ?sumR_cons; [change (acc = acc + 0); ring|].
  rewrite IH. unfold neqb. cbn [NumR eqb zero add T]. destruct (Reqb t 0) eqn:E; cbn [negb].
  - apply Reqb_true in E. subst t. rewrite Hf. ring.
  - ring.
Qed.

(* ------------------------------------------------------------------------------------------- *)
(** * 3. the redistribution loop *)
(* cumulative importance of the first [b] old bins *)
Definition cum (tmp : list R) (b : nat) : R := sumR (firstn b tmp).

Lemma cum_S tmp b t : nth_error tmp b = Some t -> cum tmp (S b) = cum tmp b + t.
Proof.
  unfold cum. revert b. induction tmp as [|a tmp IH]; intros [|b] H; cbn [nth_error firstn] in *; try discriminate.
  - injection H as ->. rewrite !sumR_cons, !sumR_nil. destruct tmp; cbn [firstn]; rewrite ?sumR_nil; lra.
  - rewrite !sumR_cons. rewrite (IH b H). lra.
Qed.

Lemma cum_all tmp b : (length tmp <= b)%nat -> cum tmp b = sumR tmp.
Proof. intros H. unfold cum. now rewrite firstn_all2. Qed.

Lemma cum_0 tmp : cum tmp 0 = 0.
Proof. reflexivity. Qed.

Lemma nonneg_nth tmp b t : nonneg tmp -> nth_error tmp b = Some t -> 0 <= t.
Proof. intros H E. unfold nonneg in H. rewrite Forall_forall in H. apply H. eapply nth_error_In; eauto. Qed.

Lemma cum_mono tmp : nonneg tmp -> forall a b, (a <= b)%nat -> cum tmp a <= cum tmp b.
Proof.
  intros Hpos a b Hab. induction Hab as [|b Hab IH]; [lra|].
  destruct (nth_error tmp b) as [t|] eqn:E.
  - rewrite (cum_S _ _ _ E). pose proof (nonneg_nth _ _ _ Hpos E). lra.
  - apply nth_error_None in E. rewrite (cum_all tmp (S b)) by lia. rewrite <- (cum_all tmp b) by lia. exact IH.
Qed.

(* scan specification: [c] is the importance already handed out *)
Lemma scan_spec (tmp : list R) (avg c : R) :
  nonneg tmp -> avg <= sumR tmp - c ->
  forall fuel (bin : N) (tb : R), (length tmp - N.to_nat bin < fuel)%nat -> (N.to_nat bin <= length tmp)%nat ->
    tb = cum tmp (N.to_nat bin) - c ->
  exists bin' tb', @scan NumR fuel tmp avg bin tb = Ok (bin', tb') /\
    (bin <= bin')%N /\ (N.to_nat bin' <= length tmp)%nat /\ tb' = cum tmp (N.to_nat bin') - c /\ avg <= tb' /\
    (bin' = bin \/ (bin < bin')%N /\ exists t, nth_error tmp (Nat.pred (N.to_nat bin')) = Some t /\ tb' - t < avg).
Proof.
  intros Hpos Hrem. induction fuel as [|f IH]; intros bin tb Hf Hb Htb; [lia|].
  cbn [scan]. cbn [NumR ltb add T]. destruct (Rltb tb avg) eqn:Hlt.
  - apply Rltb_true in Hlt. unfold getN, nthN.
    destruct (nth_error tmp (N.to_nat bin)) as [t|] eqn:E.
    + assert (Hlen : (N.to_nat bin < length tmp)%nat) by (apply nth_error_Some; congruence).
      cbn [bind].
      destruct (IH (bin + 1)%N (tb + t)) as (bin' & tb' & Hs & Hr & Hr2 & Hc & Ha & Hd);
        [lia|lia| replace (N.to_nat (bin + 1)) with (S (N.to_nat bin)) by lia; rewrite (cum_S _ _ _ E); lra |].
      exists bin', tb'. split; [exact Hs|]. split; [lia|]. split; [exact Hr2|]. split; [exact Hc|]. split; [exact Ha|].
      right. destruct Hd as [-> | (Hlt' & t' & Et' & Hd)].
      * split; [lia|]. exists t. replace (Nat.pred (N.to_nat (bin + 1))) with (N.to_nat bin) by lia.
        split; [exact E|]. rewrite Hc. replace (N.to_nat (bin + 1)) with (S (N.to_nat bin)) by lia.
        rewrite (cum_S _ _ _ E). lra.
      * split; [lia|]. exists t'. auto.
    + exfalso. apply nth_error_None in E. rewrite cum_all in Htb by lia. lra.
  - apply Rltb_false in Hlt. exists bin, tb. split; [reflexivity|]. split; [lia|]. split; [lia|].
    split; [exact Htb|]. split; [lra|]. now left.
Qed.

(** Specification of one produced boundary: it lies in old bin [b] at the fraction [th] of its
    width, and the cumulative importance up to that point - all of the old bins before [b] plus
    the fraction [th] of bin [b] - is exactly [j] times the average: each new bin holds an equal share. *)
Definition boundary_ok (tmp : list R) (g : nat -> R) (avg : R) (j : nat) (x : R) : Prop :=
  exists b t th, nth_error tmp b = Some t /\ 0 < t /\ 0 < th <= 1 /\
    x = g b + th * (g (S b) - g b) /\ cum tmp b + th * t = INR j * avg.

Fixpoint all_ok (tmp : list R) (g : nat -> R) (avg : R) (j : nat) (l : list R) : Prop :=
  match l with [] => True | x :: l' => boundary_ok tmp g avg j x /\ all_ok tmp g avg (S j) l' end.

Lemma all_ok_nth tmp g avg : forall l j i, all_ok tmp g avg j l -> (i < length l)%nat ->
  boundary_ok tmp g avg (j + i) (nth i l 0).
Proof.
  induction l as [|x l IH]; intros j i H Hi; cbn [length] in Hi; [lia|]. destruct H as (H1 & H2).
  destruct i as [|i]; cbn [nth].
  - now rewrite Nat.add_0_r.
  - replace (j + S i)%nat with (S j + i)%nat by lia. apply IH; [exact H2|lia].
Qed.

Lemma redistribute_spec (p : pdf NumR) (d : N) (tmp : list R) (avg : R) :
  pdf_wf p -> (d < pdf_dims p)%N -> length tmp = N.to_nat (pdf_bins p) ->
  nonneg tmp -> 0 < avg -> sumR tmp = INR (length tmp) * avg ->
  (forall b, (b < length tmp)%nat -> gridn p d b <= gridn p d (S b)) ->
  forall k j (bin : N) (tb : R), (j + k <= length tmp)%nat -> (1 <= j)%nat -> (N.to_nat bin <= length tmp)%nat ->
    tb = cum tmp (N.to_nat bin) - INR (j - 1) * avg -> 0 <= tb ->
    (bin = 0%N /\ tb < avg \/ exists t, nth_error tmp (Nat.pred (N.to_nat bin)) = Some t /\ (1 <= bin)%N /\ tb < t) ->
    exists l, @redistribute NumR k p d tmp avg bin tb = Ok l /\ length l = k /\ all_ok tmp (gridn p d) avg j l.
Proof.
  intros W Hd Hlen Hpos Havg Hsum Hmono. induction k as [|k IH]; intros j bin tb Hjk Hj Hb Htb Htb0 Hinv.
  - exists []. cbn. auto.
  - cbn [redistribute]. change (T NumR) with R.
    assert (Hrem : avg <= sumR tmp - INR (j - 1) * avg).
    { rewrite Hsum. assert (INR (j - 1) + 1 <= INR (length tmp)). { rewrite <- S_INR. apply le_INR. lia. }
      nra. }
    destruct (scan_spec tmp avg (INR (j - 1) * avg) Hpos Hrem (S (length tmp)) bin tb) as
      (bin' & tb' & Hs & Hr & Hr2 & Hc & Ha & Hdis); [lia|lia|exact Htb|].
    rewrite Hs. cbn [bind].
    assert (Hstep : exists t, nth_error tmp (Nat.pred (N.to_nat bin')) = Some t /\ (1 <= bin')%N /\ tb' - avg < t).
    { destruct Hdis as [-> | (Hlt & t & Et & Hdd)].
      - destruct Hinv as [(-> & Hlt) | (t & Et & Hb1 & Hlt)]; [lra|]. exists t. repeat split; auto. lra.
      - exists t. repeat split; auto; [lia|lra]. }
    destruct Hstep as (t & Et & Hb1 & Hlt).
    destruct (N.eqb_spec bin' 0) as [?|_]; [lia|].
    replace (Nat.pred (N.to_nat bin')) with (N.to_nat (bin' - 1)) in Et by lia.
    assert (Hb1len : (N.to_nat (bin' - 1) < length tmp)%nat) by (apply nth_error_Some; congruence).
    rewrite (bin_left_ok p d (bin' - 1) W Hd) by lia.
    rewrite (bin_left_ok p d bin' W Hd) by lia. cbn [bind].
    unfold getN, nthN. rewrite Et. cbn [bind].
    assert (Ht : 0 < t) by lra.
    assert (Hj' : INR (S j - 1) = INR (j - 1) + 1).
    { replace (S j - 1)%nat with (S (j - 1)) by lia. now rewrite S_INR. }
    cbn [NumR sub mul div ltb T].
    (* the clamp [if new_left < previous then previous] is the identity over the reals *)
    assert (Hgm : grid p d (bin' - 1) <= grid p d bin').
    { pose proof (Hmono (N.to_nat (bin' - 1)) Hb1len) as Hm. unfold gridn in Hm. rewrite N2Nat.id in Hm.
      replace (N.of_nat (S (N.to_nat (bin' - 1)))) with bin' in Hm by lia. exact Hm. }
    assert (Hfr : 0 <= (tb' - avg) / t < 1).
    { split; [apply Rmult_le_pos; [lra|]; left; now apply Rinv_0_lt_compat|].
      apply Rmult_lt_reg_r with t; [lra|]. unfold Rdiv. rewrite Rmult_assoc, Rinv_l by lra. lra. }
    assert (Hcl : Rltb (grid p d bin' - (grid p d bin' - grid p d (bin' - 1)) * (tb' - avg) / t)
                       (grid p d (bin' - 1)) = false).
    { apply Rltb_false.
      replace ((grid p d bin' - grid p d (bin' - 1)) * (tb' - avg) / t)
        with ((grid p d bin' - grid p d (bin' - 1)) * ((tb' - avg) / t)) by (field; lra).
      nra. }
    rewrite Hcl.
    destruct (IH (S j) bin' (tb' - avg)) as (l & Hl & Hll & Hok);
      [lia|lia|lia| rewrite Hc, Hj'; ring | lra | right; exists t; split; [|split; [lia|lra]] |].
    { replace (Nat.pred (N.to_nat bin')) with (N.to_nat (bin' - 1)) by lia. exact Et. }
    rewrite Hl. cbn [bind]. eexists. split; [reflexivity|]. split; [cbn [length]; f_equal; exact Hll|].
    split; [|exact Hok].
    exists (N.to_nat (bin' - 1)), t, (1 - (tb' - avg) / t).
    split; [exact Et|]. split; [exact Ht|].
    unfold gridn. rewrite N2Nat.id. replace (N.of_nat (S (N.to_nat (bin' - 1)))) with bin' by lia.
    repeat split.
    + assert ((tb' - avg) / t < 1). { apply Rmult_lt_reg_r with t; [lra|]. unfold Rdiv. rewrite Rmult_assoc, Rinv_l by lra. lra. } lra.
    + assert (0 <= (tb' - avg) / t). { apply Rmult_le_pos; [lra|]. left. now apply Rinv_0_lt_compat. } lra.
    + field. lra.
    + assert (Hcs : cum tmp (N.to_nat bin') = cum tmp (N.to_nat (bin' - 1)) + t).
      { replace (N.to_nat bin') with (S (N.to_nat (bin' - 1))) by lia. now apply cum_S. }
      rewrite Hc, Hcs.
      replace (INR j) with (INR (j - 1) + 1).
      2:{ replace j with (S (j - 1)) at 2 by lia. now rewrite S_INR. }
      field. lra.
Qed.

(* ------------------------------------------------------------------------------------------- *)
(** * 4. the produced boundaries are ordered and stay inside the old range *)
Definition mono_upto (g : nat -> R) (n : nat) : Prop := forall b, (b < n)%nat -> g b <= g (S b).

Lemma mono_upto_le g n : mono_upto g n -> forall a b, (a <= b <= n)%nat -> g a <= g b.
Proof.
  intros H a b (Hab & Hbn). induction Hab as [|b Hab IH]; [lra|].
  apply Rle_trans with (g b); [apply IH; lia|apply H; lia].
Qed.

Lemma boundary_in_bin tmp g avg j x : mono_upto g (length tmp) -> boundary_ok tmp g avg j x ->
  exists b, (b < length tmp)%nat /\ g b <= x <= g (S b).
Proof.
  intros Hg (b & t & th & Et & Ht & Hth & Hx & _). exists b.
  assert (Hb : (b < length tmp)%nat) by (apply nth_error_Some; congruence).
  split; [exact Hb|]. pose proof (Hg b Hb). nra.
Qed.

Lemma boundary_range tmp g avg j x : mono_upto g (length tmp) -> boundary_ok tmp g avg j x ->
  g O <= x <= g (length tmp).
Proof.
  intros Hg H. destruct (boundary_in_bin _ _ _ _ _ Hg H) as (b & Hb & Hx).
  pose proof (mono_upto_le g _ Hg 0%nat b). pose proof (mono_upto_le g _ Hg (S b) (length tmp)).
  assert (g O <= g b) by (apply H0; lia). assert (g (S b) <= g (length tmp)) by (apply H1; lia). lra.
Qed.

Lemma boundary_mono tmp g avg j j' x x' : nonneg tmp -> 0 < avg -> mono_upto g (length tmp) -> (j <= j')%nat ->
  boundary_ok tmp g avg j x -> boundary_ok tmp g avg j' x' -> x <= x'.
Proof.
  intros Hpos Havg Hg Hjj (b & t & th & Et & Ht & Hth & Hx & Hc) (b' & t' & th' & Et' & Ht' & Hth' & Hx' & Hc').
  assert (Hb : (b < length tmp)%nat) by (apply nth_error_Some; congruence).
  assert (Hb' : (b' < length tmp)%nat) by (apply nth_error_Some; congruence).
  assert (HJ : INR j * avg <= INR j' * avg). { apply Rmult_le_compat_r; [lra|]. now apply le_INR. }
  pose proof (Hg b Hb) as G1. pose proof (Hg b' Hb') as G2.
  destruct (lt_eq_lt_dec b b') as [[Hlt|Heq]|Hgt].
  - assert (g (S b) <= g b') by (apply (mono_upto_le g _ Hg); lia). nra.
  - subst b'. rewrite Et in Et'. injection Et' as <-.
    assert (th * t <= th' * t) by lra. assert (th <= th') by nra. subst x x'. nra.
  - exfalso. pose proof (cum_mono tmp Hpos (S b') b ltac:(lia)) as Hm. rewrite (cum_S _ _ _ Et') in Hm. nra.
Qed.

Lemma boundary_ok_ext tmp g g' avg j x : (forall b, (b <= length tmp)%nat -> g b = g' b) ->
  boundary_ok tmp g avg j x -> boundary_ok tmp g' avg j x.
Proof.
  intros He (b & t & th & Et & Ht & Hth & Hx & Hc). exists b, t, th.
  assert (Hb : (b < length tmp)%nat) by (apply nth_error_Some; congruence).
  rewrite <- !He by lia. auto.
Qed.

Definition row_valid (n : nat) (row : list R) : Prop :=
  length row = S n /\ nth 0 row 0 = 0 /\ nth n row 0 = 1 /\
  forall k, (k < n)%nat -> nth k row 0 <= nth (S k) row 0.

Lemma assemble_valid (n : nat) tmp g avg (first lst : R) (inner : list R) :
  (2 <= n)%nat -> length tmp = n -> nonneg tmp -> 0 < avg -> mono_upto g n ->
  length inner = (n - 1)%nat -> all_ok tmp g avg 1 inner ->
  first = g O -> lst = g n -> g O = 0 -> g n = 1 ->
  let row := first :: inner ++ [lst] in
  row_valid n row /\ forall k, (1 <= k < n)%nat -> boundary_ok tmp g avg k (nth k row 0).
Proof.
  intros Hn Hlen Hpos Havg Hg Hil Hok Hf Hl G0 G1 row.
  assert (Hb : forall k, (1 <= k < n)%nat -> boundary_ok tmp g avg k (nth k row 0)).
  { intros k Hk. unfold row. destruct k as [|k]; [lia|]. cbn [nth]. rewrite app_nth1 by lia.
    change (S k) with (1 + k)%nat. apply all_ok_nth; [exact Hok|lia]. }
  assert (Hlast : nth n row 0 = 1).
  { unfold row. destruct n as [|n]; [lia|]. cbn [nth]. rewrite app_nth2 by lia.
    replace (n - length inner)%nat with 0%nat by lia. cbn [nth]. lra. }
  assert (Hfirst : nth 0 row 0 = 0). { unfold row. cbn [nth]. lra. }
  split; [|exact Hb]. split; [|split; [exact Hfirst|split; [exact Hlast|]]].
  - unfold row. cbn [length]. rewrite app_length. cbn [length]. lia.
  - intros k Hk. subst n.
    destruct (Nat.eq_dec k 0) as [->|Hk0].
    + rewrite Hfirst. pose proof (boundary_range _ _ _ _ _ Hg (Hb 1%nat ltac:(lia))). lra.
    + destruct (Nat.eq_dec (S k) (length tmp)) as [E|Hk1].
      * rewrite E, Hlast. pose proof (boundary_range _ _ _ _ _ Hg (Hb k ltac:(lia))). lra.
      * apply (boundary_mono tmp g avg k (S k)); auto; apply Hb; lia.
Qed.

(** strictly increasing old boundaries give strictly increasing new ones *)
Definition strict_upto (g : nat -> R) (n : nat) : Prop := forall b, (b < n)%nat -> g b < g (S b).

Lemma strict_mono_upto g n : strict_upto g n -> mono_upto g n.
Proof. intros H b Hb. left. now apply H. Qed.

Lemma boundary_strict tmp g avg j j' x x' : nonneg tmp -> 0 < avg -> strict_upto g (length tmp) -> (j < j')%nat ->
  boundary_ok tmp g avg j x -> boundary_ok tmp g avg j' x' -> x < x'.
Proof.
  intros Hpos Havg Hs Hjj (b & t & th & Et & Ht & Hth & Hx & Hc) (b' & t' & th' & Et' & Ht' & Hth' & Hx' & Hc').
  pose proof (strict_mono_upto _ _ Hs) as Hg.
  assert (Hb : (b < length tmp)%nat) by (apply nth_error_Some; congruence).
  assert (Hb' : (b' < length tmp)%nat) by (apply nth_error_Some; congruence).
  assert (HJ : INR j * avg < INR j' * avg). { apply Rmult_lt_compat_r; [lra|]. now apply lt_INR. }
  pose proof (Hs b Hb) as G1. pose proof (Hs b' Hb') as G2.
  destruct (lt_eq_lt_dec b b') as [[Hlt|Heq]|Hgt].
  - assert (g (S b) <= g b') by (apply (mono_upto_le g _ Hg); lia). nra.
  - subst b'. rewrite Et in Et'. injection Et' as <-.
    assert (th * t < th' * t) by lra. assert (th < th') by nra. subst x x'. nra.
  - exfalso. pose proof (cum_mono tmp Hpos (S b') b ltac:(lia)) as Hm. rewrite (cum_S _ _ _ Et') in Hm. nra.
Qed.

Lemma boundary_first_strict tmp g avg j x : strict_upto g (length tmp) -> boundary_ok tmp g avg j x -> g O < x.
Proof.
  intros Hs (b & t & th & Et & Ht & Hth & Hx & Hc).
  assert (Hb : (b < length tmp)%nat) by (apply nth_error_Some; congruence).
  pose proof (mono_upto_le g _ (strict_mono_upto _ _ Hs) 0%nat b ltac:(lia)). pose proof (Hs b Hb). nra.
Qed.

Lemma boundary_last_strict tmp g avg j x : nonneg tmp -> 0 < avg -> sumR tmp = INR (length tmp) * avg ->
  strict_upto g (length tmp) -> (j < length tmp)%nat -> boundary_ok tmp g avg j x -> x < g (length tmp).
Proof.
  intros Hpos Havg Hsum Hs Hj (b & t & th & Et & Ht & Hth & Hx & Hc).
  assert (Hb : (b < length tmp)%nat) by (apply nth_error_Some; congruence).
  pose proof (Hs b Hb) as G1.
  destruct (Nat.eq_dec (S b) (length tmp)) as [E|E].
  - rewrite <- E.
    assert (HJ : INR j + 1 <= INR (length tmp)). { rewrite <- S_INR. apply le_INR. lia. }
    pose proof (cum_S _ _ _ Et) as HS. rewrite (cum_all tmp (S b)) in HS by lia. 
    assert ((1 - th) * t >= avg) by nra. assert (th < 1) by nra. nra.
  - assert (g (S b) < g (length tmp)).
    { clear - Hs Hb E. assert (H : forall m, (S b < m <= length tmp)%nat -> g (S b) < g m).
      { induction m as [|m IH]; intros Hm; [lia|]. destruct (Nat.eq_dec (S b) m) as [<-|Hne]; [apply Hs; lia|].
        apply Rlt_trans with (g m); [apply IH; lia|apply Hs; lia]. }
      apply H. lia. }
    nra.
Qed.

Definition row_strict (n : nat) (row : list R) : Prop := forall k, (k < n)%nat -> nth k row 0 < nth (S k) row 0.

Lemma assemble_strict (n : nat) tmp g avg (row : list R) :
  length tmp = n -> nonneg tmp -> 0 < avg -> sumR tmp = INR n * avg -> strict_upto g n ->
  nth 0 row 0 = g O -> nth n row 0 = g n ->
  (forall k, (1 <= k < n)%nat -> boundary_ok tmp g avg k (nth k row 0)) ->
  row_strict n row.
Proof.
  intros Hlen Hpos Havg Hsum Hs H0 Hn Hb k Hk. subst n.
  destruct (Nat.eq_dec k 0) as [->|Hk0].
  - destruct (Nat.eq_dec 1 (length tmp)) as [E|E].
    + rewrite <- E in *. rewrite H0, Hn. apply Hs. lia.
    + rewrite H0. apply (boundary_first_strict tmp g avg 1); [exact Hs|apply Hb; lia].
  - destruct (Nat.eq_dec (S k) (length tmp)) as [E|Hk1].
    + rewrite E, Hn. apply (boundary_last_strict tmp g avg k); auto; try lia. apply Hb. lia.
    + apply (boundary_strict tmp g avg k (S k)); auto; apply Hb; lia.
Qed.

(* ------------------------------------------------------------------------------------------- *)
(** * 5. one dimension of the refinement *)
(* boundaries of dimension d *)
Definition slice (p : pdf NumR) (d : N) : list R := dim_slice (pdf_x p) d (pdf_bins p + 1).

(** a valid grid: (bins + 1) boundaries per dimension; each dimension starts at 0, ends at 1 and
    is non-decreasing *)
Definition valid_grid (p : pdf NumR) : Prop :=
  pdf_wf p /\ forall d, (d < pdf_dims p)%N -> row_valid (nbins p) (slice p d).

Lemma slice_length p d : pdf_wf p -> (d < pdf_dims p)%N -> length (slice p d) = S (nbins p).
Proof.
  intros W Hd. unfold slice, nbins.
  pose proof (dim_slice_length (pdf_x p) d (pdf_bins p + 1) (pdf_dims p) W Hd) as H.
  change (T NumR) with R in *. rewrite H. lia.
Qed.

Lemma gridn_slice p d b : pdf_wf p -> (d < pdf_dims p)%N -> (b <= nbins p)%nat ->
  gridn p d b = nth b (slice p d) 0.
Proof.
  intros W Hd Hb. unfold gridn, grid, slice, nbins in *.
  pose proof (dim_slice_nth_error (pdf_x p) d (pdf_bins p + 1) (N.of_nat b) ltac:(lia)) as H.
  rewrite Nat2N.id in H. change (T NumR) with R in *.
  destruct (nth_error (pdf_x p) (N.to_nat (d * (pdf_bins p + 1) + N.of_nat b))) as [v|] eqn:E.
  - rewrite (nth_error_nth _ _ 0 E). symmetry. apply nth_error_nth. exact (eq_trans H E).
  - exfalso. apply nth_error_None in E. unfold pdf_wf in W. nia.
Qed.

Lemma last_nth {A} (l : list A) (d : A) : last l d = nth (length l - 1) l d.
Proof.
  induction l as [|a l IH]; [reflexivity|]. destruct l as [|b l]; [reflexivity|].
  change (last (a :: b :: l) d) with (last (b :: l) d). rewrite IH. cbn [length].
  replace (S (S (length l)) - 1)%nat with (S (S (length l) - 1)) by lia. reflexivity.
Qed.

(* the smoothed data, their total, and the importances of dimension d *)
Definition smoothed (p : pdf NumR) (data : list R) (d : N) : list R :=
  match @smooth NumR (dim_slice data d (pdf_bins p)) with Ok sm => sm | UB _ => [] end.
Definition importances (p : pdf NumR) (alpha : R) (data : list R) (d : N) : list R :=
  let sm := smoothed p data d in map (importance LibmR alpha (sumR sm)) sm.

(** "equal share": new boundary k of dimension d lies in some old bin b at the fraction th of its
    width, and the importance of old bins 0..b-1 plus th times the importance of bin b is k times
    the average importance per bin *)
Definition equal_share (p : pdf NumR) (alpha : R) (data : list R) (d : N) (row : list R) : Prop :=
  let imp := importances p alpha data d in
  let avg := sumR imp / INR (nbins p) in
  0 < avg /\
  forall k, (1 <= k < nbins p)%nat -> boundary_ok imp (fun b => nth b (slice p d) 0) avg k (nth k row 0).

(* facts about the importance function on the smoothed data *)
Definition importance_well_defined (p : pdf NumR) (alpha : R) (data : list R) (d : N) : Prop :=
  let sm := smoothed p data d in let norm := sumR sm in
  0 < norm /\
  Forall (fun t => 0 <= t /\
            (t = 0 -> importance LibmR alpha norm t = 0) /\
            (t <> 0 -> 0 < t / norm < 1 /\ ln (t / norm) < 0 /\ 0 < imp_base norm t /\
                       importance LibmR alpha norm t = Rpower (imp_base norm t) alpha /\
                       0 < importance LibmR alpha norm t)) sm.

Lemma sumR_pos_exists l : nonneg l -> sumR l <> 0 -> exists t, In t l /\ 0 < t.
Proof.
  induction 1 as [|x l Hx Hl IH]; intros Hs; [now rewrite sumR_nil in Hs|].
  rewrite sumR_cons in Hs. destruct (Req_dec x 0) as [->|Hx0].
  - destruct IH as (t & Ht & Hp); [lra|]. exists t. split; [now right|exact Hp].
  - exists x. split; [now left|lra].
Qed.

Lemma sumR_pos l t : nonneg l -> In t l -> 0 < t -> 0 < sumR l.
Proof.
  induction 1 as [|x l Hx Hl IH]; intros Hin Ht; [destruct Hin|]. destruct Hin as [H|H].
  - subst x. rewrite sumR_cons. pose proof (sumR_nonneg l Hl). lra.
  - rewrite sumR_cons. specialize (IH H Ht). lra.
Qed.

Lemma nonneg_slice l d n : nonneg l -> nonneg (dim_slice l d n).
Proof.
  intros H. unfold nonneg, dim_slice in *. rewrite Forall_forall in *. intros x Hx. apply H.
  apply In_firstn in Hx. now apply In_skipn in Hx.
Qed.

Lemma refine_dim_R (p : pdf NumR) (alpha : R) (data : list R) (d : N) :
  valid_grid p -> (2 <= pdf_bins p)%N -> (d < pdf_dims p)%N ->
  length data = N.to_nat (pdf_dims p * pdf_bins p) -> nonneg data ->
  exists row, refine_dim LibmR p alpha data d = Ok row /\ row_valid (nbins p) row /\
    (sumR (smoothed p data d) = 0 -> row = slice p d) /\
    (sumR (smoothed p data d) <> 0 ->
       importance_well_defined p alpha data d /\ equal_share p alpha data d row) /\
    (row_strict (nbins p) (slice p d) -> row_strict (nbins p) row).
Proof.
  intros (W & V) Hb Hd Hdl Hdn. specialize (V d Hd).
  unfold refine_dim. fold (slice p d).
  pose proof (dim_slice_length data d (pdf_bins p) (pdf_dims p) Hdl Hd) as Hraw.
  pose proof (slice_length p d W Hd) as Hold. unfold nbins in Hold.
  change (T NumR) with R in *. rewrite Hraw, Hold, N2Nat.id.
  replace (N.of_nat (S (N.to_nat (pdf_bins p)))) with (pdf_bins p + 1)%N by lia.
  rewrite !N.eqb_refl. cbn [negb].
  unfold equal_share, importance_well_defined, importances, smoothed.
  destruct (smooth_R (dim_slice data d (pdf_bins p))) as (sm & Hsm & Hsl & Hsf);
    [now apply nonneg_slice|lia|].
  change (T NumR) with R in *.
  rewrite Hsm. cbn [bind]. rewrite sum_from_first_R. cbv zeta.
  set (norm := sumR sm) in *. cbn [NumR eqb zero T].
  assert (Hsnn : nonneg sm). { eapply Forall_impl; [|exact Hsf]. cbv beta. tauto. }
  destruct (Reqb norm 0) eqn:En.
  - apply Reqb_true in En. eexists. split; [reflexivity|]. split; [exact V|]. split; [reflexivity|]. tauto.
  - apply Reqb_false in En.
    assert (Hnorm : 0 < norm). { pose proof (sumR_nonneg sm Hsnn). fold norm in H. lra. }
    set (imp := map (importance LibmR alpha norm) sm).
    assert (Hwd : Forall (fun t => 0 <= t /\
            (t = 0 -> importance LibmR alpha norm t = 0) /\
            (t <> 0 -> 0 < t / norm < 1 /\ ln (t / norm) < 0 /\ 0 < imp_base norm t /\
                       importance LibmR alpha norm t = Rpower (imp_base norm t) alpha /\
                       0 < importance LibmR alpha norm t)) sm).
    { eapply Forall_impl; [|exact Hsf]. cbv beta. intros t (Ht0 & Ht1). split; [exact Ht0|].
      now apply importance_R. }
    assert (Himp_nn : nonneg imp).
    { unfold imp, nonneg. rewrite Forall_map. eapply Forall_impl; [|exact Hwd]. cbv beta.
      intros t (_ & Hz & Hnz). destruct (Req_dec t 0) as [E|E]; [rewrite (Hz E); lra|].
      destruct (Hnz E) as (_ & _ & _ & _ & Hp). lra. }
    assert (Himp_len : length imp = N.to_nat (pdf_bins p)). { unfold imp. rewrite map_length. exact (eq_trans Hsl Hraw). }
    assert (Himp_pos : 0 < sumR imp).
    { destruct (sumR_pos_exists sm Hsnn En) as (t & Hin & Htp).
      apply (sumR_pos imp (importance LibmR alpha norm t) Himp_nn); [unfold imp; now apply in_map|].
      rewrite Forall_forall in Hwd. destruct (Hwd t Hin) as (_ & _ & Hnz). apply Hnz. lra. }
    assert (HB : INR (N.to_nat (pdf_bins p)) = IZR (Z.of_N (pdf_bins p))) by (rewrite INR_N, N2Nat.id; reflexivity).
    assert (HBp : 0 < IZR (Z.of_N (pdf_bins p))) by (apply IZR_N_pos; lia).
    assert (Hf0 : importance LibmR alpha norm 0 = 0) by (apply importance_R; lra).
    rewrite (imp_sum_R _ Hf0). fold imp. cbn [NumR zero div ofN T]. rewrite Rplus_0_l.
    set (avg := sumR imp / IZR (Z.of_N (pdf_bins p))).
    assert (Havg : 0 < avg) by (apply Rdiv_lt_0_compat; lra).
    assert (Hsum : sumR imp = INR (length imp) * avg). { rewrite Himp_len, HB. unfold avg. field. lra. }
    change (T NumR) with R in *.
    assert (Hgm0 : forall b, (b < length imp)%nat -> gridn p d b <= gridn p d (S b)).
    { intros b Hbb. rewrite !gridn_slice by (auto; unfold nbins; lia). apply V. unfold nbins. lia. }
    destruct (redistribute_spec p d imp avg W Hd Himp_len Himp_nn Havg Hsum Hgm0
                (N.to_nat (pdf_bins p) - 1) 1 0%N 0) as (inner & Hin & Hinl & Hok);
      [lia|lia|lia|cbn [N.to_nat]; rewrite cum_0; cbn [INR Nat.sub]; lra|lra|left; split; [reflexivity|lra]|].
    match goal with |- exists row, bind ?r _ = _ /\ _ =>
      change r with (@redistribute NumR (N.to_nat (pdf_bins p) - 1) p d imp avg 0%N 0) end.
    rewrite Hin. cbn [bind].
    destruct (slice p d) as [|first old'] eqn:Eold; [cbn [length] in Hold; lia|].
    eexists. split; [reflexivity|].
    assert (Hgm : mono_upto (gridn p d) (nbins p)).
    { intros b Hbb. rewrite !gridn_slice by (auto; lia). rewrite Eold. apply V. exact Hbb. }
    destruct (assemble_valid (nbins p) imp (gridn p d) avg first (last (first :: old') 0) inner) as (RV & BO);
      unfold nbins in *; auto; try lia.
    + rewrite gridn_slice by (auto; lia). rewrite Eold. reflexivity.
    + rewrite gridn_slice by (auto; lia). rewrite Eold, last_nth, Hold. f_equal. lia.
    + rewrite gridn_slice by (auto; lia). rewrite Eold. apply V.
    + rewrite gridn_slice by (auto; lia). rewrite Eold. apply V.
    + split; [exact RV|]. split; [intros E; contradiction|]. split.
      * intros _.
        split; [split; [exact Hnorm|exact Hwd]|]. rewrite HB. fold avg. split; [exact Havg|].
        intros k Hk. apply boundary_ok_ext with (g := gridn p d); [|apply BO; exact Hk].
        intros b Hbb. fold imp in Hbb. rewrite gridn_slice by (auto; unfold nbins; lia). rewrite Eold. reflexivity.
      * intros Hst. destruct RV as (_ & R0 & R1 & _).
        apply (assemble_strict (N.to_nat (pdf_bins p)) imp (gridn p d) avg); auto.
        -- rewrite <- Himp_len. exact Hsum.
        -- intros b Hbb. rewrite !gridn_slice by (auto; unfold nbins; lia). rewrite Eold. apply Hst. exact Hbb.
        -- rewrite R0. rewrite gridn_slice by (auto; unfold nbins; lia). rewrite Eold. symmetry. apply V.
        -- rewrite R1. rewrite gridn_slice by (auto; unfold nbins; lia). rewrite Eold. symmetry. apply V.
Qed.

(* ------------------------------------------------------------------------------------------- *)
(** * 6. all dimensions: [refine_pdf] *)
Lemma refine_dims_rows (p : pdf NumR) alpha data (n : nat) : forall k s,
  (forall d, (s <= d < s + N.of_nat k)%N ->
     exists row, refine_dim LibmR p alpha data d = Ok row /\ length row = n) ->
  exists x, refine_dims LibmR p alpha data (iotaN s k) = Ok x /\ length x = (k * n)%nat /\
    forall i, (i < k)%nat ->
      refine_dim LibmR p alpha data (s + N.of_nat i) = Ok (firstn n (skipn (i * n) x)).
Proof.
  induction k as [|k IH]; intros s H; cbn [iotaN refine_dims].
  - exists []. split; [reflexivity|]. split; [reflexivity|]. intros i Hi. lia.
  - destruct (H s ltac:(lia)) as (row & Hrow & Hlen). rewrite Hrow. cbn [bind].
    destruct (IH (s + 1)%N) as (x & Hx & Hxl & Hxi); [intros d Hd; apply H; lia|].
    rewrite Hx. cbn [bind]. exists (row ++ x). split; [reflexivity|]. change (T NumR) with R in *.
    split; [rewrite app_length; lia|].
    intros [|i] Hi.
    + rewrite N.add_0_r, Hrow. f_equal. cbn [Nat.mul skipn]. rewrite firstn_app, firstn_all2 by lia.
      replace (n - length row)%nat with 0%nat by lia. cbn [firstn]. now rewrite app_nil_r.
    + replace (s + N.of_nat (S i))%N with (s + 1 + N.of_nat i)%N by lia. rewrite Hxi by lia. f_equal. f_equal.
      cbn [Nat.mul]. rewrite skipn_app, (skipn_all2 row) by lia. cbn [app]. f_equal. lia.
Qed.

Definition refine_dim_post (p : pdf NumR) (alpha : R) (data : list R) (d : N) (row : list R) : Prop :=
  (sumR (smoothed p data d) = 0 -> row = slice p d) /\
  (sumR (smoothed p data d) <> 0 -> importance_well_defined p alpha data d /\ equal_share p alpha data d row).

Lemma refine_pdf_R (p : pdf NumR) (alpha : R) (data : list R) :
  valid_grid p -> (2 <= pdf_bins p)%N ->
  length data = N.to_nat (pdf_dims p * pdf_bins p) -> nonneg data ->
  exists p', refine_pdf LibmR p alpha data = Ok p' /\
    pdf_bins p' = pdf_bins p /\ pdf_dims p' = pdf_dims p /\ valid_grid p' /\
    forall d, (d < pdf_dims p)%N ->
      refine_dim LibmR p alpha data d = Ok (slice p' d) /\ refine_dim_post p alpha data d (slice p' d) /\
      (row_strict (nbins p) (slice p d) -> row_strict (nbins p) (slice p' d)).
Proof.
  intros V Hb Hdl Hdn. unfold refine_pdf.
  destruct (refine_dims_rows p alpha data (S (nbins p)) (N.to_nat (pdf_dims p)) 0) as (x & Hx & Hxl & Hxi).
  { intros d Hd. destruct (refine_dim_R p alpha data d V Hb ltac:(lia) Hdl Hdn) as (row & Hr & (RL & _) & _).
    exists row. split; [exact Hr|exact RL]. }
  rewrite Hx. cbn [bind]. eexists. split; [reflexivity|]. cbn [pdf_bins pdf_dims].
  split; [reflexivity|]. split; [reflexivity|].
  assert (Hsl : forall d, (d < pdf_dims p)%N ->
            slice (mk_pdf (pdf_bins p) (pdf_dims p) x) d = firstn (S (nbins p)) (skipn (N.to_nat d * S (nbins p)) x)).
  { intros d Hd. unfold slice, dim_slice, nbins. cbn [pdf_bins pdf_x]. f_equal; [lia|]. f_equal. lia. }
  assert (Hall : forall d, (d < pdf_dims p)%N ->
            refine_dim LibmR p alpha data d = Ok (slice (mk_pdf (pdf_bins p) (pdf_dims p) x) d)).
  { intros d Hd. rewrite (Hsl d Hd). pose proof (Hxi (N.to_nat d) ltac:(lia)) as E.
    replace (0 + N.of_nat (N.to_nat d))%N with d in E by lia. exact E. }
  assert (Hpost : forall d, (d < pdf_dims p)%N ->
            row_valid (nbins p) (slice (mk_pdf (pdf_bins p) (pdf_dims p) x) d) /\
            refine_dim_post p alpha data d (slice (mk_pdf (pdf_bins p) (pdf_dims p) x) d) /\
            (row_strict (nbins p) (slice p d) ->
             row_strict (nbins p) (slice (mk_pdf (pdf_bins p) (pdf_dims p) x) d))).
  { intros d Hd. destruct (refine_dim_R p alpha data d V Hb Hd Hdl Hdn) as (row & Hr & RV & P1 & P2 & PS).
    rewrite (Hall d Hd) in Hr. injection Hr as <-. split; [exact RV|]. split; [split; assumption|exact PS]. }
  split.
  - split.
    + unfold pdf_wf. cbn [pdf_bins pdf_dims pdf_x]. change (T NumR) with R in *. rewrite Hxl. unfold nbins. lia.
    + intros d Hd. cbn [pdf_dims] in Hd. apply Hpost. exact Hd.
  - intros d Hd. split; [now apply Hall|now apply Hpost].
Qed.

(** grids with strictly increasing boundaries, as the C++ documentation asks for *)
Definition strict_grid (p : pdf NumR) : Prop :=
  forall d, (d < pdf_dims p)%N -> row_strict (nbins p) (slice p d).

(** successive refinements, each with its own damping and adjustment data *)
Fixpoint refine_chain (p : pdf NumR) (steps : list (R * list R)) : res (pdf NumR) :=
  match steps with
  | [] => Ok p
  | (alpha, data) :: rest => do p' <- refine_pdf LibmR p alpha data; refine_chain p' rest
  end.

Definition good_data (p : pdf NumR) (data : list R) : Prop :=
  length data = N.to_nat (pdf_dims p * pdf_bins p) /\ nonneg data.

Lemma refine_pdf_strict (p p' : pdf NumR) (alpha : R) (data : list R) :
  valid_grid p -> (2 <= pdf_bins p)%N -> good_data p data ->
  refine_pdf LibmR p alpha data = Ok p' -> strict_grid p -> strict_grid p'.
Proof.
  intros V Hb (Hl & Hn) H S.
  destruct (refine_pdf_R p alpha data V Hb Hl Hn) as (p1 & H1 & B1 & D1 & _ & Hd).
  rewrite H in H1. injection H1 as <-. intros d Hdd. rewrite D1 in Hdd. unfold nbins. rewrite B1.
  apply (Hd d Hdd). apply S. exact Hdd.
Qed.

Lemma refine_chain_valid (steps : list (R * list R)) : forall (p : pdf NumR),
  valid_grid p -> (2 <= pdf_bins p)%N -> Forall (fun s => good_data p (snd s)) steps ->
  exists p', refine_chain p steps = Ok p' /\
    pdf_bins p' = pdf_bins p /\ pdf_dims p' = pdf_dims p /\ valid_grid p' /\
    (strict_grid p -> strict_grid p').
Proof.
  induction steps as [|[alpha data] rest IH]; intros p V Hb Hs; cbn [refine_chain].
  - exists p. auto.
  - inversion Hs as [|? ? (Hl & Hn) Hs']; subst. cbn [snd] in *.
    destruct (refine_pdf_R p alpha data V Hb Hl Hn) as (p1 & H1 & B1 & D1 & V1 & _).
    rewrite H1. cbn [bind]. destruct (IH p1 V1) as (p' & H' & B' & D' & V' & S'); [now rewrite B1| |].
    + eapply Forall_impl; [|exact Hs']. cbv beta. unfold good_data. now rewrite B1, D1.
    + exists p'. split; [exact H'|]. split; [congruence|]. split; [congruence|]. split; [exact V'|].
      intros S. apply S'. apply (refine_pdf_strict p p1 alpha data); auto. split; assumption.
Qed.

(* ------------------------------------------------------------------------------------------- *)
(** * 7. every sampled point lies in the bin reported for it *)
(* boundary b of dimension d, read from the slice *)
Definition bnd (p : pdf NumR) (d b : N) : R := nth (N.to_nat b) (slice p d) 0.

Lemma grid_bnd p d b : pdf_wf p -> (d < pdf_dims p)%N -> (b <= pdf_bins p)%N -> grid p d b = bnd p d b.
Proof.
  intros W Hd Hb. unfold bnd. rewrite <- gridn_slice by (auto; unfold nbins; lia).
  unfold gridn. now rewrite N2Nat.id.
Qed.

Definition in_bin (p : pdf NumR) (d : N) (x : R) (b : N) (w : R) : Prop :=
  (b < pdf_bins p)%N /\ bnd p d b <= x <= bnd p d (b + 1) /\
  w = (bnd p d (b + 1) - bnd p d b) * IZR (Z.of_N (pdf_bins p)).

Lemma icdf1_in_bin (p : pdf NumR) (d : N) (u : R) :
  valid_grid p -> (d < pdf_dims p)%N -> (1 <= pdf_bins p < 2 ^ 64)%N -> 0 <= u < 1 ->
  exists x b w, icdf1 p d u = Ok (x, b, w) /\ in_bin p d x b w /\
    Z.of_N b = Zfloor (u * IZR (Z.of_N (pdf_bins p))) /\
    x = bnd p d b + (u * IZR (Z.of_N (pdf_bins p)) - IZR (Z.of_N b)) * (bnd p d (b + 1) - bnd p d b).
Proof.
  intros (W & V) Hd Hbins Hu. specialize (V d Hd).
  set (B := IZR (Z.of_N (pdf_bins p))).
  assert (HB : 0 < B) by (apply IZR_N_pos; lia).
  set (z := Zfloor (u * B)).
  assert (Hpos : 0 <= u * B) by (apply Rmult_le_pos; lra).
  assert (Hlt : u * B < B) by nra.
  assert (Hz0 : (0 <= z)%Z) by (apply Zfloor_lub; exact Hpos).
  assert (Hzl : IZR z <= u * B) by apply Zfloor_lb.
  assert (Hzu : u * B < IZR z + 1) by apply Zfloor_ub.
  assert (HzB : (z < Z.of_N (pdf_bins p))%Z) by (apply lt_IZR; fold B; lra).
  assert (Hu1 : Reqb u 1 = false) by (apply Reqb_false; lra).
  unfold icdf1. cbn [NumR eqb one pred_one mul ofN trunc sub add T]. rewrite Hu1. fold B.
  unfold Rtrunc_N. rewrite Ztrunc_floor by exact Hpos. fold z.
  destruct (Z.ltb_spec z 0) as [?|_]; [lia|].
  destruct (Z.ltb_spec z (2 ^ 64)) as [_|?]; [|lia].
  rewrite (bin_left_ok p d (Z.to_N z) W Hd) by lia.
  rewrite (bin_left_ok p d (Z.to_N z + 1) W Hd) by lia. cbn [bind].
  rewrite !grid_bnd by (auto; lia). rewrite Z2N.id by exact Hz0.
  assert (Hm : bnd p d (Z.to_N z) <= bnd p d (Z.to_N z + 1)).
  { unfold bnd. replace (N.to_nat (Z.to_N z + 1)) with (S (N.to_nat (Z.to_N z))) by lia.
    apply V. unfold nbins. lia. }
  eexists _, _, _. split; [reflexivity|]. split; [|split; [now rewrite Z2N.id|now rewrite Z2N.id]].
  split; [lia|]. split; [|reflexivity].
  set (ins := u * B - IZR z). assert (0 <= ins < 1) by (unfold ins; lra). nra.
Qed.

Fixpoint all_in_bin (p : pdf NumR) (d : N) (xs : list R) (bs : list N) (ws : list R) : Prop :=
  match xs, bs, ws with
  | [], [], [] => True
  | x :: xs', b :: bs', w :: ws' => in_bin p d x b w /\ all_in_bin p (d + 1) xs' bs' ws'
  | _, _, _ => False
  end.

Lemma icdf_all_in_bin (p : pdf NumR) : valid_grid p -> (1 <= pdf_bins p < 2 ^ 64)%N ->
  forall us d, (N.to_nat d + length us <= N.to_nat (pdf_dims p))%nat -> Forall (fun u => 0 <= u < 1) us ->
  exists xs bs ws, icdf_all p d us xs bs ws /\ all_in_bin p d xs bs ws.
Proof.
  intros V Hb. induction us as [|u us IH]; intros d Hd Hu.
  - exists [], [], []. split; [constructor|exact I].
  - cbn [length] in Hd. inversion Hu as [|? ? Hu1 Hu2]; subst.
    destruct (icdf1_in_bin p d u V ltac:(lia) Hb Hu1) as (x & b & w & H1 & H2 & _).
    destruct (IH (d + 1)%N ltac:(lia) Hu2) as (xs & bs & ws & H3 & H4).
    exists (x :: xs), (b :: bs), (w :: ws). split; [now constructor|]. split; assumption.
Qed.

Lemma icdf_in_bin (p : pdf NumR) (us : list R) :
  valid_grid p -> (1 <= pdf_bins p < 2 ^ 64)%N ->
  length us = N.to_nat (pdf_dims p) -> Forall (fun u => 0 <= u < 1) us ->
  exists xs bs ws, icdf p us = Ok (xs, bs, prodR ws) /\ all_in_bin p 0 xs bs ws /\
    length xs = length us /\ length bs = length us /\ length ws = length us.
Proof.
  intros V Hb Hl Hu.
  destruct (icdf_all_in_bin p V Hb us 0%N ltac:(lia) Hu) as (xs & bs & ws & H1 & H2).
  exists xs, bs, ws. split; [now apply icdf_componentwise|]. split; [exact H2|].
  exact (icdf_all_length p 0 us xs bs ws H1).
Qed.

(* ------------------------------------------------------------------------------------------- *)
(** * 7b. every numeric type: a produced boundary is never below the lower edge of the old bin it
      was interpolated in (the clamp added to the C++ after a rounding defect was found) *)
Section ClampGeneric.
  Context {K : Num}.

  Lemma clamp_not_below (x p : K) : ltb K p p = false -> ltb K (if ltb K x p then p else x) p = false.
  Proof. intros H. destruct (ltb K x p) eqn:E; [exact H|exact E]. Qed.

  (* the run of [redistribute]: each step scans to old bin [bin' - 1] with lower edge [prev] and
     produces [y]; [Rel y prev] is what is claimed about the pair *)
  Fixpoint steps_rel (Rel : K -> K -> Prop) (k : nat) (p : pdf K) (d : N) (tmp : list K) (avg : K)
           (bin : N) (tb : K) (l : list K) : Prop :=
    match k, l with
    | O, [] => True
    | S k', y :: rest =>
      exists bin' tb' prev, scan (S (length tmp)) tmp avg bin tb = Ok (bin', tb') /\ bin' <> 0%N /\
        bin_left p d (bin' - 1) = Ok prev /\ Rel y prev /\
        steps_rel Rel k' p d tmp avg bin' (sub K tb' avg) rest
    | _, _ => False
    end.

  Lemma steps_rel_impl (R1 R2 : K -> K -> Prop) : (forall y prev, R1 y prev -> R2 y prev) ->
    forall k p d tmp avg bin tb l, steps_rel R1 k p d tmp avg bin tb l -> steps_rel R2 k p d tmp avg bin tb l.
  Proof.
    intros HR. induction k as [|k IH]; intros p d tmp avg bin tb l H; destruct l as [|y rest]; cbn [steps_rel] in *; auto.
    destruct H as (bin' & tb' & prev & H1 & H2 & H3 & H4 & H5). exists bin', tb', prev.
    split; [exact H1|]. split; [exact H2|]. split; [exact H3|]. split; [now apply HR|now apply IH].
  Qed.

  Definition not_below (y prev : K) : Prop := ltb K prev prev = false -> ltb K y prev = false.

  Lemma redistribute_not_below : forall k (p : pdf K) d tmp avg bin tb l,
    redistribute k p d tmp avg bin tb = Ok l -> steps_rel not_below k p d tmp avg bin tb l /\ length l = k.
  Proof.
    induction k as [|k IH]; intros p d tmp avg bin tb l H; cbn [redistribute] in H.
    - injection H as <-. split; [exact I|reflexivity].
    - destruct (scan (S (length tmp)) tmp avg bin tb) as [[bin' tb']|c] eqn:Es; cbn [bind] in H; [|discriminate].
      destruct (N.eqb_spec bin' 0) as [E0|E0]; [discriminate|].
      destruct (bin_left p d (bin' - 1)) as [prev|c] eqn:Ep; cbn [bind] in H; [|discriminate].
      destruct (bin_left p d bin') as [cur|c] eqn:Ec; cbn [bind] in H; [|discriminate].
      destruct (getN 26 tmp (bin' - 1)) as [t|c] eqn:Et; cbn [bind] in H; [|discriminate].
      destruct (redistribute k p d tmp avg bin' (sub K tb' avg)) as [rest|c] eqn:Er; cbn [bind] in H; [|discriminate].
      injection H as <-. destruct (IH _ _ _ _ _ _ _ Er) as (IH1 & IH2).
      split; [|cbn [length]; now rewrite IH2]. cbn [steps_rel].
      exists bin', tb', prev. split; [exact Es|]. split; [exact E0|]. split; [exact Ep|].
      split; [|exact IH1]. unfold not_below. apply clamp_not_below.
  Qed.
End ClampGeneric.

(* IEEE formats: [<] is irreflexive on every value (also NaN), so the statement is unconditional; for
   finite values it says  previous <= boundary  as real numbers *)
Lemma Bltb_irrefl prec emax (x : binary_float prec emax) : Bltb x x = false.
Proof.
  destruct x as [s|s| |s m e H]; try reflexivity.
  - destruct s; reflexivity.
  - unfold Bltb, SpecFloat.SFltb. cbn. rewrite Z.compare_refl, Pos.compare_cont_refl. destruct s; reflexivity.
Qed.

Definition not_below_B prec emax (y prev : binary_float prec emax) : Prop :=
  Bltb y prev = false /\ (is_finite prev = true -> is_finite y = true -> (B2R prev <= B2R y)%R).

Lemma c07_new_boundary_not_below_bin :
  forall (K : Num) k (p : pdf K) d tmp avg bin tb l,
    redistribute k p d tmp avg bin tb = Ok l ->
    steps_rel (fun y prev => ltb K prev prev = false -> ltb K y prev = false) k p d tmp avg bin tb l /\ length l = k.
Proof. intros K. exact (@redistribute_not_below K). Qed.

Lemma c07_new_boundary_not_below_bin_float :
  forall prec emax Hprec Hmax k (p : pdf (NumB prec emax Hprec Hmax)) d tmp avg bin tb l,
    redistribute k p d tmp avg bin tb = Ok l ->
    steps_rel (K := NumB prec emax Hprec Hmax) (not_below_B prec emax) k p d tmp avg bin tb l /\ length l = k.
Proof.
  intros prec emax Hprec Hmax k p d tmp avg bin tb l H.
  destruct (redistribute_not_below k p d tmp avg bin tb l H) as (H1 & H2). split; [|exact H2].
  apply (steps_rel_impl (K := NumB prec emax Hprec Hmax) not_below); [|exact H1].
  intros y prev Hnb. unfold not_below in Hnb. cbn [NumB ltb] in Hnb. specialize (Hnb (Bltb_irrefl _ _ prev)).
  split; [exact Hnb|]. intros Fp Fy. rewrite (Bltb_correct _ _ y prev Fy Fp) in Hnb.
  destruct (Rlt_bool_spec (B2R y) (B2R prev)) as [?|Hle]; [discriminate|exact Hle].
Qed.

(* ------------------------------------------------------------------------------------------- *)
(** * 8. the statements of Properties_C07.v *)

(* the four laws about zero hold in IEEE arithmetic (float, double, x87 long double): computed
   through the wire representation *)
Definition zero_chk (K : Num) (out : K -> outrep) : bool :=
  match out (add K (zero K) (zero K)), out (mul K (@half K) (zero K)), out (div K (zero K) (ofN K 3)) with
  | OZero false, OZero false, OZero false => eqb K (zero K) (zero K)
  | _, _, _ => false
  end.

Lemma Bout_zero prec emax (x : binary_float prec emax) : Bout prec emax x = OZero false -> x = B754_zero false.
Proof. destruct x as [s| | |]; cbn; intros H; try discriminate. now injection H as ->. Qed.

Lemma zero_laws_of_chk (K : Num) (out : K -> outrep) :
  (forall x, out x = OZero false -> x = zero K) -> zero_chk K out = true -> @zero_laws K.
Proof.
  intros Ho H. unfold zero_chk in H.
  destruct (out (add K (zero K) (zero K))) as [| |[|]|] eqn:E1; try discriminate.
  destruct (out (mul K half (zero K))) as [| |[|]|] eqn:E2; try discriminate.
  destruct (out (div K (zero K) (ofN K 3))) as [| |[|]|] eqn:E3; try discriminate.
  unfold zero_laws. auto.
Qed.

Lemma zero_laws_B32 : @zero_laws B32.
Proof. apply (zero_laws_of_chk B32 (Bout 24 128)); [apply Bout_zero|vm_compute; reflexivity]. Qed.
Lemma zero_laws_B64 : @zero_laws B64.
Proof. apply (zero_laws_of_chk B64 (Bout 53 1024)); [apply Bout_zero|vm_compute; reflexivity]. Qed.
Lemma zero_laws_B80 : @zero_laws B80.
Proof. apply (zero_laws_of_chk B80 (Bout 64 16384)); [apply Bout_zero|vm_compute; reflexivity]. Qed.

Lemma zero_laws_all : @zero_laws NumR /\ @zero_laws B32 /\ @zero_laws B64 /\ @zero_laws B80.
Proof. exact (conj zero_laws_R (conj zero_laws_B32 (conj zero_laws_B64 zero_laws_B80))). Qed.

Lemma c07_refine_zero_data_id_generic :
  forall (K : Num) (L : Libm K) (p : pdf K) (alpha : K) (data : list K),
    @zero_laws K -> (2 <= pdf_bins p)%N ->
    length (pdf_x p) = N.to_nat (pdf_dims p * (pdf_bins p + 1)) ->
    length data = N.to_nat (pdf_dims p * pdf_bins p) ->
    Forall (fun x => x = zero K) data ->
    refine_pdf L p alpha data = Ok p.
Proof. intros K L p alpha data Z. now apply refine_zero_data_id_gen. Qed.

Lemma c07_refine_zero_data_id_float :
  (forall (L : Libm B32) p alpha data, (2 <= pdf_bins p)%N ->
     length (pdf_x p) = N.to_nat (pdf_dims p * (pdf_bins p + 1)) ->
     length data = N.to_nat (pdf_dims p * pdf_bins p) -> Forall (fun x => x = zero B32) data ->
     refine_pdf L p alpha data = Ok p) /\
  (forall (L : Libm B64) p alpha data, (2 <= pdf_bins p)%N ->
     length (pdf_x p) = N.to_nat (pdf_dims p * (pdf_bins p + 1)) ->
     length data = N.to_nat (pdf_dims p * pdf_bins p) -> Forall (fun x => x = zero B64) data ->
     refine_pdf L p alpha data = Ok p) /\
  (forall (L : Libm B80) p alpha data, (2 <= pdf_bins p)%N ->
     length (pdf_x p) = N.to_nat (pdf_dims p * (pdf_bins p + 1)) ->
     length data = N.to_nat (pdf_dims p * pdf_bins p) -> Forall (fun x => x = zero B80) data ->
     refine_pdf L p alpha data = Ok p).
Proof.
  split; [|split]; intros L p alpha data; apply refine_zero_data_id_gen;
    [exact zero_laws_B32|exact zero_laws_B64|exact zero_laws_B80].
Qed.

Lemma c07_refine_zero_data_id :
  forall (p : pdf NumR) (alpha : R) (data : list R),
    (2 <= pdf_bins p)%N -> pdf_wf p ->
    length data = N.to_nat (pdf_dims p * pdf_bins p) ->
    Forall (fun x => x = 0) data ->
    refine_pdf LibmR p alpha data = Ok p /\
    forall d, (d < pdf_dims p)%N -> refine_dim LibmR p alpha data d = Ok (slice p d).
Proof.
  intros p alpha data Hb W Hl Hz. split.
  - apply (refine_zero_data_id_gen LibmR zero_laws_R); assumption.
  - intros d Hd. apply (refine_dim_zero_gen LibmR zero_laws_R); [exact Hb| | |].
    + apply dim_slice_length with (dims := pdf_dims p); [exact Hl|exact Hd].
    + apply dim_slice_length with (dims := pdf_dims p); [exact W|exact Hd].
    + apply (all_zero_slice (K := NumR)). exact Hz.
Qed.

(* a dimension whose own data are all zero keeps its boundaries while the others are refined *)
Lemma c07_refine_zero_dim_unchanged :
  forall (p : pdf NumR) (alpha : R) (data : list R),
    valid_grid p -> (2 <= pdf_bins p)%N -> good_data p data ->
    exists p', refine_pdf LibmR p alpha data = Ok p' /\
      forall d, (d < pdf_dims p)%N -> Forall (fun x => x = 0) (dim_slice data d (pdf_bins p)) ->
        slice p' d = slice p d.
Proof.
  intros p alpha data V Hb (Hl & Hn).
  destruct (refine_pdf_R p alpha data V Hb Hl Hn) as (p' & H & _ & _ & _ & Hd).
  exists p'. split; [exact H|]. intros d Hdd Hz. destruct (Hd d Hdd) as (_ & (P0 & _) & _). apply P0.
  unfold smoothed.
  destruct (smooth_zero (K := NumR) zero_laws_R _ Hz) as (sm & Hsm & Hsz).
  { pose proof (dim_slice_length data d (pdf_bins p) (pdf_dims p) Hl Hdd) as E.
    change (T NumR) with R in *. rewrite E. lia. }
  rewrite Hsm. rewrite <- sum_from_first_R. exact (sum_from_first_zero (K := NumR) zero_laws_R sm Hsz).
Qed.

Lemma c07_refine_valid :
  forall (p : pdf NumR) (alpha : R) (data : list R),
    valid_grid p -> (2 <= pdf_bins p)%N -> good_data p data ->
    exists p', refine_pdf LibmR p alpha data = Ok p' /\
      pdf_bins p' = pdf_bins p /\ pdf_dims p' = pdf_dims p /\ valid_grid p' /\
      (strict_grid p -> strict_grid p').
Proof.
  intros p alpha data V Hb (Hl & Hn).
  destruct (refine_pdf_R p alpha data V Hb Hl Hn) as (p' & H & B & D & V' & _).
  exists p'. split; [exact H|]. split; [exact B|]. split; [exact D|]. split; [exact V'|].
  apply (refine_pdf_strict p p' alpha data); auto. split; assumption.
Qed.

Lemma c07_importance_well_defined :
  forall (p : pdf NumR) (alpha : R) (data : list R) (d : N),
    valid_grid p -> (2 <= pdf_bins p)%N -> good_data p data -> (d < pdf_dims p)%N ->
    sumR (smoothed p data d) <> 0 -> importance_well_defined p alpha data d.
Proof.
  intros p alpha data d V Hb (Hl & Hn) Hd Hs.
  destruct (refine_pdf_R p alpha data V Hb Hl Hn) as (p' & _ & _ & _ & _ & H).
  destruct (H d Hd) as (_ & (_ & P) & _). now apply P.
Qed.

Lemma c07_refine_equal_share :
  forall (p : pdf NumR) (alpha : R) (data : list R),
    valid_grid p -> (2 <= pdf_bins p)%N -> good_data p data ->
    exists p', refine_pdf LibmR p alpha data = Ok p' /\
      forall d, (d < pdf_dims p)%N ->
        (sumR (smoothed p data d) = 0 -> slice p' d = slice p d) /\
        (sumR (smoothed p data d) <> 0 -> equal_share p alpha data d (slice p' d)).
Proof.
  intros p alpha data V Hb (Hl & Hn).
  destruct (refine_pdf_R p alpha data V Hb Hl Hn) as (p' & H & _ & _ & _ & Hd).
  exists p'. split; [exact H|]. intros d Hdd. destruct (Hd d Hdd) as (_ & (P0 & P1) & _).
  split; [exact P0|]. intros Hs. now apply P1.
Qed.

Lemma c07_refine_chain_valid :
  forall (p : pdf NumR) (steps : list (R * list R)),
    valid_grid p -> (2 <= pdf_bins p)%N -> Forall (fun s => good_data p (snd s)) steps ->
    exists p', refine_chain p steps = Ok p' /\
      pdf_bins p' = pdf_bins p /\ pdf_dims p' = pdf_dims p /\ valid_grid p' /\
      (strict_grid p -> strict_grid p').
Proof. intros p steps. apply refine_chain_valid. Qed.

Lemma c07_icdf1_in_bin :
  forall (p : pdf NumR) (d : N) (u : R),
    valid_grid p -> (d < pdf_dims p)%N -> (1 <= pdf_bins p < 2 ^ 64)%N -> 0 <= u < 1 ->
    exists x b w, icdf1 p d u = Ok (x, b, w) /\ in_bin p d x b w /\
      Z.of_N b = Zfloor (u * IZR (Z.of_N (pdf_bins p))) /\
      x = bnd p d b + (u * IZR (Z.of_N (pdf_bins p)) - IZR (Z.of_N b)) * (bnd p d (b + 1) - bnd p d b).
Proof. exact icdf1_in_bin. Qed.

Lemma c07_icdf_in_bin :
  forall (p : pdf NumR) (us : list R),
    valid_grid p -> (1 <= pdf_bins p < 2 ^ 64)%N ->
    length us = N.to_nat (pdf_dims p) -> Forall (fun u => 0 <= u < 1) us ->
    exists xs bs ws, icdf p us = Ok (xs, bs, prodR ws) /\ all_in_bin p 0 xs bs ws /\
      length xs = length us /\ length bs = length us /\ length ws = length us.
Proof. exact icdf_in_bin. Qed.

(* ------------------------------------------------------------------------------------------- *)
(** * 10. the library's initial grid is valid *)
Lemma concat_repeat_length {A} (row : list A) k : length (concat (repeat row k)) = (k * length row)%nat.
Proof. induction k as [|k IH]; [reflexivity|]. cbn [repeat concat]. rewrite app_length, IH. lia. Qed.

Lemma slice_concat_repeat {A} (row : list A) : forall k d, (d < k)%nat ->
  firstn (length row) (skipn (d * length row) (concat (repeat row k))) = row.
Proof.
  induction k as [|k IH]; intros d Hd; [lia|]. cbn [repeat concat]. destruct d as [|d].
  - cbn [Nat.mul skipn]. rewrite firstn_app, firstn_all, Nat.sub_diag. cbn [firstn]. apply app_nil_r.
  - cbn [Nat.mul]. rewrite skipn_app, (skipn_all2 row) by lia. cbn [app].
    replace (length row + d * length row - length row)%nat with (d * length row)%nat by lia. apply IH. lia.
Qed.

Definition uniform_row (bins : N) : list R :=
  map (fun i => IZR (Z.of_N i) / IZR (Z.of_N bins)) (iotaN 0 (S (N.to_nat bins))).

Lemma uniform_row_nth bins i : (i <= N.to_nat bins)%nat ->
  nth i (uniform_row bins) 0 = IZR (Z.of_nat i) / IZR (Z.of_N bins).
Proof.
  intros Hi. apply nth_error_nth. unfold uniform_row. rewrite nth_error_map, iotaN_nth by lia.
  cbn [option_map]. do 3 f_equal. lia.
Qed.

Lemma uniform_valid (dims bins : N) : (1 <= bins)%N ->
  valid_grid (@uniform_pdf NumR dims bins) /\ strict_grid (@uniform_pdf NumR dims bins) /\
  pdf_bins (@uniform_pdf NumR dims bins) = bins /\ pdf_dims (@uniform_pdf NumR dims bins) = dims.
Proof.
  intros Hb. unfold uniform_pdf. cbn [NumR div ofN T]. fold (uniform_row bins).
  assert (Hrl : length (uniform_row bins) = S (N.to_nat bins)).
  { unfold uniform_row. now rewrite map_length, iotaN_length. }
  assert (HB : 0 < IZR (Z.of_N bins)) by (apply IZR_N_pos; lia).
  assert (Hsl : forall d, (d < dims)%N ->
            slice (@mk_pdf NumR bins dims (concat (repeat (uniform_row bins) (N.to_nat dims)))) d = uniform_row bins).
  { intros d Hd. unfold slice, dim_slice. cbn [pdf_x pdf_bins].
    replace (N.to_nat (bins + 1)) with (length (uniform_row bins)) by lia.
    replace (N.to_nat (d * (bins + 1))) with (N.to_nat d * length (uniform_row bins))%nat by lia.
    apply slice_concat_repeat. lia. }
  split; [|split; [|split; reflexivity]]; [split|].
  3:{ intros d Hd. cbn [pdf_dims] in Hd. rewrite (Hsl d Hd). unfold nbins. cbn [pdf_bins]. intros k Hk.
      rewrite !uniform_row_nth by lia. rewrite Nat2Z.inj_succ, succ_IZR.
      apply Rmult_lt_compat_r; [now apply Rinv_0_lt_compat|lra]. }
  - unfold pdf_wf. cbn [pdf_x pdf_dims pdf_bins]. change (T NumR) with R. rewrite concat_repeat_length, Hrl. lia.
  - intros d Hd. cbn [pdf_dims] in Hd. unfold slice, dim_slice, nbins. cbn [pdf_x pdf_bins].
    replace (N.to_nat (bins + 1)) with (length (uniform_row bins)) by lia.
    replace (N.to_nat (d * (bins + 1))) with (N.to_nat d * length (uniform_row bins))%nat by lia.
    rewrite slice_concat_repeat by lia.
    split; [exact Hrl|]. split; [|split].
    + rewrite uniform_row_nth by lia. cbn. unfold Rdiv. apply Rmult_0_l.
    + rewrite uniform_row_nth by lia. rewrite N_nat_Z. field. lra.
    + intros k Hk. rewrite !uniform_row_nth by lia. rewrite Nat2Z.inj_succ, succ_IZR.
      apply Rmult_le_compat_r; [left; now apply Rinv_0_lt_compat|lra].
Qed.

(* ------------------------------------------------------------------------------------------- *)
(** * 9. a concrete instance: two dimensions, two bins; the data have a single non-zero bin in
      dimension 0 and are all zero in dimension 1 *)
Definition ex_p : pdf NumR := @mk_pdf NumR 2 2 [0; / 2; 1; 0; / 4; 1].
Definition ex_data : list R := [1; 0; 0; 0].
Definition ex_data2 : list R := [0; 0; 2; 5].

Lemma row_valid_3 (b : R) : 0 <= b <= 1 -> row_valid 2 [0; b; 1].
Proof.
  intros Hb. unfold row_valid. cbn [length nth]. repeat split; try lra.
  intros k Hk. destruct k as [|[|k]]; [| |lia]; cbn [nth]; lra.
Qed.

Lemma ex_valid : valid_grid ex_p.
Proof.
  split; [reflexivity|]. intros d Hd. cbn [ex_p pdf_dims] in Hd.
  assert (Hc : d = 0%N \/ d = 1%N) by lia.
  destruct Hc as [-> | ->].
  - change (slice ex_p 0) with [0; / 2; 1]. change (nbins ex_p) with 2%nat. apply row_valid_3. lra.
  - change (slice ex_p 1) with [0; / 4; 1]. change (nbins ex_p) with 2%nat. apply row_valid_3. lra.
Qed.

Lemma ex_strict : strict_grid ex_p.
Proof.
  intros d Hd. cbn [ex_p pdf_dims] in Hd.
  assert (Hc : d = 0%N \/ d = 1%N) by lia.
  destruct Hc as [-> | ->].
  - change (slice ex_p 0) with [0; / 2; 1]. change (nbins ex_p) with 2%nat.
    intros k Hk. destruct k as [|[|k]]; [| |lia]; cbn [nth]; lra.
  - change (slice ex_p 1) with [0; / 4; 1]. change (nbins ex_p) with 2%nat.
    intros k Hk. destruct k as [|[|k]]; [| |lia]; cbn [nth]; lra.
Qed.

Lemma ex_bins : (2 <= pdf_bins ex_p)%N /\ (1 <= pdf_bins ex_p < 2 ^ 64)%N.
Proof. cbn. lia. Qed.

Lemma ex_good : good_data ex_p ex_data /\ good_data ex_p ex_data2.
Proof. split; (split; [reflexivity|]); unfold nonneg, ex_data, ex_data2; repeat constructor; lra. Qed.

Lemma ex_norm : sumR (smoothed ex_p ex_data 0) <> 0 /\ (0 < pdf_dims ex_p)%N.
Proof.
  split; [|cbn; lia].
  change (smoothed ex_p ex_data 0) with [@half NumR * (1 + 0); @half NumR * (1 + 0)].
  rewrite halfR. rewrite !sumR_cons, sumR_nil. lra.
Qed.

Lemma ex_zero_dim : (1 < pdf_dims ex_p)%N /\ Forall (fun x => x = 0) (dim_slice ex_data 1 (pdf_bins ex_p)).
Proof. split; [cbn; lia|]. unfold dim_slice, ex_data. cbn. repeat constructor. Qed.

Lemma ex_zero_data : pdf_wf ex_p /\ length [0; 0; 0; 0] = N.to_nat (pdf_dims ex_p * pdf_bins ex_p) /\
  Forall (fun x : R => x = 0) [0; 0; 0; 0].
Proof. split; [reflexivity|]. split; [reflexivity|]. repeat constructor. Qed.

Lemma ex_chain : Forall (fun s : R * list R => good_data ex_p (snd s)) [(3 / 2, ex_data); (0, ex_data2); (3, ex_data)].
Proof.
  destruct ex_good as (G1 & G2).
  constructor; [exact G1|constructor; [exact G2|constructor; [exact G1|constructor]]].
Qed.

Lemma ex_us : length [0; 3 / 4] = N.to_nat (pdf_dims ex_p) /\ Forall (fun u => 0 <= u < 1) [0; 3 / 4].
Proof. split; [reflexivity|]. repeat constructor; lra. Qed.

(* one redistribution step is defined: over the reals (importances 1, 1; average 1) and in double
   precision (uniform two-bin grid), the latter computed through the wire representation *)
Lemma ex_redistribute_R : exists l, @redistribute NumR 1 ex_p 0 [1; 1] 1 0%N 0 = Ok l /\ length l = 1%nat.
Proof.
  destruct ex_valid as (W & V).
  destruct (redistribute_spec ex_p 0 [1; 1] 1 W ltac:(cbn; lia) eq_refl) with (k := 1%nat) (j := 1%nat) (bin := 0%N) (tb := 0)
    as (l & Hl & Hll & _).
  - unfold nonneg. repeat constructor; lra.
  - lra.
  - rewrite !sumR_cons, sumR_nil. cbn [length INR]. lra.
  - intros b Hb. cbn [length] in Hb. rewrite !gridn_slice by (auto; cbn; lia). apply (V 0%N ltac:(cbn; lia)). exact Hb.
  - cbn [length]. lia.
  - lia.
  - cbn [length N.to_nat]. lia.
  - cbn [N.to_nat]. rewrite cum_0. cbn [INR Nat.sub]. lra.
  - lra.
  - left. split; [reflexivity|lra].
  - exists l. split; [exact Hl|exact Hll].
Qed.

Definition exB_chk : bool :=
  match @redistribute B64 1 (@uniform_pdf B64 1 2) 0 [one B64; one B64] (one B64) 0 (zero B64) with
  | Ok [y] => match Bout 53 1024 y with OFin false _ _ => true | _ => false end
  | _ => false
  end.
Lemma ex_redistribute_B64 :
  exists l, @redistribute B64 1 (@uniform_pdf B64 1 2) 0 [one B64; one B64] (one B64) 0 (zero B64) = Ok l.
Proof.
  assert (H : exB_chk = true) by (vm_compute; reflexivity). unfold exB_chk in H.
  destruct (@redistribute B64 1 (@uniform_pdf B64 1 2) 0 [one B64; one B64] (one B64) 0 (zero B64)) as [l|c];
    [exists l; reflexivity|discriminate].
Qed.
