(** * Top: entry point of the executed model: one case in, one observation out.  Harness code. *)
From Coq Require Import ZArith NArith List String.
From HepMC Require Import Num NumB Sx Cases RunCases.
Import ListNotations.
Local Open Scope string_scope.

Definition digits10_of (t : string) : string :=
  if String.eqb t "f" then "9" else if String.eqb t "d" then "17" else "21".

(** input  (id type cmd (args ...) (libm ...))   output (id result) *)
Definition run_line (x : sx) : sx :=
  match x with
  | SL [id; SY t; SY cmd; SL args; SL libm] =>
    match fmt_of t with
    | Some F =>
      if String.eqb cmd "run" then SL [id; run_case F (libm_of F libm) (digits10_of t) args]
      else SL [id; pure_case F cmd args libm]
    | None => SL [id; SL [SY "bad_type"]]
    end
  | _ => SL [SY "bad_line"]
  end.
