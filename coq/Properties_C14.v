(** C14 - long sums do not lose accuracy (compensated summation in the accumulator).
    Statements only (proofs in Lemmas_C14.v).

    Objects.  [accumulate] is the function generated from accumulator.hpp by the translator.
    [acc_run K xs] is [accumulate K] folded over the sampled values [xs] from (0, 0, 0) and returns
    (sum, sum of squares, compensation); [run_sum] / [run_comp] project it.  Every accumulator cell of
    the model (the main accumulator and every distribution bin) is changed only by [cell_add] = one
    call of [accumulate] plus two counters ([C14_bins_use_cell_add]), and [cell_sum_after K xs] is the
    sum held by a cell after [cell_add] of the values [xs]; [C14_cell_is_accumulate] identifies it
    with [run_sum (acc_run K xs)], so all statements below hold verbatim for every bin.
    [Rsum] / [Rasum] are the mathematical sum and the sum of magnitudes; [BRsum] / [BRasum] the same
    for the real values [B2R] of a list of floats; [uB prec] = 2^-prec is the unit roundoff;
    [rounded_exact_sum] is the exact sum rounded once to nearest even into the format.

    What is proved.
    1. [C14_kahan_exact_R]: with ideal arithmetic ([NumR]) the reported sum is the exact sum and the
       compensation term stays 0, for every list.
    2. [C14_kahan_error_bound_model]: for ANY rounded addition / subtraction obeying the standard model
       [fl (a op b) = (a op b)(1 + d)], [|d| <= u], [0 <= u <= 1/64], the recurrence with exactly the
       shape of [accumulate] satisfies [|s_n - sum x| <= (7u + 20 n u^2) * sum |x|] for every sequence
       (any order, signs, magnitudes) with [n u <= 1].  No assumption relates the values to each other.
    3. [C14_float_add_standard_model] / [C14_float_sub_standard_model]: IEEE addition / subtraction
       ([NumB prec emax], round to nearest even) of finite operands with a finite result obey that
       model with [u = 2^-prec] - there is no underflow term (a sum in the subnormal range is exact).
    4. [C14_kahan_error_bound_float]: for every format with [prec >= 6] (so for float, double, x87 long
       double), every list of finite floats with [4 * sum |x| < 2^emax] and [n * 2^-prec <= 1]: no
       intermediate result of any call of [accumulate] overflows ([run_finite]), the reported sum is
       finite and [|sum - exact sum| <= (7u + 20 n u^2) * sum |x|].
       [C14_kahan_error_bound_float_intermediates_finite]: the same bound when the magnitude hypothesis
       is replaced by "all intermediate results are finite".
       [C14_kahan_vs_rounded_sum]: against the exactly ROUNDED sum the bound is [(8u + 20 n u^2) sum |x|].
    5. [C14_float32] / [C14_float64] / [C14_float80]: the three formats of the library, any number of
       calls up to 10^7, stated for a cell (main accumulator or bin): at most 19 (float) resp. 8
       (double, long double) units of roundoff of the sum of magnitudes from the exact sum, 20 resp. 9
       from the exactly rounded sum.  (For float the general theorem reaches n = 2^24 > 1.6 * 10^7.)

    What is NOT proved / not claimed.
    - The sum of squares is a plain running sum in the code ([sum_of_squares + value * value]); nothing
      is claimed about its accuracy, and it is allowed to overflow in all theorems ([run_finite] does
      not constrain it).
    - Overflow of the sum itself is excluded by hypothesis ([4 * sum |x| < 2^emax], or finiteness of the
      intermediates); beyond that the C++ produces infinities / NaN and no accuracy statement holds.
    - The theorems are about the sequence of values handed to [accumulate] / [cell_add]; that the
      integrators hand over exactly the finite non-zero weighted values is part of the run model
      ([invoke_main], [fill1d], [fill2d] in Accum.v) and is not restated here.
    - The constants (7, 20; 19 / 8 for 10^7 calls) are what this proof gives, not the sharpest known. *)
From Coq Require Import ZArith NArith Reals List Bool.
From Flocq Require Import Core BinarySingleNaN.
From HepMC Require Import Num NumR NumB Translated Accum Lemmas_C14.
Import ListNotations.
Local Open Scope R_scope.

(* every cell (main accumulator, distribution bin) evolves by [accumulate] *)
Theorem C14_cell_is_accumulate : forall (K : Num) (xs : list K),
  cell_sum_after K xs = run_sum (acc_run K xs) /\
  (forall (c : cell K) (v : K),
     (c_sum (cell_add c v), c_sumsq (cell_add c v), c_comp (cell_add c v)) =
     accumulate K (c_sum c) (c_sumsq c) (c_comp c) v).
Proof. exact (fun K xs => conj (cell_run_sum K xs) (cell_add_state K)). Qed.
Print Assumptions C14_cell_is_accumulate.

(* filling a distribution changes exactly one bin, by [cell_add] *)
Theorem C14_bins_use_cell_add : forall (K : Num) (ds : list (list (cell K))) idx bin v ds',
  upd_bin ds idx bin v = Ok ds' ->
  exists d c, nthN ds idx = Some d /\ nthN d bin = Some c /\
    (exists d', nthN ds' idx = Some d' /\ nthN d' bin = Some (cell_add c v) /\
       forall b, b <> bin -> nthN d' b = nthN d b) /\
    forall i, i <> idx -> nthN ds' i = nthN ds i.
Proof. exact upd_bin_spec. Qed.
Print Assumptions C14_bins_use_cell_add.

Theorem C14_kahan_exact_R : forall xs : list R,
  run_sum (acc_run NumR xs) = Rsum xs /\ run_comp (acc_run NumR xs) = 0.
Proof. exact kahan_exact_R. Qed.
Print Assumptions C14_kahan_exact_R.

Theorem C14_kahan_error_bound_model : forall (u : R), 0 <= u -> u <= /64 ->
  forall fadd fsub : R -> R -> R,
  (forall a b, exists d, Rabs d <= u /\ fadd a b = (a + b) * (1 + d)) ->
  (forall a b, exists d, Rabs d <= u /\ fsub a b = (a - b) * (1 + d)) ->
  forall xs : list R, INR (length xs) * u <= 1 ->
  Rabs (fst (fold_left (fun (st : R * R) (x : R) =>
                          let '(s, c) := st in
                          let y := fsub x c in
                          let t := fadd s y in
                          let c' := fsub (fsub t s) y in
                          (t, c')) xs (0, 0)) - Rsum xs)
    <= (7 * u + 20 * INR (length xs) * u * u) * Rasum xs.
Proof. exact kahan_error_bound_model. Qed.
Print Assumptions C14_kahan_error_bound_model.

Theorem C14_float_add_standard_model : forall prec emax (Hprec : FLX.Prec_gt_0 prec)
    (Hmax : Prec_lt_emax prec emax) (x y : binary_float prec emax),
  is_finite x = true -> is_finite y = true ->
  is_finite (add (NumB prec emax Hprec Hmax) x y) = true ->
  exists d, Rabs d <= bpow radix2 (- prec) /\
    B2R (add (NumB prec emax Hprec Hmax) x y) = (B2R x + B2R y) * (1 + d).
Proof. exact float_add_standard_model. Qed.
Print Assumptions C14_float_add_standard_model.

Theorem C14_float_sub_standard_model : forall prec emax (Hprec : FLX.Prec_gt_0 prec)
    (Hmax : Prec_lt_emax prec emax) (x y : binary_float prec emax),
  is_finite x = true -> is_finite y = true ->
  is_finite (sub (NumB prec emax Hprec Hmax) x y) = true ->
  exists d, Rabs d <= bpow radix2 (- prec) /\
    B2R (sub (NumB prec emax Hprec Hmax) x y) = (B2R x - B2R y) * (1 + d).
Proof. exact float_sub_standard_model. Qed.
Print Assumptions C14_float_sub_standard_model.

Theorem C14_kahan_error_bound_float : forall prec emax (Hprec : FLX.Prec_gt_0 prec)
    (Hmax : Prec_lt_emax prec emax), (6 <= prec)%Z ->
  forall xs : list (NumB prec emax Hprec Hmax),
  all_finite prec emax Hprec Hmax xs ->
  4 * BRasum prec emax Hprec Hmax xs < bpow radix2 emax ->
  INR (length xs) * bpow radix2 (- prec) <= 1 ->
  run_finite prec emax Hprec Hmax (zero _, zero _, zero _) xs /\
  is_finite (run_sum (acc_run (NumB prec emax Hprec Hmax) xs)) = true /\
  Rabs (B2R (run_sum (acc_run (NumB prec emax Hprec Hmax) xs)) - BRsum prec emax Hprec Hmax xs)
    <= (7 * bpow radix2 (- prec) + 20 * INR (length xs) * bpow radix2 (- prec) * bpow radix2 (- prec))
       * BRasum prec emax Hprec Hmax xs.
Proof. exact kahan_error_bound_float. Qed.
Print Assumptions C14_kahan_error_bound_float.

Theorem C14_kahan_error_bound_float_intermediates_finite : forall prec emax (Hprec : FLX.Prec_gt_0 prec)
    (Hmax : Prec_lt_emax prec emax), (6 <= prec)%Z ->
  forall xs : list (NumB prec emax Hprec Hmax),
  all_finite prec emax Hprec Hmax xs ->
  run_finite prec emax Hprec Hmax (zero _, zero _, zero _) xs ->
  INR (length xs) * bpow radix2 (- prec) <= 1 ->
  is_finite (run_sum (acc_run (NumB prec emax Hprec Hmax) xs)) = true /\
  Rabs (B2R (run_sum (acc_run (NumB prec emax Hprec Hmax) xs)) - BRsum prec emax Hprec Hmax xs)
    <= (7 * bpow radix2 (- prec) + 20 * INR (length xs) * bpow radix2 (- prec) * bpow radix2 (- prec))
       * BRasum prec emax Hprec Hmax xs.
Proof. exact kahan_error_bound_float_fin. Qed.
Print Assumptions C14_kahan_error_bound_float_intermediates_finite.

Theorem C14_kahan_vs_rounded_sum : forall prec emax (Hprec : FLX.Prec_gt_0 prec)
    (Hmax : Prec_lt_emax prec emax), (6 <= prec)%Z ->
  forall xs : list (NumB prec emax Hprec Hmax),
  all_finite prec emax Hprec Hmax xs ->
  4 * BRasum prec emax Hprec Hmax xs < bpow radix2 emax ->
  INR (length xs) * bpow radix2 (- prec) <= 1 ->
  Rabs (B2R (run_sum (acc_run (NumB prec emax Hprec Hmax) xs))
        - round radix2 (FLT_exp (3 - emax - prec) prec) ZnearestE (BRsum prec emax Hprec Hmax xs))
    <= (8 * bpow radix2 (- prec) + 20 * INR (length xs) * bpow radix2 (- prec) * bpow radix2 (- prec))
       * BRasum prec emax Hprec Hmax xs.
Proof. exact kahan_vs_rounded_sum. Qed.
Print Assumptions C14_kahan_vs_rounded_sum.

Theorem C14_float32 : forall xs : list B32,
  (Z.of_nat (length xs) <= 10000000)%Z ->
  all_finite 24 128 P24 M24 xs -> 4 * BRasum 24 128 P24 M24 xs < bpow radix2 128 ->
  is_finite (cell_sum_after B32 xs) = true /\
  Rabs (B2R (cell_sum_after B32 xs) - BRsum 24 128 P24 M24 xs)
    <= 19 * bpow radix2 (-24) * BRasum 24 128 P24 M24 xs /\
  Rabs (B2R (cell_sum_after B32 xs) - rounded_exact_sum 24 128 P24 M24 xs)
    <= 20 * bpow radix2 (-24) * BRasum 24 128 P24 M24 xs.
Proof. exact kahan_float32. Qed.
Print Assumptions C14_float32.

Theorem C14_float64 : forall xs : list B64,
  (Z.of_nat (length xs) <= 10000000)%Z ->
  all_finite 53 1024 P53 M53 xs -> 4 * BRasum 53 1024 P53 M53 xs < bpow radix2 1024 ->
  is_finite (cell_sum_after B64 xs) = true /\
  Rabs (B2R (cell_sum_after B64 xs) - BRsum 53 1024 P53 M53 xs)
    <= 8 * bpow radix2 (-53) * BRasum 53 1024 P53 M53 xs /\
  Rabs (B2R (cell_sum_after B64 xs) - rounded_exact_sum 53 1024 P53 M53 xs)
    <= 9 * bpow radix2 (-53) * BRasum 53 1024 P53 M53 xs.
Proof. exact kahan_float64. Qed.
Print Assumptions C14_float64.

Theorem C14_float80 : forall xs : list B80,
  (Z.of_nat (length xs) <= 10000000)%Z ->
  all_finite 64 16384 P64 M64 xs -> 4 * BRasum 64 16384 P64 M64 xs < bpow radix2 16384 ->
  is_finite (cell_sum_after B80 xs) = true /\
  Rabs (B2R (cell_sum_after B80 xs) - BRsum 64 16384 P64 M64 xs)
    <= 8 * bpow radix2 (-64) * BRasum 64 16384 P64 M64 xs /\
  Rabs (B2R (cell_sum_after B80 xs) - rounded_exact_sum 64 16384 P64 M64 xs)
    <= 9 * bpow radix2 (-64) * BRasum 64 16384 P64 M64 xs.
Proof. exact kahan_float80. Qed.
Print Assumptions C14_float80.

(* non-vacuity of the model hypotheses: rounding to 24 bits (unbounded exponents) is a pair of
   operations obeying the standard model for all reals, with u = 2^-24 <= 1/64 *)
Example C14_example_model :
  0 <= bpow radix2 (-24) /\ bpow radix2 (-24) <= /64 /\
  (forall a b, exists d, Rabs d <= bpow radix2 (-24) /\ ex14_fadd a b = (a + b) * (1 + d)) /\
  (forall a b, exists d, Rabs d <= bpow radix2 (-24) /\ ex14_fsub a b = (a - b) * (1 + d)) /\
  INR (length [16777216; 1; 1; -16777216]) * bpow radix2 (-24) <= 1.
Proof. exact ex14_model_hyps. Qed.

(* non-vacuity of the float hypotheses: [2^53; 1; 1] in double precision is finite, far from overflow,
   short, and its exact sum is 2^53 + 2 *)
Example C14_example_float_hyps :
  all_finite 53 1024 P53 M53 ex14_xs /\
  4 * BRasum 53 1024 P53 M53 ex14_xs < bpow radix2 1024 /\
  INR (length ex14_xs) * bpow radix2 (-53) <= 1 /\
  (Z.of_nat (length ex14_xs) <= 10000000)%Z /\
  BRsum 53 1024 P53 M53 ex14_xs = 9007199254740994.
Proof. exact ex14_float_hyps. Qed.

(* ... and on it plain summation returns 2^53 (both ones lost) while the cell / [accumulate] return
   2^53 + 2 (after the second value the compensation holds -1); compared through the wire
   representation (sign, mantissa, exponent) *)
Example C14_example : ex14_check = true.
Proof. exact c14_example. Qed.
