(** C04 - MPI runs sample the same points as the serial run for every world size.
    Statements only (proofs in Lemmas_C04.v).  All theorems are about the lock-step model of the three MPI
    drivers in Mpi.v ([mpi_iteration], [mpi_loop], [mpi_plain_run], [mpi_vegas_run], [mpi_mc_run]).

    Hypotheses used throughout:
    - [world_ok world]: 1 <= world < 2^31 (MPI world sizes are C ints); calls < 2^64 (std::size_t);
    - [perm_ok world perm]: the order in which MPI_Allreduce sums the contributions is a non-empty list of
      valid ranks (every permutation of 0..world-1 qualifies, see C04_perm_ok_of_permutation);
    - [cb_rank_independent cb]: the callback's decision does not depend on the rank (mpi_callback only
      silences the output of the non-root ranks; the decision itself is C20's);
    - all ranks start from the same checkpoint, generator and adaptive state ([agree c g a sts]; the
      integrand call counters [rs_idx] may differ).
    UNDER these hypotheses [UB 99] (a rank waits in a collective that another rank never enters) and
    [UB 96/97/98] (mismatched reduction buffers) are impossible: the only undefined behaviour an MPI run can
    show is that of a local iteration on a part of the stream or of the (common) refinement.

    What is NOT proved / where the statements are weaker than the property text:
    - "the multiset of points": C04_points_* state equality of LISTS (ranks concatenated in rank order =
      serial call order), which is stronger.  PLAIN: the whole observation except the integrand's own call
      counter (each rank owns a copy of the integrand object, so the counters differ - this is the model's
      [o_idx]).  VEGAS: (point, bins, weight); multi-channel: the random numbers and the selected channel -
      both relative to the adaptive state the ranks share in that iteration; that this state equals the
      serial run's (mpi_equals_serial_R of DESIGN.md for VEGAS / multi-channel) is NOT proved.  The
      multi-channel coordinates are not covered (the user's map may depend on its per-copy call counter).
    - "sums agree up to reassociation": proved in the form of exact equality over NumR for every summation
      order (C04_reduce_R, C04_sums_R_partial, C04_plain_equals_serial_R), for PLAIN, one iteration, for an
      integrand that [ignores_counter].  Bins of distributions and the VEGAS / multi-channel adjustment data
      are not compared (hence _partial); no floating-point reassociation bound is proved.
    - a UB result of a run is only classified by origin ([plain_ub] etc.: some local iteration on part of the
      stream or some refinement returns that code); it is not shown that the serial run hits the same UB. *)
From Coq Require Import ZArith NArith List Bool Permutation Reals.
From HepMC Require Import Num NumR NumB Translated Result Accum VegasPdf Discrete MultiChannel Iter Chkpt Callback Run Mpi
  Lemmas_Run Lemmas_C16 Lemmas_C10 Lemmas_C04.
Import ListNotations.

(* one iteration of all ranks, generic driver: either every rank adds the same result with the same
   generator g + usage * calls, takes the same decision, performs the same two collectives and ends in the
   same adaptive state - or the iteration is undefined because a local part or the refinement is *)
Theorem C04_lockstep_no_hang : forall (K : Num) (C S R : Type) world perm sub_calls usage
    (local_iter : S -> N -> N -> N -> res (R * N * N * list (event K))) plain_of extra_of rebuild
    (addc : C -> R -> N -> C) cb refine (Inv : S -> Prop) calls sts c g a,
  world_ok world -> sub_calls_ok sub_calls -> cost_ok usage local_iter Inv -> refine_ok refine Inv ->
  template_ok local_iter plain_of extra_of Inv -> perm_ok world perm -> cb_rank_independent cb ->
  (calls < 2 ^ 64)%N -> length sts = N.to_nat world -> agree c g a sts -> Inv a ->
  match mpi_iteration C S R world perm sub_calls usage local_iter plain_of extra_of rebuild addc cb refine calls sts with
  | Ok (sts', logs, go) =>
      exists result a', let c' := addc c result (g + usage * calls)%N in
        agree c' (g + usage * calls)%N a' sts' /\ Inv a' /\
        length sts' = N.to_nat world /\ length logs = N.to_nat world /\ logs_agree c' go logs /\
        go = cb 0%N c' /\ (if go then refine c' a result else Ok a) = Ok a'
  | UB code => ub_origin world sub_calls usage local_iter refine calls sts a code
  end.
Proof. exact (@lockstep_iteration). Qed.
Print Assumptions C04_lockstep_no_hang.

(* ... and by induction over any calls list *)
Theorem C04_lockstep_loop : forall (K : Num) (C S R : Type) world perm sub_calls usage
    (local_iter : S -> N -> N -> N -> res (R * N * N * list (event K))) plain_of extra_of rebuild
    (addc : C -> R -> N -> C) cb refine (Inv : S -> Prop) cs sts log c g a,
  world_ok world -> sub_calls_ok sub_calls -> cost_ok usage local_iter Inv -> refine_ok refine Inv ->
  template_ok local_iter plain_of extra_of Inv -> perm_ok world perm -> cb_rank_independent cb ->
  Forall (fun calls => (calls < 2 ^ 64)%N) cs -> length sts = N.to_nat world -> agree c g a sts -> Inv a ->
  match mpi_loop C S R world perm sub_calls usage local_iter plain_of extra_of rebuild addc cb refine cs sts log with
  | Ok (sts', logs) =>
      exists new c' a', logs = rev log ++ new /\ (length new <= length cs)%nat /\
        agree c' (g + usage * sumN (firstn (length new) cs))%N a' sts' /\ Inv a' /\ length sts' = N.to_nat world /\
        (forall i ls, nth_error new i = Some ls -> iteration_ok world usage addc g cs i ls /\
           iteration_run C S R world perm sub_calls usage local_iter plain_of extra_of rebuild addc cb refine Inv g cs i ls) /\
        (new = [] -> cs = [] /\ sts' = sts /\ c' = c) /\
        (new <> [] -> exists go, logs_agree c' go (last new []))
  | UB code => loop_ub world sub_calls usage local_iter refine Inv code
  end.
Proof. exact (@lockstep_loop). Qed.
Print Assumptions C04_lockstep_loop.

(* the three drivers satisfy the side conditions (C16 for the work split, C10 for the numbers consumed per
   call, the distribution structure of a local result is fixed by the parameters) *)
Theorem C04_plain_lockstep : forall (K : Num) (strm : N -> K) ps f world perm d cb cs (c : pchk K) idx,
  world_ok world -> perm_ok world perm -> cb_rank_independent cb -> Forall (fun calls => (calls < 2 ^ 64)%N) cs ->
  match base_gen c with
  | Ok g => lockstep_run world (N.of_nat d) base_add (plain_ub strm ps f d) (plain_itrun strm ps f world perm d cb g cs) c g cs
              (mpi_plain_run strm ps f world perm d cb cs c idx)
  | UB code => mpi_plain_run strm ps f world perm d cb cs c idx = UB code
  end.
Proof. exact (@c04_plain_lockstep). Qed.
Print Assumptions C04_plain_lockstep.

Theorem C04_vegas_lockstep : forall (K : Num) (L : Libm K) (strm : N -> K) ps f world perm d cb cs (c : vchk K) idx,
  world_ok world -> perm_ok world perm -> cb_rank_independent cb -> Forall (fun calls => (calls < 2 ^ 64)%N) cs ->
  let c0 := vchk_dimensions c d in
  match base_gen (vc_base c0), vchk_pdf L c0 with
  | Ok g, Ok p => lockstep_run world (pdf_dims p) vchk_add (vegas_ub L strm ps f) (vegas_itrun L strm ps f world perm (pdf_dims p) cb g cs) c0 g cs
                    (mpi_vegas_run L strm ps f world perm d cb cs c idx)
  | UB code, _ | Ok _, UB code => mpi_vegas_run L strm ps f world perm d cb cs c idx = UB code
  end.
Proof. exact (@c04_vegas_lockstep). Qed.
Print Assumptions C04_vegas_lockstep.

Theorem C04_mc_lockstep : forall (K : Num) (L : Libm K) (strm : N -> K) ps f world perm mp d channels cb cs (c : mchk K) idx,
  world_ok world -> perm_ok world perm -> cb_rank_independent cb -> Forall (fun calls => (calls < 2 ^ 64)%N) cs ->
  let c0 := mchk_channels c channels in
  match base_gen (mc_base c0), mchk_weights L c0 with
  | Ok g, Ok ws => lockstep_run world (N.of_nat d + 1) mchk_add (mc_ub L strm ps f mp d) (mc_itrun L strm ps f world perm mp d cb g cs) c0 g cs
                     (mpi_mc_run L strm ps f world perm mp d channels cb cs c idx)
  | UB code, _ | Ok _, UB code => mpi_mc_run L strm ps f world perm mp d channels cb cs c idx = UB code
  end.
Proof. exact (@c04_mc_lockstep). Qed.
Print Assumptions C04_mc_lockstep.

(* whatever its share of the calls, every rank leaves the local part of an iteration at the serial position *)
Theorem C04_generator_position : forall (K : Num) (L : Libm K) (strm : N -> K) ps f world calls r,
  world_ok world -> (calls < 2 ^ 64)%N -> (r < world)%N ->
  (forall C d (st : rank_state C unit) lr g3 idx' evs,
     local_part C unit (plainres K) world sub_calls_plain (N.of_nat d) (plain_li strm ps f d) calls r st = Ok (lr, g3, idx', evs) ->
     g3 = (rs_gen st + N.of_nat d * calls)%N) /\
  (forall C (st : rank_state C (pdf K)) lr g3 idx' evs,
     local_part C (pdf K) (vegasres K) world sub_calls_vegas (pdf_dims (rs_aux st)) (vegas_li strm ps f) calls r st = Ok (lr, g3, idx', evs) ->
     g3 = (rs_gen st + pdf_dims (rs_aux st) * calls)%N) /\
  (forall C mp d (st : rank_state C (list K)) lr g3 idx' evs,
     local_part C (list K) (mcres_mc K) world sub_calls_multi_channel (N.of_nat d + 1) (mc_li strm ps f mp d) calls r st = Ok (lr, g3, idx', evs) ->
     g3 = (rs_gen st + (N.of_nat d + 1) * calls)%N).
Proof. exact (@c04_generator_position). Qed.
Print Assumptions C04_generator_position.

(* the generator every rank stores with iteration i is the one the serial run stores (C10_plain_stored:
   g + (calls of iterations 0..i) * d), and the returned states hold it *)
Theorem C04_plain_stored : forall (K : Num) (strm : N -> K) ps f world perm d cb cs (c : pchk K) idx g sts' logs,
  world_ok world -> perm_ok world perm -> cb_rank_independent cb -> Forall (fun calls => (calls < 2 ^ 64)%N) cs ->
  base_gen c = Ok g -> mpi_plain_run strm ps f world perm d cb cs c idx = Ok (sts', logs) ->
  (forall i ls l, nth_error logs i = Some ls -> In l ls ->
     base_gen (rl_chk l) = Ok (g + sumN (firstn (S i) cs) * N.of_nat d)%N) /\
  (forall st, In st sts' -> rs_gen st = (g + sumN (firstn (length logs) cs) * N.of_nat d)%N /\ base_gen (rs_chk st) = Ok (rs_gen st)).
Proof. exact (@c04_plain_stored). Qed.
Print Assumptions C04_plain_stored.

(* the ranks' shares are consecutive blocks of the global call indices 0 .. calls-1, in rank order *)
Theorem C04_positions_tile : forall world sub_calls,
  world_ok world -> sub_calls_ok sub_calls -> forall calls, (calls < 2 ^ 64)%N ->
  concat (map (fun r => iotaN (rk_before world calls r) (N.to_nat (rk_sub world sub_calls calls r))) (iotaN 0 (N.to_nat world)))
  = iotaN 0 (N.to_nat calls).
Proof. exact positions_tile. Qed.
Print Assumptions C04_positions_tile.

(* generic driver, one iteration, any view of the events that is a function of the shared adaptive state
   and the call's stream position ([positional]): rank r shows its block, the ranks together show, in rank
   order, exactly what the serial iteration from the same generator and state shows *)
Theorem C04_points_tile : forall (K : Num) (C S R : Type) world perm sub_calls usage
    (local_iter : S -> N -> N -> N -> res (R * N * N * list (event K))) plain_of extra_of rebuild
    (addc : C -> R -> N -> C) cb refine (Inv : S -> Prop) (V : Type) (view : event K -> list V) (at_ : S -> N -> list V)
    calls sts c g a sts' logs go,
  world_ok world -> sub_calls_ok sub_calls -> cost_ok usage local_iter Inv -> same_template local_iter plain_of extra_of a ->
  perm_ok world perm -> cb_rank_independent cb -> positional S R usage local_iter Inv V view at_ ->
  (calls < 2 ^ 64)%N -> length sts = N.to_nat world -> agree c g a sts -> Inv a ->
  mpi_iteration C S R world perm sub_calls usage local_iter plain_of extra_of rebuild addc cb refine calls sts = Ok (sts', logs, go) ->
  map (fun l => flat_map view (rl_events l)) logs =
    map (fun r => flat_map (fun k => at_ a (g + usage * k)%N) (rank_block world sub_calls calls r)) (iotaN 0 (N.to_nat world)) /\
  concat (map (fun l => flat_map view (rl_events l)) logs) = flat_map (fun k => at_ a (g + usage * k)%N) (iotaN 0 (N.to_nat calls)) /\
  (forall i r g' i' evs, local_iter a calls g i = Ok (r, g', i', evs) ->
     concat (map (fun l => flat_map view (rl_events l)) logs) = flat_map view evs).
Proof. exact (@points_tile). Qed.
Print Assumptions C04_points_tile.

(* the three iterations are positional: PLAIN - the whole observation except the integrand's own call
   counter; VEGAS - (point, bins, weight) = icdf of the grid at the call's numbers; multi-channel - the
   random numbers handed to the map and the selected channel *)
Theorem C04_positional : forall (K : Num) (strm : N -> K) ps f,
  (forall d, positional unit (plainres K) (N.of_nat d) (plain_li strm ps f d) triv (obs K) view_obs (fun _ pos => plain_at strm d pos)) /\
  (forall dims, positional (pdf K) (vegasres K) dims (vegas_li strm ps f) (dims_inv dims) _ view_vegas (fun p pos => vegas_at strm p pos)) /\
  (forall mp d, positional (list K) (mcres_mc K) (N.of_nat d + 1) (mc_li strm ps f mp d) triv _ view_mc (fun ws pos => mc_at strm d ws pos)).
Proof. exact (fun K strm ps f => conj (plain_li_positional strm ps f) (conj (vegas_li_positional strm ps f) (mc_li_positional strm ps f))). Qed.
Print Assumptions C04_positional.

(* PLAIN, whole runs: in every performed iteration i the observations of all ranks, concatenated in rank
   order, are those of the serial iteration with cs[i] calls from the generator g + d * (cs[0]+..+cs[i-1]),
   i.e. (C10) of iteration i of the serial run: equal as lists, hence as multisets *)
Theorem C04_points_multiset_plain : forall (K : Num) (strm : N -> K) ps f world perm d cb cs (c : pchk K) idx g sts' logs,
  world_ok world -> perm_ok world perm -> cb_rank_independent cb -> Forall (fun calls => (calls < 2 ^ 64)%N) cs ->
  base_gen c = Ok g -> mpi_plain_run strm ps f world perm d cb cs c idx = Ok (sts', logs) ->
  forall i ls, nth_error logs i = Some ls ->
    exists calls (a : unit), nth_error cs i = Some calls /\ triv a /\
      let gi := (g + N.of_nat d * sumN (firstn i cs))%N in
      let shown := map (fun l => flat_map view_obs (rl_events l)) ls in
      shown = map (fun r => flat_map (fun k => plain_at strm d (gi + N.of_nat d * k)%N) (rank_block world sub_calls_plain calls r))
                  (iotaN 0 (N.to_nat world)) /\
      concat shown = flat_map (fun k => plain_at strm d (gi + N.of_nat d * k)%N) (iotaN 0 (N.to_nat calls)) /\
      (forall idx0 r g' idx' evs, plain_iteration strm ps f d calls gi idx0 = Ok (r, g', idx', evs) ->
         concat shown = flat_map view_obs evs).
Proof. exact (@c04_points_plain). Qed.
Print Assumptions C04_points_multiset_plain.

(* VEGAS and multi-channel, whole runs: the same relative to the adaptive state [a] the ranks share in
   iteration i ([tiles], defined in Lemmas_C04.v, is the statement above with [a] existentially quantified) *)
Theorem C04_points_vegas : forall (K : Num) (L : Libm K) (strm : N -> K) ps f world perm d cb cs (c : vchk K) idx g p sts' logs,
  world_ok world -> perm_ok world perm -> cb_rank_independent cb -> Forall (fun calls => (calls < 2 ^ 64)%N) cs ->
  base_gen (vc_base (vchk_dimensions c d)) = Ok g -> vchk_pdf L (vchk_dimensions c d) = Ok p ->
  mpi_vegas_run L strm ps f world perm d cb cs c idx = Ok (sts', logs) ->
  forall i ls, nth_error logs i = Some ls ->
    tiles world sub_calls_vegas (pdf_dims p) (vegas_li strm ps f) (dims_inv (pdf_dims p)) _ view_vegas
      (fun p pos => vegas_at strm p pos) g cs i ls.
Proof. exact (@c04_points_vegas). Qed.
Print Assumptions C04_points_vegas.

Theorem C04_points_mc : forall (K : Num) (L : Libm K) (strm : N -> K) ps f world perm mp d channels cb cs (c : mchk K) idx g ws sts' logs,
  world_ok world -> perm_ok world perm -> cb_rank_independent cb -> Forall (fun calls => (calls < 2 ^ 64)%N) cs ->
  base_gen (mc_base (mchk_channels c channels)) = Ok g -> mchk_weights L (mchk_channels c channels) = Ok ws ->
  mpi_mc_run L strm ps f world perm mp d channels cb cs c idx = Ok (sts', logs) ->
  forall i ls, nth_error logs i = Some ls ->
    tiles world sub_calls_multi_channel (N.of_nat d + 1) (mc_li strm ps f mp d) triv _ view_mc
      (fun ws pos => mc_at strm d ws pos) g cs i ls.
Proof. exact (@c04_points_mc). Qed.
Print Assumptions C04_points_mc.

(* C04_counters: with ANY permutation of the ranks as summation order the reduced integer buffer is the
   element-wise sum of the ranks' buffers (taken in rank order) - and the reduction cannot fail *)
Theorem C04_counters : forall perm (contribs : list (list N)) n,
  Permutation perm (iotaN 0 (length contribs)) -> contribs <> [] -> Forall (fun c => length c = n) contribs ->
  exists v, allreduce N.add perm contribs = Ok v /\ length v = n /\
    forall k, (k < n)%nat -> nth k v 0%N = Nsum (map (fun c => nth k c 0%N) contribs).
Proof. exact allreduce_N_sum. Qed.
Print Assumptions C04_counters.

(* the same for the T buffer over the reals: no dependence on the summation order *)
Theorem C04_reduce_R : forall perm (contribs : list (list R)) n,
  Permutation perm (iotaN 0 (length contribs)) -> contribs <> [] -> Forall (fun c => length c = n) contribs ->
  exists v, allreduce (add NumR) perm contribs = Ok v /\ length v = n /\
    forall k, (k < n)%nat -> nth k v 0%R = Rsum (map (fun c => nth k c 0%R) contribs).
Proof. exact allreduce_R_sum. Qed.
Print Assumptions C04_reduce_R.

(* every permutation of the ranks is an admissible summation order for the lock-step theorems *)
Theorem C04_perm_ok_of_permutation : forall world perm,
  world_ok world -> Permutation perm (iotaN 0 (N.to_nat world)) -> perm_ok world perm.
Proof. exact perm_ok_of_permutation. Qed.
Print Assumptions C04_perm_ok_of_permutation.

(* C04_sums_R: PLAIN over the reals, integrand independent of its per-copy call counter, any permutation as
   summation order: the result every rank adds has the serial iteration's main part (calls, non-zero calls,
   finite calls, sum, sum of squares) and distribution structure, and is stored with the serial generator.
   (_partial: the bin contents of distributions are not compared.) *)
Theorem C04_sums_R_partial : forall (strm : N -> NumR) ps (f : integrand NumR) world perm,
  ignores_counter f -> forall d cb calls sts (c : pchk NumR) g sts' logs go idx0 rser gser idxser evser,
  world_ok world -> Permutation perm (iotaN 0 (N.to_nat world)) -> cb_rank_independent cb ->
  (calls < 2 ^ 64)%N -> length sts = N.to_nat world -> agree c g tt sts ->
  mpi_iteration (pchk NumR) unit (plainres NumR) world perm sub_calls_plain (N.of_nat d)
    (plain_li strm ps f d) (fun r => r) (fun _ => []) (fun _ pl _ => pl) base_add cb noref calls sts = Ok (sts', logs, go) ->
  plain_iteration strm ps f d calls g idx0 = Ok (rser, gser, idxser, evser) ->
  exists rpar, p_main rpar = p_main rser /\ tshape rpar = tshape rser /\ agree (base_add c rpar gser) gser tt sts'.
Proof. exact c04_plain_main_R. Qed.
Print Assumptions C04_sums_R_partial.

(* without distributions: every rank's checkpoint after the iteration IS the serial checkpoint *)
Theorem C04_plain_equals_serial_R : forall (strm : N -> NumR) (f : integrand NumR) world perm d cb calls sts (c : pchk NumR) g sts' logs go
    idx0 rser gser idxser evser,
  ignores_counter f -> world_ok world -> Permutation perm (iotaN 0 (N.to_nat world)) -> cb_rank_independent cb ->
  (calls < 2 ^ 64)%N -> length sts = N.to_nat world -> agree c g tt sts ->
  mpi_iteration (pchk NumR) unit (plainres NumR) world perm sub_calls_plain (N.of_nat d)
    (plain_li strm [] f d) (fun r => r) (fun _ => []) (fun _ pl _ => pl) base_add cb noref calls sts = Ok (sts', logs, go) ->
  plain_iteration strm [] f d calls g idx0 = Ok (rser, gser, idxser, evser) ->
  agree (base_add c rser gser) gser tt sts'.
Proof. exact c04_plain_equals_serial_R. Qed.
Print Assumptions C04_plain_equals_serial_R.

(* non-vacuity: world = 3, calls [4; 1], reduction order 2,0,1, PLAIN in double precision: the hypotheses of
   the theorems hold, the run is defined, all ranks return the serial checkpoint and sit at 0 + 5 * 2, the
   ranks evaluate 2,1,1 and 1,0,0 points which concatenate to the serial points ([ex04_check], computed
   through the sign/mantissa/exponent representation) *)
Example C04_example : ex04_check = true /\ world_ok 3 /\ perm_ok 3 [2; 0; 1]%N /\
  cb_rank_independent (fun (_ : N) (_ : pchk B64) => true) /\ Forall (fun calls => (calls < 2 ^ 64)%N) [4; 1]%N /\
  Permutation [2; 0; 1]%N (iotaN 0 3).
Proof. exact c04_example. Qed.

(* an integrand over the reals that satisfies the hypothesis of C04_sums_R *)
Example C04_example_ignores_counter : ignores_counter ex04_fR.
Proof. exact ex04_fR_ok. Qed.
