(** C07f - floating-point counterpart of the clause "the reported bin index is below the bin count" of
    property C07 ("every sampled point lies inside the bin reported for it ... for every canonical random
    number including 0 and the largest value below 1 (and exactly 1 for float)").
    Statements only (all definitions and proofs in Lemmas_C07f.v).

    Everything is about the model's own [icdf1] / [icdf] (VegasPdf.v) instantiated with K := NumB prec emax,
    Flocq's IEEE-754 binary format of precision prec and exponent bound emax, for EVERY format with
    prec >= 2 (in particular B32 = float, B64 = double, B80 = x87 long double), round to nearest even.
    Nothing is computed for the general theorems; they rest on Flocq's correctness theorems for
    [Bmult], [Btrunc], [binary_normalize], [Bpred] and on the theory of [pred]/[succ]/midpoints.

    Specification predicates (Lemmas_C07f.v), both in the model's own comparison operations:
    - [unit_open u]    isfinite u = true, leb zero u = true, ltb u one = true     (0 <= u < 1; -0 allowed);
    - [unit_closed u]  isfinite u = true, leb zero u = true, leb u one = true     (0 <= u <= 1).

    What is proved
    - [C07f_index_lt_bins]: for 1 <= bins, bins < 2^prec (so that T(bins) is exact) and bins < 2^64, and
      every finite u with 0 <= u < 1:  position = u * T(bins) is finite, its conversion to size_t is defined
      ([trunc] returns [Some i], no undefined behaviour) and i < bins; moreover
      i = floor(round(u * bins)).  The argument: u <= pred(1) = 1 - 2^-prec, the gap between bins and the
      next lower float is smaller than 2 * bins * 2^-prec, hence u * bins lies strictly below the midpoint
      of pred(bins) and bins and rounds to at most pred(bins) < bins.
    - [C07f_index_lt_bins_formats]: the same spelled out for float (bins < 2^24), double (bins < 2^53) and
      long double (bins < 2^64).
    - [C07f_guard_one]: for finite u in [0,1] the value u' = (u == 1 ? pred_one : u) used by [icdf1] is
      [pred_one] when u == 1, [pred_one] itself satisfies [unit_open], and u' always satisfies [unit_open].
      (No hypothesis on prec here.)
    - [C07f_icdf1_index_in_range]: for a grid whose boundary vector has at least dims*(bins+1) entries,
      d < dims, bins as above and every finite u in [0,1] (including exactly 0, -0, pred_one and exactly 1):
      [icdf1 p d u = Ok (x, b, w)] with b < bins - so neither [UB 21] (float -> size_t undefined) nor
      [UB 20] (boundary index out of range) - and b, x, w are the values the C++ computes from the two
      boundaries [bin_left p d b] and [bin_left p d (b+1)], which both exist.
    - [C07f_icdf_indices_in_range]: all dimensions: [icdf p us] is [Ok] for at most dims random numbers in
      [0,1] and every reported bin index is below the bin count.

    What is NOT proved
    - Nothing about the coordinate x itself in floating point (that boundary b <= x <= boundary b+1 after
      rounding of [lft + inside * size]), nothing about the weight beyond its defining expression; those
      clauses of C07 are proved over the reals only (Properties_C07.v).
    - bins >= 2^prec (only possible for float with more than 16 777 215 bins per dimension, and for double
      with more than 2^53), where T(bins) is rounded, is not covered.
    - prec = 1 is excluded (the hypothesis 2 <= prec; pred(1) = 1 - 2^-prec needs emax >= 3).
    - NaN, infinite, negative or > 1 random numbers: nothing is claimed. *)
From Coq Require Import ZArith NArith List Reals.
From Flocq Require Import Core BinarySingleNaN.
From HepMC Require Import Num NumB NumR Result VegasPdf Lemmas_C07f.
Import ListNotations.

(* (1) the bin index of a canonical number in [0,1) is defined and below the bin count *)
Theorem C07f_index_lt_bins :
  forall (prec emax : Z) (Hprec : FLX.Prec_gt_0 prec) (Hmax : Prec_lt_emax prec emax),
    (2 <= prec)%Z ->
    forall (bins : N) (u : NumB prec emax Hprec Hmax),
      (1 <= bins)%N -> (Z.of_N bins < 2 ^ prec)%Z -> (bins < 2 ^ 64)%N ->
      unit_open prec emax Hprec Hmax u ->
      exists i, trunc (NumB prec emax Hprec Hmax)
                  (mul (NumB prec emax Hprec Hmax) u (ofN (NumB prec emax Hprec Hmax) bins)) = Some i /\
        (i < bins)%N /\
        isfinite (NumB prec emax Hprec Hmax)
          (mul (NumB prec emax Hprec Hmax) u (ofN (NumB prec emax Hprec Hmax) bins)) = true /\
        Z.of_N i = Zfloor (round radix2 (SpecFloat.fexp prec emax) (round_mode mode_NE)
                             (B2R u * IZR (Z.of_N bins))).
Proof. exact c07f_index_lt_bins. Qed.
Print Assumptions C07f_index_lt_bins.

(* the same for float, double and x87 long double *)
Theorem C07f_index_lt_bins_formats :
  (forall (bins : N) (u : B32), (1 <= bins < 2 ^ 24)%N -> unit_open 24 128 P24 M24 u ->
     exists i, trunc B32 (mul B32 u (ofN B32 bins)) = Some i /\ (i < bins)%N) /\
  (forall (bins : N) (u : B64), (1 <= bins < 2 ^ 53)%N -> unit_open 53 1024 P53 M53 u ->
     exists i, trunc B64 (mul B64 u (ofN B64 bins)) = Some i /\ (i < bins)%N) /\
  (forall (bins : N) (u : B80), (1 <= bins < 2 ^ 64)%N -> unit_open 64 16384 P64 M64 u ->
     exists i, trunc B80 (mul B80 u (ofN B80 bins)) = Some i /\ (i < bins)%N).
Proof. exact c07f_index_lt_bins_formats. Qed.
Print Assumptions C07f_index_lt_bins_formats.

(* (2) the guard "if (u == 1) u = nexttoward(1, 0)" produces a number in [0,1) *)
Theorem C07f_guard_one :
  forall (prec emax : Z) (Hprec : FLX.Prec_gt_0 prec) (Hmax : Prec_lt_emax prec emax)
         (u : NumB prec emax Hprec Hmax),
    unit_closed prec emax Hprec Hmax u ->
    (eqb (NumB prec emax Hprec Hmax) u (one (NumB prec emax Hprec Hmax)) = true ->
       (if eqb (NumB prec emax Hprec Hmax) u (one (NumB prec emax Hprec Hmax))
        then pred_one (NumB prec emax Hprec Hmax) else u) = pred_one (NumB prec emax Hprec Hmax)) /\
    unit_open prec emax Hprec Hmax (pred_one (NumB prec emax Hprec Hmax)) /\
    unit_open prec emax Hprec Hmax
      (if eqb (NumB prec emax Hprec Hmax) u (one (NumB prec emax Hprec Hmax))
       then pred_one (NumB prec emax Hprec Hmax) else u).
Proof. exact c07f_guard_one. Qed.
Print Assumptions C07f_guard_one.

(* (3) one dimension of the inverse CDF: defined, index in range, for every finite u in [0,1] *)
Theorem C07f_icdf1_index_in_range :
  forall (prec emax : Z) (Hprec : FLX.Prec_gt_0 prec) (Hmax : Prec_lt_emax prec emax),
    (2 <= prec)%Z ->
    forall (p : pdf (NumB prec emax Hprec Hmax)) (d : N) (u : NumB prec emax Hprec Hmax),
      (1 <= pdf_bins p)%N -> (Z.of_N (pdf_bins p) < 2 ^ prec)%Z -> (pdf_bins p < 2 ^ 64)%N ->
      (d < pdf_dims p)%N -> (N.to_nat (pdf_dims p * (pdf_bins p + 1)) <= length (pdf_x p))%nat ->
      unit_closed prec emax Hprec Hmax u ->
      exists x b w lft rgt,
        icdf1 p d u = Ok (x, b, w) /\ (b < pdf_bins p)%N /\
        let K := NumB prec emax Hprec Hmax in
        let u' := if eqb K u (one K) then pred_one K else u in
        let position := mul K u' (ofN K (pdf_bins p)) in
        trunc K position = Some b /\
        bin_left p d b = Ok lft /\ bin_left p d (b + 1) = Ok rgt /\
        x = add K lft (mul K (sub K position (ofN K b)) (sub K rgt lft)) /\
        w = mul K (sub K rgt lft) (ofN K (pdf_bins p)).
Proof. exact c07f_icdf1_index_in_range. Qed.
Print Assumptions C07f_icdf1_index_in_range.

(* all dimensions *)
Theorem C07f_icdf_indices_in_range :
  forall (prec emax : Z) (Hprec : FLX.Prec_gt_0 prec) (Hmax : Prec_lt_emax prec emax),
    (2 <= prec)%Z ->
    forall (p : pdf (NumB prec emax Hprec Hmax)) (us : list (NumB prec emax Hprec Hmax)),
      (1 <= pdf_bins p)%N -> (Z.of_N (pdf_bins p) < 2 ^ prec)%Z -> (pdf_bins p < 2 ^ 64)%N ->
      (N.to_nat (pdf_dims p * (pdf_bins p + 1)) <= length (pdf_x p))%nat ->
      (length us <= N.to_nat (pdf_dims p))%nat ->
      Forall (unit_closed prec emax Hprec Hmax) us ->
      exists xs bs w, icdf p us = Ok (xs, bs, w) /\
        length xs = length us /\ length bs = length us /\
        Forall (fun b => (b < pdf_bins p)%N) bs.
Proof. exact c07f_icdf_indices_in_range. Qed.
Print Assumptions C07f_icdf_indices_in_range.

(** Non-vacuity.  All values are computed through the wire representation [Bout] inside boolean checks. *)

(* u = pred_one = 16777215 * 2^-24 in float satisfies the hypothesis of (1); bins = 3, 50, 128 and the
   largest admissible bin count 2^24 - 1 give index bins - 1; the rounded products are shown *)
Example C07f_ex_index_B32 :
  unit_open 24 128 P24 M24 (pred_one B32) /\
  trunc B32 (mul B32 (pred_one B32) (ofN B32 3)) = Some 2%N /\
  trunc B32 (mul B32 (pred_one B32) (ofN B32 50)) = Some 49%N /\
  trunc B32 (mul B32 (pred_one B32) (ofN B32 128)) = Some 127%N /\
  trunc B32 (mul B32 (pred_one B32) (ofN B32 16777215)) = Some 16777214%N /\
  Bout 24 128 (mul B32 (pred_one B32) (ofN B32 3)) = OFin false 12582911 (-22) /\
  Bout 24 128 (mul B32 (pred_one B32) (ofN B32 50)) = OFin false 13107199 (-18) /\
  Bout 24 128 (mul B32 (pred_one B32) (ofN B32 128)) = OFin false 16777215 (-17).
Proof. exact ex07f_index_B32. Qed.

(* double and long double, including the largest admissible bin counts 2^53 - 1 and 2^64 - 1 *)
Example C07f_ex_index_B64_B80 :
  trunc B64 (mul B64 (pred_one B64) (ofN B64 3)) = Some 2%N /\
  trunc B64 (mul B64 (pred_one B64) (ofN B64 50)) = Some 49%N /\
  trunc B64 (mul B64 (pred_one B64) (ofN B64 128)) = Some 127%N /\
  trunc B64 (mul B64 (pred_one B64) (ofN B64 9007199254740991)) = Some 9007199254740990%N /\
  trunc B80 (mul B80 (pred_one B80) (ofN B80 3)) = Some 2%N /\
  trunc B80 (mul B80 (pred_one B80) (ofN B80 50)) = Some 49%N /\
  trunc B80 (mul B80 (pred_one B80) (ofN B80 128)) = Some 127%N /\
  trunc B80 (mul B80 (pred_one B80) (ofN B80 18446744073709551615)) = Some 18446744073709551614%N.
Proof. exact ex07f_index_B64_B80. Qed.

(* 0 and exactly 1 satisfy the hypothesis of (2) and (3) in every format *)
Example C07f_ex_zero_one :
  forall prec emax Hprec Hmax,
    unit_closed prec emax Hprec Hmax (zero (NumB prec emax Hprec Hmax)) /\
    unit_closed prec emax Hprec Hmax (one (NumB prec emax Hprec Hmax)).
Proof. exact unit_closed_zero_one. Qed.

(* the starting grid [uniform_pdf 2 3] in float ([ex07f_p]) satisfies the hypotheses of (3); with u = 1 in
   dimension 1 the last bin (index 2) is reported, the point is 16777214 * 2^-24 < 1; two dimensions *)
Example C07f_ex_icdf :
  (1 <= pdf_bins ex07f_p)%N /\ (Z.of_N (pdf_bins ex07f_p) < 2 ^ 24)%Z /\ (pdf_bins ex07f_p < 2 ^ 64)%N /\
  (1 < pdf_dims ex07f_p)%N /\
  (N.to_nat (pdf_dims ex07f_p * (pdf_bins ex07f_p + 1)) <= length (pdf_x ex07f_p))%nat /\
  unit_closed 24 128 P24 M24 (one B32) /\ unit_closed 24 128 P24 M24 (zero B32) /\
  (exists x w, icdf1 ex07f_p 1 (one B32) = Ok (x, 2%N, w) /\
     Bout 24 128 x = OFin false 16777214 (-24) /\ Bout 24 128 w = OFin false 16777215 (-24)) /\
  (exists xs w, icdf ex07f_p [one B32; zero B32] = Ok (xs, [2%N; 0%N], w)).
Proof. exact ex07f_icdf. Qed.
