(** Lemmas for C04: the MPI drivers ([Mpi.v], all ranks side by side) sample the same points as the
    serial integrators, store the same generators and counters, and stay in lock step. *)
From Coq Require Import ZArith NArith List Bool Lia Permutation Reals Lra.
From HepMC Require Import Num NumR Translated Result Accum VegasPdf Discrete MultiChannel Iter Chkpt Callback Run Mpi
  Lemmas_Run Lemmas_C16 Lemmas_C10.
Import ListNotations.

(** ** small list / monad facts *)
Lemma res_dec {A} (r : res A) : (exists a, r = Ok a) \/ (exists c, r = UB c).
Proof. destruct r as [a|c]; [left; exists a|right; exists c]; reflexivity. Qed.

Section MapM.
  Context {A B : Type}.
  Variable f : N -> A -> res B.

  Lemma mapM_idx_Ok : forall l i bs, mapM_idx f i l = Ok bs ->
    length bs = length l /\
    forall k a, nth_error l k = Some a -> exists b, nth_error bs k = Some b /\ f (i + N.of_nat k)%N a = Ok b.
  Proof.
    induction l as [|a l IH]; intros i bs H; cbn [mapM_idx] in H.
    - injection H as <-. split; [reflexivity|]. intros [|k] a0 Hk; discriminate.
    - apply bind_Ok in H as (b & Hb & H). apply bind_Ok in H as (rest & Hr & H). injection H as <-.
      destruct (IH _ _ Hr) as [IH1 IH2]. split; [cbn [length]; congruence|].
      intros [|k] a0 Hk.
      + injection Hk as <-. exists b. rewrite N.add_0_r. auto.
      + cbn [nth_error] in Hk. destruct (IH2 k a0 Hk) as (b0 & E1 & E2). exists b0. split; [exact E1|].
        rewrite <- E2. f_equal. lia.
  Qed.

  Lemma mapM_idx_UB : forall l i c, mapM_idx f i l = UB c ->
    exists k a, nth_error l k = Some a /\ f (i + N.of_nat k)%N a = UB c.
  Proof.
    induction l as [|a l IH]; intros i c H; cbn [mapM_idx] in H; [discriminate|].
    destruct (f i a) as [b|c0] eqn:Eb; cbn [bind] in H.
    - destruct (mapM_idx f (i + 1) l) as [rest|c1] eqn:Er; cbn [bind] in H; [discriminate|].
      injection H as <-. destruct (IH _ _ Er) as (k & a0 & E1 & E2). exists (S k), a0. split; [exact E1|].
      rewrite <- E2. f_equal. lia.
    - injection H as <-. exists O, a. rewrite N.add_0_r. auto.
  Qed.
End MapM.

Lemma mapM_idx_ext_in {A B} (f g : N -> A -> res B) : forall l i,
  (forall k a, nth_error l k = Some a -> f (i + N.of_nat k)%N a = g (i + N.of_nat k)%N a) ->
  mapM_idx f i l = mapM_idx g i l.
Proof.
  induction l as [|a l IH]; intros i H; [reflexivity|]. cbn [mapM_idx].
  pose proof (H O a eq_refl) as H0. cbn [N.of_nat] in H0. rewrite N.add_0_r in H0. rewrite H0.
  rewrite (IH (i + 1)%N); [reflexivity|].
  intros k a0 Hk. replace (i + 1 + N.of_nat k)%N with (i + N.of_nat (S k))%N by lia. apply H. exact Hk.
Qed.

Lemma mapM_idx_pure {A B} (h : A -> B) : forall l i, mapM_idx (fun _ a => Ok (h a)) i l = Ok (map h l).
Proof. induction l as [|a l IH]; intros i; [reflexivity|]. cbn [mapM_idx map bind]. rewrite IH. reflexivity. Qed.

Lemma mapM_idx_bind_const {A B B'} (x : res B') (h : B' -> A -> B) : forall l i, l <> [] ->
  mapM_idx (fun _ a => do y <- x; Ok (h y a)) i l = do y <- x; Ok (map (h y) l).
Proof.
  intros l i Hl. destruct x as [y|c]; cbn [bind].
  - apply mapM_idx_pure.
  - destruct l as [|a l]; [congruence|]. reflexivity.
Qed.

Lemma all_same_const (b : bool) l : l <> [] -> Forall (eq b) l -> all_same l = Some b.
Proof.
  intros Hl H. destruct l as [|x l]; [congruence|]. inversion H as [|? ? Hx Hr]; subst. cbn [all_same].
  replace (forallb (Bool.eqb x) l) with true; [reflexivity|]. symmetry. apply forallb_forall.
  intros y Hy. rewrite Forall_forall in Hr. rewrite <- (Hr y Hy). apply Bool.eqb_reflx.
Qed.

Lemma nth_error_combine {A B} : forall (l : list A) (l' : list B) k x,
  nth_error (combine l l') k = Some x <-> nth_error l k = Some (fst x) /\ nth_error l' k = Some (snd x).
Proof.
  induction l as [|a l IH]; intros l' k [x y]; cbn [combine fst snd].
  - split; [destruct k; discriminate|]. intros [H _]. destruct k; discriminate.
  - destruct l' as [|b l'].
    + split; [destruct k; discriminate|]. intros [_ H]. destruct k; discriminate.
    + destruct k as [|k]; cbn [combine nth_error].
      * split; [intros H; injection H as <- <-; auto|]. intros [H1 H2]. congruence.
      * apply (IH l' k (x, y)).
Qed.

(** ** the reduction: [vadd], [allreduce], [pack], [unpack] *)
Section Reduce.
  Context {A : Type}.
  Variable add_ : A -> A -> A.

  Definition vzip (a b : list A) : list A := map (fun xy => add_ (fst xy) (snd xy)) (combine a b).

  Lemma vadd_Ok : forall a b, length a = length b -> vadd add_ a b = Ok (vzip a b).
  Proof.
    induction a as [|x a IH]; intros [|y b] H; try discriminate; [reflexivity|].
    cbn [vadd]. rewrite IH by (cbn in H; lia). reflexivity.
  Qed.

  Lemma vzip_length a b : length a = length b -> length (vzip a b) = length a.
  Proof. intros H. unfold vzip. rewrite map_length, combine_length. lia. Qed.

  Lemma vzip_nth d : forall a b k, length a = length b -> (k < length a)%nat ->
    nth k (vzip a b) d = add_ (nth k a d) (nth k b d).
  Proof.
    induction a as [|x a IH]; intros [|y b] k H Hk; cbn [length] in *; try lia.
    destruct k as [|k]; [reflexivity|]. cbn [vzip combine map nth]. apply (IH b k); lia.
  Qed.

  Lemma getN_nth code (l : list (list A)) p : (N.to_nat p < length l)%nat ->
    getN code l p = Ok (nth (N.to_nat p) l []).
  Proof.
    intros H. unfold getN, nthN. destruct (nth_error l (N.to_nat p)) as [c|] eqn:E.
    - rewrite (nth_error_nth _ _ _ E). reflexivity.
    - apply nth_error_None in E. lia.
  Qed.

  (* the reduction of [contribs] (all of length n) in the order [p0 :: rest] never fails, and entry k of
     the result is the left-nested sum of the ranks' entries k in that order *)
  Lemma allreduce_spec (d : A) p0 rest contribs n :
    Forall (fun p => (N.to_nat p < length contribs)%nat) (p0 :: rest) ->
    Forall (fun c => length c = n) contribs ->
    exists v, allreduce add_ (p0 :: rest) contribs = Ok v /\ length v = n /\
      forall k, (k < n)%nat ->
        nth k v d = fold_left add_ (map (fun p => nth k (nth (N.to_nat p) contribs []) d) rest)
                                (nth k (nth (N.to_nat p0) contribs []) d).
  Proof.
    intros Hp Hc. pose proof (Forall_inv Hp) as Hp0. pose proof (Forall_inv_tail Hp) as Hrest. cbv beta in Hp0.
    assert (Hlen : forall p, (N.to_nat p < length contribs)%nat -> length (nth (N.to_nat p) contribs []) = n).
    { intros p H. rewrite Forall_forall in Hc. apply Hc. apply nth_In. exact H. }
    unfold allreduce. rewrite getN_nth by exact Hp0. cbn [bind].
    generalize (Hlen p0 Hp0). generalize (nth (N.to_nat p0) contribs []) as a. clear Hp Hp0.
    revert Hrest. induction rest as [|p rest IH]; intros Hrest a Ha.
    - exists a. cbn. auto.
    - pose proof (Forall_inv Hrest) as Hp1. pose proof (Forall_inv_tail Hrest) as Hr. cbv beta in Hp1.
      cbn [fold_left bind].
      rewrite getN_nth by exact Hp1. cbn [bind].
      rewrite vadd_Ok by (rewrite Ha, Hlen by exact Hp1; reflexivity).
      destruct (IH Hr (vzip a (nth (N.to_nat p) contribs []))) as (v & E1 & E2 & E3).
      { rewrite vzip_length; [exact Ha|]. rewrite Ha, Hlen by exact Hp1. reflexivity. }
      exists v. split; [exact E1|]. split; [exact E2|]. intros k Hk. rewrite (E3 k Hk). cbn [map fold_left].
      rewrite vzip_nth; [reflexivity| |lia]. rewrite Ha, Hlen by exact Hp1. reflexivity.
  Qed.
End Reduce.

Section Pack.
  Context {K : Num}.

  (** what [unpack] reads of its template: the distribution parameters and the bin counts *)
  Definition tshape (t : plainres K) : list (dparams K * nat) :=
    map (fun d => (dr_par d, length (dr_bins d))) (p_dists t).
  Definition nbins (sh : list (dparams K * nat)) : nat := fold_right (fun x acc => (snd x + acc)%nat) O sh.

  Lemma bins_of_length (t : plainres K) : length (bins_of t) = nbins (tshape t).
  Proof.
    unfold bins_of, tshape. induction (p_dists t) as [|d ds IH]; [reflexivity|].
    cbn [flat_map map nbins fold_right snd]. rewrite app_length, IH. reflexivity.
  Qed.

  Lemma flat_map_pair_length {X Y} (g1 g2 : X -> Y) l : length (flat_map (fun b => [g1 b; g2 b]) l) = (2 * length l)%nat.
  Proof. induction l as [|x l IH]; [reflexivity|]. cbn [flat_map app length]. rewrite IH. lia. Qed.

  Lemma pack_T_length (t : plainres K) extra : length (pack_T t extra) = (length extra + (2 + 2 * nbins (tshape t)))%nat.
  Proof. unfold pack_T. rewrite !app_length, flat_map_pair_length, bins_of_length. reflexivity. Qed.

  Lemma pack_N_length (t : plainres K) : length (pack_N t) = (2 + 2 * nbins (tshape t))%nat.
  Proof. unfold pack_N. rewrite !app_length, flat_map_pair_length, bins_of_length. reflexivity. Qed.

  Lemma unpack_bins_Ok total : forall n (tb : list K) (nb : list N),
    (2 * n <= length tb)%nat -> (2 * n <= length nb)%nat ->
    exists bins, unpack_bins total n tb nb = Ok (bins, skipn (2 * n) tb, skipn (2 * n) nb) /\ length bins = n.
  Proof.
    induction n as [|n IH]; intros tb nb Ht Hn.
    - exists []. auto.
    - destruct tb as [|s [|ss tb]]; cbn [length] in Ht; try lia.
      destruct nb as [|nz [|fin nb]]; cbn [length] in Hn; try lia.
      destruct (IH tb nb) as (bins & E & L); [lia|lia|]. cbn [unpack_bins]. rewrite E. cbn [bind].
      exists (mk_mcres total nz fin s ss :: bins). split; [|cbn [length]; rewrite L; reflexivity].
      replace (2 * S n)%nat with (S (S (2 * n))) by lia. reflexivity.
  Qed.

  Lemma unpack_dists_shape total : forall (ds1 ds2 : list (dres K)) tb nb,
    map (fun d => (dr_par d, length (dr_bins d))) ds1 = map (fun d => (dr_par d, length (dr_bins d))) ds2 ->
    unpack_dists total ds1 tb nb = unpack_dists total ds2 tb nb.
  Proof.
    induction ds1 as [|d1 ds1 IH]; intros [|d2 ds2] tb nb H; try discriminate; [reflexivity|].
    cbn [map] in H. injection H as Ep El H. cbn [unpack_dists]. rewrite El.
    destruct (unpack_bins total (length (dr_bins d2)) tb nb) as [[[bins tb'] nb']|c]; cbn [bind]; [|reflexivity].
    rewrite (IH ds2 tb' nb' H), Ep. reflexivity.
  Qed.

  Lemma unpack_dists_Ok total : forall (ds : list (dres K)) tb nb,
    let n := nbins (map (fun d => (dr_par d, length (dr_bins d))) ds) in
    (2 * n <= length tb)%nat -> (2 * n <= length nb)%nat ->
    exists r, unpack_dists total ds tb nb = Ok r /\
      map (fun d => (dr_par d, length (dr_bins d))) r = map (fun d => (dr_par d, length (dr_bins d))) ds.
  Proof.
    cbv zeta. induction ds as [|d ds IH]; intros tb nb Ht Hn.
    - exists []. auto.
    - cbn [map nbins fold_right snd] in Ht, Hn. fold (nbins (map (fun d => (dr_par d, length (dr_bins d))) ds)) in Ht, Hn.
      destruct (unpack_bins_Ok total (length (dr_bins d)) tb nb) as (bins & E & L); [lia|lia|].
      cbn [unpack_dists]. rewrite E. cbn [bind].
      destruct (IH (skipn (2 * length (dr_bins d)) tb) (skipn (2 * length (dr_bins d)) nb)) as (r & Er & Sr).
      { rewrite skipn_length. lia. } { rewrite skipn_length. lia. }
      rewrite Er. cbn [bind]. eexists. split; [reflexivity|]. cbn [map dr_par dr_bins]. rewrite L, Sr. reflexivity.
  Qed.

  (* [unpack] depends on its template only through [tshape] *)
  Lemma unpack_shape (t1 t2 : plainres K) el total tb nb : tshape t1 = tshape t2 ->
    unpack t1 el total tb nb = unpack t2 el total tb nb.
  Proof.
    intros H. unfold unpack. destruct (skipn el tb) as [|s [|ss tb']]; try reflexivity.
    destruct nb as [|nz [|fin nb']]; try reflexivity. rewrite (unpack_dists_shape total _ _ tb' nb' H). reflexivity.
  Qed.

  (* buffers of the right length always unpack, to a result of the template's shape *)
  Lemma unpack_Ok (t : plainres K) el total (tb : list K) (nb : list N) :
    length tb = (el + (2 + 2 * nbins (tshape t)))%nat -> length nb = (2 + 2 * nbins (tshape t))%nat ->
    exists s ss tb' nz fin nb' ds, skipn el tb = s :: ss :: tb' /\ nb = nz :: fin :: nb' /\
      unpack t el total tb nb = Ok (mk_plainres (mk_mcres total nz fin s ss) ds, firstn el tb) /\
      tshape (mk_plainres (mk_mcres total nz fin s ss) ds) = tshape t.
  Proof.
    intros Ht Hn. unfold unpack.
    assert (Hs : length (skipn el tb) = (2 + 2 * nbins (tshape t))%nat) by (rewrite skipn_length; lia).
    destruct (skipn el tb) as [|s [|ss tb']]; cbn [length] in Hs; try lia.
    destruct nb as [|nz [|fin nb']]; cbn [length] in Hn; try lia.
    destruct (unpack_dists_Ok total (p_dists t) tb' nb') as (ds & E & Sd); [unfold tshape in *; lia|unfold tshape in *; lia|].
    rewrite E. cbn [bind]. exists s, ss, tb', nz, fin, nb', ds. repeat split; auto.
  Qed.
End Pack.

(** ** the generic lock-step iteration *)
Section Generic.
  Context {K : Num}.
  Variables (C S R : Type).
  Variable world : N.
  Variable perm : list N.
  Variable sub_calls : Z -> Z -> Z -> Z.
  Variable usage : N.
  Variable local_iter : S -> N -> N -> N -> res (R * N * N * list (event K)).
  Variable plain_of : R -> plainres K.
  Variable extra_of : R -> list K.
  Variable rebuild : S -> plainres K -> list K -> R.
  Variable addc : C -> R -> N -> C.
  Variable cb : N -> C -> bool.
  Variable refine : C -> S -> R -> res S.

  Notation rstate := (rank_state C S).
  Notation lpart := (local_part C S R world sub_calls usage local_iter).
  Notation mpi_it := (mpi_iteration C S R world perm sub_calls usage local_iter plain_of extra_of rebuild addc cb refine).
  Notation mpi_lp := (mpi_loop C S R world perm sub_calls usage local_iter plain_of extra_of rebuild addc cb refine).
  Notation before := (rk_before world).
  Notation subc := (rk_sub world sub_calls).
  Notation after := (rk_after world).

  (** hypotheses on the instance: the translated [sub_calls] copy is the specification (C16), every
      adaptive state the ranks can hold satisfies an invariant [Inv] under which the local iteration
      consumes [usage] numbers per call, and refinement preserves [Inv] *)
  Definition sub_calls_ok : Prop := forall t r w, in_range t r w -> sub_calls t r w = sub_spec t r w.
  Variable Inv : S -> Prop.
  Definition cost_ok : Prop := forall a n g i r g' i' e,
    Inv a -> local_iter a n g i = Ok (r, g', i', e) -> g' = (g + usage * n)%N.
  Definition refine_ok : Prop := forall c a r a', Inv a -> refine c a r = Ok a' -> Inv a'.

  Definition world_ok : Prop := (1 <= world < 2 ^ 31)%N.

  Lemma in_range_N calls r : world_ok -> (calls < 2 ^ 64)%N -> (r < world)%N ->
    in_range (Z.of_N calls) (Z.of_N r) (Z.of_N world).
  Proof.
    intros [H1 H2] Hc Hr. unfold in_range.
    change (2 ^ 64)%Z with (Z.of_N (2 ^ 64)). change (2 ^ 31)%Z with (Z.of_N (2 ^ 31)). lia.
  Qed.

  (** *** the work split over [N] (from C16) *)
  Lemma rk_values calls r : world_ok -> sub_calls_ok -> (calls < 2 ^ 64)%N -> (r < world)%N ->
    Z.of_N (before calls r) = before_spec (Z.of_N calls) (Z.of_N r) (Z.of_N world) /\
    Z.of_N (subc calls r) = sub_spec (Z.of_N calls) (Z.of_N r) (Z.of_N world) /\
    Z.of_N (after calls (subc calls r) r) =
      (Z.of_N calls - before_spec (Z.of_N calls) (Z.of_N r) (Z.of_N world) - sub_spec (Z.of_N calls) (Z.of_N r) (Z.of_N world))%Z.
  Proof.
    intros Hw Hs Hc Hr. pose proof (in_range_N calls r Hw Hc Hr) as HR.
    pose proof (before_spec_bounds _ _ _ HR) as HB. pose proof (before_succ _ _ _ HR) as HS.
    assert (Hsub0 : (0 <= sub_spec (Z.of_N calls) (Z.of_N r) (Z.of_N world))%Z).
    { unfold sub_spec. destruct HR as (Ht & Hw' & Hr').
      assert (0 <= Z.of_N calls / Z.of_N world)%Z by (apply Z.div_pos; lia).
      destruct (Z.of_N r <? Z.of_N calls mod Z.of_N world)%Z; lia. }
    assert (Hnext : (before_spec (Z.of_N calls) (Z.of_N r + 1) (Z.of_N world) <= Z.of_N calls)%Z).
    { destruct HR as (Ht & Hw' & Hr'). destruct (Z.eq_dec (Z.of_N r + 1) (Z.of_N world)) as [E|E].
      - rewrite E. rewrite (before_world (Z.of_N calls) 0 (Z.of_N world)); [lia|]. repeat split; lia.
      - apply before_spec_bounds. repeat split; lia. }
    unfold rk_before, rk_sub, rk_after, zN.
    rewrite (discard_before_correct _ _ _ HR), (Hs _ _ _ HR).
    rewrite Z2N.id by lia. rewrite Z2N.id by lia. rewrite (discard_after_correct _ _ _ HR).
    rewrite Z2N.id by lia. auto.
  Qed.

  Lemma rk_split calls r : world_ok -> sub_calls_ok -> (calls < 2 ^ 64)%N -> (r < world)%N ->
    (before calls r + subc calls r + after calls (subc calls r) r = calls)%N.
  Proof. intros Hw Hs Hc Hr. destruct (rk_values calls r Hw Hs Hc Hr) as (E1 & E2 & E3). lia. Qed.

  Lemma rk_before_0 calls : world_ok -> sub_calls_ok -> (calls < 2 ^ 64)%N -> before calls 0 = 0%N.
  Proof.
    intros Hw Hs Hc. assert (H0 : (0 < world)%N) by (destruct Hw; lia).
    destruct (rk_values calls 0 Hw Hs Hc H0) as (E1 & _).
    pose proof (before_zero _ _ _ (in_range_N calls 0 Hw Hc H0)) as E0. change (Z.of_N 0) with 0%Z in *. lia.
  Qed.

  Lemma rk_before_succ calls r : world_ok -> sub_calls_ok -> (calls < 2 ^ 64)%N -> (r < world)%N ->
    (before calls r + subc calls r)%N = (if (r + 1 <? world)%N then before calls (r + 1) else calls).
  Proof.
    intros Hw Hs Hc Hr. destruct (rk_values calls r Hw Hs Hc Hr) as (E1 & E2 & _).
    pose proof (before_succ _ _ _ (in_range_N calls r Hw Hc Hr)) as HS.
    destruct (N.ltb_spec (r + 1) world) as [H|H].
    - destruct (rk_values calls (r + 1) Hw Hs Hc H) as (E3 & _).
      replace (Z.of_N (r + 1)) with (Z.of_N r + 1)%Z in E3 by lia. lia.
    - assert (E : (Z.of_N r + 1 = Z.of_N world)%Z) by lia. rewrite E in HS.
      rewrite (before_world (Z.of_N calls) 0 (Z.of_N world)) in HS; [lia|].
      apply (in_range_N calls 0 Hw Hc). destruct Hw; lia.
  Qed.

  (** *** C04_generator_position, generic form: every rank leaves its local part at g + usage * calls *)
  Lemma local_part_gen calls r (st : rstate) lr g3 idx' evs :
    world_ok -> sub_calls_ok -> cost_ok -> Inv (rs_aux st) -> (calls < 2 ^ 64)%N -> (r < world)%N ->
    lpart calls r st = Ok (lr, g3, idx', evs) ->
    g3 = (rs_gen st + usage * calls)%N /\
    local_iter (rs_aux st) (subc calls r) (rs_gen st + usage * before calls r)%N (rs_idx st)
      = Ok (lr, (rs_gen st + usage * (before calls r + subc calls r))%N, idx', evs).
  Proof.
    intros Hw Hs Hcost HI Hc Hr H. unfold local_part in H. apply bind_Ok in H as ([[[lr0 g2] i0] e0] & Hl & H).
    injection H as <- <- <- <-. pose proof (Hcost _ _ _ _ _ _ _ _ HI Hl) as Hg. subst g2.
    pose proof (rk_split calls r Hw Hs Hc Hr) as Hsp. split.
    - replace (usage * calls)%N with (usage * (before calls r + subc calls r + after calls (subc calls r) r))%N
        by (f_equal; exact Hsp).
      rewrite !N.mul_add_distr_l. lia.
    - rewrite Hl. rewrite N.mul_add_distr_l, N.add_assoc. reflexivity.
  Qed.

  (** *** lock step *)
  Definition agree (c : C) (g : N) (a : S) (sts : list rstate) : Prop :=
    Forall (fun st => rs_chk st = c /\ rs_gen st = g /\ rs_aux st = a) sts.

  Definition shape_of (lr : R) : list (dparams K * nat) * nat := (tshape (plain_of lr), length (extra_of lr)).
  (* the template condition: the distribution structure and the length of the extra data of a local
     result are determined by the adaptive state alone *)
  Definition same_template (a : S) : Prop := forall n g i n' g' i' x x',
    local_iter a n g i = Ok x -> local_iter a n' g' i' = Ok x' ->
    shape_of (fst (fst (fst x))) = shape_of (fst (fst (fst x'))).
  Definition perm_ok : Prop := perm <> [] /\ Forall (fun p => (p < world)%N) perm.
  Definition cb_rank_independent : Prop := forall r r' c, cb r c = cb r' c.

  Definition lr_of (x : R * N * N * list (event K)) : R := fst (fst (fst x)).
  Definition idx_of (x : R * N * N * list (event K)) : N := snd (fst x).
  Definition evs_of (x : R * N * N * list (event K)) : list (event K) := snd x.

  Lemma map_snd_combine {X Y} : forall (l : list X) (l' : list Y), length l = length l' -> map snd (combine l l') = l'.
  Proof. induction l as [|x l IH]; intros [|y l'] H; try discriminate; [reflexivity|]. cbn. rewrite IH by (cbn in H; lia). reflexivity. Qed.

  (* what the local parts of agreeing ranks look like *)
  Lemma locals_facts calls sts c g a locals :
    world_ok -> sub_calls_ok -> cost_ok -> (calls < 2 ^ 64)%N -> length sts = N.to_nat world -> agree c g a sts -> Inv a ->
    mapM_idx (lpart calls) 0 sts = Ok locals ->
    length locals = N.to_nat world /\
    forall k x, nth_error locals k = Some x ->
      exists st, nth_error sts k = Some st /\ True /\
        snd (fst (fst x)) = (g + usage * calls)%N /\
        local_iter a (subc calls (N.of_nat k)) (g + usage * before calls (N.of_nat k))%N (rs_idx st)
          = Ok (lr_of x, (g + usage * (before calls (N.of_nat k) + subc calls (N.of_nat k)))%N, idx_of x, evs_of x).
  Proof.
    intros Hw Hs Hcost Hc Hlen Hag HI Hm. apply mapM_idx_Ok in Hm as [L1 L2]. split; [congruence|].
    intros k x Hk.
    assert (Hk' : (k < length sts)%nat) by (rewrite <- L1; apply nth_error_Some; congruence).
    destruct (nth_error sts k) as [st|] eqn:Est; [|apply nth_error_None in Est; lia].
    destruct (L2 k st Est) as (b & Eb & Hl). rewrite Hk in Eb. injection Eb as <-.
    unfold agree in Hag. rewrite Forall_forall in Hag. destruct (Hag st (nth_error_In _ _ Est)) as (E1 & E2 & E3).
    destruct x as [[[lr g3] i'] e]. rewrite N.add_0_l in Hl.
    apply local_part_gen in Hl; auto; [|rewrite E3; exact HI|lia].
    destruct Hl as [G1 G2]. rewrite E2, E3 in *. exists st. repeat split; auto.
  Qed.

  Lemma mpi_iteration_eq calls sts c g a locals :
    world_ok -> sub_calls_ok -> cost_ok -> (calls < 2 ^ 64)%N -> length sts = N.to_nat world -> agree c g a sts -> Inv a ->
    same_template a -> perm_ok -> cb_rank_independent ->
    mapM_idx (lpart calls) 0 sts = Ok locals ->
    exists tbuf nbuf pl ex,
      allreduce (add K) perm (map (fun x => pack_T (plain_of (lr_of x)) (extra_of (lr_of x))) locals) = Ok tbuf /\
      allreduce N.add perm (map (fun x => pack_N (plain_of (lr_of x))) locals) = Ok nbuf /\
      Forall (fun x => unpack (plain_of (lr_of x)) (length (extra_of (lr_of x))) calls tbuf nbuf = Ok (pl, ex) /\
                       tshape pl = tshape (plain_of (lr_of x)) /\ length ex = length (extra_of (lr_of x))) locals /\
      let G := (g + usage * calls)%N in
      let result := rebuild a pl ex in
      let c' := addc c result G in
      let go := cb 0 c' in
      mpi_it calls sts =
        do aux' <- (if go then refine c' a result else Ok a);
        Ok (map (fun x => mk_rank_state c' G aux' (idx_of x)) locals,
            map (fun x => mk_rank_log (evs_of x) c' go [(length tbuf, 0%nat); (length nbuf, 1%nat)]) locals, go).
  Proof.
    intros Hw Hs Hcost Hc Hlen Hag HI Htm [Hpne Hpr] Hcb Hm.
    destruct (locals_facts calls sts c g a locals Hw Hs Hcost Hc Hlen Hag HI Hm) as [Ll Lf].
    assert (Hpos : (0 < N.to_nat world)%nat) by (destruct Hw; lia).
    destruct locals as [|x0 locals'] eqn:Eloc; [cbn in Ll; lia|]. rewrite <- Eloc in *.
    assert (Hin0 : In x0 locals) by (rewrite Eloc; left; reflexivity).
    (* all templates have the shape of rank 0's *)
    assert (Hsh : forall x, In x locals -> shape_of (lr_of x) = shape_of (lr_of x0)).
    { intros x Hx. apply In_nth_error in Hx as (k & Hk). destruct (Lf k x Hk) as (st & _ & _ & _ & E).
      assert (H0 : nth_error locals 0 = Some x0) by (rewrite Eloc; reflexivity).
      destruct (Lf _ _ H0) as (st0 & _ & _ & _ & E0). exact (Htm _ _ _ _ _ _ _ _ E E0). }
    set (sh := tshape (plain_of (lr_of x0))). set (el := length (extra_of (lr_of x0))).
    assert (Hsh' : forall x, In x locals -> tshape (plain_of (lr_of x)) = sh /\ length (extra_of (lr_of x)) = el).
    { intros x Hx. pose proof (Hsh x Hx) as E. unfold shape_of in E. injection E as E1 E2. auto. }
    destruct perm as [|p0 rest] eqn:Eperm; [congruence|]. rewrite <- Eperm in *.
    assert (Hpr' : forall X (l : list X), length l = length locals -> Forall (fun p => (N.to_nat p < length l)%nat) (p0 :: rest)).
    { intros X l Hl. rewrite <- Eperm. eapply Forall_impl; [|exact Hpr]. cbv beta. intros p Hp. rewrite Hl, Ll. lia. }
    (* the T reduction *)
    destruct (allreduce_spec (add K) (zero K) p0 rest
                (map (fun x => pack_T (plain_of (lr_of x)) (extra_of (lr_of x))) locals) (el + (2 + 2 * nbins sh))%nat)
      as (tbuf & Et & Lt & _).
    { apply Hpr'. apply map_length. }
    { apply Forall_forall. intros v Hv. apply in_map_iff in Hv as (x & <- & Hx). destruct (Hsh' x Hx) as [E1 E2].
      rewrite pack_T_length, E1, E2. reflexivity. }
    destruct (allreduce_spec N.add 0%N p0 rest
                (map (fun x => pack_N (plain_of (lr_of x))) locals) (2 + 2 * nbins sh)%nat)
      as (nbuf & En & Ln & _).
    { apply Hpr'. apply map_length. }
    { apply Forall_forall. intros v Hv. apply in_map_iff in Hv as (x & <- & Hx). destruct (Hsh' x Hx) as [E1 E2].
      rewrite pack_N_length, E1. reflexivity. }
    rewrite <- Eperm in Et, En.
    destruct (unpack_Ok (plain_of (lr_of x0)) el calls tbuf nbuf Lt Ln) as (s & ss & tb' & nz & fin & nb' & ds & _ & _ & Eu & Su).
    set (pl := mk_plainres (mk_mcres calls nz fin s ss) ds) in *. set (ex := firstn el tbuf) in *.
    assert (Hun : Forall (fun x => unpack (plain_of (lr_of x)) (length (extra_of (lr_of x))) calls tbuf nbuf = Ok (pl, ex) /\
                       tshape pl = tshape (plain_of (lr_of x)) /\ length ex = length (extra_of (lr_of x))) locals).
    { apply Forall_forall. intros x Hx. destruct (Hsh' x Hx) as [E1 E2]. rewrite E2.
      rewrite (unpack_shape _ (plain_of (lr_of x0))) by exact E1. split; [exact Eu|]. split; [rewrite Su, E1; reflexivity|].
      unfold ex. rewrite firstn_length. lia. }
    exists tbuf, nbuf, pl, ex. split; [exact Et|]. split; [exact En|]. split; [exact Hun|]. cbv zeta.
    set (G := (g + usage * calls)%N). set (result := rebuild a pl ex). set (c' := addc c result G). set (go := cb 0 c').
    unfold mpi_iteration. rewrite Hm. cbn [bind].
    assert (ET : map (fun '(lr, _, _, _) => pack_T (plain_of lr) (extra_of lr)) locals
                 = map (fun x => pack_T (plain_of (lr_of x)) (extra_of (lr_of x))) locals).
    { apply map_ext. intros [[[? ?] ?] ?]. reflexivity. }
    assert (EN : map (fun '(lr, _, _, _) => pack_N (plain_of lr)) locals = map (fun x => pack_N (plain_of (lr_of x))) locals).
    { apply map_ext. intros [[[? ?] ?] ?]. reflexivity. }
    rewrite ET, Et. cbn [bind]. rewrite EN, En. cbn [bind].
    set (colls := [(length tbuf, 0%nat); (length nbuf, 1%nat)]).
    set (h := fun (aux' : S) (y : rstate * (R * N * N * list (event K))) =>
                (mk_rank_state c' G aux' (idx_of (snd y)), mk_rank_log (evs_of (snd y)) c' go colls)).
    rewrite (mapM_idx_ext_in _ (fun _ y => do aux' <- (if go then refine c' a result else Ok a); Ok (h aux' y))).
    2:{ intros k [st [[[lr g3] i'] e]] Hk. apply nth_error_combine in Hk as [Hk1 Hk2]. cbn [fst snd] in Hk1, Hk2.
        assert (Hx : In (lr, g3, i', e) locals) by (eapply nth_error_In; exact Hk2).
        rewrite Forall_forall in Hun. destruct (Hun _ Hx) as (Eux & _). unfold lr_of in Eux. cbn [fst] in Eux. rewrite Eux. cbn [bind].
        destruct (Lf k _ Hk2) as (st' & Est & _ & Eg3 & _). rewrite Hk1 in Est. injection Est as <-. cbn [fst snd] in Eg3. subst g3.
        unfold agree in Hag. rewrite Forall_forall in Hag. destruct (Hag st (nth_error_In _ _ Hk1)) as (E1 & E2 & E3).
        rewrite E1, E3. fold G result c'. rewrite (Hcb (0 + N.of_nat k)%N 0%N c'). fold go. reflexivity. }
    rewrite mapM_idx_bind_const.
    2:{ rewrite Eloc. destruct sts; [cbn in Hlen; lia|]. discriminate. }
    destruct (if go then refine c' a result else Ok a) as [aux'|code]; cbn [bind]; [|reflexivity].
    rewrite all_same_const with (b := go).
    - f_equal. f_equal. f_equal.
      + rewrite map_map. unfold h. cbn [fst]. rewrite <- (map_map snd (fun x => mk_rank_state c' G aux' (idx_of x))).
        rewrite map_snd_combine by lia. reflexivity.
      + rewrite map_map. unfold h. cbn [snd]. rewrite <- (map_map snd (fun x => mk_rank_log (evs_of x) c' go colls)).
        rewrite map_snd_combine by lia. reflexivity.
    - rewrite Eloc. destruct sts; [cbn in Hlen; lia|]. discriminate.
    - apply Forall_forall. intros b Hb. apply in_map_iff in Hb as ([st' l] & <- & Hb).
      apply in_map_iff in Hb as (y & Ey & _). unfold h in Ey. injection Ey as _ <-. reflexivity.
  Qed.

  (** *** C04_lockstep_no_hang *)
  Definition template_ok : Prop := forall a, Inv a -> same_template a.

  (* every rank's log entry of one iteration shows the same checkpoint, the same decision and the same
     two collectives (operand lengths nT, nN) *)
  Definition logs_agree (c' : C) (go : bool) (ls : list (@rank_log K C)) : Prop :=
    exists nT nN, Forall (fun l => rl_chk l = c' /\ rl_continue l = go /\ rl_collectives l = [(nT, 0%nat); (nN, 1%nat)]) ls.

  (* the only ways an iteration of all ranks can be undefined: some rank's local part is, or the (common)
     refinement is.  In particular never 96/97/98 (reduction) or 99 (a rank left waiting). *)
  Definition ub_origin (calls : N) (sts : list rstate) (a : S) (code : nat) : Prop :=
    (exists r st, nth_error sts (N.to_nat r) = Some st /\ lpart calls r st = UB code) \/
    (exists c' result, refine c' a result = UB code).

  Lemma lockstep_iteration calls sts c g a :
    world_ok -> sub_calls_ok -> cost_ok -> refine_ok -> template_ok -> perm_ok -> cb_rank_independent ->
    (calls < 2 ^ 64)%N -> length sts = N.to_nat world -> agree c g a sts -> Inv a ->
    match mpi_it calls sts with
    | Ok (sts', logs, go) =>
        exists result a', let c' := addc c result (g + usage * calls)%N in
          agree c' (g + usage * calls)%N a' sts' /\ Inv a' /\
          length sts' = N.to_nat world /\ length logs = N.to_nat world /\ logs_agree c' go logs /\
          go = cb 0 c' /\ (if go then refine c' a result else Ok a) = Ok a'
    | UB code => ub_origin calls sts a code
    end.
  Proof.
    intros Hw Hs Hcost Hrf Htm Hp Hcb Hc Hlen Hag HI.
    destruct (mapM_idx (lpart calls) 0 sts) as [locals|code] eqn:Hm.
    - destruct (mpi_iteration_eq calls sts c g a locals Hw Hs Hcost Hc Hlen Hag HI (Htm a HI) Hp Hcb Hm)
        as (tbuf & nbuf & pl & ex & _ & _ & _ & E). cbv zeta in E. rewrite E. clear E.
      destruct (locals_facts calls sts c g a locals Hw Hs Hcost Hc Hlen Hag HI Hm) as [Ll _].
      set (G := (g + usage * calls)%N). set (result := rebuild a pl ex). set (c' := addc c result G). set (go := cb 0 c').
      destruct (if go then refine c' a result else Ok a) as [aux'|code] eqn:Er; cbn [bind].
      + exists result, aux'. cbv zeta. fold c'. split; [|split; [|split; [|split; [|split; [|split]]]]].
        * apply Forall_forall. intros st Hst. apply in_map_iff in Hst as (x & <- & _). cbn. auto.
        * destruct go; [exact (Hrf _ _ _ _ HI Er)|injection Er as <-; exact HI].
        * rewrite map_length. exact Ll.
        * rewrite map_length. exact Ll.
        * exists (length tbuf), (length nbuf). apply Forall_forall. intros l Hl. apply in_map_iff in Hl as (x & <- & _). cbn. auto.
        * reflexivity.
        * exact Er.
      + right. destruct go; [|discriminate]. exists c', result. exact Er.
    - unfold mpi_iteration. rewrite Hm. cbn [bind]. left.
      apply mapM_idx_UB in Hm as (k & st & E1 & E2). exists (N.of_nat k), st. rewrite Nat2N.id. split; [exact E1|exact E2].
  Qed.

  (* the loop: lock step is an invariant; the states after the loop agree, sit at g + usage * (calls
     performed), and the i-th iteration's logs agree on a checkpoint that was added with the generator
     g + usage * (calls of iterations 0..i) *)
  Definition iteration_ok (g : N) (cs : list N) (i : nat) (ls : list (@rank_log K C)) : Prop :=
    length ls = N.to_nat world /\
    exists cprev result go, logs_agree (addc cprev result (g + usage * sumN (firstn (Datatypes.S i) cs))%N) go ls.

  (* iteration i of a run was one lock-step iteration of [world] agreeing ranks, started at the generator
     g + usage * (calls of iterations 0..i-1) *)
  Definition iteration_run (g : N) (cs : list N) (i : nat) (ls : list (@rank_log K C)) : Prop :=
    exists calls sts c a sts' go, nth_error cs i = Some calls /\ length sts = N.to_nat world /\
      agree c (g + usage * sumN (firstn i cs))%N a sts /\ Inv a /\ mpi_it calls sts = Ok (sts', ls, go).

  Definition loop_ub (code : nat) : Prop :=
    exists calls sts a, length sts = N.to_nat world /\ Inv a /\ (exists c g, agree c g a sts) /\ ub_origin calls sts a code.

  Lemma lockstep_loop cs : forall sts log c g a,
    world_ok -> sub_calls_ok -> cost_ok -> refine_ok -> template_ok -> perm_ok -> cb_rank_independent ->
    Forall (fun calls => (calls < 2 ^ 64)%N) cs -> length sts = N.to_nat world -> agree c g a sts -> Inv a ->
    match mpi_lp cs sts log with
    | Ok (sts', logs) =>
        exists new c' a', logs = rev log ++ new /\ (length new <= length cs)%nat /\
          agree c' (g + usage * sumN (firstn (length new) cs))%N a' sts' /\ Inv a' /\ length sts' = N.to_nat world /\
          (forall i ls, nth_error new i = Some ls -> iteration_ok g cs i ls /\ iteration_run g cs i ls) /\
          (new = [] -> cs = [] /\ sts' = sts /\ c' = c) /\
          (* the returned checkpoint is the one every rank's last callback saw *)
          (new <> [] -> exists go, logs_agree c' go (last new []))
    | UB code => loop_ub code
    end.
  Proof.
    induction cs as [|calls cs IH]; intros sts log c g a Hw Hs Hcost Hrf Htm Hp Hcb Hcs Hlen Hag HI; cbn [mpi_loop].
    - exists [], c, a. rewrite app_nil_r. cbn [length firstn sumN fold_right]. rewrite N.mul_0_r, N.add_0_r.
      split; [reflexivity|]. split; [lia|]. split; [exact Hag|]. split; [exact HI|]. split; [exact Hlen|].
      split; [intros [|i] ls0 H; discriminate|]. split; [auto|congruence].
    - pose proof (Forall_inv Hcs) as Hc. pose proof (Forall_inv_tail Hcs) as Hcs'. cbv beta in Hc.
      pose proof (lockstep_iteration calls sts c g a Hw Hs Hcost Hrf Htm Hp Hcb Hc Hlen Hag HI) as Hit.
      destruct (mpi_it calls sts) as [[[sts1 ls] go]|code] eqn:Eit; cbn [bind].
      2:{ exists calls, sts, a. split; [exact Hlen|]. split; [exact HI|]. split; [exists c, g; exact Hag|exact Hit]. }
      destruct Hit as (result & a1 & Hag1 & HI1 & Hl1 & Hll & Hla & Hgo & _). cbv zeta in Hag1, Hla.
      assert (Hi0 : iteration_ok g (calls :: cs) 0 ls /\ iteration_run g (calls :: cs) 0 ls).
      { split.
        - split; [exact Hll|]. exists c, result, go. cbn [firstn sumN fold_right]. rewrite N.add_0_r. exact Hla.
        - exists calls, sts, c, a, sts1, go. cbn [nth_error firstn sumN fold_right]. rewrite N.mul_0_r, N.add_0_r. auto. }
      destruct go.
      + specialize (IH sts1 (ls :: log) _ _ _ Hw Hs Hcost Hrf Htm Hp Hcb Hcs' Hl1 Hag1 HI1).
        destruct (mpi_lp cs sts1 (ls :: log)) as [[sts' logs]|code]; [|exact IH].
        destruct IH as (new & c' & a' & El & Ln & Hag' & HI' & Hl' & Hits & Hnil & Hlast).
        exists (ls :: new), c', a'. split; [rewrite El; cbn [rev]; rewrite <- app_assoc; reflexivity|].
        split; [cbn [length]; lia|]. split.
        { cbn [length firstn sumN fold_right]. fold (sumN (firstn (length new) cs)).
          replace (g + usage * (calls + sumN (firstn (length new) cs)))%N
            with (g + usage * calls + usage * sumN (firstn (length new) cs))%N by (rewrite N.mul_add_distr_l; lia).
          exact Hag'. }
        split; [exact HI'|]. split; [exact Hl'|]. split; [|split; [discriminate|]].
        2:{ intros _. destruct new as [|l1 new1].
            - destruct (Hnil eq_refl) as (_ & _ & ->). exists true. exact Hla.
            - change (last (ls :: l1 :: new1) []) with (last (l1 :: new1) []). apply Hlast. discriminate. }
        intros [|i] ls0 Hn.
        * injection Hn as <-. exact Hi0.
        * cbn [nth_error] in Hn. destruct (Hits i ls0 Hn) as [[L1 (cp & res0 & go0 & L2)] (cl & st0 & c0 & a0 & st0' & go1 & R1 & R2 & R3 & R4 & R5)].
          split.
          2:{ exists cl, st0, c0, a0, st0', go1. cbn [nth_error]. split; [exact R1|]. split; [exact R2|]. split; [|auto].
              replace (g + usage * sumN (firstn (Datatypes.S i) (calls :: cs)))%N
                with (g + usage * calls + usage * sumN (firstn i cs))%N; [exact R3|].
              cbn [firstn sumN fold_right]. fold (sumN (firstn i cs)). rewrite N.mul_add_distr_l. lia. }
          split; [exact L1|].
          exists cp, res0, go0.
          replace (g + usage * sumN (firstn (Datatypes.S (Datatypes.S i)) (calls :: cs)))%N
            with (g + usage * calls + usage * sumN (firstn (Datatypes.S i) cs))%N; [exact L2|].
          change (firstn (Datatypes.S (Datatypes.S i)) (calls :: cs)) with (calls :: firstn (Datatypes.S i) cs).
          cbn [sumN fold_right]. fold (sumN (firstn (Datatypes.S i) cs)). rewrite N.mul_add_distr_l. lia.
      + exists [ls], (addc c result (g + usage * calls)%N), a1. split; [reflexivity|]. split; [cbn [length]; lia|].
        split; [cbn [length firstn sumN fold_right]; rewrite N.add_0_r; exact Hag1|].
        split; [exact HI1|]. split; [exact Hl1|]. split; [|split; [discriminate|intros _; exists false; exact Hla]].
        intros [|i] ls0 Hn; [injection Hn as <-; exact Hi0|destruct i; discriminate].
  Qed.
End Generic.
Arguments cost_ok {K S R}. Arguments refine_ok {C S R}. Arguments template_ok {K S R}. Arguments same_template {K S R}.
Arguments cb_rank_independent {C}. Arguments agree {C S}. Arguments logs_agree {K C}. Arguments ub_origin {K C S R}.
Arguments iteration_ok {K C R}. Arguments loop_ub {K C S R}. Arguments iteration_run {K}. Arguments shape_of {K R}. Arguments lr_of {K R}.
Arguments idx_of {K R}. Arguments evs_of {K R}.

(** ** the template condition for the three iterations: the distribution structure of a local result
    is fixed by [ps], the length of the adjustment data by the grid / the weights *)
Section Template.
  Context {K : Num}.
  Variable strm : N -> K.
  Variable ps : list (dparams K).
  Variable f : integrand K.

  Definition lens (ds : list (list (cell K))) : list nat := map (@length (cell K)) ds.

  Lemma set_nth_len {A} : forall (l : list A) i a, length (set_nth l i a) = length l.
  Proof. induction l as [|x l IH]; intros [|i] a; cbn; auto. Qed.

  Lemma lens_set_nth : forall (ds : list (list (cell K))) i d d',
    nth_error ds i = Some d -> length d' = length d -> lens (set_nth ds i d') = lens ds.
  Proof.
    induction ds as [|x ds IH]; intros [|i] d d' H L; cbn in H; try discriminate.
    - injection H as ->. cbn. rewrite L. reflexivity.
    - cbn [set_nth lens map]. f_equal. exact (IH i d d' H L).
  Qed.

  Lemma upd_bin_lens ds idx bin v ds' : upd_bin ds idx bin v = Ok ds' -> lens ds' = lens ds.
  Proof.
    unfold upd_bin. intros H. apply bind_Ok in H as (d & Hd & H). apply bind_Ok in H as (c & _ & H). injection H as <-.
    unfold getN, nthN in Hd. destruct (nth_error ds (N.to_nat idx)) as [d0|] eqn:E; [|discriminate]. injection Hd as ->.
    unfold setN. eapply lens_set_nth; [exact E|]. apply set_nth_len.
  Qed.

  Lemma fill1d_lens ds idx x v ds' : fill1d ps ds idx x v = Ok ds' -> lens ds' = lens ds.
  Proof.
    unfold fill1d. intros H. destruct (negb (isfinite K v)); [injection H as <-; reflexivity|].
    apply bind_Ok in H as (p & _ & H). destruct (ltb K _ _); [injection H as <-; reflexivity|].
    destruct (negb _); [injection H as <-; reflexivity|]. apply bind_Ok in H as (bx & _ & H).
    eapply upd_bin_lens; exact H.
  Qed.

  Lemma fill2d_lens ds idx x y v ds' : fill2d ps ds idx x y v = Ok ds' -> lens ds' = lens ds.
  Proof.
    unfold fill2d. intros H. destruct (negb (isfinite K v)); [injection H as <-; reflexivity|].
    apply bind_Ok in H as (p & _ & H). destruct (ltb K _ _); [injection H as <-; reflexivity|].
    destruct (ltb K _ _); [injection H as <-; reflexivity|].
    destruct (negb _); [injection H as <-; reflexivity|]. apply bind_Ok in H as (bx & _ & H).
    destruct (negb _); [injection H as <-; reflexivity|]. apply bind_Ok in H as (by_ & _ & H).
    eapply upd_bin_lens; exact H.
  Qed.

  Lemma do_fills_lens w : forall fs ds ds', do_fills ps w ds fs = Ok ds' -> lens ds' = lens ds.
  Proof.
    induction fs as [|fl fs IH]; intros ds ds' H; cbn [do_fills] in H; [injection H as <-; reflexivity|].
    apply bind_Ok in H as (ds1 & H1 & H). rewrite (IH _ _ H).
    destruct fl; cbn [do_fill] in H1; [eapply fill1d_lens|eapply fill2d_lens]; exact H1.
  Qed.

  Lemma finish_call_lens s o r a v : finish_call ps s o r = Ok (a, v) -> lens (a_dists a) = lens (a_dists (it_acc s)).
  Proof.
    unfold finish_call. intros H. apply bind_Ok in H as (ds & Hd & H).
    destruct (invoke_main _ _ _) as [m v']. injection H as <- _. cbn [a_dists]. eapply do_fills_lens; exact Hd.
  Qed.

  Definition ps_lens : list nat := map (fun p => N.to_nat (d_bx p * d_by p)) ps.
  Definition ps_shape : list (dparams K * nat) := combine ps ps_lens.

  Lemma acc_init_lens : lens (a_dists (acc_init ps)) = ps_lens.
  Proof. unfold acc_init, lens, ps_lens. cbn [a_dists]. rewrite map_map. apply map_ext. intros p. apply repeat_length. Qed.

  Lemma tshape_acc_result (a : accst K) calls : tshape (acc_result ps a calls) = combine ps (lens (a_dists a)).
  Proof.
    unfold tshape, acc_result. cbn [p_dists]. generalize (a_dists a) as ds. induction ps as [|p ps' IH]; intros ds; [reflexivity|].
    destruct ds as [|d ds]; [reflexivity|]. cbn [dist_results map lens combine]. rewrite IH.
    unfold dist_result. cbn [dr_par dr_bins]. rewrite map_length. reflexivity.
  Qed.

  (* every call step of the three integrators keeps the bin structure *)
  Lemma plain_step_lens d s s' : plain_step strm ps f d s = Ok s' -> lens (a_dists (it_acc s')) = lens (a_dists (it_acc s)).
  Proof.
    unfold plain_step. intros H. apply bind_Ok in H as ([a v] & Hf & H). injection H as <-. cbn [it_acc].
    eapply finish_call_lens; exact Hf.
  Qed.

  Lemma add_squares_length bins (sq : K) : forall bs (adj : list K) j adj', add_squares adj bins j bs sq = Ok adj' -> length adj' = length adj.
  Proof.
    induction bs as [|b bs IH]; intros adj j adj' H; cbn [add_squares] in H; [injection H as <-; reflexivity|].
    apply bind_Ok in H as (old & _ & H). rewrite (IH _ _ _ H). unfold setN. apply set_nth_len.
  Qed.

  Lemma vegas_step_lens p s s' : vegas_step strm ps f p s = Ok s' ->
    lens (a_dists (it_acc s')) = lens (a_dists (it_acc s)) /\ length (it_adj s') = length (it_adj s).
  Proof.
    unfold vegas_step. intros H. apply bind_Ok in H as ([[xs bs] w] & _ & H).
    apply bind_Ok in H as ([a v] & Hf & H). apply bind_Ok in H as (adj & Ha & H). injection H as <-. cbn [it_acc it_adj].
    split; [eapply finish_call_lens; exact Hf|eapply add_squares_length; exact Ha].
  Qed.

  Lemma add_dens_length (sq : K) : forall (adj dens adj' : list K), add_dens adj dens sq = Ok adj' -> length adj' = length adj.
  Proof.
    induction adj as [|a adj IH]; intros dens adj' H; cbn [add_dens] in H; [injection H as <-; reflexivity|].
    destruct dens as [|d dens]; [discriminate|]. apply bind_Ok in H as (rest & Hr & H). injection H as <-.
    cbn [length]. rewrite (IH _ _ Hr). reflexivity.
  Qed.

  Variable mp : mcmap K.
  Lemma mc_step_lens d ws cum en s s' : mc_step strm ps f mp d ws cum en s = Ok s' ->
    lens (a_dists (it_acc s')) = lens (a_dists (it_acc s)) /\ length (it_adj s') = length (it_adj s).
  Proof.
    unfold mc_step. destruct (m_dens mp _ _ _ _ _) as [jac dens]. intros H.
    apply bind_Ok in H as (w & _ & H). apply bind_Ok in H as ([a v] & Hf & H).
    apply bind_Ok in H as (adj & Ha & H). injection H as <-. cbn [it_acc it_adj].
    split; [eapply finish_call_lens; exact Hf|].
    destruct (eqb K v (zero K)); [injection Ha as <-; reflexivity|eapply add_dens_length; exact Ha].
  Qed.

  Lemma loop_lens (step : itst K -> res (itst K)) :
    (forall s s', step s = Ok s' -> lens (a_dists (it_acc s')) = lens (a_dists (it_acc s)) /\ length (it_adj s') = length (it_adj s)) ->
    forall n s0 s, iter_loop step n s0 = Ok s ->
      lens (a_dists (it_acc s)) = lens (a_dists (it_acc s0)) /\ length (it_adj s) = length (it_adj s0).
  Proof.
    intros Hs n s0. apply (iter_loop_ind step (fun _ s => lens (a_dists (it_acc s)) = lens (a_dists (it_acc s0)) /\ length (it_adj s) = length (it_adj s0))).
    - auto.
    - intros k s s' [I1 I2] H. apply Hs in H as [H1 H2]. split; congruence.
  Qed.

  Lemma plain_iteration_shape d calls g idx r g' idx' evs :
    plain_iteration strm ps f d calls g idx = Ok (r, g', idx', evs) -> tshape r = ps_shape.
  Proof.
    unfold plain_iteration. intros H. apply bind_Ok in H as (s & Hl & H). injection H as <- _ _ _.
    apply (loop_lens (plain_step strm ps f d)) in Hl as [H1 _].
    - rewrite tshape_acc_result, H1. cbn [it_acc]. rewrite acc_init_lens. reflexivity.
    - intros s1 s2 Hs. split; [eapply plain_step_lens; exact Hs|].
      unfold plain_step in Hs. apply bind_Ok in Hs as ([a v] & _ & Hs). injection Hs as <-. reflexivity.
  Qed.

  Lemma vegas_iteration_shape p calls g idx r g' idx' evs :
    vegas_iteration strm ps f p calls g idx = Ok (r, g', idx', evs) ->
    tshape (v_plain r) = ps_shape /\ length (v_adj r) = N.to_nat (pdf_dims p * pdf_bins p).
  Proof.
    unfold vegas_iteration. intros H. apply bind_Ok in H as (s & Hl & H). injection H as <- _ _ _.
    apply (loop_lens _ (vegas_step_lens p)) in Hl as [H1 H2]. cbn [v_plain v_adj it_acc it_adj] in *.
    rewrite tshape_acc_result, H1, acc_init_lens, H2, repeat_length. auto.
  Qed.

  Lemma mc_iteration_shape d ws calls g idx r g' idx' evs :
    mc_iteration strm ps f mp d ws calls g idx = Ok (r, g', idx', evs) ->
    tshape (m_plain r) = ps_shape /\ length (m_adj r) = length ws.
  Proof.
    unfold mc_iteration. intros H. apply bind_Ok in H as (s & Hl & H). injection H as <- _ _ _.
    apply (loop_lens _ (mc_step_lens d ws _ _)) in Hl as [H1 H2]. cbn [m_plain m_adj it_acc it_adj] in *.
    rewrite tshape_acc_result, H1, acc_init_lens, H2, repeat_length. auto.
  Qed.
End Template.

(** ** the three drivers *)
Lemma sub_plain_ok : sub_calls_ok sub_calls_plain.
Proof. intros t r w H. exact (sub_calls_plain_correct t r w H). Qed.
Lemma sub_vegas_ok : sub_calls_ok sub_calls_vegas.
Proof. intros t r w H. exact (sub_calls_vegas_correct t r w H). Qed.
Lemma sub_mc_ok : sub_calls_ok sub_calls_multi_channel.
Proof. intros t r w H. exact (sub_calls_multi_channel_correct t r w H). Qed.

Lemma refine_pdf_dims {K : Num} (L : Libm K) p alpha data p' :
  refine_pdf L p alpha data = Ok p' -> pdf_dims p' = pdf_dims p /\ pdf_bins p' = pdf_bins p.
Proof. unfold refine_pdf. intros H. apply bind_Ok in H as (x & _ & H). injection H as <-. auto. Qed.

(** what a finished run of all ranks looks like: [logs] has one entry (the list of the ranks' log
    records) per performed iteration *)
Definition lockstep_run {K : Num} {C S R : Type} (world usage : N) (addc : C -> R -> N -> C) (ub : nat -> Prop)
    (itrun : nat -> list (@rank_log K C) -> Prop) (c : C) (g : N) (cs : list N) (out : res (list (rank_state C S) * list (list (@rank_log K C)))) : Prop :=
  match out with
  | Ok (sts', logs) =>
      (length logs <= length cs)%nat /\ (cs <> [] -> logs <> []) /\ length sts' = N.to_nat world /\
      (exists c' a', agree c' (g + usage * sumN (firstn (length logs) cs))%N a' sts' /\
                     (logs = [] -> c' = c) /\ (logs <> [] -> exists go, logs_agree c' go (last logs []))) /\
      forall i ls, nth_error logs i = Some ls -> iteration_ok world usage addc g cs i ls /\ itrun i ls
  | UB code => ub code
  end.

Lemma lockstep_run_weaken {K : Num} {C S R : Type} world usage (addc : C -> R -> N -> C) (ub ub' : nat -> Prop) itrun c g cs
    (out : res (list (rank_state C S) * list (list (@rank_log K C)))) :
  (forall code, ub code -> ub' code) -> lockstep_run world usage addc ub itrun c g cs out -> lockstep_run world usage addc ub' itrun c g cs out.
Proof. intros Hu. unfold lockstep_run. destruct out as [[sts' logs]|code]; [auto|apply Hu]. Qed.

Lemma lockstep_run_intro {K : Num} {C S R : Type} world perm sub_calls usage
    (local_iter : S -> N -> N -> N -> res (R * N * N * list (event K))) plain_of extra_of rebuild
    (addc : C -> R -> N -> C) cb refine (Inv : S -> Prop) cs c g a :
  world_ok world -> sub_calls_ok sub_calls -> cost_ok usage local_iter Inv -> refine_ok refine Inv ->
  template_ok local_iter plain_of extra_of Inv -> perm_ok world perm -> cb_rank_independent cb ->
  Forall (fun calls => (calls < 2 ^ 64)%N) cs -> Inv a -> forall idx,
  lockstep_run world usage addc (loop_ub world sub_calls usage local_iter refine Inv)
    (iteration_run C S R world perm sub_calls usage local_iter plain_of extra_of rebuild addc cb refine Inv g cs) c g cs
    (mpi_loop C S R world perm sub_calls usage local_iter plain_of extra_of rebuild addc cb refine cs
       (ranks world (mk_rank_state c g a idx)) []).
Proof.
  intros Hw Hs Hcost Hrf Htm Hp Hcb Hcs HI idx.
  pose proof (lockstep_loop C S R world perm sub_calls usage local_iter plain_of extra_of rebuild addc cb refine Inv
                cs (ranks world (mk_rank_state c g a idx)) [] c g a Hw Hs Hcost Hrf Htm Hp Hcb Hcs) as H.
  unfold lockstep_run. destruct (mpi_loop _ _ _ _ _ _ _ _ _ _ _ _ _ _ _ _ _) as [[sts' logs]|code].
  - destruct H as (new & c' & a' & El & Ln & Hag & _ & Hl & Hits & Hnil & Hlast).
    { unfold ranks. apply repeat_length. }
    { unfold ranks, agree. apply Forall_forall. intros st Hst. apply repeat_spec in Hst. subst st. cbn. auto. }
    { exact HI. }
    cbn [rev app] in El. subst new. split; [exact Ln|]. split.
    { intros Hne El. destruct (Hnil El) as (E & _). contradiction. }
    split; [exact Hl|]. split; [|exact Hits].
    exists c', a'. split; [exact Hag|]. split; [|exact Hlast]. intros El. destruct (Hnil El) as (_ & _ & E). exact E.
  - apply H; [unfold ranks; apply repeat_length| |exact HI].
    unfold ranks, agree. apply Forall_forall. intros st Hst. apply repeat_spec in Hst. subst st. cbn. auto.
Qed.

Section Drivers.
  Context {K : Num}.
  Context (L : Libm K).
  Variable strm : N -> K.
  Variable ps : list (dparams K).
  Variable f : integrand K.
  Variable world : N.
  Variable perm : list N.

  (** *** PLAIN *)
  Definition plain_li (d : nat) : unit -> N -> N -> N -> res (plainres K * N * N * list (event K)) :=
    fun _ calls g i => plain_iteration strm ps f d calls g i.
  Definition noref {C R} : C -> unit -> R -> res unit := fun _ s _ => Ok s.
  Definition triv {S} : S -> Prop := fun _ => True.

  Lemma plain_cost d : cost_ok (N.of_nat d) (plain_li d) triv.
  Proof. intros a n g i r g' i' e _ H. apply plain_iteration_draws in H as [-> _]. lia. Qed.
  Lemma plain_template d : template_ok (plain_li d) (fun r => r) (fun _ => []) triv.
  Proof.
    intros a _ n g i n' g' i' [[[r1 g1] i1] e1] [[[r2 g2] i2] e2] H1 H2. unfold shape_of. cbn [fst].
    rewrite (plain_iteration_shape _ _ _ _ _ _ _ _ _ _ _ H1), (plain_iteration_shape _ _ _ _ _ _ _ _ _ _ _ H2). reflexivity.
  Qed.
  Lemma noref_ok {C R} : refine_ok (@noref C R) triv.
  Proof. intros c a r a' _ _. exact I. Qed.

  (* undefined behaviour of an MPI PLAIN run is undefined behaviour of a plain iteration on part of the stream *)
  Definition plain_ub (d : nat) (code : nat) : Prop := exists n g i, plain_iteration strm ps f d n g i = UB code.

  Lemma plain_loop_ub d code :
    loop_ub (C := pchk K) world sub_calls_plain (N.of_nat d) (plain_li d) noref triv code -> plain_ub d code.
  Proof.
    intros (calls & sts & a & _ & _ & _ & [(r & st & _ & H)|(c' & res0 & H)]); [|discriminate].
    unfold local_part in H. unfold plain_li in H at 1.
    destruct (plain_iteration strm ps f d _ _ _) as [[[[lr g2] i2] e2]|c0] eqn:E; cbn [bind] in H; [discriminate|].
    injection H as <-. eexists _, _, _. exact E.
  Qed.

  Definition plain_itrun (d : nat) (cb : N -> pchk K -> bool) (g : N) (cs : list N) : nat -> list (rank_log (pchk K)) -> Prop :=
    iteration_run (pchk K) unit (plainres K) world perm sub_calls_plain (N.of_nat d) (plain_li d) (fun r => r) (fun _ => [])
      (fun _ pl _ => pl) base_add cb noref triv g cs.

  Lemma c04_plain_lockstep d cb cs (c : pchk K) idx :
    world_ok world -> perm_ok world perm -> cb_rank_independent cb -> Forall (fun calls => (calls < 2 ^ 64)%N) cs ->
    match base_gen c with
    | Ok g => lockstep_run world (N.of_nat d) base_add (plain_ub d) (plain_itrun d cb g cs) c g cs
                (mpi_plain_run strm ps f world perm d cb cs c idx)
    | UB code => mpi_plain_run strm ps f world perm d cb cs c idx = UB code
    end.
  Proof.
    intros Hw Hp Hcb Hcs. unfold mpi_plain_run. destruct (base_gen c) as [g|code]; cbn [bind]; [|reflexivity].
    pose proof (lockstep_run_intro world perm sub_calls_plain (N.of_nat d) (plain_li d) (fun r => r) (fun _ => [])
                  (fun _ pl _ => pl) base_add cb noref triv cs c g tt Hw sub_plain_ok (plain_cost d) noref_ok
                  (plain_template d) Hp Hcb Hcs I idx) as H.
    eapply lockstep_run_weaken; [apply plain_loop_ub|exact H].
  Qed.

  (** *** VEGAS *)
  Definition vegas_li : pdf K -> N -> N -> N -> res (vegasres K * N * N * list (event K)) :=
    fun p calls g i => vegas_iteration strm ps f p calls g i.
  Definition vegas_ref : vchk K -> pdf K -> vegasres K -> res (pdf K) :=
    fun c p r => refine_pdf L p (vc_alpha c) (v_adj r).
  Definition dims_inv (dims : N) (p : pdf K) : Prop := pdf_dims p = dims.

  Lemma vegas_cost dims : cost_ok dims vegas_li (dims_inv dims).
  Proof. intros a n g i r g' i' e Ha H. apply vegas_iteration_draws in H as [-> _]. rewrite Ha. lia. Qed.
  Lemma vegas_template dims : template_ok vegas_li (@v_plain K) (@v_adj K) (dims_inv dims).
  Proof.
    intros a _ n g i n' g' i' [[[r1 g1] i1] e1] [[[r2 g2] i2] e2] H1 H2. unfold shape_of. cbn [fst].
    destruct (vegas_iteration_shape _ _ _ _ _ _ _ _ _ _ _ H1) as [-> ->].
    destruct (vegas_iteration_shape _ _ _ _ _ _ _ _ _ _ _ H2) as [-> ->]. reflexivity.
  Qed.
  Lemma vegas_refine_ok dims : refine_ok vegas_ref (dims_inv dims).
  Proof. intros c a r a' Ha H. apply refine_pdf_dims in H as [E _]. unfold dims_inv in *. congruence. Qed.

  Definition vegas_ub (code : nat) : Prop :=
    (exists p n g i, vegas_iteration strm ps f p n g i = UB code) \/ (exists p alpha data, refine_pdf L p alpha data = UB code).

  Lemma vegas_loop_ub dims code :
    loop_ub world sub_calls_vegas dims vegas_li vegas_ref (dims_inv dims) code -> vegas_ub code.
  Proof.
    intros (calls & sts & a & _ & _ & _ & [(r & st & _ & H)|(c' & res0 & H)]).
    - left. unfold local_part in H. unfold vegas_li in H at 1.
      destruct (vegas_iteration strm ps f _ _ _ _) as [[[[lr g2] i2] e2]|c0] eqn:E; cbn [bind] in H; [discriminate|].
      injection H as <-. eexists _, _, _, _. exact E.
    - right. eexists _, _, _. exact H.
  Qed.

  Definition vegas_itrun (dims : N) (cb : N -> vchk K -> bool) (g : N) (cs : list N) : nat -> list (rank_log (vchk K)) -> Prop :=
    iteration_run (vchk K) (pdf K) (vegasres K) world perm sub_calls_vegas dims vegas_li (@v_plain K) (@v_adj K)
      (fun p pl ex => mk_vegasres pl p ex) vchk_add cb vegas_ref (dims_inv dims) g cs.

  Lemma c04_vegas_lockstep d cb cs (c : vchk K) idx :
    world_ok world -> perm_ok world perm -> cb_rank_independent cb -> Forall (fun calls => (calls < 2 ^ 64)%N) cs ->
    let c0 := vchk_dimensions c d in
    match base_gen (vc_base c0), vchk_pdf L c0 with
    | Ok g, Ok p => lockstep_run world (pdf_dims p) vchk_add vegas_ub (vegas_itrun (pdf_dims p) cb g cs) c0 g cs
                      (mpi_vegas_run L strm ps f world perm d cb cs c idx)
    | UB code, _ | Ok _, UB code => mpi_vegas_run L strm ps f world perm d cb cs c idx = UB code
    end.
  Proof.
    intros Hw Hp Hcb Hcs. cbv zeta. unfold mpi_vegas_run.
    destruct (base_gen (vc_base (vchk_dimensions c d))) as [g|code]; cbn [bind]; [|reflexivity].
    destruct (vchk_pdf L (vchk_dimensions c d)) as [p|code]; cbn [bind]; [|reflexivity].
    pose proof (lockstep_run_intro world perm sub_calls_vegas (pdf_dims p) vegas_li (@v_plain K) (@v_adj K)
                  (fun p pl ex => mk_vegasres pl p ex) vchk_add cb vegas_ref (dims_inv (pdf_dims p)) cs (vchk_dimensions c d) g p
                  Hw sub_vegas_ok (vegas_cost _) (vegas_refine_ok _) (vegas_template _) Hp Hcb Hcs eq_refl idx) as H.
    eapply lockstep_run_weaken; [apply vegas_loop_ub|exact H].
  Qed.

  (** *** multi-channel *)
  Variable mp : mcmap K.
  Definition mc_li (d : nat) : list K -> N -> N -> N -> res (mcres_mc K * N * N * list (event K)) :=
    fun ws calls g i => mc_iteration strm ps f mp d ws calls g i.
  Definition mc_ref : mchk K -> list K -> mcres_mc K -> res (list K) :=
    fun c ws r => refine_weights L ws (m_adj r) (mc_minw c) (mc_beta c).

  Lemma mc_cost d : cost_ok (N.of_nat d + 1) (mc_li d) triv.
  Proof. intros a n g i r g' i' e _ H. apply mc_iteration_draws in H as [-> _]. lia. Qed.
  Lemma mc_template d : template_ok (mc_li d) (@m_plain K) (@m_adj K) triv.
  Proof.
    intros a _ n g i n' g' i' [[[r1 g1] i1] e1] [[[r2 g2] i2] e2] H1 H2. unfold shape_of. cbn [fst].
    destruct (mc_iteration_shape _ _ _ _ _ _ _ _ _ _ _ _ _ H1) as [-> ->].
    destruct (mc_iteration_shape _ _ _ _ _ _ _ _ _ _ _ _ _ H2) as [-> ->]. reflexivity.
  Qed.
  Lemma mc_refine_ok : refine_ok mc_ref triv.
  Proof. intros c a r a' _ _. exact I. Qed.

  Definition mc_ub (d : nat) (code : nat) : Prop :=
    (exists ws n g i, mc_iteration strm ps f mp d ws n g i = UB code) \/
    (exists ws data minw beta, refine_weights L ws data minw beta = UB code).

  Lemma mc_loop_ub d code :
    loop_ub world sub_calls_multi_channel (N.of_nat d + 1) (mc_li d) mc_ref triv code -> mc_ub d code.
  Proof.
    intros (calls & sts & a & _ & _ & _ & [(r & st & _ & H)|(c' & res0 & H)]).
    - left. unfold local_part in H. unfold mc_li in H at 1.
      destruct (mc_iteration strm ps f mp d _ _ _ _) as [[[[lr g2] i2] e2]|c0] eqn:E; cbn [bind] in H; [discriminate|].
      injection H as <-. eexists _, _, _, _. exact E.
    - right. eexists _, _, _, _. exact H.
  Qed.

  Definition mc_itrun (d : nat) (cb : N -> mchk K -> bool) (g : N) (cs : list N) : nat -> list (rank_log (mchk K)) -> Prop :=
    iteration_run (mchk K) (list K) (mcres_mc K) world perm sub_calls_multi_channel (N.of_nat d + 1) (mc_li d) (@m_plain K) (@m_adj K)
      (fun ws pl ex => mk_mcres_mc pl ex ws) mchk_add cb mc_ref triv g cs.

  Lemma c04_mc_lockstep d channels cb cs (c : mchk K) idx :
    world_ok world -> perm_ok world perm -> cb_rank_independent cb -> Forall (fun calls => (calls < 2 ^ 64)%N) cs ->
    let c0 := mchk_channels c channels in
    match base_gen (mc_base c0), mchk_weights L c0 with
    | Ok g, Ok ws => lockstep_run world (N.of_nat d + 1) mchk_add (mc_ub d) (mc_itrun d cb g cs) c0 g cs
                       (mpi_mc_run L strm ps f world perm mp d channels cb cs c idx)
    | UB code, _ | Ok _, UB code => mpi_mc_run L strm ps f world perm mp d channels cb cs c idx = UB code
    end.
  Proof.
    intros Hw Hp Hcb Hcs. cbv zeta. unfold mpi_mc_run.
    destruct (base_gen (mc_base (mchk_channels c channels))) as [g|code]; cbn [bind]; [|reflexivity].
    destruct (mchk_weights L (mchk_channels c channels)) as [ws|code]; cbn [bind]; [|reflexivity].
    pose proof (lockstep_run_intro world perm sub_calls_multi_channel (N.of_nat d + 1) (mc_li d) (@m_plain K) (@m_adj K)
                  (fun ws pl ex => mk_mcres_mc pl ex ws) mchk_add cb mc_ref triv cs (mchk_channels c channels) g ws
                  Hw sub_mc_ok (mc_cost d) mc_refine_ok (mc_template d) Hp Hcb Hcs I idx) as H.
    eapply lockstep_run_weaken; [apply mc_loop_ub|exact H].
  Qed.
End Drivers.

(** ** C04_generator_position for the three drivers, and the generators stored in the checkpoints *)
Lemma c04_generator_position {K : Num} (L : Libm K) (strm : N -> K) ps f world calls r :
  world_ok world -> (calls < 2 ^ 64)%N -> (r < world)%N ->
  (forall C d (st : rank_state C unit) lr g3 idx' evs,
     local_part C unit (plainres K) world sub_calls_plain (N.of_nat d) (plain_li strm ps f d) calls r st = Ok (lr, g3, idx', evs) ->
     g3 = (rs_gen st + N.of_nat d * calls)%N) /\
  (forall C (st : rank_state C (pdf K)) lr g3 idx' evs,
     local_part C (pdf K) (vegasres K) world sub_calls_vegas (pdf_dims (rs_aux st)) (vegas_li strm ps f) calls r st = Ok (lr, g3, idx', evs) ->
     g3 = (rs_gen st + pdf_dims (rs_aux st) * calls)%N) /\
  (forall C mp d (st : rank_state C (list K)) lr g3 idx' evs,
     local_part C (list K) (mcres_mc K) world sub_calls_multi_channel (N.of_nat d + 1) (mc_li strm ps f mp d) calls r st = Ok (lr, g3, idx', evs) ->
     g3 = (rs_gen st + (N.of_nat d + 1) * calls)%N).
Proof.
  intros Hw Hc Hr. split; [|split].
  - intros C d st lr g3 idx' evs H.
    exact (proj1 (local_part_gen C unit (plainres K) world sub_calls_plain (N.of_nat d) (plain_li strm ps f d) triv
                    calls r st lr g3 idx' evs Hw sub_plain_ok (plain_cost strm ps f d) I Hc Hr H)).
  - intros C st lr g3 idx' evs H.
    exact (proj1 (local_part_gen C (pdf K) (vegasres K) world sub_calls_vegas _ (vegas_li strm ps f) (dims_inv (pdf_dims (rs_aux st)))
                    calls r st lr g3 idx' evs Hw sub_vegas_ok (vegas_cost strm ps f _) eq_refl Hc Hr H)).
  - intros C mp d st lr g3 idx' evs H.
    exact (proj1 (local_part_gen C (list K) (mcres_mc K) world sub_calls_multi_channel _ (mc_li strm ps f mp d) triv
                    calls r st lr g3 idx' evs Hw sub_mc_ok (mc_cost strm ps f mp d) I Hc Hr H)).
Qed.

(* every rank's checkpoint after iteration i stores the generator the serial run stores (Lemmas_C10) *)
Lemma iteration_ok_stored {K : Num} {C R : Type} (gen_of : C -> res N) world usage (addc : C -> R -> N -> C) g cs i
    (ls : list (@rank_log K C)) :
  (forall c r g, gen_of (addc c r g) = Ok g) -> iteration_ok world usage addc g cs i ls ->
  forall l, In l ls -> gen_of (rl_chk l) = Ok (g + sumN (firstn (Datatypes.S i) cs) * usage)%N.
Proof.
  intros Hg [_ (cp & res0 & go & nT & nN & H)] l Hl. rewrite Forall_forall in H. destruct (H l Hl) as (E & _).
  rewrite E, Hg. f_equal. lia.
Qed.

Lemma c04_plain_stored {K : Num} (strm : N -> K) ps f world perm d cb cs (c : pchk K) idx g sts' logs :
  world_ok world -> perm_ok world perm -> cb_rank_independent cb -> Forall (fun calls => (calls < 2 ^ 64)%N) cs ->
  base_gen c = Ok g -> mpi_plain_run strm ps f world perm d cb cs c idx = Ok (sts', logs) ->
  (forall i ls l, nth_error logs i = Some ls -> In l ls ->
     base_gen (rl_chk l) = Ok (g + sumN (firstn (Datatypes.S i) cs) * N.of_nat d)%N) /\
  (forall st, In st sts' -> rs_gen st = (g + sumN (firstn (length logs) cs) * N.of_nat d)%N /\ base_gen (rs_chk st) = Ok (rs_gen st)).
Proof.
  intros Hw Hp Hcb Hcs Hg Hrun. pose proof (c04_plain_lockstep strm ps f world perm d cb cs c idx Hw Hp Hcb Hcs) as H.
  rewrite Hg, Hrun in H. destruct H as (_ & _ & _ & (c' & a' & Hag & Hnil & Hlast) & Hits). split.
  - intros i ls l Hn Hl. eapply iteration_ok_stored; [intros; apply base_gen_add|apply (Hits _ _ Hn)|exact Hl].
  - intros st Hst. unfold agree in Hag. rewrite Forall_forall in Hag. destruct (Hag st Hst) as (E1 & E2 & _).
    split; [etransitivity; [exact E2|f_equal; apply N.mul_comm]|].
    replace (base_gen (rs_chk st)) with (base_gen c') by (f_equal; symmetry; exact E1).
    replace (rs_gen st) with (g + N.of_nat d * sumN (firstn (length logs) cs))%N by (symmetry; exact E2).
    destruct logs as [|l0 logs0] eqn:El.
    + rewrite (Hnil eq_refl). cbn. rewrite N.mul_0_r, N.add_0_r. exact Hg.
    + rewrite <- El in *. assert (Hne : logs <> []) by (rewrite El; discriminate).
      destruct (exists_last Hne) as (pre & ls & Epre).
      assert (Hn : nth_error logs (length pre) = Some ls) by (rewrite Epre, nth_error_app2, Nat.sub_diag by lia; reflexivity).
      destruct (Hlast Hne) as (go & nT & nN & Hla). rewrite Epre, last_last in Hla.
      destruct (Hits _ _ Hn) as [[Hlen _] _].
      destruct ls as [|l ls']; [cbn in Hlen; destruct Hw; lia|].
      pose proof (Forall_inv Hla) as (E & _). cbv beta in E. rewrite <- E.
      rewrite (iteration_ok_stored base_gen world (N.of_nat d) base_add g cs (length pre) (l :: ls'));
        [|intros; apply base_gen_add|apply (Hits _ _ Hn)|left; reflexivity].
      f_equal. rewrite Epre, app_length. cbn [length]. rewrite Nat.add_1_r. lia.
Qed.

(** ** C04_positions_tile: the ranks' shares are the consecutive blocks of the global call indices *)
Lemma iotaN_app : forall n m s, iotaN s (n + m) = iotaN s n ++ iotaN (s + N.of_nat n) m.
Proof.
  induction n as [|n IH]; intros m s.
  - cbn [Nat.add iotaN app N.of_nat]. rewrite N.add_0_r. reflexivity.
  - cbn [Nat.add iotaN app]. rewrite IH. f_equal. f_equal. f_equal. lia.
Qed.

Lemma iotaN_snoc n s : iotaN s (Datatypes.S n) = iotaN s n ++ [(s + N.of_nat n)%N].
Proof. replace (Datatypes.S n) with (n + 1)%nat by lia. rewrite iotaN_app. reflexivity. Qed.

Lemma iotaN_len : forall n s, length (iotaN s n) = n.
Proof. induction n as [|n IH]; intros s; cbn; auto. Qed.

Lemma iotaN_shift {A} (F : N -> A) b : forall n s, map (fun k => F (b + k)%N) (iotaN s n) = map F (iotaN (b + s) n).
Proof.
  induction n as [|n IH]; intros s; [reflexivity|]. cbn [iotaN map]. rewrite IH. f_equal. f_equal. f_equal. lia.
Qed.

Lemma flat_map_iotaN_shift {A} (F : N -> list A) b n : flat_map (fun k => F (b + k)%N) (iotaN 0 n) = flat_map F (iotaN b n).
Proof. rewrite !flat_map_concat_map. rewrite (iotaN_shift F b n 0), N.add_0_r. reflexivity. Qed.

Lemma map_by_index {A B} (h : A -> B) (G : N -> B) : forall (l : list A) s,
  (forall k x, nth_error l k = Some x -> h x = G (s + N.of_nat k)%N) -> map h l = map G (iotaN s (length l)).
Proof.
  induction l as [|a l IH]; intros s H; [reflexivity|]. cbn [length iotaN map].
  rewrite (H O a eq_refl), N.add_0_r. f_equal. apply IH. intros k x Hk.
  replace (s + 1 + N.of_nat k)%N with (s + N.of_nat (Datatypes.S k))%N by lia. apply H. exact Hk.
Qed.

Lemma concat_flat_map {A B C} (F : B -> list C) (T : A -> list B) (l : list A) :
  concat (map (fun k => flat_map F (T k)) l) = flat_map F (concat (map T l)).
Proof. induction l as [|a l IH]; [reflexivity|]. cbn [map concat]. rewrite flat_map_app, IH. reflexivity. Qed.

Section Tile.
  Variable world : N.
  Variable sub_calls : Z -> Z -> Z -> Z.
  Hypothesis Hw : world_ok world.
  Hypothesis Hs : sub_calls_ok sub_calls.

  (* the block of global call indices rank r evaluates *)
  Definition rank_block (calls r : N) : list N := iotaN (rk_before world calls r) (N.to_nat (rk_sub world sub_calls calls r)).

  Lemma tile_prefix calls : (calls < 2 ^ 64)%N -> forall n, (n <= N.to_nat world)%nat ->
    concat (map (rank_block calls) (iotaN 0 n)) =
    iotaN 0 (N.to_nat (if (N.of_nat n <? world)%N then rk_before world calls (N.of_nat n) else calls)).
  Proof.
    intros Hc. induction n as [|n IH]; intros Hn.
    - cbn [iotaN map concat N.of_nat]. destruct Hw as [Hw1 _].
      destruct (N.ltb_spec 0 world); [|lia]. rewrite (rk_before_0 world sub_calls calls Hw Hs Hc). reflexivity.
    - rewrite iotaN_snoc, map_app, concat_app, IH by lia. cbn [map concat]. rewrite app_nil_r, N.add_0_l.
      assert (Hr : (N.of_nat n < world)%N) by lia.
      destruct (N.ltb_spec (N.of_nat n) world) as [_|]; [|lia].
      pose proof (rk_before_succ world sub_calls calls (N.of_nat n) Hw Hs Hc Hr) as E.
      replace (N.of_nat (Datatypes.S n)) with (N.of_nat n + 1)%N by lia. rewrite <- E.
      unfold rank_block. rewrite N2Nat.inj_add, iotaN_app, N2Nat.id, N.add_0_l. reflexivity.
  Qed.

  Lemma positions_tile calls : (calls < 2 ^ 64)%N ->
    concat (map (rank_block calls) (iotaN 0 (N.to_nat world))) = iotaN 0 (N.to_nat calls).
  Proof.
    intros Hc. rewrite tile_prefix by (auto; lia). rewrite N2Nat.id. rewrite N.ltb_irrefl. reflexivity.
  Qed.
End Tile.

(** ** C04_points: what the ranks evaluate, in rank order, is what the serial iteration evaluates *)
Section Points.
  Context {K : Num}.
  Variables (C S R : Type).
  Variable world : N.
  Variable perm : list N.
  Variable sub_calls : Z -> Z -> Z -> Z.
  Variable usage : N.
  Variable local_iter : S -> N -> N -> N -> res (R * N * N * list (event K)).
  Variable plain_of : R -> plainres K.
  Variable extra_of : R -> list K.
  Variable rebuild : S -> plainres K -> list K -> R.
  Variable addc : C -> R -> N -> C.
  Variable cb : N -> C -> bool.
  Variable refine : C -> S -> R -> res S.
  Variable Inv : S -> Prop.

  (** a view [view] of the events is positional if what an iteration shows of call k is a function [at_]
      of the adaptive state and of the stream position of that call only *)
  Variable V : Type.
  Variable view : event K -> list V.
  Variable at_ : S -> N -> list V.
  Definition positional : Prop := forall a n g i r g' i' evs,
    Inv a -> local_iter a n g i = Ok (r, g', i', evs) ->
    flat_map view evs = flat_map (fun k => at_ a (g + usage * k)%N) (iotaN 0 (N.to_nat n)).

  Lemma points_tile calls sts c g a sts' logs go :
    world_ok world -> sub_calls_ok sub_calls -> cost_ok usage local_iter Inv -> same_template local_iter plain_of extra_of a ->
    perm_ok world perm -> cb_rank_independent cb -> positional ->
    (calls < 2 ^ 64)%N -> length sts = N.to_nat world -> agree c g a sts -> Inv a ->
    mpi_iteration C S R world perm sub_calls usage local_iter plain_of extra_of rebuild addc cb refine calls sts = Ok (sts', logs, go) ->
    (* rank r shows the calls of its block of global indices ... *)
    map (fun l => flat_map view (rl_events l)) logs =
      map (fun r => flat_map (fun k => at_ a (g + usage * k)%N) (rank_block world sub_calls calls r)) (iotaN 0 (N.to_nat world)) /\
    (* ... and together, in rank order, the ranks show exactly the calls 0 .. calls-1 ... *)
    concat (map (fun l => flat_map view (rl_events l)) logs) = flat_map (fun k => at_ a (g + usage * k)%N) (iotaN 0 (N.to_nat calls)) /\
    (* ... which is what the serial iteration from the same generator and state shows *)
    (forall i r g' i' evs, local_iter a calls g i = Ok (r, g', i', evs) ->
       concat (map (fun l => flat_map view (rl_events l)) logs) = flat_map view evs).
  Proof.
    intros Hw Hs Hcost Htm Hp Hcb Hpos Hc Hlen Hag HI Hrun.
    destruct (mapM_idx (local_part C S R world sub_calls usage local_iter calls) 0 sts) as [locals|code] eqn:Hm.
    2:{ unfold mpi_iteration in Hrun. rewrite Hm in Hrun. discriminate. }
    destruct (mpi_iteration_eq C S R world perm sub_calls usage local_iter plain_of extra_of rebuild addc cb refine Inv
                calls sts c g a locals Hw Hs Hcost Hc Hlen Hag HI Htm Hp Hcb Hm) as (tbuf & nbuf & pl & ex & _ & _ & _ & E).
    cbv zeta in E. rewrite E in Hrun. clear E. apply bind_Ok in Hrun as (aux' & _ & Hrun). injection Hrun as _ <- _.
    destruct (locals_facts C S R world sub_calls usage local_iter Inv calls sts c g a locals Hw Hs Hcost Hc Hlen Hag HI Hm) as [Ll Lf].
    assert (E1 : map (fun l => flat_map view (rl_events l))
                   (map (fun x => mk_rank_log (evs_of x) (addc c (rebuild a pl ex) (g + usage * calls)%N)
                                   (cb 0%N (addc c (rebuild a pl ex) (g + usage * calls)%N))
                                   [(length tbuf, 0%nat); (length nbuf, 1%nat)]) locals)
                 = map (fun r => flat_map (fun k => at_ a (g + usage * k)%N) (rank_block world sub_calls calls r)) (iotaN 0 (N.to_nat world))).
    { rewrite map_map. cbn [rl_events]. rewrite <- Ll. apply map_by_index. intros k x Hk. rewrite N.add_0_l.
      destruct (Lf k x Hk) as (st & _ & _ & _ & Hl). apply (Hpos _ _ _ _ _ _ _ _ HI) in Hl. rewrite Hl.
      unfold rank_block. rewrite <- (flat_map_iotaN_shift (fun k0 => at_ a (g + usage * k0)%N)).
      apply flat_map_ext. intros j. f_equal. rewrite N.mul_add_distr_l. lia. }
    split; [exact E1|].
    assert (E2 : concat (map (fun l => flat_map view (rl_events l))
                   (map (fun x => mk_rank_log (evs_of x) (addc c (rebuild a pl ex) (g + usage * calls)%N)
                                   (cb 0%N (addc c (rebuild a pl ex) (g + usage * calls)%N))
                                   [(length tbuf, 0%nat); (length nbuf, 1%nat)]) locals))
                 = flat_map (fun k => at_ a (g + usage * k)%N) (iotaN 0 (N.to_nat calls))).
    { rewrite E1. rewrite (concat_flat_map (fun k => at_ a (g + usage * k)%N) (rank_block world sub_calls calls)).
      rewrite (positions_tile world sub_calls Hw Hs calls Hc). reflexivity. }
    split; [exact E2|]. intros i r g' i' evs Hser. rewrite E2. symmetry. exact (Hpos _ _ _ _ _ _ _ _ HI Hser).
  Qed.
End Points.

Lemma flat_map_nil_all {A B} (h : A -> list B) (l : list A) : (forall x, In x l -> h x = []) -> flat_map h l = [].
Proof. induction l as [|a l IH]; intros H; [reflexivity|]. cbn [flat_map]. rewrite (H a (or_introl eq_refl)), IH; [reflexivity|]. intros x Hx. apply H. right. exact Hx. Qed.

Section Positional.
  Context {K : Num}.
  Variable strm : N -> K.
  Variable ps : list (dparams K).
  Variable f : integrand K.

  Lemma loop_positional {V} (step : itst K -> res (itst K)) (cost : N) (view : event K -> list V) (at_ : N -> list V) :
    (forall s s', step s = Ok s' ->
       it_g s' = (it_g s + cost)%N /\ exists new, it_tr s' = new ++ it_tr s /\ flat_map view (rev new) = at_ (it_g s)) ->
    forall n s0 s, iter_loop step n s0 = Ok s -> it_tr s0 = [] ->
      flat_map view (rev (it_tr s)) = flat_map (fun k => at_ (it_g s0 + cost * k)%N) (iotaN 0 (N.to_nat n)).
  Proof.
    intros Hs n s0 s H H0. revert n s H.
    apply (iter_loop_ind step (fun k s => it_g s = (it_g s0 + cost * k)%N /\
      flat_map view (rev (it_tr s)) = flat_map (fun k => at_ (it_g s0 + cost * k)%N) (iotaN 0 (N.to_nat k)))).
    - rewrite H0. cbn. split; [lia|reflexivity].
    - intros k s s' [I1 I2] Hst. apply Hs in Hst as (G & new & T & Vw). split; [rewrite G, I1; lia|].
      rewrite T, rev_app_distr, flat_map_app, I2, Vw, N2Nat.inj_succ, iotaN_snoc, flat_map_app. cbn [flat_map].
      rewrite app_nil_r, N.add_0_l, N2Nat.id, I1. reflexivity.
  Qed.

  (** PLAIN: everything the integrand sees except its own call counter *)
  Definition obs_noidx (o : obs K) : obs K := mk_obs 0 (o_point o) (o_weight o) (o_bins o) (o_channel o) (o_coords o).
  Definition view_obs (e : event K) : list (obs K) := match e with EvIntegrand o _ => [obs_noidx o] | _ => [] end.
  Definition plain_at (d : nat) (pos : N) : list (obs K) := [mk_obs 0 (draws strm pos d) (one K) [] 0 []].

  Lemma plain_positional d calls g idx r g' idx' evs :
    plain_iteration strm ps f d calls g idx = Ok (r, g', idx', evs) ->
    flat_map view_obs evs = flat_map (fun k => plain_at d (g + N.of_nat d * k)%N) (iotaN 0 (N.to_nat calls)).
  Proof.
    unfold plain_iteration. intros H. apply bind_Ok in H as (s & Hl & H). injection H as _ _ _ <-.
    apply (loop_positional (plain_step strm ps f d) (N.of_nat d) view_obs (plain_at d)) in Hl; [exact Hl| |reflexivity].
    intros s1 s2 Hst. unfold plain_step in Hst. apply bind_Ok in Hst as ([a v] & _ & Hst). injection Hst as <-. cbn [it_g it_tr].
    split; [reflexivity|]. eexists [_]. split; [reflexivity|]. reflexivity.
  Qed.

  (** VEGAS: point, bins and weight are the inverse CDF of the shared grid at the call's numbers *)
  Definition view_vegas (e : event K) : list (res (list K * list N * K)) :=
    match e with EvIntegrand o _ => [Ok (o_point o, o_bins o, o_weight o)] | _ => [] end.
  Definition vegas_at (p : pdf K) (pos : N) : list (res (list K * list N * K)) :=
    [icdf p (draws strm pos (N.to_nat (pdf_dims p)))].

  Lemma vegas_positional p calls g idx r g' idx' evs :
    vegas_iteration strm ps f p calls g idx = Ok (r, g', idx', evs) ->
    flat_map view_vegas evs = flat_map (fun k => vegas_at p (g + pdf_dims p * k)%N) (iotaN 0 (N.to_nat calls)).
  Proof.
    unfold vegas_iteration. intros H. apply bind_Ok in H as (s & Hl & H). injection H as _ _ _ <-.
    apply (loop_positional (vegas_step strm ps f p) (pdf_dims p) view_vegas (vegas_at p)) in Hl; [exact Hl| |reflexivity].
    intros s1 s2 Hst. unfold vegas_step in Hst. apply bind_Ok in Hst as ([[xs bs] w] & Hi & Hst).
    apply bind_Ok in Hst as ([a v] & _ & Hst). apply bind_Ok in Hst as (adj & _ & Hst). injection Hst as <-. cbn [it_g it_tr].
    split; [rewrite N2Nat.id; reflexivity|]. eexists [_]. split; [reflexivity|]. cbn. unfold vegas_at. rewrite Hi. reflexivity.
  Qed.

  (** multi-channel: the random numbers handed to the map and the selected channel are functions of the
      stream and the shared weights *)
  Variable mp : mcmap K.
  Definition view_mc (e : event K) : list (list K * N) :=
    match e with EvIntegrand o _ => [(o_point o, o_channel o)] | _ => [] end.
  Definition mc_at (d : nat) (ws : list K) (pos : N) : list (list K * N) :=
    [(draws strm pos d, upper_bound (cumulative ws) (strm (pos + N.of_nat d)%N))].

  Lemma mc_positional d ws calls g idx r g' idx' evs :
    mc_iteration strm ps f mp d ws calls g idx = Ok (r, g', idx', evs) ->
    flat_map view_mc evs = flat_map (fun k => mc_at d ws (g + (N.of_nat d + 1) * k)%N) (iotaN 0 (N.to_nat calls)).
  Proof.
    unfold mc_iteration. intros H. apply bind_Ok in H as (s & Hl & H). injection H as _ _ _ <-.
    apply (loop_positional (mc_step strm ps f mp d ws (cumulative ws) (enabled ws)) (N.of_nat d + 1) view_mc (mc_at d ws)) in Hl;
      [exact Hl| |reflexivity].
    intros s1 s2 Hst. unfold mc_step in Hst. destruct (m_dens mp _ _ _ _ _) as [jac dens].
    apply bind_Ok in Hst as (w & _ & Hst). apply bind_Ok in Hst as ([a v] & _ & Hst).
    apply bind_Ok in Hst as (adj & _ & Hst). injection Hst as <-. cbn [it_g it_tr].
    split; [lia|]. eexists (repeat _ _ ++ [_; _]). split; [rewrite <- app_assoc; reflexivity|].
    rewrite rev_app_distr. cbn [rev app flat_map view_mc o_point o_channel].
    replace (flat_map view_mc (rev (repeat _ _))) with (@nil (list K * N)); [reflexivity|].
    symmetry. apply flat_map_nil_all. intros e He. apply in_rev in He. apply repeat_spec in He. subst e. reflexivity.
  Qed.
End Positional.

Section RunPoints.
  Context {K : Num}.
  Variables (C S R : Type).
  Variable world : N.
  Variable perm : list N.
  Variable sub_calls : Z -> Z -> Z -> Z.
  Variable usage : N.
  Variable local_iter : S -> N -> N -> N -> res (R * N * N * list (event K)).
  Variable plain_of : R -> plainres K.
  Variable extra_of : R -> list K.
  Variable rebuild : S -> plainres K -> list K -> R.
  Variable addc : C -> R -> N -> C.
  Variable cb : N -> C -> bool.
  Variable refine : C -> S -> R -> res S.
  Variable Inv : S -> Prop.
  Variable V : Type.
  Variable view : event K -> list V.
  Variable at_ : S -> N -> list V.

  (* iteration i of a run, seen through a positional view: the ranks hold a common adaptive state [a], rank r
     shows its block, all ranks together (in rank order) show the calls 0..calls-1 of the serial iteration
     started at gi = g + usage * (calls of the earlier iterations) *)
  Definition tiles (g : N) (cs : list N) (i : nat) (ls : list (@rank_log K C)) : Prop :=
    exists calls a, nth_error cs i = Some calls /\ Inv a /\
      let gi := (g + usage * sumN (firstn i cs))%N in
      let shown := map (fun l => flat_map view (rl_events l)) ls in
      shown = map (fun r => flat_map (fun k => at_ a (gi + usage * k)%N) (rank_block world sub_calls calls r)) (iotaN 0 (N.to_nat world)) /\
      concat shown = flat_map (fun k => at_ a (gi + usage * k)%N) (iotaN 0 (N.to_nat calls)) /\
      (forall idx0 r g' idx' evs, local_iter a calls gi idx0 = Ok (r, g', idx', evs) -> concat shown = flat_map view evs).

  Lemma iteration_run_tiles g cs i ls :
    world_ok world -> sub_calls_ok sub_calls -> cost_ok usage local_iter Inv -> template_ok local_iter plain_of extra_of Inv ->
    perm_ok world perm -> cb_rank_independent cb -> positional S R usage local_iter Inv V view at_ ->
    Forall (fun calls => (calls < 2 ^ 64)%N) cs ->
    iteration_run C S R world perm sub_calls usage local_iter plain_of extra_of rebuild addc cb refine Inv g cs i ls ->
    tiles g cs i ls.
  Proof.
    intros Hw Hs Hcost Htm Hp Hcb Hpos Hcs (calls & sts & c & a & sts' & go & Hn & Hlen & Hag & HI & Hrun).
    assert (Hc : (calls < 2 ^ 64)%N).
    { rewrite Forall_forall in Hcs. apply Hcs. eapply nth_error_In. exact Hn. }
    exists calls, a. split; [exact Hn|]. split; [exact HI|]. cbv zeta.
    exact (points_tile C S R world perm sub_calls usage local_iter plain_of extra_of rebuild addc cb refine Inv V view at_
             calls sts c _ a sts' ls go Hw Hs Hcost (Htm a HI) Hp Hcb Hpos Hc Hlen Hag HI Hrun).
  Qed.
End RunPoints.
Arguments tiles {K C S R}.

Section DriverPoints.
  Context {K : Num}.
  Context (L : Libm K).
  Variable strm : N -> K.
  Variable ps : list (dparams K).
  Variable f : integrand K.
  Variable world : N.
  Variable perm : list N.

  Lemma plain_li_positional d :
    positional unit (plainres K) (N.of_nat d) (plain_li strm ps f d) triv (obs K) view_obs (fun _ pos => plain_at strm d pos).
  Proof. intros a n g i r g' i' evs _ H. exact (plain_positional strm ps f d n g i r g' i' evs H). Qed.
  Lemma vegas_li_positional dims :
    positional (pdf K) (vegasres K) dims (vegas_li strm ps f) (dims_inv dims) _ view_vegas (fun p pos => vegas_at strm p pos).
  Proof. intros a n g i r g' i' evs Ha H. rewrite <- Ha. exact (vegas_positional strm ps f a n g i r g' i' evs H). Qed.
  Lemma mc_li_positional mp d :
    positional (list K) (mcres_mc K) (N.of_nat d + 1) (mc_li strm ps f mp d) triv _ view_mc (fun ws pos => mc_at strm d ws pos).
  Proof. intros a n g i r g' i' evs _ H. exact (mc_positional strm ps f mp d a n g i r g' i' evs H). Qed.

  (* PLAIN: every performed iteration of an MPI run shows, rank after rank, the observations (call counter
     erased) of the serial iteration on the same calls from the serial generator position *)
  Lemma c04_points_plain d cb cs (c : pchk K) idx g sts' logs :
    world_ok world -> perm_ok world perm -> cb_rank_independent cb -> Forall (fun calls => (calls < 2 ^ 64)%N) cs ->
    base_gen c = Ok g -> mpi_plain_run strm ps f world perm d cb cs c idx = Ok (sts', logs) ->
    forall i ls, nth_error logs i = Some ls ->
      tiles world sub_calls_plain (N.of_nat d) (plain_li strm ps f d) triv (obs K) view_obs (fun _ pos => plain_at strm d pos) g cs i ls.
  Proof.
    intros Hw Hp Hcb Hcs Hg Hrun i ls Hn.
    pose proof (c04_plain_lockstep strm ps f world perm d cb cs c idx Hw Hp Hcb Hcs) as H. rewrite Hg, Hrun in H.
    destruct H as (_ & _ & _ & _ & Hits). destruct (Hits i ls Hn) as [_ Hr].
    exact (iteration_run_tiles _ _ _ world perm sub_calls_plain _ _ _ _ _ _ cb _ triv _ view_obs _ g cs i ls Hw sub_plain_ok
             (plain_cost strm ps f d) (plain_template strm ps f d) Hp Hcb (plain_li_positional d) Hcs Hr).
  Qed.

  (* VEGAS: (point, bins, weight) of every call; [a] in [tiles] is the grid the ranks share in that iteration *)
  Lemma c04_points_vegas d cb cs (c : vchk K) idx g p sts' logs :
    world_ok world -> perm_ok world perm -> cb_rank_independent cb -> Forall (fun calls => (calls < 2 ^ 64)%N) cs ->
    base_gen (vc_base (vchk_dimensions c d)) = Ok g -> vchk_pdf L (vchk_dimensions c d) = Ok p ->
    mpi_vegas_run L strm ps f world perm d cb cs c idx = Ok (sts', logs) ->
    forall i ls, nth_error logs i = Some ls ->
      tiles world sub_calls_vegas (pdf_dims p) (vegas_li strm ps f) (dims_inv (pdf_dims p)) _ view_vegas
        (fun p pos => vegas_at strm p pos) g cs i ls.
  Proof.
    intros Hw Hp Hcb Hcs Hg Hpdf Hrun i ls Hn.
    pose proof (c04_vegas_lockstep L strm ps f world perm d cb cs c idx Hw Hp Hcb Hcs) as H. cbv zeta in H.
    rewrite Hg, Hpdf, Hrun in H.
    destruct H as (_ & _ & _ & _ & Hits). destruct (Hits i ls Hn) as [_ Hr].
    exact (iteration_run_tiles _ _ _ world perm sub_calls_vegas _ _ _ _ _ _ cb _ (dims_inv (pdf_dims p)) _ view_vegas _ g cs i ls Hw sub_vegas_ok
             (vegas_cost strm ps f _) (vegas_template strm ps f _) Hp Hcb (vegas_li_positional _) Hcs Hr).
  Qed.

  (* multi-channel: the random numbers of every call and the selected channel; [a] is the shared weight vector *)
  Lemma c04_points_mc mp d channels cb cs (c : mchk K) idx g ws sts' logs :
    world_ok world -> perm_ok world perm -> cb_rank_independent cb -> Forall (fun calls => (calls < 2 ^ 64)%N) cs ->
    base_gen (mc_base (mchk_channels c channels)) = Ok g -> mchk_weights L (mchk_channels c channels) = Ok ws ->
    mpi_mc_run L strm ps f world perm mp d channels cb cs c idx = Ok (sts', logs) ->
    forall i ls, nth_error logs i = Some ls ->
      tiles world sub_calls_multi_channel (N.of_nat d + 1) (mc_li strm ps f mp d) triv _ view_mc
        (fun ws pos => mc_at strm d ws pos) g cs i ls.
  Proof.
    intros Hw Hp Hcb Hcs Hg Hws Hrun i ls Hn.
    pose proof (c04_mc_lockstep L strm ps f world perm mp d channels cb cs c idx Hw Hp Hcb Hcs) as H. cbv zeta in H.
    rewrite Hg, Hws, Hrun in H.
    destruct H as (_ & _ & _ & _ & Hits). destruct (Hits i ls Hn) as [_ Hr].
    exact (iteration_run_tiles _ _ _ world perm sub_calls_multi_channel _ _ _ _ _ _ cb _ triv _ view_mc _ g cs i ls Hw sub_mc_ok
             (mc_cost strm ps f mp d) (mc_template strm ps f mp d) Hp Hcb (mc_li_positional mp d) Hcs Hr).
  Qed.
End DriverPoints.

(** ** non-vacuity: a PLAIN run on 3 ranks with calls [4; 1] (calls not divisible by, and smaller than, the
    world size) in double precision, reduction order 2,0,1, compared with the serial run *)
From HepMC Require Import NumB.
Definition ex04_strm (n : N) : B64 := div B64 (ofN B64 (N.modulo (n * 7 + 3) 16)) (ofN B64 16).
Definition ex04_f : integrand B64 := fun o => mk_iret (add B64 (one B64) (hd (zero B64) (o_point o))) [] false.
Definition ex04_mpi := mpi_plain_run ex04_strm [] ex04_f 3 [2; 0; 1]%N 2 (fun _ _ => true) [4; 1]%N (base_init 0) 0.
Definition ex04_serial := plain_run ex04_strm [] ex04_f 2 (fun _ => true) [4; 1]%N (base_init 0) 0.

Definition outrep_eqb (a b : outrep) : bool :=
  match a, b with
  | ONan, ONan => true
  | OInf s, OInf s' => Bool.eqb s s'
  | OZero s, OZero s' => Bool.eqb s s'
  | OFin s m e, OFin s' m' e' => Bool.eqb s s' && Pos.eqb m m' && Z.eqb e e'
  | _, _ => false
  end.
Fixpoint list_eqb {A B} (eq : A -> B -> bool) (a : list A) (b : list B) : bool :=
  match a, b with
  | [], [] => true
  | x :: a', y :: b' => eq x y && list_eqb eq a' b'
  | _, _ => false
  end.
Definition res_eqb (a b : plainres B64) : bool :=
  N.eqb (r_calls (p_main a)) (r_calls (p_main b)) && N.eqb (r_nz (p_main a)) (r_nz (p_main b)) &&
  N.eqb (r_fin (p_main a)) (r_fin (p_main b)) &&
  outrep_eqb (Bout 53 1024 (r_sum (p_main a))) (Bout 53 1024 (r_sum (p_main b))) &&
  outrep_eqb (Bout 53 1024 (r_sumsq (p_main a))) (Bout 53 1024 (r_sumsq (p_main b))) &&
  Nat.eqb (length (p_dists a)) (length (p_dists b)).
Definition chk_eqb (a b : pchk B64) : bool :=
  list_eqb res_eqb (b_results a) (b_results b) && list_eqb N.eqb (b_gens a) (b_gens b).
Definition ex04_points (evs : list (event B64)) : list (list outrep) :=
  flat_map (fun e : event B64 => match e with EvIntegrand o _ => [map (Bout 53 1024) (o_point o : list B64)] | _ => [] end) evs.

(* all three ranks return the serial checkpoint (here even bit for bit: the values are dyadic), sit at the
   generator 0 + 5 * 2, performed both iterations, and their points concatenated in rank order are the
   serial points of each iteration; rank 2 evaluates nothing in the second iteration *)
Definition ex04_check : bool :=
  match ex04_mpi, ex04_serial with
  | Ok (sts, logs), Ok (cser, _, lser) =>
      Nat.eqb (length sts) 3 &&
      forallb (fun st => N.eqb (rs_gen st) 10 && chk_eqb (rs_chk st) cser) sts &&
      Nat.eqb (length (b_results cser)) 2 &&
      Nat.eqb (length logs) 2 &&
      list_eqb (fun ls l => list_eqb (list_eqb outrep_eqb)
                              (concat (map (fun rl => ex04_points (rl_events rl)) ls)) (ex04_points (il_events l)))
               logs lser &&
      list_eqb (list_eqb Nat.eqb) (map (map (fun rl => length (ex04_points (rl_events rl)))) logs) [[2; 1; 1]; [1; 0; 0]]%nat
  | _, _ => false
  end.
Lemma ex04_check_ok : ex04_check = true.
Proof. vm_compute. reflexivity. Qed.

Lemma ex04_hyps : world_ok 3 /\ perm_ok 3 [2; 0; 1]%N /\ cb_rank_independent (fun (_ : N) (_ : pchk B64) => true) /\
  Forall (fun calls => (calls < 2 ^ 64)%N) [4; 1]%N /\ Permutation [2; 0; 1]%N (iotaN 0 3).
Proof.
  split; [unfold world_ok; lia|]. split; [split; [discriminate|repeat constructor]|]. split; [intros r r' c; reflexivity|].
  split; [repeat constructor|]. change (iotaN 0 3) with [0; 1; 2]%N. apply (Permutation_cons_app [0%N; 1%N] [] 2%N). apply Permutation_refl.
Qed.

Lemma c04_example : ex04_check = true /\ world_ok 3 /\ perm_ok 3 [2; 0; 1]%N /\
  cb_rank_independent (fun (_ : N) (_ : pchk B64) => true) /\ Forall (fun calls => (calls < 2 ^ 64)%N) [4; 1]%N /\
  Permutation [2; 0; 1]%N (iotaN 0 3).
Proof. split; [exact ex04_check_ok|exact ex04_hyps]. Qed.

(** ** C04_counters / C04_sums: the reduction over a commutative monoid does not depend on the order *)
Lemma iotaN_In_bound : forall n s p, In p (iotaN s n) -> (s <= p < s + N.of_nat n)%N.
Proof.
  induction n as [|n IH]; intros s p H; [destruct H|]. cbn [iotaN] in H. destruct H as [<-|H]; [lia|].
  apply IH in H. lia.
Qed.

Section Monoid.
  Variable A : Type.
  Variable op : A -> A -> A.
  Variable e : A.
  Hypothesis assoc : forall a b c, op a (op b c) = op (op a b) c.
  Hypothesis comm : forall a b, op a b = op b a.
  Hypothesis idr : forall a, op a e = a.

  Definition msum (l : list A) : A := fold_right op e l.

  Lemma fold_left_msum : forall l a, fold_left op l a = op a (msum l).
  Proof.
    induction l as [|x l IH]; intros a; cbn [fold_left msum fold_right]; [rewrite idr; reflexivity|].
    rewrite IH. fold (msum l). rewrite assoc. reflexivity.
  Qed.

  Lemma msum_app l l' : msum (l ++ l') = op (msum l) (msum l').
  Proof.
    induction l as [|x l IH]; cbn [app msum fold_right]; [rewrite comm, idr; reflexivity|].
    fold (msum (l ++ l')). fold (msum l). rewrite IH, assoc. reflexivity.
  Qed.

  Lemma msum_perm l l' : Permutation l l' -> msum l = msum l'.
  Proof.
    unfold msum. induction 1 as [|x l l' _ IH|x y l|l l' l'' _ IH1 _ IH2]; cbn [fold_right] in *; [reflexivity|congruence| |congruence].
    rewrite !assoc, (comm y x). reflexivity.
  Qed.

  (* with ANY permutation of the ranks as summation order, entry k of the reduced buffer is the sum of the
     ranks' entries k (taken in rank order) *)
  Lemma allreduce_msum (d : A) perm contribs n :
    Permutation perm (iotaN 0 (length contribs)) -> contribs <> [] -> Forall (fun c => length c = n) contribs ->
    exists v, allreduce op perm contribs = Ok v /\ length v = n /\
      forall k, (k < n)%nat -> nth k v d = msum (map (fun c => nth k c d) contribs).
  Proof.
    intros Hperm Hne Hc.
    destruct perm as [|p0 rest].
    { apply Permutation_nil in Hperm. destruct contribs; [congruence|discriminate]. }
    destruct (allreduce_spec op d p0 rest contribs n) as (v & E1 & E2 & E3); [|exact Hc|].
    { apply Forall_forall. intros p Hp. apply (Permutation_in _ Hperm) in Hp. apply iotaN_In_bound in Hp. lia. }
    exists v. split; [exact E1|]. split; [exact E2|]. intros k Hk. rewrite (E3 k Hk), fold_left_msum.
    change (op (nth k (nth (N.to_nat p0) contribs []) d) (msum (map (fun p => nth k (nth (N.to_nat p) contribs []) d) rest)))
      with (msum (map (fun p => nth k (nth (N.to_nat p) contribs []) d) (p0 :: rest))).
    rewrite (msum_perm _ _ (Permutation_map _ Hperm)). f_equal. symmetry.
    apply (map_by_index (fun c => nth k c d) (fun p => nth k (nth (N.to_nat p) contribs []) d) contribs 0%N).
    intros j x Hj. rewrite N.add_0_l, Nat2N.id. rewrite (nth_error_nth _ _ _ Hj). reflexivity.
  Qed.
End Monoid.

Definition Nsum (l : list N) : N := msum N N.add 0%N l.
Definition Rsum (l : list R) : R := msum R Rplus 0%R l.

Lemma allreduce_N_sum perm (contribs : list (list N)) n :
  Permutation perm (iotaN 0 (length contribs)) -> contribs <> [] -> Forall (fun c => length c = n) contribs ->
  exists v, allreduce N.add perm contribs = Ok v /\ length v = n /\
    forall k, (k < n)%nat -> nth k v 0%N = Nsum (map (fun c => nth k c 0%N) contribs).
Proof. apply allreduce_msum; intros; lia. Qed.

Lemma allreduce_R_sum perm (contribs : list (list R)) n :
  Permutation perm (iotaN 0 (length contribs)) -> contribs <> [] -> Forall (fun c => length c = n) contribs ->
  exists v, allreduce (add NumR) perm contribs = Ok v /\ length v = n /\
    forall k, (k < n)%nat -> nth k v 0%R = Rsum (map (fun c => nth k c 0%R) contribs).
Proof. apply allreduce_msum; intros; cbn [add NumR]; lra. Qed.

Lemma perm_ok_of_permutation world perm : world_ok world -> Permutation perm (iotaN 0 (N.to_nat world)) -> perm_ok world perm.
Proof.
  intros [Hw _] Hp. split.
  - intros ->. apply Permutation_nil in Hp. destruct (N.to_nat world) eqn:E; [lia|discriminate].
  - apply Forall_forall. intros p Hin. apply (Permutation_in _ Hp) in Hin. apply iotaN_In_bound in Hin. lia.
Qed.

(** ** C04_sums_R: PLAIN over the reals - the reduced main result is the serial one *)
Lemma nth_skipn_add {A} (d : A) : forall n (l : list A) k, nth k (skipn n l) d = nth (n + k) l d.
Proof.
  induction n as [|n IH]; intros l k; [reflexivity|]. destruct l as [|x l]; [destruct k; reflexivity|]. cbn [skipn Nat.add nth]. apply IH.
Qed.

Lemma unpack_main {K : Num} (t : plainres K) el total tb nb pl ex : unpack t el total tb nb = Ok (pl, ex) ->
  p_main pl = mk_mcres total (nth 0 nb 0%N) (nth 1 nb 0%N) (nth el tb (zero K)) (nth (el + 1) tb (zero K)).
Proof.
  unfold unpack. intros H. pose proof (nth_skipn_add (zero K) el tb 0) as E0. pose proof (nth_skipn_add (zero K) el tb 1) as E1.
  destruct (skipn el tb) as [|s [|ss tb']]; try discriminate. destruct nb as [|nz [|fin nb']]; try discriminate.
  apply bind_Ok in H as (ds & _ & H). injection H as <- _. cbn [p_main nth] in *. rewrite Nat.add_0_r in E0. rewrite <- E0, <- E1. reflexivity.
Qed.

Lemma Rsum_app l l' : Rsum (l ++ l') = (Rsum l + Rsum l')%R.
Proof. unfold Rsum, msum. induction l as [|x l IH]; cbn [app fold_right]; [lra|]. rewrite IH. lra. Qed.
Lemma Rsum_one x : Rsum [x] = x.
Proof. unfold Rsum, msum. cbn [fold_right]. lra. Qed.
Lemma Rsum_concat_map {X} (h : X -> R) (ls : list (list X)) : Rsum (map h (concat ls)) = Rsum (map (fun l => Rsum (map h l)) ls).
Proof.
  induction ls as [|l ls IH]; [reflexivity|]. cbn [concat map]. rewrite map_app, Rsum_app, IH. reflexivity.
Qed.
Lemma Nsum_concat_count {X} (b : X -> bool) (ls : list (list X)) :
  N.of_nat (length (filter b (concat ls))) = Nsum (map (fun l => N.of_nat (length (filter b l))) ls).
Proof.
  induction ls as [|l ls IH]; [reflexivity|]. cbn [concat map]. rewrite filter_app, app_length, Nat2N.inj_add, IH. reflexivity.
Qed.

Section PlainR.
  Variable strm : N -> NumR.
  Variable ps : list (dparams NumR).
  Variable f : integrand NumR.
  (* each rank owns a copy of the integrand object: the statement needs an integrand whose answer does not
     depend on how many calls that copy has received *)
  Definition ignores_counter : Prop := forall o, f o = f (obs_noidx o).
  Hypothesis Hf : ignores_counter.

  Definition vw (o : obs NumR) : R := (i_val (f o) * o_weight o)%R.
  Definition nzb (o : obs NumR) : bool := negb (Reqb (i_val (f o)) 0).
  (* the main result as a function of the calls shown *)
  Definition main_of (calls : N) (os : list (obs NumR)) : mcres NumR :=
    mk_mcres (K:=NumR) calls (N.of_nat (length (filter nzb os))) (N.of_nat (length (filter nzb os)))
             (Rsum (map vw os)) (Rsum (map (fun o => vw o * vw o)%R os)).

  Lemma invoke_main_R (c : cell NumR) (v w : R) : c_comp c = 0%R ->
    fst (invoke_main c v w) =
    if negb (Reqb v 0) then mk_cell (K:=NumR) (c_sum c + v * w)%R (c_sumsq c + (v * w) * (v * w))%R 0%R (c_nz c + 1) (c_fin c + 1) else c.
  Proof.
    intros Hc. unfold invoke_main, neqb. cbn [eqb NumR zero isfinite mul]. destruct (Reqb v 0); cbn [negb fst]; [reflexivity|].
    unfold cell_add, accumulate. cbn [sub add mul NumR]. rewrite Hc. f_equal; change (T NumR) with R; ring.
  Qed.

  Lemma plain_main_R d calls g idx r g' idx' evs :
    plain_iteration strm ps f d calls g idx = Ok (r, g', idx', evs) -> p_main r = main_of calls (flat_map view_obs evs).
  Proof.
    unfold plain_iteration. intros H. apply bind_Ok in H as (s & Hl & H). injection H as <- _ _ <-.
    cbn [acc_result p_main]. unfold cell_result, main_of.
    assert (HI : let os := flat_map view_obs (rev (it_tr s)) in
                 a_main (it_acc s) = mk_cell (K:=NumR) (Rsum (map vw os)) (Rsum (map (fun o => vw o * vw o)%R os)) 0%R
                                       (N.of_nat (length (filter nzb os))) (N.of_nat (length (filter nzb os)))).
    { revert Hl. apply (iter_loop_ind _ (fun _ s => let os := flat_map view_obs (rev (it_tr s)) in
                 a_main (it_acc s) = mk_cell (K:=NumR) (Rsum (map vw os)) (Rsum (map (fun o => vw o * vw o)%R os)) 0%R
                                       (N.of_nat (length (filter nzb os))) (N.of_nat (length (filter nzb os))))).
      - reflexivity.
      - intros k s1 s2 I1 Hst. cbv zeta in *. unfold plain_step in Hst. apply bind_Ok in Hst as ([a v] & Hfc & Hst).
        set (o := mk_obs (it_idx s1) (draws strm (it_g s1) d) (one NumR) [] 0 []) in *. injection Hst as <-.
        cbn [it_tr it_acc rev]. rewrite flat_map_app. cbn [flat_map view_obs app].
        set (os := flat_map view_obs (rev (it_tr s1))) in *.
        unfold finish_call in Hfc. apply bind_Ok in Hfc as (ds & _ & Hfc).
        pose proof (invoke_main_R (a_main (it_acc s1)) (i_val (f o)) (o_weight o)) as Hinv.
        destruct (invoke_main (a_main (it_acc s1)) (i_val (f o)) (o_weight o)) as [m v'].
        injection Hfc as <- _. cbn [a_main]. cbn [fst] in Hinv. rewrite Hinv by (rewrite I1; reflexivity). clear Hinv.
        rewrite !map_app, !Rsum_app, filter_app, app_length. cbn [map filter].
        assert (Evw : vw (obs_noidx o) = (i_val (f o) * o_weight o)%R) by (unfold vw; rewrite <- Hf; reflexivity).
        assert (Enz : nzb (obs_noidx o) = negb (Reqb (i_val (f o)) 0)) by (unfold nzb; rewrite <- Hf; reflexivity).
        rewrite Evw, Enz, I1. cbn [c_sum c_sumsq c_nz c_fin].
        destruct (negb (Reqb (i_val (f o)) 0)) eqn:En.
        + cbn [length]. rewrite !Rsum_one. f_equal; lia.
        + apply negb_false_iff, Reqb_true in En. rewrite En. cbn [length]. rewrite !Rsum_one.
          f_equal; try (change (T NumR) with R; ring); lia. }
    cbv zeta in HI. rewrite HI. reflexivity.
  Qed.
End PlainR.

Section SumsR.
  Variable strm : N -> NumR.
  Variable ps : list (dparams NumR).
  Variable f : integrand NumR.
  Variable world : N.
  Variable perm : list N.
  Hypothesis Hf : ignores_counter f.

  Notation mpi_it d cb := (mpi_iteration (pchk NumR) unit (plainres NumR) world perm sub_calls_plain (N.of_nat d)
    (plain_li strm ps f d) (fun r => r) (fun _ => []) (fun _ pl _ => pl) base_add cb noref).

  (* one PLAIN iteration of all ranks over the reals, any summation order that is a permutation of the ranks:
     every rank adds a result whose main part (calls, non-zero calls, finite calls, sum, sum of squares) is
     exactly the serial iteration's, together with the serial generator *)
  Lemma c04_plain_main_R d cb calls sts (c : pchk NumR) g sts' logs go idx0 rser gser idxser evser :
    world_ok world -> Permutation perm (iotaN 0 (N.to_nat world)) -> cb_rank_independent cb ->
    (calls < 2 ^ 64)%N -> length sts = N.to_nat world -> agree c g tt sts ->
    mpi_it d cb calls sts = Ok (sts', logs, go) ->
    plain_iteration strm ps f d calls g idx0 = Ok (rser, gser, idxser, evser) ->
    exists rpar, p_main rpar = p_main rser /\ tshape rpar = tshape rser /\ agree (base_add c rpar gser) gser tt sts'.
  Proof.
    intros Hw Hperm Hcb Hc Hlen Hag Hrun Hser.
    pose proof (perm_ok_of_permutation world perm Hw Hperm) as Hp.
    pose proof (plain_template strm ps f d tt I) as Htm.
    destruct (points_tile (pchk NumR) unit (plainres NumR) world perm sub_calls_plain (N.of_nat d) (plain_li strm ps f d)
                (fun r => r) (fun _ => []) (fun _ pl _ => pl) base_add cb noref triv (obs NumR) view_obs (fun _ pos => plain_at strm d pos)
                calls sts c g tt sts' logs go Hw sub_plain_ok (plain_cost strm ps f d) Htm Hp Hcb (plain_li_positional strm ps f d)
                Hc Hlen Hag I Hrun) as (_ & _ & Hpts).
    specialize (Hpts _ _ _ _ _ Hser).
    destruct (mapM_idx (local_part (pchk NumR) unit (plainres NumR) world sub_calls_plain (N.of_nat d) (plain_li strm ps f d) calls) 0 sts)
      as [locals|code] eqn:Hm.
    2:{ unfold mpi_iteration in Hrun. rewrite Hm in Hrun. discriminate. }
    destruct (mpi_iteration_eq (pchk NumR) unit (plainres NumR) world perm sub_calls_plain (N.of_nat d) (plain_li strm ps f d)
                (fun r => r) (fun _ => []) (fun _ pl _ => pl) base_add cb noref triv
                calls sts c g tt locals Hw sub_plain_ok (plain_cost strm ps f d) Hc Hlen Hag I Htm Hp Hcb Hm)
      as (tbuf & nbuf & pl & ex & Et & En & Hun & E).
    cbv zeta in E. rewrite E in Hrun. clear E.
    destruct (locals_facts (pchk NumR) unit (plainres NumR) world sub_calls_plain (N.of_nat d) (plain_li strm ps f d) triv
                calls sts c g tt locals Hw sub_plain_ok (plain_cost strm ps f d) Hc Hlen Hag I Hm) as [Ll Lf].
    assert (Hgser : gser = (g + N.of_nat d * calls)%N).
    { apply plain_iteration_draws in Hser as [-> _]. lia. }
    set (c' := base_add c pl (g + N.of_nat d * calls)%N) in *.
    assert (Eaux : (if cb 0%N c' then @noref (pchk NumR) (plainres NumR) c' tt pl else Ok tt) = Ok tt) by (destruct (cb 0%N c'); reflexivity).
    rewrite Eaux in Hrun. cbn [bind] in Hrun. injection Hrun as <- <- _.
    rewrite map_map in Hpts. cbn [rl_events] in Hpts.
    exists pl. rewrite Hgser.
    assert (Hne : locals <> []) by (intros ->; cbn in Ll; destruct Hw; lia).
    assert (Hx0 : exists x0, In x0 locals) by (destruct locals as [|x0 ?]; [congruence|exists x0; left; reflexivity]).
    destruct Hx0 as [x0 Hx0]. rewrite Forall_forall in Hun. destruct (Hun x0 Hx0) as (Hu0 & Hs0 & _).
    assert (Hloc : forall x, In x locals -> p_main (lr_of x) = main_of f (r_calls (p_main (lr_of x))) (flat_map view_obs (evs_of x)) /\
                                   tshape (lr_of x) = tshape rser).
    { intros x Hx. apply In_nth_error in Hx as (k & Hk). destruct (Lf k x Hk) as (st & _ & _ & _ & Hl).
      unfold plain_li in Hl. split.
      - rewrite (plain_main_R strm ps f Hf _ _ _ _ _ _ _ _ Hl). reflexivity.
      - rewrite (plain_iteration_shape _ _ _ _ _ _ _ _ _ _ _ Hl), (plain_iteration_shape _ _ _ _ _ _ _ _ _ _ _ Hser). reflexivity. }
    assert (HlenT : Forall (fun c0 => length c0 = (0 + (2 + 2 * nbins (tshape rser)))%nat)
                           (map (fun x => pack_T (lr_of x) (@nil NumR)) locals)).
    { apply Forall_forall. intros v Hv. apply in_map_iff in Hv as (x & <- & Hx). rewrite pack_T_length, (proj2 (Hloc x Hx)). reflexivity. }
    assert (HlenN : Forall (fun c0 => length c0 = (2 + 2 * nbins (tshape rser))%nat)
                           (map (fun x => pack_N (K:=NumR) (lr_of x)) locals)).
    { apply Forall_forall. intros v Hv. apply in_map_iff in Hv as (x & <- & Hx). rewrite pack_N_length, (proj2 (Hloc x Hx)). reflexivity. }
    assert (HpT : Permutation perm (iotaN 0 (length (map (fun x => pack_T (lr_of x) (@nil NumR)) locals)))) by (rewrite map_length, Ll; exact Hperm).
    assert (HpN : Permutation perm (iotaN 0 (length (map (fun x => pack_N (K:=NumR) (lr_of x)) locals)))) by (rewrite map_length, Ll; exact Hperm).
    assert (HneT : map (fun x => pack_T (lr_of x) (@nil NumR)) locals <> []) by (destruct locals; [congruence|discriminate]).
    assert (HneN : map (fun x => pack_N (K:=NumR) (lr_of x)) locals <> []) by (destruct locals; [congruence|discriminate]).
    destruct (allreduce_R_sum perm _ _ HpT HneT HlenT) as (vT & EvT & _ & HvT). cbv beta in Et. rewrite Et in EvT. injection EvT as <-.
    destruct (allreduce_N_sum perm _ _ HpN HneN HlenN) as (vN & EvN & _ & HvN). cbv beta in En. rewrite En in EvN. injection EvN as <-.
    pose proof (unpack_main _ _ _ _ _ _ _ Hu0) as Hmain. cbn [length Nat.add] in Hmain.
    pose proof (plain_main_R strm ps f Hf _ _ _ _ _ _ _ _ Hser) as Hms. rewrite <- Hpts in Hms.
    split; [|split].
    - rewrite Hmain, Hms. unfold main_of.
      change (zero NumR) with 0%R.
      rewrite (HvT 0%nat) by lia. rewrite (HvT 1%nat) by lia. rewrite (HvN 0%nat) by lia. rewrite (HvN 1%nat) by lia.
      rewrite !map_map. rewrite !Rsum_concat_map, !Nsum_concat_count, !map_map.
      f_equal; [f_equal|f_equal|f_equal|f_equal]; apply map_ext_in; intros x Hx; unfold pack_N, pack_T; cbn [app nth];
        rewrite (proj1 (Hloc x Hx)); reflexivity.
    - rewrite Hs0. exact (proj2 (Hloc x0 Hx0)).
    - apply Forall_forall. intros st Hst. apply in_map_iff in Hst as (x & <- & _). cbn. auto.
  Qed.
End SumsR.

(* without distributions the added result IS the serial result: every rank's new checkpoint is the serial one *)
Lemma c04_plain_equals_serial_R (strm : N -> NumR) (f : integrand NumR) world perm d cb calls sts (c : pchk NumR) g sts' logs go
    idx0 rser gser idxser evser :
  ignores_counter f -> world_ok world -> Permutation perm (iotaN 0 (N.to_nat world)) -> cb_rank_independent cb ->
  (calls < 2 ^ 64)%N -> length sts = N.to_nat world -> agree c g tt sts ->
  mpi_iteration (pchk NumR) unit (plainres NumR) world perm sub_calls_plain (N.of_nat d)
    (plain_li strm [] f d) (fun r => r) (fun _ => []) (fun _ pl _ => pl) base_add cb noref calls sts = Ok (sts', logs, go) ->
  plain_iteration strm [] f d calls g idx0 = Ok (rser, gser, idxser, evser) ->
  agree (base_add c rser gser) gser tt sts'.
Proof.
  intros Hf Hw Hperm Hcb Hc Hlen Hag Hrun Hser.
  destruct (c04_plain_main_R strm [] f world perm Hf d cb calls sts c g sts' logs go idx0 rser gser idxser evser
              Hw Hperm Hcb Hc Hlen Hag Hrun Hser) as (rpar & Hm & Hs & Hag').
  pose proof (plain_iteration_shape _ _ _ _ _ _ _ _ _ _ _ Hser) as Hsh. rewrite Hsh in Hs.
  unfold tshape, ps_shape in Hs, Hsh. cbn [combine] in Hs, Hsh. apply map_eq_nil in Hs, Hsh.
  destruct rpar as [m1 d1], rser as [m2 d2]. cbn [p_main p_dists] in *. subst. exact Hag'.
Qed.

Definition ex04_fR : integrand NumR := fun o => mk_iret (K:=NumR) (hd 0%R (o_point o)) [] false.
Lemma ex04_fR_ok : ignores_counter ex04_fR.
Proof. intros o. reflexivity. Qed.
