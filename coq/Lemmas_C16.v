(** Lemmas for C16: the MPI work split (definitions translated from generator_helper.hpp and the
    three mpi_*.hpp drivers) tiles the calls exactly. *)
From Coq Require Import ZArith Lia List.
From HepMC Require Import Num Translated.
Local Open Scope Z_scope.

Lemma wrap64_id z : 0 <= z < 2 ^ 64 -> wrap64 z = z.
Proof. intros H. unfold wrap64. apply Z.mod_small. exact H. Qed.

(** the specification: unbounded integers, no wrap-around *)
Definition sub_spec (total rank world : Z) : Z := total / world + (if rank <? total mod world then 1 else 0).
Definition before_spec (total rank world : Z) : Z := (total / world) * rank + Z.min rank (total mod world).

Definition in_range (total rank world : Z) : Prop :=
  0 <= total < 2 ^ 64 /\ 1 <= world < 2 ^ 31 /\ 0 <= rank < world.

Section Facts.
  Variables total rank world : Z.
  Hypothesis R : in_range total rank world.

  Let q := total / world.
  Let r := total mod world.
  Lemma qr : total = world * q + r /\ 0 <= r < world /\ 0 <= q.
  Proof.
    destruct R as (Ht & Hw & Hr). unfold q, r.
    split; [apply Z.div_mod; lia|]. split; [apply Z.mod_pos_bound; lia|]. apply Z.div_pos; lia.
  Qed.

  Lemma before_spec_bounds : 0 <= before_spec total rank world <= total.
  Proof.
    destruct R as (Ht & Hw & Hr). destruct qr as (E & Hr' & Hq). unfold before_spec. fold q r.
    split; [apply Z.add_nonneg_nonneg; [apply Z.mul_nonneg_nonneg|]; lia|].
    assert (q * rank <= q * world) by (apply Z.mul_le_mono_nonneg_l; lia).
    destruct (Z.min_spec rank r) as [[? ->]|[? ->]]; nia.
  Qed.

  Lemma discard_before_correct : discard_before total rank world = before_spec total rank world.
  Proof.
    destruct R as (Ht & Hw & Hr). destruct qr as (E & Hr' & Hq).
    pose proof before_spec_bounds as HB.
    unfold discard_before, before_spec in *. fold q r in HB |- *.
    assert (Hq2 : q <= total) by nia.
    assert (Hqr : 0 <= q * rank <= total).
    { split; [apply Z.mul_nonneg_nonneg; lia|].
      assert (q * rank <= q * world) by (apply Z.mul_le_mono_nonneg_l; lia). nia. }
    rewrite (wrap64_id q) by lia. rewrite (wrap64_id (q * rank)) by lia.
    rewrite (wrap64_id r) by lia.
    replace (if r <? rank then r else rank) with (Z.min rank r).
    2:{ destruct (Z.ltb_spec r rank); lia. }
    apply wrap64_id. lia.
  Qed.

  Lemma sub_spec_bounds : 0 <= sub_spec total rank world <= total \/ total = 0 /\ sub_spec total rank world = 0.
  Proof.
    destruct R as (Ht & Hw & Hr). destruct qr as (E & Hr' & Hq). unfold sub_spec. fold q r.
    destruct (Z.ltb_spec rank r); [left; nia|]. left. nia.
  Qed.

  Lemma sub_calls_plain_correct : sub_calls_plain total rank world = sub_spec total rank world.
  Proof.
    destruct R as (Ht & Hw & Hr). destruct qr as (E & Hr' & Hq).
    unfold sub_calls_plain, sub_spec. fold q r.
    assert (2 ^ 31 < 2 ^ 64) by (vm_compute; reflexivity).
    rewrite (wrap64_id world) by lia. rewrite (wrap64_id rank) by lia. fold q r.
    assert (Hq2 : q <= total) by nia.
    rewrite (wrap64_id q) by lia. rewrite (wrap64_id r) by lia.
    destruct (Z.ltb_spec rank r).
    - rewrite (wrap64_id 1) by lia. apply wrap64_id. nia.
    - rewrite (wrap64_id 0) by lia. apply wrap64_id. nia.
  Qed.

  Lemma sub_calls_vegas_correct : sub_calls_vegas total rank world = sub_spec total rank world.
  Proof. exact sub_calls_plain_correct. Qed.
  Lemma sub_calls_multi_channel_correct : sub_calls_multi_channel total rank world = sub_spec total rank world.
  Proof. exact sub_calls_plain_correct. Qed.

  (** before(r) + sub(r) = before(r + 1): the shares are contiguous in rank order *)
  Lemma before_succ : before_spec total rank world + sub_spec total rank world = before_spec total (rank + 1) world.
  Proof.
    destruct R as (Ht & Hw & Hr). destruct qr as (E & Hr' & Hq). unfold before_spec, sub_spec. fold q r.
    destruct (Z.ltb_spec rank r); destruct (Z.min_spec rank r) as [[? ->]|[? ->]];
      destruct (Z.min_spec (rank + 1) r) as [[? ->]|[? ->]]; lia.
  Qed.

  Lemma before_zero : before_spec total 0 world = 0.
  Proof.
    destruct qr as (E & Hr' & Hq). unfold before_spec. fold q r.
    rewrite Z.mul_0_r. rewrite Z.min_l by lia. reflexivity.
  Qed.

  Lemma before_world : before_spec total world world = total.
  Proof.
    destruct qr as (E & Hr' & Hq). unfold before_spec. fold q r. rewrite Z.min_r by lia. lia.
  Qed.

  Lemma discard_after_correct :
    discard_after total (sub_spec total rank world) rank world
    = total - before_spec total rank world - sub_spec total rank world.
  Proof.
    pose proof before_spec_bounds as HB. pose proof before_succ as HS.
    destruct R as (Ht & Hw & Hr). destruct qr as (E & Hr' & Hq).
    assert (Hnext : before_spec total (rank + 1) world <= total).
    { unfold before_spec. fold q r.
      assert (q * (rank + 1) <= q * world) by (apply Z.mul_le_mono_nonneg_l; lia).
      destruct (Z.min_spec (rank + 1) r) as [[? ->]|[? ->]]; nia. }
    assert (Hsub : 0 <= sub_spec total rank world).
    { unfold sub_spec. fold q r. destruct (rank <? r); lia. }
    unfold discard_after. cbv zeta. rewrite discard_before_correct.
    set (b := before_spec total rank world) in *. set (s := sub_spec total rank world) in *.
    rewrite (wrap64_id (b + s)) by lia.
    destruct (Z.ltb_spec (b + s) total).
    - rewrite (wrap64_id (total - b)) by lia. apply wrap64_id. lia.
    - rewrite (wrap64_id 0) by lia. lia.
  Qed.
End Facts.

(** sum over all ranks = total: by telescoping before(r+1) - before(r) *)
Fixpoint sum_sub (total world : Z) (n : nat) : Z :=
  match n with O => 0 | S n' => sum_sub total world n' + sub_spec total (Z.of_nat n') world end.

Lemma sum_sub_before total world n :
  0 <= total < 2 ^ 64 -> 1 <= world < 2 ^ 31 -> Z.of_nat n <= world ->
  sum_sub total world n = before_spec total (Z.of_nat n) world.
Proof.
  intros Ht Hw. induction n as [|n IH]; intros Hn.
  - simpl. symmetry. apply (before_zero total 0 world). repeat split; lia.
  - cbn [sum_sub]. rewrite IH by lia.
    replace (Z.of_nat (S n)) with (Z.of_nat n + 1) by lia.
    apply before_succ. repeat split; lia.
Qed.

Lemma sum_sub_total total world :
  0 <= total < 2 ^ 64 -> 1 <= world < 2 ^ 31 -> sum_sub total world (Z.to_nat world) = total.
Proof.
  intros Ht Hw. rewrite sum_sub_before by lia. rewrite Z2Nat.id by lia.
  apply before_world with (rank := 0). repeat split; lia.
Qed.

Lemma sub_balanced total rank world :
  in_range total rank world ->
  sub_spec total rank world = total / world \/ sub_spec total rank world = total / world + 1.
Proof. intros _. unfold sub_spec. destruct (rank <? total mod world); lia. Qed.

(** the statements of Properties_C16.v *)
Lemma c16_sub_calls_is_spec total rank world : in_range total rank world ->
  sub_calls_plain total rank world = sub_spec total rank world /\
  sub_calls_vegas total rank world = sub_spec total rank world /\
  sub_calls_multi_channel total rank world = sub_spec total rank world.
Proof.
  intros H. exact (conj (sub_calls_plain_correct _ _ _ H) (conj (sub_calls_vegas_correct _ _ _ H) (sub_calls_multi_channel_correct _ _ _ H))).
Qed.

Lemma c16_balanced total rank world : in_range total rank world ->
  sub_calls_plain total rank world = total / world \/ sub_calls_plain total rank world = total / world + 1.
Proof. intros H. rewrite (sub_calls_plain_correct _ _ _ H). exact (sub_balanced _ _ _ H). Qed.

Lemma c16_contiguous total rank world : in_range total rank world ->
  discard_before total 0 world = 0 /\
  discard_before total rank world + sub_calls_plain total rank world = before_spec total (rank + 1) world /\
  (rank + 1 < world -> discard_before total (rank + 1) world = discard_before total rank world + sub_calls_plain total rank world).
Proof.
  intros H. pose proof H as (Ht & Hw & Hr).
  assert (H0 : in_range total 0 world) by (repeat split; lia).
  rewrite (discard_before_correct _ _ _ H0), (discard_before_correct _ _ _ H), (sub_calls_plain_correct _ _ _ H).
  split; [exact (before_zero _ _ _ H0)|]. split; [exact (before_succ _ _ _ H)|].
  intros Hn. assert (H1 : in_range total (rank + 1) world) by (repeat split; lia).
  rewrite (discard_before_correct _ _ _ H1). symmetry. exact (before_succ _ _ _ H).
Qed.

Lemma c16_all_ranks_end_at_total total rank world : in_range total rank world ->
  discard_before total rank world + sub_calls_plain total rank world
  + discard_after total (sub_calls_plain total rank world) rank world = total.
Proof.
  intros H. rewrite (sub_calls_plain_correct _ _ _ H), (discard_before_correct _ _ _ H), (discard_after_correct _ _ _ H). ring.
Qed.

Lemma c16_example : in_range 10 2 4 /\ sub_calls_plain 10 2 4 = 2 /\ discard_before 10 2 4 = 6 /\ discard_after 10 2 2 4 = 2.
Proof. unfold in_range. repeat split; try reflexivity; vm_compute; congruence. Qed.
