(** Lemmas for C05: the checkpoint text format is lossless.

    Part A (decimal): rounding a finite binary floating-point number of precision [p] to [P]
    significant decimal digits and rounding the decimal back to the binary format is the identity
    whenever [2^p < 10^(P-1)] (any tie-breaking rule on either side); instantiated for float, double
    and x87 long double with P = max_digits10 = 9, 17, 21 and connected to Flocq's [binary_float].

    Part B (codec): every reader of Codec.v inverts the corresponding writer, for every [Num] and
    every [digits10] string, by structural induction over results, distributions, bins, grid
    points, channels and generators. *)
From Coq Require Import ZArith NArith List Bool String Reals Lra Lia.
From Flocq Require Import Core BinarySingleNaN.
From HepMC Require Import Num NumB Result Chkpt Codec.
Import ListNotations.

(* ================================================================================================ *)
(** * Part A: decimal round trip *)

Definition radix10 : radix := Build_radix 10 eq_refl.

Section Matula.
Local Open Scope R_scope.
Variables (p emin P : Z).
Context (Hp : Prec_gt_0 p) (HP : Prec_gt_0 P).
Hypothesis HPp : bpow radix2 p < bpow radix10 (P - 1).
Notation fexp2 := (FLT_exp emin p).
Notation fexp10 := (FLX_exp P).
Variables choice1 choice2 : Z -> bool.
Notation rnd10 := (round radix10 fexp10 (Znearest choice1)).
Notation rnd2 := (round radix2 fexp2 (Znearest choice2)).

Lemma key_lt : bpow radix10 (1 - P) < bpow radix2 (- p).
Proof.
  replace (1 - P)%Z with (- (P - 1))%Z by ring.
  rewrite 2!bpow_opp. apply Rinv_lt_contravar; [|exact HPp].
  apply Rmult_lt_0_compat; apply bpow_gt_0.
Qed.

Lemma gap_succ x : 0 < x -> x * bpow radix2 (-p) < succ radix2 fexp2 x - x.
Proof.
  intros Hx. rewrite succ_eq_pos by lra. ring_simplify (x + ulp radix2 fexp2 x - x).
  generalize (ulp_FLT_gt radix2 emin p x). rewrite Rabs_pos_eq by lra. auto.
Qed.

Lemma gap_pred x : 0 < x -> x * bpow radix2 (-p) <= x - pred radix2 fexp2 x.
Proof.
  intros Hx. rewrite pred_eq_pos by lra. unfold pred_pos.
  case Req_bool_spec; intros Hb.
  - ring_simplify (x - (x - bpow radix2 (fexp2 (mag radix2 x - 1)))).
    rewrite Hb at 1. rewrite <- bpow_plus. apply bpow_le. unfold FLT_exp. lia.
  - ring_simplify (x - (x - ulp radix2 fexp2 x)).
    generalize (ulp_FLT_gt radix2 emin p x). rewrite Rabs_pos_eq by lra. lra.
Qed.

(* the positive case, for arbitrary tie-breaking rules [c1], [c2] *)
Lemma roundtrip_pos_gen c1 c2 x : generic_format radix2 fexp2 x -> 0 < x ->
  round radix2 fexp2 (Znearest c2) (round radix10 fexp10 (Znearest c1) x) = x.
Proof.
  intros Fx Hx.
  set (d := round radix10 fexp10 (Znearest c1) x).
  assert (Hd : Rabs (d - x) <= /2 * (x * bpow radix10 (1 - P))).
  { generalize (error_le_half_ulp radix10 fexp10 c1 x). fold d. intros He.
    generalize (ulp_FLX_le radix10 P x). rewrite Rabs_pos_eq by lra. intros Hu. lra. }
  assert (Hd' : Rabs (d - x) < /2 * (x * bpow radix2 (-p))).
  { eapply Rle_lt_trans. exact Hd. apply Rmult_lt_compat_l; [lra|].
    apply Rmult_lt_compat_l; [exact Hx|]. exact key_lt. }
  apply Rabs_lt_inv in Hd'.
  generalize (gap_succ x Hx) (gap_pred x Hx); intros Hs Hpr.
  apply Rle_antisym.
  - apply round_N_le_midp; try typeclasses eauto; [exact Fx|lra].
  - apply round_N_ge_midp; try typeclasses eauto; [exact Fx|lra].
Qed.

Theorem decimal_roundtrip x : generic_format radix2 fexp2 x -> rnd2 (rnd10 x) = x.
Proof.
  intros Fx. destruct (Rtotal_order x 0) as [Hx|[Hx|Hx]].
  - (* negative: symmetry, with the opposite tie-breaking rules *)
    replace x with (- - x) by ring.
    rewrite (round_N_opp radix10 fexp10 choice1 (- x)).
    rewrite (round_N_opp radix2 fexp2 choice2).
    f_equal. apply roundtrip_pos_gen; [now apply generic_format_opp|lra].
  - subst x. now rewrite 2!round_0 by auto with typeclass_instances.
  - now apply roundtrip_pos_gen.
Qed.
End Matula.

(** the three formats of the library: 2^p < 10^(max_digits10 - 1) *)
Lemma cond32 : (bpow radix2 24 < bpow radix10 (9 - 1))%R.  Proof. simpl; lra. Qed.
Lemma cond64 : (bpow radix2 53 < bpow radix10 (17 - 1))%R. Proof. simpl; lra. Qed.
Lemma cond80 : (bpow radix2 64 < bpow radix10 (21 - 1))%R. Proof. simpl; lra. Qed.

(** connection with [binary_float]: the real value of every finite float is in the FLT format with
    emin = 3 - emax - prec (Flocq's [SpecFloat.emin]), so printing with P digits and reading back
    yields the same real value, and the same float once the sign (of zero) is known *)
Section BinaryFloat.
Variables (prec emax P : Z).
Context (Hprec : Prec_gt_0 prec) (HP : Prec_gt_0 P).
Hypothesis HPp : (bpow radix2 prec < bpow radix10 (P - 1))%R.
Variables c1 c2 : Z -> bool.

Definition print_read (x : R) : R :=
  round radix2 (FLT_exp (3 - emax - prec) prec) (Znearest c2) (round radix10 (FLX_exp P) (Znearest c1) x).

Lemma print_read_B2R (x : binary_float prec emax) : print_read (B2R x) = B2R x.
Proof.
  unfold print_read. apply decimal_roundtrip; try assumption.
  exact (generic_format_B2R prec emax x).
Qed.

Lemma print_read_bits (x y : binary_float prec emax) :
  is_finite x = true -> is_finite y = true -> Bsign y = Bsign x ->
  B2R y = print_read (B2R x) -> y = x.
Proof.
  intros Fx Fy Hs Hr. rewrite print_read_B2R in Hr.
  apply B2R_Bsign_inj; assumption.
Qed.
End BinaryFloat.

Lemma P9 : Prec_gt_0 9. Proof. reflexivity. Qed.
Lemma P17 : Prec_gt_0 17. Proof. reflexivity. Qed.
Lemma P21 : Prec_gt_0 21. Proof. reflexivity. Qed.

Lemma emin32 : (3 - 128 - 24 = -149)%Z. Proof. reflexivity. Qed.
Lemma emin64 : (3 - 1024 - 53 = -1074)%Z. Proof. reflexivity. Qed.
Lemma emin80 : (3 - 16384 - 64 = -16445)%Z. Proof. reflexivity. Qed.

Lemma decimal_roundtrip_float c1 c2 (x : binary_float 24 128) : is_finite x = true ->
  round radix2 (FLT_exp (-149) 24) (Znearest c2) (round radix10 (FLX_exp 9) (Znearest c1) (B2R x)) = B2R x.
Proof. intros _. exact (print_read_B2R 24 128 9 P24 P9 cond32 c1 c2 x). Qed.

Lemma decimal_roundtrip_double c1 c2 (x : binary_float 53 1024) : is_finite x = true ->
  round radix2 (FLT_exp (-1074) 53) (Znearest c2) (round radix10 (FLX_exp 17) (Znearest c1) (B2R x)) = B2R x.
Proof. intros _. exact (print_read_B2R 53 1024 17 P53 P17 cond64 c1 c2 x). Qed.

Lemma decimal_roundtrip_long_double c1 c2 (x : binary_float 64 16384) : is_finite x = true ->
  round radix2 (FLT_exp (-16445) 64) (Znearest c2) (round radix10 (FLX_exp 21) (Znearest c1) (B2R x)) = B2R x.
Proof. intros _. exact (print_read_B2R 64 16384 21 P64 P21 cond80 c1 c2 x). Qed.

(* the carriers of the three Num instances are these binary_float types *)
Lemma carrier_B32 : T B32 = binary_float 24 128. Proof. reflexivity. Qed.
Lemma carrier_B64 : T B64 = binary_float 53 1024. Proof. reflexivity. Qed.
Lemma carrier_B80 : T B80 = binary_float 64 16384. Proof. reflexivity. Qed.

Lemma format_constants :
  SpecFloat.fexp 24 128 = FLT_exp (-149) 24 /\ SpecFloat.fexp 53 1024 = FLT_exp (-1074) 53 /\
  SpecFloat.fexp 64 16384 = FLT_exp (-16445) 64 /\
  T B32 = binary_float 24 128 /\ T B64 = binary_float 53 1024 /\ T B80 = binary_float 64 16384.
Proof. repeat split. Qed.

(* bit-for-bit version: any finite float with the sign of x whose value is the re-read decimal is x *)
Lemma decimal_bits_float c1 c2 (x y : B32) : isfinite B32 x = true -> isfinite B32 y = true ->
  Bsign y = Bsign x ->
  B2R y = round radix2 (FLT_exp (-149) 24) (Znearest c2) (round radix10 (FLX_exp 9) (Znearest c1) (B2R x)) ->
  y = x.
Proof. exact (print_read_bits 24 128 9 P24 P9 cond32 c1 c2 x y). Qed.

Lemma decimal_bits_double c1 c2 (x y : B64) : isfinite B64 x = true -> isfinite B64 y = true ->
  Bsign y = Bsign x ->
  B2R y = round radix2 (FLT_exp (-1074) 53) (Znearest c2) (round radix10 (FLX_exp 17) (Znearest c1) (B2R x)) ->
  y = x.
Proof. exact (print_read_bits 53 1024 17 P53 P17 cond64 c1 c2 x y). Qed.

Lemma decimal_bits_long_double c1 c2 (x y : B80) : isfinite B80 x = true -> isfinite B80 y = true ->
  Bsign y = Bsign x ->
  B2R y = round radix2 (FLT_exp (-16445) 64) (Znearest c2) (round radix10 (FLX_exp 21) (Znearest c1) (B2R x)) ->
  y = x.
Proof. exact (print_read_bits 64 16384 21 P64 P21 cond80 c1 c2 x y). Qed.

(* ================================================================================================ *)
(** * Part B: the token-level codec *)

Section CodecLemmas.
Context {K : Num}.
Notation tk := (tok K).
Notation reader := (reader (K:=K)).

(** ** white space *)
Definition is_ws (t : tk) : bool := match t with TSp | TNl => true | _ => false end.
Definition all_ws (ws : list tk) : Prop := forallb is_ws ws = true.

Lemma all_ws_nil : all_ws []. Proof. reflexivity. Qed.
Lemma all_ws_app a b : all_ws a -> all_ws b -> all_ws (a ++ b).
Proof. unfold all_ws. intros Ha Hb. rewrite forallb_app, Ha, Hb. reflexivity. Qed.

Lemma skip_ws_app ws t : all_ws ws -> skip_ws (ws ++ t) = skip_ws t.
Proof.
  unfold all_ws. induction ws as [|a ws IH]; intros H; [reflexivity|].
  cbn [forallb] in H. apply andb_true_iff in H. destruct H as [Ha H].
  destruct a; try discriminate Ha; cbn [app skip_ws]; exact (IH H).
Qed.

(** ** the reader monad *)
Lemma rbind_ok {A B} (r : reader A) (k : A -> reader B) t a t' :
  r t = Ok (a, t') -> rbind r k t = k a t'.
Proof. intros H. unfold rbind. rewrite H. reflexivity. Qed.

Ltac rstep lem := erewrite rbind_ok by (apply lem; reflexivity).

(** ** atoms; the [_skip] form ("the text after its leading white space is ...") composes by
    computation when the leading tokens are concrete *)
Lemma rd_nat_skip (t : list tk) n rest : skip_ws t = TNat n :: rest -> rd_nat t = Ok (n, rest).
Proof. intros H. unfold rd_nat. rewrite H. reflexivity. Qed.
Lemma rd_num_skip (t : list tk) x rest : skip_ws t = TNum x :: rest -> rd_num t = Ok (x, rest).
Proof. intros H. unfold rd_num. rewrite H. reflexivity. Qed.
Lemma rd_gen_skip (t : list tk) g rest : skip_ws t = TGen g :: rest -> rd_gen t = Ok (g, rest).
Proof. intros H. unfold rd_gen. rewrite H. reflexivity. Qed.

Lemma rd_nat_ok (ws : list tk) n rest : all_ws ws -> rd_nat (ws ++ TNat n :: rest) = Ok (n, rest).
Proof. intros H. apply rd_nat_skip. rewrite skip_ws_app by exact H. reflexivity. Qed.
Lemma rd_num_ok ws (x : K) rest : all_ws ws -> rd_num (ws ++ TNum x :: rest) = Ok (x, rest).
Proof. intros H. apply rd_num_skip. rewrite skip_ws_app by exact H. reflexivity. Qed.
Lemma rd_gen_ok ws g rest : all_ws ws -> rd_gen (K:=K) (ws ++ TGen g :: rest) = Ok (g, rest).
Proof. intros H. apply rd_gen_skip. rewrite skip_ws_app by exact H. reflexivity. Qed.

(** ** names: [rd_name] accepts the name right at the front or after exactly one newline *)
Lemma rd_name_ok s rest : rd_name (K:=K) (TStr s :: TNl :: rest) = Ok (s, rest).
Proof. reflexivity. Qed.
Lemma rd_name_nl_ok s rest : rd_name (K:=K) (TNl :: TStr s :: TNl :: rest) = Ok (s, rest).
Proof. reflexivity. Qed.
(* a text in which the empty name is not represented by any token at all *)
Lemma rd_name_bare rest : rd_name (K:=K) (TNl :: TNl :: rest) = Ok (EmptyString, rest).
Proof. reflexivity. Qed.
(* no other white space may precede the name *)
Lemma rd_name_sp s rest : rd_name (K:=K) (TSp :: TStr s :: TNl :: rest) = UB 93.
Proof. reflexivity. Qed.

Lemma atoms_ok (ws rest : list tk) : all_ws ws ->
  (forall n, rd_nat (ws ++ TNat n :: rest) = Ok (n, rest)) /\
  (forall x : K, rd_num (ws ++ TNum x :: rest) = Ok (x, rest)) /\
  (forall g, rd_gen (ws ++ TGen g :: rest) = Ok (g, rest)).
Proof.
  intros H. split; [|split]; intros a; [apply rd_nat_ok|apply rd_num_ok|apply rd_gen_ok]; exact H.
Qed.

Lemma name_ok (s : string) (rest : list tk) :
  rd_name (TStr s :: TNl :: rest) = Ok (s, rest) /\
  rd_name (TNl :: TStr s :: TNl :: rest) = Ok (s, rest) /\
  rd_name (TNl :: TNl :: rest) = Ok (EmptyString, rest) /\
  rd_name (TSp :: TStr s :: TNl :: rest) = UB 93.
Proof. repeat split. Qed.

(** ** sequences *)
Lemma rd_many_exact {A} (rd : reader A) (el : A -> list tk) (P : A -> Prop) :
  (forall x rest, P x -> rd (el x ++ rest) = Ok (x, rest)) ->
  forall l rest, Forall P l -> rd_many rd (List.length l) (flat_map el l ++ rest) = Ok (l, rest).
Proof.
  intros Hrd l. induction l as [|x l IH]; intros rest Hl; [reflexivity|].
  inversion Hl as [|x' l' Hx Hl']; subst x' l'.
  cbn [List.length rd_many flat_map]. rewrite <- app_assoc.
  rewrite (rbind_ok _ _ _ _ _ (Hrd x _ Hx)).
  rewrite (rbind_ok _ _ _ _ _ (IH rest Hl')). reflexivity.
Qed.

Lemma rd_many_loose {A} (rd : reader A) (el : A -> list tk) (P : A -> Prop) :
  (forall x ws rest, P x -> all_ws ws ->
     exists ws', all_ws ws' /\ rd (ws ++ el x ++ rest) = Ok (x, ws' ++ rest)) ->
  forall l ws rest, Forall P l -> all_ws ws ->
     exists ws', all_ws ws' /\ rd_many rd (List.length l) (ws ++ flat_map el l ++ rest) = Ok (l, ws' ++ rest).
Proof.
  intros Hrd l. induction l as [|x l IH]; intros ws rest Hl Hws.
  - exists ws. split; [exact Hws|reflexivity].
  - inversion Hl as [|x' l' Hx Hl']; subst x' l'.
    cbn [List.length rd_many flat_map]. rewrite <- app_assoc.
    destruct (Hrd x ws (flat_map el l ++ rest) Hx Hws) as (ws1 & Hws1 & E1).
    destruct (IH ws1 rest Hl' Hws1) as (ws2 & Hws2 & E2).
    exists ws2. split; [exact Hws2|].
    rewrite (rbind_ok _ _ _ _ _ E1). rewrite (rbind_ok _ _ _ _ _ E2). reflexivity.
Qed.

Lemma forallb_Forall_true {A} (f : A -> bool) l : forallb f l = true -> Forall (fun x => f x = true) l.
Proof.
  induction l as [|x l IH]; intros H; [constructor|].
  cbn [forallb] in H. apply andb_true_iff in H. destruct H as [Hx H]. constructor; auto.
Qed.

Lemma Forall_True {A} (l : list A) : Forall (fun _ => True) l.
Proof. induction l; constructor; auto. Qed.

(** ** mc_result *)
Lemma rd_mcres_skip t (r : mcres K) rest : skip_ws t = ser_mcres r ++ rest -> rd_mcres t = Ok (r, rest).
Proof.
  intros H. unfold rd_mcres.
  rewrite (rbind_ok _ _ _ _ _ (rd_nat_skip _ _ _ H)).
  rstep rd_nat_skip.
  rstep rd_nat_skip.
  rstep rd_num_skip.
  rstep rd_num_skip.
  destruct r; reflexivity.
Qed.

Lemma rd_mcres_ok ws (r : mcres K) rest : all_ws ws -> rd_mcres (ws ++ ser_mcres r ++ rest) = Ok (r, rest).
Proof. intros H. apply rd_mcres_skip. rewrite skip_ws_app by exact H. reflexivity. Qed.

(** ** distribution_parameters: the name comes first, so no white space is skipped; the text is
    either at the front or preceded by exactly one newline (as [ser_plain] places it) *)
Lemma rd_dparams_ok (p : dparams K) rest : rd_dparams (ser_dparams p ++ rest) = Ok (p, rest).
Proof.
  unfold rd_dparams, ser_dparams. cbn [app].
  rewrite (rbind_ok _ _ _ _ _ (rd_name_ok _ _)).
  rstep rd_nat_skip.
  rstep rd_num_skip.
  rstep rd_num_skip.
  rstep rd_nat_skip.
  rstep rd_num_skip.
  rstep rd_num_skip.
  destruct p; reflexivity.
Qed.

Lemma rd_dparams_nl_ok (p : dparams K) rest : rd_dparams (TNl :: ser_dparams p ++ rest) = Ok (p, rest).
Proof.
  unfold rd_dparams, ser_dparams. cbn [app].
  rewrite (rbind_ok _ _ _ _ _ (rd_name_nl_ok _ _)).
  rstep rd_nat_skip.
  rstep rd_num_skip.
  rstep rd_num_skip.
  rstep rd_nat_skip.
  rstep rd_num_skip.
  rstep rd_num_skip.
  destruct p; reflexivity.
Qed.

Lemma rd_dparams_both (p : dparams K) rest :
  rd_dparams (ser_dparams p ++ rest) = Ok (p, rest) /\
  rd_dparams (TNl :: ser_dparams p ++ rest) = Ok (p, rest).
Proof. split; [apply rd_dparams_ok|apply rd_dparams_nl_ok]. Qed.

(** ** distribution_result *)
Definition wf_dres (d : dres K) : bool :=
  Nat.eqb (List.length (dr_bins d)) (N.to_nat (d_bx (dr_par d) * d_by (dr_par d))).

Lemma rd_bins_ok (l : list (mcres K)) rest :
  rd_many rd_mcres (List.length l) (flat_map (fun b => TNl :: ser_mcres b) l ++ rest) = Ok (l, rest).
Proof.
  apply (rd_many_exact rd_mcres (fun b => TNl :: ser_mcres b) (fun _ => True)); [|apply Forall_True].
  intros x r _. apply rd_mcres_skip. reflexivity.
Qed.

Lemma rd_dres_ok (d : dres K) rest : wf_dres d = true -> rd_dres (ser_dres d ++ rest) = Ok (d, rest).
Proof.
  intros Hwf. apply Nat.eqb_eq in Hwf. unfold rd_dres, ser_dres. rewrite <- app_assoc.
  rewrite (rbind_ok _ _ _ _ _ (rd_dparams_ok _ _)). rewrite <- Hwf.
  rewrite (rbind_ok _ _ _ _ _ (rd_bins_ok _ _)). destruct d; reflexivity.
Qed.

Lemma rd_dres_nl_ok (d : dres K) rest : wf_dres d = true -> rd_dres (TNl :: ser_dres d ++ rest) = Ok (d, rest).
Proof.
  intros Hwf. apply Nat.eqb_eq in Hwf. unfold rd_dres, ser_dres. rewrite <- app_assoc.
  rewrite (rbind_ok _ _ _ _ _ (rd_dparams_nl_ok _ _)). rewrite <- Hwf.
  rewrite (rbind_ok _ _ _ _ _ (rd_bins_ok _ _)). destruct d; reflexivity.
Qed.

Lemma rd_dres_both (d : dres K) rest : wf_dres d = true ->
  rd_dres (ser_dres d ++ rest) = Ok (d, rest) /\
  rd_dres (TNl :: ser_dres d ++ rest) = Ok (d, rest).
Proof. intros H. split; [apply rd_dres_ok|apply rd_dres_nl_ok]; exact H. Qed.

(** ** plain_result *)
Definition wf_plain (r : plainres K) : bool := forallb wf_dres (p_dists r).

Lemma rd_plain_skip t (r : plainres K) rest : wf_plain r = true ->
  skip_ws t = ser_plain r ++ rest -> rd_plain t = Ok (r, rest).
Proof.
  intros Hwf H. unfold rd_plain. unfold ser_plain in H. rewrite <- !app_assoc in H.
  rewrite (rbind_ok _ _ _ _ _ (rd_mcres_skip _ _ _ H)).
  rstep rd_nat_skip.
  rewrite Nat2N.id.
  rewrite (rbind_ok _ _ _ _ _ (rd_many_exact rd_dres (fun d => TNl :: ser_dres d) (fun d => wf_dres d = true)
             (fun x r' Hx => rd_dres_nl_ok x r' Hx) _ _ (forallb_Forall_true _ _ Hwf))).
  destruct r; reflexivity.
Qed.

Lemma rd_plain_ok ws (r : plainres K) rest : wf_plain r = true -> all_ws ws ->
  rd_plain (ws ++ ser_plain r ++ rest) = Ok (r, rest).
Proof.
  intros Hwf H. apply rd_plain_skip; [exact Hwf|]. rewrite skip_ws_app by exact H.
  unfold ser_plain. rewrite <- !app_assoc. reflexivity.
Qed.

(** ** checkpoint base: header line, number of results, results, generators *)
Definition wf_base {R} (wf_r : R -> bool) (b : base R) : bool :=
  forallb wf_r (b_results b) && Nat.eqb (List.length (b_gens b)) (S (List.length (b_results b))).

Lemma rd_gens_ok (gs : list N) ws rest : all_ws ws ->
  exists ws', all_ws ws' /\
    rd_many (rd_gen (K:=K)) (List.length gs) (ws ++ flat_map (fun g => [TNl; TGen g]) gs ++ rest) = Ok (gs, ws' ++ rest).
Proof.
  intros Hws.
  apply (rd_many_loose rd_gen (fun g => [TNl; TGen g]) (fun _ => True)); [|apply Forall_True|exact Hws].
  intros g ws0 r _ Hws0. exists []. split; [apply all_ws_nil|].
  apply rd_gen_skip. rewrite skip_ws_app by exact Hws0. reflexivity.
Qed.

(* results whose reader may leave white space behind (needed for vegas_result) *)
Lemma rd_results_ok {R} (rd_r : reader R) (ser_r : R -> list tk) (wf_r : R -> bool) :
  (forall x ws rest, wf_r x = true -> all_ws ws ->
     exists ws', all_ws ws' /\ rd_r (ws ++ ser_r x ++ rest) = Ok (x, ws' ++ rest)) ->
  forall h (b : base R) rest, forallb wf_r (b_results b) = true ->
     exists ws', all_ws ws' /\ rd_results rd_r (ser_base h ser_r b ++ rest) = Ok (b_results b, ws' ++ rest).
Proof.
  intros Hrd h b rest Hwf. unfold rd_results, ser_base. cbn [app].
  rstep rd_nat_skip. rewrite Nat2N.id.
  refine (rd_many_loose rd_r (fun r => TNl :: ser_r r) (fun x => wf_r x = true)
           (fun x ws rest' Hx Hws => _) (b_results b) [] rest (forallb_Forall_true _ _ Hwf) all_ws_nil).
  cbv beta in Hx |- *.
  replace (ws ++ (TNl :: ser_r x) ++ rest') with ((ws ++ [TNl]) ++ ser_r x ++ rest')
    by (rewrite <- app_assoc; reflexivity).
  apply Hrd; [exact Hx|]. apply all_ws_app; [exact Hws|reflexivity].
Qed.

(** ** PLAIN checkpoint *)
Definition wf_pchk (c : pchk K) : bool := wf_base wf_plain c.

Variable digits10 : string.

Lemma pchk_roundtrip (c : pchk K) : wf_pchk c = true -> deser rd_pchk (ser_pchk digits10 c) = Ok c.
Proof.
  unfold wf_pchk, wf_base. intros Hwf. apply andb_true_iff in Hwf. destruct Hwf as [Hr Hg].
  apply Nat.eqb_eq in Hg.
  unfold deser, rd_pchk, ser_pchk.
  destruct (rd_results_ok rd_plain ser_plain wf_plain
              (fun x ws rest Hx Hws => ex_intro _ [] (conj all_ws_nil (rd_plain_ok ws x rest Hx Hws)))
              (header digits10 "plain_result") c (ser_gens c) Hr) as (ws1 & Hws1 & E1).
  rewrite (rbind_ok _ _ _ _ _ E1). rewrite <- Hg.
  destruct (rd_gens_ok (b_gens c) ws1 [] Hws1) as (ws2 & Hws2 & E2).
  unfold ser_gens. rewrite <- (app_nil_r (flat_map _ (b_gens c))).
  rewrite (rbind_ok _ _ _ _ _ E2). destruct c; reflexivity.
Qed.

(** ** vegas_pdf *)
Definition wf_pdf (p : pdf K) : bool :=
  Nat.eqb (List.length (pdf_x p)) (N.to_nat ((pdf_bins p + 1) * pdf_dims p)).

Lemma rd_xs_ok (l : list K) rest :
  rd_many rd_num (List.length l) (flat_map (fun x => [TSp; TNum x]) l ++ rest) = Ok (l, rest).
Proof.
  apply (rd_many_exact rd_num (fun x => [TSp; TNum x]) (fun _ => True)); [|apply Forall_True].
  intros x r _. apply rd_num_skip. reflexivity.
Qed.

Lemma rd_pdf_skip t (p : pdf K) rest : wf_pdf p = true ->
  skip_ws t = ser_pdf p ++ rest -> rd_pdf t = Ok (p, rest).
Proof.
  intros Hwf H. apply Nat.eqb_eq in Hwf. unfold rd_pdf. unfold ser_pdf in H.
  rewrite <- app_assoc in H. cbn [app] in H.
  rewrite (rbind_ok _ _ _ _ _ (rd_nat_skip _ _ _ H)).
  rstep rd_nat_skip. rewrite <- Hwf.
  rewrite (rbind_ok _ _ _ _ _ (rd_xs_ok _ _)). destruct p; reflexivity.
Qed.

Lemma rd_pdf_ok ws (p : pdf K) rest : wf_pdf p = true -> all_ws ws ->
  rd_pdf (ws ++ ser_pdf p ++ rest) = Ok (p, rest).
Proof. intros Hwf H. apply rd_pdf_skip; [exact Hwf|]. rewrite skip_ws_app by exact H. reflexivity. Qed.

(** ** vegas_result: every adjustment value is FOLLOWED by a blank, so the reader stops in front of
    one white-space token ([TSp], or the [TNl] after the grid when there is no adjustment data) *)
Definition wf_vegasres (r : vegasres K) : bool :=
  wf_plain (v_plain r) && wf_pdf (v_pdf r)
  && Nat.eqb (List.length (v_adj r)) (N.to_nat (pdf_bins (v_pdf r) * pdf_dims (v_pdf r))).

Lemma rd_adj_ok (l : list K) ws rest : all_ws ws ->
  exists ws', all_ws ws' /\
    rd_many rd_num (List.length l) (ws ++ flat_map (fun x => [TNum x; TSp]) l ++ rest) = Ok (l, ws' ++ rest).
Proof.
  intros Hws.
  apply (rd_many_loose rd_num (fun x => [TNum x; TSp]) (fun _ => True)); [|apply Forall_True|exact Hws].
  intros x ws0 r _ H0. exists [TSp]. split; [reflexivity|].
  apply rd_num_skip. rewrite skip_ws_app by exact H0. reflexivity.
Qed.

Lemma rd_vegasres_ok ws (r : vegasres K) rest : wf_vegasres r = true -> all_ws ws ->
  exists ws', all_ws ws' /\ rd_vegasres (ws ++ ser_vegasres r ++ rest) = Ok (r, ws' ++ rest).
Proof.
  unfold wf_vegasres. intros Hwf Hws.
  apply andb_true_iff in Hwf. destruct Hwf as [Hwf Ha].
  apply andb_true_iff in Hwf. destruct Hwf as [Hp Hg]. apply Nat.eqb_eq in Ha.
  unfold rd_vegasres, ser_vegasres. rewrite <- !app_assoc.
  rewrite (rbind_ok _ _ _ _ _ (rd_plain_ok _ _ _ Hp Hws)).
  erewrite rbind_ok by (apply rd_pdf_skip; [exact Hg|reflexivity]).
  rewrite <- Ha.
  destruct (rd_adj_ok (v_adj r) [TNl] rest eq_refl) as (ws' & Hws' & E).
  exists ws'. split; [exact Hws'|].
  rewrite (rbind_ok _ _ _ _ _ E). destruct r; reflexivity.
Qed.

(** ** multi_channel_result *)
Definition wf_mcres_mc (r : mcres_mc K) : bool :=
  wf_plain (m_plain r) && Nat.eqb (List.length (m_adj r)) (List.length (m_weights r)).

Lemma rd_aw_ok (l : list (K * K)) rest :
  rd_many (rbind rd_num (fun a => rbind rd_num (fun w => ret (a, w)))) (List.length l)
    (flat_map (fun '(a, w) => [TNl; TNum a; TSp; TNum w]) l ++ rest) = Ok (l, rest).
Proof.
  apply (rd_many_exact _ (fun '(a, w) => [TNl; TNum a; TSp; TNum w]) (fun _ => True)); [|apply Forall_True].
  intros [a w] r _. cbn [app]. rstep rd_num_skip. rstep rd_num_skip. reflexivity.
Qed.

Lemma map_fst_combine_eq {A B} (a : list A) (b : list B) :
  List.length a = List.length b -> map fst (combine a b) = a.
Proof.
  revert b. induction a as [|x a IH]; intros [|y b] H; try discriminate H; [reflexivity|].
  cbn [combine map fst]. f_equal. apply IH. now injection H.
Qed.
Lemma map_snd_combine_eq {A B} (a : list A) (b : list B) :
  List.length a = List.length b -> map snd (combine a b) = b.
Proof.
  revert b. induction a as [|x a IH]; intros [|y b] H; try discriminate H; [reflexivity|].
  cbn [combine map snd]. f_equal. apply IH. now injection H.
Qed.

Lemma rd_mcres_mc_skip t (r : mcres_mc K) rest : wf_mcres_mc r = true ->
  skip_ws t = ser_mcres_mc r ++ rest -> rd_mcres_mc t = Ok (r, rest).
Proof.
  unfold wf_mcres_mc. intros Hwf H. apply andb_true_iff in Hwf. destruct Hwf as [Hp Hl].
  apply Nat.eqb_eq in Hl.
  unfold rd_mcres_mc. unfold ser_mcres_mc in H. rewrite <- !app_assoc in H.
  rewrite (rbind_ok _ _ _ _ _ (rd_plain_skip _ _ _ Hp H)).
  cbn [app]. rstep rd_nat_skip. rewrite Nat2N.id.
  assert (Hc : List.length (combine (m_adj r) (m_weights r)) = List.length (m_weights r))
    by (rewrite combine_length, Hl; apply Nat.min_id).
  rewrite <- Hc. rewrite (rbind_ok _ _ _ _ _ (rd_aw_ok _ _)).
  unfold ret. rewrite map_fst_combine_eq, map_snd_combine_eq by exact Hl.
  destruct r; reflexivity.
Qed.

Lemma rd_mcres_mc_ok ws (r : mcres_mc K) rest : wf_mcres_mc r = true -> all_ws ws ->
  rd_mcres_mc (ws ++ ser_mcres_mc r ++ rest) = Ok (r, rest).
Proof.
  intros Hwf H. apply rd_mcres_mc_skip; [exact Hwf|]. rewrite skip_ws_app by exact H.
  unfold ser_mcres_mc, ser_plain. rewrite <- !app_assoc. reflexivity.
Qed.

Lemma rd_gens_end (gs : list N) n ws : all_ws ws -> List.length gs = n ->
  exists t', rd_many (rd_gen (K:=K)) n (ws ++ flat_map (fun g => [TNl; TGen g]) gs) = Ok (gs, t').
Proof.
  intros Hws Hn. subst n. destruct (rd_gens_ok gs ws [] Hws) as (ws' & _ & E).
  rewrite app_nil_r in E. eexists. exact E.
Qed.

(** ** VEGAS checkpoint *)
Definition wf_vchk (c : vchk K) : bool :=
  wf_base wf_vegasres (vc_base c)
  && match b_results (vc_base c), vc_first c with [], Some p => wf_pdf p | _, _ => true end.

(* what the stream constructor builds from the text of [c] *)
Definition vchk_reread (c : vchk K) : vchk K :=
  mk_vchk (vc_base c) (vc_alpha c) 0
    (match b_results (vc_base c) with [] => vc_first c | _ => None end).

Lemma ser_vchk_defined (c : vchk K) :
  (b_results (vc_base c) <> [] \/ vc_first c <> None) <-> exists t, ser_vchk digits10 c = Ok t.
Proof.
  unfold ser_vchk. destruct (b_results (vc_base c)) as [|r rs]; destruct (vc_first c) as [p|]; cbn [bind]; split.
  - intros _. eexists. reflexivity.
  - intros _. right. discriminate.
  - intros [H|H]; exfalso; apply H; reflexivity.
  - intros [t H]. discriminate H.
  - intros _. eexists. reflexivity.
  - intros _. left. discriminate.
  - intros _. eexists. reflexivity.
  - intros _. left. discriminate.
Qed.

Lemma vchk_deser (c : vchk K) t : wf_vchk c = true -> ser_vchk digits10 c = Ok t ->
  deser rd_vchk t = Ok (vchk_reread c).
Proof.
  destruct c as [[rs gs] alpha bins first]. unfold wf_vchk, wf_base, vchk_reread, ser_vchk.
  cbn [vc_base vc_alpha vc_bins vc_first b_results b_gens]. intros Hwf Hser.
  apply andb_true_iff in Hwf. destruct Hwf as [Hwf Hf].
  apply andb_true_iff in Hwf. destruct Hwf as [Hr Hg]. apply Nat.eqb_eq in Hg.
  assert (Hrd := fun rest => rd_results_ok rd_vegasres ser_vegasres wf_vegasres
              (fun x ws rest Hx Hws => rd_vegasres_ok ws x rest Hx Hws)
              (header digits10 "vegas_result") (mk_base rs gs) rest Hr).
  cbn [b_results] in Hrd.
  destruct rs as [|r rs]; [destruct first as [p|]|]; cbn [bind] in Hser; try discriminate Hser;
    injection Hser as <-; unfold deser, rd_vchk.
  - destruct (Hrd ([TNl; TNum alpha] ++ (TNl :: ser_pdf p) ++ ser_gens (@mk_base (vegasres K) [] gs))) as (ws1 & Hws1 & E1).
    rewrite (rbind_ok _ _ _ _ _ E1).
    erewrite rbind_ok by (apply rd_num_skip; rewrite skip_ws_app by exact Hws1; reflexivity).
    unfold rbind at 1.
    erewrite rbind_ok by (apply rd_pdf_skip; [exact Hf|reflexivity]). unfold ret at 1.
    destruct (rd_gens_end gs (S (List.length (@nil (vegasres K)))) [] all_ws_nil Hg) as (t' & E2).
    unfold ser_gens. cbn [b_gens]. cbn [app] in E2.
    rewrite (rbind_ok _ _ _ _ _ E2). reflexivity.
  - destruct (Hrd ([TNl; TNum alpha] ++ [] ++ ser_gens (mk_base (r :: rs) gs))) as (ws1 & Hws1 & E1).
    rewrite (rbind_ok _ _ _ _ _ E1).
    erewrite rbind_ok by (apply rd_num_skip; rewrite skip_ws_app by exact Hws1; reflexivity).
    unfold rbind at 1, ret at 1.
    destruct (rd_gens_end gs (S (List.length (r :: rs))) [] all_ws_nil Hg) as (t' & E2).
    unfold ser_gens. cbn [b_gens app]. cbn [app] in E2.
    rewrite (rbind_ok _ _ _ _ _ E2). reflexivity.
Qed.

Lemma vchk_reser (c : vchk K) t : ser_vchk digits10 c = Ok t -> ser_vchk digits10 (vchk_reread c) = Ok t.
Proof.
  unfold vchk_reread, ser_vchk. cbn [vc_base vc_alpha vc_first].
  destruct (b_results (vc_base c)) as [|r rs]; [destruct (vc_first c) as [p|]|]; intros H; exact H.
Qed.

Lemma vchk_roundtrip (c : vchk K) t : wf_vchk c = true -> ser_vchk digits10 c = Ok t ->
  exists c', deser rd_vchk t = Ok c' /\
    vc_base c' = vc_base c /\ vc_alpha c' = vc_alpha c /\ vc_bins c' = 0%N /\
    vc_first c' = (match b_results (vc_base c) with [] => vc_first c | _ => None end) /\
    ser_vchk digits10 c' = Ok t.
Proof.
  intros Hwf Hser. exists (vchk_reread c). split; [exact (vchk_deser c t Hwf Hser)|].
  repeat split. exact (vchk_reser c t Hser).
Qed.

(* a checkpoint that was itself read from a stream (or built with [vchk_user], before or after
   any number of [vchk_add]) is reproduced exactly *)
Lemma vchk_roundtrip_exact (c : vchk K) t : wf_vchk c = true -> ser_vchk digits10 c = Ok t ->
  vc_bins c = 0%N -> (b_results (vc_base c) <> [] -> vc_first c = None) ->
  deser rd_vchk t = Ok c.
Proof.
  intros Hwf Hser Hb Hf. rewrite (vchk_deser c t Hwf Hser). f_equal.
  destruct c as [b alpha bins first]. unfold vchk_reread. cbn [vc_base vc_alpha vc_bins vc_first] in *.
  subst bins. destruct (b_results b) as [|r rs]; [reflexivity|].
  rewrite Hf by discriminate. reflexivity.
Qed.

(** ** multi-channel checkpoint *)
Definition wf_mchk (c : mchk K) : bool := wf_base wf_mcres_mc (mc_base c).

Definition mchk_reread (c : mchk K) : mchk K :=
  mk_mchk (mc_base c) (mc_beta c) (mc_minw c)
    (match b_results (mc_base c) with [] => mc_first c | _ => [] end).

Lemma mchk_deser (c : mchk K) : wf_mchk c = true ->
  deser rd_mchk (ser_mchk digits10 c) = Ok (mchk_reread c).
Proof.
  destruct c as [[rs gs] beta minw first]. unfold wf_mchk, wf_base, mchk_reread, ser_mchk.
  cbn [mc_base mc_beta mc_minw mc_first b_results b_gens]. intros Hwf.
  apply andb_true_iff in Hwf. destruct Hwf as [Hr Hg]. apply Nat.eqb_eq in Hg.
  assert (Hrd := fun rest => rd_results_ok rd_mcres_mc ser_mcres_mc wf_mcres_mc
              (fun x ws rest Hx Hws => ex_intro _ [] (conj all_ws_nil (rd_mcres_mc_ok ws x rest Hx Hws)))
              (header digits10 "multi_channel_result") (mk_base rs gs) rest Hr).
  cbn [b_results] in Hrd. unfold deser, rd_mchk.
  destruct rs as [|r rs].
  - destruct (Hrd ([TNl; TNum beta; TSp; TNum minw]
        ++ ([TNl; TNat (N.of_nat (List.length first))] ++ flat_map (fun w => [TSp; TNum w]) first)
        ++ ser_gens (@mk_base (mcres_mc K) [] gs))) as (ws1 & Hws1 & E1).
    rewrite (rbind_ok _ _ _ _ _ E1).
    erewrite rbind_ok by (apply rd_num_skip; rewrite skip_ws_app by exact Hws1; reflexivity).
    rstep rd_num_skip.
    rewrite <- app_assoc. cbn [app].
    erewrite rbind_ok;
      [|erewrite rbind_ok by (apply rd_nat_skip; reflexivity); rewrite Nat2N.id; apply rd_xs_ok].
    destruct (rd_gens_end gs (S (List.length (@nil (mcres_mc K)))) [] all_ws_nil Hg) as (t' & E2).
    unfold ser_gens. cbn [b_gens]. cbn [app] in E2.
    rewrite (rbind_ok _ _ _ _ _ E2). reflexivity.
  - destruct (Hrd ([TNl; TNum beta; TSp; TNum minw] ++ [] ++ ser_gens (mk_base (r :: rs) gs))) as (ws1 & Hws1 & E1).
    rewrite (rbind_ok _ _ _ _ _ E1).
    erewrite rbind_ok by (apply rd_num_skip; rewrite skip_ws_app by exact Hws1; reflexivity).
    rstep rd_num_skip.
    unfold rbind at 1, ret at 1.
    destruct (rd_gens_end gs (S (List.length (r :: rs))) [] all_ws_nil Hg) as (t' & E2).
    unfold ser_gens. cbn [b_gens app]. cbn [app] in E2.
    rewrite (rbind_ok _ _ _ _ _ E2). reflexivity.
Qed.

Lemma mchk_reser (c : mchk K) : ser_mchk digits10 (mchk_reread c) = ser_mchk digits10 c.
Proof.
  unfold mchk_reread, ser_mchk. cbn [mc_base mc_beta mc_minw mc_first].
  destruct (b_results (mc_base c)) as [|r rs]; reflexivity.
Qed.

Lemma mchk_roundtrip (c : mchk K) : wf_mchk c = true ->
  exists c', deser rd_mchk (ser_mchk digits10 c) = Ok c' /\
    mc_base c' = mc_base c /\ mc_beta c' = mc_beta c /\ mc_minw c' = mc_minw c /\
    mc_first c' = (match b_results (mc_base c) with [] => mc_first c | _ => [] end) /\
    ser_mchk digits10 c' = ser_mchk digits10 c.
Proof.
  intros Hwf. exists (mchk_reread c). split; [exact (mchk_deser c Hwf)|].
  repeat split. exact (mchk_reser c).
Qed.

Lemma mchk_roundtrip_exact (c : mchk K) : wf_mchk c = true ->
  (b_results (mc_base c) <> [] -> mc_first c = []) ->
  deser rd_mchk (ser_mchk digits10 c) = Ok c.
Proof.
  intros Hwf Hf. rewrite (mchk_deser c Hwf). f_equal.
  destruct c as [b beta minw first]. unfold mchk_reread. cbn [mc_base mc_beta mc_minw mc_first] in *.
  destruct (b_results b) as [|r rs]; [reflexivity|].
  rewrite Hf by discriminate. reflexivity.
Qed.

(** ** consequences: the text determines the checkpoint *)
Lemma Ok_inj {A} (a b : A) : Ok a = Ok b -> a = b.
Proof. intros H. injection H as H. exact H. Qed.

Lemma pchk_ser_inj (c1 c2 : pchk K) : wf_pchk c1 = true -> wf_pchk c2 = true ->
  ser_pchk digits10 c1 = ser_pchk digits10 c2 -> c1 = c2.
Proof.
  intros H1 H2 E. apply pchk_roundtrip in H1. apply pchk_roundtrip in H2.
  rewrite E in H1. rewrite H1 in H2. exact (Ok_inj _ _ H2).
Qed.

Lemma vchk_ser_inj (c1 c2 : vchk K) t : wf_vchk c1 = true -> wf_vchk c2 = true ->
  ser_vchk digits10 c1 = Ok t -> ser_vchk digits10 c2 = Ok t -> vchk_reread c1 = vchk_reread c2.
Proof.
  intros H1 H2 E1 E2. pose proof (vchk_deser c1 t H1 E1) as D1. pose proof (vchk_deser c2 t H2 E2) as D2.
  rewrite D1 in D2. exact (Ok_inj _ _ D2).
Qed.

Lemma mchk_ser_inj (c1 c2 : mchk K) : wf_mchk c1 = true -> wf_mchk c2 = true ->
  ser_mchk digits10 c1 = ser_mchk digits10 c2 -> mchk_reread c1 = mchk_reread c2.
Proof.
  intros H1 H2 E. apply mchk_deser in H1. apply mchk_deser in H2.
  rewrite E in H1. rewrite H1 in H2. exact (Ok_inj _ _ H2).
Qed.

Lemma vchk_text_determines (c1 c2 : vchk K) t : wf_vchk c1 = true -> wf_vchk c2 = true ->
  ser_vchk digits10 c1 = Ok t -> ser_vchk digits10 c2 = Ok t ->
  vc_base c1 = vc_base c2 /\ vc_alpha c1 = vc_alpha c2 /\
  (b_results (vc_base c1) = [] -> vc_first c1 = vc_first c2).
Proof.
  intros H1 H2 E1 E2. pose proof (vchk_ser_inj c1 c2 t H1 H2 E1 E2) as E.
  unfold vchk_reread in E. injection E as Eb Ea Ef.
  split; [exact Eb|]. split; [exact Ea|]. intros Hn. rewrite <- Eb, Hn in Ef. exact Ef.
Qed.

Lemma mchk_text_determines (c1 c2 : mchk K) : wf_mchk c1 = true -> wf_mchk c2 = true ->
  ser_mchk digits10 c1 = ser_mchk digits10 c2 ->
  mc_base c1 = mc_base c2 /\ mc_beta c1 = mc_beta c2 /\ mc_minw c1 = mc_minw c2 /\
  (b_results (mc_base c1) = [] -> mc_first c1 = mc_first c2).
Proof.
  intros H1 H2 E0. pose proof (mchk_ser_inj c1 c2 H1 H2 E0) as E.
  unfold mchk_reread in E. injection E as Eb Ea Em Ef.
  split; [exact Eb|]. split; [exact Ea|]. split; [exact Em|].
  intros Hn. rewrite <- Eb, Hn in Ef. exact Ef.
Qed.

End CodecLemmas.

(* ================================================================================================ *)
(** * Non-trivial instances (for every [Num]; the numeric fields are [zero], [one], [inf K] is not
    used) *)
Section Examples.
Context (K : Num).
Definition ex_mcres (n : N) : mcres K := mk_mcres (10 + n) 7 9 (one K) (zero K).
(* empty name, 2 x 1 bins *)
Definition ex_dres1 : dres K :=
  mk_dres (mk_dparams 2 1 (zero K) (zero K) (one K) (one K) EmptyString) [ex_mcres 1; ex_mcres 2].
(* name with a leading and an inner blank, 1 x 3 bins *)
Definition ex_dres2 : dres K :=
  mk_dres (mk_dparams 1 3 (zero K) (one K) (one K) (one K) " pt [GeV]"%string) [ex_mcres 3; ex_mcres 4; ex_mcres 5].
(* a distribution without bins *)
Definition ex_dres3 : dres K :=
  mk_dres (mk_dparams 0 5 (zero K) (one K) (one K) (one K) "x"%string) [].
Definition ex_plain : plainres K := mk_plainres (ex_mcres 0) [ex_dres1; ex_dres2; ex_dres3].
Definition ex_plain0 : plainres K := mk_plainres (ex_mcres 6) [].
Definition ex_pchk : pchk K := mk_base [ex_plain; ex_plain0] [11; 12; 13]%N.
Definition ex_pchk0 : pchk K := mk_base [] [11]%N.

(* 2 bins, 2 dimensions: 6 boundaries, 4 adjustment values *)
Definition ex_pdf : pdf K := mk_pdf 2 2 [zero K; one K; one K; zero K; zero K; one K].
Definition ex_pdf0 : pdf K := mk_pdf 0 3 [zero K; zero K; zero K].
Definition ex_vegasres : vegasres K := mk_vegasres ex_plain ex_pdf [one K; zero K; one K; one K].
Definition ex_vegasres0 : vegasres K := mk_vegasres ex_plain0 ex_pdf0 [].
(* no results: the first grid is stored *)
Definition ex_vchk0 : vchk K := mk_vchk (mk_base [] [5]%N) (one K) 0 (Some ex_pdf).
(* results: bin count of the default constructor and the first grid are not stored *)
Definition ex_vchk1 : vchk K := mk_vchk (mk_base [ex_vegasres; ex_vegasres0; ex_vegasres] [5; 6; 7; 8]%N) (one K) 128 (Some ex_pdf).
Definition ex_vchk2 : vchk K := mk_vchk (mk_base [ex_vegasres; ex_vegasres0] [5; 6; 7]%N) (one K) 0 None.

Definition ex_mcres_mc : mcres_mc K := mk_mcres_mc ex_plain [one K; zero K; one K] [zero K; one K; zero K].
Definition ex_mcres_mc0 : mcres_mc K := mk_mcres_mc ex_plain0 [] [].
Definition ex_mchk0 : mchk K := mk_mchk (mk_base [] [5]%N) (one K) (zero K) [one K; zero K].
Definition ex_mchk1 : mchk K := mk_mchk (mk_base [ex_mcres_mc; ex_mcres_mc0] [5; 6; 7]%N) (one K) (zero K) [one K; zero K].
Definition ex_mchk2 : mchk K := mk_mchk (mk_base [ex_mcres_mc] [5; 6]%N) (one K) (zero K) [].

Lemma ex_plain_ok : wf_pchk ex_pchk = true /\ wf_pchk ex_pchk0 = true
  /\ deser rd_pchk (ser_pchk "17" ex_pchk) = Ok ex_pchk.
Proof. repeat split; reflexivity. Qed.

Lemma ex_vegas_ok :
  wf_vchk ex_vchk0 = true /\ wf_vchk ex_vchk1 = true /\ wf_vchk ex_vchk2 = true
  /\ (exists t, ser_vchk "17" ex_vchk0 = Ok t /\ deser rd_vchk t = Ok ex_vchk0)
  /\ (exists t, ser_vchk "17" ex_vchk1 = Ok t /\
        deser rd_vchk t = Ok (mk_vchk (vc_base ex_vchk1) (one K) 0 None))
  /\ (exists t, ser_vchk "17" ex_vchk2 = Ok t /\ deser rd_vchk t = Ok ex_vchk2).
Proof.
  split; [reflexivity|]. split; [reflexivity|]. split; [reflexivity|].
  split; [|split]; eexists; (split; [reflexivity|reflexivity]).
Qed.

Lemma ex_multi_channel_ok :
  wf_mchk ex_mchk0 = true /\ wf_mchk ex_mchk1 = true /\ wf_mchk ex_mchk2 = true
  /\ deser rd_mchk (ser_mchk "17" ex_mchk0) = Ok ex_mchk0
  /\ deser rd_mchk (ser_mchk "17" ex_mchk1) = Ok (mk_mchk (mc_base ex_mchk1) (one K) (zero K) [])
  /\ deser rd_mchk (ser_mchk "17" ex_mchk2) = Ok ex_mchk2.
Proof. repeat split; reflexivity. Qed.

(* the components used by the component theorems are well formed *)
Lemma ex_components_ok :
  wf_dres ex_dres1 = true /\ wf_dres ex_dres2 = true /\ wf_dres ex_dres3 = true /\
  wf_plain ex_plain = true /\ wf_pdf ex_pdf = true /\ wf_pdf ex_pdf0 = true /\
  wf_vegasres ex_vegasres = true /\ wf_vegasres ex_vegasres0 = true /\
  wf_mcres_mc ex_mcres_mc = true /\ wf_mcres_mc ex_mcres_mc0 = true /\
  all_ws [TSp; TNl; TNl; @TSp K] /\
  d_name (dr_par ex_dres1) = EmptyString.
Proof. repeat split; reflexivity. Qed.

(* ill-formed objects exist, i.e. the predicates are not trivially true *)
Lemma ex_ill_formed :
  wf_pdf (mk_pdf 2 2 [zero K]) = false /\ wf_pchk (mk_base [ex_plain] [1%N]) = false /\
  deser rd_pchk (ser_pchk "17" (mk_base [ex_plain] [1%N])) = UB 92.
Proof. repeat split; reflexivity. Qed.
End Examples.

(* the smallest denormal, the largest finite number and a negative number of each format are
   finite, so the decimal theorems apply to them *)
Lemma ex_finite_float : exists x y z : binary_float 24 128,
  is_finite x = true /\ is_finite y = true /\ is_finite z = true /\
  Bout 24 128 x = OFin false 1 (-149) /\ Bout 24 128 y = OFin false (2 ^ 24 - 1) 104 /\ Bout 24 128 z = OFin true (11 * 2 ^ 20) (-23).
Proof.
  exists (@B754_finite 24 128 false 1 (-149) eq_refl), (@B754_finite 24 128 false (2 ^ 24 - 1) 104 eq_refl),
         (@B754_finite 24 128 true (11 * 2 ^ 20) (-23) eq_refl). repeat split.
Qed.
Lemma ex_finite_double : exists x y z : binary_float 53 1024,
  is_finite x = true /\ is_finite y = true /\ is_finite z = true /\
  Bout 53 1024 x = OFin false 1 (-1074) /\ Bout 53 1024 y = OFin false (2 ^ 53 - 1) 971 /\ Bout 53 1024 z = OFin true (11 * 2 ^ 49) (-52).
Proof.
  exists (@B754_finite 53 1024 false 1 (-1074) eq_refl), (@B754_finite 53 1024 false (2 ^ 53 - 1) 971 eq_refl),
         (@B754_finite 53 1024 true (11 * 2 ^ 49) (-52) eq_refl). repeat split.
Qed.
Lemma ex_finite_long_double : exists x y z : binary_float 64 16384,
  is_finite x = true /\ is_finite y = true /\ is_finite z = true /\
  Bout 64 16384 x = OFin false 1 (-16445) /\ Bout 64 16384 y = OFin false (2 ^ 64 - 1) 16320 /\ Bout 64 16384 z = OFin true (11 * 2 ^ 60) (-63).
Proof.
  exists (@B754_finite 64 16384 false 1 (-16445) eq_refl), (@B754_finite 64 16384 false (2 ^ 64 - 1) 16320 eq_refl),
         (@B754_finite 64 16384 true (11 * 2 ^ 60) (-63) eq_refl). repeat split.
Qed.
