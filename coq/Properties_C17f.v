(** C17f - floating-point version of "every coordinate the integrand sees lies in the unit interval"
    (property C17, clause on the numbers handed to the integrand / the channel map).
    Statements only (definitions and proofs in Lemmas_C17f.v).  Everything here is a COMPOSITION of theorems
    already proved: C17_protocol_vegas / C17_unit_interval_plain / C17_unit_interval_mc (Lemmas_C17.v: which
    stream entries reach the integrand, for every [Num]) with C07g_icdf_points_in_bins (Lemmas_C07g.v: the
    inverse CDF in IEEE arithmetic).  Properties_C17.v proves the VEGAS clause over the reals only
    ([C17_unit_interval_vegas]); this file is its counterpart for K := NumB prec emax, Flocq's IEEE-754 binary
    format, for EVERY format with prec >= 2 (float, double, x87 long double, ...).

    Vocabulary, all in the model's own comparison operations of the format:
    - [unit_open u], [unit_closed u] (Lemmas_C07f.v): u finite and 0 <= u < 1, resp. 0 <= u <= 1;
    - [slice_ok p d] (Lemmas_C07g.v): every bin b < bins of dimension d has both boundaries, finite, with
      0 <= left <= right <= 1;
    - [grid_ok p] (Lemmas_C17f.v): 1 <= bins, bins < 2^prec (T(bins) exact), bins < 2^64 (size_t), and
      [slice_ok p d] for every dimension d < pdf_dims p;
    - [point_in_bin p d b x] (Lemmas_C07g.v): b < bins, both boundaries l, r of bin b of dimension d exist, x is
      finite, leb l x = true and leb x r = true;
    - [point_in_bins_f p xs bs] (Lemmas_C17f.v): length xs = length bs = pdf_dims p and for every k, with x the
      k-th coordinate and b the k-th reported bin:  point_in_bin p k b x  /\  leb 0 x = true /\ leb x 1 = true;
    - [unit_open_real u]: is_finite u = true /\ 0 <= B2R u < 1 (the same half-open interval read over R).

    WHAT IS PROVED
    - [C17f_icdf_unit]: for a [grid_ok] grid and pdf_dims random numbers from the CLOSED unit interval
      (generate_canonical<float> can return exactly 1; the library clamps it), [icdf] is defined (no undefined
      behaviour) and [point_in_bins_f] holds of its point and bins.
    - [C17f_unit_interval_vegas]: if all stream entries are [unit_closed] then every event of a VEGAS iteration
      over the format is one integrand call whose point and bins satisfy [point_in_bins_f]: each coordinate lies
      in its reported bin [g_b, g_{b+1}] of its dimension, hence in the CLOSED interval [0,1], and each bin index
      is below the bin count.  The iteration returning [Ok] is a hypothesis (it also depends on the integrand's
      fills); that [icdf] itself never is undefined is part of [C17f_icdf_unit].
    - [C17f_unit_interval_vegas_flat]: the same, flattened: exactly [calls] events; per event pdf_dims
      coordinates, all [unit_closed], and pdf_dims bin indices, all < bins.
    - [C17f_unit_interval_vegas_formats]: the flat statement spelled out for float, double, long double.
    - [C17f_unit_interval_plain], [C17f_unit_interval_mc]: PLAIN and multi-channel over the format with a stream
      in the HALF-OPEN interval ([unit_open], the documented range of generate_canonical): every PLAIN coordinate
      and every number handed to the channel map is a stream entry, hence finite with 0 <= u < 1, both in the
      format's comparisons and as real numbers; exactly d numbers per call; PLAIN weight one.

    WHAT IS NOT PROVED
    - The half-open reading for VEGAS: x < g_{b+1} and x < 1 are FALSE in floating point in general (the
      coordinate can round up to the right boundary, see Properties_C07g.v), so the closed interval is the
      strongest statement; over the reals (Properties_C17.v) the bin is half-open only where the bin is not empty.
    - That the grids produced by refinement satisfy [grid_ok] (that is C07/C08's subject), so the statement is
      per iteration, for a given grid; [C17_run_events] (Properties_C17.v) links runs to iterations.
    - That the real engine's generate_canonical stays inside [0,1] is the hypothesis on [strm] (tie C10/C17).
    - Coordinates produced by a user channel map (multi-channel [o_coords]) are the map's business. *)
From Coq Require Import ZArith NArith List Bool Reals.
From Flocq Require Import Core BinarySingleNaN.
From HepMC Require Import Num NumR NumB Translated Result Accum VegasPdf Discrete MultiChannel Iter
  Lemmas_Run Lemmas_C07f Lemmas_C07g Lemmas_C17 Lemmas_C17f.
Import ListNotations.

Theorem C17f_icdf_unit :
  forall (prec emax : Z) (Hprec : FLX.Prec_gt_0 prec) (Hmax : Prec_lt_emax prec emax), (2 <= prec)%Z ->
  forall (p : pdf (NumB prec emax Hprec Hmax)) (us : list (NumB prec emax Hprec Hmax)),
    grid_ok prec emax Hprec Hmax p -> length us = N.to_nat (pdf_dims p) ->
    Forall (unit_closed prec emax Hprec Hmax) us ->
    exists xs bs w, icdf p us = Ok (xs, bs, w) /\ point_in_bins_f prec emax Hprec Hmax p xs bs.
Proof. exact c17f_icdf_unit. Qed.
Print Assumptions C17f_icdf_unit.

Theorem C17f_unit_interval_vegas :
  forall (prec emax : Z) (Hprec : FLX.Prec_gt_0 prec) (Hmax : Prec_lt_emax prec emax), (2 <= prec)%Z ->
  forall (strm : N -> NumB prec emax Hprec Hmax) ps f (p : pdf (NumB prec emax Hprec Hmax))
         calls g idx r g' idx' tr,
    grid_ok prec emax Hprec Hmax p -> (forall n, unit_closed prec emax Hprec Hmax (strm n)) ->
    vegas_iteration strm ps f p calls g idx = Ok (r, g', idx', tr) ->
    Forall (fun e : event (NumB prec emax Hprec Hmax) =>
              exists o : obs (NumB prec emax Hprec Hmax), e = EvIntegrand o true /\
                point_in_bins_f prec emax Hprec Hmax p (o_point o) (o_bins o)) tr.
Proof. exact c17f_unit_interval_vegas. Qed.
Print Assumptions C17f_unit_interval_vegas.

Theorem C17f_unit_interval_vegas_flat :
  forall (prec emax : Z) (Hprec : FLX.Prec_gt_0 prec) (Hmax : Prec_lt_emax prec emax), (2 <= prec)%Z ->
  forall (strm : N -> NumB prec emax Hprec Hmax) ps f (p : pdf (NumB prec emax Hprec Hmax))
         calls g idx r g' idx' tr,
    grid_ok prec emax Hprec Hmax p -> (forall n, unit_closed prec emax Hprec Hmax (strm n)) ->
    vegas_iteration strm ps f p calls g idx = Ok (r, g', idx', tr) ->
    length tr = N.to_nat calls /\
    Forall (fun e : event (NumB prec emax Hprec Hmax) =>
              exists o : obs (NumB prec emax Hprec Hmax), e = EvIntegrand o true /\
                length (o_point o) = N.to_nat (pdf_dims p) /\ length (o_bins o) = N.to_nat (pdf_dims p) /\
                Forall (unit_closed prec emax Hprec Hmax) (o_point o) /\
                Forall (fun b => (b < pdf_bins p)%N) (o_bins o)) tr.
Proof. exact c17f_unit_interval_vegas_flat. Qed.
Print Assumptions C17f_unit_interval_vegas_flat.

Theorem C17f_unit_interval_vegas_formats :
  (forall (strm : N -> B32) ps f (p : pdf B32) calls g idx r g' idx' tr,
     grid_ok 24 128 P24 M24 p -> (forall n, unit_closed 24 128 P24 M24 (strm n)) ->
     vegas_iteration strm ps f p calls g idx = Ok (r, g', idx', tr) ->
     Forall (fun e : event B32 => exists o : obs B32, e = EvIntegrand o true /\
               Forall (unit_closed 24 128 P24 M24) (o_point o) /\
               Forall (fun b => (b < pdf_bins p)%N) (o_bins o)) tr) /\
  (forall (strm : N -> B64) ps f (p : pdf B64) calls g idx r g' idx' tr,
     grid_ok 53 1024 P53 M53 p -> (forall n, unit_closed 53 1024 P53 M53 (strm n)) ->
     vegas_iteration strm ps f p calls g idx = Ok (r, g', idx', tr) ->
     Forall (fun e : event B64 => exists o : obs B64, e = EvIntegrand o true /\
               Forall (unit_closed 53 1024 P53 M53) (o_point o) /\
               Forall (fun b => (b < pdf_bins p)%N) (o_bins o)) tr) /\
  (forall (strm : N -> B80) ps f (p : pdf B80) calls g idx r g' idx' tr,
     grid_ok 64 16384 P64 M64 p -> (forall n, unit_closed 64 16384 P64 M64 (strm n)) ->
     vegas_iteration strm ps f p calls g idx = Ok (r, g', idx', tr) ->
     Forall (fun e : event B80 => exists o : obs B80, e = EvIntegrand o true /\
               Forall (unit_closed 64 16384 P64 M64) (o_point o) /\
               Forall (fun b => (b < pdf_bins p)%N) (o_bins o)) tr).
Proof. exact c17f_unit_interval_vegas_formats. Qed.
Print Assumptions C17f_unit_interval_vegas_formats.

Theorem C17f_unit_interval_plain :
  forall (prec emax : Z) (Hprec : FLX.Prec_gt_0 prec) (Hmax : Prec_lt_emax prec emax),
  forall (strm : N -> NumB prec emax Hprec Hmax) ps f d calls g idx r g' idx' tr,
    (forall n, unit_open prec emax Hprec Hmax (strm n)) ->
    plain_iteration strm ps f d calls g idx = Ok (r, g', idx', tr) ->
    Forall (fun e : event (NumB prec emax Hprec Hmax) =>
              exists o : obs (NumB prec emax Hprec Hmax), e = EvIntegrand o true /\ length (o_point o) = d /\
                Forall (unit_open prec emax Hprec Hmax) (o_point o) /\
                Forall (unit_open_real prec emax Hprec Hmax) (o_point o) /\
                o_weight o = one (NumB prec emax Hprec Hmax)) tr.
Proof. exact c17f_unit_interval_plain. Qed.
Print Assumptions C17f_unit_interval_plain.

Theorem C17f_unit_interval_mc :
  forall (prec emax : Z) (Hprec : FLX.Prec_gt_0 prec) (Hmax : Prec_lt_emax prec emax),
  forall (strm : N -> NumB prec emax Hprec Hmax) ps f mp d ws calls g idx r g' idx' tr,
    (forall n, unit_open prec emax Hprec Hmax (strm n)) ->
    mc_iteration strm ps f mp d ws calls g idx = Ok (r, g', idx', tr) ->
    Forall (fun e : event (NumB prec emax Hprec Hmax) =>
              match e with
              | EvMapCoords _ us _ => length us = d /\ Forall (unit_open prec emax Hprec Hmax) us
              | EvIntegrand o _ => length (o_point o) = d /\ Forall (unit_open prec emax Hprec Hmax) (o_point o)
              | EvMapDens _ us _ _ => length us = d /\ Forall (unit_open prec emax Hprec Hmax) us
              end) tr.
Proof. exact c17f_unit_interval_mc. Qed.
Print Assumptions C17f_unit_interval_mc.

(** Non-vacuity (single precision; all values computed through the wire representation [Bout]).
    [ex17f_obs_out e] = (map Bout (o_point o), o_bins o, Bout (o_weight o)) for e = EvIntegrand o _. *)

(* the library's starting grid uniform_pdf 2 3 and the closed stream 0, 1/4, 1/2, 3/4, 1, 0, ... satisfy the
   hypotheses of the VEGAS theorems; 5 calls return Ok and consume 10 numbers.  Third call (entries 1 and 0): the
   clamped 1 gives the coordinate 16777214 * 2^-24 < 1 in bin 2, the 0 gives +0 in bin 0; fifth call (3/4 and 1):
   3/4 in bin 2 and again 16777214 * 2^-24 in bin 2 *)
Example C17f_example_vegas :
  grid_ok 24 128 P24 M24 ex07f_p /\ (forall n, unit_closed 24 128 P24 M24 (ex17f_strm n)) /\
  exists r tr e2 e4,
    vegas_iteration ex17f_strm [] ex17f_f ex07f_p 5 0 0 = Ok (r, 10%N, 5%N, tr) /\ length tr = 5%nat /\
    nth_error tr 2 = Some e2 /\ nth_error tr 4 = Some e4 /\
    fst (ex17f_obs_out e2) = ([OFin false 16777214 (-24); OZero false], [2; 0]%N) /\
    fst (ex17f_obs_out e4) = ([OFin false 12582912 (-24); OFin false 16777214 (-24)], [2; 2]%N).
Proof. exact c17f_example_vegas. Qed.

(* the half-open stream 0, 1/4, 1/2, 3/4, 0, ... satisfies the hypothesis of the PLAIN / multi-channel theorems;
   3 calls of 2 numbers see the points (0, 1/4), (1/2, 3/4), (0, 1/4) *)
Example C17f_example_plain :
  (forall n, unit_open 24 128 P24 M24 (ex17f_strm_o n)) /\
  exists r e0 e1 e2,
    plain_iteration ex17f_strm_o [] ex17f_f 2 3 0 0 = Ok (r, 6%N, 3%N, [e0; e1; e2]) /\
    fst (fst (ex17f_obs_out e0)) = [OZero false; OFin false 8388608 (-25)] /\
    fst (fst (ex17f_obs_out e1)) = [OFin false 8388608 (-24); OFin false 12582912 (-24)] /\
    fst (fst (ex17f_obs_out e2)) = [OZero false; OFin false 8388608 (-25)].
Proof. exact c17f_example_plain. Qed.
