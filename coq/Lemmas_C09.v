(** Lemmas for C09: channel selection follows the weights exactly, never a disabled channel.
    (a) every [Num] with [OrdLaws]: libstdc++'s bisection [upper_bound] on a non-decreasing list;
    (b) every [Num] whose [ltb] is read off a real valuation on the admissible values: interval
        characterisation of [upper_bound];
    (c) [NumR]: [select] picks channel i iff s_{i-1} <= u < s_i, interval length = w_i / sum;
    (d) [NumB prec emax]: the selected index is valid and its weight is not a zero. *)
From Coq Require Import ZArith NArith List Reals Lra Lia Bool.
From Flocq Require Import Core BinarySingleNaN.
From HepMC Require Import Num NumR NumB Discrete.
Import ListNotations.

(* ------------------------------------------------------------------------------------------- *)
(** * (a) the bisection *)
Section UB.
  Context {K : Num}.

  (** [ltb] restricted to the admissible values [P] is a strict weak order, i.e. a strict total
      order on the classes of "neither a < b nor b < a": irreflexive, transitive, and every [b]
      is comparable with one end of every strictly ordered pair (negative transitivity, which makes
      incomparability an equivalence compatible with the order). *)
  Record OrdLaws (P : K -> Prop) : Prop := {
    ol_irrefl : forall a, P a -> ltb K a a = false;
    ol_trans : forall a b c, P a -> P b -> P c ->
      ltb K a b = true -> ltb K b c = true -> ltb K a c = true;
    ol_total : forall a b c, P a -> P b -> P c ->
      ltb K a c = true -> ltb K a b = true \/ ltb K b c = true }.

  (** no later element is [ltb] an earlier one *)
  Definition nondecr (l : list K) : Prop :=
    forall i j a b, (i <= j)%nat -> nth_error l i = Some a -> nth_error l j = Some b ->
      ltb K b a = false.

  (** number of elements that are not strictly greater than [u] *)
  Definition count_le (l : list K) (u : K) : nat :=
    length (filter (fun e => negb (ltb K u e)) l).

  (** [r] is the index of the first element strictly greater than [u] *)
  Definition is_ub (l : list K) (u : K) (r : nat) : Prop :=
    (r <= length l)%nat /\
    (forall i e, (i < r)%nat -> nth_error l i = Some e -> ltb K u e = false) /\
    (forall i e, (r <= i)%nat -> nth_error l i = Some e -> ltb K u e = true).

  Lemma is_ub_unique l u r r' : is_ub l u r -> is_ub l u r' -> r = r'.
  Proof.
    intros (L1 & A1 & B1) (L2 & A2 & B2).
    destruct (lt_eq_lt_dec r r') as [[H|H]|H]; [|exact H|].
    - destruct (nth_error l r) as [e|] eqn:E.
      + pose proof (B1 r e (le_n _) E) as X. rewrite (A2 r e H E) in X. discriminate X.
      + apply nth_error_None in E. lia.
    - destruct (nth_error l r') as [e|] eqn:E.
      + pose proof (B2 r' e (le_n _) E) as X. rewrite (A1 r' e H E) in X. discriminate X.
      + apply nth_error_None in E. lia.
  Qed.

  Lemma is_ub_count : forall l u r, is_ub l u r -> count_le l u = r.
  Proof.
    induction l as [|e l IH]; intros u r (L & A & B).
    - cbn in L. cbn. lia.
    - destruct r as [|r].
      + unfold count_le. cbn [filter]. rewrite (B 0%nat e (le_n _) eq_refl). cbn [negb].
        apply (IH u 0%nat). split; [lia|]. split.
        * intros i e' Hi. lia.
        * intros i e' Hi E. apply (B (S i) e'); [lia|exact E].
      + unfold count_le. cbn [filter]. rewrite (A 0%nat e ltac:(lia) eq_refl). cbn [negb length].
        f_equal. apply (IH u r). split; [cbn in L; lia|]. split.
        * intros i e' Hi E. apply (A (S i) e'); [lia|exact E].
        * intros i e' Hi E. apply (B (S i) e'); [lia|exact E].
  Qed.

  Lemma ub_loop_spec (P : K -> Prop) l u : OrdLaws P -> P u -> Forall P l -> nondecr l ->
    forall fuel first len,
      (N.to_nat len < fuel)%nat -> (N.to_nat first + N.to_nat len <= length l)%nat ->
      (forall i e, (i < N.to_nat first)%nat -> nth_error l i = Some e -> ltb K u e = false) ->
      (forall i e, (N.to_nat first + N.to_nat len <= i)%nat -> nth_error l i = Some e ->
                   ltb K u e = true) ->
      exists r, ub_loop fuel l u first len = N.of_nat r /\ is_ub l u r.
  Proof.
    intros OL Pu Pl ND. induction fuel as [|fuel IH]; intros first len Hf Hl HA HB; [lia|].
    cbn [ub_loop]. destruct (N.eqb len 0) eqn:E0.
    - apply N.eqb_eq in E0. subst len. exists (N.to_nat first). split; [lia|].
      split; [lia|]. split; [exact HA|]. intros i e Hi. apply HB. lia.
    - apply N.eqb_neq in E0. rewrite N.div2_div.
      assert (Hh : (len / 2 < len)%N) by (apply N.div_lt; lia).
      remember (len / 2)%N as h eqn:Eh. clear Eh.
      assert (Hm : (N.to_nat (first + h) < length l)%nat) by lia.
      unfold nthN. destruct (nth_error l (N.to_nat (first + h))) as [e|] eqn:Em;
        [|apply nth_error_None in Em; lia].
      assert (Pe : P e). { rewrite Forall_forall in Pl. apply Pl. eapply nth_error_In; eauto. }
      destruct (ltb K u e) eqn:Eu.
      + apply IH; [lia|lia|exact HA|].
        intros i e' Hi Ei.
        assert (Pe' : P e'). { rewrite Forall_forall in Pl. apply Pl. eapply nth_error_In; eauto. }
        assert (X : ltb K e' e = false) by (apply (ND (N.to_nat (first + h)) i); [lia|exact Em|exact Ei]).
        destruct (ol_total P OL u e' e Pu Pe' Pe Eu) as [Y|Y]; [exact Y|]. rewrite X in Y. discriminate Y.
      + apply IH; [lia|lia| |].
        * intros i e' Hi Ei.
          assert (Pe' : P e'). { rewrite Forall_forall in Pl. apply Pl. eapply nth_error_In; eauto. }
          assert (X : ltb K e e' = false) by (apply (ND i (N.to_nat (first + h))); [lia|exact Ei|exact Em]).
          destruct (ltb K u e') eqn:Eu'; [|reflexivity].
          destruct (ol_total P OL u e e' Pu Pe Pe' Eu') as [Y|Y].
          -- rewrite Eu in Y. discriminate Y.
          -- rewrite X in Y. discriminate Y.
        * intros i e' Hi Ei. apply (HB i e'); [lia|exact Ei].
  Qed.

  Lemma upper_bound_is_ub (P : K -> Prop) l u : OrdLaws P -> P u -> Forall P l -> nondecr l ->
    exists r, upper_bound l u = N.of_nat r /\ is_ub l u r.
  Proof.
    intros OL Pu Pl ND. unfold upper_bound.
    apply (ub_loop_spec P l u OL Pu Pl ND); [lia|lia| |].
    - intros i e Hi. cbn in Hi. lia.
    - intros i e Hi E. assert (nth_error l i <> None) by congruence.
      apply nth_error_Some in H. lia.
  Qed.

  Lemma upper_bound_spec (P : K -> Prop) l u : OrdLaws P -> P u -> Forall P l -> nondecr l ->
    upper_bound l u = N.of_nat (count_le l u) /\ is_ub l u (count_le l u).
  Proof.
    intros OL Pu Pl ND. destruct (upper_bound_is_ub P l u OL Pu Pl ND) as (r & E & U).
    rewrite (is_ub_count l u r U). split; assumption.
  Qed.
End UB.

(* ------------------------------------------------------------------------------------------- *)
(** * (b) [ltb] read off a real valuation *)
Local Open Scope R_scope.

Section Val.
  Context {K : Num} (P : K -> Prop) (v : K -> R).
  Hypothesis Hlt : forall a b, P a -> P b -> ltb K a b = Rltb (v a) (v b).

  Lemma val_ordlaws : OrdLaws P.
  Proof.
    split.
    - intros a Pa. rewrite Hlt by assumption. apply Rltb_false. lra.
    - intros a b c Pa Pb Pc. rewrite !Hlt by assumption. rewrite !Rltb_true. lra.
    - intros a b c Pa Pb Pc. rewrite !Hlt by assumption. rewrite !Rltb_true.
      intros H. destruct (Rlt_dec (v a) (v b)); [left; assumption|right; lra].
  Qed.

  Definition vnondecr (l : list K) : Prop :=
    forall i j a b, (i <= j)%nat -> nth_error l i = Some a -> nth_error l j = Some b -> v a <= v b.

  Lemma Forall_nth_error (Q : K -> Prop) l i e : Forall Q l -> nth_error l i = Some e -> Q e.
  Proof. intros F E. rewrite Forall_forall in F. apply F. eapply nth_error_In; eauto. Qed.

  Lemma val_nondecr l : Forall P l -> vnondecr l -> nondecr l.
  Proof.
    intros Pl V i j a b Hij Ea Eb.
    rewrite Hlt by (eapply Forall_nth_error; eauto). apply Rltb_false. eapply V; eauto.
  Qed.

  Lemma ub_interval l u r : P u -> Forall P l -> vnondecr l ->
    (upper_bound l u = N.of_nat r <->
     (r <= length l)%nat /\
     (forall j e, r = S j -> nth_error l j = Some e -> v e <= v u) /\
     (forall e, nth_error l r = Some e -> v u < v e)).
  Proof.
    intros Pu Pl V.
    destruct (upper_bound_is_ub P l u val_ordlaws Pu Pl (val_nondecr l Pl V)) as (r' & E & U).
    split.
    - intros H. rewrite E in H. apply Nat2N.inj in H. subst r'. destruct U as (L & A & B).
      split; [exact L|]. split.
      + intros j e -> Ej. apply Rltb_false. rewrite <- Hlt; [|exact Pu|eapply Forall_nth_error; eauto].
        apply (A j e); [lia|exact Ej].
      + intros e Er. apply Rltb_true. rewrite <- Hlt; [|exact Pu|eapply Forall_nth_error; eauto].
        apply (B r e); [lia|exact Er].
    - intros (L & A & B). rewrite E. f_equal. apply (is_ub_unique l u r' r U).
      split; [exact L|]. split.
      + intros i e Hi Ei. rewrite Hlt; [|exact Pu|eapply Forall_nth_error; eauto]. apply Rltb_false.
        destruct r as [|j]; [lia|].
        destruct (nth_error l j) as [ej|] eqn:Ej; [|apply nth_error_None in Ej; lia].
        apply Rle_trans with (v ej); [apply (V i j); [lia|exact Ei|exact Ej]|apply (A j ej eq_refl Ej)].
      + intros i e Hi Ei. rewrite Hlt; [|exact Pu|eapply Forall_nth_error; eauto]. apply Rltb_true.
        destruct (nth_error l r) as [er|] eqn:Er.
        * apply Rlt_le_trans with (v er); [apply (B er eq_refl)|apply (V r i); [lia|exact Er|exact Ei]].
        * apply nth_error_None in Er. assert (nth_error l i <> None) by congruence.
          apply nth_error_Some in H. lia.
  Qed.
End Val.

(* ------------------------------------------------------------------------------------------- *)
(** * (c) the reals *)
Definition Rsum (l : list R) : R := fold_right Rplus 0 l.
Definition nonneg (l : list R) : Prop := Forall (fun w => 0 <= w) l.

(** s_{i-1} (0 for the first channel) and s_i of the model's cumulative normalised weights *)
Definition cum_lo (ws : list R) (i : nat) : R :=
  match i with O => 0 | S j => nth j (@cumulative NumR ws) 0 end.
Definition cum_hi (ws : list R) (i : nat) : R := nth i (@cumulative NumR ws) 0.

Lemma psums_from_length {K : Num} : forall (l : list K) acc, length (psums_from acc l) = length l.
Proof. induction l as [|w l IH]; intros acc; cbn; [reflexivity|]. rewrite IH. reflexivity. Qed.

Lemma psums_length {K : Num} (ws : list K) : length (psums ws) = length ws.
Proof. destruct ws as [|w ws]; cbn; [reflexivity|]. rewrite psums_from_length. reflexivity. Qed.

Lemma cumulative_length {K : Num} (ws : list K) : length (cumulative ws) = length ws.
Proof. unfold cumulative, normalise. rewrite map_length. apply psums_length. Qed.

Lemma psums_from_nth_R : forall (l : list R) (acc : R) i, (i < length l)%nat ->
  nth_error (@psums_from NumR acc l) i = Some (acc + Rsum (firstn (S i) l)).
Proof.
  induction l as [|w l IH]; intros acc i Hi; [cbn [length] in Hi; lia|].
  destruct i as [|i].
  - cbn. f_equal. destruct l; cbn; ring.
  - cbn [psums_from nth_error]. rewrite IH by (cbn [length] in Hi; lia).
    f_equal. change (add NumR acc w) with (acc + w). cbn [firstn Rsum fold_right].
    change (fold_right Rplus 0 (firstn (S i) l)) with (Rsum (firstn (S i) l)). ring.
Qed.

Lemma psums_nth_R (ws : list R) i : (i < length ws)%nat ->
  nth_error (@psums NumR ws) i = Some (Rsum (firstn (S i) ws)).
Proof.
  destruct ws as [|w ws]; intros Hi; [cbn [length] in Hi; lia|].
  destruct i as [|i].
  - cbn. f_equal. ring.
  - cbn [psums nth_error]. rewrite psums_from_nth_R by (cbn [length] in Hi; lia). reflexivity.
Qed.

Lemma last_psums_from_R : forall (l : list R) (acc d : R),
  last (acc :: @psums_from NumR acc l) d = acc + Rsum l.
Proof.
  induction l as [|w l IH]; intros acc d.
  - cbn. ring.
  - cbn [psums_from]. change (last (acc :: add NumR acc w :: psums_from (add NumR acc w) l) d)
      with (last (add NumR acc w :: psums_from (add NumR acc w) l) d).
    rewrite IH. change (add NumR acc w) with (acc + w). unfold Rsum. cbn [fold_right]. change (T NumR) with R. ring.
Qed.

Lemma last_psums_R (ws : list R) : last (@psums NumR ws) 0 = Rsum ws.
Proof. destruct ws as [|w ws]; [reflexivity|]. cbn [psums]. rewrite last_psums_from_R. reflexivity. Qed.

Lemma cumulative_nth_error_R (ws : list R) i : (i < length ws)%nat ->
  nth_error (@cumulative NumR ws) i = Some (Rsum (firstn (S i) ws) / Rsum ws).
Proof.
  intros Hi. unfold cumulative, normalise. rewrite nth_error_map, psums_nth_R by exact Hi.
  cbn [option_map]. change (zero NumR) with 0. rewrite last_psums_R. reflexivity.
Qed.

Lemma Rsum_firstn_S : forall (ws : list R) i, (i < length ws)%nat ->
  Rsum (firstn (S i) ws) = Rsum (firstn i ws) + nth i ws 0.
Proof.
  induction ws as [|w ws IH]; intros i Hi; [cbn [length] in Hi; lia|].
  destruct i as [|i].
  - cbn. ring.
  - change (Rsum (firstn (S (S i)) (w :: ws))) with (w + Rsum (firstn (S i) ws)).
    rewrite IH by (cbn [length] in Hi; lia). cbn [nth]. unfold Rsum. cbn [firstn fold_right]. ring.
Qed.

Lemma Rsum_firstn_mono : forall (ws : list R) i j, nonneg ws -> (i <= j)%nat ->
  Rsum (firstn i ws) <= Rsum (firstn j ws).
Proof.
  induction ws as [|w ws IH]; intros i j NN Hij.
  - rewrite !firstn_nil. lra.
  - inversion NN as [|x y Hw NN']; subst. unfold Rsum in *. destruct i as [|i].
    + destruct j as [|j]; [cbn; lra|].
      pose proof (IH 0%nat j NN' ltac:(lia)) as X. cbn [firstn fold_right] in *. lra.
    + destruct j as [|j]; [lia|]. pose proof (IH i j NN' ltac:(lia)) as X.
      cbn [firstn fold_right] in *. lra.
Qed.

Lemma cum_lo_R (ws : list R) i : (i <= length ws)%nat -> cum_lo ws i = Rsum (firstn i ws) / Rsum ws.
Proof.
  intros Hi. destruct i as [|i].
  - cbn. unfold Rdiv. ring.
  - unfold cum_lo. apply nth_error_nth. apply cumulative_nth_error_R. lia.
Qed.

Lemma cum_hi_R (ws : list R) i : (i < length ws)%nat -> cum_hi ws i = Rsum (firstn (S i) ws) / Rsum ws.
Proof. intros Hi. unfold cum_hi. apply nth_error_nth. apply cumulative_nth_error_R. exact Hi. Qed.

Lemma c09_interval_length (ws : list R) i : (i < length ws)%nat ->
  cum_hi ws i - cum_lo ws i = nth i ws 0 / Rsum ws.
Proof.
  intros Hi. rewrite cum_hi_R, cum_lo_R, Rsum_firstn_S by lia. unfold Rdiv. ring.
Qed.

Lemma cumulative_vnondecr_R (ws : list R) : nonneg ws -> 0 < Rsum ws ->
  @vnondecr NumR (fun x => x) (@cumulative NumR ws).
Proof.
  intros NN Hs i j a b Hij Ea Eb.
  assert (Hj : (j < length ws)%nat).
  { assert (X : nth_error (@cumulative NumR ws) j <> None) by congruence.
    apply nth_error_Some in X. rewrite (@cumulative_length NumR ws) in X. exact X. }
  rewrite cumulative_nth_error_R in Ea, Eb by lia. injection Ea as <-. injection Eb as <-.
  unfold Rdiv. apply Rmult_le_compat_r; [left; apply Rinv_0_lt_compat; exact Hs|].
  apply (Rsum_firstn_mono ws (S i) (S j)); [exact NN|lia].
Qed.

Lemma c09_select_interval (ws : list R) (u : R) i : nonneg ws -> 0 < Rsum ws -> 0 <= u < 1 ->
  (@select NumR ws u = N.of_nat i <-> (i < length ws)%nat /\ cum_lo ws i <= u < cum_hi ws i).
Proof.
  intros NN Hs Hu. unfold select.
  assert (Hlt : forall a b : NumR, True -> True -> ltb NumR a b = Rltb a b) by reflexivity.
  rewrite (@ub_interval NumR (fun _ => True) (fun x => x) Hlt (@cumulative NumR ws) u i I
             ltac:(apply Forall_forall; intros; exact I) (cumulative_vnondecr_R ws NN Hs)).
  rewrite (@cumulative_length NumR ws). split.
  - intros (L & A & B). change (T NumR) with R in L.
    assert (Hi : (i < length ws)%nat).
    { destruct (Nat.eq_dec i (length ws)) as [E|E]; [|lia]. exfalso.
      destruct i as [|j]; [destruct ws; [cbn in Hs; lra|discriminate E]|].
      pose proof (A j _ eq_refl (cumulative_nth_error_R ws j ltac:(lia))) as X.
      rewrite E, firstn_all in X. unfold Rdiv in X. rewrite Rinv_r in X; lra. }
    split; [exact Hi|]. split.
    + destruct i as [|j]; [cbn; lra|]. unfold cum_lo.
      pose proof (cumulative_nth_error_R ws j ltac:(lia)) as Ej.
      rewrite (nth_error_nth _ _ _ Ej). apply (A j _ eq_refl Ej).
    + unfold cum_hi. pose proof (cumulative_nth_error_R ws i Hi) as Ei.
      rewrite (nth_error_nth _ _ _ Ei). apply (B _ Ei).
  - intros (Hi & Hlo & Hhi). change (T NumR) with R. split; [lia|]. split.
    + intros j e -> Ej. unfold cum_lo in Hlo. rewrite (nth_error_nth _ _ _ Ej) in Hlo. exact Hlo.
    + intros e Ei. unfold cum_hi in Hhi. rewrite (nth_error_nth _ _ _ Ei) in Hhi. exact Hhi.
Qed.

Lemma c09_select_valid (ws : list R) (u : R) : nonneg ws -> 0 < Rsum ws -> 0 <= u < 1 ->
  (@select NumR ws u < N.of_nat (length ws))%N.
Proof.
  intros NN Hs Hu.
  assert (Hlt : forall a b : NumR, True -> True -> ltb NumR a b = Rltb a b) by reflexivity.
  destruct (@upper_bound_is_ub NumR (fun _ => True) (@cumulative NumR ws) u (val_ordlaws _ _ Hlt) I
              ltac:(apply Forall_forall; intros; exact I)
              (val_nondecr _ _ Hlt _ ltac:(apply Forall_forall; intros; exact I)
                 (cumulative_vnondecr_R ws NN Hs))) as (r & E & _).
  fold (@select NumR ws u) in E. pose proof (proj1 (c09_select_interval ws u r NN Hs Hu) E) as (Hr & _).
  rewrite E. lia.
Qed.

Lemma c09_select_never_disabled (ws : list R) (u : R) i : nonneg ws -> 0 < Rsum ws -> 0 <= u < 1 ->
  nth i ws 0 = 0 -> @select NumR ws u <> N.of_nat i.
Proof.
  intros NN Hs Hu Hw E. apply (c09_select_interval ws u i NN Hs Hu) in E. destruct E as (Hi & Hlo & Hhi).
  pose proof (c09_interval_length ws i Hi) as X. rewrite Hw in X. unfold Rdiv in X. lra.
Qed.

(* the cumulative normalised weights in closed form *)
Lemma c09_cumulative_closed_form (ws : list R) i : (i < length ws)%nat ->
  cum_lo ws i = Rsum (firstn i ws) / Rsum ws /\ cum_hi ws i = Rsum (firstn (S i) ws) / Rsum ws.
Proof. intros Hi. split; [apply cum_lo_R; lia|apply cum_hi_R; exact Hi]. Qed.

(* ------------------------------------------------------------------------------------------- *)
(** * (d) IEEE-754 binary formats *)
Section PsumsIdx.
  Context {K : Num}.

  Lemma psums_from_step : forall (l : list K) acc i s w,
    nth_error (acc :: psums_from acc l) i = Some s -> nth_error l i = Some w ->
    nth_error (psums_from acc l) i = Some (add K s w).
  Proof.
    induction l as [|w0 l IH]; intros acc i s w Es Ew; [destruct i; discriminate Ew|].
    destruct i as [|i].
    - cbn in Es, Ew. injection Es as <-. injection Ew as <-. reflexivity.
    - cbn [psums_from nth_error] in *. apply IH; assumption.
  Qed.

  Lemma psums_step (ws : list K) i s w :
    nth_error (psums ws) i = Some s -> nth_error ws (S i) = Some w ->
    nth_error (psums ws) (S i) = Some (add K s w).
  Proof.
    destruct ws as [|w0 rest]; [discriminate|]. cbn [psums nth_error]. apply psums_from_step.
  Qed.

  Lemma psums_0 (ws : list K) : nth_error (psums ws) 0 = nth_error ws 0.
  Proof. destruct ws; reflexivity. Qed.

  Lemma nth_error_last {A} : forall (l : list A) d, l <> [] -> nth_error l (length l - 1) = Some (last l d).
  Proof.
    induction l as [|a l IH]; intros d Hl; [congruence|].
    destruct l as [|b l]; [reflexivity|].
    change (last (a :: b :: l) d) with (last (b :: l) d). rewrite <- (IH d) by discriminate.
    cbn [length]. replace (S (S (length l)) - 1)%nat with (S (S (length l) - 1)) by lia. reflexivity.
  Qed.

  Lemma adj_vnondecr (v : K -> R) (l : list K) :
    (forall i a b, nth_error l i = Some a -> nth_error l (S i) = Some b -> v a <= v b) ->
    vnondecr v l.
  Proof.
    intros Adj i j a b Hij. replace j with (i + (j - i))%nat by lia. generalize (j - i)%nat as k.
    clear Hij j. intros k. revert b. induction k as [|k IH]; intros b Ea Eb.
    - rewrite Nat.add_0_r in Eb. rewrite Ea in Eb. injection Eb as <-. lra.
    - destruct (nth_error l (i + k)) as [c|] eqn:Ec.
      + apply Rle_trans with (v c); [apply IH; [exact Ea|reflexivity]|].
        apply (Adj (i + k)%nat); [exact Ec|]. rewrite <- Eb. f_equal. lia.
      + apply nth_error_None in Ec. assert (X : nth_error l (i + S k) <> None) by congruence.
        apply nth_error_Some in X. lia.
  Qed.
End PsumsIdx.

Section Float.
  Variables prec emax : Z.
  Context (Hprec : FLX.Prec_gt_0 prec) (Hmax : Prec_lt_emax prec emax).
  Notation KB := (NumB prec emax Hprec Hmax).
  Notation F := (binary_float prec emax).
  Notation rnd := (round radix2 (SpecFloat.fexp prec emax) (round_mode mode_NE)).

  Local Instance vexpB : Valid_exp (SpecFloat.fexp prec emax) := fexp_correct prec emax Hprec.

  Lemma rnd_le x y : x <= y -> rnd x <= rnd y.
  Proof. apply round_le; auto with typeclass_instances. Qed.
  Lemma rnd_0 : rnd 0 = 0.
  Proof. apply round_0; auto with typeclass_instances. Qed.
  Lemma rnd_1 : rnd 1 = 1.
  Proof.
    apply round_generic; [auto with typeclass_instances|].
    change 1 with (bpow radix2 0). apply generic_format_bpow.
    unfold SpecFloat.fexp, SpecFloat.emin. unfold FLX.Prec_gt_0, Prec_lt_emax in *. lia.
  Qed.
  Lemma one_lt_emax : 1 < bpow radix2 emax.
  Proof. change 1 with (bpow radix2 0). apply bpow_lt. unfold FLX.Prec_gt_0, Prec_lt_emax in *. lia. Qed.

  Lemma Rlt_bool_Rltb a b : Rlt_bool a b = Rltb a b.
  Proof.
    destruct (Rlt_bool_spec a b) as [H|H]; symmetry; [apply Rltb_true|apply Rltb_false]; assumption.
  Qed.

  Lemma Bltb_R (x y : F) : is_finite x = true -> is_finite y = true -> Bltb x y = Rltb (B2R x) (B2R y).
  Proof. intros Fx Fy. rewrite Bltb_correct by assumption. apply Rlt_bool_Rltb. Qed.

  Lemma Bplus_fin_inv (x y : F) : is_finite (Bplus mode_NE x y) = true ->
    is_finite x = true /\ is_finite y = true.
  Proof.
    destruct x as [sx|sx| |sx mx ex Hx], y as [sy|sy| |sy my ey Hy]; cbn; try (intros; split; congruence).
    destruct (Bool.eqb sx sy); cbn; intros; congruence.
  Qed.

  Lemma overflow_not_finite (z : F) s : B2SF z = binary_overflow prec emax mode_NE s -> is_finite z = false.
  Proof. intros H. rewrite <- is_finite_SF_B2SF, H. reflexivity. Qed.

  Lemma Bplus_fin_R (x y : F) : is_finite (Bplus mode_NE x y) = true ->
    B2R (Bplus mode_NE x y) = rnd (B2R x + B2R y).
  Proof.
    intros Fz. destruct (Bplus_fin_inv x y Fz) as (Fx & Fy).
    pose proof (Bplus_correct prec emax Hprec Hmax mode_NE x y Fx Fy) as C.
    destruct (Rlt_bool _ _).
    - apply C.
    - destruct C as (C & _). apply overflow_not_finite in C. congruence.
  Qed.

  Lemma Bdiv_unit_R (x y : F) : is_finite x = true -> 0 <= B2R x <= B2R y -> 0 < B2R y ->
    is_finite (Bdiv mode_NE x y) = true /\ B2R (Bdiv mode_NE x y) = rnd (B2R x / B2R y).
  Proof.
    intros Fx Hx Hy.
    pose proof (Bdiv_correct prec emax Hprec Hmax mode_NE x y ltac:(lra)) as C.
    assert (Q : 0 <= B2R x / B2R y <= 1).
    { split.
      - apply Rmult_le_pos; [lra|left; apply Rinv_0_lt_compat; exact Hy].
      - apply Rmult_le_reg_r with (B2R y); [exact Hy|]. unfold Rdiv.
        rewrite Rmult_assoc, Rinv_l by lra. lra. }
    assert (Q' : 0 <= rnd (B2R x / B2R y) <= 1).
    { split; [rewrite <- rnd_0|rewrite <- rnd_1]; apply rnd_le; lra. }
    rewrite Rlt_bool_true in C.
    - destruct C as (C1 & C2 & _). rewrite C2. split; [exact Fx|exact C1].
    - rewrite Rabs_pos_eq by lra. pose proof one_lt_emax. lra.
  Qed.

  Lemma Bone_R : is_finite (Bone' prec emax Hprec Hmax) = true /\ B2R (Bone' prec emax Hprec Hmax) = 1.
  Proof.
    unfold Bone', BofZ.
    pose proof (binary_normalize_correct prec emax Hprec Hmax mode_NE 1 0 false) as C. cbv zeta in C.
    assert (E : F2R (Float radix2 1 0) = 1) by (unfold F2R; cbn; lra).
    rewrite E, rnd_1 in C. rewrite Rlt_bool_true in C.
    - destruct C as (C1 & C2 & _). split; assumption.
    - rewrite Rabs_pos_eq by lra. apply one_lt_emax.
  Qed.

  Lemma Beqb_zero_R (w : F) : is_finite w = true -> Beqb w (B754_zero false) = true -> B2R w = 0.
  Proof.
    intros Fw H. rewrite Beqb_correct in H by (try assumption; reflexivity).
    cbn in H. destruct (Req_bool_spec (B2R w) 0); [assumption|discriminate].
  Qed.

  Lemma rnd_B2R (x : F) : rnd (B2R x) = B2R x.
  Proof. apply round_generic; [auto with typeclass_instances|]. apply generic_format_B2R. Qed.

  (** hypotheses of the float theorems, in the model's own operations *)
  Definition fin_nonneg (w : KB) : Prop := isfinite KB w = true /\ ltb KB w (zero KB) = false.
  Definition float_weights_ok (ws : list KB) : Prop :=
    Forall fin_nonneg ws /\
    isfinite KB (last (psums ws) (zero KB)) = true /\
    ltb KB (zero KB) (last (psums ws) (zero KB)) = true.
  Definition canonical_ok (u : KB) : Prop :=
    isfinite KB u = true /\ ltb KB u (zero KB) = false /\ ltb KB u (one KB) = true.

  Lemma fin_nonneg_R (w : KB) : fin_nonneg w -> is_finite w = true /\ 0 <= B2R w.
  Proof.
    intros (Fw & Hw). split; [exact Fw|]. change (Bltb w (B754_zero false) = false) in Hw.
    rewrite Bltb_R in Hw by (try exact Fw; reflexivity). apply Rltb_false in Hw. exact Hw.
  Qed.

  Lemma canonical_ok_R (u : KB) : canonical_ok u -> is_finite u = true /\ 0 <= B2R u < 1.
  Proof.
    intros (Fu & H0 & H1). split; [exact Fu|].
    change (Bltb u (B754_zero false) = false) in H0.
    change (Bltb u (Bone' prec emax Hprec Hmax) = true) in H1.
    destruct Bone_R as (F1 & E1).
    rewrite Bltb_R in H0 by (try exact Fu; reflexivity). apply Rltb_false in H0.
    rewrite Bltb_R in H1 by assumption. apply Rltb_true in H1. rewrite E1 in H1.
    split; assumption.
  Qed.

  Lemma psums_from_fin : forall (l : list KB) (acc d : KB),
    is_finite (last (acc :: @psums_from KB acc l) d) = true ->
    Forall (fun s : KB => is_finite s = true) (acc :: @psums_from KB acc l).
  Proof.
    induction l as [|w l IH]; intros acc d H.
    - cbn in H. constructor; [exact H|constructor].
    - cbn [psums_from] in *.
      change (last (acc :: add KB acc w :: psums_from (add KB acc w) l) d)
        with (last (add KB acc w :: psums_from (add KB acc w) l) d) in H.
      pose proof (IH _ _ H) as X. constructor; [|exact X].
      inversion X as [|x y Hx _]; subst. apply (Bplus_fin_inv acc w Hx).
  Qed.

  Lemma psums_fin (ws : list KB) : is_finite (last (@psums KB ws) (zero KB)) = true ->
    Forall (fun s : KB => is_finite s = true) (@psums KB ws).
  Proof. destruct ws as [|w ws]; [constructor|]. cbn [psums]. apply psums_from_fin. Qed.

  Definition finB (x : KB) : Prop := is_finite x = true.
  Definition vB (x : KB) : R := B2R x.
  Lemma HltB : forall a b : KB, finB a -> finB b -> ltb KB a b = Rltb (vB a) (vB b).
  Proof. exact Bltb_R. Qed.

  Section Sel.
    Variable ws : list KB.
    Hypothesis Hws : float_weights_ok ws.
    Let ss := @psums KB ws.
    Let tot : KB := last ss (zero KB).

    Lemma ss_fin : Forall (fun s : KB => is_finite s = true) ss.
    Proof. apply psums_fin. apply Hws. Qed.

    Lemma tot_R : is_finite tot = true /\ 0 < B2R tot.
    Proof.
      destruct Hws as (_ & Ft & Pt). split; [exact Ft|].
      change (Bltb (B754_zero false) tot = true) in Pt.
      rewrite Bltb_R in Pt by (try exact Ft; reflexivity). apply Rltb_true in Pt. exact Pt.
    Qed.

    Lemma ws_nth_R i w : nth_error ws i = Some w -> is_finite w = true /\ 0 <= B2R w.
    Proof.
      intros E. apply fin_nonneg_R. destruct Hws as (A & _). rewrite Forall_forall in A.
      apply A. eapply nth_error_In; eauto.
    Qed.

    Lemma ss_step_R i a w : nth_error ss i = Some a -> nth_error ws (S i) = Some w ->
      exists b, nth_error ss (S i) = Some b /\ B2R b = rnd (B2R a + B2R w).
    Proof.
      intros Ea Ew. exists (add KB a w). split; [apply (@psums_step KB ws i a w); assumption|].
      apply Bplus_fin_R. apply (Forall_nth_error (fun s : KB => is_finite s = true) ss (S i)).
      - exact ss_fin.
      - apply (@psums_step KB ws i a w); assumption.
    Qed.

    Lemma ss_adj i a b : nth_error ss i = Some a -> nth_error ss (S i) = Some b -> B2R a <= B2R b.
    Proof.
      intros Ea Eb.
      assert (L : (S i < length ws)%nat).
      { rewrite <- (@psums_length KB ws). apply nth_error_Some. fold ss. congruence. }
      destruct (nth_error ws (S i)) as [w|] eqn:Ew; [|apply nth_error_None in Ew; lia].
      destruct (ss_step_R i a w Ea Ew) as (b' & Eb' & Rb). rewrite Eb in Eb'. injection Eb' as <-.
      rewrite Rb. rewrite <- (rnd_B2R a) at 1. apply rnd_le.
      pose proof (ws_nth_R _ _ Ew). lra.
    Qed.

    Lemma ss_mono : @vnondecr KB vB ss.
    Proof. apply adj_vnondecr. exact ss_adj. Qed.

    Lemma ws_nonempty : ws <> [].
    Proof.
      intros E. pose proof tot_R as (_ & P). unfold tot, ss in P. rewrite E in P. cbn in P. lra.
    Qed.

    Lemma ss_last : nth_error ss (length ws - 1) = Some tot.
    Proof.
      unfold tot. rewrite <- (@psums_length KB ws). fold ss. apply nth_error_last.
      intros E. apply ws_nonempty. apply length_zero_iff_nil.
      rewrite <- (@psums_length KB ws). fold ss. rewrite E. reflexivity.
    Qed.

    Lemma ss_bounds i s : nth_error ss i = Some s -> 0 <= B2R s <= B2R tot.
    Proof.
      intros Es.
      assert (L : (i < length ws)%nat).
      { rewrite <- (@psums_length KB ws). apply nth_error_Some. fold ss. congruence. }
      split.
      - destruct (nth_error ws 0) as [w0|] eqn:E0; [|apply nth_error_None in E0; lia].
        apply Rle_trans with (B2R w0); [apply (ws_nth_R _ _ E0)|].
        apply (ss_mono 0%nat i); [lia| |exact Es]. unfold ss. rewrite psums_0. exact E0.
      - apply (ss_mono i (length ws - 1)%nat); [lia|exact Es|exact ss_last].
    Qed.

    Let cs := @cumulative KB ws.

    Lemma cs_nth i c : nth_error cs i = Some c ->
      exists s, nth_error ss i = Some s /\ is_finite c = true /\ B2R c = rnd (B2R s / B2R tot).
    Proof.
      unfold cs, cumulative, normalise. fold ss. fold tot. rewrite nth_error_map.
      destruct (nth_error ss i) as [s|] eqn:Es; [|discriminate]. cbn [option_map].
      intros E. injection E as <-. exists s. split; [reflexivity|].
      apply Bdiv_unit_R.
      - apply (Forall_nth_error (fun s : KB => is_finite s = true) ss i); [exact ss_fin|exact Es].
      - apply (ss_bounds i s Es).
      - apply tot_R.
    Qed.

    Lemma cs_of_ss i s : nth_error ss i = Some s ->
      exists c, nth_error cs i = Some c /\ is_finite c = true /\ B2R c = rnd (B2R s / B2R tot).
    Proof.
      intros Es. destruct (nth_error cs i) as [c|] eqn:Ec.
      - exists c. split; [reflexivity|]. destruct (cs_nth i c Ec) as (s' & Es' & X).
        rewrite Es in Es'. injection Es' as <-. exact X.
      - apply nth_error_None in Ec. unfold cs in Ec. rewrite (@cumulative_length KB ws) in Ec.
        assert (X : nth_error ss i <> None) by congruence. apply nth_error_Some in X.
        unfold ss in X. rewrite (@psums_length KB ws) in X. lia.
    Qed.

    Lemma cs_fin : Forall (fun c : KB => is_finite c = true) cs.
    Proof.
      apply Forall_forall. intros c Hc. apply In_nth_error in Hc. destruct Hc as (i & Ei).
      destruct (cs_nth i c Ei) as (s & _ & Fc & _). exact Fc.
    Qed.

    Lemma cs_mono : @vnondecr KB vB cs.
    Proof.
      intros i j a b Hij Ea Eb.
      destruct (cs_nth i a Ea) as (sa & Esa & _ & Ra). destruct (cs_nth j b Eb) as (sb & Esb & _ & Rb).
      unfold vB. rewrite Ra, Rb. apply rnd_le. unfold Rdiv. apply Rmult_le_compat_r.
      - left. apply Rinv_0_lt_compat. apply tot_R.
      - apply (ss_mono i j); assumption.
    Qed.

    Lemma c09_select_float (u : KB) : canonical_ok u ->
      exists i w, @select KB ws u = N.of_nat i /\ nth_error ws i = Some w /\ eqb KB w (zero KB) = false.
    Proof.
      intros Hu. apply canonical_ok_R in Hu. destruct Hu as (Fu & Hu0 & Hu1).
      pose proof tot_R as (Ft & Pt).
      destruct (@upper_bound_is_ub KB finB cs u
                  (@val_ordlaws KB finB vB HltB) Fu cs_fin (@val_nondecr KB finB vB HltB cs cs_fin cs_mono))
        as (r & E & _).
      pose proof (proj1 (@ub_interval KB finB vB HltB cs u r Fu cs_fin cs_mono) E)
        as (L & A & B). unfold vB in A, B.
      unfold cs in L. rewrite (@cumulative_length KB ws) in L.
      pose proof ws_nonempty as NE.
      assert (Ln : (0 < length ws)%nat) by (destruct ws; [congruence|cbn; lia]).
      (* validity *)
      assert (Hr : (r < length ws)%nat).
      { destruct (Nat.eq_dec r (length ws)) as [Er|Er]; [|lia]. exfalso.
        destruct (cs_of_ss _ _ ss_last) as (c & Ec & _ & Rc).
        assert (X : B2R c <= B2R u) by (apply (A (length ws - 1)%nat c); [lia|exact Ec]).
        rewrite Rc in X. unfold Rdiv in X. rewrite Rinv_r, rnd_1 in X by lra. lra. }
      destruct (nth_error ws r) as [w|] eqn:Ew; [|apply nth_error_None in Ew; lia].
      exists r, w. split; [exact E|]. split; [exact Ew|].
      destruct (eqb KB w (zero KB)) eqn:Z; [exfalso|reflexivity].
      pose proof (ws_nth_R _ _ Ew) as (Fw & _).
      assert (W0 : B2R w = 0) by (apply Beqb_zero_R; assumption).
      destruct r as [|j].
      - (* first channel: s_0 = w_0, c_0 = 0 <= u *)
        assert (E0 : nth_error ss 0 = Some w) by (unfold ss; rewrite psums_0; exact Ew).
        destruct (cs_of_ss _ _ E0) as (c & Ec & _ & Rc).
        pose proof (B c Ec) as X. rewrite Rc, W0 in X. unfold Rdiv in X.
        rewrite Rmult_0_l, rnd_0 in X. lra.
      - (* s_{j+1} = s_j + 0 = s_j *)
        destruct (nth_error ss j) as [a|] eqn:Ea.
        2:{ apply nth_error_None in Ea. unfold ss in Ea. rewrite (@psums_length KB ws) in Ea. lia. }
        destruct (ss_step_R j a w Ea Ew) as (b & Eb & Rb).
        rewrite W0, Rplus_0_r, rnd_B2R in Rb.
        destruct (cs_of_ss _ _ Ea) as (ca & Eca & _ & Rca).
        destruct (cs_of_ss _ _ Eb) as (cb & Ecb & _ & Rcb).
        pose proof (A j ca eq_refl Eca) as X. pose proof (B cb Ecb) as Y.
        rewrite Rcb, Rb, <- Rca in Y. lra.
    Qed.
  End Sel.

  Lemma c09_select_valid_float (ws : list KB) (u : KB) : float_weights_ok ws -> canonical_ok u ->
    (@select KB ws u < N.of_nat (length ws))%N.
  Proof.
    intros Hws Hu. destruct (c09_select_float ws Hws u Hu) as (i & w & E & Ew & _).
    assert (X : nth_error ws i <> None) by congruence. apply nth_error_Some in X. rewrite E. lia.
  Qed.

  Lemma c09_select_never_disabled_float (ws : list KB) (u : KB) i w :
    float_weights_ok ws -> canonical_ok u ->
    nth_error ws i = Some w -> eqb KB w (zero KB) = true -> @select KB ws u <> N.of_nat i.
  Proof.
    intros Hws Hu Ew Z E. destruct (c09_select_float ws Hws u Hu) as (i' & w' & E' & Ew' & Z').
    rewrite E in E'. apply Nat2N.inj in E'. subst i'. congruence.
  Qed.

  (** ** the order laws hold for the finite values of every format *)
  Lemma ordlaws_B : @OrdLaws KB finB.
  Proof. exact (@val_ordlaws KB finB vB HltB). Qed.

  (** ** both extreme generator outputs are admissible canonical numbers *)
  Lemma canonical_ok_zero : canonical_ok (zero KB).
  Proof.
    destruct Bone_R as (F1 & E1). split; [reflexivity|]. split; [reflexivity|].
    change (Bltb (B754_zero false) (Bone' prec emax Hprec Hmax) = true).
    rewrite Bltb_R by (try exact F1; reflexivity). apply Rltb_true. rewrite E1. cbn. lra.
  Qed.

  Lemma generic_1 : generic_format radix2 (SpecFloat.fexp prec emax) 1.
  Proof.
    change 1 with (bpow radix2 0). apply generic_format_bpow.
    unfold SpecFloat.fexp, SpecFloat.emin. unfold FLX.Prec_gt_0, Prec_lt_emax in *. lia.
  Qed.

  Lemma canonical_ok_pred_one : canonical_ok (pred_one KB).
  Proof.
    destruct Bone_R as (F1 & E1).
    change (pred_one KB) with (Bpred (Bone' prec emax Hprec Hmax)).
    pose proof (Bpred_correct prec emax Hprec Hmax _ F1) as C. rewrite E1 in C.
    assert (P0 : 0 <= pred radix2 (SpecFloat.fexp prec emax) 1).
    { apply pred_ge_0; [exact vexpB|lra|exact generic_1]. }
    assert (P1 : pred radix2 (SpecFloat.fexp prec emax) 1 < 1) by (apply pred_lt_id; lra).
    rewrite Rlt_bool_true in C.
    2:{ pose proof (bpow_gt_0 radix2 emax). lra. }
    destruct C as (C1 & C2 & _).
    split; [exact C2|]. split.
    - change (Bltb (Bpred (Bone' prec emax Hprec Hmax)) (B754_zero false) = false).
      rewrite Bltb_R by (try exact C2; reflexivity). apply Rltb_false. rewrite C1. cbn. lra.
    - change (Bltb (Bpred (Bone' prec emax Hprec Hmax)) (Bone' prec emax Hprec Hmax) = true).
      rewrite Bltb_R by assumption. apply Rltb_true. rewrite C1, E1. exact P1.
  Qed.

  (** ** a concrete instance: weights [0; 1; 0] at u = 0 select channel 1 *)
  Lemma Bplus_small_R (x y : F) : is_finite x = true -> is_finite y = true ->
    Rabs (rnd (B2R x + B2R y)) < bpow radix2 emax ->
    is_finite (Bplus mode_NE x y) = true /\ B2R (Bplus mode_NE x y) = rnd (B2R x + B2R y).
  Proof.
    intros Fx Fy H. pose proof (Bplus_correct prec emax Hprec Hmax mode_NE x y Fx Fy) as C.
    rewrite Rlt_bool_true in C by exact H. destruct C as (C1 & C2 & _). split; assumption.
  Qed.

  Definition ex09_ws : list KB := [zero KB; one KB; zero KB].

  Lemma ex09_weights_ok : float_weights_ok ex09_ws.
  Proof.
    destruct Bone_R as (F1 & E1).
    assert (N1 : fin_nonneg (one KB)).
    { split; [exact F1|]. change (Bltb (Bone' prec emax Hprec Hmax) (B754_zero false) = false).
      rewrite Bltb_R by (try exact F1; reflexivity). apply Rltb_false. rewrite E1. cbn. lra. }
    assert (N0 : fin_nonneg (zero KB)) by (split; reflexivity).
    split; [unfold ex09_ws; repeat (apply Forall_cons; [assumption|]); apply Forall_nil|].
    change (last (@psums KB ex09_ws) (zero KB))
      with (Bplus mode_NE (Bplus mode_NE (B754_zero false) (Bone' prec emax Hprec Hmax)) (B754_zero false)).
    pose proof one_lt_emax as O.
    destruct (Bplus_small_R (B754_zero false) (Bone' prec emax Hprec Hmax) eq_refl F1) as (Fa & Ra).
    { rewrite E1. cbn [B2R]. rewrite Rplus_0_l, rnd_1, Rabs_pos_eq by lra. exact O. }
    rewrite E1 in Ra. cbn [B2R] in Ra. rewrite Rplus_0_l, rnd_1 in Ra.
    destruct (Bplus_small_R _ (B754_zero false) Fa eq_refl) as (Fb & Rb).
    { rewrite Ra. cbn [B2R]. rewrite Rplus_0_r, rnd_1, Rabs_pos_eq by lra. exact O. }
    rewrite Ra in Rb. cbn [B2R] in Rb. rewrite Rplus_0_r, rnd_1 in Rb.
    split; [exact Fb|].
    change (Bltb (B754_zero false)
              (Bplus mode_NE (Bplus mode_NE (B754_zero false) (Bone' prec emax Hprec Hmax)) (B754_zero false)) = true).
    rewrite Bltb_R by (try exact Fb; reflexivity). apply Rltb_true. rewrite Rb. cbn. lra.
  Qed.

  Lemma c09_example_float :
    float_weights_ok ex09_ws /\ canonical_ok (zero KB) /\ canonical_ok (pred_one KB) /\
    @select KB ex09_ws (zero KB) = 1%N /\ @select KB ex09_ws (pred_one KB) = 1%N.
  Proof.
    split; [exact ex09_weights_ok|]. split; [exact canonical_ok_zero|]. split; [exact canonical_ok_pred_one|].
    assert (X : forall u : KB, canonical_ok u -> @select KB ex09_ws u = 1%N).
    { intros u Hu. destruct (c09_select_float ex09_ws ex09_weights_ok u Hu) as (i & w & E & Ew & Z).
      rewrite E. destruct i as [|[|[|i]]].
      - cbn in Ew. injection Ew as <-. discriminate Z.
      - reflexivity.
      - cbn in Ew. injection Ew as <-. discriminate Z.
      - destruct i; discriminate Ew. }
    split; apply X; [exact canonical_ok_zero|exact canonical_ok_pred_one].
  Qed.
End Float.

(* ------------------------------------------------------------------------------------------- *)
(** * order laws for the reals, examples over the reals *)
Lemma ordlaws_R : @OrdLaws NumR (fun _ => True).
Proof. apply (@val_ordlaws NumR (fun _ => True) (fun x => x)). reflexivity. Qed.

(* the generic bisection theorem is not vacuous: a sorted list of reals with ties *)
Lemma c09_example_upper_bound :
  @nondecr NumR [0; 1/4; 1/4; 1] /\ @upper_bound NumR [0; 1/4; 1/4; 1] (1/4) = 3%N /\
  @upper_bound NumR [0; 1/4; 1/4; 1] 0 = 1%N.
Proof.
  assert (V : @vnondecr NumR (fun x => x) [0; 1/4; 1/4; 1]).
  { apply adj_vnondecr. intros i a b Ea Eb.
    destruct i as [|[|[|[|i]]]]; cbn in Ea, Eb; try discriminate;
      injection Ea as <-; injection Eb as <-; lra. }
  assert (Hlt : forall a b : NumR, True -> True -> ltb NumR a b = Rltb a b) by reflexivity.
  assert (FA : Forall (fun _ : NumR => True) [0; 1/4; 1/4; 1]) by (repeat constructor).
  split; [apply (@val_nondecr NumR (fun _ => True) (fun x => x) Hlt _ FA V)|].
  split.
  - apply (proj2 (@ub_interval NumR (fun _ => True) (fun x => x) Hlt _ (1/4) 3%nat I FA V)).
    split; [cbn; lia|]. split.
    + intros j e Hj Ej. injection Hj as <-. cbn in Ej. injection Ej as <-. lra.
    + intros e Ee. cbn in Ee. injection Ee as <-. lra.
  - apply (proj2 (@ub_interval NumR (fun _ => True) (fun x => x) Hlt _ 0 1%nat I FA V)).
    split; [cbn; lia|]. split.
    + intros j e Hj Ej. injection Hj as <-. cbn in Ej. injection Ej as <-. lra.
    + intros e Ee. cbn in Ee. injection Ee as <-. lra.
Qed.

(* zeros at the front, in the middle and at the end; unnormalised; u = 0 skips the disabled
   first channel, u = 1/4 is the boundary between channels 1 and 3 and goes to channel 3 *)
Lemma c09_example_R :
  nonneg [0; 1; 0; 3; 0] /\ 0 < Rsum [0; 1; 0; 3; 0] /\
  @select NumR [0; 1; 0; 3; 0] 0 = 1%N /\ @select NumR [0; 1; 0; 3; 0] (1/4) = 3%N.
Proof.
  assert (NN : nonneg [0; 1; 0; 3; 0]) by (repeat constructor; lra).
  assert (S4 : Rsum [0; 1; 0; 3; 0] = 4) by (cbn; lra).
  assert (Hs : 0 < Rsum [0; 1; 0; 3; 0]) by (rewrite S4; lra).
  split; [exact NN|]. split; [exact Hs|]. split.
  - apply (proj2 (c09_select_interval _ 0 1%nat NN Hs ltac:(lra))).
    split; [cbn; lia|]. destruct (c09_cumulative_closed_form [0; 1; 0; 3; 0] 1%nat ltac:(cbn; lia)) as (-> & ->).
    rewrite S4. cbn. lra.
  - apply (proj2 (c09_select_interval _ (1/4) 3%nat NN Hs ltac:(lra))).
    split; [cbn; lia|]. destruct (c09_cumulative_closed_form [0; 1; 0; 3; 0] 3%nat ltac:(cbn; lia)) as (-> & ->).
    rewrite S4. cbn. lra.
Qed.
