(** C19m - the MPI form of C19: each iteration of an MPI run samples with the state derived from the previous one.
    Statements only (proofs in Lemmas_C19m.v, on top of Lemmas_C12m.v / Lemmas_C04.v / Lemmas_C19.v).

    In the MPI drivers ([mpi_vegas_run], [mpi_mc_run] of Mpi.v) every rank carries the grid / the channel
    weights in its own state [rs_aux], samples its share of the calls with it and refines it locally with the
    adjustment data of the all-reduced result; the checkpoint is only written to.  Proved, for every [Num], libm,
    integrand / map oracle, calls list, starting checkpoint (fresh, user grid / weights, resumed), world size
    1 <= world < 2^31, reduction order [perm_ok], calls < 2^64 and rank-independent decision: a defined run has a
    trace [tr] (one [miter] per performed iteration: the data common to all ranks, see C12m) such that
    - in iteration k every rank r's events are those of [vegas_iteration] / [mc_iteration] with the common state
      [mi_aux t] (so every point satisfies C19's [vegas_point_from] / [mc_point_from] for that state), the
      result all ranks add records that state ([v_pdf] / [m_weights] of the result = [mi_aux t]), and that
      state is [vchk_pdf L] / [mchk_weights L] of the checkpoint BEFORE the iteration - exactly what the
      serial driver computes at that point (C19_vegas_threaded / C19_mc_threaded) and what a run resumed
      from that checkpoint starts with;
    - iteration 0 uses [vchk_pdf L c0] / [mchk_weights L c0] of the prepared starting checkpoint (first
      grid / weights: C19_vegas_state, C19_mc_state);
    - iteration k+1 uses [refine_pdf L aux_k (vc_alpha c) (v_adj result_k)] resp.
      [refine_weights L aux_k (m_adj result_k) (mc_minw c) (mc_beta c)] with the parameters of the ORIGINAL
      checkpoint, which is [vchk_pdf L] / [mchk_weights L] of the checkpoint after iteration k;
    - every returned rank state holds the common final checkpoint and a state that is [vchk_pdf L] /
      [mchk_weights L] of it if the run ended with a "continue" (or performed nothing), and the last
      iteration's state if the callback stopped the run (then no refinement takes place).
    NOT proved here: that the all-reduced results EQUAL the serial ones (over the reals: C04s; in floating point
    they differ by reassociation), so "the same state as the serial run" is meant relative to the checkpoints of
    the MPI run itself; runs returning UB are not considered (C04 classifies them). *)
From Coq Require Import ZArith NArith List Bool.
From HepMC Require Import Num NumB Translated Result Accum VegasPdf Discrete MultiChannel Helper Iter Chkpt Callback Run Mpi
  Lemmas_Run Lemmas_C16 Lemmas_C10 Lemmas_C12 Lemmas_C04 Lemmas_C19 Lemmas_C12m Lemmas_C19m.
Import ListNotations.

Theorem C19m_vegas_threaded : forall (K : Num) (L : Libm K) (strm : N -> K) ps f world perm d cb cs (c : vchk K) idx sts' logs,
  world_ok world -> perm_ok world perm -> cb_rank_independent cb -> Forall (fun calls => (calls < 2 ^ 64)%N) cs ->
  mpi_vegas_run L strm ps f world perm d cb cs c idx = Ok (sts', logs) ->
  let c0 := vchk_dimensions c d in
  exists tr : list (miter (vchk K) (pdf K) (vegasres K)), length tr = length logs /\
    (forall k ls, nth_error logs k = Some ls -> exists t gk, nth_error tr k = Some t /\
       vchk_pdf L (mi_prev t) = Ok (mi_aux t) /\ v_pdf (mi_result t) = mi_aux t /\
       mi_chk t = vchk_add (mi_prev t) (mi_result t) gk /\ length ls = N.to_nat world /\
       forall r l, nth_error ls r = Some l -> rl_chk l = mi_chk t /\
         (exists n gpos idx0 lr g2 idx1, vegas_iteration strm ps f (mi_aux t) n gpos idx0 = Ok (lr, g2, idx1, rl_events l)) /\
         Forall (vegas_point_from strm (mi_aux t)) (rl_events l)) /\
    (forall t, nth_error tr 0 = Some t -> mi_prev t = c0 /\ vchk_pdf L c0 = Ok (mi_aux t)) /\
    (forall k t t', nth_error tr k = Some t -> nth_error tr (Datatypes.S k) = Some t' ->
       mi_prev t' = mi_chk t /\
       refine_pdf L (mi_aux t) (vc_alpha c) (v_adj (mi_result t)) = Ok (mi_aux t') /\
       vchk_pdf L (mi_chk t) = Ok (mi_aux t')) /\
    (exists c' a', Forall (fun st => rs_chk st = c' /\ rs_aux st = a') sts' /\ length sts' = N.to_nat world /\
       match rev tr with
       | [] => c' = c0 /\ vchk_pdf L c0 = Ok a'
       | t :: _ => c' = mi_chk t /\ if mi_go t then vchk_pdf L c' = Ok a' else a' = mi_aux t
       end).
Proof. exact (@c19m_vegas_threaded). Qed.
Print Assumptions C19m_vegas_threaded.

Theorem C19m_mc_threaded : forall (K : Num) (L : Libm K) (strm : N -> K) ps f world perm mp d channels cb cs (c : mchk K) idx sts' logs,
  world_ok world -> perm_ok world perm -> cb_rank_independent cb -> Forall (fun calls => (calls < 2 ^ 64)%N) cs ->
  mpi_mc_run L strm ps f world perm mp d channels cb cs c idx = Ok (sts', logs) ->
  let c0 := mchk_channels c channels in
  exists tr : list (miter (mchk K) (list K) (mcres_mc K)), length tr = length logs /\
    (forall k ls, nth_error logs k = Some ls -> exists t gk, nth_error tr k = Some t /\
       mchk_weights L (mi_prev t) = Ok (mi_aux t) /\ m_weights (mi_result t) = mi_aux t /\
       mi_chk t = mchk_add (mi_prev t) (mi_result t) gk /\ length ls = N.to_nat world /\
       forall r l, nth_error ls r = Some l -> rl_chk l = mi_chk t /\
         (exists n gpos idx0 lr g2 idx1, mc_iteration strm ps f mp d (mi_aux t) n gpos idx0 = Ok (lr, g2, idx1, rl_events l)) /\
         Forall (mc_point_from strm mp d (mi_aux t)) (rl_events l)) /\
    (forall t, nth_error tr 0 = Some t -> mi_prev t = c0 /\ mchk_weights L c0 = Ok (mi_aux t)) /\
    (forall k t t', nth_error tr k = Some t -> nth_error tr (Datatypes.S k) = Some t' ->
       mi_prev t' = mi_chk t /\
       refine_weights L (mi_aux t) (m_adj (mi_result t)) (mc_minw c) (mc_beta c) = Ok (mi_aux t') /\
       mchk_weights L (mi_chk t) = Ok (mi_aux t')) /\
    (exists c' a', Forall (fun st => rs_chk st = c' /\ rs_aux st = a') sts' /\ length sts' = N.to_nat world /\
       match rev tr with
       | [] => c' = c0 /\ mchk_weights L c0 = Ok a'
       | t :: _ => c' = mi_chk t /\ if mi_go t then mchk_weights L c' = Ok a' else a' = mi_aux t
       end).
Proof. exact (@c19m_mc_threaded). Qed.
Print Assumptions C19m_mc_threaded.

(* the generic reason: for any instance of the MPI loop whose local refinement of the carried state coincides
   with the state [state_of] of the checkpoint just written, the carried state is [state_of] of the current
   checkpoint throughout, and at the end unless the callback stopped the run *)
Theorem C19m_carried_state_is_checkpoint_state : forall (K : Num) (C S R : Type) world sub_calls usage
    (local_iter : S -> N -> N -> N -> res (R * N * N * list (event K))) rebuild
    (addc : C -> R -> N -> C) cb refine (state_of : C -> res S),
  (forall c a pl ex g, state_of (addc c (rebuild a pl ex) g) = refine (addc c (rebuild a pl ex) g) a (rebuild a pl ex)) ->
  forall cs c g a logs tr c' g' a' rest,
  MExec C S R world sub_calls usage local_iter rebuild addc cb refine cs c g a logs tr c' g' a' rest -> state_of c = Ok a ->
  Forall (fun t => state_of (mi_prev t) = Ok (mi_aux t)) tr /\
  (match rev tr with t :: _ => mi_go t = true | [] => True end -> state_of c' = Ok a').
Proof. exact (@mexec_threaded). Qed.
Print Assumptions C19m_carried_state_is_checkpoint_state.

(* non-vacuity: C19's moving-grid example run by the MPI driver on 3 ranks (reduction order 2,0,1): defined, 3
   iterations, on every rank uniform first grid, recorded grids = refinements of the previous results, grid
   moved, carried grid at the end = vchk_pdf of the returned checkpoint; hypotheses of the theorems hold *)
Example C19m_example : ex19m_check = true /\ world_ok 3 /\ perm_ok 3 [2; 0; 1]%N /\
  cb_rank_independent (fun (_ : N) (_ : vchk B64) => true) /\ Forall (fun calls => (calls < 2 ^ 64)%N) [8; 8; 8]%N.
Proof. exact c19m_example. Qed.
