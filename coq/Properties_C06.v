(** C06 - non-finite evaluations are counted but never contaminate.
    Statements only (definitions and all proofs: Lemmas_C06.v; vocabulary of the calls: Lemmas_C02.v).

    SETTING.  [zeroed f] is the twin of the integrand [f]: at a call with observation [o] it returns
    [zero] where f's value v is "poisoned" ([poisoned v w]: v != 0 and v * point.weight() is not finite)
    and v otherwise, it makes exactly those fills of f whose value times the weight IS finite (the twin "does
    not fill"; see the caveat below), and asks the same things of the point.  It is a function of what the
    integrand sees because the observation carries the weight.
    "Equal except for the non-zero counter of the main accumulator" is the family of relations
    [cell_eq_nz] (sum, sum of squares, Kahan compensation, finite counter), [acc_eq_nz] (+ all distribution
    cells equal, including their counters), [itst_eq_nz] (+ generator position, call counter, adjustment data,
    and the integrand saw the same points [call_obs]; the map-density events of the multi-channel trace are
    NOT compared: the poisoned run asks the map for densities once more per poisoned call),
    [mcres_eq_nz]/[plain_eq_nz]/[vegas_eq_nz]/[mc_eq_nz] on results (calls, finite_calls, sum, sum of squares, all
    distribution results, grid, adjustment data, channel weights) and [pchk_rel]/[vchk_rel]/[mchk_rel] on checkpoints
    (results pairwise related, generators and all parameters equal).  [res_rel R x y]: both model calls return
    [Ok] with R-related values, or both are undefined with the same code (C06_res_rel_meaning) - so every twin
    theorem also says that poisoning neither causes nor hides undefined behaviour.

    HYPOTHESIS ON THE NUMERIC TYPE.  Everything holds for every [Num] satisfying the single law
    [zero_eq_zero]: [eqb zero zero = true] (without it the twin's zero would not be treated as zero).  It holds
    for the reals and for every IEEE format (C06_reported_finite_partial, first conjunct).  No other law is used.

    PROVED.
    - C06_invoke_main_twin: accumulator::invoke on a poisoned value vs on zero: same sums, compensation, finite
      counter and returned value (zero); the poisoned call increments non_zero_calls, the twin does not.
    - C06_fill_twin: a fill whose value is not finite leaves every distribution cell (counters included)
      unchanged, so dropping those fills changes nothing.
    - C06_step_twin / C06_iteration_twin: one call / one iteration of PLAIN, VEGAS, multi-channel under f and
      under [zeroed f] from related states end in related states / results (same generator position, call
      counter, sampled points, VEGAS and channel adjustment data, distributions).
    - C06_counters: in any iteration, non_zero_calls(f) = non_zero_calls(zeroed f) + number of poisoned calls,
      finite_calls agree and equal the number of calls with v != 0 and finite v*w: poisoned calls are
      counted as non-zero but not as finite.
    - C06_run_twin: whole runs (all later adaptive iterations: the refined grid / weights are functions of
      fields that are equal) of plain / vegas / multi_channel from related checkpoints (in particular from the
      same checkpoint, C06_rel_refl) are related after every iteration, every callback invocation sees related
      checkpoints and gives the same answer - FOR EVERY CALLBACK THAT GIVES THE SAME ANSWER ON RELATED
      CHECKPOINTS (explicit hypothesis).
    - C06_callbacks_respect / C06_scripted_respect: that hypothesis holds for the built-in callback
      (cb_plain / cb_vegas / cb_mc) with ANY target precision, and for callbacks scripted on the iteration
      number.  The built-in decision reads the results only through hep::weighted_with_variance, which (after
      the repair below) looks at calls, finite_calls, sum and sum of squares; the non-zero counters are merely
      added up into the counter of the combined result, which [value], [error] and the decision never read.
    - C06_run_twin_builtin: hence, for every target, plain / vegas / multi_channel with the built-in callback,
      started from the same checkpoint with f and with [zeroed f], perform the same number of iterations, give
      the same callback answers and end in related checkpoints ([same_run] = [run_rel] + equal log lengths) - or
      are both undefined with the same code.

    DEFECT FOUND BY THIS PROOF EFFORT AND REPAIRED.  In the pinned library hep::weighted_with_variance skipped a
    result when non_zero_calls() == 0.  An iteration all of whose non-zero evaluations were non-finite has
    non_zero_calls > 0 but sum = sumsq = 0, hence variance 0 and weight 1/0: the combined estimate became NaN and
    the built-in callback with a positive target never stopped, whereas the zeroed twin skipped that iteration
    (a double-precision run with values 1,3 | NaN,NaN | 2,2.5 | ... and target 1/4 performed 4 iterations, its
    twin 3 - the former theorem C06_builtin_callback_counterexample).  Repaired in /repo commit 1b97d17 (the test
    is now finite_calls() == 0, per result and for the final normalisation; demo
    /verif/findings/C06_poisoned_iteration.cpp); Helper.v mirrors the repaired code, the counterexample is gone
    and C06_example_callback_lengths now shows 3 iterations against 3 for that very run.

    CAVEATS.  (1) "All reported numbers stay finite": only the partial statement
    C06_reported_finite_partial is proved (IEEE formats): every value added to a sum and every value handed back
    for the adjustment data is finite.  The sums themselves can still overflow (two finite evaluations of 1e308
    give sum = +inf), so finiteness of the reported numbers needs a no-overflow hypothesis that is not
    formalised here.  (2) A fill of exactly zero IS accumulated by the code (counters of the bin increase), so
    the twin is "does not fill", as announced in DESIGN.md; the "fills 0" variant is not treated (over NumR
    nothing is non-finite, so it would be vacuous there).  (3) The trace events [EvMapDens] differ between the
    runs and are excluded from the relation. *)
From Coq Require Import ZArith NArith List Bool.
From Flocq Require Import Core BinarySingleNaN.
From HepMC Require Import Num NumB Translated Result Accum VegasPdf Discrete MultiChannel Helper Iter Chkpt Callback Run
  Lemmas_Run Lemmas_C02 Lemmas_C06.
Import ListNotations.

Theorem C06_res_rel_meaning : forall (A B : Type) (R : A -> B -> Prop) (x : res A) (y : res B),
  res_rel R x y <-> (exists a b, x = Ok a /\ y = Ok b /\ R a b) \/ (exists c, x = UB c /\ y = UB c).
Proof. exact (@res_rel_meaning). Qed.
Print Assumptions C06_res_rel_meaning.

Theorem C06_invoke_main_twin : forall (K : Num) (a : cell K) (v w : K),
  @zero_eq_zero K -> neqb v (zero K) = true -> isfinite K (mul K v w) = false ->
  invoke_main a v w = (cell_nonfinite a, zero K) /\
  invoke_main a (zero K) w = (a, zero K) /\
  cell_eq_nz (cell_nonfinite a) a /\ c_nz (cell_nonfinite a) = (c_nz a + 1)%N.
Proof. exact (@c06_invoke_main_twin). Qed.
Print Assumptions C06_invoke_main_twin.

Theorem C06_fill_twin : forall (K : Num) (ps : list (dparams K)),
  (forall ds idx x v, isfinite K v = false -> fill1d ps ds idx x v = Ok ds) /\
  (forall ds idx x y v, isfinite K v = false -> fill2d ps ds idx x y v = Ok ds) /\
  (forall w fs ds, do_fills ps w ds (filter (fun fl => isfinite K (mul K (fill_val fl) w)) fs) = do_fills ps w ds fs).
Proof. exact (@c06_fill_twin). Qed.
Print Assumptions C06_fill_twin.

Theorem C06_step_twin : forall (K : Num) (strm : N -> K) ps (f : integrand K) (mp : mcmap K), @zero_eq_zero K ->
  (forall d s t, itst_eq_nz s t ->
     res_rel itst_eq_nz (plain_step strm ps f d s) (plain_step strm ps (zeroed f) d t)) /\
  (forall p s t, itst_eq_nz s t ->
     res_rel itst_eq_nz (vegas_step strm ps f p s) (vegas_step strm ps (zeroed f) p t)) /\
  (forall d ws cum en s t, itst_eq_nz s t ->
     res_rel itst_eq_nz (mc_step strm ps f mp d ws cum en s) (mc_step strm ps (zeroed f) mp d ws cum en t)).
Proof. exact (@c06_step_twin). Qed.
Print Assumptions C06_step_twin.

(* [out_rel RR (r1,g1,i1,e1) (r2,g2,i2,e2)] = RR r1 r2 /\ g1 = g2 /\ i1 = i2 /\ call_obs e1 = call_obs e2 *)
Theorem C06_iteration_twin : forall (K : Num) (strm : N -> K) ps (f : integrand K) (mp : mcmap K), @zero_eq_zero K ->
  (forall d calls g idx,
     res_rel (out_rel plain_eq_nz) (plain_iteration strm ps f d calls g idx)
                                   (plain_iteration strm ps (zeroed f) d calls g idx)) /\
  (forall p calls g idx,
     res_rel (out_rel vegas_eq_nz) (vegas_iteration strm ps f p calls g idx)
                                   (vegas_iteration strm ps (zeroed f) p calls g idx)) /\
  (forall d ws calls g idx,
     res_rel (out_rel mc_eq_nz) (mc_iteration strm ps f mp d ws calls g idx)
                                (mc_iteration strm ps (zeroed f) mp d ws calls g idx)).
Proof. exact (@c06_iteration_twin). Qed.
Print Assumptions C06_iteration_twin.

(* [main_spec] (Lemmas_C02) holds of the main result of every iteration (C02_main_is_filtered_fold) *)
Theorem C06_counters : forall (K : Num), @zero_eq_zero K ->
  forall (f : integrand K) calls evs evs' m m',
  main_spec f calls evs m -> main_spec (zeroed f) calls evs' m' -> call_obs evs = call_obs evs' ->
  r_nz m = (r_nz m' + N.of_nat (length (filter poisonedb (vals f evs))))%N /\
  r_fin m = r_fin m' /\
  r_fin m = N.of_nat (length (filter keptb (vals f evs))).
Proof. exact (@c06_nz_difference). Qed.
Print Assumptions C06_counters.

(* [run_rel C E RC RE (c1,i1,log1) (c2,i2,log2)] = RC c1 c2 /\ i1 = i2 /\ Forall2 log_rel log1 log2, where two log
   entries (one per performed iteration) are related when their events show the same points ([ev_rel]), the
   checkpoints handed to the callback are related and the callback's answers are equal *)
Theorem C06_run_twin : forall (K : Num) (L : Libm K) (strm : N -> K) ps (f : integrand K) (mp : mcmap K), @zero_eq_zero K ->
  (forall d cb cs c1 c2 idx, (forall a b, pchk_rel a b -> cb a = cb b) -> pchk_rel c1 c2 ->
     res_rel (run_rel (pchk K) (event K) pchk_rel ev_rel)
             (plain_run strm ps f d cb cs c1 idx) (plain_run strm ps (zeroed f) d cb cs c2 idx)) /\
  (forall d cb cs c1 c2 idx, (forall a b, vchk_rel a b -> cb a = cb b) -> vchk_rel c1 c2 ->
     res_rel (run_rel (vchk K) (event K) vchk_rel ev_rel)
             (vegas_run L strm ps f d cb cs c1 idx) (vegas_run L strm ps (zeroed f) d cb cs c2 idx)) /\
  (forall d channels cb cs c1 c2 idx, (forall a b, mchk_rel a b -> cb a = cb b) -> mchk_rel c1 c2 ->
     res_rel (run_rel (mchk K) (event K) mchk_rel ev_rel)
             (mc_run L strm ps f mp d channels cb cs c1 idx) (mc_run L strm ps (zeroed f) mp d channels cb cs c2 idx)).
Proof. exact (@c06_run_twin). Qed.
Print Assumptions C06_run_twin.

Theorem C06_rel_refl : forall (K : Num),
  (forall c : pchk K, pchk_rel c c) /\ (forall c : vchk K, vchk_rel c c) /\ (forall c : mchk K, mchk_rel c c).
Proof. exact (@c06_rel_refl). Qed.
Print Assumptions C06_rel_refl.

Theorem C06_callbacks_respect : forall (K : Num) (target : K),
  (forall a b : pchk K, pchk_rel a b -> cb_plain target a = cb_plain target b) /\
  (forall a b : vchk K, vchk_rel a b -> cb_vegas target a = cb_vegas target b) /\
  (forall a b : mchk K, mchk_rel a b -> cb_mc target a = cb_mc target b).
Proof. exact (@c06_callbacks_respect). Qed.
Print Assumptions C06_callbacks_respect.

(* the combination the built-in callback decides on: related result lists combine to related results *)
Theorem C06_weighted_with_variance_twin : forall (K : Num) (rs1 rs2 : list (mcres K)),
  Forall2 mcres_eq_nz rs1 rs2 -> mcres_eq_nz (weighted_with_variance rs1) (weighted_with_variance rs2).
Proof. exact (@c06_wwv_rel). Qed.
Print Assumptions C06_weighted_with_variance_twin.

(* [same_run RC RE x y] = run_rel _ _ RC RE x y /\ length (snd x) = length (snd y): related final checkpoints,
   same call counter, the same number of performed iterations, pairwise related log entries *)
Theorem C06_run_twin_builtin : forall (K : Num) (L : Libm K) (strm : N -> K) ps (f : integrand K) (mp : mcmap K),
  @zero_eq_zero K -> forall target : K,
  (forall d cs c idx,
     res_rel (same_run pchk_rel ev_rel)
             (plain_run strm ps f d (cb_plain target) cs c idx)
             (plain_run strm ps (zeroed f) d (cb_plain target) cs c idx)) /\
  (forall d cs c idx,
     res_rel (same_run vchk_rel ev_rel)
             (vegas_run L strm ps f d (cb_vegas target) cs c idx)
             (vegas_run L strm ps (zeroed f) d (cb_vegas target) cs c idx)) /\
  (forall d channels cs c idx,
     res_rel (same_run mchk_rel ev_rel)
             (mc_run L strm ps f mp d channels (cb_mc target) cs c idx)
             (mc_run L strm ps (zeroed f) mp d channels (cb_mc target) cs c idx)).
Proof. exact (@c06_run_twin_builtin). Qed.
Print Assumptions C06_run_twin_builtin.

Theorem C06_scripted_respect : forall (K : Num) (script : nat -> bool),
  (forall a b : pchk K, pchk_rel a b -> script (length (b_results a)) = script (length (b_results b))) /\
  (forall a b : vchk K, vchk_rel a b ->
     script (length (b_results (vc_base a))) = script (length (b_results (vc_base b)))) /\
  (forall a b : mchk K, mchk_rel a b ->
     script (length (b_results (mc_base a))) = script (length (b_results (mc_base b)))).
Proof. exact (@c06_scripted_respects). Qed.
Print Assumptions C06_scripted_respect.

Theorem C06_reported_finite_partial : forall prec emax (Hprec : FLX.Prec_gt_0 prec) (Hmax : Prec_lt_emax prec emax),
  let KB := NumB prec emax Hprec Hmax in
  @zero_eq_zero KB /\
  (forall v w : KB, isfinite KB (@sanitised KB v w) = true) /\
  (forall vs : list (KB * KB), Forall (fun x => isfinite KB x = true) (map (@prod KB) (filter (@keptb KB) vs))).
Proof. exact c06_reported_finite_partial. Qed.
Print Assumptions C06_reported_finite_partial.

(* non-vacuity.  A poisoned call exists in double precision (NaN times weight 1), and zero == zero there *)
Example C06_example_poisoned :
  @neqb B64 ex06_nan (zero B64) = true /\ isfinite B64 (mul B64 ex06_nan (one B64)) = false /\ @zero_eq_zero B64.
Proof. exact c06_example_poisoned. Qed.

(* the built-in callback with target 1/4 on a run with an all-poisoned iteration (values 1,3 | NaN,NaN | 2,2.5 | ...):
   both runs return Ok and stop after 3 of the 4 requested iterations (4 against 3 before the repair) *)
Example C06_example_callback_lengths :
  loglen (plain_run ex06_strm [] ex06_f 1 (cb_plain ex06_target) [2;2;2;2]%N (base_init 0) 0) = 3%nat /\
  loglen (plain_run ex06_strm [] (zeroed ex06_f) 1 (cb_plain ex06_target) [2;2;2;2]%N (base_init 0) 0) = 3%nat.
Proof. exact ex06_callback_lengths. Qed.

(* adaptive VEGAS and multi-channel runs of three iterations (values NaN, 0, x+1, +inf; a poisoned and a clean
   fill per call) with the callback [fun _ => true], which satisfies the hypothesis of C06_run_twin trivially:
   both runs return Ok; (non_zero_calls, finite_calls) per iteration are (4,1),(5,2),(4,1) against (1,1),(2,2),(1,1) *)
Example C06_example_vegas_run :
  nzs (fun c => b_results (vc_base c)) (fun r => p_main (v_plain r))
      (vegas_run ex06_L ex06_strm ex06_ps ex06_g 2 (fun _ => true) [6;6;6]%N (vchk_default 2 (one B64) 0) 0)
    = [(4, 1); (5, 2); (4, 1)]%N /\
  nzs (fun c => b_results (vc_base c)) (fun r => p_main (v_plain r))
      (vegas_run ex06_L ex06_strm ex06_ps (zeroed ex06_g) 2 (fun _ => true) [6;6;6]%N (vchk_default 2 (one B64) 0) 0)
    = [(1, 1); (2, 2); (1, 1)]%N.
Proof. exact c06_example_vegas_run. Qed.

Example C06_example_mc_run :
  nzs (fun c => b_results (mc_base c)) (fun r => p_main (m_plain r))
      (mc_run ex06_L ex06_strm ex06_ps ex06_g ex06_mp 2 2 (fun _ => true) [6;6;6]%N (mchk_default (zero B64) (one B64) 0) 0)
    = [(4, 1); (5, 2); (4, 1)]%N /\
  nzs (fun c => b_results (mc_base c)) (fun r => p_main (m_plain r))
      (mc_run ex06_L ex06_strm ex06_ps (zeroed ex06_g) ex06_mp 2 2 (fun _ => true) [6;6;6]%N (mchk_default (zero B64) (one B64) 0) 0)
    = [(1, 1); (2, 2); (1, 1)]%N.
Proof. exact c06_example_mc_run. Qed.
