(** Lemmas for C10m: the generator every rank of an MPI run ([Mpi.v]) stores with the checkpoint after iteration i
    is the generator before the run advanced by usage * (calls of iterations 0..i) - the serial position of
    C10_stored_generator - for PLAIN (usage = d), VEGAS (usage = dimensions of the grid) and multi-channel
    (usage = d + 1), whatever the world size and the rank's share of the calls. *)
From Coq Require Import ZArith NArith List Bool Lia.
From HepMC Require Import Num Translated Result Accum VegasPdf Discrete MultiChannel Helper Iter Chkpt Callback Run Mpi
  Lemmas_Run Lemmas_C16 Lemmas_C10 Lemmas_C12 Lemmas_C04 Lemmas_C19 Lemmas_C12m.
Import ListNotations.

Lemma sumN_firstn_succ : forall (cs : list N) i x, nth_error cs i = Some x ->
  sumN (firstn (Datatypes.S i) cs) = (sumN (firstn i cs) + x)%N.
Proof.
  induction cs as [|y cs IH]; intros [|i] x H; try discriminate.
  - injection H as ->. cbn. lia.
  - cbn [nth_error] in H. change (firstn (Datatypes.S (Datatypes.S i)) (y :: cs)) with (y :: firstn (Datatypes.S i) cs).
    change (firstn (Datatypes.S i) (y :: cs)) with (y :: firstn i cs).
    change (sumN (y :: firstn (Datatypes.S i) cs)) with (y + sumN (firstn (Datatypes.S i) cs))%N.
    change (sumN (y :: firstn i cs)) with (y + sumN (firstn i cs))%N. rewrite (IH i x H). lia.
Qed.

Section Generic.
  Context {K : Num}.
  Variables (C S R : Type).
  Variable world : N.
  Variable sub_calls : Z -> Z -> Z -> Z.
  Variable usage : N.
  Variable local_iter : S -> N -> N -> N -> res (R * N * N * list (event K)).
  Variable rebuild : S -> plainres K -> list K -> R.
  Variable addc : C -> R -> N -> C.
  Variable cb : N -> C -> bool.
  Variable refine : C -> S -> R -> res S.
  Notation MExec := (MExec C S R world sub_calls usage local_iter rebuild addc cb refine).
  Variable gen_of : C -> res N.
  Hypothesis gen_add : forall c r g, gen_of (addc c r g) = Ok g.

  Lemma mexec_final_gen cs c g a logs tr c' g' a' rest :
    MExec cs c g a logs tr c' g' a' rest -> gen_of c = Ok g -> gen_of c' = Ok g'.
  Proof.
    induction 1 as [c g a|calls cs c g a ls t Hok E1 E2 E3 E4 E5|calls cs c g a ls t a1 logs tr c' g' a' rest Hok E1 E2 E3 E4 E5 Er Hex IH];
      intros H0.
    - exact H0.
    - destruct Hok as (_ & _ & Echk & _). rewrite Echk, gen_add, E1, E3. reflexivity.
    - apply IH. destruct Hok as (_ & _ & Echk & _). rewrite Echk, gen_add, E1, E3. reflexivity.
  Qed.

  Lemma mexec_stored cs c g a logs tr c' g' a' rest :
    MExec cs c g a logs tr c' g' a' rest ->
    (* the generator every rank stores with iteration i *)
    (forall i ls l, nth_error logs i = Some ls -> In l ls ->
       gen_of (rl_chk l) = Ok (g + sumN (firstn (Datatypes.S i) cs) * usage)%N) /\
    (* where the ranks are at the end, and that the final checkpoint stores it *)
    g' = (g + sumN (firstn (length logs) cs) * usage)%N /\
    (gen_of c = Ok g -> gen_of c' = Ok g').
  Proof.
    intros Hex. split; [|split].
    - intros i ls l Hn Hl. destruct (mexec_nth _ _ _ _ _ _ _ _ _ _ _ _ _ _ _ _ _ _ _ _ _ Hex i ls Hn) as (t & _ & Hok & Hc & Hg).
      pose proof (miter_ok_all _ _ _ _ _ _ _ _ _ _ _ _ Hok) as Hall. rewrite Forall_forall in Hall. destruct (Hall l Hl) as [_ ->].
      destruct Hok as (_ & _ & Echk & _). rewrite Echk, gen_add, Hg, (sumN_firstn_succ cs i _ Hc). f_equal. lia.
    - destruct (mexec_result _ _ _ _ _ _ _ _ _ _ _ _ _ _ _ _ _ _ _ _ _ Hex) as (_ & -> & _). f_equal. apply N.mul_comm.
    - eapply mexec_final_gen; exact Hex.
  Qed.
End Generic.

Lemma vchk_gen_add {K : Num} (c : vchk K) r g : base_gen (vc_base (vchk_add c r g)) = Ok g.
Proof. unfold vchk_add. cbn [vc_base]. apply base_gen_add. Qed.
Lemma mchk_gen_add {K : Num} (c : mchk K) r g : base_gen (mc_base (mchk_add c r g)) = Ok g.
Proof. unfold mchk_add. cbn [mc_base]. apply base_gen_add. Qed.

(** what C10m says about a finished run: [gen_of] reads the stored generator of a checkpoint *)
Definition stored_positions {K : Num} {C S : Type} (gen_of : C -> res N) (usage g : N) (cs : list N)
    (sts' : list (rank_state C S)) (logs : list (list (@rank_log K C))) : Prop :=
  (forall i ls l, nth_error logs i = Some ls -> In l ls ->
     gen_of (rl_chk l) = Ok (g + sumN (firstn (Datatypes.S i) cs) * usage)%N) /\
  (forall st, In st sts' -> rs_gen st = (g + sumN (firstn (length logs) cs) * usage)%N /\ gen_of (rs_chk st) = Ok (rs_gen st)).

Lemma stored_positions_intro {K : Num} {C S R : Type} world sub_calls usage
    (local_iter : S -> N -> N -> N -> res (R * N * N * list (event K))) rebuild (addc : C -> R -> N -> C) cb refine
    (gen_of : C -> res N) cs c g a logs tr c' g' a' rest sts' :
  (forall c r g, gen_of (addc c r g) = Ok g) -> gen_of c = Ok g ->
  MExec C S R world sub_calls usage local_iter rebuild addc cb refine cs c g a logs tr c' g' a' rest -> agree c' g' a' sts' ->
  stored_positions gen_of usage g cs sts' logs.
Proof.
  intros Hadd H0 Hex Hag. destruct (mexec_stored _ _ _ _ _ _ _ _ _ _ _ gen_of Hadd _ _ _ _ _ _ _ _ _ _ Hex) as (H1 & H2 & H3).
  split; [exact H1|]. intros st Hst. unfold agree in Hag. rewrite Forall_forall in Hag. destruct (Hag st Hst) as (E1 & E2 & _).
  rewrite E1, E2. split; [exact H2|exact (H3 H0)].
Qed.

Section Drivers.
  Context {K : Num}.
  Context (L : Libm K).
  Variable strm : N -> K.
  Variable ps : list (dparams K).
  Variable f : integrand K.
  Variable world : N.
  Variable perm : list N.

  Lemma c10m_plain_stored d cb cs (c : pchk K) idx g sts' logs :
    world_ok world -> perm_ok world perm -> cb_rank_independent cb -> Forall (fun calls => (calls < 2 ^ 64)%N) cs ->
    base_gen c = Ok g -> mpi_plain_run strm ps f world perm d cb cs c idx = Ok (sts', logs) ->
    stored_positions base_gen (N.of_nat d) g cs sts' logs.
  Proof.
    intros Hw Hp Hcb Hcs Hg Hrun.
    destruct (c12m_plain_exec strm ps f world perm d cb cs c idx sts' logs Hw Hp Hcb Hcs Hrun) as (g0 & tr & c' & g' & a' & rest & Hg0 & Hex & Hag & _).
    rewrite Hg in Hg0. injection Hg0 as <-. unfold plain_MExec in Hex.
    eapply stored_positions_intro; [intros; apply base_gen_add|exact Hg|exact Hex|exact Hag].
  Qed.

  Lemma c10m_vegas_stored d cb cs (c : vchk K) idx g p sts' logs :
    world_ok world -> perm_ok world perm -> cb_rank_independent cb -> Forall (fun calls => (calls < 2 ^ 64)%N) cs ->
    base_gen (vc_base (vchk_dimensions c d)) = Ok g -> vchk_pdf L (vchk_dimensions c d) = Ok p ->
    mpi_vegas_run L strm ps f world perm d cb cs c idx = Ok (sts', logs) ->
    stored_positions (fun c : vchk K => base_gen (vc_base c)) (pdf_dims p) g cs sts' logs /\
    (* the grid every rank holds at the end still has the dimensions of the first one *)
    Forall (fun st => pdf_dims (rs_aux st) = pdf_dims p) sts'.
  Proof.
    intros Hw Hp Hcb Hcs Hg Hpdf Hrun.
    destruct (c12m_vegas_exec L strm ps f world perm d cb cs c idx sts' logs Hw Hp Hcb Hcs Hrun)
      as (g0 & p0 & tr & c' & g' & a' & rest & Hg0 & Hp0 & Hex & Hag & _ & Hd).
    rewrite Hg in Hg0. injection Hg0 as <-. rewrite Hpdf in Hp0. injection Hp0 as <-. unfold vegas_MExec in Hex. split.
    - eapply (stored_positions_intro _ _ _ _ _ _ _ _ (fun c : vchk K => base_gen (vc_base c))); [intros; apply vchk_gen_add|exact Hg|exact Hex|exact Hag].
    - eapply Forall_impl; [|exact Hag]. cbv beta. intros st (_ & _ & ->). exact Hd.
  Qed.

  Lemma c10m_mc_stored mp d channels cb cs (c : mchk K) idx g sts' logs :
    world_ok world -> perm_ok world perm -> cb_rank_independent cb -> Forall (fun calls => (calls < 2 ^ 64)%N) cs ->
    base_gen (mc_base (mchk_channels c channels)) = Ok g ->
    mpi_mc_run L strm ps f world perm mp d channels cb cs c idx = Ok (sts', logs) ->
    stored_positions (fun c : mchk K => base_gen (mc_base c)) (N.of_nat d + 1) g cs sts' logs.
  Proof.
    intros Hw Hp Hcb Hcs Hg Hrun.
    destruct (c12m_mc_exec L strm ps f world perm mp d channels cb cs c idx sts' logs Hw Hp Hcb Hcs Hrun)
      as (g0 & ws & tr & c' & g' & a' & rest & Hg0 & _ & Hex & Hag & _).
    rewrite Hg in Hg0. injection Hg0 as <-. unfold mc_MExec in Hex.
    eapply (stored_positions_intro _ _ _ _ _ _ _ _ (fun c : mchk K => base_gen (mc_base c))); [intros; apply mchk_gen_add|exact Hg|exact Hex|exact Hag].
  Qed.
End Drivers.

(** ** the serial positions for VEGAS and multi-channel (C10 has the PLAIN instance), and the comparison *)
Section Serial.
  Context {K : Num}.
  Context (L : Libm K).
  Variable strm : N -> K.
  Variable ps : list (dparams K).
  Variable f : integrand K.

  Lemma vegas_exec_stored cb dims cs c g idx ls c' idx' rest :
    Exec (vchk K) (vegasres K) (event K) (fun c calls g i => do p <- vchk_pdf L c; vegas_iteration strm ps f p calls g i)
         vchk_add cb cs c g idx ls c' idx' rest ->
    (forall p, vchk_pdf L c = Ok p -> pdf_dims p = dims) ->
    forall i l, nth_error ls i = Some l -> base_gen (vc_base (il_chk l)) = Ok (g + sumN (firstn (Datatypes.S i) cs) * dims)%N.
  Proof.
    induction 1 as [c g idx|calls cs c g idx l g' idx' Hok Hc|calls cs c g idx l g' idx' ls c' idx'' rest Hok Hc Hex IH]; intros Hd i l0 Hn.
    - destruct i; discriminate.
    - destruct i as [|i]; [|destruct i; discriminate]. injection Hn as <-.
      destruct Hok as (r & Hi & Eq & _). apply bind_Ok in Hi as (p & Hp & Hi). rewrite Eq, vchk_gen_add.
      apply vegas_iteration_draws in Hi as [-> _]. rewrite (Hd p Hp). cbn [firstn sumN fold_right]. f_equal. lia.
    - destruct Hok as (r & Hi & Eq & _). apply bind_Ok in Hi as (p & Hp & Hi).
      pose proof (vegas_iteration_state _ _ _ _ _ _ _ _ _ _ _ Hi) as (Er & _).
      apply vegas_iteration_draws in Hi as [Hg _]. rewrite (Hd p Hp) in Hg.
      destruct i as [|i].
      + injection Hn as <-. rewrite Eq, vchk_gen_add. subst g'. cbn [firstn sumN fold_right]. f_equal. lia.
      + cbn [nth_error] in Hn.
        assert (Hd' : forall p', vchk_pdf L (il_chk l) = Ok p' -> pdf_dims p' = dims).
        { intros p' Hp'. rewrite Eq in Hp'. destruct (vchk_pdf_after_add L c r g') as [E1 _]. rewrite E1 in Hp'.
          apply refine_pdf_dims in Hp' as [-> _]. rewrite Er. exact (Hd p Hp). }
        rewrite (IH Hd' i l0 Hn).
        subst g'. change (firstn (Datatypes.S (Datatypes.S i)) (calls :: cs)) with (calls :: firstn (Datatypes.S i) cs).
        cbn [sumN fold_right]. fold (sumN (firstn (Datatypes.S i) cs)). f_equal. lia.
  Qed.

  Lemma c10m_vegas_serial_stored d cb cs (c : vchk K) idx c' idx' ls g p :
    vegas_run L strm ps f d cb cs c idx = Ok (c', idx', ls) ->
    base_gen (vc_base (vchk_dimensions c d)) = Ok g -> vchk_pdf L (vchk_dimensions c d) = Ok p ->
    forall i l, nth_error ls i = Some l ->
      base_gen (vc_base (il_chk l)) = Ok (g + sumN (firstn (Datatypes.S i) cs) * pdf_dims p)%N.
  Proof.
    unfold vegas_run. intros H Hg Hp. apply run_exec in H as (g0 & rest & Hg0 & Hex).
    rewrite Hg in Hg0. injection Hg0 as <-.
    eapply vegas_exec_stored; [exact Hex|]. intros p' Hp'. rewrite Hp in Hp'. injection Hp' as <-. reflexivity.
  Qed.

  Variable mp : mcmap K.
  Lemma c10m_mc_serial_stored d channels cb cs (c : mchk K) idx c' idx' ls g :
    mc_run L strm ps f mp d channels cb cs c idx = Ok (c', idx', ls) ->
    base_gen (mc_base (mchk_channels c channels)) = Ok g ->
    forall i l, nth_error ls i = Some l ->
      base_gen (mc_base (il_chk l)) = Ok (g + sumN (firstn (Datatypes.S i) cs) * (N.of_nat d + 1))%N.
  Proof.
    unfold mc_run. intros H Hg. apply run_exec in H as (g0 & rest & Hg0 & Hex).
    rewrite Hg in Hg0. injection Hg0 as <-.
    eapply (exec_stored _ _ _ (fun c : mchk K => base_gen (mc_base c))); [intros; apply mchk_gen_add| |exact Hex].
    intros c0 calls g1 idx1 r g' idx2 evs Hi. apply bind_Ok in Hi as (ws & _ & Hi). apply mc_iteration_draws in Hi. apply Hi.
  Qed.

  (** every rank of the MPI run stores, with iteration i, the generator the serial run stores with iteration i -
      whatever the two callbacks are, as long as both runs perform iteration i *)
  Variable world : N.
  Variable perm : list N.

  Lemma c10m_plain_same_as_serial d cbm cbs cs (c : pchk K) idxm idxs sts' logs cser idxser lser :
    world_ok world -> perm_ok world perm -> cb_rank_independent cbm -> Forall (fun calls => (calls < 2 ^ 64)%N) cs ->
    mpi_plain_run strm ps f world perm d cbm cs c idxm = Ok (sts', logs) ->
    plain_run strm ps f d cbs cs c idxs = Ok (cser, idxser, lser) ->
    forall i ls l lr, nth_error logs i = Some ls -> In l ls -> nth_error lser i = Some lr ->
      base_gen (rl_chk l) = base_gen (il_chk lr).
  Proof.
    intros Hw Hp Hcb Hcs Hm Hs i ls l lr Hn Hl Hr.
    assert (Hg : exists g, base_gen c = Ok g).
    { unfold mpi_plain_run in Hm. apply bind_Ok in Hm as (g & Hg & _). exists g. exact Hg. }
    destruct Hg as (g & Hg).
    destruct (c10m_plain_stored strm ps f world perm d cbm cs c idxm g sts' logs Hw Hp Hcb Hcs Hg Hm) as [H1 _].
    etransitivity; [exact (H1 i ls l Hn Hl)|]. symmetry. eapply c10_plain_stored; eauto.
  Qed.

  Lemma c10m_vegas_same_as_serial d cbm cbs cs (c : vchk K) idxm idxs sts' logs cser idxser lser :
    world_ok world -> perm_ok world perm -> cb_rank_independent cbm -> Forall (fun calls => (calls < 2 ^ 64)%N) cs ->
    mpi_vegas_run L strm ps f world perm d cbm cs c idxm = Ok (sts', logs) ->
    vegas_run L strm ps f d cbs cs c idxs = Ok (cser, idxser, lser) ->
    forall i ls l lr, nth_error logs i = Some ls -> In l ls -> nth_error lser i = Some lr ->
      base_gen (vc_base (rl_chk l)) = base_gen (vc_base (il_chk lr)).
  Proof.
    intros Hw Hp Hcb Hcs Hm Hs i ls l lr Hn Hl Hr.
    assert (Hg : exists g p, base_gen (vc_base (vchk_dimensions c d)) = Ok g /\ vchk_pdf L (vchk_dimensions c d) = Ok p).
    { unfold mpi_vegas_run in Hm. cbv zeta in Hm. apply bind_Ok in Hm as (g & Hg & Hm). apply bind_Ok in Hm as (p & Hpdf & _). eauto. }
    destruct Hg as (g & p & Hg & Hpdf).
    destruct (c10m_vegas_stored L strm ps f world perm d cbm cs c idxm g p sts' logs Hw Hp Hcb Hcs Hg Hpdf Hm) as [[H1 _] _].
    etransitivity; [exact (H1 i ls l Hn Hl)|]. symmetry. eapply c10m_vegas_serial_stored; eauto.
  Qed.

  Lemma c10m_mc_same_as_serial d channels cbm cbs cs (c : mchk K) idxm idxs sts' logs cser idxser lser :
    world_ok world -> perm_ok world perm -> cb_rank_independent cbm -> Forall (fun calls => (calls < 2 ^ 64)%N) cs ->
    mpi_mc_run L strm ps f world perm mp d channels cbm cs c idxm = Ok (sts', logs) ->
    mc_run L strm ps f mp d channels cbs cs c idxs = Ok (cser, idxser, lser) ->
    forall i ls l lr, nth_error logs i = Some ls -> In l ls -> nth_error lser i = Some lr ->
      base_gen (mc_base (rl_chk l)) = base_gen (mc_base (il_chk lr)).
  Proof.
    intros Hw Hp Hcb Hcs Hm Hs i ls l lr Hn Hl Hr.
    assert (Hg : exists g, base_gen (mc_base (mchk_channels c channels)) = Ok g).
    { unfold mpi_mc_run in Hm. cbv zeta in Hm. apply bind_Ok in Hm as (g & Hg & _). eauto. }
    destruct Hg as (g & Hg).
    destruct (c10m_mc_stored L strm ps f world perm mp d channels cbm cs c idxm g sts' logs Hw Hp Hcb Hcs Hg Hm) as [H1 _].
    etransitivity; [exact (H1 i ls l Hn Hl)|]. symmetry. eapply c10m_mc_serial_stored; eauto.
  Qed.
End Serial.

(** ** non-vacuity: C04's example run (PLAIN, d = 2, double precision, 3 ranks, calls 4 and 1, reduction order
    2,0,1, start generator 0): defined, and every rank stores 0 + 4 * 2 = 8 with iteration 0 and 0 + 5 * 2 = 10
    with iteration 1 although the ranks evaluated 2,1,1 and 1,0,0 of the calls; only generator positions
    (numbers in N) are computed *)
From HepMC Require Import NumB.
Definition ex10m_check : bool :=
  match ex04_mpi with
  | Ok (sts, logs) =>
      list_eqb (list_eqb N.eqb) (map (map (fun l : rank_log (pchk B64) => match base_gen (rl_chk l) with Ok g => g | UB _ => 0%N end)) logs)
               [[8; 8; 8]; [10; 10; 10]]%N &&
      list_eqb N.eqb (map (fun st => rs_gen st) sts) [10; 10; 10]%N
  | UB _ => false
  end.
Lemma c10m_example : ex10m_check = true /\ (exists sts logs, ex04_mpi = Ok (sts, logs)) /\
  base_gen (base_init 0 : pchk B64) = Ok 0%N /\ world_ok 3 /\ perm_ok 3 [2; 0; 1]%N /\
  cb_rank_independent (fun (_ : N) (_ : pchk B64) => true) /\ Forall (fun calls => (calls < 2 ^ 64)%N) [4; 1]%N.
Proof.
  assert (H : ex10m_check = true) by (vm_compute; reflexivity).
  split; [exact H|]. split.
  { unfold ex10m_check in H. destruct ex04_mpi as [[sts logs]|code]; [eauto|discriminate]. }
  split; [reflexivity|]. destruct ex04_hyps as (H1 & H2 & H3 & H4 & _). auto.
Qed.
