(** C09 - channel selection follows the weights exactly, never a disabled channel.
    Statements only (proofs in Lemmas_C09.v).  Everything is about the model's own [select],
    [upper_bound]/[ub_loop], [cumulative], [psums], [normalise] of Discrete.v, which mirror
    discrete_distribution.hpp after the repair (std::upper_bound instead of std::lower_bound).

    What is proved.
    * Every [Num] (C09_upper_bound_spec): if [ltb], restricted to the admissible values [P], is a
      strict weak order ([OrdLaws]: irreflexive, transitive, negatively transitive = a strict total
      order up to the equivalence "neither a < b nor b < a"), then libstdc++'s bisection with the
      fuel [S (length l)] the model gives it returns, on every list without a later element [ltb]
      an earlier one, the number of elements that are not strictly greater than [u]; this index is
      <= length l, everything before it is not greater than u, everything from it on is greater
      ([is_ub]).  [OrdLaws] holds for the reals and for the finite values of every IEEE format.
    * Reals (K := NumR), weights >= 0 of any length with positive sum (zeros anywhere, not
      normalised), every u with 0 <= u < 1: [select ws u = i] iff i < length ws and
      s_{i-1} <= u < s_i, where s = the model's cumulative normalised weights (s_{-1} = 0)
      (C09_select_interval); s_i - s_{i-1} = w_i / sum ws, s_i = (w_0 + ... + w_i) / sum ws
      (C09_interval_length, C09_cumulative_closed_form), so a uniform u selects i with
      probability w_i / sum; the index is valid (C09_select_valid); a channel of weight zero is
      never selected, for every u in [0,1) including u = 0 (C09_select_never_disabled).
    * IEEE-754 (K := NumB prec emax, every format, round to nearest even), weights finite and not
      negative (either zero allowed), total (the last partial sum as the code computes it) finite
      and positive - which implies that no partial sum overflowed -, every finite u with
      not (u < 0) and u < 1: the selected index is < length and the weight there is not a zero
      (C09_select_valid_float, C09_select_never_disabled_float, C09_select_enabled_float).  Both
      extreme generator outputs, 0 and nexttoward(1, 0), satisfy the hypothesis on u
      (C09_extremes_admissible_float).

    What is NOT proved: nothing about the distribution of the canonical numbers themselves
    (std::generate_canonical is an input of the model); for floats no statement that the rounded
    interval lengths equal w_i / sum (they do so only up to rounding); NaN/infinite/negative
    weights are outside the hypotheses. *)
From Coq Require Import ZArith NArith List Reals.
From Flocq Require Import Core BinarySingleNaN.
From HepMC Require Import Num NumR NumB Discrete Lemmas_C09.
Import ListNotations.
Local Open Scope R_scope.

(* libstdc++'s upper_bound bisection is correct for every length *)
Theorem C09_upper_bound_spec : forall (K : Num) (P : K -> Prop) (l : list K) (u : K),
  OrdLaws P -> P u -> Forall P l -> nondecr l ->
  upper_bound l u = N.of_nat (count_le l u) /\ is_ub l u (count_le l u).
Proof. exact (@upper_bound_spec). Qed.
Print Assumptions C09_upper_bound_spec.

Theorem C09_ordlaws_R : @OrdLaws NumR (fun _ => True).
Proof. exact ordlaws_R. Qed.
Print Assumptions C09_ordlaws_R.

Theorem C09_ordlaws_float : forall prec emax (Hprec : FLX.Prec_gt_0 prec) (Hmax : Prec_lt_emax prec emax),
  @OrdLaws (NumB prec emax Hprec Hmax) (fun x => is_finite x = true).
Proof. exact ordlaws_B. Qed.
Print Assumptions C09_ordlaws_float.

(* channel i is selected exactly when u falls into the i-th half-open interval *)
Theorem C09_select_interval : forall (ws : list R) (u : R) (i : nat),
  nonneg ws -> 0 < Rsum ws -> 0 <= u < 1 ->
  (@select NumR ws u = N.of_nat i <-> (i < length ws)%nat /\ cum_lo ws i <= u < cum_hi ws i).
Proof. exact c09_select_interval. Qed.
Print Assumptions C09_select_interval.

(* ... whose length is the normalised weight *)
Theorem C09_interval_length : forall (ws : list R) (i : nat), (i < length ws)%nat ->
  cum_hi ws i - cum_lo ws i = nth i ws 0 / Rsum ws.
Proof. exact c09_interval_length. Qed.
Print Assumptions C09_interval_length.

Theorem C09_cumulative_closed_form : forall (ws : list R) (i : nat), (i < length ws)%nat ->
  cum_lo ws i = Rsum (firstn i ws) / Rsum ws /\ cum_hi ws i = Rsum (firstn (S i) ws) / Rsum ws.
Proof. exact c09_cumulative_closed_form. Qed.
Print Assumptions C09_cumulative_closed_form.

Theorem C09_select_valid : forall (ws : list R) (u : R),
  nonneg ws -> 0 < Rsum ws -> 0 <= u < 1 -> (@select NumR ws u < N.of_nat (length ws))%N.
Proof. exact c09_select_valid. Qed.
Print Assumptions C09_select_valid.

(* a channel of weight zero is never selected, u = 0 included *)
Theorem C09_select_never_disabled : forall (ws : list R) (u : R) (i : nat),
  nonneg ws -> 0 < Rsum ws -> 0 <= u < 1 -> nth i ws 0 = 0 -> @select NumR ws u <> N.of_nat i.
Proof. exact c09_select_never_disabled. Qed.
Print Assumptions C09_select_never_disabled.

(* IEEE-754, every format *)
Theorem C09_select_valid_float :
  forall prec emax (Hprec : FLX.Prec_gt_0 prec) (Hmax : Prec_lt_emax prec emax)
         (ws : list (NumB prec emax Hprec Hmax)) (u : NumB prec emax Hprec Hmax),
  float_weights_ok prec emax Hprec Hmax ws -> canonical_ok prec emax Hprec Hmax u ->
  (@select (NumB prec emax Hprec Hmax) ws u < N.of_nat (length ws))%N.
Proof. exact c09_select_valid_float. Qed.
Print Assumptions C09_select_valid_float.

Theorem C09_select_never_disabled_float :
  forall prec emax (Hprec : FLX.Prec_gt_0 prec) (Hmax : Prec_lt_emax prec emax)
         (ws : list (NumB prec emax Hprec Hmax)) (u : NumB prec emax Hprec Hmax) (i : nat)
         (w : NumB prec emax Hprec Hmax),
  float_weights_ok prec emax Hprec Hmax ws -> canonical_ok prec emax Hprec Hmax u ->
  nth_error ws i = Some w -> eqb (NumB prec emax Hprec Hmax) w (zero (NumB prec emax Hprec Hmax)) = true ->
  @select (NumB prec emax Hprec Hmax) ws u <> N.of_nat i.
Proof. exact c09_select_never_disabled_float. Qed.
Print Assumptions C09_select_never_disabled_float.

Theorem C09_select_enabled_float :
  forall prec emax (Hprec : FLX.Prec_gt_0 prec) (Hmax : Prec_lt_emax prec emax)
         (ws : list (NumB prec emax Hprec Hmax)),
  float_weights_ok prec emax Hprec Hmax ws ->
  forall u : NumB prec emax Hprec Hmax, canonical_ok prec emax Hprec Hmax u ->
  exists i w, @select (NumB prec emax Hprec Hmax) ws u = N.of_nat i /\ nth_error ws i = Some w /\
              eqb (NumB prec emax Hprec Hmax) w (zero (NumB prec emax Hprec Hmax)) = false.
Proof. exact c09_select_float. Qed.
Print Assumptions C09_select_enabled_float.

(* the extreme generator outputs 0 and the largest value below 1 are covered *)
Theorem C09_extremes_admissible_float :
  forall prec emax (Hprec : FLX.Prec_gt_0 prec) (Hmax : Prec_lt_emax prec emax),
  canonical_ok prec emax Hprec Hmax (zero (NumB prec emax Hprec Hmax)) /\
  canonical_ok prec emax Hprec Hmax (pred_one (NumB prec emax Hprec Hmax)).
Proof. exact (fun p e hp hm => conj (canonical_ok_zero p e hp hm) (canonical_ok_pred_one p e hp hm)). Qed.
Print Assumptions C09_extremes_admissible_float.

(* non-vacuity *)
Example C09_example_upper_bound :
  @nondecr NumR [0; 1/4; 1/4; 1] /\ @upper_bound NumR [0; 1/4; 1/4; 1] (1/4) = 3%N /\
  @upper_bound NumR [0; 1/4; 1/4; 1] 0 = 1%N.
Proof. exact c09_example_upper_bound. Qed.

Example C09_example_R :
  nonneg [0; 1; 0; 3; 0] /\ 0 < Rsum [0; 1; 0; 3; 0] /\
  @select NumR [0; 1; 0; 3; 0] 0 = 1%N /\ @select NumR [0; 1; 0; 3; 0] (1/4) = 3%N.
Proof. exact c09_example_R. Qed.

Example C09_example_float :
  forall prec emax (Hprec : FLX.Prec_gt_0 prec) (Hmax : Prec_lt_emax prec emax),
  let KB := NumB prec emax Hprec Hmax in
  let ws : list KB := [zero KB; one KB; zero KB] in
  float_weights_ok prec emax Hprec Hmax ws /\
  canonical_ok prec emax Hprec Hmax (zero KB) /\ canonical_ok prec emax Hprec Hmax (pred_one KB) /\
  @select KB ws (zero KB) = 1%N /\ @select KB ws (pred_one KB) = 1%N.
Proof. exact c09_example_float. Qed.
