(** Lemmas for C15: rolling back to iteration k reproduces the run that stopped after k.
    Imports Lemmas_C03.v (splitting of runs, the relation "textually identical"). *)
From Coq Require Import String ZArith NArith Bool Lia List.
From HepMC Require Import Num Result Accum VegasPdf Discrete MultiChannel Iter Chkpt Callback Run Codec
  Lemmas_Run Lemmas_C05 Lemmas_C19 Lemmas_C03.
Import ListNotations.

(* ================================================================================================ *)
(** * a run only ever appends (result, generator) pairs to the checkpoint it started from *)
Section AddMany.
  Variables (C R Evt : Type).
  Variable iterate : C -> N -> N -> N -> res (R * N * N * list Evt).
  Variable add : C -> R -> N -> C.
  Variable cb : C -> bool.
  Notation Exec := (Lemmas_Run.Exec C R Evt iterate add cb).
  Notation chks := (Lemmas_Run.chks C Evt).

  Definition addmany (c : C) (rgs : list (R * N)) : C := fold_left (fun c rg => add c (fst rg) (snd rg)) rgs c.

  Lemma exec_addmany cs c g idx ls c' idx' rest :
    Exec cs c g idx ls c' idx' rest ->
    exists rgs, length rgs = length ls /\ c' = addmany c rgs /\
      (forall j, j <= length ls -> nth j (chks c ls) c = addmany c (firstn j rgs)) /\
      (* the first pair is what the first iteration, run on [c], produced *)
      (forall rg, hd_error rgs = Some rg ->
         exists calls g0 idx0 idx1 evs, iterate c calls g0 idx0 = Ok (fst rg, snd rg, idx1, evs)).
  Proof.
    induction 1 as [c g idx|calls cs c g idx l g' idx' Hok Hc|calls cs c g idx l g' idx' ls c' idx'' rest Hok Hc Hex IH].
    - exists []. split; [reflexivity|]. split; [reflexivity|]. split.
      + intros j Hj. cbn in Hj. assert (j = 0) by lia. subst j. reflexivity.
      + intros rg Hrg. discriminate.
    - destruct Hok as (r & Hi & Ea & _). exists [(r, g')]. split; [reflexivity|]. split; [exact Ea|]. split.
      + intros j Hj. cbn in Hj. destruct j as [|[|j]]; [reflexivity|exact Ea|lia].
      + intros rg Hrg. injection Hrg as <-. exists calls, g, idx, idx', (il_events l). exact Hi.
    - destruct Hok as (r & Hi & Ea & _). destruct IH as (rgs & Hlen & Hfin & Hnth & _).
      exists ((r, g') :: rgs). split; [cbn [length]; rewrite Hlen; reflexivity|].
      split; [rewrite Hfin, Ea; reflexivity|]. split.
      + intros j Hj. destruct j as [|j]; [reflexivity|]. cbn [length] in Hj.
        rewrite (nth_chks_S C Evt) by lia. rewrite Hnth by lia. rewrite Ea. reflexivity.
      + intros rg Hrg. injection Hrg as <-. exists calls, g, idx, idx', (il_events l). exact Hi.
  Qed.
End AddMany.
Arguments addmany {C R}.

(* ================================================================================================ *)
(** * the base: results and generators *)
Section Base.
  Context {R : Type}.

  Lemma base_addmany (rgs : list (R * N)) : forall b : base R,
    addmany base_add b rgs = mk_base (b_results b ++ map fst rgs) (b_gens b ++ map snd rgs).
  Proof.
    unfold addmany. induction rgs as [|[r g] rgs IH]; intros b.
    - destruct b. cbn. rewrite !app_nil_r. reflexivity.
    - cbn [fold_left]. rewrite IH. unfold base_add. cbn [b_results b_gens map fst snd].
      rewrite <- !app_assoc. reflexivity.
  Qed.

  (* k > number of results: rejected (the C++ throws std::out_of_range) *)
  Lemma base_rollback_rejects (b : base R) k : (N.of_nat (length (b_results b)) < k)%N -> base_rollback b k = UB 41.
  Proof. intros H. unfold base_rollback. apply N.ltb_lt in H. rewrite H. reflexivity. Qed.

  (* k = number of results: nothing changes *)
  Lemma base_rollback_n (b : base R) : length (b_gens b) = S (length (b_results b)) ->
    base_rollback b (N.of_nat (length (b_results b))) = Ok b.
  Proof.
    intros Hg. unfold base_rollback. rewrite N.ltb_irrefl, Nat2N.id.
    rewrite firstn_all, firstn_all2 by lia. destruct b; reflexivity.
  Qed.

  (* rolling back to m + j after appending: the first j appended pairs remain *)
  Lemma base_rollback_prefix (b : base R) rgs j :
    length (b_gens b) = S (length (b_results b)) -> j <= length rgs ->
    base_rollback (addmany base_add b rgs) (N.of_nat (length (b_results b) + j))
    = Ok (addmany base_add b (firstn j rgs)).
  Proof.
    intros Hg Hj. rewrite !base_addmany. unfold base_rollback. cbn [b_results b_gens].
    destruct (N.ltb_spec (N.of_nat (length (b_results b ++ map fst rgs))) (N.of_nat (length (b_results b) + j))) as [Hlt|_].
    - rewrite app_length, map_length in Hlt. lia.
    - rewrite Nat2N.id. f_equal. f_equal.
      + rewrite firstn_app_2, firstn_map. reflexivity.
      + replace (S (length (b_results b) + j)) with (length (b_gens b) + j) by lia.
        rewrite firstn_app_2, firstn_map. reflexivity.
  Qed.

  Lemma base_rollback_results (b b1 : base R) k : base_rollback b k = Ok b1 ->
    b1 = mk_base (firstn (N.to_nat k) (b_results b)) (firstn (S (N.to_nat k)) (b_gens b)) /\
    b_results b1 = firstn (N.to_nat k) (b_results b) /\ (k <= N.of_nat (length (b_results b)))%N.
  Proof.
    unfold base_rollback. destruct (N.ltb_spec (N.of_nat (length (b_results b))) k) as [|Hle]; [discriminate|].
    intros H. apply Ok_inj in H. subst b1. split; [reflexivity|]. split; [reflexivity|exact Hle].
  Qed.

  Lemma base_rollback_Ok (b : base R) k : (k <= N.of_nat (length (b_results b)))%N ->
    base_rollback b k = Ok (mk_base (firstn (N.to_nat k) (b_results b)) (firstn (S (N.to_nat k)) (b_gens b))).
  Proof.
    intros Hle. unfold base_rollback.
    destruct (N.ltb_spec (N.of_nat (length (b_results b))) k) as [|_]; [lia|reflexivity].
  Qed.

  (* a second rollback to an earlier point gives what a direct rollback gives *)
  Lemma base_rollback_rollback (b b1 : base R) k1 k2 : (k2 <= k1)%N ->
    base_rollback b k1 = Ok b1 -> base_rollback b1 k2 = base_rollback b k2.
  Proof.
    intros Hk H. apply base_rollback_results in H as (-> & _ & Hle).
    rewrite (base_rollback_Ok b k2) by lia.
    rewrite base_rollback_Ok.
    - remember (S (N.to_nat k1)) as n1 eqn:En1. remember (S (N.to_nat k2)) as n2 eqn:En2.
      simpl (b_results (mk_base _ _)). simpl (b_gens (mk_base _ _)).
      rewrite !firstn_firstn. f_equal. f_equal; f_equal; lia.
    - simpl (b_results (mk_base _ _)). rewrite firstn_length. lia.
  Qed.
End Base.

Lemma firstn_pos_nonempty {A} (l : list A) p : firstn (N.to_nat (N.pos p)) l = [] -> l = [].
Proof. destruct l as [|x l]; [reflexivity|]. destruct (N.to_nat (N.pos p)) eqn:E; [lia|]. discriminate. Qed.

(* ================================================================================================ *)
Section Kinds.
  Context {K : Num}.
  Context (L : Libm K).
  Variable strm : N -> K.
  Variable ps : list (dparams K).
  Variable f : integrand K.
  Variable mp : mcmap K.
  Variable digits10 : string.

  (** ** PLAIN *)
  Lemma plain_rollback_spec d cb cs (c0 : pchk K) idx c idx' ls :
    plain_run strm ps f d cb cs c0 idx = Ok (c, idx', ls) ->
    length (b_gens c0) = S (length (b_results c0)) ->
    forall j, j <= length ls ->
    base_rollback c (N.of_nat (length (b_results c0) + j)) = Ok (nth j (chks _ _ c0 ls) c0).
  Proof.
    unfold plain_run. intros H Hg j Hj. apply run_exec in H as (g & rest & _ & Hex).
    apply exec_addmany in Hex as (rgs & Hlen & -> & Hnth & _). rewrite Hnth by exact Hj.
    apply base_rollback_prefix; [exact Hg|lia].
  Qed.

  (** ** VEGAS *)
  Lemma vchk_addmany (rgs : list (vegasres K * N)) : forall c : vchk K,
    addmany vchk_add c rgs = mk_vchk (addmany base_add (vc_base c) rgs) (vc_alpha c) (vc_bins c) (vc_first c).
  Proof.
    unfold addmany. induction rgs as [|[r g] rgs IH]; intros c.
    - destruct c; reflexivity.
    - cbn [fold_left]. rewrite IH. reflexivity.
  Qed.

  Lemma vchk_rollback_rejects (c : vchk K) k : (N.of_nat (length (b_results (vc_base c))) < k)%N -> vchk_rollback c k = UB 41.
  Proof. intros H. unfold vchk_rollback. rewrite base_rollback_rejects by exact H. reflexivity. Qed.

  Lemma vchk_rollback_n (c : vchk K) : length (b_gens (vc_base c)) = S (length (b_results (vc_base c))) ->
    vchk_rollback c (N.of_nat (length (b_results (vc_base c)))) = Ok c.
  Proof.
    intros Hg. unfold vchk_rollback. rewrite base_rollback_n by exact Hg. cbn [bind].
    destruct c as [[rs gs] a bi fi]. cbn [vc_base vc_alpha vc_bins vc_first b_results].
    destruct rs; reflexivity.
  Qed.

  Lemma vchk_rollback_prefix (c : vchk K) rgs j :
    length (b_gens (vc_base c)) = S (length (b_results (vc_base c))) -> j <= length rgs ->
    (b_results (vc_base c) = [] -> forall rg, hd_error rgs = Some rg -> vc_first c = Some (v_pdf (fst rg))) ->
    vchk_rollback (addmany vchk_add c rgs) (N.of_nat (length (b_results (vc_base c)) + j))
    = Ok (addmany vchk_add c (firstn j rgs)).
  Proof.
    intros Hg Hj Hfirst. rewrite !vchk_addmany. unfold vchk_rollback. cbn [vc_base vc_alpha vc_bins vc_first].
    rewrite base_rollback_prefix by assumption. cbn [bind]. f_equal. f_equal.
    rewrite base_addmany. cbn [b_results].
    destruct (N.of_nat (length (b_results (vc_base c)) + j)) eqn:En; [|reflexivity].
    destruct (b_results (vc_base c)) as [|r0 rs0] eqn:Er; [|cbn in En; lia].
    cbn [app]. destruct rgs as [|rg rgs]; [reflexivity|]. cbn [map]. symmetry. apply Hfirst; reflexivity.
  Qed.

  Lemma vchk_dim_base (c : vchk K) d : vc_base (vchk_dimensions c d) = vc_base c.
  Proof. unfold vchk_dimensions. destruct (b_results (vc_base c)); [destruct (vc_first c)|]; reflexivity. Qed.

  Lemma vegas_rollback_spec d cb cs (c0 : vchk K) idx c idx' ls :
    vegas_run L strm ps f d cb cs c0 idx = Ok (c, idx', ls) ->
    length (b_gens (vc_base c0)) = S (length (b_results (vc_base c0))) ->
    forall j, j <= length ls ->
    vchk_rollback c (N.of_nat (length (b_results (vc_base c0)) + j))
    = Ok (nth j (chks _ _ (vchk_dimensions c0 d) ls) (vchk_dimensions c0 d)).
  Proof.
    unfold vegas_run. intros H Hg j Hj. apply run_exec in H as (g & rest & _ & Hex).
    apply exec_addmany in Hex as (rgs & Hlen & -> & Hnth & Hfst). rewrite Hnth by exact Hj.
    rewrite <- (vchk_dim_base c0 d) in Hg |- *.
    apply vchk_rollback_prefix; [exact Hg|lia|].
    intros Hr rg Hrg. destruct (Hfst rg Hrg) as (calls & g0 & idx0 & idx1 & evs & Hi).
    apply bind_Ok in Hi as (p & Hp & Hi). apply vegas_iteration_state in Hi as (E1 & _).
    unfold vchk_pdf in Hp. rewrite Hr in Hp. cbn [rev] in Hp.
    destruct (vc_first (vchk_dimensions c0 d)) as [p'|]; [|discriminate]. injection Hp as ->. rewrite E1. reflexivity.
  Qed.

  (* rollback respects "textually identical" *)
  Definition res_rel {A} (rel : A -> A -> Prop) (x y : res A) : Prop :=
    match x, y with Ok a, Ok b => rel a b | UB e, UB e' => e = e' | _, _ => False end.

  Lemma vchk_rollback_eqv (c c' : vchk K) k : vchk_eqv c c' -> res_rel vchk_eqv (vchk_rollback c k) (vchk_rollback c' k).
  Proof.
    destruct c as [b a bi fi], c' as [b' a' bi' fi']. unfold vchk_eqv, vchk_rollback.
    cbn [vc_base vc_alpha vc_bins vc_first]. intros (<- & <- & H3).
    destruct (base_rollback b k) as [b1|e] eqn:Eb; cbn [bind res_rel]; [|reflexivity].
    apply base_rollback_results in Eb as (_ & Er & _).
    unfold vchk_eqv. cbn [vc_base vc_alpha vc_first]. split; [reflexivity|]. split; [reflexivity|].
    rewrite Er. intros Hn. destruct k as [|p].
    - destruct (b_results b); [apply H3; reflexivity|reflexivity].
    - apply firstn_pos_nonempty in Hn. apply H3. exact Hn.
  Qed.

  Lemma vchk_rollback_rollback (c c1 : vchk K) k1 k2 : (k2 <= k1)%N ->
    vchk_rollback c k1 = Ok c1 -> vchk_rollback c1 k2 = vchk_rollback c k2.
  Proof.
    destruct c as [b a bi fi]. unfold vchk_rollback. cbn [vc_base vc_alpha vc_bins vc_first]. intros Hk H.
    apply bind_Ok in H as (b1 & Hb & H). injection H as <-. cbn [vc_base vc_alpha vc_bins vc_first].
    rewrite (base_rollback_rollback b b1 k1 k2 Hk Hb).
    destruct (base_rollback_results _ _ _ Hb) as (_ & Er & Hle). rewrite Er.
    destruct (base_rollback b k2) as [b2|e]; cbn [bind]; [|reflexivity]. f_equal. f_equal.
    destruct k2 as [|p2]; [|destruct k1; [lia|reflexivity]].
    destruct k1 as [|p1]; [cbn [N.to_nat firstn]; reflexivity|].
    destruct (b_results b) as [|r rs]; [rewrite firstn_nil; reflexivity|].
    destruct (N.to_nat (N.pos p1)) eqn:E; [lia|reflexivity].
  Qed.

  (** ** multi-channel *)
  Lemma mchk_addmany (rgs : list (mcres_mc K * N)) : forall c : mchk K,
    addmany mchk_add c rgs = mk_mchk (addmany base_add (mc_base c) rgs) (mc_beta c) (mc_minw c) (mc_first c).
  Proof.
    unfold addmany. induction rgs as [|[r g] rgs IH]; intros c.
    - destruct c; reflexivity.
    - cbn [fold_left]. rewrite IH. reflexivity.
  Qed.

  Lemma mchk_rollback_rejects (c : mchk K) k : (N.of_nat (length (b_results (mc_base c))) < k)%N -> mchk_rollback c k = UB 41.
  Proof. intros H. unfold mchk_rollback. rewrite base_rollback_rejects by exact H. reflexivity. Qed.

  Lemma mchk_rollback_n (c : mchk K) : length (b_gens (mc_base c)) = S (length (b_results (mc_base c))) ->
    mchk_rollback c (N.of_nat (length (b_results (mc_base c)))) = Ok c.
  Proof.
    intros Hg. unfold mchk_rollback. rewrite base_rollback_n by exact Hg. cbn [bind].
    destruct c as [[rs gs] a m fi]. cbn [mc_base mc_beta mc_minw mc_first b_results].
    destruct rs; reflexivity.
  Qed.

  Lemma mchk_rollback_prefix (c : mchk K) rgs j :
    length (b_gens (mc_base c)) = S (length (b_results (mc_base c))) -> j <= length rgs ->
    (b_results (mc_base c) = [] -> forall rg, hd_error rgs = Some rg -> mc_first c = m_weights (fst rg)) ->
    mchk_rollback (addmany mchk_add c rgs) (N.of_nat (length (b_results (mc_base c)) + j))
    = Ok (addmany mchk_add c (firstn j rgs)).
  Proof.
    intros Hg Hj Hfirst. rewrite !mchk_addmany. unfold mchk_rollback. cbn [mc_base mc_beta mc_minw mc_first].
    rewrite base_rollback_prefix by assumption. cbn [bind]. f_equal. f_equal.
    rewrite base_addmany. cbn [b_results].
    destruct (N.of_nat (length (b_results (mc_base c)) + j)) eqn:En; [|reflexivity].
    destruct (b_results (mc_base c)) as [|r0 rs0] eqn:Er; [|cbn in En; lia].
    cbn [app]. destruct rgs as [|rg rgs]; [reflexivity|]. cbn [map]. symmetry. apply Hfirst; reflexivity.
  Qed.

  Lemma mchk_chan_base (c : mchk K) n : mc_base (mchk_channels c n) = mc_base c.
  Proof. unfold mchk_channels. destruct (mc_first c); reflexivity. Qed.

  Lemma mc_rollback_spec d n cb cs (c0 : mchk K) idx c idx' ls :
    mc_run L strm ps f mp d n cb cs c0 idx = Ok (c, idx', ls) ->
    length (b_gens (mc_base c0)) = S (length (b_results (mc_base c0))) ->
    forall j, j <= length ls ->
    mchk_rollback c (N.of_nat (length (b_results (mc_base c0)) + j))
    = Ok (nth j (chks _ _ (mchk_channels c0 n) ls) (mchk_channels c0 n)).
  Proof.
    unfold mc_run. intros H Hg j Hj. apply run_exec in H as (g & rest & _ & Hex).
    apply exec_addmany in Hex as (rgs & Hlen & -> & Hnth & Hfst). rewrite Hnth by exact Hj.
    rewrite <- (mchk_chan_base c0 n) in Hg |- *.
    apply mchk_rollback_prefix; [exact Hg|lia|].
    intros Hr rg Hrg. destruct (Hfst rg Hrg) as (calls & g0 & idx0 & idx1 & evs & Hi).
    apply bind_Ok in Hi as (ws & Hw & Hi). apply mc_iteration_state in Hi as (E1 & _).
    unfold mchk_weights in Hw. rewrite Hr in Hw. cbn [rev] in Hw. injection Hw as ->. rewrite E1. reflexivity.
  Qed.

  Lemma mchk_rollback_eqv (c c' : mchk K) k : mchk_eqv c c' -> res_rel mchk_eqv (mchk_rollback c k) (mchk_rollback c' k).
  Proof.
    destruct c as [b a m fi], c' as [b' a' m' fi']. unfold mchk_eqv, mchk_rollback.
    cbn [mc_base mc_beta mc_minw mc_first]. intros (<- & <- & <- & H4).
    destruct (base_rollback b k) as [b1|e] eqn:Eb; cbn [bind res_rel]; [|reflexivity].
    apply base_rollback_results in Eb as (_ & Er & _).
    unfold mchk_eqv. cbn [mc_base mc_beta mc_minw mc_first]. split; [reflexivity|]. split; [reflexivity|]. split; [reflexivity|].
    rewrite Er. intros Hn. destruct k as [|p].
    - destruct (b_results b); [apply H4; reflexivity|reflexivity].
    - apply firstn_pos_nonempty in Hn. apply H4. exact Hn.
  Qed.

  Lemma mchk_rollback_rollback (c c1 : mchk K) k1 k2 : (k2 <= k1)%N ->
    mchk_rollback c k1 = Ok c1 -> mchk_rollback c1 k2 = mchk_rollback c k2.
  Proof.
    destruct c as [b a m fi]. unfold mchk_rollback. cbn [mc_base mc_beta mc_minw mc_first]. intros Hk H.
    apply bind_Ok in H as (b1 & Hb & H). injection H as <-. cbn [mc_base mc_beta mc_minw mc_first].
    rewrite (base_rollback_rollback b b1 k1 k2 Hk Hb).
    destruct (base_rollback_results _ _ _ Hb) as (_ & Er & Hle). rewrite Er.
    destruct (base_rollback b k2) as [b2|e]; cbn [bind]; [|reflexivity]. f_equal. f_equal.
    destruct k2 as [|p2]; [|destruct k1; [lia|reflexivity]].
    destruct k1 as [|p1]; [cbn [N.to_nat firstn]; reflexivity|].
    destruct (b_results b) as [|r rs]; [rewrite firstn_nil; reflexivity|].
    destruct (N.to_nat (N.pos p1)) eqn:E; [lia|reflexivity].
  Qed.

  (** ** the full statements: rollback, the truncated run, and the resumed run *)
  Lemma c15_plain_spec d cb cs (c0 : pchk K) idx c idx' ls :
    plain_run strm ps f d cb cs c0 idx = Ok (c, idx', ls) ->
    length (b_gens c0) = S (length (b_results c0)) ->
    forall j, j <= length ls ->
    let k := N.of_nat (length (b_results c0) + j) in
    let cj := nth j (chks _ _ c0 ls) c0 in
    base_rollback c k = Ok cj /\
    exists idxj, plain_run strm ps f d cb (firstn j cs) c0 idx = Ok (cj, idxj, firstn j ls) /\
      ((j < length ls \/ length ls = length cs) ->
       plain_run strm ps f d cb (skipn j cs) cj idxj = Ok (c, idx', skipn j ls)).
  Proof.
    intros H Hg j Hj k cj. split; [eapply plain_rollback_spec; eauto|].
    exact (drun_split (pchk K) (plainres K) (event K) base_gen
             (fun _ calls g i => plain_iteration strm ps f d calls g i) base_add cb base_gen_add
             (fun c => c) (fun c => eq_refl) (fun c r g _ => eq_refl) cs c0 idx c idx' ls H j Hj).
  Qed.

  Lemma c15_vegas_spec d cb cs (c0 : vchk K) idx c idx' ls :
    vegas_run L strm ps f d cb cs c0 idx = Ok (c, idx', ls) ->
    length (b_gens (vc_base c0)) = S (length (b_results (vc_base c0))) ->
    forall j, j <= length ls ->
    let k := N.of_nat (length (b_results (vc_base c0)) + j) in
    let cj := nth j (chks _ _ (vchk_dimensions c0 d) ls) (vchk_dimensions c0 d) in
    vchk_rollback c k = Ok cj /\
    exists idxj, vegas_run L strm ps f d cb (firstn j cs) c0 idx = Ok (cj, idxj, firstn j ls) /\
      ((j < length ls \/ length ls = length cs) ->
       vegas_run L strm ps f d cb (skipn j cs) cj idxj = Ok (c, idx', skipn j ls)).
  Proof.
    intros H Hg j Hj k cj. split; [eapply vegas_rollback_spec; eauto|].
    exact (drun_split (vchk K) (vegasres K) (event K) (fun c => base_gen (vc_base c)) (vegas_iter L strm ps f)
             vchk_add cb (fun c r g => base_gen_add (vc_base c) r g)
             (fun c => vchk_dimensions c d) (fun c => vchk_dim_dim c d) (fun c r g _ => vchk_dim_add c r g d)
             cs c0 idx c idx' ls H j Hj).
  Qed.

  Lemma c15_mc_spec d n cb cs (c0 : mchk K) idx c idx' ls :
    mc_run L strm ps f mp d n cb cs c0 idx = Ok (c, idx', ls) ->
    length (b_gens (mc_base c0)) = S (length (b_results (mc_base c0))) ->
    forall j, j <= length ls ->
    let k := N.of_nat (length (b_results (mc_base c0)) + j) in
    let cj := nth j (chks _ _ (mchk_channels c0 n) ls) (mchk_channels c0 n) in
    mchk_rollback c k = Ok cj /\
    exists idxj, mc_run L strm ps f mp d n cb (firstn j cs) c0 idx = Ok (cj, idxj, firstn j ls) /\
      ((j < length ls \/ length ls = length cs) ->
       mc_run L strm ps f mp d n cb (skipn j cs) cj idxj = Ok (c, idx', skipn j ls)).
  Proof.
    intros H Hg j Hj k cj. split; [eapply mc_rollback_spec; eauto|].
    exact (drun_split (mchk K) (mcres_mc K) (event K) (fun c => base_gen (mc_base c)) (mc_iter L strm ps f mp d)
             mchk_add cb (fun c r g => base_gen_add (mc_base c) r g)
             (fun c => mchk_channels c n) (fun c => mchk_chan_chan c n) (fun c r g H => mchk_chan_add c r g n H)
             cs c0 idx c idx' ls H j Hj).
  Qed.

  (** ** after writing to text and reading back *)
  Lemma c15_plain_after_reload (c : pchk K) : wf_pchk c = true -> plain_reload digits10 c = Ok c.
  Proof. intros H. apply pchk_roundtrip. exact H. Qed.

  Lemma res_rel_Ok {A} (rel : A -> A -> Prop) a y : res_rel rel (Ok a) y -> exists b, y = Ok b /\ rel a b.
  Proof. destruct y as [b|e]; cbn; [|intros []]. intros H. exists b. auto. Qed.

  Lemma c15_vegas_after_reload d cb cs (c0 : vchk K) idx c idx' ls :
    (forall x y, vchk_eqv x y -> cb x = cb y) ->
    vegas_run L strm ps f d cb cs c0 idx = Ok (c, idx', ls) ->
    length (b_gens (vc_base c0)) = S (length (b_results (vc_base c0))) ->
    wf_vchk c = true ->
    forall j, j <= length ls ->
    let k := N.of_nat (length (b_results (vc_base c0)) + j) in
    let cj := nth j (chks _ _ (vchk_dimensions c0 d) ls) (vchk_dimensions c0 d) in
    exists c_re ck,
      vchk_reload digits10 c = Ok c_re /\ vchk_rollback c_re k = Ok ck /\
      vchk_eqv cj ck /\ ser_vchk digits10 ck = ser_vchk digits10 cj /\
      (* resuming from it, with any calls list: same results, textually identical checkpoints *)
      (forall cs' idx1, out_eqv (vchk K) (event K) vchk_eqv
         (vegas_run L strm ps f d cb cs' cj idx1) (vegas_run L strm ps f d cb cs' ck idx1)) /\
      (* in particular the rest of the original calls list reproduces the rest of the original run *)
      exists idxj, vegas_run L strm ps f d cb (firstn j cs) c0 idx = Ok (cj, idxj, firstn j ls) /\
        ((j < length ls \/ length ls = length cs) ->
         exists c2 ls2, vegas_run L strm ps f d cb (skipn j cs) ck idxj = Ok (c2, idx', ls2) /\
           vchk_eqv c c2 /\ Forall2 (log_eqv _ _ vchk_eqv) (skipn j ls) ls2 /\
           ser_vchk digits10 c2 = ser_vchk digits10 c).
  Proof.
    intros Hcb H Hg Hwf j Hj k cj.
    destruct (c15_vegas_spec d cb cs c0 idx c idx' ls H Hg j Hj) as (Hrb & idxj & Hpre & Hsuf).
    fold k cj in Hrb, Hpre, Hsuf.
    pose proof H as H'. unfold vegas_run in H'. apply run_exec in H' as (g & rest & _ & Hex).
    assert (Htc : vchk_textual c).
    { eapply vegas_chks_textual; [exact H|].
      rewrite (exec_final_nth _ _ _ _ _ _ _ _ _ _ _ _ _ _ Hex). apply nth_chks_In. apply le_n. }
    assert (Htj : vchk_textual cj) by (eapply vegas_chks_textual; [exact H|apply nth_chks_In; exact Hj]).
    exists (vchk_reread c). pose proof (vchk_rollback_eqv (vchk_reread c) c k (vchk_reread_eqv c)) as Hrel.
    rewrite Hrb in Hrel. destruct (vchk_rollback (vchk_reread c) k) as [ck|e] eqn:Eck; [|destruct Hrel].
    cbn [res_rel] in Hrel. apply vchk_eqv_sym in Hrel.
    exists ck. split; [apply vchk_reload_reread; split; assumption|]. split; [reflexivity|].
    split; [exact Hrel|]. split; [symmetry; apply vchk_eqv_ser; exact Hrel|].
    assert (Hall : forall cs' idx1, out_eqv (vchk K) (event K) vchk_eqv
         (vegas_run L strm ps f d cb cs' cj idx1) (vegas_run L strm ps f d cb cs' ck idx1)).
    { intros cs' idx1. apply vegas_run_eqv; assumption. }
    split; [exact Hall|]. exists idxj. split; [exact Hpre|]. intros Hcond.
    specialize (Hall (skipn j cs) idxj). rewrite (Hsuf Hcond) in Hall.
    apply out_eqv_Ok in Hall as (c2 & ls2 & E & He & Hl). exists c2, ls2.
    split; [exact E|]. split; [exact He|]. split; [exact Hl|]. symmetry. apply vchk_eqv_ser. exact He.
  Qed.

  Lemma c15_mc_after_reload d n cb cs (c0 : mchk K) idx c idx' ls :
    (forall x y, mchk_eqv x y -> cb x = cb y) ->
    mc_run L strm ps f mp d n cb cs c0 idx = Ok (c, idx', ls) ->
    length (b_gens (mc_base c0)) = S (length (b_results (mc_base c0))) ->
    wf_mchk c = true ->
    forall j, j <= length ls ->
    let k := N.of_nat (length (b_results (mc_base c0)) + j) in
    let cj := nth j (chks _ _ (mchk_channels c0 n) ls) (mchk_channels c0 n) in
    exists c_re ck,
      mchk_reload digits10 c = Ok c_re /\ mchk_rollback c_re k = Ok ck /\
      mchk_eqv cj ck /\ ser_mchk digits10 ck = ser_mchk digits10 cj /\
      (forall cs' idx1, out_eqv (mchk K) (event K) mchk_eqv
         (mc_run L strm ps f mp d n cb cs' cj idx1) (mc_run L strm ps f mp d n cb cs' ck idx1)) /\
      exists idxj, mc_run L strm ps f mp d n cb (firstn j cs) c0 idx = Ok (cj, idxj, firstn j ls) /\
        ((j < length ls \/ length ls = length cs) ->
         exists c2 ls2, mc_run L strm ps f mp d n cb (skipn j cs) ck idxj = Ok (c2, idx', ls2) /\
           mchk_eqv c c2 /\ Forall2 (log_eqv _ _ mchk_eqv) (skipn j ls) ls2 /\
           ser_mchk digits10 c2 = ser_mchk digits10 c).
  Proof.
    intros Hcb H Hg Hwf j Hj k cj.
    destruct (c15_mc_spec d n cb cs c0 idx c idx' ls H Hg j Hj) as (Hrb & idxj & Hpre & Hsuf).
    fold k cj in Hrb, Hpre, Hsuf.
    exists (mchk_reread c). pose proof (mchk_rollback_eqv (mchk_reread c) c k (mchk_reread_eqv c)) as Hrel.
    rewrite Hrb in Hrel. destruct (mchk_rollback (mchk_reread c) k) as [ck|e] eqn:Eck; [|destruct Hrel].
    cbn [res_rel] in Hrel. apply mchk_eqv_sym in Hrel.
    exists ck. split; [apply mchk_deser; exact Hwf|]. split; [reflexivity|].
    split; [exact Hrel|]. split; [symmetry; apply mchk_eqv_ser; exact Hrel|].
    assert (Hall : forall cs' idx1, out_eqv (mchk K) (event K) mchk_eqv
         (mc_run L strm ps f mp d n cb cs' cj idx1) (mc_run L strm ps f mp d n cb cs' ck idx1)).
    { intros cs' idx1. apply mc_run_eqv; assumption. }
    split; [exact Hall|]. exists idxj. split; [exact Hpre|]. intros Hcond.
    specialize (Hall (skipn j cs) idxj). rewrite (Hsuf Hcond) in Hall.
    apply out_eqv_Ok in Hall as (c2 & ls2 & E & He & Hl). exists c2, ls2.
    split; [exact E|]. split; [exact He|]. split; [exact Hl|]. symmetry. apply mchk_eqv_ser. exact He.
  Qed.
End Kinds.

(* ================================================================================================ *)
(** * non-vacuity: real runs in double precision (3 VEGAS iterations from Lemmas_C19, 2 PLAIN iterations
    from Lemmas_C12, 3 multi-channel iterations with two channels); every checkpoint shown to the
    callback is well formed, so all hypotheses of the theorems hold for them *)
From HepMC Require Import NumB Lemmas_C12.

Definition ex15_vegas_c0 : vchk B64 := vchk_default 4 (one B64) 0.
Definition ex15_vegas_check : bool :=
  match ex19_run with
  | Ok (c, _, ls) => Nat.eqb (length ls) 3 && forallb wf_vchk (chks _ _ (vchk_dimensions ex15_vegas_c0 1) ls)
  | UB _ => false
  end.
Lemma ex15_vegas_check_ok : ex15_vegas_check = true.
Proof. vm_compute. reflexivity. Qed.

Lemma ex15_vegas : exists c idx' ls,
  vegas_run ex19_L ex19_strm [] ex19_f 1 (fun _ => true) [8; 8; 8]%N ex15_vegas_c0 0 = Ok (c, idx', ls) /\
  length ls = 3 /\ length (b_gens (vc_base ex15_vegas_c0)) = S (length (b_results (vc_base ex15_vegas_c0))) /\
  (forall x, In x (chks _ _ (vchk_dimensions ex15_vegas_c0 1) ls) -> wf_vchk x = true).
Proof.
  pose proof ex15_vegas_check_ok as H. unfold ex15_vegas_check in H. change ex19_run with
    (vegas_run ex19_L ex19_strm [] ex19_f 1 (fun _ => true) [8; 8; 8]%N ex15_vegas_c0 0) in H. revert H.
  destruct (vegas_run ex19_L ex19_strm [] ex19_f 1 (fun _ => true) [8; 8; 8]%N ex15_vegas_c0 0) as [[[c i] ls]|e];
    intros H; [|discriminate].
  exists c, i, ls. split; [reflexivity|]. apply andb_true_iff in H as [H1 H2].
  split; [apply Nat.eqb_eq; exact H1|]. split; [reflexivity|]. rewrite forallb_forall in H2. exact H2.
Qed.

Definition ex15_plain_c0 : pchk B64 := base_init 0%N.
Definition ex15_plain_check : bool :=
  match ex_run with
  | Ok (c, _, ls) => Nat.eqb (length ls) 2 && forallb wf_pchk (chks _ _ ex15_plain_c0 ls)
  | UB _ => false
  end.
Lemma ex15_plain_check_ok : ex15_plain_check = true.
Proof. vm_compute. reflexivity. Qed.

Lemma ex15_plain : exists c idx' ls,
  plain_run ex_strm [] ex_f 1 (cb_plain (zero B64)) [3; 3]%N ex15_plain_c0 0 = Ok (c, idx', ls) /\
  length ls = 2 /\ length (b_gens ex15_plain_c0) = S (length (b_results ex15_plain_c0)) /\
  (forall x, In x (chks _ _ ex15_plain_c0 ls) -> wf_pchk x = true).
Proof.
  pose proof ex15_plain_check_ok as H. unfold ex15_plain_check in H. change ex_run with
    (plain_run ex_strm [] ex_f 1 (cb_plain (zero B64)) [3; 3]%N ex15_plain_c0 0) in H. revert H.
  destruct (plain_run ex_strm [] ex_f 1 (cb_plain (zero B64)) [3; 3]%N ex15_plain_c0 0) as [[[c i] ls]|e];
    intros H; [|discriminate].
  exists c, i, ls. split; [reflexivity|]. apply andb_true_iff in H as [H1 H2].
  split; [apply Nat.eqb_eq; exact H1|]. split; [reflexivity|]. rewrite forallb_forall in H2. exact H2.
Qed.

(* two channels with identical unit densities; coordinates = the random numbers *)
Definition ex15_mp : mcmap B64 :=
  mk_mcmap (fun _ _ us _ => us) (fun _ _ _ _ _ => (one B64, [one B64; one B64])).
Definition ex15_mc_c0 : mchk B64 := mchk_default (zero B64) (one B64) 0.
Definition ex15_mc_run :=
  mc_run ex19_L ex19_strm [] ex19_f ex15_mp 1 2 (fun _ => true) [4; 4; 4]%N ex15_mc_c0 0.
Definition ex15_mc_check : bool :=
  match ex15_mc_run with
  | Ok (c, _, ls) => Nat.eqb (length ls) 3 && forallb wf_mchk (chks _ _ (mchk_channels ex15_mc_c0 2) ls)
  | UB _ => false
  end.
Lemma ex15_mc_check_ok : ex15_mc_check = true.
Proof. vm_compute. reflexivity. Qed.

Lemma ex15_mc : exists c idx' ls,
  mc_run ex19_L ex19_strm [] ex19_f ex15_mp 1 2 (fun _ => true) [4; 4; 4]%N ex15_mc_c0 0 = Ok (c, idx', ls) /\
  length ls = 3 /\ length (b_gens (mc_base ex15_mc_c0)) = S (length (b_results (mc_base ex15_mc_c0))) /\
  (forall x, In x (chks _ _ (mchk_channels ex15_mc_c0 2) ls) -> wf_mchk x = true).
Proof.
  pose proof ex15_mc_check_ok as H. unfold ex15_mc_check, ex15_mc_run in H. revert H.
  destruct (mc_run ex19_L ex19_strm [] ex19_f ex15_mp 1 2 (fun _ => true) [4; 4; 4]%N ex15_mc_c0 0) as [[[c i] ls]|e];
    intros H; [|discriminate].
  exists c, i, ls. split; [reflexivity|]. apply andb_true_iff in H as [H1 H2].
  split; [apply Nat.eqb_eq; exact H1|]. split; [reflexivity|]. rewrite forallb_forall in H2. exact H2.
Qed.
