(** Lemmas for C15: rolling back to iteration k reproduces the run that stopped after k.
    Imports Lemmas_C03.v (splitting of runs, the relation "textually identical"). *)
From Coq Require Import String ZArith NArith Bool Lia List.
From HepMC Require Import Num Result Accum VegasPdf Discrete MultiChannel Iter Chkpt Callback Run Codec
  Lemmas_Run Lemmas_C05 Lemmas_C19 Lemmas_C03.
Import ListNotations.

(* ================================================================================================ *)
(** * a run only ever appends (result, generator) pairs to the checkpoint it started from *)
Section AddMany.
  Variables (C R Evt : Type).
  Variable iterate : C -> N -> N -> N -> res (R * N * N * list Evt).
  Variable add : C -> R -> N -> C.
  Variable cb : C -> bool.
  Notation Exec := (Lemmas_Run.Exec C R Evt iterate add cb).
  Notation chks := (Lemmas_Run.chks C Evt).

  Definition addmany (c : C) (rgs : list (R * N)) : C := fold_left (fun c rg => add c (fst rg) (snd rg)) rgs c.

  Lemma exec_addmany cs c g idx ls c' idx' rest :
    Exec cs c g idx ls c' idx' rest ->
    exists rgs, length rgs = length ls /\ c' = addmany c rgs /\
      (forall j, j <= length ls -> nth j (chks c ls) c = addmany c (firstn j rgs)) /\
      (* the first pair is what the first iteration, run on [c], produced *)
      (forall rg, hd_error rgs = Some rg ->
         exists calls g0 idx0 idx1 evs, iterate c calls g0 idx0 = Ok (fst rg, snd rg, idx1, evs)).
  Proof.
    induction 1 as [c g idx|calls cs c g idx l g' idx' Hok Hc|calls cs c g idx l g' idx' ls c' idx'' rest Hok Hc Hex IH].
    - exists []. split; [reflexivity|]. split; [reflexivity|]. split.
      + intros j Hj. cbn in Hj. assert (j = 0) by lia. subst j. reflexivity.
      + intros rg Hrg. discriminate.
    - destruct Hok as (r & Hi & Ea & _). exists [(r, g')]. split; [reflexivity|]. split; [exact Ea|]. split.
      + intros j Hj. cbn in Hj. destruct j as [|[|j]]; [reflexivity|exact Ea|lia].
      + intros rg Hrg. injection Hrg as <-. exists calls, g, idx, idx', (il_events l). exact Hi.
    - destruct Hok as (r & Hi & Ea & _). destruct IH as (rgs & Hlen & Hfin & Hnth & _).
      exists ((r, g') :: rgs). split; [cbn [length]; rewrite Hlen; reflexivity|].
      split; [rewrite Hfin, Ea; reflexivity|]. split.
      + intros j Hj. destruct j as [|j]; [reflexivity|]. cbn [length] in Hj.
        rewrite (nth_chks_S C Evt) by lia. rewrite Hnth by lia. rewrite Ea. reflexivity.
      + intros rg Hrg. injection Hrg as <-. exists calls, g, idx, idx', (il_events l). exact Hi.
  Qed.
End AddMany.
Arguments addmany {C R}.

(* ================================================================================================ *)
(** * the base: results and generators *)
Section Base.
  Context {R : Type}.

  Lemma base_addmany (rgs : list (R * N)) : forall b : base R,
    addmany base_add b rgs = mk_base (b_results b ++ map fst rgs) (b_gens b ++ map snd rgs).
  Proof.
    unfold addmany. induction rgs as [|[r g] rgs IH]; intros b.
    - destruct b. cbn. rewrite !app_nil_r. reflexivity.
    - cbn [fold_left]. rewrite IH. unfold base_add. cbn [b_results b_gens map fst snd].
      rewrite <- !app_assoc. reflexivity.
  Qed.

  (* k > number of results: rejected (the C++ throws std::out_of_range) *)
  Lemma base_rollback_rejects (b : base R) k : (N.of_nat (length (b_results b)) < k)%N -> base_rollback b k = UB 41.
  Proof. intros H. unfold base_rollback. apply N.ltb_lt in H. rewrite H. reflexivity. Qed.

  (* k = number of results: nothing changes *)
  Lemma base_rollback_n (b : base R) : length (b_gens b) = S (length (b_results b)) ->
    base_rollback b (N.of_nat (length (b_results b))) = Ok b.
  Proof.
    intros Hg. unfold base_rollback. rewrite N.ltb_irrefl, Nat2N.id.
    rewrite firstn_all, firstn_all2 by lia. destruct b; reflexivity.
  Qed.

  (* rolling back to m + j after appending: the first j appended pairs remain *)
  Lemma base_rollback_prefix (b : base R) rgs j :
    length (b_gens b) = S (length (b_results b)) -> j <= length rgs ->
    base_rollback (addmany base_add b rgs) (N.of_nat (length (b_results b) + j))
    = Ok (addmany base_add b (firstn j rgs)).
  Proof.
    intros Hg Hj. rewrite !base_addmany. unfold base_rollback. cbn [b_results b_gens].
    destruct (N.ltb_spec (N.of_nat (length (b_results b ++ map fst rgs))) (N.of_nat (length (b_results b) + j))) as [Hlt|_].
    - rewrite app_length, map_length in Hlt. lia.
    - rewrite Nat2N.id. f_equal. f_equal.
      + rewrite firstn_app_2, firstn_map. reflexivity.
      + replace (S (length (b_results b) + j)) with (length (b_gens b) + j) by lia.
        rewrite firstn_app_2, firstn_map. reflexivity.
  Qed.

  Lemma base_rollback_results (b b1 : base R) k : base_rollback b k = Ok b1 ->
    b1 = mk_base (firstn (N.to_nat k) (b_results b)) (firstn (S (N.to_nat k)) (b_gens b)) /\
    b_results b1 = firstn (N.to_nat k) (b_results b) /\ (k <= N.of_nat (length (b_results b)))%N.
  Proof.
    unfold base_rollback. destruct (N.ltb_spec (N.of_nat (length (b_results b))) k) as [|Hle]; [discriminate|].
    intros H. apply Ok_inj in H. subst b1. split; [reflexivity|]. split; [reflexivity|exact Hle].
  Qed.

  Lemma base_rollback_Ok (b : base R) k : (k <= N.of_nat (length (b_results b)))%N ->
    base_rollback b k = Ok (mk_base (firstn (N.to_nat k) (b_results b)) (firstn (S (N.to_nat k)) (b_gens b))).
  Proof.
    intros Hle. unfold base_rollback.
    destruct (N.ltb_spec (N.of_nat (length (b_results b))) k) as [|_]; [lia|reflexivity].
  Qed.

  (* a second rollback to an earlier point gives what a direct rollback gives *)
  Lemma base_rollback_rollback (b b1 : base R) k1 k2 : (k2 <= k1)%N ->
    base_rollback b k1 = Ok b1 -> base_rollback b1 k2 = base_rollback b k2.
  Proof.
    intros Hk H. apply base_rollback_results in H as (-> & _ & Hle).
    rewrite (base_rollback_Ok b k2) by lia.
    rewrite base_rollback_Ok.
    - remember (S (N.to_nat k1)) as n1 eqn:En1. remember (S (N.to_nat k2)) as n2 eqn:En2.
      simpl (b_results (mk_base _ _)). simpl (b_gens (mk_base _ _)).
      rewrite !firstn_firstn. f_equal. f_equal; f_equal; lia.
    - simpl (b_results (mk_base _ _)). rewrite firstn_length. lia.
  Qed.

  (* the invariant |generators| = |results| + 1: holds initially, kept by add and by rollback *)
  Definition gens_inv (b : base R) : Prop := length (b_gens b) = S (length (b_results b)).
  Lemma gens_inv_all :
    (forall g, gens_inv (base_init g)) /\
    (forall b r g, gens_inv b -> gens_inv (base_add b r g)) /\
    (forall b k b1, gens_inv b -> base_rollback b k = Ok b1 -> gens_inv b1).
  Proof.
    unfold gens_inv. split; [reflexivity|]. split.
    - intros b r g H. unfold base_add. cbn [b_gens b_results]. rewrite !app_length, H. cbn. lia.
    - intros b k b1 H Hr. apply base_rollback_results in Hr as (-> & _ & Hle).
      remember (S (N.to_nat k)) as n1 eqn:En1. simpl (b_results (mk_base _ _)). simpl (b_gens (mk_base _ _)).
      rewrite !firstn_length. lia.
  Qed.
End Base.

Lemma firstn_pos_nonempty {A} (l : list A) p : firstn (N.to_nat (N.pos p)) l = [] -> l = [].
Proof. destruct l as [|x l]; [reflexivity|]. destruct (N.to_nat (N.pos p)) eqn:E; [lia|]. discriminate. Qed.

(* ================================================================================================ *)
Section Kinds.
  Context {K : Num}.
  Context (L : Libm K).
  Variable strm : N -> K.
  Variable ps : list (dparams K).
  Variable f : integrand K.
  Variable mp : mcmap K.
  Variable digits10 : string.

  (** ** PLAIN *)
  Lemma plain_rollback_spec d cb cs (c0 : pchk K) idx c idx' ls :
    plain_run strm ps f d cb cs c0 idx = Ok (c, idx', ls) ->
    length (b_gens c0) = S (length (b_results c0)) ->
    forall j, j <= length ls ->
    base_rollback c (N.of_nat (length (b_results c0) + j)) = Ok (nth j (chks _ _ c0 ls) c0).
  Proof.
    unfold plain_run. intros H Hg j Hj. apply run_exec in H as (g & rest & _ & Hex).
    apply exec_addmany in Hex as (rgs & Hlen & -> & Hnth & _). rewrite Hnth by exact Hj.
    apply base_rollback_prefix; [exact Hg|lia].
  Qed.

  (** ** VEGAS *)
  Lemma vchk_addmany (rgs : list (vegasres K * N)) : forall c : vchk K,
    addmany vchk_add c rgs = mk_vchk (addmany base_add (vc_base c) rgs) (vc_alpha c) (vc_bins c) (vc_first c).
  Proof.
    unfold addmany. induction rgs as [|[r g] rgs IH]; intros c.
    - destruct c; reflexivity.
    - cbn [fold_left]. rewrite IH. reflexivity.
  Qed.

  Lemma vchk_rollback_rejects (c : vchk K) k : (N.of_nat (length (b_results (vc_base c))) < k)%N -> vchk_rollback c k = UB 41.
  Proof. intros H. unfold vchk_rollback. rewrite base_rollback_rejects by exact H. reflexivity. Qed.

  Lemma vchk_rollback_n (c : vchk K) : length (b_gens (vc_base c)) = S (length (b_results (vc_base c))) ->
    vchk_rollback c (N.of_nat (length (b_results (vc_base c)))) = Ok c.
  Proof.
    intros Hg. unfold vchk_rollback. rewrite base_rollback_n by exact Hg. cbn [bind].
    destruct c as [[rs gs] a bi fi]. cbn [vc_base vc_alpha vc_bins vc_first b_results].
    destruct rs; reflexivity.
  Qed.

  Lemma vchk_rollback_prefix (c : vchk K) rgs j :
    length (b_gens (vc_base c)) = S (length (b_results (vc_base c))) -> j <= length rgs ->
    (b_results (vc_base c) = [] -> forall rg, hd_error rgs = Some rg -> vc_first c = Some (v_pdf (fst rg))) ->
    vchk_rollback (addmany vchk_add c rgs) (N.of_nat (length (b_results (vc_base c)) + j))
    = Ok (addmany vchk_add c (firstn j rgs)).
  Proof.
    intros Hg Hj Hfirst. rewrite !vchk_addmany. unfold vchk_rollback. cbn [vc_base vc_alpha vc_bins vc_first].
    rewrite base_rollback_prefix by assumption. cbn [bind]. f_equal. f_equal.
    rewrite base_addmany. cbn [b_results].
    destruct (N.of_nat (length (b_results (vc_base c)) + j)) eqn:En; [|reflexivity].
    destruct (b_results (vc_base c)) as [|r0 rs0] eqn:Er; [|cbn in En; lia].
    cbn [app]. destruct rgs as [|rg rgs]; [reflexivity|]. cbn [map]. symmetry. apply Hfirst; reflexivity.
  Qed.

  Lemma vchk_dim_base (c : vchk K) d : vc_base (vchk_dimensions c d) = vc_base c.
  Proof. unfold vchk_dimensions. destruct (b_results (vc_base c)); [destruct (vc_first c)|]; reflexivity. Qed.

  Lemma vegas_rollback_spec d cb cs (c0 : vchk K) idx c idx' ls :
    vegas_run L strm ps f d cb cs c0 idx = Ok (c, idx', ls) ->
    length (b_gens (vc_base c0)) = S (length (b_results (vc_base c0))) ->
    forall j, j <= length ls ->
    vchk_rollback c (N.of_nat (length (b_results (vc_base c0)) + j))
    = Ok (nth j (chks _ _ (vchk_dimensions c0 d) ls) (vchk_dimensions c0 d)).
  Proof.
    unfold vegas_run. intros H Hg j Hj. apply run_exec in H as (g & rest & _ & Hex).
    apply exec_addmany in Hex as (rgs & Hlen & -> & Hnth & Hfst). rewrite Hnth by exact Hj.
    rewrite <- (vchk_dim_base c0 d) in Hg |- *.
    apply vchk_rollback_prefix; [exact Hg|lia|].
    intros Hr rg Hrg. destruct (Hfst rg Hrg) as (calls & g0 & idx0 & idx1 & evs & Hi).
    apply bind_Ok in Hi as (p & Hp & Hi). apply vegas_iteration_state in Hi as (E1 & _).
    unfold vchk_pdf in Hp. rewrite Hr in Hp. cbn [rev] in Hp.
    destruct (vc_first (vchk_dimensions c0 d)) as [p'|]; [|discriminate]. injection Hp as ->. rewrite E1. reflexivity.
  Qed.

  (* rollback respects "textually identical" *)
  Definition res_rel {A} (rel : A -> A -> Prop) (x y : res A) : Prop :=
    match x, y with Ok a, Ok b => rel a b | UB e, UB e' => e = e' | _, _ => False end.

  Lemma vchk_rollback_eqv (c c' : vchk K) k : vchk_eqv c c' -> res_rel vchk_eqv (vchk_rollback c k) (vchk_rollback c' k).
  Proof.
    destruct c as [b a bi fi], c' as [b' a' bi' fi']. unfold vchk_eqv, vchk_rollback.
    cbn [vc_base vc_alpha vc_bins vc_first]. intros (<- & <- & H3).
    destruct (base_rollback b k) as [b1|e] eqn:Eb; cbn [bind res_rel]; [|reflexivity].
    apply base_rollback_results in Eb as (_ & Er & _).
    unfold vchk_eqv. cbn [vc_base vc_alpha vc_first]. split; [reflexivity|]. split; [reflexivity|].
    rewrite Er. intros Hn. destruct k as [|p].
    - destruct (b_results b); [apply H3; reflexivity|reflexivity].
    - apply firstn_pos_nonempty in Hn. apply H3. exact Hn.
  Qed.

  Lemma vchk_rollback_rollback (c c1 : vchk K) k1 k2 : (k2 <= k1)%N ->
    vchk_rollback c k1 = Ok c1 -> vchk_rollback c1 k2 = vchk_rollback c k2.
  Proof.
    destruct c as [b a bi fi]. unfold vchk_rollback. cbn [vc_base vc_alpha vc_bins vc_first]. intros Hk H.
    apply bind_Ok in H as (b1 & Hb & H). injection H as <-. cbn [vc_base vc_alpha vc_bins vc_first].
    rewrite (base_rollback_rollback b b1 k1 k2 Hk Hb).
    destruct (base_rollback_results _ _ _ Hb) as (_ & Er & Hle). rewrite Er.
    destruct (base_rollback b k2) as [b2|e]; cbn [bind]; [|reflexivity]. f_equal. f_equal.
    destruct k2 as [|p2]; [|destruct k1; [lia|reflexivity]].
    destruct k1 as [|p1]; [cbn [N.to_nat firstn]; reflexivity|].
    destruct (b_results b) as [|r rs]; [rewrite firstn_nil; reflexivity|].
    destruct (N.to_nat (N.pos p1)) eqn:E; [lia|reflexivity].
  Qed.

  (** ** multi-channel *)
  Lemma mchk_addmany (rgs : list (mcres_mc K * N)) : forall c : mchk K,
    addmany mchk_add c rgs = mk_mchk (addmany base_add (mc_base c) rgs) (mc_beta c) (mc_minw c) (mc_first c).
  Proof.
    unfold addmany. induction rgs as [|[r g] rgs IH]; intros c.
    - destruct c; reflexivity.
    - cbn [fold_left]. rewrite IH. reflexivity.
  Qed.

  Lemma mchk_rollback_rejects (c : mchk K) k : (N.of_nat (length (b_results (mc_base c))) < k)%N -> mchk_rollback c k = UB 41.
  Proof. intros H. unfold mchk_rollback. rewrite base_rollback_rejects by exact H. reflexivity. Qed.

  Lemma mchk_rollback_n (c : mchk K) : length (b_gens (mc_base c)) = S (length (b_results (mc_base c))) ->
    mchk_rollback c (N.of_nat (length (b_results (mc_base c)))) = Ok c.
  Proof.
    intros Hg. unfold mchk_rollback. rewrite base_rollback_n by exact Hg. cbn [bind].
    destruct c as [[rs gs] a m fi]. cbn [mc_base mc_beta mc_minw mc_first b_results].
    destruct rs; reflexivity.
  Qed.

  Lemma mchk_rollback_prefix (c : mchk K) rgs j :
    length (b_gens (mc_base c)) = S (length (b_results (mc_base c))) -> j <= length rgs ->
    (b_results (mc_base c) = [] -> forall rg, hd_error rgs = Some rg -> mc_first c = m_weights (fst rg)) ->
    mchk_rollback (addmany mchk_add c rgs) (N.of_nat (length (b_results (mc_base c)) + j))
    = Ok (addmany mchk_add c (firstn j rgs)).
  Proof.
    intros Hg Hj Hfirst. rewrite !mchk_addmany. unfold mchk_rollback. cbn [mc_base mc_beta mc_minw mc_first].
    rewrite base_rollback_prefix by assumption. cbn [bind]. f_equal. f_equal.
    rewrite base_addmany. cbn [b_results].
    destruct (N.of_nat (length (b_results (mc_base c)) + j)) eqn:En; [|reflexivity].
    destruct (b_results (mc_base c)) as [|r0 rs0] eqn:Er; [|cbn in En; lia].
    cbn [app]. destruct rgs as [|rg rgs]; [reflexivity|]. cbn [map]. symmetry. apply Hfirst; reflexivity.
  Qed.

  Lemma mchk_chan_base (c : mchk K) n : mc_base (mchk_channels c n) = mc_base c.
  Proof. unfold mchk_channels. destruct (mc_first c); reflexivity. Qed.

  Lemma mc_rollback_spec d n cb cs (c0 : mchk K) idx c idx' ls :
    mc_run L strm ps f mp d n cb cs c0 idx = Ok (c, idx', ls) ->
    length (b_gens (mc_base c0)) = S (length (b_results (mc_base c0))) ->
    forall j, j <= length ls ->
    mchk_rollback c (N.of_nat (length (b_results (mc_base c0)) + j))
    = Ok (nth j (chks _ _ (mchk_channels c0 n) ls) (mchk_channels c0 n)).
  Proof.
    unfold mc_run. intros H Hg j Hj. apply run_exec in H as (g & rest & _ & Hex).
    apply exec_addmany in Hex as (rgs & Hlen & -> & Hnth & Hfst). rewrite Hnth by exact Hj.
    rewrite <- (mchk_chan_base c0 n) in Hg |- *.
    apply mchk_rollback_prefix; [exact Hg|lia|].
    intros Hr rg Hrg. destruct (Hfst rg Hrg) as (calls & g0 & idx0 & idx1 & evs & Hi).
    apply bind_Ok in Hi as (ws & Hw & Hi). apply mc_iteration_state in Hi as (E1 & _).
    unfold mchk_weights in Hw. rewrite Hr in Hw. cbn [rev] in Hw. injection Hw as ->. rewrite E1. reflexivity.
  Qed.

  Lemma mchk_rollback_eqv (c c' : mchk K) k : mchk_eqv c c' -> res_rel mchk_eqv (mchk_rollback c k) (mchk_rollback c' k).
  Proof.
    destruct c as [b a m fi], c' as [b' a' m' fi']. unfold mchk_eqv, mchk_rollback.
    cbn [mc_base mc_beta mc_minw mc_first]. intros (<- & <- & <- & H4).
    destruct (base_rollback b k) as [b1|e] eqn:Eb; cbn [bind res_rel]; [|reflexivity].
    apply base_rollback_results in Eb as (_ & Er & _).
    unfold mchk_eqv. cbn [mc_base mc_beta mc_minw mc_first]. split; [reflexivity|]. split; [reflexivity|]. split; [reflexivity|].
    rewrite Er. intros Hn. destruct k as [|p].
    - destruct (b_results b); [apply H4; reflexivity|reflexivity].
    - apply firstn_pos_nonempty in Hn. apply H4. exact Hn.
  Qed.

  Lemma mchk_rollback_rollback (c c1 : mchk K) k1 k2 : (k2 <= k1)%N ->
    mchk_rollback c k1 = Ok c1 -> mchk_rollback c1 k2 = mchk_rollback c k2.
  Proof.
    destruct c as [b a m fi]. unfold mchk_rollback. cbn [mc_base mc_beta mc_minw mc_first]. intros Hk H.
    apply bind_Ok in H as (b1 & Hb & H). injection H as <-. cbn [mc_base mc_beta mc_minw mc_first].
    rewrite (base_rollback_rollback b b1 k1 k2 Hk Hb).
    destruct (base_rollback_results _ _ _ Hb) as (_ & Er & Hle). rewrite Er.
    destruct (base_rollback b k2) as [b2|e]; cbn [bind]; [|reflexivity]. f_equal. f_equal.
    destruct k2 as [|p2]; [|destruct k1; [lia|reflexivity]].
    destruct k1 as [|p1]; [cbn [N.to_nat firstn]; reflexivity|].
    destruct (b_results b) as [|r rs]; [rewrite firstn_nil; reflexivity|].
    destruct (N.to_nat (N.pos p1)) eqn:E; [lia|reflexivity].
  Qed.

  (** ** the full statements: rollback, the truncated run, and the resumed run *)
  Lemma c15_plain_spec d cb cs (c0 : pchk K) idx c idx' ls :
    plain_run strm ps f d cb cs c0 idx = Ok (c, idx', ls) ->
    length (b_gens c0) = S (length (b_results c0)) ->
    forall j, j <= length ls ->
    let k := N.of_nat (length (b_results c0) + j) in
    let cj := nth j (chks _ _ c0 ls) c0 in
    base_rollback c k = Ok cj /\
    exists idxj, plain_run strm ps f d cb (firstn j cs) c0 idx = Ok (cj, idxj, firstn j ls) /\
      ((j < length ls \/ length ls = length cs) ->
       plain_run strm ps f d cb (skipn j cs) cj idxj = Ok (c, idx', skipn j ls)).
  Proof.
    intros H Hg j Hj k cj. split; [eapply plain_rollback_spec; eauto|].
    exact (drun_split (pchk K) (plainres K) (event K) base_gen
             (fun _ calls g i => plain_iteration strm ps f d calls g i) base_add cb base_gen_add
             (fun c => c) (fun c => eq_refl) (fun c r g _ => eq_refl) cs c0 idx c idx' ls H j Hj).
  Qed.

  Lemma c15_vegas_spec d cb cs (c0 : vchk K) idx c idx' ls :
    vegas_run L strm ps f d cb cs c0 idx = Ok (c, idx', ls) ->
    length (b_gens (vc_base c0)) = S (length (b_results (vc_base c0))) ->
    forall j, j <= length ls ->
    let k := N.of_nat (length (b_results (vc_base c0)) + j) in
    let cj := nth j (chks _ _ (vchk_dimensions c0 d) ls) (vchk_dimensions c0 d) in
    vchk_rollback c k = Ok cj /\
    exists idxj, vegas_run L strm ps f d cb (firstn j cs) c0 idx = Ok (cj, idxj, firstn j ls) /\
      ((j < length ls \/ length ls = length cs) ->
       vegas_run L strm ps f d cb (skipn j cs) cj idxj = Ok (c, idx', skipn j ls)).
  Proof.
    intros H Hg j Hj k cj. split; [eapply vegas_rollback_spec; eauto|].
    exact (drun_split (vchk K) (vegasres K) (event K) (fun c => base_gen (vc_base c)) (vegas_iter L strm ps f)
             vchk_add cb (fun c r g => base_gen_add (vc_base c) r g)
             (fun c => vchk_dimensions c d) (fun c => vchk_dim_dim c d) (fun c r g _ => vchk_dim_add c r g d)
             cs c0 idx c idx' ls H j Hj).
  Qed.

  Lemma c15_mc_spec d n cb cs (c0 : mchk K) idx c idx' ls :
    mc_run L strm ps f mp d n cb cs c0 idx = Ok (c, idx', ls) ->
    length (b_gens (mc_base c0)) = S (length (b_results (mc_base c0))) ->
    forall j, j <= length ls ->
    let k := N.of_nat (length (b_results (mc_base c0)) + j) in
    let cj := nth j (chks _ _ (mchk_channels c0 n) ls) (mchk_channels c0 n) in
    mchk_rollback c k = Ok cj /\
    exists idxj, mc_run L strm ps f mp d n cb (firstn j cs) c0 idx = Ok (cj, idxj, firstn j ls) /\
      ((j < length ls \/ length ls = length cs) ->
       mc_run L strm ps f mp d n cb (skipn j cs) cj idxj = Ok (c, idx', skipn j ls)).
  Proof.
    intros H Hg j Hj k cj. split; [eapply mc_rollback_spec; eauto|].
    exact (drun_split (mchk K) (mcres_mc K) (event K) (fun c => base_gen (mc_base c)) (mc_iter L strm ps f mp d)
             mchk_add cb (fun c r g => base_gen_add (mc_base c) r g)
             (fun c => mchk_channels c n) (fun c => mchk_chan_chan c n) (fun c r g H => mchk_chan_add c r g n H)
             cs c0 idx c idx' ls H j Hj).
  Qed.

  (** ** after writing to text and reading back *)
  Lemma c15_plain_after_reload (c : pchk K) : wf_pchk c = true -> plain_reload digits10 c = Ok c.
  Proof. intros H. apply pchk_roundtrip. exact H. Qed.

  Lemma res_rel_Ok {A} (rel : A -> A -> Prop) a y : res_rel rel (Ok a) y -> exists b, y = Ok b /\ rel a b.
  Proof. destruct y as [b|e]; cbn; [|intros []]. intros H. exists b. auto. Qed.

  Lemma c15_vegas_after_reload d cb cs (c0 : vchk K) idx c idx' ls :
    (forall x y, vchk_eqv x y -> cb x = cb y) ->
    vegas_run L strm ps f d cb cs c0 idx = Ok (c, idx', ls) ->
    length (b_gens (vc_base c0)) = S (length (b_results (vc_base c0))) ->
    wf_vchk c = true ->
    forall j, j <= length ls ->
    let k := N.of_nat (length (b_results (vc_base c0)) + j) in
    let cj := nth j (chks _ _ (vchk_dimensions c0 d) ls) (vchk_dimensions c0 d) in
    exists c_re ck,
      vchk_reload digits10 c = Ok c_re /\ vchk_rollback c_re k = Ok ck /\
      vchk_eqv cj ck /\ ser_vchk digits10 ck = ser_vchk digits10 cj /\
      (* resuming from it, with any calls list: same results, textually identical checkpoints *)
      (forall cs' idx1, out_eqv (vchk K) (event K) vchk_eqv
         (vegas_run L strm ps f d cb cs' cj idx1) (vegas_run L strm ps f d cb cs' ck idx1)) /\
      (* in particular the rest of the original calls list reproduces the rest of the original run *)
      exists idxj, vegas_run L strm ps f d cb (firstn j cs) c0 idx = Ok (cj, idxj, firstn j ls) /\
        ((j < length ls \/ length ls = length cs) ->
         exists c2 ls2, vegas_run L strm ps f d cb (skipn j cs) ck idxj = Ok (c2, idx', ls2) /\
           vchk_eqv c c2 /\ Forall2 (log_eqv _ _ vchk_eqv) (skipn j ls) ls2 /\
           ser_vchk digits10 c2 = ser_vchk digits10 c).
  Proof.
    intros Hcb H Hg Hwf j Hj k cj.
    destruct (c15_vegas_spec d cb cs c0 idx c idx' ls H Hg j Hj) as (Hrb & idxj & Hpre & Hsuf).
    fold k cj in Hrb, Hpre, Hsuf.
    pose proof H as H'. unfold vegas_run in H'. apply run_exec in H' as (g & rest & _ & Hex).
    assert (Htc : vchk_textual c).
    { eapply vegas_chks_textual; [exact H|].
      rewrite (exec_final_nth _ _ _ _ _ _ _ _ _ _ _ _ _ _ Hex). apply nth_chks_In. apply le_n. }
    assert (Htj : vchk_textual cj) by (eapply vegas_chks_textual; [exact H|apply nth_chks_In; exact Hj]).
    exists (vchk_reread c). pose proof (vchk_rollback_eqv (vchk_reread c) c k (vchk_reread_eqv c)) as Hrel.
    rewrite Hrb in Hrel. destruct (vchk_rollback (vchk_reread c) k) as [ck|e] eqn:Eck; [|destruct Hrel].
    cbn [res_rel] in Hrel. apply vchk_eqv_sym in Hrel.
    exists ck. split; [apply vchk_reload_reread; split; assumption|]. split; [reflexivity|].
    split; [exact Hrel|]. split; [symmetry; apply vchk_eqv_ser; exact Hrel|].
    assert (Hall : forall cs' idx1, out_eqv (vchk K) (event K) vchk_eqv
         (vegas_run L strm ps f d cb cs' cj idx1) (vegas_run L strm ps f d cb cs' ck idx1)).
    { intros cs' idx1. apply vegas_run_eqv; assumption. }
    split; [exact Hall|]. exists idxj. split; [exact Hpre|]. intros Hcond.
    specialize (Hall (skipn j cs) idxj). rewrite (Hsuf Hcond) in Hall.
    apply out_eqv_Ok in Hall as (c2 & ls2 & E & He & Hl). exists c2, ls2.
    split; [exact E|]. split; [exact He|]. split; [exact Hl|]. symmetry. apply vchk_eqv_ser. exact He.
  Qed.

  Lemma c15_mc_after_reload d n cb cs (c0 : mchk K) idx c idx' ls :
    (forall x y, mchk_eqv x y -> cb x = cb y) ->
    mc_run L strm ps f mp d n cb cs c0 idx = Ok (c, idx', ls) ->
    length (b_gens (mc_base c0)) = S (length (b_results (mc_base c0))) ->
    wf_mchk c = true ->
    forall j, j <= length ls ->
    let k := N.of_nat (length (b_results (mc_base c0)) + j) in
    let cj := nth j (chks _ _ (mchk_channels c0 n) ls) (mchk_channels c0 n) in
    exists c_re ck,
      mchk_reload digits10 c = Ok c_re /\ mchk_rollback c_re k = Ok ck /\
      mchk_eqv cj ck /\ ser_mchk digits10 ck = ser_mchk digits10 cj /\
      (forall cs' idx1, out_eqv (mchk K) (event K) mchk_eqv
         (mc_run L strm ps f mp d n cb cs' cj idx1) (mc_run L strm ps f mp d n cb cs' ck idx1)) /\
      exists idxj, mc_run L strm ps f mp d n cb (firstn j cs) c0 idx = Ok (cj, idxj, firstn j ls) /\
        ((j < length ls \/ length ls = length cs) ->
         exists c2 ls2, mc_run L strm ps f mp d n cb (skipn j cs) ck idxj = Ok (c2, idx', ls2) /\
           mchk_eqv c c2 /\ Forall2 (log_eqv _ _ mchk_eqv) (skipn j ls) ls2 /\
           ser_mchk digits10 c2 = ser_mchk digits10 c).
  Proof.
    intros Hcb H Hg Hwf j Hj k cj.
    destruct (c15_mc_spec d n cb cs c0 idx c idx' ls H Hg j Hj) as (Hrb & idxj & Hpre & Hsuf).
    fold k cj in Hrb, Hpre, Hsuf.
    exists (mchk_reread c). pose proof (mchk_rollback_eqv (mchk_reread c) c k (mchk_reread_eqv c)) as Hrel.
    rewrite Hrb in Hrel. destruct (mchk_rollback (mchk_reread c) k) as [ck|e] eqn:Eck; [|destruct Hrel].
    cbn [res_rel] in Hrel. apply mchk_eqv_sym in Hrel.
    exists ck. split; [apply mchk_deser; exact Hwf|]. split; [reflexivity|].
    split; [exact Hrel|]. split; [symmetry; apply mchk_eqv_ser; exact Hrel|].
    assert (Hall : forall cs' idx1, out_eqv (mchk K) (event K) mchk_eqv
         (mc_run L strm ps f mp d n cb cs' cj idx1) (mc_run L strm ps f mp d n cb cs' ck idx1)).
    { intros cs' idx1. apply mc_run_eqv; assumption. }
    split; [exact Hall|]. exists idxj. split; [exact Hpre|]. intros Hcond.
    specialize (Hall (skipn j cs) idxj). rewrite (Hsuf Hcond) in Hall.
    apply out_eqv_Ok in Hall as (c2 & ls2 & E & He & Hl). exists c2, ls2.
    split; [exact E|]. split; [exact He|]. split; [exact Hl|]. symmetry. apply mchk_eqv_ser. exact He.
  Qed.

  Lemma c15_vegas_after_reload_wf d cb cs (c0 : vchk K) idx c idx' ls :
    (forall x y, vchk_eqv x y -> cb x = cb y) ->
    vegas_run L strm ps f d cb cs c0 idx = Ok (c, idx', ls) ->
    length (b_gens (vc_base c0)) = S (length (b_results (vc_base c0))) ->
    wf_vchk (vchk_dimensions c0 d) = true ->
    forall j, j <= length ls ->
    let k := N.of_nat (length (b_results (vc_base c0)) + j) in
    let cj := nth j (chks _ _ (vchk_dimensions c0 d) ls) (vchk_dimensions c0 d) in
    exists c_re ck,
      vchk_reload digits10 c = Ok c_re /\ vchk_rollback c_re k = Ok ck /\
      vchk_eqv cj ck /\ ser_vchk digits10 ck = ser_vchk digits10 cj /\
      (* resuming from it, with any calls list: same results, textually identical checkpoints *)
      (forall cs' idx1, out_eqv (vchk K) (event K) vchk_eqv
         (vegas_run L strm ps f d cb cs' cj idx1) (vegas_run L strm ps f d cb cs' ck idx1)) /\
      (* in particular the rest of the original calls list reproduces the rest of the original run *)
      exists idxj, vegas_run L strm ps f d cb (firstn j cs) c0 idx = Ok (cj, idxj, firstn j ls) /\
        ((j < length ls \/ length ls = length cs) ->
         exists c2 ls2, vegas_run L strm ps f d cb (skipn j cs) ck idxj = Ok (c2, idx', ls2) /\
           vchk_eqv c c2 /\ Forall2 (log_eqv _ _ vchk_eqv) (skipn j ls) ls2 /\
           ser_vchk digits10 c2 = ser_vchk digits10 c).
  Proof.
    intros Hcb H Hg Hwf. apply c15_vegas_after_reload; try assumption.
    eapply vegas_chks_wf; [exact H|exact Hwf|]. eapply vegas_final_In. exact H.
  Qed.

  Lemma c15_mc_after_reload_wf d n cb cs (c0 : mchk K) idx c idx' ls :
    (forall x y, mchk_eqv x y -> cb x = cb y) ->
    mc_run L strm ps f mp d n cb cs c0 idx = Ok (c, idx', ls) ->
    length (b_gens (mc_base c0)) = S (length (b_results (mc_base c0))) ->
    wf_mchk c0 = true ->
    forall j, j <= length ls ->
    let k := N.of_nat (length (b_results (mc_base c0)) + j) in
    let cj := nth j (chks _ _ (mchk_channels c0 n) ls) (mchk_channels c0 n) in
    exists c_re ck,
      mchk_reload digits10 c = Ok c_re /\ mchk_rollback c_re k = Ok ck /\
      mchk_eqv cj ck /\ ser_mchk digits10 ck = ser_mchk digits10 cj /\
      (forall cs' idx1, out_eqv (mchk K) (event K) mchk_eqv
         (mc_run L strm ps f mp d n cb cs' cj idx1) (mc_run L strm ps f mp d n cb cs' ck idx1)) /\
      exists idxj, mc_run L strm ps f mp d n cb (firstn j cs) c0 idx = Ok (cj, idxj, firstn j ls) /\
        ((j < length ls \/ length ls = length cs) ->
         exists c2 ls2, mc_run L strm ps f mp d n cb (skipn j cs) ck idxj = Ok (c2, idx', ls2) /\
           mchk_eqv c c2 /\ Forall2 (log_eqv _ _ mchk_eqv) (skipn j ls) ls2 /\
           ser_mchk digits10 c2 = ser_mchk digits10 c).
  Proof.
    intros Hcb H Hg Hwf. apply c15_mc_after_reload; try assumption.
    eapply mc_chks_wf; [exact H| |eapply mc_final_In; exact H].
    apply (proj2 (proj2 (proj2 (proj2 (@fresh_wf K))))). exact Hwf.
  Qed.

  (** ** the statements as the property words them *)
  Lemma c15_plain_rollback d cb cs (c0 : pchk K) idx c idx' ls :
    plain_run strm ps f d cb cs c0 idx = Ok (c, idx', ls) ->
    length (b_gens c0) = S (length (b_results c0)) ->
    forall j, j <= length ls ->
    exists ck idxj,
      base_rollback c (N.of_nat (length (b_results c0) + j)) = Ok ck /\
      ck = nth j (chks _ _ c0 ls) c0 /\
      plain_run strm ps f d cb (firstn j cs) c0 idx = Ok (ck, idxj, firstn j ls) /\
      ser_pchk digits10 ck = ser_pchk digits10 (nth j (chks _ _ c0 ls) c0).
  Proof.
    intros H Hg j Hj. destruct (c15_plain_spec d cb cs c0 idx c idx' ls H Hg j Hj) as (Hrb & idxj & Hpre & _).
    eexists _, idxj. split; [exact Hrb|]. split; [reflexivity|]. split; [exact Hpre|reflexivity].
  Qed.

  Lemma c15_plain_resume d cb cs (c0 : pchk K) idx c idx' ls :
    plain_run strm ps f d cb cs c0 idx = Ok (c, idx', ls) ->
    length (b_gens c0) = S (length (b_results c0)) ->
    forall j, j <= length ls -> (j < length ls \/ length ls = length cs) ->
    exists ck idxj,
      base_rollback c (N.of_nat (length (b_results c0) + j)) = Ok ck /\
      plain_run strm ps f d cb (firstn j cs) c0 idx = Ok (ck, idxj, firstn j ls) /\
      plain_run strm ps f d cb (skipn j cs) ck idxj = Ok (c, idx', skipn j ls).
  Proof.
    intros H Hg j Hj Hc. destruct (c15_plain_spec d cb cs c0 idx c idx' ls H Hg j Hj) as (Hrb & idxj & Hpre & Hsuf).
    eexists _, idxj. split; [exact Hrb|]. split; [exact Hpre|exact (Hsuf Hc)].
  Qed.

  Lemma c15_vegas_rollback d cb cs (c0 : vchk K) idx c idx' ls :
    vegas_run L strm ps f d cb cs c0 idx = Ok (c, idx', ls) ->
    length (b_gens (vc_base c0)) = S (length (b_results (vc_base c0))) ->
    forall j, j <= length ls ->
    exists ck idxj t,
      vchk_rollback c (N.of_nat (length (b_results (vc_base c0)) + j)) = Ok ck /\
      ck = nth j (chks _ _ (vchk_dimensions c0 d) ls) (vchk_dimensions c0 d) /\
      vegas_run L strm ps f d cb (firstn j cs) c0 idx = Ok (ck, idxj, firstn j ls) /\
      ser_vchk digits10 ck = Ok t /\
      ser_vchk digits10 (nth j (chks _ _ (vchk_dimensions c0 d) ls) (vchk_dimensions c0 d)) = Ok t.
  Proof.
    intros H Hg j Hj. destruct (c15_vegas_spec d cb cs c0 idx c idx' ls H Hg j Hj) as (Hrb & idxj & Hpre & _).
    assert (Ht : vchk_textual (nth j (chks _ _ (vchk_dimensions c0 d) ls) (vchk_dimensions c0 d))).
    { eapply vegas_chks_textual; [exact H|apply nth_chks_In; exact Hj]. }
    apply (ser_vchk_defined digits10) in Ht as (t & Ht).
    eexists _, idxj, t. split; [exact Hrb|]. split; [reflexivity|]. split; [exact Hpre|]. split; exact Ht.
  Qed.

  Lemma c15_vegas_resume d cb cs (c0 : vchk K) idx c idx' ls :
    vegas_run L strm ps f d cb cs c0 idx = Ok (c, idx', ls) ->
    length (b_gens (vc_base c0)) = S (length (b_results (vc_base c0))) ->
    forall j, j <= length ls -> (j < length ls \/ length ls = length cs) ->
    exists ck idxj,
      vchk_rollback c (N.of_nat (length (b_results (vc_base c0)) + j)) = Ok ck /\
      vegas_run L strm ps f d cb (firstn j cs) c0 idx = Ok (ck, idxj, firstn j ls) /\
      vegas_run L strm ps f d cb (skipn j cs) ck idxj = Ok (c, idx', skipn j ls).
  Proof.
    intros H Hg j Hj Hc. destruct (c15_vegas_spec d cb cs c0 idx c idx' ls H Hg j Hj) as (Hrb & idxj & Hpre & Hsuf).
    eexists _, idxj. split; [exact Hrb|]. split; [exact Hpre|exact (Hsuf Hc)].
  Qed.

  Lemma c15_mc_rollback d n cb cs (c0 : mchk K) idx c idx' ls :
    mc_run L strm ps f mp d n cb cs c0 idx = Ok (c, idx', ls) ->
    length (b_gens (mc_base c0)) = S (length (b_results (mc_base c0))) ->
    forall j, j <= length ls ->
    exists ck idxj,
      mchk_rollback c (N.of_nat (length (b_results (mc_base c0)) + j)) = Ok ck /\
      ck = nth j (chks _ _ (mchk_channels c0 n) ls) (mchk_channels c0 n) /\
      mc_run L strm ps f mp d n cb (firstn j cs) c0 idx = Ok (ck, idxj, firstn j ls) /\
      ser_mchk digits10 ck = ser_mchk digits10 (nth j (chks _ _ (mchk_channels c0 n) ls) (mchk_channels c0 n)).
  Proof.
    intros H Hg j Hj. destruct (c15_mc_spec d n cb cs c0 idx c idx' ls H Hg j Hj) as (Hrb & idxj & Hpre & _).
    eexists _, idxj. split; [exact Hrb|]. split; [reflexivity|]. split; [exact Hpre|reflexivity].
  Qed.

  Lemma c15_mc_resume d n cb cs (c0 : mchk K) idx c idx' ls :
    mc_run L strm ps f mp d n cb cs c0 idx = Ok (c, idx', ls) ->
    length (b_gens (mc_base c0)) = S (length (b_results (mc_base c0))) ->
    forall j, j <= length ls -> (j < length ls \/ length ls = length cs) ->
    exists ck idxj,
      mchk_rollback c (N.of_nat (length (b_results (mc_base c0)) + j)) = Ok ck /\
      mc_run L strm ps f mp d n cb (firstn j cs) c0 idx = Ok (ck, idxj, firstn j ls) /\
      mc_run L strm ps f mp d n cb (skipn j cs) ck idxj = Ok (c, idx', skipn j ls).
  Proof.
    intros H Hg j Hj Hc. destruct (c15_mc_spec d n cb cs c0 idx c idx' ls H Hg j Hj) as (Hrb & idxj & Hpre & Hsuf).
    eexists _, idxj. split; [exact Hrb|]. split; [exact Hpre|exact (Hsuf Hc)].
  Qed.

  (* the three kinds together *)
  Lemma c15_rejects :
    (forall (R : Type) (b : base R) k, (N.of_nat (length (b_results b)) < k)%N -> base_rollback b k = UB 41) /\
    (forall (c : vchk K) k, (N.of_nat (length (b_results (vc_base c))) < k)%N -> vchk_rollback c k = UB 41) /\
    (forall (c : mchk K) k, (N.of_nat (length (b_results (mc_base c))) < k)%N -> mchk_rollback c k = UB 41).
  Proof. split; [intros R; apply base_rollback_rejects|]. split; [apply vchk_rollback_rejects|apply mchk_rollback_rejects]. Qed.

  Lemma c15_n_id :
    (forall (R : Type) (b : base R), length (b_gens b) = S (length (b_results b)) ->
       base_rollback b (N.of_nat (length (b_results b))) = Ok b) /\
    (forall c : vchk K, length (b_gens (vc_base c)) = S (length (b_results (vc_base c))) ->
       vchk_rollback c (N.of_nat (length (b_results (vc_base c)))) = Ok c) /\
    (forall c : mchk K, length (b_gens (mc_base c)) = S (length (b_results (mc_base c))) ->
       mchk_rollback c (N.of_nat (length (b_results (mc_base c)))) = Ok c).
  Proof. split; [intros R; apply base_rollback_n|]. split; [apply vchk_rollback_n|apply mchk_rollback_n]. Qed.

  Lemma c15_rollback_rollback :
    (forall (R : Type) (b b1 : base R) k1 k2, (k2 <= k1)%N -> base_rollback b k1 = Ok b1 ->
       base_rollback b1 k2 = base_rollback b k2) /\
    (forall (c c1 : vchk K) k1 k2, (k2 <= k1)%N -> vchk_rollback c k1 = Ok c1 -> vchk_rollback c1 k2 = vchk_rollback c k2) /\
    (forall (c c1 : mchk K) k1 k2, (k2 <= k1)%N -> mchk_rollback c k1 = Ok c1 -> mchk_rollback c1 k2 = mchk_rollback c k2).
  Proof.
    split; [intros R; apply base_rollback_rollback|]. split; [apply vchk_rollback_rollback|apply mchk_rollback_rollback].
  Qed.

  Lemma c15_rollback_text :
    (forall (c c' : vchk K) k, vchk_eqv c c' -> res_rel vchk_eqv (vchk_rollback c k) (vchk_rollback c' k)) /\
    (forall (c c' : mchk K) k, mchk_eqv c c' -> res_rel mchk_eqv (mchk_rollback c k) (mchk_rollback c' k)).
  Proof. split; [apply vchk_rollback_eqv|apply mchk_rollback_eqv]. Qed.
End Kinds.

(* ================================================================================================ *)
(** * non-vacuity: the example runs defined at the end of Lemmas_C03.v *)
From HepMC Require Import NumB Lemmas_C12.

(* the theorems applied to the VEGAS run: rolling the 3-iteration checkpoint back to 1 gives the checkpoint
   of the 1-iteration run, and the two remaining iterations run from it reproduce the original ones;
   the same (up to the text) after writing the 3-iteration checkpoint to text and reading it back *)
Lemma ex15_vegas_use : exists c idx' ls ck idx1,
  vegas_run ex19_L ex19_strm [] ex19_f 1 (fun _ => true) [8; 8; 8]%N exr_vegas_c0 0 = Ok (c, idx', ls) /\
  vchk_rollback c 1 = Ok ck /\
  vegas_run ex19_L ex19_strm [] ex19_f 1 (fun _ => true) [8]%N exr_vegas_c0 0 = Ok (ck, idx1, firstn 1 ls) /\
  vegas_run ex19_L ex19_strm [] ex19_f 1 (fun _ => true) [8; 8]%N ck idx1 = Ok (c, idx', skipn 1 ls).
Proof.
  destruct exr_vegas as (c & i & ls & H & Hl & Hg & _).
  destruct (c15_vegas_resume ex19_L ex19_strm [] ex19_f 1 _ _ _ _ _ _ _ H Hg 1) as (ck & idx1 & A & B & C);
    [lia|left; lia|].
  exists c, i, ls, ck, idx1. split; [exact H|]. split; [exact A|]. split; [exact B|exact C].
Qed.

Lemma ex15_vegas_reload_use : exists c idx' ls c_re ck c2 idx1 ls2,
  vegas_run ex19_L ex19_strm [] ex19_f 1 (fun _ => true) [8; 8; 8]%N exr_vegas_c0 0 = Ok (c, idx', ls) /\
  vchk_reload "17" c = Ok c_re /\ vchk_rollback c_re 1 = Ok ck /\
  vegas_run ex19_L ex19_strm [] ex19_f 1 (fun _ => true) [8; 8]%N ck idx1 = Ok (c2, idx', ls2) /\
  ser_vchk "17" c2 = ser_vchk "17" c.
Proof.
  destruct exr_vegas as (c & i & ls & H & Hl & Hg & Hwf).
  assert (Hwfc : wf_vchk c = true).
  { apply Hwf. eapply vegas_final_In. exact H. }
  destruct (c15_vegas_after_reload ex19_L ex19_strm [] ex19_f "17" 1 (fun _ => true) _ _ _ _ _ _
              (fun _ _ _ => eq_refl) H Hg Hwfc 1) as (c_re & ck & A & B & _ & _ & _ & idx1 & _ & D); [lia|].
  destruct D as (c2 & ls2 & D1 & _ & _ & D2); [left; lia|].
  exists c, i, ls, c_re, ck, c2, idx1, ls2. split; [exact H|]. split; [exact A|]. split; [exact B|]. split; [exact D1|exact D2].
Qed.
