(** C05 - the checkpoint text format is lossless.
    Statements only (proofs in Lemmas_C05.v).

    WHAT IS PROVED.  Two layers, as in the model (Codec.v works with tokens; the decimal text of a
    number is a separate question).

    (A) Numbers.  [C05_decimal_roundtrip]: if x is in the binary format with precision p and minimal
    exponent emin (FLT, radix 2, denormals included) and 2^p < 10^(P-1), then rounding x to P
    significant decimal digits (FLX, radix 10, unbounded exponent - what printf "%.{P-1}e" prints)
    and rounding that decimal to nearest in the binary format (what strtod/operator>> does) returns
    x, for ANY tie-breaking rules on either side.  Instantiated for the three types of the library
    with P = max_digits10: (p, emin, P) = (24, -149, 9), (53, -1074, 17), (64, -16445, 21), where
    emin = 3 - emax - prec is Flocq's [SpecFloat.emin], and connected to the carriers of the [NumB]
    instances B32/B64/B80 ([binary_float prec emax], via [generic_format_B2R]): for every finite
    float, value-level identity ([C05_decimal_float/double/long_double]) and bit-level identity
    ([C05_decimal_bits_*]: any finite float y with the sign of x whose real value is the re-read
    decimal IS x - this covers denormals, the largest finite number and negative numbers).
    This discharges the hypothesis "print then read returns the same number" that the token [TNum]
    presupposes.  ASSUMPTIONS recorded here: glibc's printf and strtod are correctly rounded (to
    nearest, any tie rule); only finite fields (the property says so): infinities and NaN are
    outside the theorem; the real value does not carry the sign of zero, so "-0 is printed with its
    sign and read back as -0" is a text-level fact checked by the differential test, not proved.

    (B) Tokens, for EVERY [Num] K (no arithmetic is involved) and EVERY [digits10] string.
    Component theorems: each reader of Codec.v inverts its writer in front of an arbitrary
    continuation [rest] and behind arbitrary white space [ws] (any list of TSp/TNl tokens), so the
    lemmas compose.  Two places are white-space sensitive and are stated exactly as the writers
    place the tokens:
      - names: [rd_name] (the repaired reader: if (peek()=='\n') get(); getline) takes the name
        right at the front or after exactly ONE newline; [ser_plain] / [ser_dres] put exactly one
        TNl before every distribution, so [rd_dparams]/[rd_dres] are stated for [ser_x d ++ rest]
        and [TNl :: ser_x d ++ rest]; any other white space in front breaks it ([C05_name], 4th
        clause).  [ser_dparams] always emits [TStr name; TNl], also for the empty name, so the
        bare-TNl branch of [rd_name] is never reached on texts produced by [ser]; it makes the
        reader also accept a tokenisation in which the empty name yields no token ([C05_name], 3rd
        clause).  The empty name and names with leading/inner blanks round-trip (the theorems hold
        for every [string]; see the Examples, which use "" and " pt [GeV]").
      - vegas_result: every adjustment value is FOLLOWED by a blank, so [rd_vegasres] stops in
        front of one left-over white-space token; its theorem says the remainder is [ws' ++ rest]
        with [ws'] white space.  All later readers skip it.
    Well-formedness (boolean predicates [wf_*], exactly the invariants the C++ objects have,
    because the reader computes the counts from the stored numbers):
      dres: #bins = bins_x * bins_y;  pdf: #x = (bins+1)*dims;  vegasres: pdf wf and
      #adjustment = bins*dims;  mcres_mc: #adjustment = #weights;  base: #generators = #results+1;
      vchk: additionally the first grid is wf when it is written (no results).
    Main theorems:
      PLAIN: [deser rd_pchk (ser_pchk d10 c) = Ok c]: every field equal.
      VEGAS: [ser_vchk] is defined unless there are no results and no first grid (pdf_.front() of
        an empty vector, UB 80; [C05_vegas_ser_defined]).  If [ser_vchk d10 c = Ok t] then
        [deser rd_vchk t = Ok c'] with the same base (all results, all generators), the same alpha,
        [vc_bins c' = 0] and [vc_first c' = if no results then vc_first c else None], and
        [ser_vchk d10 c' = Ok t] (writing the re-read checkpoint gives the same text).  NOT equal
        field by field in general: the bin count of the default constructor is never written and
        the first grid is not written once results exist.  [C05_vegas_chkpt_exact]: when
        [vc_bins c = 0] and the first grid is absent once results exist (every checkpoint that was
        itself read from a stream) the result is [c] itself.  ([vc_bins = 0] after reading is the
        model's convention: the C++ stream constructor leaves bins_ untouched, and it is never read
        afterwards because dimensions() uses it only when there is neither a result nor a grid.)
      multi-channel: same shape: [mc_first c' = if no results then mc_first c else []].
      Corollaries: the text determines the (re-read) checkpoint ([C05_*_text_determines]).

    WHAT IS NOT PROVED.
      - The dropped first grid / first weights being recoverable from result 0 when results exist:
        that is a property of runs (result 0 stores the grid it was sampled with), not of the codec.
      - Generators: [TGen g] abstracts "operator<< of the engine followed by operator>> of the
        engine returns an equal engine" for every standard engine, read after [in >> std::ws] (the
        repaired reader; the LCG engines' operator>> does not skip white space itself).  That the
        standard engines satisfy this is the C++ standard's requirement, checked by the tie tests.
      - The token abstraction presupposes distribution names WITHOUT a newline character ([TStr s]
        is "raw characters up to the next newline"); for a string containing a newline the theorems
        hold about tokens but the tokenisation of the real text would differ.
      - The header line is skipped without being checked ([rd_results]), as in the C++. *)
From Coq Require Import ZArith NArith List Bool String Reals.
From Flocq Require Import Core BinarySingleNaN.
From HepMC Require Import Num NumB Result Chkpt Codec Lemmas_C05.
Import ListNotations.

(** (A) decimal round trip *)
Theorem C05_decimal_roundtrip : forall p emin P : Z, Prec_gt_0 p -> Prec_gt_0 P ->
  (bpow radix2 p < bpow radix10 (P - 1))%R ->
  forall (choice1 choice2 : Z -> bool) (x : R),
  generic_format radix2 (FLT_exp emin p) x ->
  round radix2 (FLT_exp emin p) (Znearest choice2) (round radix10 (FLX_exp P) (Znearest choice1) x) = x.
Proof. exact decimal_roundtrip. Qed.
Print Assumptions C05_decimal_roundtrip.

Theorem C05_decimal_float : forall (c1 c2 : Z -> bool) (x : binary_float 24 128), is_finite x = true ->
  round radix2 (FLT_exp (-149) 24) (Znearest c2) (round radix10 (FLX_exp 9) (Znearest c1) (B2R x)) = B2R x.
Proof. exact decimal_roundtrip_float. Qed.
Print Assumptions C05_decimal_float.

Theorem C05_decimal_double : forall (c1 c2 : Z -> bool) (x : binary_float 53 1024), is_finite x = true ->
  round radix2 (FLT_exp (-1074) 53) (Znearest c2) (round radix10 (FLX_exp 17) (Znearest c1) (B2R x)) = B2R x.
Proof. exact decimal_roundtrip_double. Qed.
Print Assumptions C05_decimal_double.

Theorem C05_decimal_long_double : forall (c1 c2 : Z -> bool) (x : binary_float 64 16384), is_finite x = true ->
  round radix2 (FLT_exp (-16445) 64) (Znearest c2) (round radix10 (FLX_exp 21) (Znearest c1) (B2R x)) = B2R x.
Proof. exact decimal_roundtrip_long_double. Qed.
Print Assumptions C05_decimal_long_double.

(* bit for bit, on the carriers of the three [NumB] instances, with the constants of Flocq's format *)
Theorem C05_decimal_bits_float : forall (c1 c2 : Z -> bool) (x y : B32),
  isfinite B32 x = true -> isfinite B32 y = true -> Bsign y = Bsign x ->
  B2R y = round radix2 (FLT_exp (-149) 24) (Znearest c2) (round radix10 (FLX_exp 9) (Znearest c1) (B2R x)) ->
  y = x.
Proof. exact decimal_bits_float. Qed.
Print Assumptions C05_decimal_bits_float.

Theorem C05_decimal_bits_double : forall (c1 c2 : Z -> bool) (x y : B64),
  isfinite B64 x = true -> isfinite B64 y = true -> Bsign y = Bsign x ->
  B2R y = round radix2 (FLT_exp (-1074) 53) (Znearest c2) (round radix10 (FLX_exp 17) (Znearest c1) (B2R x)) ->
  y = x.
Proof. exact decimal_bits_double. Qed.
Print Assumptions C05_decimal_bits_double.

Theorem C05_decimal_bits_long_double : forall (c1 c2 : Z -> bool) (x y : B80),
  isfinite B80 x = true -> isfinite B80 y = true -> Bsign y = Bsign x ->
  B2R y = round radix2 (FLT_exp (-16445) 64) (Znearest c2) (round radix10 (FLX_exp 21) (Znearest c1) (B2R x)) ->
  y = x.
Proof. exact decimal_bits_long_double. Qed.
Print Assumptions C05_decimal_bits_long_double.

(* the format constants are those of [binary_float prec emax] *)
Theorem C05_format_constants :
  SpecFloat.fexp 24 128 = FLT_exp (-149) 24 /\ SpecFloat.fexp 53 1024 = FLT_exp (-1074) 53 /\
  SpecFloat.fexp 64 16384 = FLT_exp (-16445) 64 /\
  T B32 = binary_float 24 128 /\ T B64 = binary_float 53 1024 /\ T B80 = binary_float 64 16384.
Proof. exact format_constants. Qed.
Print Assumptions C05_format_constants.

(** (B) components: reader after writer, arbitrary continuation, arbitrary leading white space *)
Theorem C05_atoms : forall (K : Num) (ws rest : list (tok K)), all_ws ws ->
  (forall n, rd_nat (ws ++ TNat n :: rest) = Ok (n, rest)) /\
  (forall x : K, rd_num (ws ++ TNum x :: rest) = Ok (x, rest)) /\
  (forall g, rd_gen (ws ++ TGen g :: rest) = Ok (g, rest)).
Proof. exact (@atoms_ok). Qed.
Print Assumptions C05_atoms.

Theorem C05_name : forall (K : Num) (s : string) (rest : list (tok K)),
  rd_name (TStr s :: TNl :: rest) = Ok (s, rest) /\
  rd_name (TNl :: TStr s :: TNl :: rest) = Ok (s, rest) /\
  rd_name (TNl :: TNl :: rest) = Ok (EmptyString, rest) /\
  rd_name (TSp :: TStr s :: TNl :: rest) = UB 93.
Proof. exact (@name_ok). Qed.
Print Assumptions C05_name.

Theorem C05_mcres : forall (K : Num) (ws : list (tok K)) (r : mcres K) (rest : list (tok K)),
  all_ws ws -> rd_mcres (ws ++ ser_mcres r ++ rest) = Ok (r, rest).
Proof. exact (@rd_mcres_ok). Qed.
Print Assumptions C05_mcres.

Theorem C05_dparams : forall (K : Num) (p : dparams K) (rest : list (tok K)),
  rd_dparams (ser_dparams p ++ rest) = Ok (p, rest) /\
  rd_dparams (TNl :: ser_dparams p ++ rest) = Ok (p, rest).
Proof. exact (@rd_dparams_both). Qed.
Print Assumptions C05_dparams.

Theorem C05_dres : forall (K : Num) (d : dres K) (rest : list (tok K)), wf_dres d = true ->
  rd_dres (ser_dres d ++ rest) = Ok (d, rest) /\
  rd_dres (TNl :: ser_dres d ++ rest) = Ok (d, rest).
Proof. exact (@rd_dres_both). Qed.
Print Assumptions C05_dres.

Theorem C05_plain : forall (K : Num) (ws : list (tok K)) (r : plainres K) (rest : list (tok K)),
  wf_plain r = true -> all_ws ws -> rd_plain (ws ++ ser_plain r ++ rest) = Ok (r, rest).
Proof. exact (@rd_plain_ok). Qed.
Print Assumptions C05_plain.

Theorem C05_pdf : forall (K : Num) (ws : list (tok K)) (p : pdf K) (rest : list (tok K)),
  wf_pdf p = true -> all_ws ws -> rd_pdf (ws ++ ser_pdf p ++ rest) = Ok (p, rest).
Proof. exact (@rd_pdf_ok). Qed.
Print Assumptions C05_pdf.

Theorem C05_vegasres : forall (K : Num) (ws : list (tok K)) (r : vegasres K) (rest : list (tok K)),
  wf_vegasres r = true -> all_ws ws ->
  exists ws', all_ws ws' /\ rd_vegasres (ws ++ ser_vegasres r ++ rest) = Ok (r, ws' ++ rest).
Proof. exact (@rd_vegasres_ok). Qed.
Print Assumptions C05_vegasres.

Theorem C05_mcres_mc : forall (K : Num) (ws : list (tok K)) (r : mcres_mc K) (rest : list (tok K)),
  wf_mcres_mc r = true -> all_ws ws -> rd_mcres_mc (ws ++ ser_mcres_mc r ++ rest) = Ok (r, rest).
Proof. exact (@rd_mcres_mc_ok). Qed.
Print Assumptions C05_mcres_mc.

(* header line, count and results of any checkpoint kind, given a (possibly white-space leaving)
   round trip of the result type *)
Theorem C05_results : forall (K : Num) (R : Type) (rd_r : reader R) (ser_r : R -> list (tok K)) (wf_r : R -> bool),
  (forall x ws rest, wf_r x = true -> all_ws ws ->
     exists ws', all_ws ws' /\ rd_r (ws ++ ser_r x ++ rest) = Ok (x, ws' ++ rest)) ->
  forall (h : string) (b : base R) (rest : list (tok K)), forallb wf_r (b_results b) = true ->
  exists ws', all_ws ws' /\ rd_results rd_r (ser_base h ser_r b ++ rest) = Ok (b_results b, ws' ++ rest).
Proof. exact (@rd_results_ok). Qed.
Print Assumptions C05_results.

Theorem C05_gens : forall (K : Num) (gs : list N) (ws rest : list (tok K)), all_ws ws ->
  exists ws', all_ws ws' /\
    rd_many rd_gen (List.length gs) (ws ++ flat_map (fun g => [TNl; TGen g]) gs ++ rest) = Ok (gs, ws' ++ rest).
Proof. exact (@rd_gens_ok). Qed.
Print Assumptions C05_gens.

(** (B) main theorems *)
Theorem C05_plain_chkpt : forall (K : Num) (digits10 : string) (c : pchk K), wf_pchk c = true ->
  deser rd_pchk (ser_pchk digits10 c) = Ok c.
Proof. exact (@pchk_roundtrip). Qed.
Print Assumptions C05_plain_chkpt.

Theorem C05_vegas_ser_defined : forall (K : Num) (digits10 : string) (c : vchk K),
  (b_results (vc_base c) <> [] \/ vc_first c <> None) <-> exists t, ser_vchk digits10 c = Ok t.
Proof. exact (@ser_vchk_defined). Qed.
Print Assumptions C05_vegas_ser_defined.

Theorem C05_vegas_chkpt : forall (K : Num) (digits10 : string) (c : vchk K) (t : list (tok K)),
  wf_vchk c = true -> ser_vchk digits10 c = Ok t ->
  exists c', deser rd_vchk t = Ok c' /\
    vc_base c' = vc_base c /\ vc_alpha c' = vc_alpha c /\ vc_bins c' = 0%N /\
    vc_first c' = (match b_results (vc_base c) with [] => vc_first c | _ => None end) /\
    ser_vchk digits10 c' = Ok t.
Proof. exact (@vchk_roundtrip). Qed.
Print Assumptions C05_vegas_chkpt.

Theorem C05_vegas_chkpt_exact : forall (K : Num) (digits10 : string) (c : vchk K) (t : list (tok K)),
  wf_vchk c = true -> ser_vchk digits10 c = Ok t ->
  vc_bins c = 0%N -> (b_results (vc_base c) <> [] -> vc_first c = None) ->
  deser rd_vchk t = Ok c.
Proof. exact (@vchk_roundtrip_exact). Qed.
Print Assumptions C05_vegas_chkpt_exact.

Theorem C05_multi_channel_chkpt : forall (K : Num) (digits10 : string) (c : mchk K), wf_mchk c = true ->
  exists c', deser rd_mchk (ser_mchk digits10 c) = Ok c' /\
    mc_base c' = mc_base c /\ mc_beta c' = mc_beta c /\ mc_minw c' = mc_minw c /\
    mc_first c' = (match b_results (mc_base c) with [] => mc_first c | _ => [] end) /\
    ser_mchk digits10 c' = ser_mchk digits10 c.
Proof. exact (@mchk_roundtrip). Qed.
Print Assumptions C05_multi_channel_chkpt.

Theorem C05_multi_channel_chkpt_exact : forall (K : Num) (digits10 : string) (c : mchk K), wf_mchk c = true ->
  (b_results (mc_base c) <> [] -> mc_first c = []) ->
  deser rd_mchk (ser_mchk digits10 c) = Ok c.
Proof. exact (@mchk_roundtrip_exact). Qed.
Print Assumptions C05_multi_channel_chkpt_exact.

(* the text determines the checkpoint (PLAIN), resp. everything that is stored (VEGAS, multi-channel) *)
Theorem C05_plain_text_determines : forall (K : Num) (digits10 : string) (c1 c2 : pchk K),
  wf_pchk c1 = true -> wf_pchk c2 = true -> ser_pchk digits10 c1 = ser_pchk digits10 c2 -> c1 = c2.
Proof. exact (@pchk_ser_inj). Qed.
Print Assumptions C05_plain_text_determines.

Theorem C05_vegas_text_determines : forall (K : Num) (digits10 : string) (c1 c2 : vchk K) (t : list (tok K)),
  wf_vchk c1 = true -> wf_vchk c2 = true -> ser_vchk digits10 c1 = Ok t -> ser_vchk digits10 c2 = Ok t ->
  vc_base c1 = vc_base c2 /\ vc_alpha c1 = vc_alpha c2 /\
  (b_results (vc_base c1) = [] -> vc_first c1 = vc_first c2).
Proof. exact (@vchk_text_determines). Qed.
Print Assumptions C05_vegas_text_determines.

Theorem C05_multi_channel_text_determines : forall (K : Num) (digits10 : string) (c1 c2 : mchk K),
  wf_mchk c1 = true -> wf_mchk c2 = true -> ser_mchk digits10 c1 = ser_mchk digits10 c2 ->
  mc_base c1 = mc_base c2 /\ mc_beta c1 = mc_beta c2 /\ mc_minw c1 = mc_minw c2 /\
  (b_results (mc_base c1) = [] -> mc_first c1 = mc_first c2).
Proof. exact (@mchk_text_determines). Qed.
Print Assumptions C05_multi_channel_text_determines.

(** non-vacuity: concrete non-trivial instances, for every [Num].  [ex_pchk]: two results, the
    first with three distributions (empty name with 2x1 bins; name " pt [GeV]" with 1x3 bins; a
    distribution without bins), three generators.  [ex_vchk0]/[ex_mchk0]: no results, first grid /
    first weights stored; [ex_vchk1]/[ex_mchk1]: results present together with a default bin count
    of 128 and a first grid / first weights, which are dropped; [ex_vchk2]/[ex_mchk2]: as read
    from a stream. *)
Example C05_example_plain : forall K : Num,
  wf_pchk (ex_pchk K) = true /\ wf_pchk (ex_pchk0 K) = true /\
  deser rd_pchk (ser_pchk "17" (ex_pchk K)) = Ok (ex_pchk K).
Proof. exact ex_plain_ok. Qed.

Example C05_example_vegas : forall K : Num,
  wf_vchk (ex_vchk0 K) = true /\ wf_vchk (ex_vchk1 K) = true /\ wf_vchk (ex_vchk2 K) = true
  /\ (exists t, ser_vchk "17" (ex_vchk0 K) = Ok t /\ deser rd_vchk t = Ok (ex_vchk0 K))
  /\ (exists t, ser_vchk "17" (ex_vchk1 K) = Ok t /\
        deser rd_vchk t = Ok (mk_vchk (vc_base (ex_vchk1 K)) (one K) 0 None))
  /\ (exists t, ser_vchk "17" (ex_vchk2 K) = Ok t /\ deser rd_vchk t = Ok (ex_vchk2 K)).
Proof. exact ex_vegas_ok. Qed.

Example C05_example_multi_channel : forall K : Num,
  wf_mchk (ex_mchk0 K) = true /\ wf_mchk (ex_mchk1 K) = true /\ wf_mchk (ex_mchk2 K) = true
  /\ deser rd_mchk (ser_mchk "17" (ex_mchk0 K)) = Ok (ex_mchk0 K)
  /\ deser rd_mchk (ser_mchk "17" (ex_mchk1 K)) = Ok (mk_mchk (mc_base (ex_mchk1 K)) (one K) (zero K) [])
  /\ deser rd_mchk (ser_mchk "17" (ex_mchk2 K)) = Ok (ex_mchk2 K).
Proof. exact ex_multi_channel_ok. Qed.

Example C05_example_components : forall K : Num,
  wf_dres (ex_dres1 K) = true /\ wf_dres (ex_dres2 K) = true /\ wf_dres (ex_dres3 K) = true /\
  wf_plain (ex_plain K) = true /\ wf_pdf (ex_pdf K) = true /\ wf_pdf (ex_pdf0 K) = true /\
  wf_vegasres (ex_vegasres K) = true /\ wf_vegasres (ex_vegasres0 K) = true /\
  wf_mcres_mc (ex_mcres_mc K) = true /\ wf_mcres_mc (ex_mcres_mc0 K) = true /\
  all_ws [TSp; TNl; TNl; @TSp K] /\
  d_name (dr_par (ex_dres1 K)) = EmptyString.
Proof. exact ex_components_ok. Qed.

(* the well-formedness predicates are not trivially true, and they are needed: a checkpoint with a
   missing generator is not read back *)
Example C05_example_ill_formed : forall K : Num,
  wf_pdf (mk_pdf 2 2 [zero K]) = false /\ wf_pchk (mk_base [ex_plain K] [1%N]) = false /\
  deser rd_pchk (ser_pchk "17" (mk_base [ex_plain K] [1%N])) = UB 92.
Proof. exact ex_ill_formed. Qed.

(* finite floats of each format: smallest denormal, largest finite, a negative number *)
Example C05_example_finite_float : exists x y z : binary_float 24 128,
  is_finite x = true /\ is_finite y = true /\ is_finite z = true /\
  Bout 24 128 x = OFin false 1 (-149) /\ Bout 24 128 y = OFin false (2 ^ 24 - 1) 104 /\
  Bout 24 128 z = OFin true (11 * 2 ^ 20) (-23).
Proof. exact ex_finite_float. Qed.

Example C05_example_finite_double : exists x y z : binary_float 53 1024,
  is_finite x = true /\ is_finite y = true /\ is_finite z = true /\
  Bout 53 1024 x = OFin false 1 (-1074) /\ Bout 53 1024 y = OFin false (2 ^ 53 - 1) 971 /\
  Bout 53 1024 z = OFin true (11 * 2 ^ 49) (-52).
Proof. exact ex_finite_double. Qed.

Example C05_example_finite_long_double : exists x y z : binary_float 64 16384,
  is_finite x = true /\ is_finite y = true /\ is_finite z = true /\
  Bout 64 16384 x = OFin false 1 (-16445) /\ Bout 64 16384 y = OFin false (2 ^ 64 - 1) 16320 /\
  Bout 64 16384 z = OFin true (11 * 2 ^ 60) (-63).
Proof. exact ex_finite_long_double. Qed.

(* the side condition 2^p < 10^(max_digits10 - 1) holds for the three formats *)
Example C05_example_digits :
  (bpow radix2 24 < bpow radix10 (9 - 1))%R /\ (bpow radix2 53 < bpow radix10 (17 - 1))%R /\
  (bpow radix2 64 < bpow radix10 (21 - 1))%R.
Proof. exact (conj cond32 (conj cond64 cond80)). Qed.
