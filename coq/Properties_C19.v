(** C19 - each iteration samples with the state derived from the previous one.
    Statements only (proofs in Lemmas_C19.v).  Any Num, any libm, any integrand / map oracle, any
    callback, any calls list, any starting checkpoint (fresh, user-supplied grid / weights, resumed).
    [vegas_point_from p e]: the event e is an integrand call whose point, bins and weight are
    [icdf p] of d consecutive canonical numbers; [mc_point_from d ws e]: channel = selection from the
    cumulative [ws] of the (d+1)-th number, coordinates from the map for that channel and the enabled
    channels of [ws], weight = jacobian / sum ws_j dens_j.  Resumed runs are runs from a checkpoint read
    back from text (C03/C05 show it is the same checkpoint); the MPI drivers are covered by C04. *)
From Coq Require Import ZArith NArith List Bool.
From HepMC Require Import Num NumB Result Accum VegasPdf Discrete MultiChannel Iter Chkpt Callback Run Lemmas_Run Lemmas_C19.
Import ListNotations.

(* VEGAS: iteration i ran with exactly [vchk_pdf] of the checkpoint the previous callback saw, recorded
   that grid in its result, and every point was drawn with it *)
Theorem C19_vegas_threaded : forall (K : Num) (L : Libm K) strm ps f d cb cs (c : vchk K) idx c' idx' ls,
  vegas_run L strm ps f d cb cs c idx = Ok (c', idx', ls) ->
  forall i l, nth_error ls i = Some l ->
    exists r gi, let cprev := nth i (chks _ _ (vchk_dimensions c d) ls) (vchk_dimensions c d) in
      il_chk l = vchk_add cprev r gi /\
      vchk_pdf L cprev = Ok (v_pdf r) /\
      Forall (vegas_point_from strm (v_pdf r)) (il_events l).
Proof. exact (@c19_vegas_threaded). Qed.
Print Assumptions C19_vegas_threaded.

(* ... where the state after a result r is the refinement of r's own grid and adjustment data under the
   checkpoint's alpha (which [add] never changes), and the first state is the user's grid or the uniform one *)
Theorem C19_vegas_state : forall (K : Num) (L : Libm K) (c : vchk K),
  (forall r g, vchk_pdf L (vchk_add c r g) = refine_pdf L (v_pdf r) (vc_alpha c) (v_adj r) /\
               vc_alpha (vchk_add c r g) = vc_alpha c) /\
  (forall d, b_results (vc_base c) = [] ->
     vchk_pdf L (vchk_dimensions c d) = Ok (match vc_first c with Some p => p | None => uniform_pdf d (vc_bins c) end)).
Proof. exact (fun K L c => conj (@vchk_pdf_after_add K L c) (@vchk_pdf_first K L c)). Qed.
Print Assumptions C19_vegas_state.

(* multi-channel: the same for the channel weights *)
Theorem C19_mc_threaded : forall (K : Num) (L : Libm K) strm ps f mp d channels cb cs (c : mchk K) idx c' idx' ls,
  mc_run L strm ps f mp d channels cb cs c idx = Ok (c', idx', ls) ->
  forall i l, nth_error ls i = Some l ->
    exists r gi, let cprev := nth i (chks _ _ (mchk_channels c channels) ls) (mchk_channels c channels) in
      il_chk l = mchk_add cprev r gi /\
      mchk_weights L cprev = Ok (m_weights r) /\
      Forall (mc_point_from strm mp d (m_weights r)) (il_events l).
Proof. exact (@c19_mc_threaded). Qed.
Print Assumptions C19_mc_threaded.

Theorem C19_mc_state : forall (K : Num) (L : Libm K) (c : mchk K),
  (forall r g, mchk_weights L (mchk_add c r g) = refine_weights L (m_weights r) (m_adj r) (mc_minw c) (mc_beta c) /\
               mc_minw (mchk_add c r g) = mc_minw c /\ mc_beta (mchk_add c r g) = mc_beta c) /\
  (forall n, b_results (mc_base c) = [] ->
     mchk_weights L (mchk_channels c n) =
     Ok (match mc_first c with [] => repeat (div K (one K) (ofN K n)) (N.to_nat n) | w => w end)).
Proof. exact (fun K L c => conj (@mchk_weights_after_add K L c) (@mchk_weights_first K L c)). Qed.
Print Assumptions C19_mc_state.

(* the user's weights enter through the same normalisation routine (data = 1) *)
Theorem C19_mc_user_weights : forall (K : Num) (L : Libm K) ws minw beta g c,
  mchk_user L ws minw beta g = Ok c ->
  refine_weights L ws (repeat (one K) (length ws)) minw beta = Ok (mc_first c) /\ b_results (mc_base c) = [].
Proof. exact (@mchk_user_first). Qed.
Print Assumptions C19_mc_user_weights.

(* non-vacuity: a real 3-iteration VEGAS run in double precision starts from the uniform grid, the grid of
   iteration 1 is the refinement of iteration 0's grid and data, and it has moved (ex19_check compares the
   grids through their sign/mantissa/exponent representation) *)
Example C19_example : ex19_check = true.
Proof. exact c19_example. Qed.
