(** * Callback: callback.hpp (decision after the zero-target repair, effects by mode),
    multi_channel_weight_info.hpp, multi_channel_summary.hpp, multi_channel_max_difference.hpp
    (index skeleton only: which entries are read and printed).  No proofs in this file. *)
From Coq Require Import ZArith NArith List Bool Sorting.Mergesort Orders.
From HepMC Require Import Num Translated Result Helper.
Import ListNotations.

Inductive cbmode := Silent | SilentWrite | Verbose | VerboseWrite.
Definition mode_prints (m : cbmode) : bool := match m with Verbose | VerboseWrite => true | _ => false end.
Definition mode_writes (m : cbmode) : bool := match m with SilentWrite | VerboseWrite => true | _ => false end.

Section Callback.
  Context {K : Num}.

  (** perform_more_iterations of the built-in callback, from the main results so far *)
  (* both expressions come from the translator (callback.hpp: rel_err_all, perform_more_iterations) *)
  Definition rel_err_all (rs : list (mcres K)) : K :=
    let r := weighted_with_variance rs in rel_err_all_of K (error r) (value r).
  Definition decide (target : K) (rs : list (mcres K)) : bool :=
    perform_more_iterations K target (rel_err_all rs).

  (** multi_channel_weight_info: channels stably sorted by weight, their weights and expected
      calls, number of channels sharing the minimal expected calls *)
  Fixpoint insert_by (lt : N -> N -> bool) (x : N) (l : list N) : list N :=
    match l with
    | [] => [x]
    | y :: l' => if lt x y then x :: l else y :: insert_by lt x l'
    end.
  (* stable insertion sort: an element is placed after all elements not greater than it *)
  Definition stable_sort (lt : N -> N -> bool) (l : list N) : list N :=
    fold_left (fun acc x => insert_by lt x acc) l [].

  Fixpoint iotaN2 (start : N) (n : nat) : list N :=
    match n with O => [] | S n' => start :: iotaN2 (start + 1) n' end.

  Record winfo := mk_winfo { wi_channels : list N; wi_weights : list K; wi_calls : list (res N); wi_min : N }.

  (* std::upper_bound(calls.begin(), calls.end(), calls.front()) on the sorted call numbers *)
  Fixpoint count_le_front (front : N) (l : list N) : N :=
    match l with [] => 0 | c :: l' => if (front <? c)%N then 0 else 1 + count_le_front front l' end.

  Definition weight_info (calls : N) (ws : list K) : winfo :=
    let w i := nth (N.to_nat i) ws (zero K) in
    let chans := stable_sort (fun a b => ltb K (w a) (w b)) (iotaN2 0 (length ws)) in
    let weights := map w chans in
    (* static_cast<std::size_t>(result.calls() * weight) *)
    let cs := map (fun x => match trunc K (mul K (ofN K calls) x) with Some n => Ok n | None => UB 70 end) weights in
    let plain := map (fun r => match r with Ok n => n | UB _ => 0%N end) cs in
    mk_winfo chans weights cs (match plain with [] => 0%N | c :: _ => count_le_front c plain end).

  (** indices (into the sorted arrays) printed by multi_channel_summary after the "wmin" line *)
  Definition summary_indices (channels minc : N) : list N :=
    let printable := (channels - minc)%N in
    let printable := if (0 <? printable)%N then (printable - 1)%N else printable in
    let mid :=
      if (0 <? printable)%N then
        if (printable <=? 11)%N then map (fun i => (minc + i)%N) (iotaN2 0 (N.to_nat printable))
        else map (fun i => (minc + i)%N) (iotaN2 0 5) ++ map (fun i => (channels - 5 - 1 + i)%N) (iotaN2 0 5)
      else [] in
    mid ++ (if N.eqb minc channels then [] else [(channels - 1)%N]).

  (** make_list_of_ranges: maximal runs of consecutive indices, as (first, last) pairs *)
  Fixpoint ranges_from (a b : N) (l : list N) : list (N * N) :=
    match l with
    | [] => [(a, b)]
    | x :: l' => if N.eqb x (b + 1) then ranges_from a x l' else (a, b) :: ranges_from x x l'
    end.
  Definition list_of_ranges (l : list N) : list (N * N) :=
    match l with [] => [] | x :: l' => ranges_from x x l' end.

  (** multi_channel_max_difference: max |W_i - W_j| over i < j (the outer loop bound size() - 1
      wraps around for an empty vector: UB) *)
  Definition pairs_max (adj : list K) : res K :=
    match adj with
    | [] => UB 71
    | _ =>
      Ok (fst (fold_left (fun '(m, rest) wi =>
                 let rest' := tl rest in
                 (fold_left (fun m wj => fmax m (fabs K (sub K wi wj))) rest' m, rest'))
               adj (zero K, adj)))
    end.
End Callback.
