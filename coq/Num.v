(** * Num: the numeric abstraction the whole model is written over.

    hep-mc is a template over the numeric type [T].  Every model function takes a [Num] record and
    uses only its operations, so the very same algorithm text is instantiated with Coq's reals
    ([NumR], for the ideal-arithmetic theorems) and with Flocq's IEEE-754 binary formats ([NumB],
    executable, compared bit for bit with the C++ templates).  No proofs in this file. *)
From Coq Require Import ZArith NArith List.
Import ListNotations.

Record Num := {
  T :> Type;
  zero : T;            (* T()                                   *)
  one : T;             (* T(1.0)                                *)
  inf : T;             (* std::numeric_limits<T>::infinity()    *)
  pred_one : T;        (* nexttoward(T(1.0), T())               *)
  add : T -> T -> T;
  sub : T -> T -> T;
  mul : T -> T -> T;
  div : T -> T -> T;
  fsqrt : T -> T;
  fabs : T -> T;
  ofN : N -> T;              (* std::size_t -> T (rounds to nearest even)      *)
  trunc : T -> option N;     (* T -> std::size_t; None = undefined behaviour   *)
  eqb : T -> T -> bool;      (* ==  (false on NaN)                             *)
  ltb : T -> T -> bool;      (* <   (false on NaN)                             *)
  leb : T -> T -> bool;      (* <=  (false on NaN)                             *)
  isfinite : T -> bool;
}.

(** libm functions used by the two refinement routines; never modelled bit-exactly (they are not
    correctly rounded).  Theorems quantify over them or instantiate them with [ln]/[Rpower]; the
    executed model looks the values up in a table recorded from the real run. *)
Record Libm (K : Num) := { flog : K -> K; fpow : K -> K -> K }.
Arguments flog {K}. Arguments fpow {K}.

Section Derived.
  Context {K : Num}.
  Definition neqb (a b : K) : bool := negb (eqb K a b).       (* != (true on NaN) *)
  Definition gtb (a b : K) : bool := ltb K b a.
  Definition geb (a b : K) : bool := leb K b a.
  Definition isnan (a : K) : bool := negb (eqb K a a).
  (* C fmax: a NaN operand is ignored *)
  Definition fmax (a b : K) : K :=
    if isnan a then b else if isnan b then a else if ltb K a b then b else a.
  Definition half : K := div K (one K) (ofN K 2).              (* T(0.5), exact *)
  Definition ofnat (n : nat) : K := ofN K (N.of_nat n).
End Derived.

(** Results of model functions: [UB] marks undefined behaviour of the C++ (unchecked index out of
    range, float -> size_t of a value outside the range, [front()] of an empty vector) or a thrown
    exception; the code is a small number explained where it is produced. *)
Inductive res (A : Type) := Ok (a : A) | UB (code : nat).
Arguments Ok {A}. Arguments UB {A}.

Definition bind {A B} (r : res A) (f : A -> res B) : res B :=
  match r with Ok a => f a | UB c => UB c end.
Notation "'do' x <- r ; k" := (bind r (fun x => k)) (at level 200, x pattern, r at level 100, k at level 200).

Definition nthN {A} (l : list A) (i : N) : option A := nth_error l (N.to_nat i).
Definition getN {A} (code : nat) (l : list A) (i : N) : res A :=
  match nthN l i with Some a => Ok a | None => UB code end.

(* replace element i (no effect if out of range; callers check the range first) *)
Fixpoint set_nth {A} (l : list A) (i : nat) (a : A) : list A :=
  match l, i with
  | [], _ => []
  | _ :: l', O => a :: l'
  | x :: l', S i' => x :: set_nth l' i' a
  end.
Definition setN {A} (l : list A) (i : N) (a : A) : list A := set_nth l (N.to_nat i) a.

Definition two64 : N := 18446744073709551616%N.
