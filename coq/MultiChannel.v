(** * MultiChannel: multi_channel_refine_weights.hpp (after the zero-data repair),
    multi_channel_point.hpp (weight), enabled channels.  No proofs here. *)
From Coq Require Import ZArith NArith List.
From HepMC Require Import Num.
Import ListNotations.

Section MultiChannel.
  Context {K : Num}.
  Context (L : Libm K).

  (* new_weights[i] = weights[i] * pow(adjustment_data[i], beta); adjustment_data[i] unchecked *)
  Fixpoint raw_weights (ws data : list K) (beta : K) : res (list K) :=
    match ws with
    | [] => Ok []
    | w :: ws' =>
      match data with
      | [] => UB 30
      | d :: data' => do rest <- raw_weights ws' data' beta; Ok (mul K w (fpow L d beta) :: rest)
      end
    end.

  (* second loop: zero entries skipped; others divided by the sum, raised to the minimum weight *)
  Definition clamp (total minw w : K) : K :=
    if eqb K w (zero K) then w else fmax (div K w total) minw.
  Definition clamp_sum (l : list K) : K :=
    fold_left (fun acc w => if eqb K w (zero K) then acc else add K acc w) l (zero K).

  Definition refine_weights (ws data : list K) (minw beta : K) : res (list K) :=
    do raw <- raw_weights ws data beta;
    let total := fold_left (add K) raw (zero K) in
    if eqb K total (zero K) then Ok ws else
    let clamped := map (clamp total minw) raw in
    let new_sum := clamp_sum clamped in
    Ok (map (fun w => div K w new_sum) clamped).

  Fixpoint enabled_from (i : N) (ws : list K) : list N :=
    match ws with
    | [] => []
    | w :: ws' => if neqb w (zero K) then i :: enabled_from (i + 1) ws' else enabled_from (i + 1) ws'
    end.
  Definition enabled (ws : list K) : list N := enabled_from 0 ws.

  (* total_density += channel_weights_[j] * densities_[j]; densities_[j] unchecked *)
  Fixpoint total_density (ws dens : list K) (acc : K) : res K :=
    match ws with
    | [] => Ok acc
    | w :: ws' =>
      match dens with
      | [] => UB 31
      | d :: dens' => total_density ws' dens' (add K acc (mul K w d))
      end
    end.

  (** multi_channel_point2::weight(): jacobian / sum_j alpha_j * density_j *)
  Definition mc_weight (jac : K) (ws dens : list K) : res K :=
    do t <- total_density ws dens (zero K); Ok (div K jac t).
End MultiChannel.
