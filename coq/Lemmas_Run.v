(** Generic facts about the iteration loop ([iter_loop]) and the driver loop ([run_loop]) shared by
    the property files C02, C03, C06, C10, C12, C15, C17, C19, C20. *)
From Coq Require Import ZArith NArith List Bool Lia.
From HepMC Require Import Num Result Accum VegasPdf Discrete MultiChannel Iter Chkpt Callback Run.
Import ListNotations.

(** ** bind *)
Lemma bind_Ok {A B} (r : res A) (f : A -> res B) b : bind r f = Ok b -> exists a, r = Ok a /\ f a = Ok b.
Proof. destruct r as [a|c]; simpl; intros H; [exists a; auto|discriminate]. Qed.

(** ** iter_loop: n sequential steps *)
Section IterLoop.
  Context {K : Num}.
  Variable step : itst K -> res (itst K).

  Lemma iter_loop_0 s : iter_loop step 0 s = Ok s.
  Proof. reflexivity. Qed.

  Lemma iter_loop_succ n s : iter_loop step (N.succ n) s = bind (iter_loop step n s) step.
  Proof. unfold iter_loop. rewrite N.iter_succ. reflexivity. Qed.

  (** induction principle: an invariant indexed by the number of calls made so far *)
  Lemma iter_loop_ind (I : N -> itst K -> Prop) s0 :
    I 0%N s0 ->
    (forall k s s', I k s -> step s = Ok s' -> I (N.succ k) s') ->
    forall n s, iter_loop step n s0 = Ok s -> I n s.
  Proof.
    intros H0 Hs n. induction n as [|n IH] using N.peano_ind; intros s H.
    - rewrite iter_loop_0 in H. injection H as <-. exact H0.
    - rewrite iter_loop_succ in H. apply bind_Ok in H as (s1 & H1 & H2).
      eapply Hs; [apply IH; exact H1|exact H2].
  Qed.

  (** splitting: n + m calls = n calls, then m calls from where they ended *)
  Lemma iter_loop_add n m s :
    iter_loop step (n + m) s = bind (iter_loop step n s) (iter_loop step m).
  Proof.
    induction m as [|m IH] using N.peano_ind.
    - rewrite N.add_0_r. destruct (iter_loop step n s); reflexivity.
    - rewrite N.add_succ_r, iter_loop_succ, IH.
      destruct (iter_loop step n s) as [s1|c]; simpl; [|reflexivity].
      rewrite iter_loop_succ. reflexivity.
  Qed.
End IterLoop.

(** ** run_loop *)
Section RunLoop.
  Variables (C R Evt : Type).
  Variable gen_of : C -> res N.
  Variable iterate : C -> N -> N -> N -> res (R * N * N * list Evt).
  Variable add : C -> R -> N -> C.
  Variable cb : C -> bool.
  Notation run_loop := (run_loop C R Evt iterate add cb).
  Notation run := (run C R Evt gen_of iterate add cb).
  Notation ilog := (iterlog C Evt).

  (** what one performed iteration looks like, relative to the checkpoint before it *)
  Definition iter_ok (c : C) (calls g idx : N) (l : ilog) (g' idx' : N) : Prop :=
    exists r, iterate c calls g idx = Ok (r, g', idx', il_events l) /\
              il_chk l = add c r g' /\ il_continue l = cb (il_chk l).

  (** [Exec cs c g idx entries c' idx' rest]: the loop performs the iterations [entries] for a prefix
      of [cs], ends in checkpoint [c'], and [rest] are the requested iterations NOT performed *)
  Inductive Exec : list N -> C -> N -> N -> list ilog -> C -> N -> list N -> Prop :=
  | ExDone c g idx : Exec [] c g idx [] c idx []
  | ExStop calls cs c g idx l g' idx' :
      iter_ok c calls g idx l g' idx' -> il_continue l = false ->
      Exec (calls :: cs) c g idx [l] (il_chk l) idx' cs
  | ExGo calls cs c g idx l g' idx' ls c' idx'' rest :
      iter_ok c calls g idx l g' idx' -> il_continue l = true ->
      Exec cs (il_chk l) g' idx' ls c' idx'' rest ->
      Exec (calls :: cs) c g idx (l :: ls) c' idx'' rest.

  Lemma run_loop_acc cs : forall c g idx log,
    run_loop cs c g idx log =
    match run_loop cs c g idx [] with
    | Ok (c', idx', ls) => Ok (c', idx', rev log ++ ls)
    | UB e => UB e
    end.
  Proof.
    induction cs as [|calls cs IH]; intros c g idx log; cbn [Run.run_loop].
    - rewrite app_nil_r. reflexivity.
    - destruct (iterate c calls g idx) as [[[[r g1] idx1] evs]|code]; cbn [bind]; [|reflexivity].
      set (l := mk_iterlog evs (add c r g1) (cb (add c r g1))).
      destruct (cb (add c r g1)).
      + rewrite (IH _ _ _ (l :: log)), (IH _ _ _ [l]).
        destruct (Run.run_loop C R Evt iterate add cb cs (add c r g1) g1 idx1 []) as [[[c' idx'] ls]|e]; [|reflexivity].
        cbn [rev app]. rewrite <- app_assoc. reflexivity.
      + cbn [rev app]. reflexivity.
  Qed.

  (** the loop is exactly the relation [Exec] *)
  Lemma run_loop_exec cs : forall c g idx c' idx' ls,
    run_loop cs c g idx [] = Ok (c', idx', ls) -> exists rest, Exec cs c g idx ls c' idx' rest.
  Proof.
    induction cs as [|calls cs IH]; intros c g idx c' idx' ls H; cbn [Run.run_loop] in H.
    - injection H as <- <- <-. exists []. constructor.
    - destruct (iterate c calls g idx) as [[[[r g1] idx1] evs]|code] eqn:Ei; cbn [bind] in H; [|discriminate].
      set (l := mk_iterlog evs (add c r g1) (cb (add c r g1))) in *.
      assert (Hok : iter_ok c calls g idx l g1 idx1) by (exists r; repeat split; auto).
      destruct (cb (add c r g1)) eqn:Ecb.
      + rewrite run_loop_acc in H.
        destruct (Run.run_loop C R Evt iterate add cb cs (add c r g1) g1 idx1 []) as [[[c2 idx2] ls2]|e] eqn:E2; [|discriminate].
        injection H as <- <- <-. cbn [rev app].
        apply IH in E2 as (rest & Hex). exists rest. eapply ExGo; eauto.
      + injection H as <- <- <-. exists cs. cbn [rev app]. eapply ExStop; eauto.
  Qed.

  (** consequences used by C12 *)
  Lemma exec_length cs c g idx ls c' idx' rest :
    Exec cs c g idx ls c' idx' rest -> length cs = (length ls + length rest)%nat.
  Proof. induction 1; cbn [length]; lia. Qed.

  (* every callback answer but the last is "continue"; iterations are skipped only after a "stop" *)
  Lemma exec_continue cs c g idx ls c' idx' rest :
    Exec cs c g idx ls c' idx' rest ->
    Forall (fun l => il_continue l = true) (removelast ls) /\
    (rest <> [] -> exists ls0 l, ls = ls0 ++ [l] /\ il_continue l = false) /\
    (forall ls0 l, ls = ls0 ++ [l] -> il_continue l = true -> rest = []).
  Proof.
    induction 1 as [c g idx|calls cs c g idx l g' idx' Hok Hc|calls cs c g idx l g' idx' ls c' idx'' rest Hok Hc Hex IH].
    - split; [constructor|]. split; [intros H; congruence|]. intros ls0 l Eq. destruct ls0; discriminate.
    - split; [constructor|]. split.
      + intros _. exists [], l. auto.
      + intros ls0 l1 Eq Hl. destruct ls0 as [|x ls0]; [|destruct ls0; discriminate].
        injection Eq as <-. congruence.
    - destruct IH as (IH1 & IH2 & IH3). split; [|split].
      + destruct ls as [|l1 ls]; [constructor|]. cbn [removelast]. constructor; auto.
      + intros Hr. destruct (IH2 Hr) as (ls0 & l1 & -> & Hl). exists (l :: ls0), l1. auto.
      + intros ls0 l1 Eq Hl. destruct ls0 as [|x ls0].
        * injection Eq as E1 E2. subst. inversion Hex; subst; auto.
        * injection Eq as E1 E2. subst. eapply IH3; eauto.
  Qed.

  (* the returned checkpoint is the one the last callback saw (or the initial one) *)
  Lemma exec_result cs c g idx ls c' idx' rest :
    Exec cs c g idx ls c' idx' rest -> c' = match rev ls with l :: _ => il_chk l | [] => c end.
  Proof.
    induction 1 as [| |calls cs c g idx l g' idx' ls c' idx'' rest Hok Hc Hex IH]; try reflexivity.
    rewrite IH. cbn [rev]. destruct (rev ls) as [|l1 r]; reflexivity.
  Qed.

  (* each checkpoint handed to the callback is the previous one plus exactly one result *)
  Definition chks (c : C) (ls : list ilog) : list C := c :: map (@il_chk C Evt) ls.

  Lemma exec_chain cs c g idx ls c' idx' rest :
    Exec cs c g idx ls c' idx' rest ->
    forall i l, nth_error ls i = Some l ->
      exists calls r gi,
        nth_error cs i = Some calls /\
        il_chk l = add (nth i (chks c ls) c) r gi /\
        il_continue l = cb (il_chk l).
  Proof.
    induction 1 as [c g idx|calls cs c g idx l g' idx' Hok Hc|calls cs c g idx l g' idx' ls c' idx'' rest Hok Hc Hex IH]; intros i l0 Hn.
    - destruct i; discriminate.
    - destruct i as [|i]; [|destruct i; discriminate]. injection Hn as <-.
      destruct Hok as (r & _ & Eq & Eq2). exists calls, r, g'. auto.
    - destruct i as [|i].
      + injection Hn as <-. destruct Hok as (r & _ & Eq & Eq2). exists calls, r, g'. auto.
      + cbn [nth_error] in Hn. destruct (IH i l0 Hn) as (calls' & r & gi & E1 & E2 & E3).
        exists calls', r, gi. split; [cbn [nth_error]; exact E1|]. split; [|exact E3]. rewrite E2. f_equal.
        assert (Hi : (i < length ls)%nat) by (apply nth_error_Some; congruence).
        unfold chks. change (nth (S i) (c :: map (@il_chk C Evt) (l :: ls)) c)
          with (nth i (il_chk l :: map (@il_chk C Evt) ls) c).
        apply nth_indep. cbn [length]. rewrite map_length. lia.
  Qed.

  (* every performed iteration is an [iter_ok] step from the checkpoint the previous callback saw *)
  Lemma exec_iter_ok cs c g idx ls c' idx' rest :
    Exec cs c g idx ls c' idx' rest ->
    forall i l, nth_error ls i = Some l ->
      exists calls gi idxi gi' idxi', nth_error cs i = Some calls /\
        iter_ok (nth i (chks c ls) c) calls gi idxi l gi' idxi'.
  Proof.
    induction 1 as [c g idx|calls cs c g idx l g' idx' Hok Hc|calls cs c g idx l g' idx' ls c' idx'' rest Hok Hc Hex IH]; intros i l0 Hn.
    - destruct i; discriminate.
    - destruct i as [|i]; [|destruct i; discriminate]. injection Hn as <-.
      exists calls, g, idx, g', idx'. auto.
    - destruct i as [|i].
      + injection Hn as <-. exists calls, g, idx, g', idx'. auto.
      + cbn [nth_error] in Hn. destruct (IH i l0 Hn) as (calls' & gi & idxi & gi' & idxi' & E1 & E2).
        exists calls', gi, idxi, gi', idxi'. split; [cbn [nth_error]; exact E1|].
        assert (Hi : (i < length ls)%nat) by (apply nth_error_Some; congruence).
        unfold chks. change (nth (S i) (c :: map (@il_chk C Evt) (l :: ls)) c)
          with (nth i (il_chk l :: map (@il_chk C Evt) ls) c).
        rewrite (nth_indep _ c (il_chk l)) by (cbn [length]; rewrite map_length; lia). exact E2.
  Qed.

  (* with a size measure that [add] increments (number of results), the i-th callback sees size c + i + 1 *)
  Lemma exec_sizes (size : C -> nat) :
    (forall c r g, size (add c r g) = S (size c)) ->
    forall cs c g idx ls c' idx' rest, Exec cs c g idx ls c' idx' rest ->
    forall i l, nth_error ls i = Some l -> size (il_chk l) = (size c + i + 1)%nat.
  Proof.
    intros Hsize cs c g idx ls c' idx' rest Hex.
    induction Hex as [c g idx|calls cs c g idx l g' idx' Hok Hc|calls cs c g idx l g' idx' ls c' idx'' rest Hok Hc Hex IH]; intros i l0 Hn.
    - destruct i; discriminate.
    - destruct i as [|i]; [|destruct i; discriminate]. injection Hn as <-.
      destruct Hok as (r & _ & Eq & _). rewrite Eq, Hsize. lia.
    - destruct i as [|i].
      + injection Hn as <-. destruct Hok as (r & _ & Eq & _). rewrite Eq, Hsize. lia.
      + cbn [nth_error] in Hn. rewrite (IH i l0 Hn). destruct Hok as (r & _ & Eq & _). rewrite Eq, Hsize. lia.
  Qed.

  Lemma run_exec cs c idx c' idx' ls :
    run cs c idx = Ok (c', idx', ls) -> exists g rest, gen_of c = Ok g /\ Exec cs c g idx ls c' idx' rest.
  Proof.
    unfold Run.run. intros H. apply bind_Ok in H as (g & Hg & H).
    apply run_loop_exec in H as (rest & Hex). exists g, rest. auto.
  Qed.
End RunLoop.
