(** Lemmas for C07g: the floating-point counterpart of "every sampled point lies inside the bin reported
    for it" (properties C07 / C17) for the model's [icdf1] instantiated with Flocq's IEEE-754 binary
    formats [NumB].  All proofs; the statements are repeated in Properties_C07g.v. *)
From Coq Require Import ZArith NArith List Reals Lra Lia Bool.
From Flocq Require Import Core BinarySingleNaN Plus_error Sterbenz.
From HepMC Require Import Num NumR NumB Result VegasPdf Lemmas_C09 Lemmas_C07f.
Import ListNotations.
Local Open Scope R_scope.

Section Float.
  Variables prec emax : Z.
  Context (Hprec : FLX.Prec_gt_0 prec) (Hmax : Prec_lt_emax prec emax).
  Hypothesis Hprec2 : (2 <= prec)%Z.
  Notation KB := (NumB prec emax Hprec Hmax).
  Notation F := (binary_float prec emax).
  Notation fexp := (SpecFloat.fexp prec emax).
  Notation emin := (SpecFloat.emin prec emax).
  Notation rnd := (round radix2 fexp (round_mode mode_NE)).
  Notation format := (generic_format radix2 fexp).
  Notation pred := (pred radix2 fexp).
  Notation u := (bpow radix2 (- prec)).

  Local Instance vexp07g : Valid_exp fexp := fexp_correct prec emax Hprec.
  Local Instance mexp07g : Monotone_exp fexp.
  Proof. change fexp with (FLT_exp emin prec). apply FLT_exp_monotone. Qed.

  Lemma E3 : (3 <= emax)%Z.
  Proof. exact (emax_ge_3 prec emax Hmax Hprec2). Qed.

  Lemma fexpE e : (3 - emax <= e)%Z -> fexp e = (e - prec)%Z.
  Proof. apply fexp_eq. Qed.

  Lemma rndle x y : x <= y -> rnd x <= rnd y.
  Proof. apply (rnd_le prec emax Hprec). Qed.
  Lemma rnd0 : rnd 0 = 0.
  Proof. apply (rnd_0 prec emax). Qed.
  Lemma rnd_id x : format x -> rnd x = x.
  Proof. intros Fx. apply round_generic; [apply valid_rnd_N|exact Fx]. Qed.
  Lemma format_rnd x : format (rnd x).
  Proof. apply generic_format_round; [exact vexp07g|apply valid_rnd_N]. Qed.

  (** ** the gap below a number of the normal range is smaller than 2 x 2^-prec
      (2^(3-emax) = 2^(emin+prec) is twice the smallest normal number) *)
  Lemma pred_gap_normal x : bpow radix2 (3 - emax) <= x -> x - pred x < 2 * x * u.
  Proof.
    intros Hx. pose proof (bpow_gt_0 radix2 (3 - emax)) as P3.
    rewrite pred_eq_pos by lra. unfold pred_pos.
    destruct (mag radix2 x) as (e & He). cbn [mag_val].
    assert (Hx0 : x <> 0) by lra. specialize (He Hx0). rewrite Rabs_pos_eq in He by lra.
    assert (He0 : (3 - emax < e)%Z).
    { apply (lt_bpow radix2). lra. }
    assert (B2 : bpow radix2 (e - prec) = 2 * bpow radix2 (e - 1) * u).
    { replace (e - prec)%Z with (1 + (e - 1) + - prec)%Z by lia. rewrite !bpow_plus. cbn. lra. }
    pose proof (bpow_gt_0 radix2 (- prec)) as Pp.
    destruct (Req_bool_spec x (bpow radix2 (e - 1))) as [Hp|Hp].
    - rewrite fexpE by lia.
      replace (x - (x - bpow radix2 (e - 1 - prec))) with (bpow radix2 (e - 1 - prec)) by ring.
      replace (e - 1 - prec)%Z with ((e - 1) + - prec)%Z by lia. rewrite bpow_plus, <- Hp. nra.
    - rewrite ulp_neq_0 by exact Hx0. unfold cexp.
      rewrite (mag_unique radix2 x e) by (rewrite Rabs_pos_eq by lra; exact He).
      rewrite fexpE by lia. replace (x - (x - bpow radix2 (e - prec))) with (bpow radix2 (e - prec)) by ring.
      rewrite B2. assert (bpow radix2 (e - 1) < x) by lra. nra.
  Qed.

  Lemma pred_one_R : pred 1 = 1 - u.
  Proof. exact (pred_1 prec emax Hmax Hprec2). Qed.

  Lemma below_one U : format U -> U < 1 -> U <= 1 - u.
  Proof.
    intros FU HU. rewrite <- pred_one_R.
    apply pred_ge_gt; [exact vexp07g|exact FU|exact (generic_1 prec emax Hprec Hmax)|exact HU].
  Qed.

  (** the rounded product of a format number below 1 with a format number s of the normal range is
      at most the float below s *)
  Lemma rnd_mul_pred (U s : R) : format U -> 0 <= U < 1 -> format s -> bpow radix2 (3 - emax) <= s ->
    rnd (U * s) <= pred s.
  Proof.
    intros FU HU Fs Hs. pose proof (bpow_gt_0 radix2 (3 - emax)) as P3.
    pose proof (below_one U FU (proj2 HU)) as P1.
    pose proof (pred_gap_normal s Hs) as G.
    cbn [round_mode]. apply round_N_le_midp.
    - exact vexp07g.
    - apply generic_format_pred; [exact vexp07g|exact Fs].
    - rewrite succ_pred by (try exact vexp07g; exact Fs).
      pose proof (bpow_gt_0 radix2 (- prec)) as Pp. nra.
  Qed.

  (** a difference of two format numbers that is not representable is above 2^(emin+prec) in magnitude *)
  Lemma inexact_diff_large a b : format a -> format b -> 0 <= b - a -> ~ format (b - a) ->
    bpow radix2 (3 - emax) < b - a.
  Proof.
    intros Fa Fb Hd NF. destruct (Rlt_or_le (bpow radix2 (3 - emax)) (b - a)) as [H|H]; [exact H|exfalso].
    apply NF. unfold Rminus.
    apply (FLT_format_plus_small radix2 emin prec b (- a)).
    - exact Fb.
    - apply generic_format_opp. exact Fa.
    - rewrite Rabs_pos_eq by lra. replace (prec + emin)%Z with (3 - emax)%Z by (unfold SpecFloat.emin; lia).
      exact H.
  Qed.

  (** ** the statement over the reals with rounding: lft <= fl(lft + fl(U * fl(rgt - lft))) <= rgt *)
  Lemma point_in_bin_R (L Rr U : R) : format L -> format Rr -> format U -> L <= Rr -> 0 <= U < 1 ->
    let s := rnd (Rr - L) in
    let m := rnd (U * s) in
    0 <= s /\ 0 <= m <= s /\ L + m <= Rr /\ L <= rnd (L + m) <= Rr.
  Proof.
    intros FL FR FU HLR HU s m.
    assert (S0 : 0 <= s). { unfold s. rewrite <- rnd0. apply rndle. lra. }
    assert (Fs : format s) by apply format_rnd.
    assert (M0 : 0 <= m). { unfold m. rewrite <- rnd0. apply rndle. nra. }
    assert (M1 : m <= s). { unfold m. rewrite <- (rnd_id s Fs) at 2. apply rndle. nra. }
    assert (Key : L + m <= Rr).
    { destruct (generic_format_EM radix2 fexp (Rr - L)) as [Fd|NFd].
      - assert (s = Rr - L) by (unfold s; apply rnd_id; exact Fd). lra.
      - pose proof (inexact_diff_large L Rr FL FR ltac:(lra) NFd) as Big.
        destruct (round_DN_or_UP radix2 fexp (round_mode mode_NE) (Rr - L)) as [E|E]; fold s in E.
        + (* rounded down *)
          pose proof (round_DN_pt radix2 fexp (Rr - L)) as (_ & D & _). lra.
        + (* rounded up: the product rounds to at most the float below s, which is the round-down *)
          assert (Hs : bpow radix2 (3 - emax) <= s).
          { pose proof (round_UP_pt radix2 fexp (Rr - L)) as (_ & D & _). lra. }
          pose proof (rnd_mul_pred U s FU HU Fs Hs) as P. fold m in P.
          rewrite E in P. rewrite (pred_UP_eq_DN radix2 fexp (Rr - L) NFd) in P.
          pose proof (round_DN_pt radix2 fexp (Rr - L)) as (_ & D & _). lra. }
    split; [exact S0|]. split; [split; assumption|]. split; [exact Key|]. split.
    - apply Rle_trans with (rnd L); [rewrite (rnd_id L FL); lra|apply rndle; lra].
    - apply Rle_trans with (rnd Rr); [apply rndle; exact Key|rewrite (rnd_id Rr FR); lra].
  Qed.

  (** ** bridge lemmas: finite results carry the rounded exact value *)
  Lemma Bminus_fin_inv (x y : F) : is_finite (Bminus mode_NE x y) = true ->
    is_finite x = true /\ is_finite y = true.
  Proof.
    destruct x as [sx|sx| |sx mx ex Hx], y as [sy|sy| |sy my ey Hy];
      try (intros _; split; reflexivity); cbn; try (intros; discriminate).
    destruct (Bool.eqb sx (negb sy)); cbn; intros; discriminate.
  Qed.

  Lemma Bmult_fin_inv (x y : F) : is_finite (Bmult mode_NE x y) = true ->
    is_finite x = true /\ is_finite y = true.
  Proof.
    destruct x as [sx|sx| |sx mx ex Hx], y as [sy|sy| |sy my ey Hy];
      try (intros _; split; reflexivity); cbn; intros; discriminate.
  Qed.

  Lemma Bminus_small_R (x y : F) : is_finite x = true -> is_finite y = true ->
    Rabs (rnd (B2R x - B2R y)) < bpow radix2 emax ->
    is_finite (Bminus mode_NE x y) = true /\ B2R (Bminus mode_NE x y) = rnd (B2R x - B2R y).
  Proof.
    intros Fx Fy H. pose proof (Bminus_correct prec emax Hprec Hmax mode_NE x y Fx Fy) as C.
    rewrite Rlt_bool_true in C by exact H. destruct C as (C1 & C2 & _). split; assumption.
  Qed.

  Lemma Bminus_fin_R (x y : F) : is_finite (Bminus mode_NE x y) = true ->
    B2R (Bminus mode_NE x y) = rnd (B2R x - B2R y).
  Proof.
    intros Fz. destruct (Bminus_fin_inv x y Fz) as (Fx & Fy).
    pose proof (Bminus_correct prec emax Hprec Hmax mode_NE x y Fx Fy) as C.
    destruct (Rlt_bool _ _).
    - apply C.
    - destruct C as (C & _). apply (overflow_not_finite prec emax) in C. congruence.
  Qed.

  Lemma Bmult_small_R (x y : F) : is_finite x = true -> is_finite y = true ->
    Rabs (rnd (B2R x * B2R y)) < bpow radix2 emax ->
    is_finite (Bmult mode_NE x y) = true /\ B2R (Bmult mode_NE x y) = rnd (B2R x * B2R y).
  Proof.
    intros Fx Fy H. pose proof (Bmult_correct prec emax Hprec Hmax mode_NE x y) as C.
    rewrite Rlt_bool_true in C by exact H. destruct C as (C1 & C2 & _). rewrite Fx, Fy in C2.
    split; assumption.
  Qed.

  Lemma Bmult_fin_R (x y : F) : is_finite (Bmult mode_NE x y) = true ->
    B2R (Bmult mode_NE x y) = rnd (B2R x * B2R y).
  Proof.
    intros Fz. pose proof (Bmult_correct prec emax Hprec Hmax mode_NE x y) as C.
    destruct (Rlt_bool _ _).
    - apply C.
    - apply (overflow_not_finite prec emax) in C. congruence.
  Qed.

  Lemma fin_lt_emax (x : F) : is_finite x = true -> Rabs (B2R x) < bpow radix2 emax.
  Proof. intros _. apply abs_B2R_lt_emax. Qed.

  Lemma fmtB (x : F) : format (B2R x).
  Proof. apply generic_format_B2R. Qed.

  (** ** (1) the point lies between the two boundaries, in the model's own operations.
      The only overflow that can happen is in the bin size [rgt - lft]. *)
  Lemma c07g_point_in_bin (lft rgt inside : KB) :
    isfinite KB lft = true -> isfinite KB rgt = true -> leb KB lft rgt = true ->
    unit_open prec emax Hprec Hmax inside ->
    let size := sub KB rgt lft in
    let x := add KB lft (mul KB inside size) in
    isfinite KB size = true ->
    isfinite KB (mul KB inside size) = true /\ isfinite KB x = true /\
    leb KB lft x = true /\ leb KB x rgt = true.
  Proof.
    intros FL FR HLR HU size x Fs.
    apply unit_open_R in HU. destruct HU as (FU & HU).
    change (is_finite lft = true) in FL. change (is_finite rgt = true) in FR.
    pose proof (Bleb_R prec emax lft rgt FL FR HLR) as LR.
    change (is_finite (Bminus mode_NE rgt lft) = true) in Fs.
    pose proof (Bminus_fin_R rgt lft Fs) as Rs.
    destruct (point_in_bin_R (B2R lft) (B2R rgt) (B2R inside) (fmtB lft) (fmtB rgt) (fmtB inside) LR HU)
      as (S0 & (M0 & M1) & Key & X0 & X1).
    rewrite <- Rs in M0, M1, Key, X0, X1, S0.
    fold size in Fs, Rs. change (Bminus mode_NE rgt lft) with size in M0, M1, Key, X0, X1, S0.
    destruct (Bmult_small_R inside size FU Fs) as (Fm & Rm).
    { rewrite Rabs_pos_eq by exact M0. pose proof (fin_lt_emax size Fs) as B.
      rewrite Rabs_pos_eq in B by exact S0. lra. }
    rewrite <- Rm in M0, M1, Key, X0, X1.
    destruct (Bplus_small_R prec emax Hprec Hmax lft (Bmult mode_NE inside size) FL Fm) as (Fx & Rx).
    { pose proof (fin_lt_emax lft FL) as BL. pose proof (fin_lt_emax rgt FR) as BR.
      apply Rabs_lt. apply Rabs_lt_inv in BL. apply Rabs_lt_inv in BR. lra. }
    rewrite <- Rx in X0, X1.
    split; [exact Fm|]. split; [exact Fx|]. split.
    - apply (Bleb_R' prec emax); [exact FL|exact Fx|exact X0].
    - apply (Bleb_R' prec emax); [exact Fx|exact FR|exact X1].
  Qed.

  (** boundaries in [0,1]: nothing can overflow *)
  Lemma c07g_point_in_bin_unit (lft rgt inside : KB) :
    isfinite KB lft = true -> isfinite KB rgt = true ->
    leb KB (zero KB) lft = true -> leb KB lft rgt = true -> leb KB rgt (one KB) = true ->
    unit_open prec emax Hprec Hmax inside ->
    let size := sub KB rgt lft in
    let x := add KB lft (mul KB inside size) in
    isfinite KB size = true /\ isfinite KB (mul KB inside size) = true /\ isfinite KB x = true /\
    leb KB lft x = true /\ leb KB x rgt = true.
  Proof.
    intros FL FR H0 HLR H1 HU size x.
    change (is_finite lft = true) in FL. change (is_finite rgt = true) in FR.
    destruct (Bone_R prec emax Hprec Hmax) as (F1 & E1).
    pose proof (Bleb_R prec emax (B754_zero false) lft eq_refl FL H0) as L0. cbn [B2R] in L0.
    pose proof (Bleb_R prec emax lft rgt FL FR HLR) as LR.
    pose proof (Bleb_R prec emax rgt _ FR F1 H1) as R1. rewrite E1 in R1.
    assert (Fs : isfinite KB size = true).
    { apply (Bminus_small_R rgt lft FR FL).
      assert (0 <= rnd (B2R rgt - B2R lft) <= 1).
      { split; [rewrite <- rnd0|rewrite <- (rnd_1 prec emax Hprec Hmax)]; apply rndle; lra. }
      rewrite Rabs_pos_eq by lra. pose proof (one_lt_emax prec emax Hprec Hmax). lra. }
    split; [exact Fs|]. apply (c07g_point_in_bin lft rgt inside FL FR HLR HU Fs).
  Qed.

  (** ** the offset inside the bin: position - T(index) is exact and lies in [0,1) *)
  Lemma frac_format (P : R) : format P -> 0 <= P -> (Zfloor P < 2 ^ prec)%Z -> format (P - IZR (Zfloor P)).
  Proof.
    intros FP P0 Hk.
    assert (K0 : (0 <= Zfloor P)%Z) by (apply Zfloor_lub; exact P0).
    pose proof (Zfloor_lb P) as Lb. pose proof (Zfloor_ub P) as Ub.
    destruct (Z.eq_dec (Zfloor P) 0) as [Z|NZ].
    - rewrite Z. replace (P - 0) with P by ring. exact FP.
    - assert (K1 : 1 <= IZR (Zfloor P)) by (apply IZR_le; lia).
      unfold Rminus. apply generic_format_plus_weak.
      + exact vexp07g.
      + exact mexp07g.
      + exact FP.
      + apply generic_format_opp. apply (format_IZR prec emax Hmax Hprec2). lia.
      + rewrite Rabs_Ropp. rewrite !Rabs_pos_eq by lra. apply Rmin_glb; lra.
  Qed.

  Lemma c07g_inside_open (bins : N) (v : KB) :
    (1 <= bins)%N -> (Z.of_N bins < 2 ^ prec)%Z -> (bins < 2 ^ 64)%N -> unit_open prec emax Hprec Hmax v ->
    exists i, trunc KB (mul KB v (ofN KB bins)) = Some i /\ (i < bins)%N /\
      unit_open prec emax Hprec Hmax (sub KB (mul KB v (ofN KB bins)) (ofN KB i)).
  Proof.
    intros B1 Bp B64 Hv.
    destruct (c07f_index_lt_bins prec emax Hprec Hmax Hprec2 bins v B1 Bp B64 Hv) as (i & T & Hi & Fp & Ei).
    exists i. split; [exact T|]. split; [exact Hi|].
    set (pos := mul KB v (ofN KB bins)) in *.
    change (is_finite (Bmult mode_NE v (ofN KB bins)) = true) in Fp.
    pose proof (Bmult_fin_R v (ofN KB bins) Fp) as Rp.
    destruct (ofN_B prec emax Hprec Hmax Hprec2 bins Bp) as (_ & Rn). rewrite Rn in Rp.
    change (Bmult mode_NE v (ofN KB bins)) with pos in Rp, Fp. rewrite <- Rp in Ei.
    destruct (ofN_B prec emax Hprec Hmax Hprec2 i ltac:(lia)) as (Fi & Ri).
    apply unit_open_R in Hv. destruct Hv as (Fv & Hv).
    assert (P0 : 0 <= B2R pos).
    { rewrite Rp, <- rnd0. apply rndle. apply Rmult_le_pos; [lra|apply IZR_le; lia]. }
    pose proof (Zfloor_lb (B2R pos)) as Lb. pose proof (Zfloor_ub (B2R pos)) as Ub.
    assert (FF : format (B2R pos - IZR (Zfloor (B2R pos)))).
    { apply frac_format; [apply fmtB|exact P0|lia]. }
    destruct (Bminus_small_R pos (ofN KB i) Fp Fi) as (Fs & Rs).
    { rewrite Ri, Ei, (rnd_id _ FF), Rabs_pos_eq by lra. pose proof (one_lt_emax prec emax Hprec Hmax). lra. }
    rewrite Ri, Ei, (rnd_id _ FF) in Rs.
    destruct (Bone_R prec emax Hprec Hmax) as (F1 & E1).
    split; [exact Fs|]. split.
    - apply (Bleb_R' prec emax); [reflexivity|exact Fs|]. change (B2R (zero KB)) with 0.
      change (sub KB pos (ofN KB i)) with (Bminus mode_NE pos (ofN KB i)). rewrite Rs. lra.
    - apply (Bltb_R1' prec emax); [exact Fs|exact F1|].
      change (sub KB pos (ofN KB i)) with (Bminus mode_NE pos (ofN KB i)). rewrite Rs.
      change (B2R (one KB)) with (B2R (Bone' prec emax Hprec Hmax)). rewrite E1. lra.
  Qed.

  (** ** (2) one dimension of the inverse CDF.
      Requirement on dimension [d] of the grid, in the model's own operations: every bin has two boundaries,
      both finite, with 0 <= left <= right <= 1. *)
  Definition slice_ok (p : pdf KB) (d : N) : Prop :=
    forall b, (b < pdf_bins p)%N ->
      exists l r, bin_left p d b = Ok l /\ bin_left p d (b + 1) = Ok r /\
        isfinite KB l = true /\ isfinite KB r = true /\
        leb KB (zero KB) l = true /\ leb KB l r = true /\ leb KB r (one KB) = true.

  Lemma c07g_icdf1_point_in_bin (p : pdf KB) (d : N) (u0 : KB) :
    (1 <= pdf_bins p)%N -> (Z.of_N (pdf_bins p) < 2 ^ prec)%Z -> (pdf_bins p < 2 ^ 64)%N ->
    slice_ok p d -> unit_closed prec emax Hprec Hmax u0 ->
    exists x b w lft rgt,
      icdf1 p d u0 = Ok (x, b, w) /\ (b < pdf_bins p)%N /\
      bin_left p d b = Ok lft /\ bin_left p d (b + 1) = Ok rgt /\
      isfinite KB x = true /\ leb KB lft x = true /\ leb KB x rgt = true /\
      leb KB (zero KB) x = true /\ leb KB x (one KB) = true.
  Proof.
    intros B1 Bp B64 Hs Hu.
    destruct (c07f_guard_one prec emax Hprec Hmax u0 Hu) as (_ & _ & Hu').
    destruct (c07g_inside_open (pdf_bins p) _ B1 Bp B64 Hu') as (i & T & Hi & Hin).
    destruct (Hs i Hi) as (l & r & El & Er & Fl & Fr & L0 & LR & R1).
    destruct (c07g_point_in_bin_unit l r _ Fl Fr L0 LR R1 Hin) as (_ & _ & Fx & X0 & X1).
    cbv zeta in Fx, X0, X1.
    set (u' := if eqb KB u0 (one KB) then pred_one KB else u0) in *.
    set (pos := mul KB u' (ofN KB (pdf_bins p))) in *.
    set (xx := add KB l (mul KB (sub KB pos (ofN KB i)) (sub KB r l))) in *.
    exists xx, i, (mul KB (sub KB r l) (ofN KB (pdf_bins p))), l, r.
    split.
    { unfold icdf1. cbv zeta. fold u'. fold pos. rewrite T. rewrite El, Er. cbn [bind]. reflexivity. }
    split; [exact Hi|]. split; [exact El|]. split; [exact Er|]. split; [exact Fx|].
    split; [exact X0|]. split; [exact X1|].
    destruct (Bone_R prec emax Hprec Hmax) as (F1 & E1).
    change (is_finite l = true) in Fl. change (is_finite r = true) in Fr. change (is_finite xx = true) in Fx.
    pose proof (Bleb_R prec emax (B754_zero false) l eq_refl Fl L0) as A. cbn [B2R] in A.
    pose proof (Bleb_R prec emax l xx Fl Fx X0) as B.
    pose proof (Bleb_R prec emax xx r Fx Fr X1) as C.
    pose proof (Bleb_R prec emax r _ Fr F1 R1) as D. rewrite E1 in D.
    split.
    - apply (Bleb_R' prec emax); [reflexivity|exact Fx|]. change (B2R (zero KB)) with 0. lra.
    - apply (Bleb_R' prec emax); [exact Fx|exact F1|].
      change (B2R (one KB)) with (B2R (Bone' prec emax Hprec Hmax)). rewrite E1. lra.
  Qed.
End Float.

(* ------------------------------------------------------------------------------------------- *)
(** * all dimensions *)
Section Loop.
  Variables prec emax : Z.
  Context (Hprec : FLX.Prec_gt_0 prec) (Hmax : Prec_lt_emax prec emax).
  Hypothesis Hprec2 : (2 <= prec)%Z.
  Notation KB := (NumB prec emax Hprec Hmax).

  (** the point [x] reported with bin [b] in dimension [d] lies between the boundaries of that bin *)
  Definition point_in_bin (p : pdf KB) (d b : N) (x : KB) : Prop :=
    (b < pdf_bins p)%N /\
    exists l r, bin_left p d b = Ok l /\ bin_left p d (b + 1) = Ok r /\
      isfinite KB x = true /\ leb KB l x = true /\ leb KB x r = true.

  Lemma icdf_loop_points_in_bins (p : pdf KB) :
    (1 <= pdf_bins p)%N -> (Z.of_N (pdf_bins p) < 2 ^ prec)%Z -> (pdf_bins p < 2 ^ 64)%N ->
    forall (us : list KB) (d : N) (w : KB),
      (forall k, (k < length us)%nat -> slice_ok prec emax Hprec Hmax p (d + N.of_nat k)) ->
      Forall (unit_closed prec emax Hprec Hmax) us ->
      exists xs bs w', icdf_loop p d us w = Ok (xs, bs, w') /\
        length xs = length us /\ length bs = length us /\
        forall k x b, nth_error xs k = Some x -> nth_error bs k = Some b ->
          point_in_bin p (d + N.of_nat k) b x.
  Proof.
    intros B1 Bp B64. induction us as [|u0 us IH]; intros d w Hs Hus.
    - exists [], [], w. split; [reflexivity|]. split; [reflexivity|]. split; [reflexivity|].
      intros k x b E. destruct k; discriminate E.
    - inversion Hus as [|u1 us1 Hu Hus']; subst.
      destruct (c07g_icdf1_point_in_bin prec emax Hprec Hmax Hprec2 p d u0 B1 Bp B64
                  ltac:(rewrite <- (N.add_0_r d); apply (Hs 0%nat); cbn; lia) Hu)
        as (x & b & f & l & r & E & Hb & El & Er & Fx & X0 & X1 & _).
      destruct (IH (d + 1)%N (mul KB w f)) as (xs & bs & w' & E' & L1 & L2 & PB).
      { intros k Hk. replace (d + 1 + N.of_nat k)%N with (d + N.of_nat (S k))%N by lia.
        apply Hs. cbn [length]. lia. }
      { exact Hus'. }
      exists (x :: xs), (b :: bs), w'. cbn [icdf_loop]. rewrite E. cbn [bind]. rewrite E'. cbn [bind length].
      split; [reflexivity|]. split; [f_equal; exact L1|]. split; [f_equal; exact L2|].
      intros k x' b' Ex Eb. destruct k as [|k].
      + cbn in Ex, Eb. injection Ex as <-. injection Eb as <-. rewrite N.add_0_r.
        split; [exact Hb|]. exists l, r. repeat split; assumption.
      + cbn [nth_error] in Ex, Eb. replace (d + N.of_nat (S k))%N with (d + 1 + N.of_nat k)%N by lia.
        apply PB; assumption.
  Qed.

  Lemma c07g_icdf_points_in_bins (p : pdf KB) (us : list KB) :
    (1 <= pdf_bins p)%N -> (Z.of_N (pdf_bins p) < 2 ^ prec)%Z -> (pdf_bins p < 2 ^ 64)%N ->
    (forall k, (k < length us)%nat -> slice_ok prec emax Hprec Hmax p (N.of_nat k)) ->
    Forall (unit_closed prec emax Hprec Hmax) us ->
    exists xs bs w, icdf p us = Ok (xs, bs, w) /\
      length xs = length us /\ length bs = length us /\
      forall k x b, nth_error xs k = Some x -> nth_error bs k = Some b ->
        point_in_bin p (N.of_nat k) b x.
  Proof.
    intros B1 Bp B64 Hs Hus. unfold icdf.
    apply (icdf_loop_points_in_bins p B1 Bp B64 us 0%N (one KB)); [|exact Hus].
    intros k Hk. rewrite N.add_0_l. apply Hs. exact Hk.
  Qed.
End Loop.

(* ------------------------------------------------------------------------------------------- *)
(** * the three formats of the library *)
Lemma c07g_point_in_bin_formats :
  (forall lft rgt inside : B32,
     isfinite B32 lft = true -> isfinite B32 rgt = true -> leb B32 lft rgt = true ->
     unit_open 24 128 P24 M24 inside -> isfinite B32 (sub B32 rgt lft) = true ->
     leb B32 lft (add B32 lft (mul B32 inside (sub B32 rgt lft))) = true /\
     leb B32 (add B32 lft (mul B32 inside (sub B32 rgt lft))) rgt = true) /\
  (forall lft rgt inside : B64,
     isfinite B64 lft = true -> isfinite B64 rgt = true -> leb B64 lft rgt = true ->
     unit_open 53 1024 P53 M53 inside -> isfinite B64 (sub B64 rgt lft) = true ->
     leb B64 lft (add B64 lft (mul B64 inside (sub B64 rgt lft))) = true /\
     leb B64 (add B64 lft (mul B64 inside (sub B64 rgt lft))) rgt = true) /\
  (forall lft rgt inside : B80,
     isfinite B80 lft = true -> isfinite B80 rgt = true -> leb B80 lft rgt = true ->
     unit_open 64 16384 P64 M64 inside -> isfinite B80 (sub B80 rgt lft) = true ->
     leb B80 lft (add B80 lft (mul B80 inside (sub B80 rgt lft))) = true /\
     leb B80 (add B80 lft (mul B80 inside (sub B80 rgt lft))) rgt = true).
Proof.
  split; [|split]; intros lft rgt inside FL FR LR HU FS.
  - apply (c07g_point_in_bin 24 128 P24 M24 ltac:(lia) lft rgt inside FL FR LR HU FS).
  - apply (c07g_point_in_bin 53 1024 P53 M53 ltac:(lia) lft rgt inside FL FR LR HU FS).
  - apply (c07g_point_in_bin 64 16384 P64 M64 ltac:(lia) lft rgt inside FL FR LR HU FS).
Qed.

(* ------------------------------------------------------------------------------------------- *)
(** * examples, computed through the wire representation inside boolean checks *)

(** float: lft = 5 * 2^-26, rgt = inside = 1 - 2^-24.  The exact difference 1 - 2.25 * 2^-24 is not
    representable and is rounded UP to size = 1 - 2 * 2^-24 (the difficult case of the proof);
    inside * size rounds to 1 - 3 * 2^-24 and the point is 1 - 2 * 2^-24 < rgt. *)
Definition ex07g_lft : B32 := Bin 24 128 P24 M24 (OFin false 5 (-26)).
Definition ex07g_rgt : B32 := pred_one B32.
Definition ex07g_inside : B32 := pred_one B32.
Definition ex07g_size : B32 := sub B32 ex07g_rgt ex07g_lft.
Definition ex07g_x : B32 := add B32 ex07g_lft (mul B32 ex07g_inside ex07g_size).

Definition ex07g_check : bool :=
  isfinite B32 ex07g_lft && isfinite B32 ex07g_rgt && leb B32 ex07g_lft ex07g_rgt &&
  isfinite B32 ex07g_size &&
  outrep_eqb (Bout 24 128 ex07g_lft) (OFin false 10485760 (-47)) &&
  outrep_eqb (Bout 24 128 ex07g_rgt) (OFin false 16777215 (-24)) &&
  outrep_eqb (Bout 24 128 ex07g_size) (OFin false 16777214 (-24)) &&
  outrep_eqb (Bout 24 128 (mul B32 ex07g_inside ex07g_size)) (OFin false 16777213 (-24)) &&
  outrep_eqb (Bout 24 128 ex07g_x) (OFin false 16777214 (-24)) &&
  leb B32 ex07g_lft ex07g_x && leb B32 ex07g_x ex07g_rgt.
Lemma ex07g_check_true : ex07g_check = true.
Proof. vm_compute. reflexivity. Qed.

Lemma ex07g_point :
  isfinite B32 ex07g_lft = true /\ isfinite B32 ex07g_rgt = true /\ leb B32 ex07g_lft ex07g_rgt = true /\
  unit_open 24 128 P24 M24 ex07g_inside /\ isfinite B32 ex07g_size = true /\
  Bout 24 128 ex07g_lft = OFin false 10485760 (-47) /\
  Bout 24 128 ex07g_rgt = OFin false 16777215 (-24) /\
  Bout 24 128 ex07g_size = OFin false 16777214 (-24) /\
  Bout 24 128 (mul B32 ex07g_inside ex07g_size) = OFin false 16777213 (-24) /\
  Bout 24 128 ex07g_x = OFin false 16777214 (-24).
Proof.
  pose proof ex07g_check_true as H. unfold ex07g_check in H. split_andb H.
  pose proof (pred_one_open 24 128 P24 M24) as U.
  repeat match goal with |- _ /\ _ => split end;
    try assumption; try (apply outrep_eqb_eq; assumption); exact U.
Qed.

(** the starting grid [uniform_pdf 2 3] in float ([ex07f_p] of Lemmas_C07f.v): both dimensions satisfy
    [slice_ok]; u = 1 in dimension 1 gives the point 16777214 * 2^-24 in bin 2 = [fl(2/3), 1] *)
Definition slice_okb (p : pdf B32) (d b : N) : bool :=
  match bin_left p d b, bin_left p d (b + 1) with
  | Ok l, Ok r => isfinite B32 l && isfinite B32 r && leb B32 (zero B32) l && leb B32 l r && leb B32 r (one B32)
  | _, _ => false
  end.
Lemma slice_okb_ok p d b : slice_okb p d b = true ->
  exists l r, bin_left p d b = Ok l /\ bin_left p d (b + 1) = Ok r /\
    isfinite B32 l = true /\ isfinite B32 r = true /\
    leb B32 (zero B32) l = true /\ leb B32 l r = true /\ leb B32 r (one B32) = true.
Proof.
  unfold slice_okb. destruct (bin_left p d b) as [l|]; [|discriminate].
  destruct (bin_left p d (b + 1)) as [r|]; [|discriminate].
  intros H. split_andb H. exists l, r. repeat split; assumption.
Qed.

Definition ex07g_grid_check : bool :=
  N.eqb (pdf_bins ex07f_p) 3 &&
  slice_okb ex07f_p 0 0 && slice_okb ex07f_p 0 1 && slice_okb ex07f_p 0 2 &&
  slice_okb ex07f_p 1 0 && slice_okb ex07f_p 1 1 && slice_okb ex07f_p 1 2 &&
  match icdf1 ex07f_p 1 (one B32), bin_left ex07f_p 1 2, bin_left ex07f_p 1 3 with
  | Ok (x, b, w), Ok l, Ok r =>
      N.eqb b 2 && outrep_eqb (Bout 24 128 x) (OFin false 16777214 (-24)) &&
      outrep_eqb (Bout 24 128 l) (OFin false 11184811 (-24)) &&
      outrep_eqb (Bout 24 128 r) (OFin false 8388608 (-23))
  | _, _, _ => false
  end.
Lemma ex07g_grid_check_true : ex07g_grid_check = true.
Proof. vm_compute. reflexivity. Qed.

Lemma ex07g_grid :
  (1 <= pdf_bins ex07f_p)%N /\ (Z.of_N (pdf_bins ex07f_p) < 2 ^ 24)%Z /\ (pdf_bins ex07f_p < 2 ^ 64)%N /\
  slice_ok 24 128 P24 M24 ex07f_p 0 /\ slice_ok 24 128 P24 M24 ex07f_p 1 /\
  unit_closed 24 128 P24 M24 (one B32) /\
  exists x w l r, icdf1 ex07f_p 1 (one B32) = Ok (x, 2%N, w) /\
    bin_left ex07f_p 1 2 = Ok l /\ bin_left ex07f_p 1 3 = Ok r /\
    Bout 24 128 l = OFin false 11184811 (-24) /\ Bout 24 128 x = OFin false 16777214 (-24) /\
    Bout 24 128 r = OFin false 8388608 (-23).
Proof.
  pose proof ex07g_grid_check_true as H. unfold ex07g_grid_check in H. split_andb H.
  apply N.eqb_eq in H. rewrite H.
  split; [lia|]. split; [reflexivity|]. split; [reflexivity|].
  assert (S : forall d, slice_okb ex07f_p d 0 = true -> slice_okb ex07f_p d 1 = true ->
                        slice_okb ex07f_p d 2 = true -> slice_ok 24 128 P24 M24 ex07f_p d).
  { intros d A0 A1 A2 b Hb0. assert (Hb : (b < 3)%N) by (rewrite <- H; exact Hb0).
    assert (Cs : b = 0%N \/ b = 1%N \/ b = 2%N) by lia.
    destruct Cs as [->|[->| ->]]; apply slice_okb_ok; assumption. }
  split; [apply S; assumption|]. split; [apply S; assumption|].
  split; [apply unit_closed_zero_one|].
  destruct (icdf1 ex07f_p 1 (one B32)) as [[[x b] w]|]; [|discriminate Hc].
  destruct (bin_left ex07f_p 1 2) as [l|]; [|discriminate Hc].
  destruct (bin_left ex07f_p 1 3) as [r|]; [|discriminate Hc].
  split_andb Hc. apply N.eqb_eq in Hc. subst b.
  exists x, w, l, r. repeat split; try reflexivity; apply outrep_eqb_eq; assumption.
Qed.
