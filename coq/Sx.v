(** * Sx: the S-expression wire format of the correspondence check and decoding helpers.
    Harness code (trusted as part of the tie), no proofs. *)
From Coq Require Import ZArith NArith List String Ascii Bool.
From HepMC Require Import Num NumB.
Import ListNotations.
Local Open Scope string_scope.

Inductive sx :=
| SN (n : N)               (* integer                           *)
| SF (f : outrep)          (* floating-point value, exact       *)
| SS (s : string)          (* quoted string (raw bytes)         *)
| SY (s : string)          (* bare symbol                       *)
| SL (l : list sx).

(* structural equality of observations (used by the vm_compute cross-check of the extraction) *)
(* m * 2^e with m reduced to an odd mantissa (the wire format prints it that way) *)
Fixpoint odd_form (m : positive) (e : Z) : positive * Z :=
  match m with xO m' => odd_form m' (e + 1)%Z | _ => (m, e) end.
Definition outrep_eqb (a b : outrep) : bool :=
  match a, b with
  | ONan, ONan => true
  | OInf s, OInf t | OZero s, OZero t => Bool.eqb s t
  | OFin s m e, OFin t n f =>
    let '(m', e') := odd_form m e in let '(n', f') := odd_form n f in
    Bool.eqb s t && Pos.eqb m' n' && Z.eqb e' f'
  | _, _ => false
  end.
Fixpoint sx_eqb (a b : sx) : bool :=
  match a, b with
  | SN n, SN m => N.eqb n m
  | SF x, SF y => outrep_eqb x y
  | SS s, SS t | SY s, SY t => String.eqb s t
  | SL l, SL m =>
    (fix go (l m : list sx) : bool :=
       match l, m with
       | [], [] => true
       | x :: l', y :: m' => sx_eqb x y && go l' m'
       | _, _ => false
       end) l m
  | _, _ => false
  end.

Definition sym (s : string) (x : sx) : bool :=
  match x with SY t => String.eqb s t | _ => false end.

Section Dec.
  Context (F : Fmt).
  Notation K := (fnum F).

  Definition dN (x : sx) : option N := match x with SN n => Some n | _ => None end.
  Definition dF (x : sx) : option K := match x with SF f => Some (fin_ F f) | _ => None end.
  Definition dS (x : sx) : option string := match x with SS s => Some s | _ => None end.
  Definition dL (x : sx) : option (list sx) := match x with SL l => Some l | _ => None end.
  Definition dB (x : sx) : option bool := match x with SN n => Some (negb (N.eqb n 0)) | _ => None end.

  Fixpoint dlist {A} (d : sx -> option A) (l : list sx) : option (list A) :=
    match l with
    | [] => Some []
    | x :: l' => match d x, dlist d l' with Some a, Some r => Some (a :: r) | _, _ => None end
    end.
  Definition dLof {A} (d : sx -> option A) (x : sx) : option (list A) :=
    match x with SL l => dlist d l | _ => None end.

  Definition eF (x : K) : sx := SF (fout F x).
  Definition eFs (l : list K) : sx := SL (map eF l).
  Definition eNs (l : list N) : sx := SL (map SN l).
  Definition eB (b : bool) : sx := SN (if b then 1 else 0).

  (* association lists: (key v1 v2 ...) entries inside a list *)
  Fixpoint assoc (k : string) (l : list sx) : option (list sx) :=
    match l with
    | [] => None
    | SL (SY t :: vs) :: l' => if String.eqb k t then Some vs else assoc k l'
    | _ :: l' => assoc k l'
    end.

  (** libm value tables recorded from the real run: (pow x y r) and (log x r) entries *)
  Fixpoint lookup_pow (t : list sx) (x y : K) : option K :=
    match t with
    | [] => None
    | SL [SY s; SF a; SF b; SF r] :: t' =>
      if String.eqb s "pow" && fsame F (fin_ F a) x && fsame F (fin_ F b) y then Some (fin_ F r)
      else lookup_pow t' x y
    | _ :: t' => lookup_pow t' x y
    end.
  Fixpoint lookup_log (t : list sx) (x : K) : option K :=
    match t with
    | [] => None
    | SL [SY s; SF a; SF r] :: t' =>
      if String.eqb s "log" && fsame F (fin_ F a) x then Some (fin_ F r) else lookup_log t' x
    | _ :: t' => lookup_log t' x
    end.
  Definition nanK : K := fin_ F ONan.
  (* a miss means model and code took different paths: the NaN makes the outputs differ *)
  Definition libm_of (t : list sx) : Libm K :=
    {| flog := fun x => match lookup_log t x with Some r => r | None => nanK end;
       fpow := fun x y => match lookup_pow t x y with Some r => r | None => nanK end |}.

  Definition eRes {A} (e : A -> list sx) (r : res A) : sx :=
    match r with Ok a => SL (SY "ok" :: e a) | UB c => SL [SY "ub"; SN (N.of_nat c)] end.
End Dec.
