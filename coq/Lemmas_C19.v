(** Lemmas for C19: each iteration samples with the state derived from the previous one. *)
From Coq Require Import ZArith NArith List Bool Lia.
From HepMC Require Import Num Result Accum VegasPdf Discrete MultiChannel Iter Chkpt Callback Run Lemmas_Run.
Import ListNotations.

Section C19.
  Context {K : Num}.
  Context (L : Libm K).
  Variable strm : N -> K.
  Variable ps : list (dparams K).
  Variable f : integrand K.

  (** *** VEGAS: the points of an iteration are produced by the inverse CDF of the grid it was given, and
      that grid is the one recorded in the result *)
  Definition vegas_point_from (p : pdf K) (e : event K) : Prop :=
    exists o gpos, e = EvIntegrand o true /\
      icdf p (draws strm gpos (N.to_nat (pdf_dims p))) = Ok (o_point o, o_bins o, o_weight o).

  Lemma vegas_step_trace p s s' : vegas_step strm ps f p s = Ok s' ->
    exists e, it_tr s' = e :: it_tr s /\ vegas_point_from p e.
  Proof.
    unfold vegas_step. intros H. apply bind_Ok in H as ([[xs bs] w] & Hi & H).
    apply bind_Ok in H as ([a v] & _ & H). apply bind_Ok in H as (adj & _ & H).
    injection H as <-. cbn [it_tr]. eexists. split; [reflexivity|].
    eexists _, (it_g s). split; [reflexivity|]. cbn. exact Hi.
  Qed.

  Lemma vegas_iteration_state p calls g idx r g' idx' tr :
    vegas_iteration strm ps f p calls g idx = Ok (r, g', idx', tr) ->
    v_pdf r = p /\ Forall (vegas_point_from p) tr /\ length tr = N.to_nat calls.
  Proof.
    unfold vegas_iteration. intros H. apply bind_Ok in H as (s & Hl & H). injection H as <- _ _ <-.
    split; [reflexivity|].
    assert (HI : Forall (vegas_point_from p) (it_tr s) /\ length (it_tr s) = N.to_nat calls).
    { revert Hl. apply (iter_loop_ind _ (fun k s => Forall (vegas_point_from p) (it_tr s) /\ length (it_tr s) = N.to_nat k)).
      - cbn. split; [constructor|reflexivity].
      - intros k s1 s2 [H1 H2] Hs. apply vegas_step_trace in Hs as (e & -> & He). split; [constructor; auto|].
        cbn [length]. rewrite H2. lia. }
    destruct HI as [H1 H2]. split; [apply Forall_rev; exact H1|]. rewrite rev_length. exact H2.
  Qed.

  (* the grid the next iteration will use: the first grid, or the refinement of the LAST result under the
     checkpoint's alpha *)
  Lemma vchk_pdf_after_add c r g :
    vchk_pdf L (vchk_add c r g) = refine_pdf L (v_pdf r) (vc_alpha c) (v_adj r) /\
    vc_alpha (vchk_add c r g) = vc_alpha c.
  Proof. unfold vchk_pdf, vchk_add, base_add. cbn. rewrite rev_app_distr. cbn. auto. Qed.

  Lemma vchk_pdf_first c d : b_results (vc_base c) = [] ->
    vchk_pdf L (vchk_dimensions c d) =
    Ok (match vc_first c with Some p => p | None => uniform_pdf d (vc_bins c) end).
  Proof.
    intros H. unfold vchk_dimensions, vchk_pdf. rewrite H. destruct (vc_first c) as [p|] eqn:Ef; cbn; rewrite ?H, ?Ef; reflexivity.
  Qed.

  Lemma c19_vegas_threaded d cb cs c idx c' idx' ls :
    vegas_run L strm ps f d cb cs c idx = Ok (c', idx', ls) ->
    forall i l, nth_error ls i = Some l ->
      exists r gi, let cprev := nth i (chks _ _ (vchk_dimensions c d) ls) (vchk_dimensions c d) in
        il_chk l = vchk_add cprev r gi /\
        vchk_pdf L cprev = Ok (v_pdf r) /\
        Forall (vegas_point_from (v_pdf r)) (il_events l).
  Proof.
    unfold vegas_run. intros H i l Hn. apply run_exec in H as (g & rest & Hg & Hex).
    destruct (exec_iter_ok _ _ _ _ _ _ _ _ _ _ _ _ _ _ Hex i l Hn) as (calls & gi & idxi & gi' & idxi' & _ & (r & Hi & Ea & _)).
    apply bind_Ok in Hi as (p & Hp & Hi). apply vegas_iteration_state in Hi as (E1 & E2 & _).
    exists r, gi'. cbv zeta. split; [exact Ea|]. rewrite E1. split; [exact Hp|exact E2].
  Qed.

  (** *** multi-channel *)
  Variable mp : mcmap K.

  Definition mc_point_from (d : nat) (ws : list K) (e : event K) : Prop :=
    match e with
    | EvIntegrand o _ =>
      exists gpos jac dens,
        let us := draws strm gpos d in
        let ch := upper_bound (cumulative ws) (strm (gpos + N.of_nat d)) in
        let coords := m_coords mp (o_idx o) ch us (enabled ws) in
        o_point o = us /\ o_channel o = ch /\ o_coords o = coords /\
        m_dens mp (o_idx o) ch us coords (enabled ws) = (jac, dens) /\ mc_weight jac ws dens = Ok (o_weight o)
    | _ => True
    end.

  Lemma mc_step_trace d ws s s' : mc_step strm ps f mp d ws (cumulative ws) (enabled ws) s = Ok s' ->
    exists new, it_tr s' = new ++ it_tr s /\ Forall (mc_point_from d ws) new.
  Proof.
    unfold mc_step. destruct (m_dens mp _ _ _ _ _) as [jac dens] eqn:Ed. intros H.
    apply bind_Ok in H as (w & Hw & H). apply bind_Ok in H as ([a v] & _ & H).
    apply bind_Ok in H as (adj & _ & H). injection H as <-. cbn [it_tr].
    eexists (repeat _ _ ++ [_; _]). split; [rewrite <- app_assoc; reflexivity|].
    apply Forall_app. split.
    - apply Forall_forall. intros e He. apply repeat_spec in He. subst e. exact I.
    - constructor; [|constructor; [exact I|constructor]].
      cbn. exists (it_g s), jac, dens. cbn. repeat split; auto.
  Qed.

  Lemma mc_iteration_state d ws calls g idx r g' idx' tr :
    mc_iteration strm ps f mp d ws calls g idx = Ok (r, g', idx', tr) ->
    m_weights r = ws /\ Forall (mc_point_from d ws) tr.
  Proof.
    unfold mc_iteration. intros H. apply bind_Ok in H as (s & Hl & H). injection H as <- _ _ <-.
    split; [reflexivity|]. apply Forall_rev.
    revert Hl. apply (iter_loop_ind _ (fun _ s => Forall (mc_point_from d ws) (it_tr s))).
    - constructor.
    - intros k s1 s2 H1 Hs. apply mc_step_trace in Hs as (new & -> & Hn). apply Forall_app. auto.
  Qed.

  Lemma mchk_weights_after_add c r g :
    mchk_weights L (mchk_add c r g) = refine_weights L (m_weights r) (m_adj r) (mc_minw c) (mc_beta c) /\
    mc_minw (mchk_add c r g) = mc_minw c /\ mc_beta (mchk_add c r g) = mc_beta c.
  Proof. unfold mchk_weights, mchk_add, base_add. cbn. rewrite rev_app_distr. cbn. auto. Qed.

  (* first iteration: the (normalised) user weights - [mchk_user] stores refine_weights(user, 1...1) - or
     the uniform default *)
  Lemma mchk_weights_first c n : b_results (mc_base c) = [] ->
    mchk_weights L (mchk_channels c n) =
    Ok (match mc_first c with [] => repeat (div K (one K) (ofN K n)) (N.to_nat n) | w => w end).
  Proof.
    intros H. unfold mchk_channels, mchk_weights. destruct (mc_first c) as [|w ws] eqn:Ef; cbn; rewrite ?H, ?Ef; reflexivity.
  Qed.

  Lemma c19_mc_threaded d channels cb cs c idx c' idx' ls :
    mc_run L strm ps f mp d channels cb cs c idx = Ok (c', idx', ls) ->
    forall i l, nth_error ls i = Some l ->
      exists r gi, let cprev := nth i (chks _ _ (mchk_channels c channels) ls) (mchk_channels c channels) in
        il_chk l = mchk_add cprev r gi /\
        mchk_weights L cprev = Ok (m_weights r) /\
        Forall (mc_point_from d (m_weights r)) (il_events l).
  Proof.
    unfold mc_run. intros H i l Hn. apply run_exec in H as (g & rest & Hg & Hex).
    destruct (exec_iter_ok _ _ _ _ _ _ _ _ _ _ _ _ _ _ Hex i l Hn) as (calls & gi & idxi & gi' & idxi' & _ & (r & Hi & Ea & _)).
    apply bind_Ok in Hi as (ws & Hw & Hi). apply mc_iteration_state in Hi as (E1 & E2).
    exists r, gi'. cbv zeta. split; [exact Ea|]. rewrite E1. split; [exact Hw|exact E2].
  Qed.
End C19.

Lemma mchk_user_first {K : Num} (L : Libm K) ws minw beta g c :
  mchk_user L ws minw beta g = Ok c ->
  refine_weights L ws (repeat (one K) (length ws)) minw beta = Ok (mc_first c) /\ b_results (mc_base c) = [].
Proof.
  unfold mchk_user. intros H. apply bind_Ok in H as (first & Hf & H). injection H as <-. cbn. auto.
Qed.

(* non-vacuity: a real 3-iteration VEGAS run in double precision whose grid moves (libm replaced by an
   arbitrary finite stand-in: the theorems hold for every libm) *)
From HepMC Require Import NumB.
Definition ex19_L : Libm B64 := @Build_Libm B64 (fun x => div B64 (sub B64 x (one B64)) x) (fun x _ => x).
Definition ex19_strm (n : N) : B64 := div B64 (ofN B64 (N.modulo (n * 7 + 3) 16)) (ofN B64 16).
Definition ex19_f : integrand B64 := fun o => mk_iret (add B64 (one B64) (hd (zero B64) (o_point o))) [] false.
Definition ex19_run := vegas_run ex19_L ex19_strm [] ex19_f 1 (fun _ => true) [8; 8; 8]%N (vchk_default 4 (one B64) 0) 0.
Definition pdf_out (p : pdf B64) : list outrep := map (Bout 53 1024) (pdf_x p).
Definition outs_eqb (a b : list outrep) : bool :=
  if list_eq_dec (fun x y : outrep => ltac:(decide equality; try apply Bool.bool_dec; try apply Z.eq_dec; apply Pos.eq_dec) : {x = y} + {x <> y}) a b then true else false.
(* compared through the wire representation (sign, mantissa, exponent): the boundedness proofs carried by
   Flocq's B754_finite are irrelevant and expensive to normalise *)
Definition ex19_check : bool :=
  match ex19_run with
  | Ok (c, _, ls) =>
      Nat.eqb (length ls) 3 &&
      match b_results (vc_base c) with
      | [r0; r1; r2] =>
          outs_eqb (pdf_out (v_pdf r0)) (pdf_out (uniform_pdf 1 4)) &&
          match refine_pdf ex19_L (v_pdf r0) (one B64) (v_adj r0) with
          | Ok p => outs_eqb (pdf_out p) (pdf_out (v_pdf r1))
          | UB _ => false
          end &&
          negb (outs_eqb (pdf_out (v_pdf r1)) (pdf_out (v_pdf r0)))
      | _ => false end
  | UB _ => false end.
Lemma c19_example : ex19_check = true.
Proof. vm_compute. reflexivity. Qed.
