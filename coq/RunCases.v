(** * RunCases: interpreter of whole-run correspondence cases (scripted engine, table / polynomial
    integrands, table / grid channel maps, operation histories).  Harness code, no proofs. *)
From Coq Require Import ZArith NArith List String Ascii Bool.
From HepMC Require Import Num NumB Translated Result Accum VegasPdf Discrete MultiChannel Helper
  Iter Chkpt Callback Run Mpi Codec Sx Cases.
Import ListNotations.
Local Open Scope string_scope.

(** splitmix64: continuation of the raw stream after the scripted prefix *)
Definition m64 (x : N) : N := N.modulo x two64.
Definition splitmix64 (x : N) : N :=
  let z := m64 (x + 11400714819323198485) in
  let z := m64 (N.lxor z (N.shiftr z 30) * 13787848793156543929) in
  let z := m64 (N.lxor z (N.shiftr z 27) * 10723151780598845931) in
  N.lxor z (N.shiftr z 31).

Section RunCases.
  Context (F : Fmt).
  Notation K := (fnum F).

  (** std::generate_canonical<T, digits> on an engine with range [0, 2^64): one draw per number *)
  Definition canon (x : N) : K :=
    let r := div K (ofN K x) (ofN K two64) in
    if leb K (one K) r then pred_one K else r.

  Definition raw_stream (prefix : list N) (seed : N) (pos : N) : N :=
    match nthN prefix pos with Some x => x | None => splitmix64 (m64 (seed + pos)) end.

  Definition cyc (l : list K) (i : N) : K :=
    match l with [] => zero K | _ => nth (N.to_nat (N.modulo i (N.of_nat (List.length l)))) l (zero K) end.
  Definition row (l : list K) (i : N) (width : nat) : list K :=
    map (fun k => cyc l (i * N.of_nat width + k)) (iotaN 0 width).

  (** integrands *)
  Inductive src := SrcP (k : N) | SrcC (k : N) | SrcT (k : N) | SrcV | SrcK (c : K).
  Definition d_src (x : sx) : option src :=
    match x with
    | SL [SY s; SN k] => if String.eqb s "p" then Some (SrcP k) else if String.eqb s "c" then Some (SrcC k)
                         else if String.eqb s "t" then Some (SrcT k) else None
    | SL [SY s] => if String.eqb s "v" then Some SrcV else None
    | SL [SY s; SF c] => if String.eqb s "k" then Some (SrcK (fin_ F c)) else None
    | _ => None
    end.
  Definition ev_src (tables : list (list K)) (o : obs K) (v : K) (s : src) : K :=
    match s with
    | SrcP k => nth (N.to_nat k) (o_point o) (zero K)
    | SrcC k => nth (N.to_nat k) (o_coords o) (zero K)
    | SrcT k => cyc (nth (N.to_nat k) tables []) (o_idx o)
    | SrcV => v
    | SrcK c => c
    end.

  Record fillspec := mk_fillspec { fs_idx : N; fs_x : src; fs_y : option src; fs_v : src }.
  Definition d_fillspec (x : sx) : option fillspec :=
    match x with
    | SL [SN i; sxs; SY _; svs] =>
      match d_src sxs, d_src svs with Some a, Some c => Some (mk_fillspec i a None c) | _, _ => None end
    | SL [SN i; sxs; sys; svs] =>
      match d_src sxs, d_src sys, d_src svs with
      | Some a, Some b, Some c => Some (mk_fillspec i a (Some b) c) | _, _, _ => None end
    | _ => None
    end.

  Inductive fspec := FTab (vs : list K) | FPoly (ab : list (K * K)).
  Definition d_pair (x : sx) : option (K * K) :=
    match x with SL [SF a; SF b] => Some (fin_ F a, fin_ F b) | _ => None end.

  Fixpoint poly (ab : list (K * K)) (xs : list K) (acc : K) : K :=
    match ab, xs with
    | (a, b) :: ab', x :: xs' => poly ab' xs' (mul K acc (add K a (mul K b x)))
    | _, _ => acc
    end.

  Definition mk_integrand (is_mc : bool) (fs : fspec) (wants : bool) (fills : list fillspec)
             (tables : list (list K)) : integrand K :=
    fun o =>
      let v := match fs with
               | FTab vs => cyc vs (o_idx o)
               | FPoly ab => poly ab (if is_mc then o_coords o else o_point o) (one K)
               end in
      mk_iret v (map (fun s => match fs_y s with
                               | None => Fill1 (fs_idx s) (ev_src tables o v (fs_x s)) (ev_src tables o v (fs_v s))
                               | Some y => Fill2 (fs_idx s) (ev_src tables o v (fs_x s)) (ev_src tables o v y)
                                                 (ev_src tables o v (fs_v s))
                               end) fills) wants.

  (** channel maps *)
  (* grid map: channel -> dimension -> boundaries; common jacobian factor kappa *)
  Definition grid_coord (g : list K) (u : K) : K :=
    let bins := N.of_nat (List.length g - 1) in
    let position := mul K u (ofN K bins) in
    match trunc K position with
    | None => u
    | Some i => let lft := nth (N.to_nat i) g (zero K) in
                let rgt := nth (N.to_nat (i + 1)) g (one K) in
                add K lft (mul K (sub K position (ofN K i)) (sub K rgt lft))
    end.
  (* width of the bin of grid g containing y: first b with y < g[b+1], else the last bin *)
  Fixpoint grid_width (g : list K) (y : K) : K :=
    match g with
    | a :: ((b :: rest) as g') => match rest with
                                  | [] => sub K b a
                                  | _ => if ltb K y b then sub K b a else grid_width g' y
                                  end
    | _ => one K
    end.
  Definition grid_density (kappa : K) (gs : list (list K)) (ys : list K) : K :=
    fold_left (fun acc '(g, y) =>
      div K acc (mul K (ofN K (N.of_nat (List.length g - 1))) (grid_width g y))) (combine gs ys) kappa.

  Inductive mapspec :=
  | MapTab (coords dens jac : list K) (mapdims channels : nat)
  | MapGrid (kappa : K) (grids : list (list (list K))).

  Definition mk_map (m : mapspec) : mcmap K :=
    match m with
    | MapTab cs ds js md ch =>
      mk_mcmap (fun idx _ us _ => match cs with [] => firstn md us | _ => row cs idx md end)
               (fun idx _ _ _ _ => (cyc js idx, row ds idx ch))
    | MapGrid kappa grids =>
      mk_mcmap (fun _ ch us _ => map (fun '(g, u) => grid_coord g u) (combine (nth (N.to_nat ch) grids []) us))
               (fun _ _ _ coords _ => (kappa, map (fun gs => grid_density kappa gs coords) grids))
    end.

  (** encoders of results and checkpoints (every public accessor the C++ driver prints) *)
  Definition e_dparams (p : dparams K) : sx :=
    SL [SN (d_bx p); SN (d_by p); eF F (d_xmin p); eF F (d_ymin p); eF F (d_bsx p); eF F (d_bsy p); SS (d_name p)].
  Definition e_dres (d : dres K) : sx := SL [e_dparams (dr_par d); SL (map (e_mcres F) (dr_bins d))].
  Definition e_plain (r : plainres K) : list sx := [e_mcres F (p_main r); SL (map e_dres (p_dists r))].
  Definition e_pdf (p : pdf K) : sx := SL [SN (pdf_bins p); SN (pdf_dims p); eFs F (pdf_x p)].

  Definition e_gens (g : list N) : sx := SL (SY "gens" :: map SN g).

  (** events *)
  Definition e_event (is_mc : bool) (e : event K) : sx :=
    match e with
    | EvMapCoords ch us en => SL [SY "mc"; SN ch; eFs F us; eNs en]
    | EvIntegrand o wv =>
      SL ([SY "f"; SN (o_idx o); eFs F (o_point o); eFs F (o_coords o); SN (o_channel o); eNs (o_bins o)]
          ++ (if wv then [eF F (o_weight o)] else []))
    | EvMapDens ch us coords en => SL [SY "md"; SN ch; eFs F us; eFs F coords; eNs en]
    end.

  (** tokens of the serialised text *)
  Definition e_tok (t : tok K) : sx :=
    match t with
    | TNat n => SL [SY "n"; SN n]
    | TNum x => SL [SY "x"; eF F x]
    | TGen g => SL [SY "g"; SN g]
    | TStr s => SL [SY "s"; SS s]
    | TSp => SY "sp"
    | TNl => SY "nl"
    end.

  (** the three checkpoint kinds behind one interface *)
  Inductive anychk := CP (c : pchk K) | CV (c : vchk K) | CM (c : mchk K).

  Variable L : Libm K.
  Variable digits10 : string.

  Definition e_chk (c : anychk) : sx :=
    match c with
    | CP c => SL [SY "plain"; SL (map (fun r => SL (e_plain r)) (b_results c)); e_gens (b_gens c)]
    | CV c =>
      SL [SY "vegas";
          SL (map (fun r => SL (e_plain (v_plain r) ++ [e_pdf (v_pdf r); eFs F (v_adj r)])) (b_results (vc_base c)));
          e_gens (b_gens (vc_base c)); eF F (vc_alpha c);
          eRes (fun p => [e_pdf p]) (vchk_pdf L c)]
    | CM c =>
      SL [SY "mc";
          SL (map (fun r => SL (e_plain (m_plain r) ++ [eFs F (m_adj r); eFs F (m_weights r)])) (b_results (mc_base c)));
          e_gens (b_gens (mc_base c)); eF F (mc_beta c); eF F (mc_minw c);
          eRes (fun w => [eFs F w]) (mchk_weights L c)]
    end.

  Definition chk_text (c : anychk) : res (list (tok K)) :=
    match c with
    | CP c => Ok (ser_pchk digits10 c)
    | CV c => ser_vchk digits10 c
    | CM c => Ok (ser_mchk digits10 c)
    end.

  (* Numbers are abstract tokens in Codec.v; their decimal text is read back only for finite values (the C05 decimal
     theorems; operator>> rejects "inf" and "nan"), so a text that contains a non-finite number fails to load. *)
  Definition tok_readable (t : tok K) : bool := match t with TNum x => isfinite K x | _ => true end.
  Definition chk_reload (c : anychk) : res anychk :=
    do t <- chk_text c;
    if negb (forallb tok_readable t) then UB 95 else
    match c with
    | CP _ => do c' <- deser rd_pchk t; Ok (CP c')
    | CV _ => do c' <- deser rd_vchk t; Ok (CV c')
    | CM _ => do c' <- deser rd_mchk t; Ok (CM c')
    end.

  Definition chk_rollback (c : anychk) (k : N) : res anychk :=
    match c with
    | CP c => do c' <- base_rollback c k; Ok (CP c')
    | CV c => do c' <- vchk_rollback c k; Ok (CV c')
    | CM c => do c' <- mchk_rollback c k; Ok (CM c')
    end.

  Definition chk_nresults (c : anychk) : nat :=
    match c with
    | CP c => List.length (b_results c)
    | CV c => List.length (b_results (vc_base c))
    | CM c => List.length (b_results (mc_base c))
    end.
  Definition chk_plains (c : anychk) : list (plainres K) :=
    match c with
    | CP c => b_results c
    | CV c => map (fun r => v_plain r) (b_results (vc_base c))
    | CM c => map (fun r => m_plain r) (b_results (mc_base c))
    end.
  (* hep::accumulate<Accumulator> and chi_square_dof<Accumulator> over the results of a checkpoint *)
  Definition e_combine (wwv : bool) (c : anychk) : sx :=
    let acc := if wwv then @weighted_with_variance K else @weighted_equally K in
    let rs := chk_plains c in
    match accumulate_plain acc rs with
    | Ok r => SL [SY "combine"; SL (SY "ok" :: e_plain r ++ [eF F (chi_square_dof acc (map p_main rs))])]
    | UB _ => SL [SY "combine"; SL [SY "ub"]]
    end.
  Definition e_maxdiff (c : anychk) : sx :=
    match c with
    | CM c => SL (SY "maxdiff" :: map (fun r => eRes (fun x => [eF F x]) (pairs_max (m_adj r))) (b_results (mc_base c)))
    | _ => SL [SY "maxdiff"]
    end.
  Definition chk_mains (c : anychk) : list (mcres K) :=
    match c with
    | CP c => map p_main (b_results c)
    | CV c => map (fun r => p_main (v_plain r)) (b_results (vc_base c))
    | CM c => map (fun r => p_main (m_plain r)) (b_results (mc_base c))
    end.

  (** callbacks *)
  Inductive cbspec := CbBuiltin (mode : N) (target : K) | CbScript (l : list bool).
  Definition cb_eval (cb : cbspec) (c : anychk) : bool :=
    match cb with
    | CbBuiltin _ target => decide target (chk_mains c)
    | CbScript l => nth (chk_nresults c - 1) l true
    end.

  (** built-in callback effects that the C++ driver can observe: the multi-channel summary skeleton
      (verbose modes) and the bytes written to the file (write modes) *)
  Definition e_summary (c : anychk) : list sx :=
    match c with
    | CM c =>
      match rev (b_results (mc_base c)) with
      | r :: _ =>
        let info := weight_info (r_calls (p_main (m_plain r))) (m_weights r) in
        let channels := N.of_nat (List.length (wi_channels info)) in
        let entry i := SL [SN (nth (N.to_nat i) (wi_channels info) 0%N);
                           eRes (fun n => [SN n]) (nth (N.to_nat i) (wi_calls info) (UB 72))] in
        [SL [SY "summary"; SN channels; SN (wi_min info);
             SL (map (fun '(a, b) => SL [SN a; SN b]) (list_of_ranges (firstn (N.to_nat (wi_min info)) (wi_channels info))));
             SL (map entry (summary_indices channels (wi_min info)))]]
      | [] => []
      end
    | _ => []
    end.

  Definition e_cb_effects (cb : cbspec) (c : anychk) : list sx :=
    match cb with
    | CbBuiltin mode _ =>
      (if (N.eqb mode 2 || N.eqb mode 3)%bool then e_summary c else [])
      ++ (if (N.eqb mode 1 || N.eqb mode 3)%bool
          then [SL [SY "wrote"; eRes (fun t => map e_tok t) (chk_text c)]] else [])
    | CbScript _ => []
    end.

  Record runspec := mk_runspec {
    rs_kind : string; rs_dims : N; rs_channels : N;
    rs_strm : N -> K; rs_ps : list (dparams K); rs_f : integrand K; rs_map : mcmap K;
    rs_cb : cbspec; rs_trace : bool }.

  Definition e_log {C} (wrap : C -> anychk) (rs : runspec) (is_mc : bool) (log : list (iterlog C (event K))) : list sx :=
    [SL (SY "cbs" :: map (fun l => SL ([SN (N.of_nat (chk_nresults (wrap (il_chk l)))); eB (il_continue l)]
                                        ++ e_cb_effects (rs_cb rs) (wrap (il_chk l)))) log)]
    ++ (if rs_trace rs then [SL (SY "events" :: flat_map (fun l => map (e_event is_mc) (il_events l)) log)] else []).

  Definition do_run (rs : runspec) (cs : list N) (c : anychk) (idx : N) : res (anychk * N * list sx) :=
    match c with
    | CP c =>
      do r <- plain_run (rs_strm rs) (rs_ps rs) (rs_f rs) (N.to_nat (rs_dims rs)) (fun c => cb_eval (rs_cb rs) (CP c)) cs c idx;
      let '(c', idx', log) := r in Ok (CP c', idx', e_log CP rs false log)
    | CV c =>
      do r <- vegas_run L (rs_strm rs) (rs_ps rs) (rs_f rs) (rs_dims rs) (fun c => cb_eval (rs_cb rs) (CV c)) cs c idx;
      let '(c', idx', log) := r in Ok (CV c', idx', e_log CV rs false log)
    | CM c =>
      do r <- mc_run L (rs_strm rs) (rs_ps rs) (rs_f rs) (rs_map rs) (N.to_nat (rs_dims rs)) (rs_channels rs)
                     (fun c => cb_eval (rs_cb rs) (CM c)) cs c idx;
      let '(c', idx', log) := r in Ok (CM c', idx', e_log CM rs true log)
    end.

  (** the MPI drivers: every rank's callbacks, events, collectives and final checkpoint *)
  Definition e_rank {C St} (wrap : C -> anychk) (rs : runspec) (is_mc : bool) (r : nat)
             (st : rank_state C St) (logs : list (list (rank_log C))) : sx :=
    let mine := flat_map (fun ls => match nth_error ls r with Some l => [l] | None => [] end) logs in
    SL ([SY "rank";
         SL (SY "cbs" :: map (fun l => SL [SN (N.of_nat (chk_nresults (wrap (rl_chk l)))); eB (rl_continue l)]) mine)]
        ++ (if rs_trace rs then [SL (SY "events" :: flat_map (fun l => map (e_event is_mc) (rl_events l)) mine)] else [])
        ++ [SL (SY "coll" :: flat_map (fun l => map (fun '(n, k) => SL [SN (N.of_nat n); SN (N.of_nat k)]) (rl_collectives l)) mine);
            SL [SY "dump"; e_chk (wrap (rs_chk st))]]).

  Fixpoint e_ranks {C St} (wrap : C -> anychk) (rs : runspec) (is_mc : bool) (r : nat)
           (sts : list (rank_state C St)) (logs : list (list (rank_log C))) : list sx :=
    match sts with
    | [] => []
    | st :: sts' => e_rank wrap rs is_mc r st logs :: e_ranks wrap rs is_mc (S r) sts' logs
    end.

  Definition e_mpi {C St} (wrap : C -> anychk) (rs : runspec) (is_mc : bool)
             (x : res (list (rank_state C St) * list (list (rank_log C)))) : sx * option (anychk * N) :=
    match x with
    | UB code => (SL [SY "mpi"; SL [SY "ub"; SN (N.of_nat code)]], None)
    | Ok (sts, logs) =>
      let iters := N.of_nat (List.length logs) in
      let '(printed, wrote) :=
        match rs_cb rs with
        | CbBuiltin mode _ => (if (N.eqb mode 2 || N.eqb mode 3)%bool then iters else 0%N,
                               if ((N.eqb mode 1 || N.eqb mode 3) && negb (N.eqb iters 0))%bool then 1%N else 0%N)
        | CbScript _ => (0%N, 0%N)
        end in
      (SL ([SY "mpi"; SL [SY "printed"; SN printed]; SL [SY "file"; SN wrote]] ++ e_ranks wrap rs is_mc 0 sts logs),
       match sts with st :: _ => Some (wrap (rs_chk st), rs_idx st) | [] => None end)
    end.

  Definition do_mpi (rs : runspec) (cs : list N) (world : N) (perm : list N) (c : anychk) (idx : N)
    : sx * option (anychk * N) :=
    match c with
    | CP c =>
      e_mpi CP rs false (mpi_plain_run (rs_strm rs) (rs_ps rs) (rs_f rs) world perm (N.to_nat (rs_dims rs))
                                       (fun _ c => cb_eval (rs_cb rs) (CP c)) cs c idx)
    | CV c =>
      e_mpi CV rs false (mpi_vegas_run L (rs_strm rs) (rs_ps rs) (rs_f rs) world perm (rs_dims rs)
                                       (fun _ c => cb_eval (rs_cb rs) (CV c)) cs c idx)
    | CM c =>
      e_mpi CM rs true (mpi_mc_run L (rs_strm rs) (rs_ps rs) (rs_f rs) world perm (rs_map rs) (N.to_nat (rs_dims rs))
                                   (rs_channels rs) (fun _ c => cb_eval (rs_cb rs) (CM c)) cs c idx)
    end.

  (** operation histories *)
  Fixpoint do_ops (rs : runspec) (ops : list sx) (c : anychk) (idx : N) : list sx :=
    match ops with
    | [] => []
    | op :: ops' =>
      match op with
      | SL [SY o; SL cs] =>
        if String.eqb o "run" then
          match dlist dN cs with
          | Some calls =>
            match do_run rs calls c idx with
            | Ok (c', idx', out) => SL (SY "run" :: out) :: do_ops rs ops' c' idx'
            | UB code => [SL [SY "run"; SL [SY "ub"; SN (N.of_nat code)]]]
            end
          | None => [bad]
          end
        else [bad]
      | SL [SY o; SL cs; SN world; SL perm] =>
        if String.eqb o "mpi" then
          match dlist dN cs, dlist dN perm with
          | Some calls, Some pm =>
            match do_mpi rs calls world pm c idx with
            | (out, Some (c', idx')) => out :: do_ops rs ops' c' idx'
            | (out, None) => [out]
            end
          | _, _ => [bad]
          end
        else [bad]
      | SL [SY o; SY which] =>
        if String.eqb o "combine" then e_combine (String.eqb which "wwv") c :: do_ops rs ops' c idx
        else [bad]
      | SL [SY o; SN k] =>
        if String.eqb o "rollback" then
          match chk_rollback c k with
          | Ok c' => SL [SY "rollback"; SY "ok"] :: do_ops rs ops' c' idx
          | UB _ => SL [SY "rollback"; SY "throw"] :: do_ops rs ops' c idx
          end
        else [bad]
      | SL [SY o] =>
        if String.eqb o "dump" then SL [SY "dump"; e_chk c] :: do_ops rs ops' c idx
        else if String.eqb o "maxdiff" then e_maxdiff c :: do_ops rs ops' c idx
        else if String.eqb o "text" then SL [SY "text"; eRes (fun t => map e_tok t) (chk_text c)] :: do_ops rs ops' c idx
        else if String.eqb o "reload" then
          match chk_reload c with
          | Ok c' => SL [SY "reload"; SY "ok"] :: do_ops rs ops' c' idx
          | UB 95 => [SL [SY "reload"; SY "stream_failed"]]
          | UB code => [SL [SY "reload"; SL [SY "ub"; SN (N.of_nat code)]]]
          end
        else [bad]
      | _ => [bad]
      end
    end.

  (** decoding of the run specification *)
  Definition d_dparams (x : sx) : option (dparams K) :=
    match x with
    | SL [SN bx; SN by_; SF xmin; SF xmax; SF ymin; SF ymax; SS name] =>
      Some (make_dparams2 bx by_ (fin_ F xmin) (fin_ F xmax) (fin_ F ymin) (fin_ F ymax) name)
    | _ => None
    end.

  Definition opt_default {A} (d : A) (o : option A) : A := match o with Some a => a | None => d end.

  Definition d_fspec (l : list sx) : option fspec :=
    match l with
    | [SL [SY s; vs]] =>
      if String.eqb s "tab" then match dLof (dF F) vs with Some v => Some (FTab v) | None => None end
      else if String.eqb s "poly" then match dLof d_pair vs with Some v => Some (FPoly v) | None => None end
      else None
    | _ => None
    end.

  Definition d_mapspec (md ch : N) (l : list sx) : option mapspec :=
    match l with
    | [SL [SY s; cs; ds; js]] =>
      if String.eqb s "tab" then
        match dLof (dF F) cs, dLof (dF F) ds, dLof (dF F) js with
        | Some c, Some d, Some j => Some (MapTab c d j (N.to_nat md) (N.to_nat ch))
        | _, _, _ => None end
      else None
    | [SL [SY s; SF kappa; gs]] =>
      if String.eqb s "grid" then
        match dLof (dLof (dLof (dF F))) gs with
        | Some g => Some (MapGrid (fin_ F kappa) g)
        | None => None end
      else None
    | _ => None
    end.

  Definition d_chk (kind : string) (l : list sx) (g0 : N) : option anychk :=
    match l with
    | [SL [SY s]] => if String.eqb s "plain" then Some (CP (base_init g0)) else None
    | [SL [SY s; SN bins; SF alpha]] =>
      if String.eqb s "default" then Some (CV (vchk_default bins (fin_ F alpha) g0)) else None
    | [SL [SY s; SN bins; SN dims; xs; SF alpha]] =>
      if String.eqb s "pdf" then
        match dLof (dF F) xs with
        | Some x => Some (CV (vchk_user (mk_pdf bins dims x) (fin_ F alpha) g0))
        | None => None end
      else None
    | [SL [SY s; SF minw; SF beta]] =>
      if String.eqb s "default" then Some (CM (mchk_default (fin_ F minw) (fin_ F beta) g0)) else None
    | [SL [SY s; ws; SF minw; SF beta]] =>
      if String.eqb s "weights" then
        match dLof (dF F) ws with
        | Some w => match mchk_user L w (fin_ F minw) (fin_ F beta) g0 with Ok c => Some (CM c) | UB _ => None end
        | None => None end
      else None
    | _ => None
    end.

  Definition d_cb (l : list sx) : option cbspec :=
    match l with
    | [SL [SY s; SN mode; SF target]] => if String.eqb s "builtin" then Some (CbBuiltin mode (fin_ F target)) else None
    | [SL [SY s; bs]] => if String.eqb s "script" then match dLof dB bs with Some b => Some (CbScript b) | None => None end else None
    | _ => None
    end.

  Definition getN1 (k : string) (spec : list sx) (d : N) : N :=
    match assoc k spec with Some [SN n] => n | _ => d end.

  Definition run_case (spec : list sx) : sx :=
    let kind := match assoc "kind" spec with Some [SY s] => s | _ => "" end in
    let is_mc := String.eqb kind "mc" in
    let dims := getN1 "dims" spec 1 in
    let channels := getN1 "channels" spec 1 in
    let mapdims := getN1 "mapdims" spec dims in
    let prefix := match assoc "raw" spec with Some [SL l] => opt_default [] (dlist dN l) | _ => [] end in
    let seed := getN1 "seed" spec 0 in
    let g0 := getN1 "pos" spec 0 in
    let idx0 := getN1 "idx" spec 0 in
    let strm := fun pos => canon (raw_stream prefix seed pos) in
    let ps := match assoc "dists" spec with Some [SL l] => opt_default [] (dlist d_dparams l) | _ => [] end in
    let tables := match assoc "tables" spec with Some [SL l] => opt_default [] (dlist (dLof (dF F)) l) | _ => [] end in
    let fills := match assoc "fills" spec with Some [SL l] => opt_default [] (dlist d_fillspec l) | _ => [] end in
    let wants := negb (N.eqb (getN1 "wants" spec 0) 0) in
    match option_map d_fspec (assoc "f" spec), option_map (d_chk kind) (assoc "chk" spec),
          option_map d_cb (assoc "cb" spec), assoc "ops" spec with
    | Some (Some fs), Some mkchk, Some (Some cb), Some [SL ops] =>
      match mkchk g0 with
      | Some c =>
        let mp := match option_map (d_mapspec mapdims channels) (assoc "map" spec) with
                  | Some (Some m) => mk_map m
                  | _ => mk_map (MapTab [] [] [] (N.to_nat mapdims) (N.to_nat channels))
                  end in
        let rs := mk_runspec kind dims channels strm ps (mk_integrand is_mc fs wants fills tables) mp cb
                             (negb (N.eqb (getN1 "trace" spec 0) 0)) in
        SL (do_ops rs ops c idx0)
      | None => bad
      end
    | _, _, _, _ => bad
    end.
End RunCases.
